(* C10/ViewRefine.v — configAssign / configRemove / configQuery through a sub-tree
   view (configRoot.base non-empty) and the history theorem over ALL handles. *)
From MptV Require Import Base.Mem Base.Tactics C10.ConfigModel C10.ConfigSpec C10.PathProofs
  C10.TreeQuery C10.TreeOps C10.TreeAssign C10.StoreRefine C10.TreeView.
Local Open Scope nat_scope.

Lemma wff_trail_kids : forall f m t nd, trail_of f m t nd -> wff f -> wff (nkids' nd).
Proof.
  induction 1 as [f n i nd Hf | f n m i nd t x Hf Hm Ht IH]; intros Hwf.
  - destruct (find_idx_first _ _ _ _ Hf) as (Hn & _). apply wfn_unfold.
    destruct Hwf as [_ Hall]. rewrite Forall_forall in Hall. apply Hall. eapply nth_error_In; eauto.
  - apply IH. destruct (find_idx_first _ _ _ _ Hf) as (Hn & _). apply wfn_unfold.
    destruct Hwf as [_ Hall]. rewrite Forall_forall in Hall. apply Hall. eapply nth_error_In; eauto.
Qed.

Lemma upd_gen_twice' (L : key -> entry) q v k :
  upd_gen (upd_gen L q None) q (Some v) k = upd_gen L q (Some v) k.
Proof.
  unfold upd_gen. destruct (key_eqb k q); [reflexivity|].
  destruct (key_proper_prefix k q); [apply touch_idem'|reflexivity].
Qed.

Definition vpath (b : path) : Prop := pwf b /\ elems b <> [] /\ Forall name_ok (elems b).

Lemma vpath_plen b : vpath b -> plen b <> 0.
Proof. intros (_ & H & _) Hz. apply H. apply elems_nil_iff. assumption. Qed.

(* ---------------------------------------------------------------- assign *)
Lemma cfg_assign_view g b p v : vpath b -> wff g -> pwf p -> Forall name_ok (elems p) ->
  exists g', cfg_assign g b p v = Done (g', RcOk) /\ wff g' /\
    forall k, k <> [] -> tlook g' k = upd_gen (tlook g) (elems b ++ elems p) (Some (Some v)) k.
Proof.
  intros Hv Hwf Hw Hok. pose proof (vpath_plen b Hv) as Hbz. destruct Hv as (Hwb & Hbne & Hbok).
  unfold cfg_assign. destruct (Nat.eqb_spec (plen b) 0); [congruence|].
  destruct (make_global_spec g b Hwf Hwb Hbne Hbok) as (g1 & tb & nd1 & Hmg & Hwf1 & Ht1 & Hl1).
  rewrite Hmg. cbn [cbind]. rewrite (trail_of_node_at _ _ _ _ Ht1).
  destruct (Nat.eqb_spec (plen p) 0) as [Hz|Hz].
  - apply elems_nil_iff in Hz. rewrite Hz, app_nil_r. cbn [meta_set]. rewrite meta_new_total.
    eexists. split; [reflexivity|]. split.
    + eapply wff_upd_at; eauto. intros Hn. apply wfn_unfold. cbn. apply wfn_unfold. assumption.
    + intros k Hk. rewrite (tlook_setval g1 (elems b) tb nd1 Ht1 (Some v) k Hk).
      rewrite <- (upd_gen_twice' (tlook g) (elems b) (Some v) k). apply upd_gen_ext. apply Hl1. assumption.
  - assert (Hne : elems p <> []) by (intros H; apply Hz; apply elems_nil_iff; assumption).
    pose proof (wff_trail_kids _ _ _ _ Ht1 Hwf1) as Hwk.
    destruct (node_assign_spec (nkids' nd1) p (Some v) Hwk Hw Hne Hok) as (kids' & t2 & Ha & Hwk' & Hl2);
      [intros Hx; discriminate Hx|].
    rewrite Ha. cbn [cbind]. eexists. split; [reflexivity|]. split.
    + eapply wff_upd_at; eauto. intros _. apply wfn_unfold. cbn. assumption.
    + intros k Hk.
      rewrite (tlook_under g1 (elems b) tb nd1 Ht1 kids' (elems p) (Some (Some v)) Hne Hl2 k Hk).
      rewrite <- (upd_gen_compose (tlook g) (elems b) (elems p) (Some v) k Hne).
      apply upd_gen_ext. apply Hl1. assumption.
Qed.

(* ---------------------------------------------------------------- remove *)
Lemma absent_below : forall b g k, b <> [] -> tlook g b = Absent -> key_prefix b k = true -> tlook g k = Absent.
Proof.
  induction b as [|n b IH]; intros g k Hb Ha Hp; [congruence|].
  destruct k as [|n' k]; [discriminate|]. cbn in Hp. apply andb_true_iff in Hp as [H1 H2].
  apply bytes_eqb_eq in H1. subst n'. cbn [tlook] in *.
  destruct (find_node n g) as [nd|]; [|reflexivity].
  destruct b as [|a b]; [discriminate|].
  destruct k as [|a' k]; [discriminate|]. apply IH; [discriminate|assumption|assumption].
Qed.

Lemma aquery_not_full f r q r2 : aquery f r = (q, r2) -> r <> [] -> (q = None \/ r2 <> []) -> tlook f r = Absent.
Proof.
  intros Ha Hr [Hq|Hr2].
  - subst q. destruct (aquery_none _ _ _ Ha) as [Hrk Hn]. rewrite Hrk in *.
    eapply aquery_partial_absent; eauto.
  - eapply aquery_partial_absent; eauto.
Qed.

Lemma cfg_remove_view g b p : vpath b -> wff g -> pwf p ->
  exists g' r, cfg_remove g b p = Done (g', r) /\ wff g' /\ r <> RcOk /\
  match elems p with
  | [] => is_removed r = false /\
          forall k, tlook g' k = if key_proper_prefix (elems b) k then Absent else tlook g k
  | q => (is_removed r = true <-> tlook g (elems b ++ q) <> Absent) /\
         forall k, tlook g' k = if is_removed r && key_prefix (elems b ++ q) k then Absent else tlook g k
  end.
Proof.
  intros Hv Hwf Hw. pose proof (vpath_plen b Hv) as Hbz. destruct Hv as (Hwb & Hbne & Hbok).
  (* what has to be shown when nothing is found *)
  assert (Hnf : tlook g (elems b) = Absent ->
    exists g' r, Done (g, RcNotFound) = Done (g', r) /\ wff g' /\ r <> RcOk /\
      match elems p with
      | [] => is_removed r = false /\
              forall k, tlook g' k = if key_proper_prefix (elems b) k then Absent else tlook g k
      | q => (is_removed r = true <-> tlook g (elems b ++ q) <> Absent) /\
             forall k, tlook g' k = if is_removed r && key_prefix (elems b ++ q) k then Absent else tlook g k
      end).
  { intros Habs. exists g, RcNotFound. split; [reflexivity|]. split; [assumption|]. split; [discriminate|].
    destruct (elems p) as [|n q].
    - split; [reflexivity|]. intros k. destruct (key_proper_prefix (elems b) k) eqn:E; [|reflexivity].
      unfold key_proper_prefix in E. apply andb_true_iff in E as [E _]. eapply absent_below; eauto.
    - split; [|reflexivity]. split; [discriminate|]. intros Hx. exfalso. apply Hx.
      eapply absent_below; eauto. apply key_prefix_app. }
  unfold cfg_remove. destruct g as [|n0 g0] eqn:Eg.
  { exists [], RcRefused. split; [reflexivity|]. split; [apply wff_nil|]. split; [discriminate|].
    destruct (elems p).
    - split; [reflexivity|]. intros k. rewrite tlook_nil. destruct (key_proper_prefix (elems b) k); reflexivity.
    - split; [|intros k; reflexivity]. split; [discriminate|]. intros H. exfalso. apply H. apply tlook_nil. }
  rewrite <- Eg in *. clear Eg n0 g0.
  destruct (Nat.eqb_spec (plen b) 0); [congruence|].
  destruct (node_query_spec g b Hwb) as (pb & Hq & Hwpb & Hepb & _). rewrite Hq. cbn [cbind].
  destruct (aquery g (elems b)) as [qb rb] eqn:Eab. cbn [fst snd] in *.
  destruct qb as [tb|]; [|apply Hnf; eapply aquery_not_full; eauto].
  destruct (Nat.eqb_spec (plen pb) 0) as [Hzb|Hzb]; cbn [negb];
    [|apply Hnf; eapply aquery_not_full; eauto; right; intros H; apply Hzb; apply elems_nil_iff; congruence].
  apply elems_nil_iff in Hzb. assert (E0 : rb = []) by congruence. rewrite E0 in *. clear E0.
  destruct (aquery_full_trail _ _ _ Eab) as (nd & Htb).
  rewrite (trail_of_node_at _ _ _ _ Htb).
  destruct (Nat.eqb_spec (plen p) 0) as [Hz|Hz].
  - (* clear everything beneath the base node *)
    apply elems_nil_iff in Hz. rewrite Hz.
    eexists _, RcCleared. split; [reflexivity|]. split.
    + eapply wff_upd_at; eauto. intros _. cbn. split; [constructor|exact I].
    + split; [discriminate|]. split; [reflexivity|]. intros k.
      rewrite (tlook_upd_at g (elems b) tb nd (fun n => Node (nname' n) (nval' n) []) Htb eq_refl k).
      cbn [nval' nkids']. destruct (key_eqb k (elems b)) eqn:E.
      * apply key_eqb_eq in E. subst k. unfold key_proper_prefix. rewrite key_eqb_refl, andb_false_r.
        symmetry. apply (trail_of_tlook _ _ _ _ Htb).
      * destruct (key_proper_prefix (elems b) k); [apply tlook_nil|reflexivity].
  - assert (Hne : elems p <> []) by (intros H; apply Hz; apply elems_nil_iff; assumption).
    destruct (node_query_spec (nkids' nd) p Hw) as (p' & Hq' & Hw' & He' & _). rewrite Hq'. cbn [cbind].
    destruct (aquery (nkids' nd) (elems p)) as [q r2] eqn:Ea. cbn [fst snd] in *.
    assert (Hdesc : tlook g (elems b ++ elems p) = tlook (nkids' nd) (elems p))
      by (apply (tlook_descend g (elems b) tb nd Htb); assumption).
    assert (Hnf2 : tlook (nkids' nd) (elems p) = Absent ->
      exists g' r, Done (g, RcNotFound) = Done (g', r) /\ wff g' /\ r <> RcOk /\
        match elems p with
        | [] => is_removed r = false /\
                forall k, tlook g' k = if key_proper_prefix (elems b) k then Absent else tlook g k
        | q => (is_removed r = true <-> tlook g (elems b ++ q) <> Absent) /\
               forall k, tlook g' k = if is_removed r && key_prefix (elems b ++ q) k then Absent else tlook g k
        end).
    { intros Habs. exists g, RcNotFound. split; [reflexivity|]. split; [assumption|]. split; [discriminate|].
      destruct (elems p) as [|n1 q1]; [congruence|]. split; [|reflexivity]. split; [discriminate|].
      intros Hx. exfalso. apply Hx. rewrite Hdesc. assumption. }
    destruct q as [tr|]; [|apply Hnf2; eapply aquery_not_full; eauto].
    destruct (Nat.eqb_spec (plen p') 0) as [Hz'|Hz'];
      [|apply Hnf2; eapply aquery_not_full; eauto; right; intros H; apply Hz'; apply elems_nil_iff; congruence].
    apply elems_nil_iff in Hz'. assert (E0 : r2 = []) by congruence. rewrite E0 in *. clear E0.
    destruct (aquery_full_trail _ _ _ Ea) as (x & Htr).
    pose proof (trail_compose g (elems b) tb nd Htb (elems p) tr x Htr) as Hfull.
    exists (remove_at g (tb ++ tr)), RcRemoved. split; [reflexivity|].
    split; [eapply wff_remove_at; eauto|]. split; [discriminate|].
    destruct (elems p) as [|n1 q1] eqn:Ep; [congruence|]. split.
    + split; [|reflexivity]. intros _. rewrite (trail_of_tlook _ _ _ _ Hfull). discriminate.
    + intros k. cbn [is_removed andb]. apply (tlook_remove_at g _ _ x Hfull Hwf k).
Qed.

(* ---------------------------------------------------------------- query *)
Lemma cfg_query_view g b p : vpath b -> pwf p ->
  cfg_query g b p =
  Done (match tlook g (elems b) with Absent => Absent | _ => tlook g (elems b ++ elems p) end).
Proof.
  intros Hv Hw. pose proof (vpath_plen b Hv) as Hbz. destruct Hv as (Hwb & Hbne & Hbok).
  unfold cfg_query. destruct (Nat.eqb_spec (plen b) 0); [congruence|].
  destruct (node_query_spec g b Hwb) as (pb & Hq & Hwpb & Hepb & _). rewrite Hq. cbn [cbind].
  destruct (aquery g (elems b)) as [qb rb] eqn:Eab. cbn [fst snd] in *.
  destruct qb as [tb|].
  2:{ cbn. rewrite (aquery_not_full _ _ _ _ Eab Hbne (or_introl eq_refl)). reflexivity. }
  destruct (Nat.eqb_spec (plen pb) 0) as [Hzb|Hzb]; cbn [negb].
  2:{ cbn. rewrite (aquery_not_full _ _ _ _ Eab Hbne); [reflexivity|].
      right. intros H; apply Hzb; apply elems_nil_iff; congruence. }
  apply elems_nil_iff in Hzb. assert (E0 : rb = []) by congruence. rewrite E0 in *. clear E0.
  destruct (aquery_full_trail _ _ _ Eab) as (nd & Htb).
  rewrite (trail_of_node_at _ _ _ _ Htb). cbn [cbind negb].
  rewrite (trail_of_tlook _ _ _ _ Htb).
  destruct (Nat.eqb_spec (plen p) 0) as [Hz|Hz].
  - apply elems_nil_iff in Hz. rewrite Hz, app_nil_r, (trail_of_tlook _ _ _ _ Htb). reflexivity.
  - assert (Hne : elems p <> []) by (intros H; apply Hz; apply elems_nil_iff; assumption).
    rewrite (tlook_descend g (elems b) tb nd Htb (elems p) Hne).
    destruct (node_query_spec (nkids' nd) p Hw) as (p' & Hq' & Hw' & He' & _). rewrite Hq'. cbn [cbind].
    destruct (aquery (nkids' nd) (elems p)) as [q r2] eqn:Ea. cbn [fst snd] in *.
    destruct q as [tr|]; [|rewrite (aquery_not_full _ _ _ _ Ea Hne (or_introl eq_refl)); reflexivity].
    destruct (Nat.eqb_spec (plen p') 0) as [Hz'|Hz']; cbn [negb].
    + apply elems_nil_iff in Hz'. assert (E0 : r2 = []) by congruence. rewrite E0 in *. clear E0.
      destruct (aquery_full_trail _ _ _ Ea) as (x & Htr).
      rewrite (trail_of_node_at _ _ _ _ Htr), (trail_of_tlook _ _ _ _ Htr). reflexivity.
    + rewrite (aquery_not_full _ _ _ _ Ea Hne); [reflexivity|].
      right. intros H; apply Hz'; apply elems_nil_iff; congruence.
Qed.

(* ---------------------------------------------------------------- histories over all handles *)
Definition hpath (b : path) : Prop := pwf b /\ Forall name_ok (elems b).

Definition vop_ok (o : cop) : Prop :=
  match o with
  | CAssign b p v => hpath b /\ pwf p /\ Forall name_ok (elems p)
  | CRemove b p => hpath b /\ pwf p
  | CQuery b p => hpath b /\ pwf p
  end.

Lemma hpath_cases b : hpath b -> gpath b \/ vpath b.
Proof.
  intros [Hw Hok]. destruct (Nat.eq_dec (plen b) 0) as [Hz|Hz]; [left; exact Hz|right].
  split; [assumption|]. split; [|assumption]. intros H. apply Hz. apply elems_nil_iff. assumption.
Qed.

Lemma vstep_refines g h o : R g h -> vop_ok o ->
  let '(g', out) := cstep g o in
  let '(h', sout) := sstep h (hop_of o) (accepted out) in
  obs out = obs sout /\ R g' h'.
Proof.
  intros HRgh Hok. pose proof HRgh as [Hwf HR].
  destruct o as [b p v|b p|b p]; cbn [vop_ok] in Hok.
  - destruct Hok as (Hb & Hw & Hn). destruct (hpath_cases b Hb) as [Hg|Hv].
    + apply (cstep_refines g h (CAssign b p v) HRgh). cbn. auto.
    + cbn [hop_of cstep sstep]. destruct (cfg_assign_view g b p v Hv Hwf Hw Hn) as (g' & Ha & Hwf' & Hl).
      rewrite Ha. cbn [accepted]. destruct Hv as (_ & Hbne & _).
      destruct (elems b ++ elems p) as [|n r] eqn:Ek; [destruct (elems b); [congruence|discriminate]|].
      split; [reflexivity|]. split; [assumption|].
      intros k Hk. rewrite (Hl k Hk), slook_assign. apply upd_gen_ext. apply HR. assumption.
  - destruct Hok as (Hb & Hw). destruct (hpath_cases b Hb) as [Hg|Hv].
    + apply (cstep_refines g h (CRemove b p) HRgh). cbn. auto.
    + cbn [hop_of cstep sstep].
      destruct (cfg_remove_view g b p Hv Hwf Hw) as (g' & r & Hr & Hwf' & Hnok & Hsp). rewrite Hr.
      destruct Hv as (_ & Hbne & _).
      destruct (elems p) as [|n q] eqn:He.
      * destruct Hsp as [Hnr Hl]. split; [destruct r; cbn in *; try reflexivity; try discriminate; congruence|].
        split; [assumption|]. intros k Hk. rewrite Hl. cbn [slook].
        destruct (key_proper_prefix (elems b) k); [reflexivity|]. apply HR. assumption.
      * destruct Hsp as [Hiff Hl].
        assert (Hkne : elems b ++ n :: q <> []) by (destruct (elems b); discriminate).
        assert (Hsl : slookup h (elems b ++ n :: q) = tlook g (elems b ++ n :: q)).
        { rewrite HR by assumption. destruct (elems b ++ n :: q); [congruence|reflexivity]. }
        rewrite Hsl. destruct (tlook g (elems b ++ n :: q)) eqn:Et.
        -- assert (Hf : is_removed r = false).
           { destruct (is_removed r) eqn:E; [|reflexivity]. exfalso. apply (proj1 Hiff); reflexivity. }
           split; [destruct r; cbn in *; try reflexivity; try discriminate; congruence|].
           split; [assumption|]. intros k Hk. rewrite Hl, Hf. cbn [andb]. apply HR. assumption.
        -- assert (Ht : is_removed r = true) by (apply (proj2 Hiff); discriminate).
           split; [destruct r; cbn in *; try discriminate; reflexivity|].
           split; [assumption|]. intros k Hk. rewrite Hl, Ht. cbn [andb slook].
           destruct (key_prefix (elems b ++ n :: q) k); [reflexivity|]. apply HR. assumption.
  - destruct Hok as (Hb & Hw). destruct (hpath_cases b Hb) as [Hg|Hv].
    + apply (cstep_refines g h (CQuery b p) HRgh). cbn. auto.
    + cbn [hop_of cstep sstep]. rewrite (cfg_query_view g b p Hv Hw).
      split; [|assumption]. destruct Hv as (_ & Hbne & _).
      assert (Hsb : slookup h (elems b) = tlook g (elems b)).
      { rewrite HR by assumption. destruct (elems b); [congruence|reflexivity]. }
      assert (Hkne : elems b ++ elems p <> []) by (destruct (elems b); [congruence|discriminate]).
      assert (Hsk : slookup h (elems b ++ elems p) = tlook g (elems b ++ elems p)).
      { rewrite HR by assumption. destruct (elems b ++ elems p); [congruence|reflexivity]. }
      rewrite Hsb, Hsk. reflexivity.
Qed.

Lemma vrun_refines : forall ops g h, R g h -> Forall vop_ok ops ->
  map obs (fst (crun g ops)) = map obs (fst (srun h (map hop_of ops) (fst (crun g ops)))).
Proof.
  induction ops as [|o ops IH]; intros g h HR Hok; [reflexivity|].
  inversion Hok as [|? ? Ho Hok']; subst.
  pose proof (vstep_refines g h o HR Ho) as Hs.
  cbn [crun map srun]. destruct (cstep g o) as [g' out].
  specialize (IH g').
  destruct (crun g' ops) as [outs gf] eqn:Ec. cbn [fst tl].
  destruct (sstep h (hop_of o) (accepted out)) as [h' sout]. destruct Hs as [Ho' HR'].
  specialize (IH h' HR' Hok'). cbn [fst] in IH.
  destruct (srun h' (map hop_of ops) outs) as [souts hf]. cbn [fst map] in *.
  rewrite Ho', IH. reflexivity.
Qed.

(* ---------------------------------------------------------------- frame statements, any handle *)
Lemma assign_frame_all g b p v : hpath b -> wff g -> pwf p -> Forall name_ok (elems p) ->
  elems b ++ elems p <> [] ->
  exists g', cfg_assign g b p v = Done (g', RcOk) /\ wff g' /\
    forall k, k <> [] ->
      tlook g' k = if key_eqb k (elems b ++ elems p) then Exists (Some v)
                   else if key_proper_prefix k (elems b ++ elems p) then touch (tlook g k)
                   else tlook g k.
Proof.
  intros Hb Hwf Hw Hok Hne. destruct (hpath_cases b Hb) as [Hg|Hv].
  - rewrite (gpath_elems b Hg) in *. cbn [app] in *. apply assign_frame; assumption.
  - destruct (cfg_assign_view g b p v Hv Hwf Hw Hok) as (g' & Ha & Hwf' & Hl).
    exists g'. split; [assumption|]. split; [assumption|]. exact Hl.
Qed.

Lemma remove_subtree_only_all g b p : hpath b -> wff g -> pwf p -> elems p <> [] ->
  exists g' r, cfg_remove g b p = Done (g', r) /\ wff g' /\
    (is_removed r = true <-> tlook g (elems b ++ elems p) <> Absent) /\
    forall k, tlook g' k = if is_removed r && key_prefix (elems b ++ elems p) k then Absent else tlook g k.
Proof.
  intros Hb Hwf Hw Hne. destruct (hpath_cases b Hb) as [Hg|Hv].
  - rewrite (gpath_elems b Hg). cbn [app]. apply remove_subtree_only; assumption.
  - destruct (cfg_remove_view g b p Hv Hwf Hw) as (g' & r & Hr & Hwf' & _ & Hsp).
    exists g', r. split; [assumption|]. split; [assumption|].
    destruct (elems p) as [|n q]; [congruence|]. exact Hsp.
Qed.

(* removal with the empty path through a view: everything strictly beneath the base *)
Lemma clear_beneath_only g b p : vpath b -> wff g -> pwf p -> elems p = [] ->
  exists g' r, cfg_remove g b p = Done (g', r) /\ wff g' /\
    forall k, tlook g' k = if key_proper_prefix (elems b) k then Absent else tlook g k.
Proof.
  intros Hv Hwf Hw He. destruct (cfg_remove_view g b p Hv Hwf Hw) as (g' & r & Hr & Hwf' & _ & Hsp).
  exists g', r. split; [assumption|]. split; [assumption|]. rewrite He in Hsp. apply Hsp.
Qed.
