(* C10/ConfigSpec.v — the abstract specification: what a configuration is, as a
   function of the history of accepted operations.  It knows nothing about
   bytes-with-separators, offsets, [first], nodes, slots or trails.

   A key is a list of element names.  The store state is simply the list of the
   operations accepted so far (most recent first); [slook] reads a key:

     - the value most recently assigned to exactly that key,
     - present-without-value when the key was only created on the way to a
       longer key (it then "has descendants"),
     - absent when it was never assigned, or was removed (as the key itself or
       as part of a removed sub-tree) since.

   Assignments to one key never show at another (except that they make the
   proper prefixes present), a removal hides exactly the key and everything
   beneath it. *)
From MptV Require Import Base.Mem C10.ConfigModel.
Local Open Scope nat_scope.

Notation name := (list byte) (only parsing).
Notation key := (list (list byte)) (only parsing).

Fixpoint key_eqb (a b : key) : bool :=
  match a, b with
  | [], [] => true
  | x :: a', y :: b' => bytes_eqb x y && key_eqb a' b'
  | _, _ => false
  end.

(* [a] is a prefix of [b] (possibly equal) *)
Fixpoint key_prefix (a b : key) : bool :=
  match a, b with
  | [], _ => true
  | x :: a', y :: b' => bytes_eqb x y && key_prefix a' b'
  | _ :: _, [] => false
  end.

Definition key_proper_prefix (a b : key) : bool := key_prefix a b && negb (key_eqb a b).

Inductive sop :=
| SAssign (k : key) (v : value)     (* k <> [] *)
| SRemove (k : key)                 (* k and everything beneath it *)
| SClear (k : key)                  (* everything strictly beneath k (k = []: the whole store) *)
| STouch (k : key)                  (* k and its prefixes are made present (values kept) *)
| SUnset (k : key).                 (* the value of k is dropped, k stays present *)

(* reading a key after a history (most recent operation first) *)
Fixpoint slook (h : list sop) (k : key) : entry :=
  match h with
  | [] => Absent
  | SAssign q v :: h' =>
    if key_eqb k q then Exists (Some v)
    else if key_proper_prefix k q
    then match slook h' k with Absent => Exists None | e => e end
    else slook h' k
  | SRemove q :: h' => if key_prefix q k then Absent else slook h' k
  | SClear q :: h' => if key_proper_prefix q k then Absent else slook h' k
  | STouch q :: h' =>
    if key_prefix k q then match slook h' k with Absent => Exists None | e => e end else slook h' k
  | SUnset q :: h' =>
    if key_eqb k q then match slook h' k with Absent => Absent | _ => Exists None end else slook h' k
  end.

(* the root (empty key) is no entry: it is reported present, without value *)
Definition slookup (h : list sop) (k : key) : entry :=
  match k with [] => Exists None | _ => slook h k end.

(* ---- splitting a string into its separator-delimited components ---- *)
Fixpoint split (sep : byte) (s : list byte) : list (list byte) :=
  match s with
  | [] => [[]]
  | b :: r =>
    if beq b sep then [] :: split sep r
    else match split sep r with
         | h :: t => (b :: h) :: t
         | [] => [[b]]
         end
  end.

(* the part of a byte string before the first occurrence of [c] *)
Fixpoint upto (c : byte) (s : list byte) : list byte :=
  match s with
  | [] => []
  | b :: r => if beq b c then [] else b :: upto c r
  end.

(* key named by a C string with a separator (NULL: the empty key) *)
Definition str_key (s : option (list byte)) (sep : byte) : key :=
  match s with None => [] | Some b => split sep (upto 0%N b) end.

(* ---- operations as the interface offers them ---- *)
Inductive hop :=
| HAssign (base k : key) (v : value)   (* through a view with base key [base] ([] = the store itself) *)
| HRemove (base k : key)
| HQuery (base k : key).

(* [acc]: the implementation's accept/refuse decision, consulted only where the
   interface allows either (a value or a name that cannot be stored) *)
Definition sstep (h : list sop) (o : hop) (acc : bool) : list sop * cout :=
  match o with
  | HAssign b k v =>
    match b ++ k with
    | [] => (h, OutRc RcRefused)
    | q => if acc then (SAssign q v :: h, OutRc RcOk) else (h, OutRc RcRefused)
    end
  | HRemove b k =>
    match k with
    | [] => (SClear b :: h, OutRc RcCleared)
    | _ =>
      match slookup h (b ++ k) with
      | Absent => (h, OutRc RcNotFound)
      | _ => (SRemove (b ++ k) :: h, OutRc RcRemoved)
      end
    end
  | HQuery b k =>
    (* through a view whose base does not exist nothing is found *)
    (h, OutEntry (match slookup h b with Absent => Absent | _ => slookup h (b ++ k) end))
  end.

Definition accepted (o : cout) : bool :=
  match o with OutRc RcOk => true | _ => false end.

(* run a history on the specification, driven by the model's accept bits *)
Fixpoint srun (h : list sop) (ops : list hop) (macc : list cout) : list cout * list sop :=
  match ops with
  | [] => ([], h)
  | o :: r =>
    let a := match macc with x :: _ => accepted x | [] => true end in
    let '(h', out) := sstep h o a in
    let '(outs, hf) := srun h' r (tl macc) in
    (out :: outs, hf)
  end.

(* ---- the caller-level interface (mpt_config_set / get / getp, config::set / get / del,
   conversion of a view to its node, listing through the query handler) ---- *)

(* key named by a C string cut at the end character [en] (mpt_config_set(..., sep, end)) *)
Definition str_key_end (s : option (list byte)) (sep en : byte) : key :=
  match s with None => [] | Some b => split sep (upto en (upto 0%N b)) end.

(* key named by the first [len] bytes of a C string (config::del(p, sep, len)) *)
Definition del_key (s : option (list byte)) (sep : byte) (len : option nat) : key :=
  match s with
  | None => []
  | Some b => match len with
              | None => split sep (upto 0%N b)
              | Some n => split sep (upto 0%N (firstn n (b ++ [0%N])))
              end
  end.

(* what a query through a view with base key [b] finds at [k] *)
Definition squery (h : list sop) (b k : key) : entry :=
  match slookup h b with Absent => Absent | _ => slookup h (b ++ k) end.

Inductive whop :=
| HBase (o : hop)
| HSet (b k : key) (v : option value)      (* no value = remove *)
| HGetV (b k : key) (ty : gty)
| HTouch (b : key)
| HUnsetBase (b : key)
| HList (b k : key)
| HAssignNone (b k : key)                  (* assignment without value: b ++ k present, its value dropped *)
| HAssignBad (b : key).                    (* refused assignment through a view: its base element is present afterwards *)

Definition wsstep (h : list sop) (o : whop) (acc : bool) : list sop * wout :=
  match o with
  | HBase o => let '(h', out) := sstep h o acc in (h', WOut out)
  | HSet b k (Some v) => let '(h', out) := sstep h (HAssign b k v) acc in (h', WOut out)
  | HSet b k None => let '(h', out) := sstep h (HRemove b k) acc in (h', WOut out)
  | HGetV b k ty => (h, WVal (get_view false ty (squery h b k)))
  | HTouch b => match b with [] => (h, WNodeAt None) | _ => (STouch b :: h, WNodeAt (Some [])) end
  | HUnsetBase b =>
    match b with
    | [] => (h, WOut (OutRc RcRefused))
    | _ => match slook h b with
           | Absent => (h, WOut (OutRc RcNotFound))
           | _ => (SUnset b :: h, WOut (OutRc RcCleared))
           end
    end
  | HList b k => (h, WOut (OutEntry (squery h b k)))
  | HAssignNone b k =>
    match b ++ k with
    | [] => (h, WOut (OutRc RcRefused))
    | q =>
      (* [acc]: the element still holds a value afterwards - the value's own decision (a
         value that is an iterator is rewound in place, anything else is dropped) *)
      if acc then (STouch q :: h, WOut (OutRc RcOk))
      else (SUnset q :: STouch q :: h, WOut (OutRc RcCleared))
    end
  | HAssignBad b =>
    match b with
    | [] => (h, WOut (OutRc RcRefused))
    | _ => (STouch b :: h, WOut (OutRc RcRefused))
    end
  end.

Definition waccepted (o : wout) : bool :=
  match o with WOut c => accepted c | _ => true end.

Fixpoint wsrun (h : list sop) (ops : list whop) (macc : list wout) : list wout * list sop :=
  match ops with
  | [] => ([], h)
  | o :: r =>
    let a := match macc with x :: _ => waccepted x | [] => true end in
    let '(h', out) := wsstep h o a in
    let '(outs, hf) := wsrun h' r (tl macc) in
    (out :: outs, hf)
  end.

(* the private C++ configuration: no views; the empty path is no entry *)
Inductive xhop :=
| XBase (o : hop)
| XHSet (k : key) (v : option value)
| XHGetV (k : key) (ty : gty)
| XHUnset (k : key)
| XHList (k : option key).                 (* None: the top-level listing *)

Definition xsstep (h : list sop) (o : xhop) (acc : bool) : list sop * xout :=
  match o with
  | XBase o => let '(h', out) := sstep h o acc in (h', XOut out)
  | XHSet k (Some v) => let '(h', out) := sstep h (HAssign [] k v) acc in (h', XOut out)
  | XHSet k None => let '(h', out) := sstep h (HRemove [] k) acc in (h', XOut out)
  | XHGetV k ty => (h, XVal (get_view true ty (slookup h k)))
  | XHUnset k =>
    match k with
    | [] => (h, XOut (OutRc RcRefused))
    | _ => match slook h k with
           | Absent => (h, XOut (OutRc RcOk))
           | _ => (SUnset k :: h, XOut (OutRc RcOk))
           end
    end
  | XHList None => (h, XOut (OutEntry (Exists None)))
  | XHList (Some k) => (h, XOut (OutEntry (slookup h k)))
  end.

Definition xaccepted (o : xout) : bool :=
  match o with XOut c => accepted c | _ => true end.

Fixpoint xsrun (h : list sop) (ops : list xhop) (macc : list xout) : list xout * list sop :=
  match ops with
  | [] => ([], h)
  | o :: r =>
    let a := match macc with x :: _ => xaccepted x | [] => true end in
    let '(h', out) := xsstep h o a in
    let '(outs, hf) := xsrun h' r (tl macc) in
    (out :: outs, hf)
  end.

(* ------------------------------------------------------------------------
   Paths, abstractly: a list of elements plus the not yet committed "post"
   bytes behind it.  This is what walking the path element by element has to
   show after any history of path operations. *)
Record apath := mkap { aelems : list name; apost : list byte; abin : bool; asep : byte; aassign : byte;
                        anull : bool (* no storage yet: nothing can be added *);
                        astr : option byte
                        (* Some t: the path lies in the CALLER's string (mpt_path_set): [apost] are the caller's bytes
                           behind the path, t is the byte at the end position of the path (the assign character, the
                           NUL, a separator after mpt_path_del).  None: the path owns its storage, [apost] is the post
                           data appended with mpt_path_addchar. *) }.

Definition has_byte (c : byte) (l : list byte) : bool := existsb (beq c) l.

Definition astep (a : apath) (o : pop) : apath * pret :=
  let keep e po := mkap e po (abin a) (asep a) (aassign a) (anull a) (astr a) in
  match o with
  | PSet None _ => (mkap [] [] false (asep a) (aassign a) true None, RNum 0)
  | PSet (Some s) len =>
    let mem := s ++ [0%N] in
    let data := match len with None => upto 0%N s ++ [0%N] | Some n => firstn n mem end in
    let body := upto (aassign a) data in
    (* a string ends at its NUL even when that is not the assign character *)
    let body := match len with None => upto 0%N body | Some _ => body end in
    (* the path covers the elements and one byte more (where the assign character / terminator is or would be);
       what follows in the caller's buffer is behind the path *)
    (mkap (split (asep a) body) (skipn (length body + 1) mem) false (asep a) (aassign a) false
          (Some (nth (length body) mem 0%N)), RNum 0)
  | PNext =>
    match aelems a with
    | [] => (a, RErr MissingData)
    | e :: r => (keep r (apost a), RNum (length e))
    end
  | PLast =>
    match rev (aelems a) with
    | [] => (a, RErr EInval)
    | e :: _ => (keep [e] (apost a), RNum (length e))
    end
  | PDel =>
    match rev (aelems a) with
    | [] => (a, RErr MissingData)
    | e :: r =>
      match astr a with
      | None => (keep (rev r) [], RNum (length e))
      (* in the caller's string nothing is cut: the element and its end byte are behind the path again,
         which now ends at the separator in front of it *)
      | Some t => (mkap (rev r) (e ++ t :: apost a) (abin a) (asep a) (aassign a) (anull a) (Some (asep a)), RNum (length e))
      end
    end
  | PAdd n =>
    if anull a then (a, RErr MissingBuffer)
    else if length (apost a) <? n then (a, RErr BadValue)
    else
      let e := firstn n (apost a) in
      (* a path in the caller's string is copied with the new element into storage of its own: nothing is
         behind it afterwards (a further element needs post data) *)
      let rest k := match astr a with Some _ => [] | None => skipn k (apost a) end in
      let own e po := mkap e po (abin a) (asep a) (aassign a) (anull a) None in
      if abin a then
        if 255 <? n then (a, RErr BadValue)
        else (own (aelems a ++ [e]) (rest (n + 2)), RNum 0)
      else
        if has_byte (asep a) e then (a, RErr BadValue)
        else (own (aelems a ++ [e]) (rest (n + 1)), RNum 0)
  | PPost d =>
    match d with
    | [] => (a, RNum 0)
    (* the first appended byte moves a path out of the caller's string: only the path itself is copied *)
    | _ => (mkap (aelems a) ((match astr a with Some _ => [] | None => apost a end) ++ d) (abin a) (asep a) (aassign a) false None, RNum 0)
    end
  | PBin => (mkap (aelems a) (apost a) true (asep a) (aassign a) (anull a) (astr a), RNum 0)
  | PClear _ => match astr a with Some _ => (a, RNum 0) | None => (keep (aelems a) [], RNum 0) end
  | PCopy => (a, RNum 0)
  | PSep sep asg =>
    (mkap (aelems a) (apost a) (abin a) (match sep with Some c => c | None => asep a end)
          (match asg with Some c => c | None => aassign a end) (anull a) (astr a), RNum 0)
  end.
