(* C10/LocateModel.v — executable model of mptcore/node/node_locate.c as the configuration
   store uses it, and of mptcore/config/node_query.c on sibling lists that hold ANY kind of
   identifier.  NO proofs in this file.

   mpt_node_locate(curr, pos, ident, len, charset) searches a sibling list for the
   |pos|-th node whose identifier matches, forwards from [curr] (pos > 0, [curr] counts),
   backwards before [curr] (pos < 0), or "the last node of the list if it matches, else the
   nearest match before it" (pos = 0).  A node's identifier is (charset, stored bytes) or
   (charset, pointer) — a name set by mpt_identifier_set(id, name, len) is stored with the
   default character set (UTF8 = 1) as the len name bytes FOLLOWED BY A ZERO BYTE; an
   identifier set without a name has charset 0 and consists of zero bytes; a "pointer
   identifier" has a character set != 0, length 0 and its [_base] field is the identity.
   The key is (charset or -1, pointer, bytes, len); charset -1 = "a name as
   mpt_identifier_set would store it": compared with charset UTF8 and stored length len + 1.

   mpt_node_query (the lookup of every configuration access) calls
   mpt_node_locate(list, 1, element, length, -1) for each path element. *)
From MptV Require Import Base.Mem C10.ConfigModel C16.Locate.
Local Open Scope nat_scope.

Inductive idata :=
| IBytes (b : list byte)      (* _len = length b, the bytes as stored (a name: with its terminator) *)
| IPtr (tag : nat).           (* _len = 0, _base = pointer number [tag] (0 = NULL) *)

Definition ident := (nat * idata)%type.      (* _charset, data *)

Definition id_bytes (d : idata) : list byte := match d with IBytes b => b | IPtr _ => [] end.
Definition id_ptr (d : idata) : nat := match d with IBytes _ => 0 | IPtr t => t end.

(* mpt_identifier_set(id, name, len) / (id, NULL, len) *)
Definition ident_of_name (nm : list byte) : ident := (1, IBytes (nm ++ [0%N])).
Definition ident_nameless (k : nat) : ident := (0, IBytes (repeat 0%N k)).

Record lkey := mklkey {
  kcs : option nat;        (* charset argument; None = negative *)
  kptr : nat;              (* the pointer [ident] itself (0 = NULL) *)
  kmem : list byte;        (* the bytes readable there; the harness hands exactly [klen] *)
  klen : nat }.

Definition key_of_name (nm : list byte) : lkey := mklkey None 1 nm (length nm).

(* the comparison of one node, the same text in all three branches of the C function:
     if (charset != curr->ident._charset) continue;
     if (charset && !idlen) { !curr->ident._len && curr->ident._base == ident }
     else { idlen == clen && (idlen == len || !cid[len]) && (!len || !memcmp(ident, cid, len)) } *)
Definition kmatch (k : lkey) (n : ident) : bool :=
  let cs := match kcs k with Some c => c | None => 1 end in
  let idlen := match kcs k with Some _ => klen k | None => klen k + 1 end in
  let '(ccs, cd) := n in
  if negb (cs =? ccs) then false
  else if negb (cs =? 0) && (idlen =? 0) then
    (length (id_bytes cd) =? 0) && (id_ptr cd =? kptr k)
  else
    let cid := id_bytes cd in
    (idlen =? length cid)
    && ((idlen =? klen k) || N.eqb (nth (klen k) cid 1%N) 0%N)
    && ((klen k =? 0) || bytes_eqb (firstn (klen k) cid) (firstn (klen k) (kmem k))).

(* the three traversals, over the nodes of one sibling list; [idx] = index of the head *)
Fixpoint gfwd (k : lkey) (l : list ident) (idx pos : nat) : option nat :=
  match l with
  | [] => None
  | n :: r =>
    if kmatch k n then
      if pos =? 1 then Some idx else gfwd k r (S idx) (pos - 1)
    else gfwd k r (S idx) pos
  end.

Fixpoint gbwd (k : lkey) (l : list ident) (idx cnt : nat) : option nat :=
  match l with
  | [] => None
  | n :: r =>
    if kmatch k n then
      if cnt =? 1 then Some idx else gbwd k r (idx - 1) (cnt - 1)
    else gbwd k r (idx - 1) cnt
  end.

Inductive lres := LFound (i : nat) | LNone | LEfault.

(* [start] = None: curr == NULL *)
Definition node_locate (ids : list ident) (start : option nat) (p : lpos) (k : lkey) : lres :=
  match start with
  | None => LEfault
  | Some s =>
    if negb (klen k =? 0) && (kptr k =? 0) then LEfault
    else if length ids <=? s then LNone      (* not a node of the list: never passed by the harness *)
    else
      let r := match p with
        | LFwd c => gfwd k (skipn s ids) s c
        | LBwd c => gbwd k (rev (firstn s ids)) (s - 1) c
        | LLast =>
          let last := length ids - 1 in
          if kmatch k (nth last ids (0, IPtr 0)) then Some last
          else gbwd k (rev (firstn last ids)) (last - 1) 1
        end in
      match r with Some i => LFound i | None => LNone end
  end.

(* ---------------------------------------------------------------- node_query.c over such lists *)
Inductive lnode := LNode (lid : ident) (lkids : list lnode).
Definition lid' (n : lnode) := match n with LNode i _ => i end.
Definition lkids' (n : lnode) := match n with LNode _ k => k end.

(* the loop of mpt_node_query: [pre] = trail of the deepest element found so far *)
Fixpoint lquery_loop (fuel : nat) (conf : list lnode) (p : path) (pre : option trail) : cres (option trail * path) :=
  match fuel with
  | 0 => OutOfFuel
  | S fuel =>
    match path_next p with
    | Fail _ => Done (pre, p)
    | MemFault => MemFault
    | OutOfFuel => OutOfFuel
    | Done (clen, p') =>
      match rdn (pbase p) (poff p) clen with
      | Fail e => Fail e
      | MemFault => MemFault
      | OutOfFuel => OutOfFuel
      | Done nm =>
        match node_locate (map lid' conf) (Some 0) (LFwd 1) (key_of_name nm) with
        | LFound i =>
          let pre' := Some (match pre with Some t => t ++ [i] | None => [i] end) in
          match nth_error conf i with
          | None => MemFault
          | Some nd =>
            match lkids' nd with
            | [] => Done (pre', p')
            | ks => lquery_loop fuel ks p' pre'
            end
          end
        | _ => Done (pre, restore p p')
        end
      end
    end
  end.

Definition lquery (conf : list lnode) (p : path) : cres (option trail * path) :=
  match conf with
  | [] => Done (None, p)
  | _ => if plen p =? 0 then Done (None, p) else lquery_loop (S (plen p)) conf p None
  end.

(* a forest of the store (names only) as such a list *)
Fixpoint lift_node (n : node) : lnode :=
  match n with Node nm _ ks => LNode (ident_of_name nm) (map lift_node ks) end.

(* ---------------------------------------------------------------- specification *)
(* indices of the nodes whose identifier matches *)
Fixpoint gmatches (k : lkey) (l : list ident) (idx : nat) : list nat :=
  match l with
  | [] => []
  | n :: r => if kmatch k n then idx :: gmatches k r (S idx) else gmatches k r (S idx)
  end.

(* the k-th match at or behind [start] / before [start], the last match of the list *)
Definition locate_kth (ids : list ident) (start : nat) (p : lpos) (k : lkey) : option nat :=
  let ms := gmatches k ids 0 in
  match p with
  | LFwd c => nth_error (filter (fun i => start <=? i) ms) (c - 1)
  | LBwd c => nth_error (rev (filter (fun i => i <? start) ms)) (c - 1)
  | LLast => nth_error (rev ms) 0
  end.

(* what a query for the element list [k] reads in a forest of such nodes: at every level the FIRST
   node that carries exactly that name (identifiers of other kinds are never meant), as deep as the
   names go.  Result: the trail of the deepest element ([] = none). *)
Definition is_named (nm : list byte) (id : ident) : bool :=
  match id with
  | (1, IBytes b) => bytes_eqb b (nm ++ [0%N])
  | _ => false
  end.

Fixpoint first_named (nm : list byte) (l : list lnode) (i : nat) : option (nat * lnode) :=
  match l with
  | [] => None
  | n :: r => if is_named nm (lid' n) then Some (i, n) else first_named nm r (S i)
  end.

Fixpoint squery_l (f : list lnode) (k : list (list byte)) : trail :=
  match k with
  | [] => []
  | e :: r =>
    match first_named e f 0 with
    | None => []
    | Some (i, nd) => i :: squery_l (lkids' nd) r
    end
  end.
