(* C10/ApiRefine.v — the caller-level interface refines the same history specification:
   mpt_config_set / mpt_config_get / mpt_config_getp (config_set.c, config_get.c), the
   wrappers config::set / get / del of mpt++/config.cpp, conversion of a view to its
   node and remove(NULL) (config_global.c), listing through the collection a query
   handler receives.  Every entry point is a thin composition of the operations proved
   in StoreRefine.v / ViewRefine.v / RootRefine.v; the string forms go through
   PathProofs.str_path_spec (mpt_path_set on a C string). *)
From MptV Require Import Base.Mem Base.Tactics C10.ConfigModel C10.ConfigSpec C10.PathProofs
  C10.TreeQuery C10.TreeOps C10.TreeAssign C10.StoreRefine C10.TreeView C10.ViewRefine
  C10.ItemProofs C10.RootRefine C10.AssignNone.
Local Open Scope nat_scope.

(* ---------------------------------------------------------------- listing *)
Definition lentry {A} (l : option (option value * A)) : entry :=
  match l with None => Absent | Some (mt, _) => Exists mt end.

(* the query is the listing without the sub-elements *)
Lemma cfg_query_list g b p :
  cfg_query g b p = (let* l := cfg_list g b p in Done (lentry l)).
Proof.
  unfold cfg_query, cfg_list.
  destruct (plen b =? 0); cbn [cbind negb].
  - destruct (plen p =? 0); [reflexivity|].
    destruct (node_query g p) as [[q p']| | |]; cbn [cbind]; try reflexivity.
    destruct q as [tr|]; [|reflexivity].
    destruct (negb (plen p' =? 0)); [reflexivity|].
    destruct (node_at g tr); reflexivity.
  - destruct (node_query g b) as [[q pb]| | |]; cbn [cbind]; try reflexivity.
    destruct q as [tb|]; cbn [cbind negb]; [|reflexivity].
    destruct (negb (plen pb =? 0)); cbn [cbind negb]; [reflexivity|].
    destruct (node_at g tb) as [nd|]; cbn [cbind negb]; [|reflexivity].
    destruct (plen p =? 0); [reflexivity|].
    destruct (node_query (nkids' nd) p) as [[q p']| | |]; cbn [cbind]; try reflexivity.
    destruct q as [tr|]; [|reflexivity].
    destruct (negb (plen p' =? 0)); [reflexivity|].
    destruct (node_at (nkids' nd) tr); reflexivity.
Qed.

(* full consumption of a key by mpt_node_query = a trail to the node *)
Lemma node_query_full f p tr p' : pwf p -> plen p <> 0 ->
  node_query f p = Done (Some tr, p') -> plen p' = 0 ->
  exists nd, trail_of f (elems p) tr nd /\ node_at f tr = Some nd.
Proof.
  intros Hw Hz Hq Hz'.
  destruct (node_query_spec f p Hw) as (p2 & Hq2 & Hw2 & He2 & _).
  rewrite Hq in Hq2. inversion Hq2 as [[H1 H2]]. subst p2.
  destruct (aquery f (elems p)) as [q r2] eqn:Ea. cbn [fst snd] in *. subst q.
  apply elems_nil_iff in Hz'. assert (E0 : r2 = []) by congruence. rewrite E0 in Ea.
  destruct (aquery_full_trail _ _ _ Ea) as (nd & Ht).
  exists nd. split; [assumption|]. apply (trail_of_node_at _ _ _ _ Ht).
Qed.

Lemma cfg_list_found g b p mt kids : hpath b -> pwf p ->
  cfg_list g b p = Done (Some (mt, kids)) ->
  (elems b ++ elems p = [] /\ mt = None /\ kids = g) \/
  (exists t nd, trail_of g (elems b ++ elems p) t nd /\ mt = nval' nd /\ kids = nkids' nd).
Proof.
  intros Hb Hw. unfold cfg_list.
  destruct (hpath_cases b Hb) as [Hg|Hv].
  - rewrite (gpath_elems b Hg). unfold gpath in Hg. rewrite Hg. cbn [Nat.eqb cbind negb app].
    destruct (Nat.eqb_spec (plen p) 0) as [Hz|Hz].
    + intros H. inversion H; subst. left. apply elems_nil_iff in Hz. auto.
    + destruct (node_query g p) as [[q p']| | |] eqn:Eq; cbn [cbind]; try discriminate.
      destruct q as [tr|]; [|discriminate].
      destruct (Nat.eqb_spec (plen p') 0) as [Hz'|Hz']; cbn [negb]; [|discriminate].
      destruct (node_query_full g p tr p' Hw Hz Eq Hz') as (nd & Ht & Hn). rewrite Hn.
      intros H. inversion H; subst. right. exists tr, nd. auto.
  - pose proof (vpath_plen b Hv) as Hbz. destruct Hv as (Hwb & Hbne & Hbok).
    destruct (Nat.eqb_spec (plen b) 0); [congruence|].
    destruct (node_query g b) as [[q pb]| | |] eqn:Eqb; cbn [cbind]; try discriminate.
    destruct q as [tb|]; cbn [cbind negb]; [|discriminate].
    destruct (Nat.eqb_spec (plen pb) 0) as [Hzb|Hzb]; cbn [negb cbind]; [|discriminate].
    destruct (node_query_full g b tb pb Hwb Hbz Eqb Hzb) as (nd & Htb & Hnb). rewrite Hnb. cbn [cbind negb].
    destruct (Nat.eqb_spec (plen p) 0) as [Hz|Hz].
    + intros H. inversion H; subst. right. apply elems_nil_iff in Hz. rewrite Hz, app_nil_r.
      exists tb, nd. auto.
    + destruct (node_query (nkids' nd) p) as [[q p']| | |] eqn:Eq; cbn [cbind]; try discriminate.
      destruct q as [tr|]; [|discriminate].
      destruct (Nat.eqb_spec (plen p') 0) as [Hz'|Hz']; cbn [negb]; [|discriminate].
      destruct (node_query_full (nkids' nd) p tr p' Hw Hz Eq Hz') as (x & Ht & Hn). rewrite Hn.
      intros H. inversion H; subst. right. exists (tb ++ tr), x.
      split; [apply (trail_compose _ _ _ _ Htb _ _ _ Ht)|]. auto.
Qed.

(* What the handler is given is the store beneath the queried element: reading a key
   in the listed sub-elements = reading it under the element in the whole store. *)
Lemma cfg_list_sound g b p mt kids : hpath b -> pwf p ->
  cfg_list g b p = Done (Some (mt, kids)) ->
  (elems b ++ elems p <> [] -> tlook g (elems b ++ elems p) = Exists mt) /\
  forall k, k <> [] -> tlook kids k = tlook g ((elems b ++ elems p) ++ k).
Proof.
  intros Hb Hw Hl. destruct (cfg_list_found g b p mt kids Hb Hw Hl) as [(He & Hm & Hk)|(t & nd & Ht & Hm & Hk)].
  - rewrite He. subst. split; [congruence|]. intros k _. reflexivity.
  - subst. split.
    + intros _. apply (trail_of_tlook _ _ _ _ Ht).
    + intros k Hk. symmetry. apply (tlook_descend _ _ _ _ Ht). assumption.
Qed.

(* ---------------------------------------------------------------- keys named by strings *)
Lemma str_path_end_key s sep en :
  exists p, str_path s sep en = Done p /\ pwf p /\ elems p = str_key_end s sep en.
Proof.
  destruct s as [s|].
  - destruct (str_path_spec s sep en) as (p & Hp & Hw & He & _). exists p. auto.
  - destruct (str_path_null sep en) as (p & Hp & Hw & _ & He). exists p. auto.
Qed.

Definition del_len_ok (s : option (list byte)) (len : option nat) : Prop :=
  match s, len with Some b, Some n => n <= length b + 1 | _, _ => True end.

Lemma del_path_key s sep len : del_len_ok s len ->
  exists p, del_path s sep len = Done p /\ pwf p /\ elems p = del_key s sep len.
Proof.
  intros Hok. unfold del_path. destruct s as [b|].
  - destruct len as [n|].
    + cbn in Hok. set (m := firstn n (b ++ [0%N])).
      assert (Hl : length m = n) by (unfold m; rewrite firstn_length, app_length; cbn; lia).
      destruct (path_set_len_spec (path_init sep 0%N) m) as (p & c & Hs & Hw & He & _).
      rewrite Hl in Hs. rewrite Hs. cbn [cbind]. exists p. split; [reflexivity|]. split; [assumption|].
      rewrite He. reflexivity.
    + destruct (path_set_str_spec (path_init sep 0%N) b) as (p & c & Hs & Hw & He & _).
      rewrite Hs. cbn [cbind]. exists p. split; [reflexivity|]. split; [assumption|].
      rewrite He. cbn [del_key psep passign path_init]. f_equal.
      destruct (cstr_facts b) as (_ & _ & Hn). rewrite upto_index, Hn. reflexivity.
  - cbn. eexists. split; [reflexivity|]. split; [|reflexivity].
    split; [reflexivity|]. cbn. congruence.
Qed.

(* ---------------------------------------------------------------- queries, any handle *)
Lemma slookup_R g h k : R g h -> k <> [] -> slookup h k = tlook g k.
Proof. intros [_ HR] Hk. destruct k; [congruence|]. cbn [slookup]. symmetry. apply HR. discriminate. Qed.

Lemma cfg_query_any g h b p : R g h -> hpath b -> pwf p ->
  cfg_query g b p = Done (squery h (elems b) (elems p)).
Proof.
  intros HR Hb Hw. destruct (hpath_cases b Hb) as [Hg|Hv].
  - rewrite (cfg_query_global g b p Hg Hw), (gpath_elems b Hg). unfold squery, glook. cbn [slookup app].
    destruct (elems p) as [|n q] eqn:E; [reflexivity|]. rewrite (slookup_R g h) by (assumption || discriminate).
    reflexivity.
  - rewrite (cfg_query_view g b p Hv Hw). destruct Hv as (_ & Hbne & _). unfold squery.
    rewrite (slookup_R g h (elems b) HR Hbne).
    assert (Hk : elems b ++ elems p <> []) by (destruct (elems b); [congruence|discriminate]).
    rewrite (slookup_R g h _ HR Hk). reflexivity.
Qed.

Lemma cfg_list_any g h b p : R g h -> hpath b -> pwf p ->
  exists l, cfg_list g b p = Done l /\ lentry l = squery h (elems b) (elems p).
Proof.
  intros HR Hb Hw. pose proof (cfg_query_any g h b p HR Hb Hw) as Hq.
  rewrite cfg_query_list in Hq. destruct (cfg_list g b p) as [l| | |]; cbn [cbind] in Hq; try discriminate.
  exists l. split; [reflexivity|]. congruence.
Qed.

(* ---------------------------------------------------------------- remove(NULL): the value of the base element *)
Lemma slook_touch h q k : slook (STouch q :: h) k = upd_gen (slook h) q None k.
Proof.
  cbn [slook]. unfold upd_gen, touch, key_proper_prefix.
  destruct (key_eqb k q) eqn:E.
  - apply key_eqb_eq in E. subst k. rewrite key_prefix_refl. destruct (slook h q); reflexivity.
  - destruct (key_prefix k q); cbn [andb negb]; [destruct (slook h k)|]; reflexivity.
Qed.

Lemma cfg_unset_spec g b : hpath b -> wff g ->
  exists g' r, cfg_unset g b = Done (g', r) /\ wff g' /\ r <> RcOk /\ r <> RcRemoved /\
    ((r = RcCleared /\ elems b <> [] /\ tlook g (elems b) <> Absent /\
      forall k, tlook g' k = if key_eqb k (elems b) then Exists None else tlook g k)
     \/ (r <> RcCleared /\ g' = g /\ (elems b <> [] -> tlook g (elems b) = Absent))).
Proof.
  intros Hb Hwf. unfold cfg_unset. destruct g as [|n0 g0].
  - exists [], RcRefused. repeat (split; [reflexivity || assumption || discriminate|]).
    right. repeat (split; [reflexivity || discriminate|]). intros _. apply tlook_nil.
  - set (g := n0 :: g0) in *. destruct (hpath_cases b Hb) as [Hg|Hv].
    + unfold gpath in Hg. rewrite Hg. cbn [Nat.eqb]. exists g, RcRefused.
      repeat (split; [reflexivity || assumption || discriminate|]).
      right. repeat (split; [reflexivity || discriminate|]). intros H. exfalso. apply H. apply elems_nil_iff. assumption.
    + pose proof (vpath_plen b Hv) as Hbz. destruct Hv as (Hwb & Hbne & Hbok).
      destruct (Nat.eqb_spec (plen b) 0); [congruence|].
      destruct (node_query_spec g b Hwb) as (pb & Hq & Hwpb & Hepb & _). rewrite Hq. cbn [cbind].
      destruct (aquery g (elems b)) as [qb rb] eqn:Eab. cbn [fst snd] in *.
      destruct qb as [tb|].
      2:{ exists g, RcNotFound. repeat (split; [reflexivity || assumption || discriminate|]).
          right. repeat (split; [reflexivity || discriminate|]). intros _.
          apply (aquery_not_full _ _ _ _ Eab Hbne (or_introl eq_refl)). }
      destruct (Nat.eqb_spec (plen pb) 0) as [Hzb|Hzb]; cbn [negb].
      2:{ exists g, RcNotFound. repeat (split; [reflexivity || assumption || discriminate|]).
          right. repeat (split; [reflexivity || discriminate|]). intros _.
          apply (aquery_not_full _ _ _ _ Eab Hbne). right. intros H. apply Hzb. apply elems_nil_iff. congruence. }
      apply elems_nil_iff in Hzb. assert (E0 : rb = []) by congruence. rewrite E0 in *. clear E0.
      destruct (aquery_full_trail _ _ _ Eab) as (nd & Htb).
      rewrite (trail_of_node_at _ _ _ _ Htb).
      set (G := fun n : node => Node (nname' n) None (nkids' n)).
      exists (upd_at g tb G), RcCleared. split; [reflexivity|].
      split.
      { apply (wff_upd_at _ _ _ _ G Htb eq_refl Hwf). intros Hn. apply wfn_unfold. apply wfn_unfold in Hn. exact Hn. }
      split; [discriminate|]. split; [discriminate|]. left. split; [reflexivity|]. split; [assumption|].
      split; [rewrite (trail_of_tlook _ _ _ _ Htb); discriminate|].
      intros k. rewrite (tlook_upd_at _ _ _ _ G Htb eq_refl k). cbn [G nval' nkids'].
      destruct (key_eqb k (elems b)); [reflexivity|].
      destruct (key_proper_prefix (elems b) k) eqn:Epp; [|reflexivity].
      unfold key_proper_prefix in Epp. apply andb_true_iff in Epp as [Hp Hne].
      pose proof (key_prefix_inv _ _ Hp) as Hk. set (r := skipn (length (elems b)) k) in *.
      assert (Hr : r <> []).
      { intros Hr. rewrite Hr, app_nil_r in Hk. rewrite Hk, key_eqb_refl in Hne. discriminate. }
      rewrite Hk. symmetry. apply (tlook_descend _ _ _ _ Htb). assumption.
Qed.

(* ---------------------------------------------------------------- histories over the caller-level interface *)
Definition wop_ok (o : wop) : Prop :=
  match o with
  | WVt c => vop_ok c
  | WSet b s sep en v => hpath b /\ Forall name_ok (str_key_end s sep en)
  | WDel b s sep len => hpath b /\ del_len_ok s len
  | WGetp b p ty => hpath b /\ pwf p
  | WGet b s ty => hpath b
  | WNode b => hpath b
  | WUnset b => hpath b
  | WList b p => hpath b /\ pwf p
  | WAssignNone b p => hpath b /\ pwf p /\ Forall name_ok (elems p)
  | WAssignBad b p => hpath b /\ pwf p
  end.

Definition whop_of (o : wop) : whop :=
  match o with
  | WVt c => HBase (hop_of c)
  | WSet b s sep en v => HSet (elems b) (str_key_end s sep en) v
  | WDel b s sep len => HSet (elems b) (del_key s sep len) None
  | WGetp b p ty => HGetV (elems b) (elems p) ty
  | WGet b s ty => HGetV (elems b) (str_key s 46%N) ty
  | WNode b => HTouch (elems b)
  | WUnset b => HUnsetBase (elems b)
  | WList b p => HList (elems b) (elems p)
  | WAssignNone b p => HAssignNone (elems b) (elems p)
  | WAssignBad b p => HAssignBad (elems b)
  end.

(* what the property distinguishes: result classes as in [obs]; which node a view hands
   out and the sub-elements of a listing are the mechanism's business *)
Definition wobs (o : wout) : wout :=
  match o with
  | WOut c => WOut (obs c)
  | WNodeAt (Some _) => WNodeAt (Some [])
  | WListing l => WOut (OutEntry (lentry l))
  | x => x
  end.

Lemma wlift_assign g b p v :
  wlift g (cfg_assign g b p v) (fun '(g', r) => (g', WOut (OutRc r))) =
  (let '(g', out) := cstep g (CAssign b p v) in (g', WOut out)).
Proof. cbn [cstep]. destruct (cfg_assign g b p v) as [[g' r]| | |]; reflexivity. Qed.

Lemma wlift_remove g b p :
  wlift g (cfg_remove g b p) (fun '(g', r) => (g', WOut (OutRc r))) =
  (let '(g', out) := cstep g (CRemove b p) in (g', WOut out)).
Proof. cbn [cstep]. destruct (cfg_remove g b p) as [[g' r]| | |]; reflexivity. Qed.

(* a plain interface call seen at the caller level *)
Lemma wvt_refines g h c : R g h -> vop_ok c ->
  let '(g', out) := (let '(g', out) := cstep g c in (g', WOut out)) in
  let '(h', sout) := (let '(h', out) := sstep h (hop_of c) (waccepted out) in (h', WOut out)) in
  wobs out = wobs sout /\ R g' h'.
Proof.
  intros HR Hok. pose proof (vstep_refines g h c HR Hok) as Hs.
  destruct (cstep g c) as [g' out]. cbn [waccepted].
  destruct (sstep h (hop_of c) (accepted out)) as [h' sout]. destruct Hs as [Ho HR'].
  split; [cbn [wobs]; rewrite Ho; reflexivity|assumption].
Qed.

Lemma wstep_refines g h o : R g h -> wop_ok o ->
  let '(g', out) := wstep g o in
  let '(h', sout) := wsstep h (whop_of o) (waccepted out) in
  wobs out = wobs sout /\ R g' h'.
Proof.
  intros HR Hok. destruct o as [c|b s sep en v|b s sep len|b p ty|b s ty|b|b|b p|b p|b p]; cbn [wop_ok whop_of wstep] in *.
  - (* plain call *)
    cbn [wsstep]. apply (wvt_refines g h c HR Hok).
  - (* mpt_config_set / config::set *)
    destruct Hok as [Hb Hn]. destruct (str_path_end_key s sep en) as (p & Hp & Hw & He).
    unfold cfg_set. rewrite Hp. cbn [cbind]. rewrite <- He in *. destruct v as [v|].
    + rewrite wlift_assign. cbn [wsstep].
      apply (wvt_refines g h (CAssign b p v) HR). cbn. auto.
    + rewrite wlift_remove. cbn [wsstep].
      apply (wvt_refines g h (CRemove b p) HR). cbn. auto.
  - (* config::del *)
    destruct Hok as [Hb Hl]. destruct (del_path_key s sep len Hl) as (p & Hp & Hw & He).
    unfold cfg_del. rewrite Hp. cbn [cbind]. rewrite <- He. rewrite wlift_remove. cbn [wsstep].
    apply (wvt_refines g h (CRemove b p) HR). cbn. auto.
  - (* mpt_config_getp / config::get *)
    destruct Hok as [Hb Hw]. unfold cfg_getp. rewrite (cfg_query_any g h b p HR Hb Hw).
    cbn [cbind wlift wsstep wobs]. split; [reflexivity|assumption].
  - (* mpt_config_get *)
    destruct (str_path_key s 46%N) as (p & Hp & Hw & He).
    unfold cfg_get. rewrite Hp. cbn [cbind]. unfold cfg_getp. rewrite (cfg_query_any g h b p HR Hok Hw).
    cbn [cbind wlift wsstep wobs]. rewrite He. split; [reflexivity|assumption].
  - (* conversion to a node pointer *)
    unfold cfg_node. destruct (hpath_cases b Hok) as [Hg|Hv].
    + rewrite (gpath_elems b Hg). unfold gpath in Hg. rewrite Hg. cbn. split; [reflexivity|assumption].
    + pose proof (vpath_plen b Hv) as Hbz. destruct (Nat.eqb_spec (plen b) 0); [congruence|].
      destruct HR as [Hwf HRl]. destruct Hv as (Hwb & Hbne & Hbok).
      destruct (make_global_spec g b Hwf Hwb Hbne Hbok) as (g1 & tb & nd & Hm & Hwf1 & _ & Hl).
      rewrite Hm. cbn [wsstep]. destruct (elems b) as [|n0 q0] eqn:Eb; [congruence|].
      cbn [wobs]. split; [reflexivity|]. split; [assumption|].
      intros k Hk. rewrite (Hl k Hk), slook_touch. apply upd_gen_ext. apply HRl. assumption.
  - (* remove(NULL) *)
    destruct HR as [Hwf HRl].
    destruct (cfg_unset_spec g b Hok Hwf) as (g' & r & Hu & Hwf' & Hr1 & Hr2 & Hcases). rewrite Hu.
    cbn [wlift wsstep waccepted accepted].
    destruct Hcases as [(Hr & Hbne & Hpres & Hl)|(Hr & Hg & Habs)].
    + subst r. destruct (elems b) as [|n0 q0] eqn:Eb; [congruence|].
      rewrite <- (HRl (n0 :: q0)) by discriminate.
      destruct (tlook g (n0 :: q0)) as [|mv] eqn:Et; [congruence|].
      split; [reflexivity|]. split; [assumption|].
      intros k Hk. rewrite Hl. cbn [slook].
      destruct (key_eqb k (n0 :: q0)) eqn:Ek.
      * apply key_eqb_eq in Ek. subst k. rewrite <- (HRl (n0 :: q0)) by discriminate. rewrite Et. reflexivity.
      * apply HRl. assumption.
    + subst g'. destruct (elems b) as [|n0 q0] eqn:Eb.
      * split; [destruct r; cbn; reflexivity || congruence|]. split; assumption.
      * rewrite <- (HRl (n0 :: q0)) by discriminate. rewrite Habs by discriminate.
        split; [destruct r; cbn; reflexivity || congruence|]. split; assumption.
  - (* listing *)
    destruct Hok as [Hb Hw]. destruct (cfg_list_any g h b p HR Hb Hw) as (l & Hl & He).
    rewrite Hl. cbn [wlift wsstep wobs obs]. rewrite He. split; [reflexivity|assumption].
  - (* assignment without value *)
    destruct Hok as (Hb & Hw & Hn). destruct HR as [Hwf HRl].
    destruct (cfg_assign_none_spec g b p Hb Hwf Hw Hn) as (g' & r & Ha & Hwf' & Hcases). rewrite Ha.
    cbn [wlift wsstep waccepted accepted].
    destruct Hcases as [(Hq & Hr & Hg)|(Hq & ov & Hov & Hl)].
    + subst r g'. rewrite Hq. cbn. split; [reflexivity|]. split; assumption.
    + destruct (elems b ++ elems p) as [|n0 q0] eqn:Eq; [congruence|].
      destruct Hov as [[Hr Ho]|[Hr Ho]]; subst r ov; cbn [accepted].
      * split; [reflexivity|]. split; [assumption|].
        intros k Hk. rewrite (Hl k Hk), slook_touch. apply upd_gen_ext. apply HRl. assumption.
      * split; [reflexivity|]. split; [assumption|].
        intros k Hk. rewrite (Hl k Hk), slook_unset_touch by discriminate. apply upd_gen_ext. apply HRl. assumption.
  - (* assignment of a value without text *)
    destruct Hok as (Hb & Hw). destruct HR as [Hwf HRl].
    destruct (cfg_assign_bad_spec g b p Hb Hwf Hw) as (g' & Ha & Hwf' & Hcases). rewrite Ha.
    cbn [wlift wsstep waccepted accepted].
    destruct Hcases as [(Hq & Hg)|(Hq & Hl)].
    + subst g'. rewrite Hq. cbn. split; [reflexivity|]. split; assumption.
    + destruct (elems b) as [|n0 q0] eqn:Eb; [congruence|].
      split; [reflexivity|]. split; [assumption|].
      intros k Hk. rewrite (Hl k Hk), slook_touch. apply upd_gen_ext. apply HRl. assumption.
Qed.

Lemma wrun_refines : forall ops g h, R g h -> Forall wop_ok ops ->
  map wobs (fst (wrun g ops)) = map wobs (fst (wsrun h (map whop_of ops) (fst (wrun g ops)))).
Proof.
  induction ops as [|o ops IH]; intros g h HR Hok; [reflexivity|].
  inversion Hok as [|? ? Ho Hok']; subst.
  pose proof (wstep_refines g h o HR Ho) as Hs.
  cbn [wrun map wsrun]. destruct (wstep g o) as [g' out].
  specialize (IH g').
  destruct (wrun g' ops) as [outs gf] eqn:Ec. cbn [fst tl].
  destruct (wsstep h (whop_of o) (waccepted out)) as [h' sout]. destruct Hs as [Ho' HR'].
  specialize (IH h' HR' Hok'). cbn [fst] in IH.
  destruct (wsrun h' (map whop_of ops) outs) as [souts hf]. cbn [fst map] in *.
  rewrite Ho', IH. reflexivity.
Qed.

(* ================================================================ config::root through its wrappers *)
Lemma ilook_descend : forall a b t x, itrail_of a b t x -> forall r, r <> [] ->
  ilook a (b ++ r) = ilook (ielems' x) r.
Proof.
  induction 1 as [a n i x Hf | a n m i x t y Hf Hm Ht IH]; intros r Hr.
  - cbn [app ilook]. rewrite Hf. destruct r; [congruence|reflexivity].
  - cbn [app ilook]. rewrite Hf.
    destruct (m ++ r) eqn:E; [destruct m; [congruence|discriminate]|]. rewrite <- E. apply IH. assumption.
Qed.

(* every element on the way to an existing one is present *)
Lemma itrail_prefix_present : forall a q t x, itrail_of a q t x ->
  forall k, k <> [] -> key_proper_prefix k q = true -> touch (ilook a k) = ilook a k.
Proof.
  induction 1 as [a n i x Hf | a n m i x t y Hf Hm Ht IH]; intros k Hk Hp;
    unfold key_proper_prefix in Hp; apply andb_true_iff in Hp as [Hp Hne];
    destruct k as [|n' k']; try congruence; cbn [key_prefix key_eqb] in *;
    apply andb_true_iff in Hp as [Hn Hp]; rewrite Hn in Hne; cbn [andb] in Hne;
    apply bytes_eqb_eq in Hn; subst n'.
  - destruct k'; [discriminate|discriminate].
  - cbn [ilook]. rewrite Hf. destruct k' as [|a' k']; [reflexivity|].
    apply IH; [discriminate|]. unfold key_proper_prefix. rewrite Hp, Hne. reflexivity.
Qed.

Lemma root_unset_spec a p : iwf a -> pwf p ->
  match elems p with
  | [] => root_unset a p = Done (a, RcRefused)
  | q => exists a', root_unset a p = Done (a', RcOk) /\ iwf a' /\
         forall k, k <> [] ->
           ilook a' k = if key_eqb k q then match ilook a k with Absent => Absent | _ => Exists None end
                        else ilook a k
  end.
Proof.
  intros Hwf Hw. unfold root_unset. destruct (elems p) as [|n r] eqn:He.
  - apply elems_nil_iff in He. rewrite He. reflexivity.
  - assert (Hz : plen p <> 0) by (intros H; apply elems_nil_iff in H; congruence).
    destruct (Nat.eqb_spec (plen p) 0); [congruence|].
    rewrite (item_query_key a p Hw), He. cbn [cbind].
    destruct (iquery a (n :: r)) as [t|] eqn:Eq.
    + destruct (iquery_some _ _ _ Eq) as (x & Htr).
      eexists. split; [reflexivity|]. split.
      * apply (iwf_upd_at_same a (n :: r) t x Htr Hwf); [reflexivity|].
        intros Hx. apply iwfi_unfold. cbn. apply iwfi_unfold. assumption.
      * intros k Hk. rewrite (ilook_setval a (n :: r) t x Htr None k Hk). unfold upd_gen.
        destruct (key_eqb k (n :: r)) eqn:Ek.
        -- apply key_eqb_eq in Ek. subst k. rewrite (itrail_ilook _ _ _ _ Htr). reflexivity.
        -- destruct (key_proper_prefix k (n :: r)) eqn:Ep; [|reflexivity].
           apply (itrail_prefix_present _ _ _ _ Htr k Hk Ep).
    + exists a. split; [reflexivity|]. split; [assumption|].
      intros k Hk. destruct (key_eqb k (n :: r)) eqn:Ek; [|reflexivity].
      apply key_eqb_eq in Ek. subst k. rewrite (iquery_none (n :: r) a ltac:(discriminate) Eq). reflexivity.
Qed.

Lemma root_list_spec a p : pwf p -> elems p <> [] ->
  exists l, root_list a (Some p) = Done l /\ lentry l = ilook a (elems p) /\
    forall mt sub, l = Some (mt, sub) -> forall k, k <> [] -> ilook sub k = ilook a (elems p ++ k).
Proof.
  intros Hw Hne. unfold root_list. rewrite (item_query_key a p Hw). cbn [cbind].
  destruct (iquery a (elems p)) as [t|] eqn:Eq.
  - destruct (iquery_some _ _ _ Eq) as (x & Htr). rewrite (itrail_item_at _ _ _ _ Htr).
    eexists. split; [reflexivity|]. split; [cbn; rewrite (itrail_ilook _ _ _ _ Htr); reflexivity|].
    intros mt sub H k Hk. inversion H; subst. symmetry. apply (ilook_descend _ _ _ _ Htr). assumption.
  - exists None. split; [reflexivity|]. split; [cbn; rewrite (iquery_none _ _ Hne Eq); reflexivity|].
    intros mt sub H. discriminate.
Qed.

Definition xop_ok (o : xop) : Prop :=
  match o with
  | XVt r => rop_ok r
  | XSet s sep v => Forall name_ok (str_key s sep)
  | XDel s sep len => del_len_ok s len
  | XGetp p ty => pwf p /\ elems p <> []
  | XUnset p => pwf p
  | XList None => True
  | XList (Some p) => pwf p /\ elems p <> []
  end.

Definition xhop_of (o : xop) : xhop :=
  match o with
  | XVt r => XBase (rhop_of r)
  | XSet s sep v => XHSet (str_key s sep) v
  | XDel s sep len => XHSet (del_key s sep len) None
  | XGetp p ty => XHGetV (elems p) ty
  | XUnset p => XHUnset (elems p)
  | XList None => XHList None
  | XList (Some p) => XHList (Some (elems p))
  end.

Definition xobs (o : xout) : xout :=
  match o with
  | XOut c => XOut (obs c)
  | XListing l => XOut (OutEntry (lentry l))
  | x => x
  end.

Lemma xlift_assign a p v :
  xlift a (root_assign a p v) (fun '(a', r) => (a', XOut (OutRc r))) =
  (let '(a', out) := rstep a (RAssign p v) in (a', XOut out)).
Proof. cbn [rstep]. destruct (root_assign a p v) as [[a' r]| | |]; reflexivity. Qed.

Lemma xlift_remove a p :
  xlift a (root_remove a p) (fun '(a', r) => (a', XOut (OutRc r))) =
  (let '(a', out) := rstep a (RRemove p) in (a', XOut out)).
Proof. cbn [rstep]. destruct (root_remove a p) as [[a' r]| | |]; reflexivity. Qed.

Lemma xvt_refines a h r : RI a h -> rop_ok r ->
  let '(a', out) := (let '(a', out) := rstep a r in (a', XOut out)) in
  let '(h', sout) := (let '(h', out) := sstep h (rhop_of r) (xaccepted out) in (h', XOut out)) in
  xobs out = xobs sout /\ RI a' h'.
Proof.
  intros HR Hok. pose proof (rstep_refines a h r HR Hok) as Hs.
  destruct (rstep a r) as [a' out]. cbn [xaccepted].
  destruct (sstep h (rhop_of r) (accepted out)) as [h' sout]. destruct Hs as [Ho HR'].
  split; [cbn [xobs]; rewrite Ho; reflexivity|assumption].
Qed.

Lemma xstep_refines a h o : RI a h -> xop_ok o ->
  let '(a', out) := xstep a o in
  let '(h', sout) := xsstep h (xhop_of o) (xaccepted out) in
  xobs out = xobs sout /\ RI a' h'.
Proof.
  intros HR Hok. destruct o as [r|s sep v|s sep len|p ty|p|[p|]]; cbn [xop_ok xhop_of xstep] in *.
  - cbn [xsstep]. apply (xvt_refines a h r HR Hok).
  - (* config::set *)
    destruct (str_path_key s sep) as (p & Hp & Hw & He).
    unfold root_set. rewrite Hp. cbn [cbind]. rewrite <- He in *. destruct v as [v|].
    + rewrite xlift_assign. cbn [xsstep]. apply (xvt_refines a h (RAssign p v) HR). cbn. auto.
    + rewrite xlift_remove. cbn [xsstep]. apply (xvt_refines a h (RRemove p) HR). cbn. auto.
  - (* config::del *)
    destruct (del_path_key s sep len Hok) as (p & Hp & Hw & He).
    unfold root_del. rewrite Hp. cbn [cbind]. rewrite <- He. rewrite xlift_remove. cbn [xsstep].
    apply (xvt_refines a h (RRemove p) HR). cbn. auto.
  - (* config::get *)
    destruct Hok as [Hw Hne]. unfold root_getp. rewrite (root_query_spec a p Hw Hne).
    cbn [cbind xlift xsstep xobs]. split; [|assumption].
    destruct HR as [_ HRl]. destruct (elems p) as [|n q]; [congruence|]. cbn [slookup].
    rewrite HRl by discriminate. reflexivity.
  - (* assignment without value *)
    destruct HR as [Hwf HRl]. pose proof (root_unset_spec a p Hwf Hok) as Hu. cbn [xsstep].
    destruct (elems p) as [|n q] eqn:He.
    + rewrite Hu. cbn. split; [reflexivity|]. split; assumption.
    + destruct Hu as (a' & Hu & Hwf' & Hl). rewrite Hu. cbn [xlift xaccepted accepted].
      rewrite <- (HRl (n :: q)) by discriminate.
      destruct (ilook a (n :: q)) as [|mv] eqn:Ei.
      * split; [reflexivity|]. split; [assumption|]. intros k Hk. rewrite (Hl k Hk).
        destruct (key_eqb k (n :: q)) eqn:Ek; [|apply HRl; assumption].
        apply key_eqb_eq in Ek. subst k. rewrite Ei. rewrite <- HRl by discriminate. rewrite Ei. reflexivity.
      * split; [reflexivity|]. split; [assumption|]. intros k Hk. rewrite (Hl k Hk). cbn [slook].
        destruct (key_eqb k (n :: q)); rewrite <- (HRl k Hk); reflexivity.
  - (* config::root::query(path, handler) *)
    destruct Hok as [Hw Hne]. destruct (root_list_spec a p Hw Hne) as (l & Hl & He & _).
    rewrite Hl. cbn [xlift xsstep xobs obs]. rewrite He. split; [|assumption].
    destruct HR as [_ HRl]. destruct (elems p) as [|n q]; [congruence|]. cbn [slookup].
    rewrite HRl by discriminate. reflexivity.
  - (* config::root::query(NULL, handler): the top-level items *)
    cbn. split; [reflexivity|assumption].
Qed.

Lemma xrun_refines : forall ops a h, RI a h -> Forall xop_ok ops ->
  map xobs (fst (xrun a ops)) = map xobs (fst (xsrun h (map xhop_of ops) (fst (xrun a ops)))).
Proof.
  induction ops as [|o ops IH]; intros a h HR Hok; [reflexivity|].
  inversion Hok as [|? ? Ho Hok']; subst.
  pose proof (xstep_refines a h o HR Ho) as Hs.
  cbn [xrun map xsrun]. destruct (xstep a o) as [a' out].
  specialize (IH a').
  destruct (xrun a' ops) as [outs af] eqn:Ec. cbn [fst tl].
  destruct (xsstep h (xhop_of o) (xaccepted out)) as [h' sout]. destruct Hs as [Ho' HR'].
  specialize (IH h' HR' Hok'). cbn [fst] in IH.
  destruct (xsrun h' (map xhop_of ops) outs) as [souts hf]. cbn [fst map] in *.
  rewrite Ho', IH. reflexivity.
Qed.

(* ================================================================ mpt_path_invalidate / path::clear_data *)
Lemma slice_of_firstn {A} (l : list A) i n m : i + n <= m -> slice i n (firstn m l) = slice i n l.
Proof.
  intros H. unfold slice.
  replace m with (i + (m - i)) by lia. rewrite <- firstn_skipn_comm.
  rewrite firstn_firstn. f_equal. lia.
Qed.

(* dropping the post data leaves the elements alone, and nothing is left behind the path *)
Lemma path_clear_spec cxx p : pwf p -> (parr p = true -> poff p + plen p <= length (pbase p)) ->
  exists p', path_clear cxx p = Done p' /\ pwf p' /\ elems p' = elems p /\ pwalk p' = Done (elems p) /\
             (parr p = true -> length (pbase p') = poff p + plen p).
Proof.
  intros Hw Hlen. unfold path_clear. destruct (parr p) eqn:Ea.
  - specialize (Hlen eq_refl). destruct (Nat.ltb_spec (length (pbase p)) (poff p + plen p)); [lia|].
    eexists. split; [reflexivity|].
    assert (Hb : forall q, plen q = plen p -> poff q = poff p -> psep q = psep p ->
                 pbase q = firstn (poff p + plen p) (pbase p) -> body q = body p).
    { intros q H1 H2 H3 H4. unfold body. rewrite H1, H2, H4. apply slice_of_firstn. lia. }
    match goal with |- pwf ?q /\ _ => set (p' := q) end.
    assert (Hbody : body p' = body p) by (apply Hb; reflexivity).
    assert (He : elems p' = elems p) by (unfold elems; rewrite Hbody; reflexivity).
    assert (Hw' : pwf p').
    { destruct Hw as [Hbin Hrest]. split; [exact Hbin|]. intros Hz. cbn [p' plen poff pbase] in *.
      destruct (Hrest Hz) as [Hin Hf]. split.
      - rewrite firstn_length. lia.
      - unfold first_ok in *. rewrite Hbody. exact Hf. }
    split; [assumption|]. split; [assumption|]. split.
    + unfold pwalk. rewrite path_walk_spec by (assumption || (cbn; lia)). rewrite He. reflexivity.
    + intros _. cbn [p' pbase]. rewrite firstn_length. lia.
  - exists p. split; [reflexivity|]. split; [assumption|]. split; [reflexivity|]. split.
    + unfold pwalk. rewrite path_walk_spec by (assumption || lia). reflexivity.
    + discriminate.
Qed.

(* ================================================================ the value accessors read the specification *)
Lemma getp_reads_spec g h b p ty : R g h -> hpath b -> pwf p ->
  cfg_getp g b p ty = Done (get_view false ty (squery h (elems b) (elems p))).
Proof. intros HR Hb Hw. unfold cfg_getp. rewrite (cfg_query_any g h b p HR Hb Hw). reflexivity. Qed.

Lemma get_reads_spec g h b s ty : R g h -> hpath b ->
  cfg_get g b s ty = Done (get_view false ty (squery h (elems b) (str_key s 46%N))).
Proof.
  intros HR Hb. destruct (str_path_key s 46%N) as (p & Hp & Hw & He).
  unfold cfg_get. rewrite Hp. cbn [cbind]. rewrite (getp_reads_spec g h b p ty HR Hb Hw), He. reflexivity.
Qed.

(* ================================================================ the value itself (TypeConvertablePtr / get<convertable *>) *)
(* whatever its length and whichever store holds it, the value handed out as a
   convertable is the value most recently assigned to exactly that key *)
Definition assigned_view (e : entry) : gval :=
  match e with Exists (Some v) => GText v | _ => GMissing end.

Lemma get_view_conv cxx e : get_view cxx GConv e = assigned_view e.
Proof. destruct e as [|[v|]]; reflexivity. Qed.

Lemma getp_conv_assigned g h b p : R g h -> hpath b -> pwf p ->
  cfg_getp g b p GConv = Done (assigned_view (squery h (elems b) (elems p))).
Proof. intros HR Hb Hw. rewrite (getp_reads_spec g h b p GConv HR Hb Hw), get_view_conv. reflexivity. Qed.

Lemma get_conv_assigned g h b s : R g h -> hpath b ->
  cfg_get g b s GConv = Done (assigned_view (squery h (elems b) (str_key s 46%N))).
Proof. intros HR Hb. rewrite (get_reads_spec g h b s GConv HR Hb), get_view_conv. reflexivity. Qed.

Lemma root_getp_conv_assigned a h p : RI a h -> pwf p -> elems p <> [] ->
  root_getp a p GConv = Done (assigned_view (slook h (elems p))).
Proof.
  intros [_ HRl] Hw Hne. unfold root_getp. rewrite (root_query_spec a p Hw Hne). cbn [cbind].
  rewrite get_view_conv, (HRl _ Hne). reflexivity.
Qed.
