(* C10/PathProofs.v — separator-mode paths: well-formedness, the element list a
   path denotes, and what mpt_path_next / mpt_path_set / mpt_path_add do to it. *)
From MptV Require Import Base.Mem Base.Tactics C10.ConfigModel C10.ConfigSpec.
Local Open Scope nat_scope.

(* ---------------------------------------------------------------- bytes *)
Lemma beq_true a b : beq a b = true <-> a = b.
Proof. unfold beq. apply N.eqb_eq. Qed.

Lemma beq_false a b : beq a b = false <-> a <> b.
Proof. unfold beq. apply N.eqb_neq. Qed.

Lemma bytes_eqb_eq a b : bytes_eqb a b = true <-> a = b.
Proof.
  revert b; induction a as [|x a IH]; destruct b as [|y b]; simpl; split; intros H;
    try reflexivity; try discriminate.
  - apply andb_true_iff in H as [H1 H2]. apply beq_true in H1. apply IH in H2. congruence.
  - inversion H; subst. apply andb_true_iff. split; [apply beq_true; reflexivity | apply IH; reflexivity].
Qed.

Lemma bytes_eqb_refl a : bytes_eqb a a = true.
Proof. apply bytes_eqb_eq. reflexivity. Qed.

Lemma bytes_eqb_neq a b : bytes_eqb a b = false <-> a <> b.
Proof.
  split; intros H.
  - intros E. apply bytes_eqb_eq in E. congruence.
  - destruct (bytes_eqb a b) eqn:E; [apply bytes_eqb_eq in E; contradiction | reflexivity].
Qed.

(* ---------------------------------------------------------------- split *)
Lemma split_nonnil sep s : split sep s <> [].
Proof.
  destruct s as [|b r]; simpl; [discriminate|].
  destruct (beq b sep); [discriminate|]. destruct (split sep r); discriminate.
Qed.

Lemma split_cons sep b r :
  split sep (b :: r) = if beq b sep then [] :: split sep r
                       else (b :: hd [] (split sep r)) :: tl (split sep r).
Proof.
  simpl. destruct (beq b sep); [reflexivity|].
  destruct (split sep r) eqn:E; [exfalso; eapply split_nonnil; eauto | reflexivity].
Qed.

Lemma index_of_none_split sep s : index_of sep s = None -> split sep s = [s].
Proof.
  induction s as [|b r IH]; intros H; [reflexivity|].
  rewrite split_cons. simpl in H. destruct (beq b sep); [discriminate|].
  destruct (index_of sep r); [discriminate|]. rewrite IH by reflexivity. reflexivity.
Qed.

Lemma index_of_some_split sep s k : index_of sep s = Some k ->
  k < length s /\ split sep s = firstn k s :: split sep (skipn (S k) s) /\ index_of sep (firstn k s) = None.
Proof.
  revert k; induction s as [|b r IH]; intros k H; [discriminate|].
  rewrite split_cons. simpl in H. destruct (beq b sep) eqn:E.
  - inversion H; subst. simpl. split; [lia|]. split; reflexivity.
  - destruct (index_of sep r) as [j|] eqn:Ej; [|discriminate]. inversion H; subst.
    destruct (IH j eq_refl) as (Hl & Hs & Hn). simpl. split; [lia|]. split.
    + rewrite Hs. reflexivity.
    + rewrite E, Hn. reflexivity.
Qed.

Lemma index_of_app_none c a b : index_of c a = None ->
  index_of c (a ++ b) = option_map (fun k => length a + k) (index_of c b).
Proof.
  induction a as [|x a IH]; intros H; simpl.
  - destruct (index_of c b); reflexivity.
  - simpl in H. destruct (beq x c); [discriminate|].
    destruct (index_of c a); [discriminate|]. rewrite IH by reflexivity.
    destruct (index_of c b); reflexivity.
Qed.

(* joining elements with the separator *)
Fixpoint join (sep : byte) (es : list (list byte)) : list byte :=
  match es with
  | [] => []
  | [e] => e
  | e :: r => e ++ sep :: join sep r
  end.

Definition nosep (sep : byte) (e : list byte) : Prop := index_of sep e = None.

Lemma split_app_sep sep e r : nosep sep e -> split sep (e ++ sep :: r) = e :: split sep r.
Proof.
  intros H. assert (Hi : index_of sep (e ++ sep :: r) = Some (length e)).
  { rewrite index_of_app_none by assumption. simpl.
    replace (beq sep sep) with true by (symmetry; apply beq_true; reflexivity). simpl. f_equal. lia. }
  destruct (index_of_some_split _ _ _ Hi) as (_ & Hs & _). rewrite Hs.
  assert (Hsk : skipn (S (length e)) (e ++ sep :: r) = r).
  { rewrite skipn_app.
    replace (skipn (S (length e)) e) with (@nil byte) by (symmetry; apply skipn_all2; lia).
    replace (S (length e) - length e) with 1 by lia. reflexivity. }
  rewrite Hsk, firstn_app, Nat.sub_diag, firstn_all, firstn_O, app_nil_r. reflexivity.
Qed.

Lemma split_join sep es : es <> [] -> Forall (nosep sep) es -> split sep (join sep es) = es.
Proof.
  induction es as [|e r IH]; intros Hn Hf; [congruence|].
  inversion Hf; subst. destruct r as [|e2 r'].
  - simpl. apply index_of_none_split. assumption.
  - change (join sep (e :: e2 :: r')) with (e ++ sep :: join sep (e2 :: r')).
    rewrite split_app_sep by assumption. f_equal. apply IH; [discriminate|assumption].
Qed.

(* ---------------------------------------------------------------- wf paths *)
Definition body (p : path) : list byte := slice (poff p) (plen p - 1) (pbase p).

Definition elems (p : path) : list (list byte) :=
  if plen p =? 0 then [] else split (psep p) (body p).

Definition first_ok (p : path) : Prop :=
  pfirst p = 0 \/ pfirst p = length (hd [] (split (psep p) (body p))).

Definition pwf (p : path) : Prop :=
  pbin p = false /\
  (plen p <> 0 -> poff p + (plen p - 1) <= length (pbase p) /\ first_ok p).

Lemma elems_nil_iff p : elems p = [] <-> plen p = 0.
Proof.
  unfold elems. destruct (Nat.eqb_spec (plen p) 0); split; intros H; try reflexivity; try lia.
  exfalso. eapply split_nonnil; eauto.
Qed.

Lemma body_length p : plen p <> 0 -> poff p + (plen p - 1) <= length (pbase p) ->
  length (body p) = plen p - 1.
Proof. intros. unfold body. apply length_slice. assumption. Qed.

Lemma skipn_skipn' {A} (l : list A) a b : skipn a (skipn b l) = skipn (b + a) l.
Proof.
  revert l; induction b as [|b IH]; intros l; [reflexivity|].
  destruct l as [|x l]; [destruct a; reflexivity|]. cbn [skipn plus]. apply IH.
Qed.

Lemma firstn_len_firstn {A} (l : list A) k : firstn (length (firstn k l)) l = firstn k l.
Proof.
  rewrite firstn_length. destruct (Nat.min_spec k (length l)) as [[H E]|[H E]]; rewrite E; [reflexivity|].
  rewrite firstn_all. symmetry. apply firstn_all2. lia.
Qed.

Lemma slice_slice {A} (l : list A) i n j m : j + m <= n -> slice j m (slice i n l) = slice (i + j) m l.
Proof.
  intros H. unfold slice. rewrite skipn_firstn_comm, firstn_firstn, skipn_skipn'.
  rewrite Nat.min_l by lia. reflexivity.
Qed.

Lemma slice_firstn {A} (l : list A) i n k : k <= n -> firstn k (slice i n l) = slice i k l.
Proof. intros H. unfold slice. rewrite firstn_firstn, Nat.min_l by lia. reflexivity. Qed.

Lemma slice_skipn {A} (l : list A) i n k : k <= n -> skipn k (slice i n l) = slice (i + k) (n - k) l.
Proof.
  intros H. unfold slice. rewrite skipn_firstn_comm, skipn_skipn'. reflexivity.
Qed.

(* the length and position mpt_path_next computes, whichever of its two branches runs *)
Lemma hd_split_length sep s :
  length (hd [] (split sep s)) = match index_of sep s with Some k => k | None => length s end.
Proof.
  destruct (index_of sep s) as [k|] eqn:E.
  - destruct (index_of_some_split _ _ _ E) as (Hk & Hs & _). rewrite Hs. simpl.
    rewrite firstn_length. lia.
  - rewrite index_of_none_split by assumption. reflexivity.
Qed.

Definition same_store (p q : path) : Prop :=
  pbase q = pbase p /\ psep q = psep p /\ passign q = passign p /\ pbin q = pbin p /\
  parr q = parr p /\ pkeep q = pkeep p.

(* mpt_path_next on a well-formed, non-empty path: it returns the length of the
   first element, the bytes at the old offset are that element, and the rest of
   the path denotes the remaining elements *)
Lemma path_next_spec p : pwf p -> plen p <> 0 ->
  exists e r p',
    elems p = e :: r /\
    path_next p = Done (length e, p') /\
    rdn (pbase p) (poff p) (length e) = Done e /\
    pwf p' /\ elems p' = r /\ pfirst p' = 0 /\ same_store p p' /\
    plen p' < plen p /\ poff p' + plen p' = poff p + plen p.
Proof.
  intros [Hb Hw] Hn. destruct (Hw Hn) as [Hbound Hf].
  pose proof (body_length p Hn Hbound) as Hbl.
  set (sep := psep p) in *. set (b := body p) in *.
  assert (Hel : elems p = split sep b).
  { unfold elems. destruct (Nat.eqb_spec (plen p) 0); [lia|reflexivity]. }
  pose proof (hd_split_length sep b) as Hhl.
  (* both branches compute len = |e1| and skip as below *)
  set (e := hd [] (split sep b)) in *.
  set (skip := match index_of sep b with Some k => k + 1 | None => plen p end).
  assert (Hlen : length e = skip - 1 /\ 1 <= skip <= plen p /\
                 (index_of sep b = None -> skip = plen p)).
  { unfold skip. destruct (index_of sep b) as [k|] eqn:E.
    - destruct (index_of_some_split _ _ _ E) as (Hk & _). rewrite Hhl. repeat split; try lia. discriminate.
    - rewrite Hhl. repeat split; lia. }
  destruct Hlen as (Hle & Hsk & Hnone).
  assert (Hnext : path_next p = Done (length e,
            mkpath (pbase p) (poff p + skip) (plen p - skip) 0 (pbin p) (parr p) (pkeep p) (psep p) (passign p))).
  { unfold path_next. destruct (Nat.eqb_spec (plen p) 0); [lia|]. rewrite Hb.
    destruct (Nat.eqb_spec (pfirst p) 0) as [H0|H0]; cbn [negb].
    - unfold memchr, rdn. destruct (Nat.leb_spec (poff p + (plen p - 1)) (length (pbase p))); [|lia].
      cbn [cbind]. fold (body p). fold b. fold sep.
      assert (Hs : match index_of sep b with Some k => k + 1 | None => plen p end = skip) by reflexivity.
      rewrite Hs. destruct (Nat.ltb_spec (plen p) skip); [lia|].
      rewrite Hle. reflexivity.
    - destruct Hf as [Hf|Hf]; [contradiction|].
      cbn [cbind]. fold b in Hf. fold sep in Hf. fold e in Hf.
      replace (pfirst p + 1) with skip by lia.
      destruct (Nat.ltb_spec (plen p) skip); [lia|]. rewrite Hf. reflexivity. }
  assert (Hrd : rdn (pbase p) (poff p) (length e) = Done e).
  { unfold rdn. destruct (Nat.leb_spec (poff p + length e) (length (pbase p))); [|lia].
    f_equal. unfold e.
    destruct (index_of sep b) as [k|] eqn:E.
    - destruct (index_of_some_split _ _ _ E) as (Hk & Hs & _). rewrite Hs. cbn [hd].
      rewrite firstn_length, Nat.min_l by lia. unfold b, body. rewrite slice_firstn by lia. reflexivity.
    - rewrite index_of_none_split by assumption. cbn [hd]. rewrite Hbl. reflexivity. }
  set (p' := mkpath (pbase p) (poff p + skip) (plen p - skip) 0 (pbin p) (parr p) (pkeep p) (psep p) (passign p)).
  exists e, (tl (split sep b)), p'.
  assert (Hsplit : split sep b = e :: tl (split sep b)).
  { unfold e. destruct (split sep b) eqn:E; [exfalso; eapply split_nonnil; eauto|reflexivity]. }
  split; [rewrite Hel; exact Hsplit|].
  split; [exact Hnext|]. split; [exact Hrd|].
  assert (Hel' : elems p' = tl (split sep b)).
  { unfold elems. cbn [plen psep p'].
    destruct (index_of sep b) as [k|] eqn:E.
    - destruct (index_of_some_split _ _ _ E) as (Hk & Hs & _).
      assert (skip = k + 1) by reflexivity.
      rewrite Hs. cbn [tl].
      destruct (Nat.eqb_spec (plen p - skip) 0) as [Hz|Hz].
      + (* nothing left although a separator was found: impossible, k < |b| = plen-1 *) lia.
      + f_equal. unfold body. cbn [poff plen pbase p']. unfold b, body.
        rewrite slice_skipn by lia. f_equal; lia.
    - rewrite (Hnone eq_refl). rewrite Nat.sub_diag. cbn. rewrite index_of_none_split by assumption. reflexivity. }
  split.
  { split; [exact Hb|]. intros Hn'. cbn [plen poff pbase p'] in *. split; [lia|]. left. reflexivity. }
  split; [exact Hel'|]. split; [reflexivity|].
  split; [unfold same_store; cbn; repeat split|]. unfold p'. cbn [plen poff]. clear - Hsk. clearbody skip. lia.
Qed.

Lemma path_next_empty p : plen p = 0 -> path_next p = Fail MissingData.
Proof. intros H. unfold path_next. rewrite H. reflexivity. Qed.

(* the restore of mpt_node_query after a miss *)
Lemma restore_spec p p' : pwf p -> same_store p p' -> pfirst p' = 0 ->
  pwf (restore p p') /\ elems (restore p p') = elems p /\ same_store p (restore p p') /\
  plen (restore p p') = plen p /\ poff (restore p p') = poff p.
Proof.
  intros [Hb Hw] (Hba & Hs & Ha & Hbi & Har & Hk) Hf.
  assert (Hbody : body (restore p p') = body p).
  { unfold body, restore; cbn. rewrite Hba. reflexivity. }
  split.
  { split; [unfold restore; cbn; congruence|].
    intros Hn. unfold restore in *; cbn in *. rewrite Hba. split; [apply Hw; assumption|].
    left. assumption. }
  split.
  { unfold elems. rewrite Hbody. unfold restore; cbn. rewrite Hs. reflexivity. }
  split; [unfold same_store, restore; cbn; repeat split; assumption|].
  split; reflexivity.
Qed.

(* ---------------------------------------------------------------- walking *)
Lemma path_walk_spec fuel p : pwf p -> plen p < fuel -> path_walk fuel p = Done (elems p).
Proof.
  revert p; induction fuel as [|fuel IH]; intros p Hw Hf; [lia|].
  cbn [path_walk]. destruct (Nat.eq_dec (plen p) 0) as [Hz|Hz].
  - rewrite path_next_empty by assumption. apply elems_nil_iff in Hz. rewrite Hz. reflexivity.
  - destruct (path_next_spec p Hw Hz) as (e & r & p' & He & Hn & Hrd & Hw' & He' & _ & _ & Hlt & _).
    rewrite Hn, Hrd. cbn [cbind]. rewrite IH by (assumption || lia). cbn [cbind].
    rewrite He, He'. reflexivity.
Qed.

(* ---------------------------------------------------------------- path_set *)
Lemma upto_index c s : upto c s = match index_of c s with Some k => firstn k s | None => s end.
Proof.
  induction s as [|b r IH]; [reflexivity|]. simpl. destruct (beq b c); [reflexivity|].
  rewrite IH. destruct (index_of c r); reflexivity.
Qed.

(* the scan loop: position of the assign character (if any) within the first n
   bytes, number of separators before it, position of the first separator *)
Lemma pscan_spec sep assign : forall n l pl el fi,
  n <= length l ->
  exists el' fi',
  pscan l n pl el fi sep assign =
    Done (match index_of assign (firstn n l) with Some k => pl + k + 1 | None => pl + n end,
          el', fi',
          match index_of assign (firstn n l) with Some _ => true | None => false end) /\
  (el <> 0 -> fi' = fi) /\
  (el = 0 -> fi' = match index_of sep (upto assign (firstn n l)) with
                   | Some j => pl + j | None => fi end).
Proof.
  induction n as [|n IH]; intros l pl el fi Hl.
  - cbn. exists el, fi. rewrite Nat.add_0_r. repeat split; auto.
  - destruct l as [|c l]; [simpl in Hl; lia|]. simpl in Hl.
    cbn [pscan firstn index_of upto]. destruct (beq c assign) eqn:Ea.
    + exists (S el), fi. cbn. replace (pl + 0 + 1) with (S pl) by lia. repeat split; auto.
    + destruct (beq c sep) eqn:Es.
      * destruct (IH l (S pl) (S el) (if el =? 0 then pl else fi)) as (el' & fi' & Hp & H1 & H2); [lia|].
        exists el', fi'. rewrite Hp. split.
        { destruct (index_of assign (firstn n l)); cbn; repeat f_equal; lia. }
        split.
        { intros Hne. rewrite H1 by lia. destruct (Nat.eqb_spec el 0); [lia|reflexivity]. }
        { intros He. subst el. rewrite H1 by lia. cbn [index_of Nat.eqb]. rewrite Es. lia. }
      * destruct (IH l (S pl) el fi) as (el' & fi' & Hp & H1 & H2); [lia|].
        exists el', fi'. rewrite Hp. split.
        { destruct (index_of assign (firstn n l)); cbn; repeat f_equal; lia. }
        split; [exact H1|].
        intros He. rewrite (H2 He). cbn [index_of]. rewrite Es.
        destruct (index_of sep (upto assign (firstn n l))); cbn; lia.
Qed.

(* mpt_path_set with an explicit length over the bytes [s]: a well-formed path
   whose elements are the separator-delimited components of [s] up to the first
   assign character *)
Lemma path_set_len_spec p0 s :
  exists p n, path_set p0 (Some s) (Some (length s)) = Done (p, n) /\
    pwf p /\ elems p = split (psep p0) (upto (passign p0) s) /\
    psep p = psep p0 /\ passign p = passign p0 /\ poff p = 0 /\ plen p <> 0.
Proof.
  unfold path_set. cbn [cbind].
  destruct (pscan_spec (psep p0) (passign p0) (length s) s 0 0 0 (le_n _)) as (el & fi & Hp & _ & H2).
  rewrite Hp. cbn [cbind]. rewrite firstn_all in *. specialize (H2 eq_refl).
  set (u := upto (passign p0) s) in *.
  eexists _, el. split; [reflexivity|].
  assert (Hu : u = match index_of (passign p0) s with Some k => firstn k s | None => s end)
    by apply upto_index.
  (* length of the path and its body *)
  assert (Hbody : forall L F, L = length u + 1 ->
            body (mkpath s 0 L F false false false (psep p0) (passign p0)) = u).
  { intros L F HL. unfold body. cbn. subst L. replace (length u + 1 - 1) with (length u) by lia.
    unfold slice. cbn. rewrite Hu. destruct (index_of (passign p0) s) as [k|] eqn:E.
    - apply firstn_len_firstn.
    - apply firstn_all. }
  assert (HL : (match index_of (passign p0) s with Some k => 0 + k + 1 | None => 0 + length s end) +
               (if match index_of (passign p0) s with Some _ => true | None => false end then 0 else 1)
               = length u + 1).
  { rewrite Hu. destruct (index_of (passign p0) s) as [k|] eqn:E.
    - assert (k < length s).
      { clear -E. revert k E. induction s as [|b r IH]; intros k E; [discriminate|]. simpl in E.
        destruct (beq b (passign p0)); [inversion E; simpl; lia|].
        destruct (index_of (passign p0) r); [|discriminate]. inversion E. specialize (IH n eq_refl). simpl. lia. }
      rewrite firstn_length. lia.
    - lia. }
  rewrite HL.
  assert (Hlenu : length u <= length s).
  { rewrite Hu. destruct (index_of (passign p0) s); [rewrite firstn_length|]; lia. }
  split.
  { split; [reflexivity|]. intros _. cbn [poff plen pbase]. split; [lia|].
    unfold first_ok. cbn [pfirst psep]. rewrite (Hbody _ _ eq_refl). rewrite hd_split_length.
    rewrite H2. destruct (index_of (psep p0) u) as [j|].
    - destruct (Nat.ltb_spec 255 (0 + j)); [left; reflexivity | right; lia].
    - left. reflexivity. }
  split.
  { unfold elems. cbn [plen psep]. destruct (Nat.eqb_spec (length u + 1) 0); [lia|].
    rewrite (Hbody _ _ eq_refl). reflexivity. }
  cbn. repeat split; lia.
Qed.

Lemma path_elements_len p0 s : exists p n,
  path_set p0 (Some s) (Some (length s)) = Done (p, n) /\ pwf p /\
  pwalk p = Done (split (psep p0) (upto (passign p0) s)).
Proof.
  destruct (path_set_len_spec p0 s) as (p & n & Hs & Hw & He & _).
  exists p, n. split; [assumption|]. split; [assumption|].
  unfold pwalk. rewrite path_walk_spec by (assumption || lia). rewrite He. reflexivity.
Qed.

(* ---------------------------------------------------------------- C strings *)
Lemma cstr_facts s :
  index_of 0%N (s ++ [0%N]) = Some (length (upto 0%N s)) /\
  firstn (length (upto 0%N s) + 1) (s ++ [0%N]) = upto 0%N s ++ [0%N] /\
  index_of 0%N (upto 0%N s) = None.
Proof.
  induction s as [|b r (IH1 & IH2 & IH3)]; [repeat split|].
  cbn [app index_of upto]. destruct (beq b 0%N) eqn:E.
  - apply beq_true in E. subst b. repeat split.
  - cbn [length Nat.add firstn app index_of]. rewrite IH1, IH2, E, IH3. repeat split.
Qed.

Lemma index_of_lt c s k : index_of c s = Some k -> k < length s.
Proof.
  revert k; induction s as [|b r IH]; intros k H; [discriminate|]. cbn in H.
  destruct (beq b c); [inversion H; cbn; lia|].
  destruct (index_of c r) as [j|]; [|discriminate]. inversion H. specialize (IH j eq_refl). cbn. lia.
Qed.

Lemma index_of_app_some c a b k : index_of c a = Some k -> index_of c (a ++ b) = Some k.
Proof.
  revert k; induction a as [|x a IH]; intros k H; [discriminate|]. cbn in *.
  destruct (beq x c); [assumption|]. destruct (index_of c a) as [j|]; [|discriminate].
  rewrite (IH j eq_refl). assumption.
Qed.

(* mpt_path_set(path, str, -1): the elements are the components of the C string
   up to the assign character; the terminating NUL is the end position *)
Lemma path_set_str_spec p0 s :
  exists p n, path_set p0 (Some (s ++ [0%N])) None = Done (p, n) /\
    pwf p /\ elems p = split (psep p0) (upto (passign p0) (upto 0%N s)) /\
    psep p = psep p0 /\ passign p = passign p0 /\ poff p = 0 /\ plen p <> 0.
Proof.
  destruct (cstr_facts s) as (Hi & Hfn & Hno0).
  set (cs := upto 0%N s) in *. set (k := length cs) in *.
  set (sep := psep p0). set (asg := passign p0).
  unfold path_set. rewrite Hi. cbn [cbind].
  assert (Hlen : k + 1 <= length (s ++ [0%N])).
  { apply index_of_lt in Hi. lia. }
  destruct (pscan_spec sep asg (k + 1) (s ++ [0%N]) 0 0 0 Hlen) as (el & fi & Hp & _ & H2).
  fold sep asg. rewrite Hp. cbn [cbind]. rewrite Hfn in *. specialize (H2 eq_refl).
  set (T := upto asg cs).
  (* the position the scan stops at *)
  assert (Hcase : (exists j, index_of asg (cs ++ [0%N]) = Some j /\ j = length T /\
                             upto asg (cs ++ [0%N]) = T) \/
                  (index_of asg (cs ++ [0%N]) = None /\ T = cs /\ upto asg (cs ++ [0%N]) = cs ++ [0%N])).
  { unfold T. rewrite !upto_index. destruct (index_of asg cs) as [j|] eqn:Ea.
    - left. exists j. pose proof (index_of_lt _ _ _ Ea).
      rewrite (index_of_app_some _ _ _ _ Ea). repeat split.
      + rewrite firstn_length. lia.
      + rewrite firstn_app. replace (j - length cs) with 0 by lia. rewrite firstn_O, app_nil_r. reflexivity.
    - rewrite (index_of_app_none _ _ _ Ea). cbn [index_of]. destruct (beq 0%N asg) eqn:E0.
      + left. exists (length cs + 0). cbn [option_map]. repeat split; [lia|].
        rewrite firstn_app, Nat.add_0_r, Nat.sub_diag, firstn_all, firstn_O, app_nil_r. reflexivity.
      + right. cbn [option_map]. repeat split. }
  eexists _, el. split; [reflexivity|].
  assert (Hbody : forall L F, L = length T + 1 ->
            body (mkpath (s ++ [0%N]) 0 L F false false false sep asg) = T).
  { intros L F HL. unfold body. cbn [poff plen pbase]. subst L.
    replace (length T + 1 - 1) with (length T) by lia. unfold slice. cbn [skipn].
    assert (HT : length T <= k).
    { unfold T. rewrite upto_index. destruct (index_of asg cs); [rewrite firstn_length|]; lia. }
    replace (firstn (length T) (s ++ [0%N])) with (firstn (length T) (firstn (k + 1) (s ++ [0%N])))
      by (rewrite firstn_firstn; f_equal; lia).
    rewrite Hfn, firstn_app. replace (length T - length cs) with 0 by lia.
    rewrite firstn_O, app_nil_r. unfold T. rewrite upto_index.
    destruct (index_of asg cs) as [j|] eqn:Ea; [apply firstn_len_firstn|apply firstn_all]. }
  assert (HL : (match index_of asg (cs ++ [0%N]) with Some j => 0 + j + 1 | None => 0 + (k + 1) end) +
               (if match index_of asg (cs ++ [0%N]) with Some _ => true | None => false end then 0 else 0)
               = length T + 1).
  { destruct Hcase as [(j & Hj & HjT & _)|(Hn & HT & _)].
    - rewrite Hj. lia.
    - rewrite Hn, HT. fold k. lia. }
  rewrite HL.
  assert (HTk : length T <= k).
  { unfold T. rewrite upto_index. destruct (index_of asg cs); [rewrite firstn_length|]; lia. }
  split.
  { split; [reflexivity|]. intros _. cbn [poff plen pbase]. split; [lia|].
    unfold first_ok. cbn [pfirst psep]. rewrite (Hbody _ _ eq_refl), hd_split_length, H2.
    destruct Hcase as [(j & _ & _ & HU)|(_ & HT & HU)]; rewrite HU.
    - destruct (index_of sep T) as [i|]; [|left; reflexivity].
      destruct (Nat.ltb_spec 255 (0 + i)); [left; reflexivity|right; lia].
    - rewrite HT. destruct (index_of sep cs) as [i|] eqn:Es.
      + rewrite (index_of_app_some _ _ _ _ Es).
        destruct (Nat.ltb_spec 255 (0 + i)); [left; reflexivity|right; lia].
      + rewrite (index_of_app_none _ _ _ Es). cbn [index_of]. destruct (beq 0%N sep); cbn [option_map].
        * destruct (Nat.ltb_spec 255 (0 + (length cs + 0))); [left; reflexivity|right; lia].
        * left. reflexivity. }
  split.
  { unfold elems. cbn [plen psep]. destruct (Nat.eqb_spec (length T + 1) 0); [lia|].
    rewrite (Hbody _ _ eq_refl). reflexivity. }
  cbn. repeat split; lia.
Qed.

Lemma str_path_spec s sep en :
  exists p, str_path (Some s) sep en = Done p /\ pwf p /\
    elems p = split sep (upto en (upto 0%N s)) /\ psep p = sep /\ passign p = en /\ plen p <> 0.
Proof.
  unfold str_path.
  destruct (path_set_str_spec (path_init sep en) s) as (p & n & Hs & Hw & He & H1 & H2 & _ & Hn).
  rewrite Hs. cbn [cbind]. exists p. cbn in H1, H2, He.
  split; [reflexivity|]. split; [assumption|]. split; [assumption|]. split; [assumption|]. split; assumption.
Qed.

Lemma str_path_null sep en :
  exists p, str_path None sep en = Done p /\ pwf p /\ plen p = 0 /\ elems p = [].
Proof.
  unfold str_path, path_set. cbn. eexists. split; [reflexivity|]. split.
  - split; [reflexivity|]. cbn. congruence.
  - split; reflexivity.
Qed.

(* the key named by a C string (ConfigSpec.str_key) is what the path made from it denotes *)
Lemma str_path_key s sep :
  exists p, str_path s sep 0%N = Done p /\ pwf p /\ elems p = str_key s sep.
Proof.
  destruct s as [s|].
  - destruct (str_path_spec s sep 0%N) as (p & Hp & Hw & He & _). exists p. split; [assumption|].
    split; [assumption|]. rewrite He. cbn [str_key]. f_equal.
    (* cutting an already NUL-free string at NUL changes nothing *)
    destruct (cstr_facts s) as (_ & _ & Hn). rewrite upto_index, Hn. reflexivity.
  - destruct (str_path_null sep 0%N) as (p & Hp & Hw & _ & He). exists p.
    split; [assumption|]. split; [assumption|]. rewrite He. reflexivity.
Qed.
