(* C10/TreeView.v — trails into updated forests, make_global, and the three
   interface calls of config_global.c through a sub-tree view (configRoot.base). *)
From MptV Require Import Base.Mem Base.Tactics C10.ConfigModel C10.ConfigSpec C10.PathProofs
  C10.TreeQuery C10.TreeOps C10.TreeAssign C10.StoreRefine.
Local Open Scope nat_scope.

(* ---------------------------------------------------------------- find_idx after updates *)
Lemma find_idx_app_new n f c i0 : find_node n f = None -> nname' c = n ->
  find_idx n (f ++ [c]) i0 = Some (i0 + length f, c).
Proof.
  revert i0; induction f as [|x f IH]; intros i0 Hn Hc; cbn in *.
  - rewrite Hc, bytes_eqb_refl, Nat.add_0_r. reflexivity.
  - destruct (bytes_eqb (nname' x) n); [discriminate|]. rewrite IH by assumption. f_equal. f_equal. lia.
Qed.

Lemma find_idx_upd_nth f : forall s i0 G n nd, find_idx n f i0 = Some (i0 + s, nd) ->
  nname' (G nd) = nname' nd -> find_idx n (upd_nth f s G) i0 = Some (i0 + s, G nd).
Proof.
  induction f as [|x f IH]; intros s i0 G n nd Hf HG; [discriminate|].
  cbn in Hf. destruct (bytes_eqb (nname' x) n) eqn:E.
  - inversion Hf as [[Hs Hx]]. assert (s = 0) by lia. subst s x. cbn. rewrite HG, E, !Nat.add_0_r. reflexivity.
  - destruct s as [|s].
    + destruct (find_idx_spec _ _ _ _ _ Hf) as (Hle & _). lia.
    + cbn. rewrite E. replace (i0 + S s) with (S i0 + s) in * by lia. apply IH; assumption.
Qed.

Lemma find_idx_upd0 f i G n nd : find_idx n f 0 = Some (i, nd) -> nname' (G nd) = nname' nd ->
  find_idx n (upd_nth f i G) 0 = Some (i, G nd).
Proof. intros H HG. apply (find_idx_upd_nth f i 0 G n nd); assumption. Qed.

(* ---------------------------------------------------------------- trails *)
Fixpoint chain_last (r : key) (mt : option value) : node :=
  match r with
  | [] => Node [] mt []
  | n :: r' => match r' with [] => Node n mt [] | _ => chain_last r' mt end
  end.

Lemma trail_chain : forall r mt, r <> [] ->
  trail_of [chain_of r mt] r (chain_trail (chain_of r mt)) (chain_last r mt).
Proof.
  induction r as [|n r IH]; intros mt Hr; [congruence|]. destruct r as [|a r].
  - cbn. constructor. cbn. rewrite bytes_eqb_refl. reflexivity.
  - change (chain_of (n :: a :: r) mt) with (Node n None [chain_of (a :: r) mt]).
    change (chain_last (n :: a :: r) mt) with (chain_last (a :: r) mt).
    cbn [chain_trail]. apply TO_cons with (Node n None [chain_of (a :: r) mt]).
    + cbn. rewrite bytes_eqb_refl. reflexivity.
    + discriminate.
    + cbn [nkids']. apply IH. discriminate.
Qed.

Lemma trail_app_chain f r mt : r <> [] -> find_node (hd [] r) f = None ->
  trail_of (f ++ [chain_of r mt]) r (length f :: tl (chain_trail (chain_of r mt))) (chain_last r mt).
Proof.
  intros Hr Hn. destruct r as [|n r]; [congruence|]. cbn [hd] in Hn.
  pose proof (find_idx_app_new n f (chain_of (n :: r) mt) 0 Hn (chain_name n r mt)) as Hf. cbn [Nat.add] in Hf.
  destruct r as [|a r].
  - cbn [chain_of chain_trail tl chain_last] in *. constructor. exact Hf.
  - change (chain_of (n :: a :: r) mt) with (Node n None [chain_of (a :: r) mt]) in *.
    change (chain_last (n :: a :: r) mt) with (chain_last (a :: r) mt).
    cbn [chain_trail tl]. eapply TO_cons; [exact Hf|discriminate|].
    cbn [nkids']. apply trail_chain. discriminate.
Qed.

Lemma trail_under : forall f m t nd, trail_of f m t nd ->
  forall kids' r2 t2 x2, trail_of kids' r2 t2 x2 ->
  trail_of (upd_at f t (fun n => Node (nname' n) (nval' n) kids')) (m ++ r2) (t ++ t2) x2.
Proof.
  induction 1 as [f n i nd Hf | f n m i nd t x Hf Hm Ht IH]; intros kids' r2 t2 x2 H2.
  - cbn [upd_at app]. eapply TO_cons.
    + apply (find_idx_upd0 f i _ n nd Hf). reflexivity.
    + apply (trail_of_nonnil _ _ _ _ H2).
    + cbn [nkids']. exact H2.
  - destruct (trail_of_nonnil _ _ _ _ Ht) as [_ Htn]. rewrite upd_at_cons by assumption.
    cbn [app]. eapply TO_cons.
    + match goal with |- context [upd_nth f i ?G] => apply (find_idx_upd0 f i G n nd Hf) end. reflexivity.
    + destruct m; [congruence|discriminate].
    + cbn [nkids']. apply IH. exact H2.
Qed.

Lemma trail_upd_same : forall f m t nd, trail_of f m t nd ->
  forall G, nname' (G nd) = nname' nd -> trail_of (upd_at f t G) m t (G nd).
Proof.
  induction 1 as [f n i nd Hf | f n m i nd t x Hf Hm Ht IH]; intros G HG.
  - cbn [upd_at]. constructor. apply find_idx_upd0; assumption.
  - destruct (trail_of_nonnil _ _ _ _ Ht) as [_ Htn]. rewrite upd_at_cons by assumption.
    eapply TO_cons.
    + match goal with |- context [upd_nth f i ?GG] => apply (find_idx_upd0 f i GG n nd Hf) end. reflexivity.
    + assumption.
    + cbn [nkids']. apply IH. assumption.
Qed.

Lemma trail_compose : forall f m t nd, trail_of f m t nd ->
  forall q tr x, trail_of (nkids' nd) q tr x -> trail_of f (m ++ q) (t ++ tr) x.
Proof.
  induction 1 as [f n i nd Hf | f n m i nd t x Hf Hm Ht IH]; intros q tr y Hq.
  - cbn [app]. eapply TO_cons; [exact Hf|apply (trail_of_nonnil _ _ _ _ Hq)|exact Hq].
  - cbn [app]. eapply TO_cons; [exact Hf| |apply IH; exact Hq]. destruct m; [congruence|discriminate].
Qed.

(* ---------------------------------------------------------------- mpt_node_assign, with the returned trail *)
Lemma node_assign_full f p val : wff f -> pwf p -> elems p <> [] -> Forall name_ok (elems p) ->
  (val = None -> snd (aquery f (elems p)) <> []) ->
  exists f' t nd, node_assign f p val = Done (f', Some t) /\ wff f' /\ trail_of f' (elems p) t nd /\
    forall k, k <> [] -> tlook f' k = upd_gen (tlook f) (elems p) (ov_of val) k.
Proof.
  intros Hwf Hw Hne Hok Hval.
  destruct (node_query_spec f p Hw) as (p' & Hq & Hw' & He' & _).
  unfold node_assign. rewrite Hq. cbn [cbind].
  set (r := elems p) in *.
  assert (Hmt : (match val with None => Some None | Some v => option_map Some (meta_new v) end) = Some val).
  { destruct val as [v|]; [rewrite meta_new_total|]; reflexivity. }
  destruct (aquery f r) as [q r2] eqn:Eaq. cbn [fst snd] in *.
  destruct q as [t|].
  - destruct (aquery_some _ _ _ _ Eaq) as (m & nd & Hr & Ht & Hnone).
    pose proof (trail_of_node_at _ _ _ _ Ht) as Hat.
    destruct (Nat.eqb_spec (plen p') 0) as [Hz|Hz].
    + apply elems_nil_iff in Hz. assert (E0 : r2 = []) by congruence. rewrite E0 in *. clear E0.
      rewrite app_nil_r in Hr. subst m.
      destruct val as [v|]; [|exfalso; apply Hval; reflexivity].
      rewrite Hat. cbn [meta_set]. rewrite meta_new_total.
      eexists _, t, _. split; [reflexivity|]. split.
      * eapply wff_upd_at; eauto. intros Hn. apply wfn_unfold. cbn. apply wfn_unfold. assumption.
      * split; [apply (trail_upd_same f r t nd Ht); reflexivity|].
        intros k Hk. cbn [ov_of]. apply (tlook_setval f r t nd Ht (Some v) k Hk).
    + assert (Hr2 : r2 <> []) by (intros H; apply Hz; apply elems_nil_iff; congruence).
      rewrite Hmt.
      assert (Hok2 : Forall name_ok r2).
      { rewrite Hr in Hok. apply Forall_app in Hok. apply Hok. }
      rewrite (mkchain_spec r2 (S (plen p')) p' val Hw' He' Hr2 Hok2) by lia. cbn [cbind].
      rewrite Hat.
      set (c := chain_of r2 val).
      assert (Hcn : nname' c = hd [] r2) by (unfold c; destruct r2; [congruence|apply chain_name]).
      assert (Hfn : find_node (nname' c) (nkids' nd) = None) by (rewrite Hcn; apply Hnone; assumption).
      eexists _, _, _. split; [reflexivity|].
      rewrite (upd_at_ext f m t nd Ht (fun n => Node (nname' n) (nval' n) (nkids' n ++ [c]))
                 (fun n => Node (nname' n) (nval' n) (nkids' nd ++ [c])) eq_refl).
      split.
      * eapply wff_upd_at; eauto. intros Hn. apply wfn_unfold. cbn [nkids'].
        apply wff_app; [apply wfn_unfold; assumption|apply wfn_chain|assumption].
      * split.
        -- rewrite Hr. apply (trail_under f m t nd Ht). unfold c. apply trail_app_chain; [assumption|].
           rewrite <- Hcn. assumption.
        -- intros k Hk. rewrite Hr.
           apply (tlook_under f m t nd Ht (nkids' nd ++ [c]) r2 (ov_of val) Hr2); [|assumption].
           intros k2 Hk2. apply tlook_create; try assumption.
           ++ rewrite <- Hcn. assumption.
           ++ intros H. destruct val; [discriminate|reflexivity].
           ++ intros v H. destruct val; cbn in H; [inversion H; reflexivity|discriminate].
  - destruct (aquery_none _ _ _ Eaq) as [Hr2 Hnone]. rewrite Hr2 in *. clear Hr2.
    destruct Hnone as [Hnil|Hnone]; [congruence|].
    rewrite Hmt.
    rewrite (mkchain_spec r (S (plen p')) p' val Hw' He' Hne Hok) by lia. cbn [cbind].
    set (c := chain_of r val).
    assert (Hcn : nname' c = hd [] r) by (unfold c; destruct r; [congruence|apply chain_name]).
    eexists _, _, _. split; [reflexivity|]. split.
    + apply wff_app; [assumption|apply wfn_chain|rewrite Hcn; assumption].
    + split; [unfold c; apply trail_app_chain; assumption|].
      intros k Hk. apply tlook_create; try assumption.
      * intros H. destruct val; [discriminate|reflexivity].
      * intros v H. destruct val; cbn in H; [inversion H; reflexivity|discriminate].
Qed.

(* ---------------------------------------------------------------- make_global *)
Lemma upd_gen_present (L : key -> entry) b : (forall k, k <> [] -> key_prefix k b = true -> touch (L k) = L k) ->
  forall k, k <> [] -> upd_gen L b None k = L k.
Proof.
  intros H k Hk. unfold upd_gen. destruct (key_eqb k b) eqn:E.
  - apply key_eqb_eq in E. subst k. apply H; [assumption|]. rewrite <- (app_nil_r b) at 2. apply key_prefix_app.
  - destruct (key_proper_prefix k b) eqn:Ep; [|reflexivity].
    unfold key_proper_prefix in Ep. apply andb_true_iff in Ep as [Ep _]. apply H; assumption.
Qed.

Lemma make_global_spec g b : wff g -> pwf b -> elems b <> [] -> Forall name_ok (elems b) ->
  exists g1 tb nd, make_global g b = Done (g1, Some tb) /\ wff g1 /\ trail_of g1 (elems b) tb nd /\
    forall k, k <> [] -> tlook g1 k = upd_gen (tlook g) (elems b) None k.
Proof.
  intros Hwf Hw Hne Hok. unfold make_global.
  destruct (node_query_spec g b Hw) as (p' & Hq & Hw' & He' & _). rewrite Hq. cbn [cbind].
  set (r := elems b) in *.
  destruct (aquery g r) as [q r2] eqn:Eaq. cbn [fst snd] in *.
  destruct q as [t|].
  - destruct (aquery_some _ _ _ _ Eaq) as (m & nd & Hr & Ht & Hnone).
    destruct (Nat.eqb_spec (plen p') 0) as [Hz|Hz].
    + apply elems_nil_iff in Hz. assert (E0 : r2 = []) by congruence. rewrite E0 in *. clear E0.
      rewrite app_nil_r in Hr. subst m.
      exists g, t, nd. split; [reflexivity|]. split; [assumption|]. split; [assumption|].
      intros k Hk. symmetry. apply upd_gen_present; [|assumption].
      intros k0 Hk0 Hp. apply (tlook_prefix_exists g r t nd Ht k0 Hk0 Hp).
    + assert (Hr2 : r2 <> []) by (intros H; apply Hz; apply elems_nil_iff; congruence).
      rewrite (trail_of_node_at _ _ _ _ Ht).
      assert (Hok2 : Forall name_ok r2).
      { rewrite Hr in Hok. apply Forall_app in Hok. apply Hok. }
      assert (Hwk : wff (nkids' nd)).
      { clear -Ht Hwf. induction Ht as [f n i nd Hf | f n m i nd t x Hf Hm Ht IH].
        - destruct (find_idx_first _ _ _ _ Hf) as (Hn & _). apply wfn_unfold.
          destruct Hwf as [_ Hall]. rewrite Forall_forall in Hall. apply Hall. eapply nth_error_In; eauto.
        - apply IH. destruct (find_idx_first _ _ _ _ Hf) as (Hn & _). apply wfn_unfold.
          destruct Hwf as [_ Hall]. rewrite Forall_forall in Hall. apply Hall. eapply nth_error_In; eauto. }
      destruct (node_assign_full (nkids' nd) p' None Hwk Hw') as (kids' & t2 & x2 & Ha & Hwk' & Ht2 & Hl);
        [rewrite He'; assumption | rewrite He'; assumption | |].
      { intros _. rewrite He'. destruct r2 as [|a r2]; [congruence|]. cbn [hd] in Hnone.
        cbn [aquery]. rewrite (proj2 (find_idx_none a (nkids' nd) 0)) by (apply Hnone; discriminate).
        cbn. discriminate. }
      rewrite Ha. cbn [cbind]. rewrite He' in *.
      eexists _, (t ++ t2), x2. split; [reflexivity|]. split.
      * eapply wff_upd_at; eauto. intros _. apply wfn_unfold. cbn. assumption.
      * split; [rewrite Hr; apply (trail_under g m t nd Ht); assumption|].
        intros k Hk. rewrite Hr. apply (tlook_under g m t nd Ht kids' r2 None Hr2); assumption.
  - destruct (aquery_none _ _ _ Eaq) as [Hr2 Hnone]. rewrite Hr2 in *. clear Hr2.
    destruct (node_assign_full g b None Hwf Hw Hne Hok) as (g1 & t & x & Ha & Hwf1 & Ht1 & Hl).
    { intros _. fold r. rewrite Eaq. cbn. assumption. }
    rewrite Ha. exists g1, t, x. split; [reflexivity|]. split; [assumption|]. split; [assumption|].
    exact Hl.
Qed.

(* ---------------------------------------------------------------- key facts *)
Lemma key_prefix_refl a : key_prefix a a = true.
Proof. rewrite <- (app_nil_r a) at 2. apply key_prefix_app. Qed.

Lemma key_prefix_app_r k b q : key_prefix k b = true -> key_prefix k (b ++ q) = true.
Proof.
  revert b; induction k as [|x k IH]; intros b H; [reflexivity|].
  destruct b as [|y b]; [discriminate|]. cbn in *. apply andb_true_iff in H as [H1 H2].
  rewrite H1. cbn. apply IH. assumption.
Qed.

Lemma key_eqb_app_self b q : q <> [] -> key_eqb b (b ++ q) = false.
Proof.
  intros Hq. destruct (key_eqb b (b ++ q)) eqn:E; [|reflexivity].
  apply key_eqb_eq in E. rewrite <- (app_nil_r b) in E at 1. apply app_inv_head in E. congruence.
Qed.

Lemma key_pp_app k b q : q <> [] -> key_prefix k b = true -> key_proper_prefix k (b ++ q) = true.
Proof.
  intros Hq H. unfold key_proper_prefix. rewrite key_prefix_app_r by assumption. cbn.
  destruct (key_eqb k (b ++ q)) eqn:E; [|reflexivity].
  apply key_eqb_eq in E. subst k. apply key_prefix_inv in H.
  apply (f_equal (@length _)) in H. rewrite !app_length in H. destruct q; [congruence|cbn in H; lia].
Qed.

Lemma touch_idem' e : touch (touch e) = touch e.
Proof. destruct e; reflexivity. Qed.

Lemma upd_gen_compose (L : key -> entry) b q v k : q <> [] ->
  upd_gen (upd_gen L b None) (b ++ q) (Some v) k = upd_gen L (b ++ q) (Some v) k.
Proof.
  intros Hq. unfold upd_gen at 1 3. destruct (key_eqb k (b ++ q)) eqn:E; [reflexivity|].
  destruct (key_proper_prefix k (b ++ q)) eqn:Ep.
  - unfold upd_gen. destruct (key_eqb k b); [apply touch_idem'|].
    destruct (key_proper_prefix k b); [apply touch_idem'|reflexivity].
  - unfold upd_gen. destruct (key_eqb k b) eqn:Eb.
    + apply key_eqb_eq in Eb. subst k. rewrite (key_pp_app b b q Hq (key_prefix_refl b)) in Ep. discriminate.
    + destruct (key_proper_prefix k b) eqn:Epb; [|reflexivity].
      unfold key_proper_prefix in Epb. apply andb_true_iff in Epb as [Epb _].
      rewrite (key_pp_app k b q Hq Epb) in Ep. discriminate.
Qed.
