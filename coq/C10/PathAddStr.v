(* C10/PathAddStr.v — mpt_path_add on a path WITHOUT array: a path that mpt_path_set laid over the
   caller's string (any offset: after mpt_path_next / mpt_path_last; any length after mpt_path_del).
   The next [n] bytes of that string become the next element; path and element are copied into
   storage of the path's own (HasArray set: docs/C10_path_add_hasarray.diff), nothing is behind the
   path afterwards and a further element is refused until post data is appended. *)
From MptV Require Import Base.Mem Base.Tactics C10.ConfigModel C10.ConfigSpec C10.PathProofs C10.PathAdd.
Local Open Scope nat_scope.

Lemma setnth_mid a x b y : setnth (a ++ x :: b) (length a) y = Done (a ++ y :: b).
Proof.
  unfold setnth. rewrite app_length. cbn [length].
  destruct (Nat.ltb_spec (length a) (length a + S (length b))); [|lia].
  rewrite firstn_app, Nat.sub_diag, firstn_all. cbn [firstn]. rewrite app_nil_r.
  replace (S (length a)) with (length a + 1) by lia.
  rewrite skipn_app, skipn_all2 by lia. replace (length a + 1 - length a) with 1 by lia. reflexivity.
Qed.

Lemma skipn_cons_nth (l : list byte) : forall k, k < length l -> skipn k l = nth k l 0%N :: skipn (S k) l.
Proof.
  induction l as [|b l IH]; intros k Hk; [cbn in Hk; lia|].
  destruct k; [reflexivity|]. cbn [skipn nth]. apply IH. cbn in Hk. lia.
Qed.

(* the storage cut at the byte in front of the path's end and behind the new element *)
Lemma split_storage (base : list byte) len n : 1 <= len -> len + n <= length base ->
  exists A x R, base = A ++ x :: slice len n base ++ R /\ length A = len - 1.
Proof.
  intros H1 H2. exists (firstn (len - 1) base), (nth (len - 1) base 0%N), (skipn (len + n) base).
  split; [|rewrite firstn_length; lia].
  rewrite <- (firstn_skipn (len - 1) base) at 1. f_equal.
  assert (Hs : skipn (len - 1) base = nth (len - 1) base 0%N :: skipn len base).
  { rewrite (skipn_cons_nth base (len - 1)) by lia. do 2 f_equal. lia. }
  rewrite Hs. f_equal. unfold slice.
  rewrite <- (firstn_skipn n (skipn len base)) at 1. f_equal. rewrite skipn_skipn'. reflexivity.
Qed.

Lemma path_add_from_string p n :
  pwf p -> parr p = false -> plen p <> 0 ->
  poff p + plen p + n <= length (pbase p) ->
  nosep (psep p) (slice (poff p + plen p) n (pbase p)) ->
  exists p', path_add p n = Done p' /\ pwf p' /\ parr p' = true /\
    elems p' = elems p ++ [slice (poff p + plen p) n (pbase p)] /\
    poff p' = poff p /\ psep p' = psep p /\ passign p' = passign p /\
    length (pbase p') = poff p' + plen p' /\
    (forall m, 0 < m -> path_add p' m = Fail BadValue).
Proof.
  intros [Hb Hw] Ha Hn Hlen He. destruct (Hw Hn) as [_ Hf].
  destruct p as [base off len first bin arr kp sep asg]. cbn [pbase poff plen pfirst pbin parr pkeep psep passign] in *.
  subst bin arr. set (L := off + len) in *. set (e := slice L n base) in *.
  destruct (split_storage base L n) as (A & x & R & Hbase & HA); [lia|lia|]. fold e in Hbase.
  assert (Hel : length e = n) by (unfold e; apply length_slice; lia).
  (* the old path body lies in A *)
  assert (Hbody : slice off (len - 1) base = skipn off A).
  { unfold slice. rewrite Hbase. rewrite skipn_app. replace (off - length A) with 0 by lia. cbn [skipn].
    rewrite firstn_app. replace (len - 1 - length (skipn off A)) with 0 by (rewrite skipn_length; lia).
    cbn [firstn]. rewrite app_nil_r. apply firstn_all2. rewrite skipn_length. lia. }
  assert (Helems : elems (mkpath base off len first false false kp sep asg) = split sep (skipn off A)).
  { unfold elems, body. cbn [plen poff pbase psep]. destruct (Nat.eqb_spec len 0); [lia|]. rewrite Hbody. reflexivity. }
  unfold first_ok, body in Hf. cbn [plen poff pbase psep pfirst] in Hf. rewrite Hbody in Hf.
  set (final := A ++ sep :: e ++ [asg]).
  assert (Hadd : path_add (mkpath base off len first false false kp sep asg) n =
                 Done (mkpath final off (len + n + 1) first false true false sep asg)).
  { unfold path_add. cbn [pbase poff plen pfirst pbin parr pkeep psep passign negb andb]. fold L.
    destruct (Nat.eqb_spec (length base) 0); [lia|]. cbn [cbind].
    unfold memchr, rdn. destruct (Nat.leb_spec (L + n) (length base)); [|lia]. cbn [cbind]. fold e.
    rewrite He. change (0 <? 1) with true. cbv iota.
    destruct (Nat.leb_spec (0 + (L + n)) (length base)); [|lia]. cbn [cbind].
    assert (Hpre : slice 0 (L + n) base = A ++ x :: e).
    { unfold slice. cbn [skipn]. rewrite Hbase.
      replace (A ++ x :: e ++ R) with ((A ++ x :: e) ++ R) by (rewrite <- app_assoc; reflexivity).
      rewrite firstn_app. replace (L + n - length (A ++ x :: e)) with 0 by (rewrite app_length; cbn [length]; lia).
      cbn [firstn]. rewrite app_nil_r. apply firstn_all2. rewrite app_length. cbn [length]. lia. }
    rewrite Hpre. destruct (Nat.eqb_spec L 0); [lia|]. cbn [cbind].
    replace ((A ++ x :: e) ++ [0%N]) with (A ++ x :: (e ++ [0%N])) by (rewrite <- app_assoc; reflexivity).
    replace (L - 1) with (length A) by lia. rewrite setnth_mid. cbn [cbind].
    replace (A ++ sep :: e ++ [0%N]) with ((A ++ sep :: e) ++ 0%N :: []) by (rewrite <- app_assoc; reflexivity).
    replace (L + n) with (length (A ++ sep :: e)) by (rewrite app_length; cbn [length]; lia).
    rewrite setnth_mid. cbn [cbind]. rewrite app_length. cbn [length].
    unfold final. f_equal. f_equal; [rewrite <- app_assoc; reflexivity|lia]. }
  eexists. split; [exact Hadd|].
  assert (Hfl : length final = off + (len + n + 1)).
  { unfold final. rewrite !app_length. cbn [length]. rewrite app_length. cbn [length]. lia. }
  assert (Hbody' : body (mkpath final off (len + n + 1) first false true false sep asg) = skipn off A ++ sep :: e).
  { unfold body, slice, final. cbn [plen poff pbase]. replace (len + n + 1 - 1) with (len + n) by lia.
    rewrite skipn_app. replace (off - length A) with 0 by lia. cbn [skipn].
    replace (skipn off A ++ sep :: e ++ [asg]) with ((skipn off A ++ sep :: e) ++ [asg]) by (rewrite <- app_assoc; reflexivity).
    rewrite firstn_app. replace (len + n - length (skipn off A ++ sep :: e)) with 0
      by (rewrite app_length, skipn_length; cbn [length]; lia).
    cbn [firstn]. rewrite app_nil_r. apply firstn_all2. rewrite app_length, skipn_length. cbn [length]. lia. }
  split.
  { split; [reflexivity|]. intros _. cbn [poff plen pbase]. split; [lia|].
    unfold first_ok. rewrite Hbody'. cbn [pfirst psep]. rewrite hd_split_snoc by exact He. exact Hf. }
  split; [reflexivity|]. split.
  { rewrite Helems. unfold elems at 1. cbn [plen psep]. destruct (Nat.eqb_spec (len + n + 1) 0); [lia|].
    rewrite Hbody'. apply split_snoc. exact He. }
  split; [reflexivity|]. split; [reflexivity|]. split; [reflexivity|].
  split; [cbn [pbase poff plen]; exact Hfl|].
  intros m Hm. unfold path_add. cbn [pbase poff plen pfirst pbin parr pkeep psep passign negb andb]. cbn [cbind].
  destruct (Nat.ltb_spec (length final) (off + (len + n + 1))); [lia|].
  replace (length final - (off + (len + n + 1))) with 0 by lia.
  destruct (Nat.ltb_spec 0 m); [reflexivity|lia].
Qed.
