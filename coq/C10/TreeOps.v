(* C10/TreeOps.v — the node forest read by key ([tlook]) and what the trail-based
   updates of the model (upd_at, remove_at, appending a chain) do to that reading. *)
From MptV Require Import Base.Mem Base.Tactics C10.ConfigModel C10.ConfigSpec C10.PathProofs C10.TreeQuery.
Local Open Scope nat_scope.

Fixpoint find_node (nm : name) (l : list node) : option node :=
  match l with
  | [] => None
  | k :: l' => if bytes_eqb (nname' k) nm then Some k else find_node nm l'
  end.

(* reading a key in a forest; the empty key is no entry *)
Fixpoint tlook (f : list node) (k : key) : entry :=
  match k with
  | [] => Absent
  | n :: k' =>
    match find_node n f with
    | None => Absent
    | Some nd => match k' with [] => Exists (nval' nd) | _ => tlook (nkids' nd) k' end
    end
  end.

Lemma find_idx_node nm l i : find_node nm l = option_map snd (find_idx nm l i).
Proof.
  revert i; induction l as [|k l IH]; intros i; [reflexivity|]. cbn.
  destruct (bytes_eqb (nname' k) nm); [reflexivity|]. apply IH.
Qed.

Lemma find_idx_spec nm l i j k : find_idx nm l i = Some (j, k) ->
  i <= j /\ nth_error l (j - i) = Some k /\ nname' k = nm /\
  (forall q x, q < j - i -> nth_error l q = Some x -> nname' x <> nm).
Proof.
  revert i; induction l as [|x l IH]; intros i H; [discriminate|]. cbn in H.
  destruct (bytes_eqb (nname' x) nm) eqn:E.
  - inversion H; subst. rewrite Nat.sub_diag. apply bytes_eqb_eq in E.
    repeat split; auto. intros q y Hq. lia.
  - destruct (IH _ H) as (H1 & H2 & H3 & H4). apply bytes_eqb_neq in E.
    replace (j - i) with (S (j - S i)) by lia. repeat split; auto; [lia|].
    intros q y Hq Hy. destruct q as [|q]; cbn in Hy.
    + inversion Hy; subst. assumption.
    + apply (H4 q y); [lia|assumption].
Qed.

Lemma find_idx_none nm l i : find_idx nm l i = None <-> find_node nm l = None.
Proof. rewrite (find_idx_node nm l i). destruct (find_idx nm l i); cbn; split; congruence. Qed.

(* ---------------------------------------------------------------- key tests *)
Lemma key_eqb_eq a b : key_eqb a b = true <-> a = b.
Proof.
  revert b; induction a as [|x a IH]; destruct b as [|y b]; cbn; split; intros H;
    try reflexivity; try discriminate.
  - apply andb_true_iff in H as [H1 H2]. apply bytes_eqb_eq in H1. apply IH in H2. congruence.
  - inversion H; subst. apply andb_true_iff. split; [apply bytes_eqb_refl | apply IH; reflexivity].
Qed.

Lemma key_eqb_refl a : key_eqb a a = true.
Proof. apply key_eqb_eq. reflexivity. Qed.

Lemma key_prefix_app a b : key_prefix a (a ++ b) = true.
Proof. induction a; cbn; [reflexivity|]. rewrite bytes_eqb_refl. assumption. Qed.

Lemma key_prefix_inv a b : key_prefix a b = true -> b = a ++ skipn (length a) b.
Proof.
  revert b; induction a as [|x a IH]; intros b H; [reflexivity|].
  destruct b as [|y b]; [discriminate|]. cbn in H. apply andb_true_iff in H as [H1 H2].
  apply bytes_eqb_eq in H1. subst y. cbn. f_equal. apply IH. assumption.
Qed.

(* ---------------------------------------------------------------- list updates *)
Lemma find_node_upd_nth l : forall pos g k,
  nth_error l pos = Some k -> nname' (g k) = nname' k ->
  (forall q x, q < pos -> nth_error l q = Some x -> nname' x <> nname' k) ->
  forall nm, find_node nm (upd_nth l pos g) = if bytes_eqb (nname' k) nm then Some (g k) else find_node nm l.
Proof.
  induction l as [|x l IH]; intros pos g k Hn Hg Hfirst nm; [destruct pos; discriminate|].
  destruct pos as [|pos]; cbn in Hn.
  - inversion Hn; subst. cbn. rewrite Hg. destruct (bytes_eqb (nname' k) nm); reflexivity.
  - cbn. assert (Hx : nname' x <> nname' k) by (apply (Hfirst 0 x); [lia|reflexivity]).
    destruct (bytes_eqb (nname' x) nm) eqn:E.
    + apply bytes_eqb_eq in E. subst nm.
      replace (bytes_eqb (nname' k) (nname' x)) with false; [reflexivity|].
      symmetry. apply bytes_eqb_neq. congruence.
    + apply IH; try assumption. intros q y Hq Hy. apply (Hfirst (S q) y); [lia|assumption].
Qed.

Lemma find_node_in nm l k : find_node nm l = Some k -> In k l /\ nname' k = nm.
Proof.
  induction l as [|x l IH]; intros H; [discriminate|]. cbn in H.
  destruct (bytes_eqb (nname' x) nm) eqn:E.
  - inversion H; subst. apply bytes_eqb_eq in E. split; [left; reflexivity|assumption].
  - destruct (IH H). split; [right; assumption|assumption].
Qed.

Lemma find_node_notin nm l : ~ In nm (map nname' l) -> find_node nm l = None.
Proof.
  induction l as [|x l IH]; intros H; [reflexivity|]. cbn in *.
  destruct (bytes_eqb (nname' x) nm) eqn:E.
  - apply bytes_eqb_eq in E. exfalso. apply H. left. assumption.
  - apply IH. intros Hi. apply H. right. assumption.
Qed.

Lemma find_node_none_notin nm l : find_node nm l = None -> ~ In nm (map nname' l).
Proof.
  induction l as [|x l IH]; intros H Hi; [destruct Hi|]. cbn in *.
  destruct (bytes_eqb (nname' x) nm) eqn:E; [discriminate|].
  apply bytes_eqb_neq in E. destruct Hi as [Hi|Hi]; [congruence|]. exact (IH H Hi).
Qed.

Lemma find_node_del_nth l : forall pos k,
  nth_error l pos = Some k -> NoDup (map nname' l) ->
  forall nm, find_node nm (del_nth l pos) = if bytes_eqb (nname' k) nm then None else find_node nm l.
Proof.
  induction l as [|x l IH]; intros pos k Hn Hd nm; [destruct pos; discriminate|].
  cbn in Hd. inversion Hd as [|? ? Hnotin Hd']; subst.
  destruct pos as [|pos]; cbn in Hn.
  - inversion Hn; subst. cbn. destruct (bytes_eqb (nname' k) nm) eqn:E; [|reflexivity].
    apply bytes_eqb_eq in E. subst nm. apply find_node_notin. assumption.
  - cbn. destruct (bytes_eqb (nname' x) nm) eqn:E.
    + apply bytes_eqb_eq in E. subst nm.
      replace (bytes_eqb (nname' k) (nname' x)) with false; [reflexivity|].
      symmetry. apply bytes_eqb_neq. intros Heq. apply Hnotin. rewrite <- Heq.
      apply in_map. eapply nth_error_In; eauto.
    + apply IH; assumption.
Qed.

Lemma find_node_app l c nm :
  find_node nm (l ++ [c]) =
  match find_node nm l with
  | Some x => Some x
  | None => if bytes_eqb (nname' c) nm then Some c else None
  end.
Proof.
  induction l as [|x l IH]; cbn; [reflexivity|].
  destruct (bytes_eqb (nname' x) nm); [reflexivity|apply IH].
Qed.

Lemma map_upd_nth_names l : forall pos g, (forall k, nth_error l pos = Some k -> nname' (g k) = nname' k) ->
  map nname' (upd_nth l pos g) = map nname' l.
Proof.
  induction l as [|x l IH]; intros pos g H; [destruct pos; reflexivity|].
  destruct pos as [|pos]; cbn.
  - rewrite (H x eq_refl). reflexivity.
  - f_equal. apply IH. intros k Hk. apply H. assumption.
Qed.

(* ---------------------------------------------------------------- well-formed forests *)
Fixpoint wfn (nd : node) : Prop :=
  match nd with
  | Node _ _ kids =>
    NoDup (map nname' kids) /\
    (fix all (l : list node) : Prop := match l with [] => True | k :: l' => wfn k /\ all l' end) kids
  end.

Definition wff (f : list node) : Prop := NoDup (map nname' f) /\ Forall wfn f.

Lemma wfn_unfold nd : wfn nd <-> wff (nkids' nd).
Proof.
  destruct nd as [n v kids]. cbn [wfn nkids']. unfold wff.
  assert (H : forall l, (fix all (l : list node) : Prop := match l with [] => True | k :: l' => wfn k /\ all l' end) l
                        <-> Forall wfn l).
  { induction l as [|k l IH].
    - split; intros _; [constructor|exact I].
    - split; intros H.
      + destruct H as [H1 H2]. constructor; [assumption|apply IH; assumption].
      + inversion H; subst. split; [assumption|apply IH; assumption]. }
  rewrite H. reflexivity.
Qed.

Lemma wff_nil : wff [].
Proof. split; constructor. Qed.

Lemma Forall_upd_nth {A} (P : A -> Prop) l : forall pos g,
  Forall P l -> (forall k, nth_error l pos = Some k -> P k -> P (g k)) -> Forall P (upd_nth l pos g).
Proof.
  induction l as [|x l IH]; intros pos g Hf Hg; [destruct pos; constructor|].
  inversion Hf; subst. destruct pos as [|pos]; cbn.
  - constructor; [apply Hg; [reflexivity|assumption]|assumption].
  - constructor; [assumption|]. apply IH; [assumption|]. intros k Hk. apply Hg. assumption.
Qed.

Lemma Forall_del_nth {A} (P : A -> Prop) l : forall pos, Forall P l -> Forall P (del_nth l pos).
Proof.
  induction l as [|x l IH]; intros pos Hf; [destruct pos; constructor|].
  inversion Hf; subst. destruct pos; cbn; [assumption|]. constructor; [assumption|apply IH; assumption].
Qed.

Lemma NoDup_del_nth {A} (l : list A) : forall pos, NoDup l -> NoDup (del_nth l pos).
Proof.
  induction l as [|x l IH]; intros pos Hd; [destruct pos; constructor|].
  inversion Hd; subst. destruct pos; cbn; [assumption|]. constructor; [|apply IH; assumption].
  intros Hi. apply H1. clear -Hi. revert pos Hi. induction l as [|y l IH]; intros pos Hi; [destruct pos; destruct Hi|].
  destruct pos; cbn in Hi; [right; assumption|]. destruct Hi as [Hi|Hi]; [left; assumption|right; eapply IH; eauto].
Qed.

Lemma map_del_nth {A B} (h : A -> B) l : forall pos, map h (del_nth l pos) = del_nth (map h l) pos.
Proof. induction l as [|x l IH]; intros pos; [destruct pos; reflexivity|]. destruct pos; cbn; [reflexivity|f_equal; apply IH]. Qed.

(* ---------------------------------------------------------------- trails *)
Inductive trail_of : list node -> key -> trail -> node -> Prop :=
| TO_one f n i nd : find_idx n f 0 = Some (i, nd) -> trail_of f [n] [i] nd
| TO_cons f n m i nd t x : find_idx n f 0 = Some (i, nd) -> m <> [] ->
    trail_of (nkids' nd) m t x -> trail_of f (n :: m) (i :: t) x.

Lemma trail_of_nonnil f m t x : trail_of f m t x -> m <> [] /\ t <> [].
Proof. intros H; inversion H; subst; split; discriminate. Qed.

Lemma trail_of_node_at f m t x : trail_of f m t x -> node_at f t = Some x.
Proof.
  induction 1 as [f n i nd Hf | f n m i nd t x Hf Hm Ht IH].
  - destruct (find_idx_spec _ _ _ _ _ Hf) as (_ & Hn & _). rewrite Nat.sub_0_r in Hn.
    cbn. rewrite Hn. reflexivity.
  - destruct (find_idx_spec _ _ _ _ _ Hf) as (_ & Hn & _). rewrite Nat.sub_0_r in Hn.
    cbn [node_at]. rewrite Hn. destruct (trail_of_nonnil _ _ _ _ Ht) as [_ Htn].
    destruct t; [congruence|]. exact IH.
Qed.

Lemma trail_of_tlook f m t x : trail_of f m t x -> tlook f m = Exists (nval' x).
Proof.
  induction 1 as [f n i nd Hf | f n m i nd t x Hf Hm Ht IH].
  - cbn. rewrite (find_idx_node n f 0), Hf. reflexivity.
  - cbn [tlook]. rewrite (find_idx_node n f 0), Hf. cbn. destruct m; [congruence|]. exact IH.
Qed.

(* what aquery returns *)
Lemma aquery_none f k r : aquery f k = (None, r) ->
  r = k /\ (k = [] \/ find_node (hd [] k) f = None).
Proof.
  destruct k as [|n k]; cbn; intros H.
  - inversion H. auto.
  - destruct (find_idx n f 0) as [[i nd]|] eqn:E.
    + destruct (nkids' nd); [discriminate|]. destruct (aquery (n0 :: l) k) as [[t|] rr]; discriminate.
    + inversion H. split; [reflexivity|]. right. apply (find_idx_none n f 0). assumption.
Qed.

Lemma aquery_some : forall k f t r, aquery f k = (Some t, r) ->
  exists m nd, k = m ++ r /\ trail_of f m t nd /\
               (r <> [] -> find_node (hd [] r) (nkids' nd) = None).
Proof.
  induction k as [|n k IH]; intros f t r H; [discriminate|]. cbn in H.
  destruct (find_idx n f 0) as [[i nd]|] eqn:E; [|discriminate].
  destruct (nkids' nd) as [|k1 kk] eqn:Ek.
  - inversion H; subst. exists [n], nd. split; [reflexivity|]. split; [constructor; assumption|].
    intros _. rewrite Ek. reflexivity.
  - destruct (aquery (k1 :: kk) k) as [[t'|] rr] eqn:Eq.
    + inversion H; subst. destruct (IH _ _ _ Eq) as (m & x & Hk & Ht & Hr).
      exists (n :: m), x. split; [cbn; congruence|]. split; [|assumption].
      apply TO_cons with nd; [assumption| |rewrite Ek; assumption].
      apply (trail_of_nonnil _ _ _ _ Ht).
    + inversion H; subst. destruct (aquery_none _ _ _ Eq) as [Hrk Hnone]. subst.
      exists [n], nd. split; [reflexivity|]. split; [constructor; assumption|].
      intros Hr. rewrite Ek. destruct Hnone as [Hnil|Hnone]; [congruence|assumption].
Qed.

(* when the whole key exists, aquery consumes it *)
Lemma aquery_found : forall m f t x, trail_of f m t x -> aquery f m = (Some t, []).
Proof.
  induction 1 as [f n i nd Hf | f n m i nd t x Hf Hm Ht IH].
  - cbn. rewrite Hf. destruct (nkids' nd); reflexivity.
  - cbn [aquery]. rewrite Hf. destruct (nkids' nd) as [|k1 kk] eqn:Ek.
    + inversion Ht; subst; cbn in *; discriminate.
    + rewrite IH. reflexivity.
Qed.

(* ---------------------------------------------------------------- updates by trail *)
Lemma upd_at_cons f i t g : t <> [] ->
  upd_at f (i :: t) g = upd_nth f i (fun n => Node (nname' n) (nval' n) (upd_at (nkids' n) t g)).
Proof. destruct t; [congruence|reflexivity]. Qed.

Lemma remove_at_cons f i t : t <> [] ->
  remove_at f (i :: t) = upd_nth f i (fun n => Node (nname' n) (nval' n) (remove_at (nkids' n) t)).
Proof. destruct t; [congruence|reflexivity]. Qed.

Lemma find_idx_first n f i nd : find_idx n f 0 = Some (i, nd) ->
  nth_error f i = Some nd /\ nname' nd = n /\
  (forall q x, q < i -> nth_error f q = Some x -> nname' x <> nname' nd).
Proof.
  intros H. destruct (find_idx_spec _ _ _ _ _ H) as (_ & H2 & H3 & H4). rewrite Nat.sub_0_r in *.
  repeat split; auto. intros q x Hq Hx. rewrite H3. eapply H4; eauto.
Qed.

Lemma tlook_upd_at : forall f m t nd g, trail_of f m t nd -> nname' (g nd) = nname' nd ->
  forall k, tlook (upd_at f t g) k =
    if key_eqb k m then Exists (nval' (g nd))
    else if key_proper_prefix m k then tlook (nkids' (g nd)) (skipn (length m) k)
    else tlook f k.
Proof.
  induction 1 as [f n i nd Hf | f n m i nd t x Hf Hm Ht IH]; intros Hg k.
  - destruct (find_idx_first _ _ _ _ Hf) as (Hn & Hname & Hfirst).
    cbn [upd_at]. destruct k as [|n' k']; [reflexivity|].
    cbn [tlook]. rewrite (find_node_upd_nth f i g nd Hn Hg Hfirst n'). rewrite Hname.
    unfold key_proper_prefix. cbn [key_eqb key_prefix length skipn].
    rewrite (find_idx_node n' f 0).
    destruct (bytes_eqb n n') eqn:E.
    + apply bytes_eqb_eq in E. subst n'. rewrite bytes_eqb_refl.
      destruct k' as [|a k']; cbn; reflexivity.
    + replace (bytes_eqb n' n) with false; [reflexivity|].
      symmetry. apply bytes_eqb_neq. apply bytes_eqb_neq in E. congruence.
  - destruct (find_idx_first _ _ _ _ Hf) as (Hn & Hname & Hfirst).
    destruct (trail_of_nonnil _ _ _ _ Ht) as [_ Htn].
    rewrite upd_at_cons by assumption.
    destruct k as [|n' k']; [reflexivity|].
    cbn [tlook].
    match goal with |- context [upd_nth f i ?G] => rewrite (find_node_upd_nth f i G nd Hn eq_refl Hfirst n') end.
    rewrite Hname.
    unfold key_proper_prefix in *. cbn [key_eqb key_prefix length skipn].
    rewrite (find_idx_node n' f 0).
    destruct (bytes_eqb n n') eqn:E.
    + apply bytes_eqb_eq in E. subst n'. rewrite bytes_eqb_refl, Hf. cbn [option_map snd nval' nkids' andb].
      destruct k' as [|a k'].
      * destruct m; [congruence|reflexivity].
      * rewrite (IH Hg (a :: k')). reflexivity.
    + replace (bytes_eqb n' n) with false; [reflexivity|].
      symmetry. apply bytes_eqb_neq. apply bytes_eqb_neq in E. congruence.
Qed.

Lemma wff_upd_at : forall f m t nd g, trail_of f m t nd -> nname' (g nd) = nname' nd ->
  wff f -> (wfn nd -> wfn (g nd)) -> wff (upd_at f t g).
Proof.
  induction 1 as [f n i nd Hf | f n m i nd t x Hf Hm Ht IH]; intros Hg [Hd Hall] Hw.
  - destruct (find_idx_first _ _ _ _ Hf) as (Hn & _). cbn [upd_at]. split.
    + rewrite map_upd_nth_names; [assumption|]. intros k Hk. congruence.
    + apply Forall_upd_nth; [assumption|]. intros k Hk Hwk. assert (k = nd) by congruence. subst k. apply Hw. assumption.
  - destruct (find_idx_first _ _ _ _ Hf) as (Hn & _).
    destruct (trail_of_nonnil _ _ _ _ Ht) as [_ Htn]. rewrite upd_at_cons by assumption. split.
    + rewrite map_upd_nth_names; [assumption|]. reflexivity.
    + apply Forall_upd_nth; [assumption|]. intros k Hk Hwk.
      assert (k = nd) by congruence. subst k.
      apply wfn_unfold. cbn [nkids']. apply IH; try assumption. apply wfn_unfold. assumption.
Qed.

Lemma tlook_remove_at : forall f m t nd, trail_of f m t nd -> wff f ->
  forall k, tlook (remove_at f t) k = if key_prefix m k then Absent else tlook f k.
Proof.
  induction 1 as [f n i nd Hf | f n m i nd t x Hf Hm Ht IH]; intros [Hd Hall] k.
  - destruct (find_idx_first _ _ _ _ Hf) as (Hn & Hname & Hfirst).
    cbn [remove_at]. destruct k as [|n' k']; [reflexivity|].
    cbn [tlook key_prefix]. rewrite (find_node_del_nth f i nd Hn Hd n'), Hname.
    destruct (bytes_eqb n n') eqn:E.
    + destruct k'; reflexivity.
    + reflexivity.
  - destruct (find_idx_first _ _ _ _ Hf) as (Hn & Hname & Hfirst).
    destruct (trail_of_nonnil _ _ _ _ Ht) as [_ Htn].
    rewrite remove_at_cons by assumption.
    destruct k as [|n' k']; [reflexivity|].
    cbn [tlook key_prefix].
    match goal with |- context [upd_nth f i ?G] => rewrite (find_node_upd_nth f i G nd Hn eq_refl Hfirst n') end.
    rewrite Hname.
    rewrite (find_idx_node n' f 0).
    destruct (bytes_eqb n n') eqn:E.
    + apply bytes_eqb_eq in E. subst n'. rewrite Hf. cbn [option_map snd nval' nkids' andb].
      assert (Hwk : wff (nkids' nd)).
      { apply wfn_unfold. rewrite Forall_forall in Hall. apply Hall. eapply nth_error_In; eauto. }
      destruct k' as [|a k'].
      * destruct m; [congruence|reflexivity].
      * rewrite (IH Hwk (a :: k')). reflexivity.
    + cbn. reflexivity.
Qed.

Lemma wff_remove_at : forall f m t nd, trail_of f m t nd -> wff f -> wff (remove_at f t).
Proof.
  induction 1 as [f n i nd Hf | f n m i nd t x Hf Hm Ht IH]; intros [Hd Hall].
  - cbn [remove_at]. split; [rewrite map_del_nth; apply NoDup_del_nth; assumption|apply Forall_del_nth; assumption].
  - destruct (find_idx_first _ _ _ _ Hf) as (Hn & _).
    destruct (trail_of_nonnil _ _ _ _ Ht) as [_ Htn]. rewrite remove_at_cons by assumption. split.
    + rewrite map_upd_nth_names; [assumption|]. reflexivity.
    + apply Forall_upd_nth; [assumption|]. intros k Hk Hwk.
      assert (k = nd) by congruence. subst k.
      apply wfn_unfold. cbn [nkids']. apply IH. apply wfn_unfold. assumption.
Qed.

(* ---------------------------------------------------------------- appending *)
Lemma tlook_app f c k : find_node (nname' c) f = None ->
  tlook (f ++ [c]) k =
  match k with
  | [] => Absent
  | n :: _ => if bytes_eqb (nname' c) n then tlook [c] k else tlook f k
  end.
Proof.
  intros Hnone. destruct k as [|n k']; [reflexivity|]. cbn [tlook].
  rewrite find_node_app. cbn [find_node].
  destruct (bytes_eqb (nname' c) n) eqn:E.
  - apply bytes_eqb_eq in E. subst n. rewrite Hnone. reflexivity.
  - destruct (find_node n f); reflexivity.
Qed.

Lemma NoDup_app_single {A} (l : list A) x : NoDup l -> ~ In x l -> NoDup (l ++ [x]).
Proof.
  induction l as [|y l IH]; intros Hd Hn; cbn.
  - constructor; [intros []|constructor].
  - inversion Hd; subst. constructor.
    + intros Hi. apply in_app_or in Hi. destruct Hi as [Hi|[Hi|[]]]; [contradiction|].
      apply Hn. left. congruence.
    + apply IH; [assumption|]. intros Hi. apply Hn. right. assumption.
Qed.

Lemma wff_app f c : wff f -> wfn c -> find_node (nname' c) f = None -> wff (f ++ [c]).
Proof.
  intros [Hd Hall] Hc Hnone. split.
  - rewrite map_app. cbn. apply NoDup_app_single; [assumption|]. apply find_node_none_notin. assumption.
  - apply Forall_app. split; [assumption|constructor; [assumption|constructor]].
Qed.
