(* C10/ItemProofs.v — the config_item slot arrays of the C++ config::root
   (mpt_config_item_query / mpt_config_item_reserve, unused-slot reuse) read by key. *)
From MptV Require Import Base.Mem Base.Tactics C10.ConfigModel C10.ConfigSpec C10.PathProofs
  C10.TreeQuery C10.TreeOps C10.TreeAssign.
Local Open Scope nat_scope.

(* first used slot with the name *)
Fixpoint ifind (nm : name) (l : list item) (i : nat) : option (nat * item) :=
  match l with
  | [] => None
  | x :: l' => if item_match x nm then Some (i, x) else ifind nm l' (S i)
  end.

Fixpoint ilook (a : list item) (k : key) : entry :=
  match k with
  | [] => Absent
  | n :: k' =>
    match ifind n a 0 with
    | None => Absent
    | Some (_, x) => match k' with [] => Exists (ival' x) | _ => ilook (ielems' x) k' end
    end
  end.

Fixpoint iquery (a : list item) (k : key) : option trail :=
  match k with
  | [] => None
  | n :: k' =>
    match ifind n a 0 with
    | None => None
    | Some (i, x) => match k' with [] => Some [i] | _ => option_map (cons i) (iquery (ielems' x) k') end
    end
  end.

Lemma item_match_name x nm : item_match x nm = true <-> iname' x = Some nm.
Proof.
  unfold item_match. destruct (iname' x) as [n|]; split; intros H; try discriminate.
  - apply bytes_eqb_eq in H. congruence.
  - inversion H. apply bytes_eqb_refl.
Qed.

Lemma ifind_spec nm l i j x : ifind nm l i = Some (j, x) ->
  i <= j /\ nth_error l (j - i) = Some x /\ iname' x = Some nm /\
  (forall q y, q < j - i -> nth_error l q = Some y -> iname' y <> Some nm).
Proof.
  revert i; induction l as [|y l IH]; intros i H; [discriminate|]. cbn in H.
  destruct (item_match y nm) eqn:E.
  - inversion H; subst. rewrite Nat.sub_diag. apply item_match_name in E.
    repeat split; auto. intros q z Hq. lia.
  - destruct (IH _ H) as (H1 & H2 & H3 & H4).
    replace (j - i) with (S (j - S i)) by lia. repeat split; auto; [lia|].
    intros q z Hq Hz. destruct q as [|q]; cbn in Hz.
    + inversion Hz; subst. intros Hc. apply item_match_name in Hc. congruence.
    + apply (H4 q z); [lia|assumption].
Qed.

Lemma ifind_none nm l i : ifind nm l i = None -> forall y, In y l -> iname' y <> Some nm.
Proof.
  revert i; induction l as [|x l IH]; intros i H y Hy; [destruct Hy|]. cbn in H.
  destruct (item_match x nm) eqn:E; [discriminate|]. destruct Hy as [Hy|Hy].
  - subst. intros Hc. apply item_match_name in Hc. congruence.
  - eapply IH; eauto.
Qed.

Lemma ifind_shift nm l i j : ifind nm l (i + j) = option_map (fun r => (fst r + j, snd r)) (ifind nm l i).
Proof.
  revert i; induction l as [|x l IH]; intros i; [reflexivity|]. cbn.
  destruct (item_match x nm); [reflexivity|]. apply (IH (S i)).
Qed.

(* ---- the inner loops, named ---- *)
Definition iqscan (p' : path) (nm : list byte) :=
  fix scan (l : list item) (i : nat) {struct l} : cres (option trail) :=
    match l with
    | [] => Done None
    | y :: l' =>
      if item_match y nm then
        if negb (plen p' =? 0) then
          match item_query_in y p' with
          | Done r => Done (option_map (cons i) r)
          | r => r
          end
        else Done (Some [i])
      else scan l' (S i)
    end.

Lemma item_query_unfold x p :
  item_query_in x p =
  match ielems' x with
  | [] => Done None
  | _ =>
    match path_next p with
    | Fail _ => Done None
    | MemFault => MemFault
    | OutOfFuel => OutOfFuel
    | Done (len, p') =>
      match rdn (pbase p) (poff p) len with
      | Fail e => Fail e
      | MemFault => MemFault
      | OutOfFuel => OutOfFuel
      | Done nm => iqscan p' nm (ielems' x) 0
      end
    end
  end.
Proof. destruct x; reflexivity. Qed.

Lemma iqscan_find p' nm l i :
  iqscan p' nm l i =
  match ifind nm l i with
  | None => Done None
  | Some (j, y) =>
    if negb (plen p' =? 0) then
      match item_query_in y p' with
      | Done r => Done (option_map (cons j) r)
      | r => r
      end
    else Done (Some [j])
  end.
Proof.
  revert i; induction l as [|y l IH]; intros i; [reflexivity|]. cbn [iqscan ifind].
  destruct (item_match y nm); [reflexivity|apply IH].
Qed.

Lemma item_query_spec : forall ks x p, pwf p -> elems p = ks ->
  item_query_in x p = Done (iquery (ielems' x) ks).
Proof.
  induction ks as [|n ks IH]; intros x p Hw He.
  - rewrite item_query_unfold. destruct (ielems' x); [reflexivity|].
    apply elems_nil_iff in He. rewrite path_next_empty by assumption. reflexivity.
  - rewrite item_query_unfold. destruct (ielems' x) as [|y0 l0] eqn:El; [reflexivity|]. rewrite <- El.
    assert (Hn : plen p <> 0) by (intros H; apply elems_nil_iff in H; congruence).
    destruct (path_next_spec p Hw Hn) as (e & r & p' & He' & Hnx & Hrd & Hw' & Her & _).
    rewrite He in He'. assert (Ee : e = n) by congruence. assert (Er : r = ks) by congruence.
    rewrite Ee, Er in *. clear Ee Er He'.
    rewrite Hnx, Hrd, iqscan_find. cbn [iquery].
    destruct (ifind n (ielems' x) 0) as [[j y]|]; [|reflexivity].
    destruct (Nat.eqb_spec (plen p') 0) as [Hz|Hz]; cbn [negb].
    + apply elems_nil_iff in Hz. assert (E0 : ks = []) by congruence. rewrite E0. reflexivity.
    + assert (ks <> []) by (intros H; apply Hz; apply elems_nil_iff; congruence).
      rewrite (IH y p' Hw' Her). destruct ks; [congruence|reflexivity].
Qed.

(* ---- trails into slot arrays ---- *)
Inductive itrail_of : list item -> key -> trail -> item -> Prop :=
| IT_one a n i x : ifind n a 0 = Some (i, x) -> itrail_of a [n] [i] x
| IT_cons a n m i x t y : ifind n a 0 = Some (i, x) -> m <> [] ->
    itrail_of (ielems' x) m t y -> itrail_of a (n :: m) (i :: t) y.

Lemma itrail_nonnil a m t x : itrail_of a m t x -> m <> [] /\ t <> [].
Proof. intros H; inversion H; subst; split; discriminate. Qed.

Lemma iquery_some : forall k a t, iquery a k = Some t -> exists x, itrail_of a k t x.
Proof.
  induction k as [|n k IH]; intros a t H; [discriminate|]. cbn in H.
  destruct (ifind n a 0) as [[i x]|] eqn:E; [|discriminate].
  destruct k as [|n2 k].
  - inversion H; subst. exists x. constructor. assumption.
  - destruct (iquery (ielems' x) (n2 :: k)) as [t'|] eqn:Eq; [|discriminate]. inversion H; subst.
    destruct (IH _ _ Eq) as (y & Hy). exists y. econstructor; eauto. discriminate.
Qed.

Lemma iquery_none : forall k a, k <> [] -> iquery a k = None -> ilook a k = Absent.
Proof.
  induction k as [|n k IH]; intros a Hk H; [congruence|]. cbn in *.
  destruct (ifind n a 0) as [[i x]|]; [|reflexivity].
  destruct k as [|n2 k]; [discriminate|].
  apply IH; [discriminate|]. destruct (iquery (ielems' x) (n2 :: k)); [discriminate|reflexivity].
Qed.

Lemma itrail_item_at a m t x : itrail_of a m t x -> item_at a t = Some x.
Proof.
  induction 1 as [a n i x Hf | a n m i x t y Hf Hm Ht IH].
  - destruct (ifind_spec _ _ _ _ _ Hf) as (_ & Hn & _). rewrite Nat.sub_0_r in Hn. cbn. rewrite Hn. reflexivity.
  - destruct (ifind_spec _ _ _ _ _ Hf) as (_ & Hn & _). rewrite Nat.sub_0_r in Hn.
    cbn [item_at]. rewrite Hn. destruct (itrail_nonnil _ _ _ _ Ht) as [_ Htn]. destruct t; [congruence|exact IH].
Qed.

Lemma itrail_ilook a m t x : itrail_of a m t x -> ilook a m = Exists (ival' x).
Proof.
  induction 1 as [a n i x Hf | a n m i x t y Hf Hm Ht IH].
  - cbn. rewrite Hf. reflexivity.
  - cbn [ilook]. rewrite Hf. destruct m; [congruence|exact IH].
Qed.

(* ---- slot updates ---- *)
Lemma ifind_upd_same l : forall s i0 G nm0 y,
  ifind nm0 l i0 = Some (i0 + s, y) -> (forall w, item_match (G y) w = item_match y w) ->
  forall nm, ifind nm (upd_nth l s G) i0 = if item_match y nm then Some (i0 + s, G y) else ifind nm l i0.
Proof.
  induction l as [|x l IH]; intros s i0 G nm0 y Hf HG nm; [discriminate|].
  cbn in Hf. destruct (item_match x nm0) eqn:E0.
  - inversion Hf as [[Hs Hx]]. assert (s = 0) by lia. subst s x. cbn. rewrite HG.
    rewrite !Nat.add_0_r. destruct (item_match y nm); reflexivity.
  - destruct s as [|s].
    + destruct (ifind_spec _ _ _ _ _ Hf) as (Hle & _). lia.
    + cbn. replace (i0 + S s) with (S i0 + s) in * by lia.
      rewrite (IH s (S i0) G nm0 y Hf HG nm).
      destruct (item_match x nm) eqn:E; [|reflexivity].
      (* x matches nm; y (found for nm0 after x) matching nm too would make x match nm0 *)
      destruct (item_match y nm) eqn:Ey; [|reflexivity].
      apply item_match_name in E. apply item_match_name in Ey.
      destruct (ifind_spec _ _ _ _ _ Hf) as (_ & _ & Hy & _).
      assert (nm = nm0) by congruence. subst nm0. apply item_match_name in E. congruence.
Qed.

(* naming a slot that was unused, with a name not present yet *)
Lemma ifind_upd_fresh l : forall s i0 y z n,
  nth_error l s = Some y -> iname' y = None -> iname' z = Some n -> ifind n l i0 = None ->
  forall nm, ifind nm (upd_nth l s (fun _ => z)) i0 =
             if bytes_eqb n nm then Some (i0 + s, z) else ifind nm l i0.
Proof.
  induction l as [|x l IH]; intros s i0 y z n Hn Hy Hz Hnone nm; [destruct s; discriminate|].
  cbn in Hnone. destruct (item_match x n) eqn:Exn; [discriminate|].
  destruct s as [|s]; cbn in Hn.
  - inversion Hn; subst x. cbn. rewrite Nat.add_0_r.
    unfold item_match at 1. rewrite Hz. unfold item_match at 1. rewrite Hy.
    destruct (bytes_eqb n nm) eqn:E; [reflexivity|]. reflexivity.
  - cbn. replace (i0 + S s) with (S i0 + s) by lia.
    rewrite (IH s (S i0) y z n Hn Hy Hz Hnone nm).
    destruct (item_match x nm) eqn:E; [|reflexivity].
    destruct (bytes_eqb n nm) eqn:En; [|reflexivity].
    apply bytes_eqb_eq in En. subst nm. congruence.
Qed.

(* clearing an unused slot changes nothing that can be found *)
Lemma ifind_upd_unused l : forall s i0 y z,
  nth_error l s = Some y -> iname' y = None -> iname' z = None ->
  forall nm, ifind nm (upd_nth l s (fun _ => z)) i0 = ifind nm l i0.
Proof.
  induction l as [|x l IH]; intros s i0 y z Hn Hy Hz nm; [destruct s; discriminate|].
  destruct s as [|s]; cbn in Hn.
  - inversion Hn; subst x. cbn. unfold item_match. rewrite Hy, Hz. reflexivity.
  - cbn. rewrite (IH s (S i0) y z Hn Hy Hz nm). reflexivity.
Qed.

Lemma ifind_app l z nm i0 :
  ifind nm (l ++ [z]) i0 =
  match ifind nm l i0 with
  | Some w => Some w
  | None => if item_match z nm then Some (i0 + length l, z) else None
  end.
Proof.
  revert i0; induction l as [|x l IH]; intros i0; cbn.
  - rewrite Nat.add_0_r. reflexivity.
  - destruct (item_match x nm); [reflexivity|]. rewrite IH. replace (S i0 + length l) with (i0 + S (length l)) by lia.
    reflexivity.
Qed.

Lemma first_unused_spec l : forall i u, first_unused l i = Some u ->
  i <= u /\ exists y, nth_error l (u - i) = Some y /\ iname' y = None.
Proof.
  induction l as [|x l IH]; intros i u H; [discriminate|]. cbn in H.
  destruct (iname' x) eqn:E.
  - destruct (IH _ _ H) as (Hle & y & Hy & Hn). split; [lia|]. exists y.
    replace (u - i) with (S (u - S i)) by lia. split; assumption.
  - inversion H; subst. split; [lia|]. exists x. rewrite Nat.sub_diag. split; [reflexivity|assumption].
Qed.

(* ---- well-formed arrays: used names are unique among siblings ---- *)
Definition used_names (l : list item) : list (list byte) :=
  flat_map (fun x => match iname' x with Some n => [n] | None => [] end) l.

Fixpoint iwfi (x : item) : Prop :=
  match x with
  | Item _ _ el =>
    NoDup (used_names el) /\
    (fix all (l : list item) : Prop := match l with [] => True | y :: l' => iwfi y /\ all l' end) el
  end.

Definition iwf (a : list item) : Prop := NoDup (used_names a) /\ Forall iwfi a.

Lemma iwfi_unfold x : iwfi x <-> iwf (ielems' x).
Proof.
  destruct x as [n v el]. cbn [iwfi ielems']. unfold iwf.
  assert (H : forall l, (fix all (l : list item) : Prop := match l with [] => True | y :: l' => iwfi y /\ all l' end) l
                        <-> Forall iwfi l).
  { induction l as [|y l IH].
    - split; intros _; [constructor|exact I].
    - split; intros H.
      + destruct H as [H1 H2]. constructor; [assumption|apply IH; assumption].
      + inversion H; subst. split; [assumption|apply IH; assumption]. }
  rewrite H. reflexivity.
Qed.

Lemma iwf_nil : iwf [].
Proof. split; constructor. Qed.

Lemma in_used_names n l : In n (used_names l) <-> exists y, In y l /\ iname' y = Some n.
Proof.
  unfold used_names. rewrite in_flat_map. split.
  - intros (y & Hy & Hi). exists y. split; [assumption|]. destruct (iname' y); [|destruct Hi].
    destruct Hi as [Hi|[]]. congruence.
  - intros (y & Hy & Hn). exists y. split; [assumption|]. rewrite Hn. left. reflexivity.
Qed.

Lemma used_names_upd l : forall s G y, nth_error l s = Some y ->
  used_names (upd_nth l s G) =
  used_names (firstn s l) ++ match iname' (G y) with Some n => [n] | None => [] end ++ used_names (skipn (S s) l).
Proof.
  induction l as [|x l IH]; intros s G y Hn; [destruct s; discriminate|].
  destruct s as [|s]; cbn in Hn.
  - inversion Hn; subst. reflexivity.
  - cbn [upd_nth firstn skipn]. unfold used_names in *. cbn [flat_map]. rewrite (IH s G y Hn).
    rewrite <- app_assoc. reflexivity.
Qed.

Lemma used_names_split l s y : nth_error l s = Some y ->
  used_names l = used_names (firstn s l) ++ match iname' y with Some n => [n] | None => [] end ++ used_names (skipn (S s) l).
Proof.
  intros Hn. rewrite <- (used_names_upd l s (fun x => x) y Hn).
  f_equal. clear. revert s; induction l as [|x l IH]; intros s; [destruct s; reflexivity|].
  destruct s; cbn; [reflexivity|]. f_equal. apply IH.
Qed.

(* same name at the slot: names unchanged *)
Lemma iwf_upd_same l s G y : nth_error l s = Some y -> iname' (G y) = iname' y ->
  used_names (upd_nth l s G) = used_names l.
Proof. intros Hn Hg. rewrite (used_names_upd l s G y Hn), Hg. symmetry. apply used_names_split. assumption. Qed.

Lemma NoDup_remove_mid {A} (a b c : list A) : NoDup (a ++ b ++ c) -> NoDup (a ++ c).
Proof.
  induction b as [|x b IH]; intros H; [assumption|]. apply IH.
  cbn in H. apply NoDup_remove_1 in H. assumption.
Qed.

Lemma NoDup_insert_mid {A} (a c : list A) x : NoDup (a ++ c) -> ~ In x (a ++ c) -> NoDup (a ++ [x] ++ c).
Proof.
  induction a as [|y a IH]; intros Hd Hn; cbn in *.
  - constructor; assumption.
  - inversion Hd; subst. constructor.
    + intros Hi. apply in_app_or in Hi. destruct Hi as [Hi|[Hi|Hi]].
      * apply H1. apply in_or_app. left. assumption.
      * apply Hn. left. congruence.
      * apply H1. apply in_or_app. right. assumption.
    + apply IH; [assumption|]. intros Hi. apply Hn. right. assumption.
Qed.
