(* C10/ItemProofs.v — the config_item slot arrays of the C++ config::root
   (mpt_config_item_query / mpt_config_item_reserve, unused-slot reuse) read by key. *)
From MptV Require Import Base.Mem Base.Tactics C10.ConfigModel C10.ConfigSpec C10.PathProofs
  C10.TreeQuery C10.TreeOps C10.TreeAssign.
Local Open Scope nat_scope.

(* first used slot with the name *)
Fixpoint ifind (nm : name) (l : list item) (i : nat) : option (nat * item) :=
  match l with
  | [] => None
  | x :: l' => if item_match x nm then Some (i, x) else ifind nm l' (S i)
  end.

Fixpoint ilook (a : list item) (k : key) : entry :=
  match k with
  | [] => Absent
  | n :: k' =>
    match ifind n a 0 with
    | None => Absent
    | Some (_, x) => match k' with [] => Exists (ival' x) | _ => ilook (ielems' x) k' end
    end
  end.

Fixpoint iquery (a : list item) (k : key) : option trail :=
  match k with
  | [] => None
  | n :: k' =>
    match ifind n a 0 with
    | None => None
    | Some (i, x) => match k' with [] => Some [i] | _ => option_map (cons i) (iquery (ielems' x) k') end
    end
  end.

Lemma item_match_name x nm : item_match x nm = true <-> iname' x = Some nm.
Proof.
  unfold item_match. destruct (iname' x) as [n|]; split; intros H; try discriminate.
  - apply bytes_eqb_eq in H. congruence.
  - inversion H. apply bytes_eqb_refl.
Qed.

Lemma ifind_spec nm l i j x : ifind nm l i = Some (j, x) ->
  i <= j /\ nth_error l (j - i) = Some x /\ iname' x = Some nm /\
  (forall q y, q < j - i -> nth_error l q = Some y -> iname' y <> Some nm).
Proof.
  revert i; induction l as [|y l IH]; intros i H; [discriminate|]. cbn in H.
  destruct (item_match y nm) eqn:E.
  - inversion H; subst. rewrite Nat.sub_diag. apply item_match_name in E.
    repeat split; auto. intros q z Hq. lia.
  - destruct (IH _ H) as (H1 & H2 & H3 & H4).
    replace (j - i) with (S (j - S i)) by lia. repeat split; auto; [lia|].
    intros q z Hq Hz. destruct q as [|q]; cbn in Hz.
    + inversion Hz; subst. intros Hc. apply item_match_name in Hc. congruence.
    + apply (H4 q z); [lia|assumption].
Qed.

Lemma ifind_none nm l i : ifind nm l i = None -> forall y, In y l -> iname' y <> Some nm.
Proof.
  revert i; induction l as [|x l IH]; intros i H y Hy; [destruct Hy|]. cbn in H.
  destruct (item_match x nm) eqn:E; [discriminate|]. destruct Hy as [Hy|Hy].
  - subst. intros Hc. apply item_match_name in Hc. congruence.
  - eapply IH; eauto.
Qed.

Lemma ifind_shift nm l i j : ifind nm l (i + j) = option_map (fun r => (fst r + j, snd r)) (ifind nm l i).
Proof.
  revert i; induction l as [|x l IH]; intros i; [reflexivity|]. cbn.
  destruct (item_match x nm); [reflexivity|]. apply (IH (S i)).
Qed.

(* ---- the inner loops, named ---- *)
Definition iqscan (p' : path) (nm : list byte) :=
  fix scan (l : list item) (i : nat) {struct l} : cres (option trail) :=
    match l with
    | [] => Done None
    | y :: l' =>
      if item_match y nm then
        if negb (plen p' =? 0) then
          match item_query_in y p' with
          | Done r => Done (option_map (cons i) r)
          | r => r
          end
        else Done (Some [i])
      else scan l' (S i)
    end.

Lemma item_query_unfold x p :
  item_query_in x p =
  match ielems' x with
  | [] => Done None
  | _ =>
    match path_next p with
    | Fail _ => Done None
    | MemFault => MemFault
    | OutOfFuel => OutOfFuel
    | Done (len, p') =>
      match rdn (pbase p) (poff p) len with
      | Fail e => Fail e
      | MemFault => MemFault
      | OutOfFuel => OutOfFuel
      | Done nm => iqscan p' nm (ielems' x) 0
      end
    end
  end.
Proof. destruct x; reflexivity. Qed.

Lemma iqscan_find p' nm l i :
  iqscan p' nm l i =
  match ifind nm l i with
  | None => Done None
  | Some (j, y) =>
    if negb (plen p' =? 0) then
      match item_query_in y p' with
      | Done r => Done (option_map (cons j) r)
      | r => r
      end
    else Done (Some [j])
  end.
Proof.
  revert i; induction l as [|y l IH]; intros i; [reflexivity|]. cbn [iqscan ifind].
  destruct (item_match y nm); [reflexivity|apply IH].
Qed.

Lemma item_query_spec : forall ks x p, pwf p -> elems p = ks ->
  item_query_in x p = Done (iquery (ielems' x) ks).
Proof.
  induction ks as [|n ks IH]; intros x p Hw He.
  - rewrite item_query_unfold. destruct (ielems' x); [reflexivity|].
    apply elems_nil_iff in He. rewrite path_next_empty by assumption. reflexivity.
  - rewrite item_query_unfold. destruct (ielems' x) as [|y0 l0] eqn:El; [reflexivity|]. rewrite <- El.
    assert (Hn : plen p <> 0) by (intros H; apply elems_nil_iff in H; congruence).
    destruct (path_next_spec p Hw Hn) as (e & r & p' & He' & Hnx & Hrd & Hw' & Her & _).
    rewrite He in He'. assert (Ee : e = n) by congruence. assert (Er : r = ks) by congruence.
    rewrite Ee, Er in *. clear Ee Er He'.
    rewrite Hnx, Hrd, iqscan_find. cbn [iquery].
    destruct (ifind n (ielems' x) 0) as [[j y]|]; [|reflexivity].
    destruct (Nat.eqb_spec (plen p') 0) as [Hz|Hz]; cbn [negb].
    + apply elems_nil_iff in Hz. assert (E0 : ks = []) by congruence. rewrite E0. reflexivity.
    + assert (ks <> []) by (intros H; apply Hz; apply elems_nil_iff; congruence).
      rewrite (IH y p' Hw' Her). destruct ks; [congruence|reflexivity].
Qed.

(* ---- trails into slot arrays ---- *)
Inductive itrail_of : list item -> key -> trail -> item -> Prop :=
| IT_one a n i x : ifind n a 0 = Some (i, x) -> itrail_of a [n] [i] x
| IT_cons a n m i x t y : ifind n a 0 = Some (i, x) -> m <> [] ->
    itrail_of (ielems' x) m t y -> itrail_of a (n :: m) (i :: t) y.

Lemma itrail_nonnil a m t x : itrail_of a m t x -> m <> [] /\ t <> [].
Proof. intros H; inversion H; subst; split; discriminate. Qed.

Lemma iquery_some : forall k a t, iquery a k = Some t -> exists x, itrail_of a k t x.
Proof.
  induction k as [|n k IH]; intros a t H; [discriminate|]. cbn in H.
  destruct (ifind n a 0) as [[i x]|] eqn:E; [|discriminate].
  destruct k as [|n2 k].
  - inversion H; subst. exists x. constructor. assumption.
  - destruct (iquery (ielems' x) (n2 :: k)) as [t'|] eqn:Eq; [|discriminate]. inversion H; subst.
    destruct (IH _ _ Eq) as (y & Hy). exists y. econstructor; eauto. discriminate.
Qed.

Lemma iquery_none : forall k a, k <> [] -> iquery a k = None -> ilook a k = Absent.
Proof.
  induction k as [|n k IH]; intros a Hk H; [congruence|]. cbn in *.
  destruct (ifind n a 0) as [[i x]|]; [|reflexivity].
  destruct k as [|n2 k]; [discriminate|].
  apply IH; [discriminate|]. destruct (iquery (ielems' x) (n2 :: k)); [discriminate|reflexivity].
Qed.

Lemma itrail_item_at a m t x : itrail_of a m t x -> item_at a t = Some x.
Proof.
  induction 1 as [a n i x Hf | a n m i x t y Hf Hm Ht IH].
  - destruct (ifind_spec _ _ _ _ _ Hf) as (_ & Hn & _). rewrite Nat.sub_0_r in Hn. cbn. rewrite Hn. reflexivity.
  - destruct (ifind_spec _ _ _ _ _ Hf) as (_ & Hn & _). rewrite Nat.sub_0_r in Hn.
    cbn [item_at]. rewrite Hn. destruct (itrail_nonnil _ _ _ _ Ht) as [_ Htn]. destruct t; [congruence|exact IH].
Qed.

Lemma itrail_ilook a m t x : itrail_of a m t x -> ilook a m = Exists (ival' x).
Proof.
  induction 1 as [a n i x Hf | a n m i x t y Hf Hm Ht IH].
  - cbn. rewrite Hf. reflexivity.
  - cbn [ilook]. rewrite Hf. destruct m; [congruence|exact IH].
Qed.

(* ---- slot updates ---- *)
Lemma ifind_upd_same l : forall s i0 G nm0 y,
  ifind nm0 l i0 = Some (i0 + s, y) -> (forall w, item_match (G y) w = item_match y w) ->
  forall nm, ifind nm (upd_nth l s G) i0 = if item_match y nm then Some (i0 + s, G y) else ifind nm l i0.
Proof.
  induction l as [|x l IH]; intros s i0 G nm0 y Hf HG nm; [discriminate|].
  cbn in Hf. destruct (item_match x nm0) eqn:E0.
  - inversion Hf as [[Hs Hx]]. assert (s = 0) by lia. subst s x. cbn. rewrite HG.
    rewrite !Nat.add_0_r. destruct (item_match y nm); reflexivity.
  - destruct s as [|s].
    + destruct (ifind_spec _ _ _ _ _ Hf) as (Hle & _). lia.
    + cbn. replace (i0 + S s) with (S i0 + s) in * by lia.
      rewrite (IH s (S i0) G nm0 y Hf HG nm).
      destruct (item_match x nm) eqn:E; [|reflexivity].
      (* x matches nm; y (found for nm0 after x) matching nm too would make x match nm0 *)
      destruct (item_match y nm) eqn:Ey; [|reflexivity].
      apply item_match_name in E. apply item_match_name in Ey.
      destruct (ifind_spec _ _ _ _ _ Hf) as (_ & _ & Hy & _).
      assert (nm = nm0) by congruence. subst nm0. apply item_match_name in E. congruence.
Qed.

(* naming a slot that was unused, with a name not present yet *)
Lemma ifind_upd_fresh l : forall s i0 y z n,
  nth_error l s = Some y -> iname' y = None -> iname' z = Some n -> ifind n l i0 = None ->
  forall nm, ifind nm (upd_nth l s (fun _ => z)) i0 =
             if bytes_eqb n nm then Some (i0 + s, z) else ifind nm l i0.
Proof.
  induction l as [|x l IH]; intros s i0 y z n Hn Hy Hz Hnone nm; [destruct s; discriminate|].
  cbn in Hnone. destruct (item_match x n) eqn:Exn; [discriminate|].
  destruct s as [|s]; cbn in Hn.
  - inversion Hn; subst x. cbn. rewrite Nat.add_0_r.
    unfold item_match at 1. rewrite Hz. unfold item_match at 1. rewrite Hy.
    destruct (bytes_eqb n nm) eqn:E; [reflexivity|]. reflexivity.
  - cbn. replace (i0 + S s) with (S i0 + s) by lia.
    rewrite (IH s (S i0) y z n Hn Hy Hz Hnone nm).
    destruct (item_match x nm) eqn:E; [|reflexivity].
    destruct (bytes_eqb n nm) eqn:En; [|reflexivity].
    apply bytes_eqb_eq in En. subst nm. congruence.
Qed.

(* clearing an unused slot changes nothing that can be found *)
Lemma ifind_upd_unused l : forall s i0 y z,
  nth_error l s = Some y -> iname' y = None -> iname' z = None ->
  forall nm, ifind nm (upd_nth l s (fun _ => z)) i0 = ifind nm l i0.
Proof.
  induction l as [|x l IH]; intros s i0 y z Hn Hy Hz nm; [destruct s; discriminate|].
  destruct s as [|s]; cbn in Hn.
  - inversion Hn; subst x. cbn. unfold item_match. rewrite Hy, Hz. reflexivity.
  - cbn. rewrite (IH s (S i0) y z Hn Hy Hz nm). reflexivity.
Qed.

Lemma ifind_app l z nm i0 :
  ifind nm (l ++ [z]) i0 =
  match ifind nm l i0 with
  | Some w => Some w
  | None => if item_match z nm then Some (i0 + length l, z) else None
  end.
Proof.
  revert i0; induction l as [|x l IH]; intros i0; cbn.
  - rewrite Nat.add_0_r. reflexivity.
  - destruct (item_match x nm); [reflexivity|]. rewrite IH. replace (S i0 + length l) with (i0 + S (length l)) by lia.
    reflexivity.
Qed.

Lemma first_unused_spec l : forall i u, first_unused l i = Some u ->
  i <= u /\ exists y, nth_error l (u - i) = Some y /\ iname' y = None.
Proof.
  induction l as [|x l IH]; intros i u H; [discriminate|]. cbn in H.
  destruct (iname' x) eqn:E.
  - destruct (IH _ _ H) as (Hle & y & Hy & Hn). split; [lia|]. exists y.
    replace (u - i) with (S (u - S i)) by lia. split; assumption.
  - inversion H; subst. split; [lia|]. exists x. rewrite Nat.sub_diag. split; [reflexivity|assumption].
Qed.

(* ---- well-formed arrays: used names are unique among siblings ---- *)
Definition used_names (l : list item) : list (list byte) :=
  flat_map (fun x => match iname' x with Some n => [n] | None => [] end) l.

Fixpoint iwfi (x : item) : Prop :=
  match x with
  | Item _ _ el =>
    NoDup (used_names el) /\
    (fix all (l : list item) : Prop := match l with [] => True | y :: l' => iwfi y /\ all l' end) el
  end.

Definition iwf (a : list item) : Prop := NoDup (used_names a) /\ Forall iwfi a.

Lemma iwfi_unfold x : iwfi x <-> iwf (ielems' x).
Proof.
  destruct x as [n v el]. cbn [iwfi ielems']. unfold iwf.
  assert (H : forall l, (fix all (l : list item) : Prop := match l with [] => True | y :: l' => iwfi y /\ all l' end) l
                        <-> Forall iwfi l).
  { induction l as [|y l IH].
    - split; intros _; [constructor|exact I].
    - split; intros H.
      + destruct H as [H1 H2]. constructor; [assumption|apply IH; assumption].
      + inversion H; subst. split; [assumption|apply IH; assumption]. }
  rewrite H. reflexivity.
Qed.

Lemma iwf_nil : iwf [].
Proof. split; constructor. Qed.

Lemma in_used_names n l : In n (used_names l) <-> exists y, In y l /\ iname' y = Some n.
Proof.
  unfold used_names. rewrite in_flat_map. split.
  - intros (y & Hy & Hi). exists y. split; [assumption|]. destruct (iname' y); [|destruct Hi].
    destruct Hi as [Hi|[]]. congruence.
  - intros (y & Hy & Hn). exists y. split; [assumption|]. rewrite Hn. left. reflexivity.
Qed.

Lemma used_names_upd l : forall s G y, nth_error l s = Some y ->
  used_names (upd_nth l s G) =
  used_names (firstn s l) ++ match iname' (G y) with Some n => [n] | None => [] end ++ used_names (skipn (S s) l).
Proof.
  induction l as [|x l IH]; intros s G y Hn; [destruct s; discriminate|].
  destruct s as [|s]; cbn in Hn.
  - inversion Hn; subst. reflexivity.
  - cbn [upd_nth firstn skipn]. unfold used_names in *. cbn [flat_map]. rewrite (IH s G y Hn).
    rewrite <- app_assoc. reflexivity.
Qed.

Lemma used_names_split l s y : nth_error l s = Some y ->
  used_names l = used_names (firstn s l) ++ match iname' y with Some n => [n] | None => [] end ++ used_names (skipn (S s) l).
Proof.
  intros Hn. rewrite <- (used_names_upd l s (fun x => x) y Hn).
  f_equal. clear. revert s; induction l as [|x l IH]; intros s; [destruct s; reflexivity|].
  destruct s; cbn; [reflexivity|]. f_equal. apply IH.
Qed.

(* same name at the slot: names unchanged *)
Lemma iwf_upd_same l s G y : nth_error l s = Some y -> iname' (G y) = iname' y ->
  used_names (upd_nth l s G) = used_names l.
Proof. intros Hn Hg. rewrite (used_names_upd l s G y Hn), Hg. symmetry. apply used_names_split. assumption. Qed.

Lemma NoDup_app_tail {A} (a b : list A) : NoDup (a ++ b) -> NoDup b.
Proof. induction a as [|x a IH]; intros H; [assumption|]. inversion H; subst. apply IH. assumption. Qed.

Lemma NoDup_remove_mid {A} (a b c : list A) : NoDup (a ++ b ++ c) -> NoDup (a ++ c).
Proof.
  induction b as [|x b IH]; intros H; [assumption|]. apply IH.
  cbn in H. apply NoDup_remove_1 in H. assumption.
Qed.

Lemma NoDup_insert_mid {A} (a c : list A) x : NoDup (a ++ c) -> ~ In x (a ++ c) -> NoDup (a ++ [x] ++ c).
Proof.
  induction a as [|y a IH]; intros Hd Hn; cbn in *.
  - constructor; assumption.
  - inversion Hd; subst. constructor.
    + intros Hi. apply in_app_or in Hi. destruct Hi as [Hi|[Hi|Hi]].
      * apply H1. apply in_or_app. left. assumption.
      * apply Hn. left. congruence.
      * apply H1. apply in_or_app. right. assumption.
    + apply IH; [assumption|]. intros Hi. apply Hn. right. assumption.
Qed.

(* ---- upd_gen, one level at a time ---- *)
Lemma upd_gen_cons (L L' : key -> entry) n q ov k' :
  L (n :: k') = L' k' -> upd_gen L (n :: q) ov (n :: k') = upd_gen L' q ov k'.
Proof.
  intros H. unfold upd_gen. rewrite key_proper_prefix_cons. cbn [key_eqb].
  rewrite bytes_eqb_refl, H. reflexivity.
Qed.

Lemma upd_gen_head (L : key -> entry) n q ov : q <> [] -> upd_gen L (n :: q) ov [n] = touch (L [n]).
Proof.
  intros Hq. unfold upd_gen, key_proper_prefix. cbn. rewrite bytes_eqb_refl.
  destruct q; [congruence|reflexivity].
Qed.

Lemma upd_gen_single (L : key -> entry) n ov k' : k' <> [] -> upd_gen L [n] ov (n :: k') = L (n :: k').
Proof.
  intros Hk. unfold upd_gen, key_proper_prefix. cbn. rewrite bytes_eqb_refl.
  destruct k'; [congruence|reflexivity].
Qed.

Lemma upd_gen_diff (L : key -> entry) n n' q ov k' : bytes_eqb n n' = false ->
  upd_gen L (n :: q) ov (n' :: k') = L (n' :: k').
Proof.
  intros H. unfold upd_gen. cbn [key_eqb]. rewrite bytes_eqb_sym, H. cbn [andb].
  rewrite key_proper_prefix_diff by (rewrite bytes_eqb_sym; assumption). reflexivity.
Qed.

Lemma item_match_iff x n nm : iname' x = Some n -> item_match x nm = bytes_eqb n nm.
Proof. intros H. unfold item_match. rewrite H. reflexivity. Qed.

Lemma iupd_at_cons a i t g : t <> [] ->
  iupd_at a (i :: t) g = upd_nth a i (fun x => Item (iname' x) (ival' x) (iupd_at (ielems' x) t g)).
Proof. destruct t; [congruence|reflexivity]. Qed.

Lemma ifind_first n a i x : ifind n a 0 = Some (i, x) -> ifind n a 0 = Some (0 + i, x) /\
  nth_error a i = Some x /\ iname' x = Some n.
Proof.
  intros H. destruct (ifind_spec _ _ _ _ _ H) as (_ & H2 & H3 & _). rewrite Nat.sub_0_r in H2. auto.
Qed.

(* replacing the value of an existing item *)
Lemma ilook_setval : forall a q t x, itrail_of a q t x -> forall v k, k <> [] ->
  ilook (iupd_at a t (fun y => Item (iname' y) v (ielems' y))) k = upd_gen (ilook a) q (Some v) k.
Proof.
  induction 1 as [a n i x Hf | a n m i x t y Hf Hm Ht IH]; intros v k Hk;
    destruct (ifind_first _ _ _ _ Hf) as (Hf0 & Hn & Hname); destruct k as [|n' k']; try congruence.
  - cbn [iupd_at ilook].
    match goal with |- context [upd_nth a i ?GG] => rewrite (ifind_upd_same a i 0 GG n x Hf0 (fun w => eq_refl) n') end.
    rewrite (item_match_iff x n n' Hname).
    destruct (bytes_eqb n n') eqn:E.
    + apply bytes_eqb_eq in E. subst n'. cbn [ival' ielems'].
      destruct k' as [|b k'].
      * unfold upd_gen. cbn. rewrite bytes_eqb_refl. reflexivity.
      * rewrite upd_gen_single by discriminate. cbn [ilook]. rewrite Hf. reflexivity.
    + rewrite upd_gen_diff by assumption. reflexivity.
  - destruct (itrail_nonnil _ _ _ _ Ht) as [_ Htn]. rewrite iupd_at_cons by assumption. cbn [ilook].
    match goal with |- context [upd_nth a i ?GG] => rewrite (ifind_upd_same a i 0 GG n x Hf0 (fun w => eq_refl) n') end.
    rewrite (item_match_iff x n n' Hname).
    destruct (bytes_eqb n n') eqn:E.
    + apply bytes_eqb_eq in E. subst n'. cbn [ival' ielems'].
      destruct k' as [|b k'].
      * rewrite upd_gen_head by assumption. cbn [ilook]. rewrite Hf. reflexivity.
      * rewrite (IH v (b :: k')) by discriminate. symmetry. apply upd_gen_cons. cbn [ilook]. rewrite Hf. reflexivity.
    + rewrite upd_gen_diff by assumption. reflexivity.
Qed.

Lemma ifind_in_used nm l i j x : ifind nm l i = Some (j, x) -> In nm (used_names l).
Proof.
  intros H. destruct (ifind_spec _ _ _ _ _ H) as (_ & Hn & Hname & _).
  apply in_used_names. exists x. split; [eapply nth_error_In; eauto|assumption].
Qed.

Lemma ifind_notin nm l i : ~ In nm (used_names l) -> ifind nm l i = None.
Proof.
  intros H. destruct (ifind nm l i) as [[j x]|] eqn:E; [|reflexivity].
  exfalso. apply H. eapply ifind_in_used; eauto.
Qed.

(* marking the found slot unused *)
Lemma ifind_upd_unuse l : forall s i0 G nm0 y,
  ifind nm0 l i0 = Some (i0 + s, y) -> iname' (G y) = None -> NoDup (used_names l) ->
  forall nm, ifind nm (upd_nth l s G) i0 = if item_match y nm then None else ifind nm l i0.
Proof.
  induction l as [|x l IH]; intros s i0 G nm0 y Hf HG Hd nm; [discriminate|].
  cbn in Hf. destruct (item_match x nm0) eqn:E0.
  - inversion Hf as [[Hs Hx]]. assert (s = 0) by lia. subst s x. cbn.
    unfold item_match at 1. rewrite HG.
    destruct (item_match y nm) eqn:Ey; [|reflexivity].
    apply item_match_name in Ey. apply ifind_notin.
    unfold used_names in Hd. cbn [flat_map] in Hd. rewrite Ey in Hd. cbn in Hd. inversion Hd; assumption.
  - destruct s as [|s].
    + destruct (ifind_spec _ _ _ _ _ Hf) as (Hle & _). lia.
    + cbn. replace (i0 + S s) with (S i0 + s) in * by lia.
      assert (Hd' : NoDup (used_names l)).
      { unfold used_names in *. cbn [flat_map] in Hd. apply NoDup_app_tail in Hd. assumption. }
      rewrite (IH s (S i0) G nm0 y Hf HG Hd' nm).
      destruct (item_match x nm) eqn:E; [|reflexivity].
      destruct (item_match y nm) eqn:Ey; [|reflexivity].
      (* two used slots with the same name *)
      exfalso. apply item_match_name in E. apply item_match_name in Ey.
      unfold used_names in Hd. cbn [flat_map] in Hd. rewrite E in Hd. cbn in Hd. inversion Hd as [|? ? Hnotin _]; subst.
      apply Hnotin. apply in_used_names. exists y. split; [|assumption].
      destruct (ifind_spec _ _ _ _ _ Hf) as (_ & Hn & _). eapply nth_error_In; eauto.
Qed.

Lemma iwf_elems a i x : iwf a -> nth_error a i = Some x -> iwf (ielems' x).
Proof.
  intros [_ Hall] Hn. apply iwfi_unfold. rewrite Forall_forall in Hall. apply Hall. eapply nth_error_In; eauto.
Qed.

Lemma ilook_unuse : forall a q t x, itrail_of a q t x -> iwf a ->
  forall G, iname' (G x) = None ->
  forall k, ilook (iupd_at a t G) k = if key_prefix q k then Absent else ilook a k.
Proof.
  induction 1 as [a n i x Hf | a n m i x t y Hf Hm Ht IH]; intros Hwf G HG k;
    destruct (ifind_first _ _ _ _ Hf) as (Hf0 & Hn & Hname); destruct k as [|n' k']; try reflexivity.
  - cbn [iupd_at ilook key_prefix].
    rewrite (ifind_upd_unuse a i 0 G n x Hf0 HG (proj1 Hwf) n'), (item_match_iff x n n' Hname).
    destruct (bytes_eqb n n') eqn:E; [destruct k'; reflexivity|reflexivity].
  - destruct (itrail_nonnil _ _ _ _ Ht) as [_ Htn]. rewrite iupd_at_cons by assumption.
    cbn [ilook key_prefix].
    match goal with |- context [upd_nth a i ?GG] => rewrite (ifind_upd_same a i 0 GG n x Hf0 (fun w => eq_refl) n') end.
    rewrite (item_match_iff x n n' Hname).
    destruct (bytes_eqb n n') eqn:E; [|reflexivity].
    apply bytes_eqb_eq in E. subst n'. cbn [ival' ielems' andb].
    destruct k' as [|b k'].
    + destruct m; [congruence|]. cbn [key_prefix ilook]. rewrite Hf. reflexivity.
    + rewrite (IH (iwf_elems a i x Hwf Hn) G HG (b :: k')). cbn [ilook]. rewrite Hf. reflexivity.
Qed.

Lemma Forall_upd_nth_item (P : item -> Prop) l s G y :
  Forall P l -> nth_error l s = Some y -> P (G y) -> Forall P (upd_nth l s G).
Proof.
  intros Hf Hn Hg. apply Forall_upd_nth; [assumption|]. intros k Hk _. congruence.
Qed.

Lemma iwf_upd_at_same : forall a q t x, itrail_of a q t x -> iwf a ->
  forall G, iname' (G x) = iname' x -> (iwfi x -> iwfi (G x)) -> iwf (iupd_at a t G).
Proof.
  induction 1 as [a n i x Hf | a n m i x t y Hf Hm Ht IH]; intros [Hd Hall] G HG HW;
    destruct (ifind_first _ _ _ _ Hf) as (_ & Hn & Hname).
  - cbn [iupd_at]. split; [rewrite (iwf_upd_same a i G x Hn HG); assumption|].
    eapply Forall_upd_nth_item; eauto. apply HW. rewrite Forall_forall in Hall. apply Hall. eapply nth_error_In; eauto.
  - destruct (itrail_nonnil _ _ _ _ Ht) as [_ Htn]. rewrite iupd_at_cons by assumption. split.
    + match goal with |- context [upd_nth a i ?GG] => rewrite (iwf_upd_same a i GG x Hn eq_refl) end. assumption.
    + eapply Forall_upd_nth_item; eauto. apply iwfi_unfold. cbn [ielems'].
      apply IH; try assumption. eapply iwf_elems; eauto. split; assumption.
Qed.

Lemma iwf_upd_at_unuse : forall a q t x, itrail_of a q t x -> iwf a ->
  forall G, iname' (G x) = None -> iwfi (G x) -> iwf (iupd_at a t G).
Proof.
  induction 1 as [a n i x Hf | a n m i x t y Hf Hm Ht IH]; intros [Hd Hall] G HG HW;
    destruct (ifind_first _ _ _ _ Hf) as (_ & Hn & Hname).
  - cbn [iupd_at]. split.
    + rewrite (used_names_upd a i G x Hn), HG. rewrite (used_names_split a i x Hn) in Hd.
      cbn [app]. eapply NoDup_remove_mid; eauto.
    + eapply Forall_upd_nth_item; eauto.
  - destruct (itrail_nonnil _ _ _ _ Ht) as [_ Htn]. rewrite iupd_at_cons by assumption. split.
    + match goal with |- context [upd_nth a i ?GG] => rewrite (iwf_upd_same a i GG x Hn eq_refl) end. assumption.
    + eapply Forall_upd_nth_item; eauto. apply iwfi_unfold. cbn [ielems'].
      apply IH; try assumption. eapply iwf_elems; eauto. split; assumption.
Qed.

(* ---------------------------------------------------------------- mpt_config_item_reserve *)
Definition rfresh (fuel : nat) (p' : path) (nm : list byte) (slot : nat) (arr' : list item)
  : cres (list item * option trail) :=
  match ident_set nm with
  | None => Done (arr', None)
  | Some n =>
    let arr2 := upd_nth arr' slot (fun _ => Item (Some n) None []) in
    if negb (plen p' =? 0) then
      let* (sub, t) := item_reserve fuel [] p' in
      Done (upd_nth arr2 slot (fun x => Item (iname' x) (ival' x) sub), option_map (cons slot) t)
    else Done (arr2, Some [slot])
  end.

Definition rscan (fuel : nat) (arr : list item) (p' : path) (nm : list byte) :=
  fix scan (l : list item) (i : nat) {struct l} : cres (list item * option trail) :=
    match l with
    | [] =>
      match first_unused arr 0 with
      | None => rfresh fuel p' nm (length arr) (arr ++ [Item None None []])
      | Some u => rfresh fuel p' nm u (upd_nth arr u (fun x => Item None None []))
      end
    | x :: l' =>
      if item_match x nm then
        if negb (plen p' =? 0) then
          let* (sub, t) := item_reserve fuel (ielems' x) p' in
          Done (upd_nth arr i (fun y => Item (iname' y) (ival' y) sub), option_map (cons i) t)
        else Done (arr, Some [i])
      else scan l' (S i)
    end.

Lemma item_reserve_unfold fuel arr p :
  item_reserve (S fuel) arr p =
  match path_next p with
  | Fail _ => Done (arr, None)
  | MemFault => MemFault
  | OutOfFuel => OutOfFuel
  | Done (len, p') =>
    let* nm := rdn (pbase p) (poff p) len in rscan fuel arr p' nm arr 0
  end.
Proof. reflexivity. Qed.

Lemma rscan_find fuel arr p' nm l i :
  rscan fuel arr p' nm l i =
  match ifind nm l i with
  | Some (j, x) =>
    if negb (plen p' =? 0) then
      let* (sub, t) := item_reserve fuel (ielems' x) p' in
      Done (upd_nth arr j (fun y => Item (iname' y) (ival' y) sub), option_map (cons j) t)
    else Done (arr, Some [j])
  | None =>
    match first_unused arr 0 with
    | None => rfresh fuel p' nm (length arr) (arr ++ [Item None None []])
    | Some u => rfresh fuel p' nm u (upd_nth arr u (fun x => Item None None []))
    end
  end.
Proof.
  revert i; induction l as [|x l IH]; intros i; [reflexivity|]. cbn [rscan ifind].
  destruct (item_match x nm); [reflexivity|apply IH].
Qed.

Lemma upd_nth_twice {A} (l : list A) : forall s z G,
  upd_nth (upd_nth l s (fun _ => z)) s G = upd_nth l s (fun _ => G z).
Proof.
  induction l as [|x l IH]; intros s z G; [destruct s; reflexivity|].
  destruct s; cbn; [reflexivity|]. f_equal. apply IH.
Qed.

Lemma used_names_app l z : used_names (l ++ [z]) = used_names l ++ match iname' z with Some n => [n] | None => [] end.
Proof. unfold used_names. rewrite flat_map_app. cbn. rewrite app_nil_r. reflexivity. Qed.

Lemma nth_error_app_last {A} (l : list A) z : nth_error (l ++ [z]) (length l) = Some z.
Proof. rewrite nth_error_app2 by lia. rewrite Nat.sub_diag. reflexivity. Qed.

(* a slot array with an unused slot [s] that finds the same things as [a] *)
Definition spare (a arr' : list item) (s : nat) : Prop :=
  (exists z0, nth_error arr' s = Some z0 /\ iname' z0 = None) /\
  (forall nm i0, ifind nm arr' i0 = ifind nm a i0) /\
  used_names arr' = used_names a /\
  (Forall iwfi a -> Forall iwfi arr').

Lemma spare_append a : spare a (a ++ [Item None None []]) (length a).
Proof.
  split; [exists (Item None None []); split; [apply nth_error_app_last|reflexivity]|].
  split; [intros nm i0; rewrite ifind_app; destruct (ifind nm a i0); reflexivity|].
  split; [rewrite used_names_app; cbn; apply app_nil_r|].
  intros H. apply Forall_app. split; [assumption|]. constructor; [|constructor].
  cbn. split; [constructor|exact I].
Qed.

Lemma spare_recycle a u : first_unused a 0 = Some u -> spare a (upd_nth a u (fun _ => Item None None [])) u.
Proof.
  intros H. destruct (first_unused_spec _ _ _ H) as (_ & y & Hy & Hn). rewrite Nat.sub_0_r in Hy.
  split.
  { exists (Item None None []). split; [|reflexivity].
    clear -Hy. revert u Hy. induction a as [|x a IH]; intros u Hy; [destruct u; discriminate|].
    destruct u; cbn in *; [reflexivity|]. apply IH. assumption. }
  split; [intros nm i0; apply (ifind_upd_unused a u i0 y (Item None None []) Hy Hn eq_refl)|].
  split.
  { rewrite (used_names_upd a u _ y Hy). cbn [iname' app]. rewrite (used_names_split a u y Hy), Hn. reflexivity. }
  intros H'. eapply Forall_upd_nth_item; eauto. cbn. split; [constructor|exact I].
Qed.

Lemma ilook_ext a b : (forall nm, ifind nm a 0 = ifind nm b 0) -> forall k, ilook a k = ilook b k.
Proof. intros H k. destruct k as [|n k]; [reflexivity|]. cbn. rewrite H. reflexivity. Qed.

Lemma ilook_nil k : ilook [] k = Absent.
Proof. destruct k; reflexivity. Qed.

Lemma item_reserve_spec : forall ks fuel a p, pwf p -> elems p = ks -> ks <> [] ->
  Forall name_ok ks -> plen p < fuel -> iwf a ->
  exists a' t x, item_reserve fuel a p = Done (a', Some t) /\ iwf a' /\ itrail_of a' ks t x /\
    forall k, k <> [] -> ilook a' k = upd_gen (ilook a) ks None k.
Proof.
  induction ks as [|n ks IH]; intros fuel a p Hw He Hne Hok Hfuel Hwf; [congruence|].
  destruct fuel as [|fuel]; [lia|].
  assert (Hz : plen p <> 0) by (intros H; apply elems_nil_iff in H; congruence).
  destruct (path_next_spec p Hw Hz) as (e & r & p' & He' & Hnx & Hrd & Hw' & Her & _ & _ & Hlt & _).
  rewrite He in He'. assert (Ee : e = n) by congruence. assert (Er : r = ks) by congruence.
  rewrite Ee, Er in *. clear Ee Er He'.
  assert (Hn1 : name_ok n) by (inversion Hok; assumption).
  assert (Hok' : Forall name_ok ks) by (inversion Hok; assumption).
  rewrite item_reserve_unfold, Hnx, Hrd. cbn [cbind]. rewrite rscan_find.
  assert (Hks : plen p' = 0 <-> ks = []).
  { rewrite <- Her. symmetry. apply elems_nil_iff. }
  destruct (ifind n a 0) as [[j x]|] eqn:Ef.
  - (* the element exists *)
    destruct (ifind_first _ _ _ _ Ef) as (Ef0 & Hnth & Hname).
    destruct (Nat.eqb_spec (plen p') 0) as [Hz'|Hz']; cbn [negb].
    + assert (E0 : ks = []) by (apply Hks; assumption). rewrite E0 in *.
      exists a, [j], x. split; [reflexivity|]. split; [assumption|]. split; [constructor; assumption|].
      intros k Hk. destruct k as [|n' k']; [congruence|].
      destruct (bytes_eqb n n') eqn:E.
      * apply bytes_eqb_eq in E. subst n'. destruct k' as [|b k'].
        -- unfold upd_gen. cbn. rewrite bytes_eqb_refl. cbn. rewrite Ef. reflexivity.
        -- rewrite upd_gen_single by discriminate. reflexivity.
      * rewrite upd_gen_diff by assumption. reflexivity.
    + assert (Hks' : ks <> []) by (intros Hx0; apply Hz'; apply Hks; assumption).
      destruct (IH fuel (ielems' x) p' Hw' Her Hks' Hok' ltac:(lia) (iwf_elems a j x Hwf Hnth))
        as (sub & t' & x' & Hres & Hwfs & Htr & Hl).
      rewrite Hres. cbn [cbind option_map].
      set (G := fun y : item => Item (iname' y) (ival' y) sub).
      assert (HfG : forall nm, ifind nm (upd_nth a j G) 0 = if item_match x nm then Some (0 + j, G x) else ifind nm a 0).
      { intros nm. apply (ifind_upd_same a j 0 G n x Ef0). intros w. reflexivity. }
      exists (upd_nth a j G), (j :: t'), x'. split; [reflexivity|]. split.
      { destruct Hwf as [Hd Hall]. split; [rewrite (iwf_upd_same a j G x Hnth eq_refl); assumption|].
        eapply Forall_upd_nth_item; eauto. apply iwfi_unfold. exact Hwfs. }
      split.
      { apply IT_cons with (G x); [|assumption|exact Htr].
        rewrite HfG, (item_match_iff x n n Hname), bytes_eqb_refl. reflexivity. }
      intros k Hk. destruct k as [|n' k']; [congruence|]. cbn [ilook].
      rewrite HfG, (item_match_iff x n n' Hname).
      destruct (bytes_eqb n n') eqn:E.
      * apply bytes_eqb_eq in E. subst n'. cbn [G ival' ielems'].
        destruct k' as [|b k'].
        -- rewrite upd_gen_head by assumption. cbn [ilook]. rewrite Ef. reflexivity.
        -- rewrite Hl by discriminate. symmetry. apply upd_gen_cons. cbn [ilook]. rewrite Ef. reflexivity.
      * rewrite upd_gen_diff by assumption. reflexivity.
  - (* a new or recycled slot *)
    assert (Hsp : exists s arr', spare a arr' s /\
              match first_unused a 0 with
              | None => rfresh fuel p' n (length a) (a ++ [Item None None []])
              | Some u => rfresh fuel p' n u (upd_nth a u (fun _ => Item None None []))
              end = rfresh fuel p' n s arr').
    { destruct (first_unused a 0) as [u|] eqn:Eu.
      - exists u, (upd_nth a u (fun _ => Item None None [])). split; [apply spare_recycle; assumption|reflexivity].
      - exists (length a), (a ++ [Item None None []]). split; [apply spare_append|reflexivity]. }
    destruct Hsp as (s & arr' & ((z0 & Hz0 & Hz0n) & Hsame & Hnames & Hall') & Hfr). rewrite Hfr. clear Hfr.
    unfold rfresh, ident_set. unfold name_ok in Hn1. destruct (Nat.ltb_spec ident_max (length n)); [lia|].
    assert (Hnone' : ifind n arr' 0 = None) by (rewrite Hsame; assumption).
    assert (Hnotin : ~ In n (used_names a)).
    { intros Hi. apply in_used_names in Hi. destruct Hi as (y & Hy & Hyn).
      eapply (ifind_none n a 0 Ef); eauto. }
    (* the finished slot, with whatever sub-array it gets *)
    assert (Hfin : forall sub, iwf sub ->
      let a' := upd_nth arr' s (fun _ => Item (Some n) None sub) in
      (forall nm, ifind nm a' 0 = if bytes_eqb n nm then Some (0 + s, Item (Some n) None sub) else ifind nm a 0) /\ iwf a').
    { intros sub Hsub a'. split.
      - intros nm. unfold a'. rewrite (ifind_upd_fresh arr' s 0 z0 (Item (Some n) None sub) n Hz0 Hz0n eq_refl Hnone' nm), Hsame. reflexivity.
      - destruct Hwf as [Hd Hall]. split.
        + unfold a'. rewrite (used_names_upd arr' s _ z0 Hz0). cbn [iname'].
          rewrite <- Hnames, (used_names_split arr' s z0 Hz0), Hz0n in Hd, Hnotin. cbn [app] in Hd, Hnotin.
          apply NoDup_insert_mid; assumption.
        + unfold a'. eapply Forall_upd_nth_item; eauto. apply iwfi_unfold. exact Hsub. }
    assert (HLn : forall k', ilook a (n :: k') = Absent) by (intros k'; cbn; rewrite Ef; reflexivity).
    destruct (Nat.eqb_spec (plen p') 0) as [Hz'|Hz']; cbn [negb].
    + assert (E0 : ks = []) by (apply Hks; assumption). rewrite E0 in *.
      destruct (Hfin [] iwf_nil) as (Hf' & Hwf').
      eexists _, [s], _. split; [reflexivity|]. split; [exact Hwf'|]. split.
      { constructor. rewrite Hf', bytes_eqb_refl. reflexivity. }
      intros k Hk. destruct k as [|n' k']; [congruence|]. cbn [ilook]. rewrite Hf'.
      destruct (bytes_eqb n n') eqn:E.
      * apply bytes_eqb_eq in E. subst n'. cbn [ival' ielems']. destruct k' as [|b k'].
        -- unfold upd_gen. cbn. rewrite bytes_eqb_refl. cbn. rewrite Ef. reflexivity.
        -- rewrite upd_gen_single by discriminate. rewrite HLn. apply ilook_nil.
      * rewrite upd_gen_diff by assumption. reflexivity.
    + assert (Hks' : ks <> []) by (intros Hx0; apply Hz'; apply Hks; assumption).
      destruct (IH fuel [] p' Hw' Her Hks' Hok' ltac:(lia) iwf_nil) as (sub & t' & x' & Hres & Hwfs & Htr & Hl).
      rewrite Hres. cbn [cbind option_map]. rewrite upd_nth_twice. cbn [iname' ival'].
      destruct (Hfin sub Hwfs) as (Hf' & Hwf').
      eexists _, (s :: t'), x'. split; [reflexivity|]. split; [exact Hwf'|]. split.
      { eapply IT_cons; [rewrite Hf', bytes_eqb_refl; reflexivity|assumption|exact Htr]. }
      intros k Hk. destruct k as [|n' k']; [congruence|]. cbn [ilook]. rewrite Hf'.
      destruct (bytes_eqb n n') eqn:E.
      * apply bytes_eqb_eq in E. subst n'. cbn [ival' ielems']. destruct k' as [|b k'].
        -- rewrite upd_gen_head by assumption. rewrite HLn. reflexivity.
        -- rewrite Hl by discriminate. symmetry. apply upd_gen_cons. rewrite HLn. symmetry. apply ilook_nil.
      * rewrite upd_gen_diff by assumption. reflexivity.
Qed.
