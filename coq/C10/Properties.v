(* C10 — Configuration store behaves as a path-to-value map.
   This file holds only the property theorems (each closed by [exact] of a lemma
   proved elsewhere), their non-vacuity examples and Print Assumptions.

   Reading guide.
   * [path] is the C struct (bytes at base, off, len, the 8-bit [first], flags,
     separator, assign); [path_set / path_next / path_add …] transcribe the C
     files (C10/ConfigModel.v).  [pwf p] says: separator mode, the path bytes lie
     inside the storage, and [first] is 0 or the length of the first element —
     it holds for every path made by mpt_path_set and is kept by mpt_path_next.
     [elems p] is the list of separator-delimited components of the path bytes;
     [split sep s] is the plain split of a byte string (C10/ConfigSpec.v).
   * The global store is an ordered forest of named nodes; [cstep] runs one
     interface call (configAssign / configRemove / configQuery of config_global.c)
     on it, [crun] a history; each operation names its handle by the base path
     (length 0: the global configuration, otherwise a sub-tree view).  [vop_ok] says
     base and path are well formed and element names fit an identifier (<= 65534
     bytes; the code refuses longer names).  [tlook g k] reads key k in forest g by
     first-match descent; [wff] = sibling names are unique.
   * The specification state is the list of accepted operations; [slook h k] reads
     key [k]: the value most recently assigned to exactly [k], present-without-
     value if [k] was only created as a prefix, absent if never assigned or
     removed since (C10/ConfigSpec.v, 40 lines).  [obs] merges the three
     "nothing removed" result classes. *)
From MptV Require Import Base.Mem C10.ConfigModel C10.ConfigSpec C10.PathProofs C10.PathAdd C10.PathBin C10.TreeQuery
  C10.TreeOps C10.TreeAssign C10.StoreRefine C10.ItemProofs C10.RootRefine C10.TreeView C10.ViewRefine C10.ApiRefine C10.AssignNone C10.MetaSet
  C10.PathLast C16.Locate C10.LocateModel C10.LocateProofs C10.PathAddStr.

(* ---- paths ---- *)

(* mpt_path_set over any byte string [s] (explicit length), any separator, any
   assign character, any element lengths: the result is well formed and walking it
   with mpt_path_next visits exactly the separator-delimited components of [s] up
   to the first assign character; every element is read from inside the storage. *)
Theorem C10_path_elements :
  forall p0 s, exists p n,
    path_set p0 (Some s) (Some (length s)) = Done (p, n) /\ pwf p /\
    pwalk p = Done (split (psep p0) (upto (passign p0) s)).
Proof. exact path_elements_len. Qed.

(* The same for a C string (mpt_path_set(path, str, -1), as mpt_config_set / mpt_config_get
   and the C++ path constructor from a string call it): the components of the string up
   to its NUL and up to the assign character; with assign = 0 this is the key [str_key]
   the specification uses. *)
Theorem C10_path_elements_string :
  forall p0 s, exists p n,
    path_set p0 (Some (s ++ [0%N])) None = Done (p, n) /\ pwf p /\
    elems p = split (psep p0) (upto (passign p0) (upto 0%N s)) /\
    psep p = psep p0 /\ passign p = passign p0 /\ poff p = 0 /\ plen p <> 0.
Proof. exact path_set_str_spec. Qed.

Theorem C10_string_key :
  forall s sep, exists p, str_path s sep 0%N = Done p /\ pwf p /\ elems p = str_key s sep.
Proof. exact str_path_key. Qed.

(* Rebuilding: adding the elements one after the other with mpt_path_add (separator
   mode, array storage, [build] = post bytes + mpt_path_add per element) gives a
   well-formed path that walks back to exactly those elements, for every element
   length (none may contain the separator — mpt_path_add refuses that — and the
   first must be non-empty: nothing can be added to a path without storage). *)
Theorem C10_path_rebuild :
  forall sep assign es, es <> [] -> hd [] es <> [] -> Forall (nosep sep) es ->
  exists p, build (path_init sep assign) es = Done p /\ pwf p /\ elems p = es /\ pwalk p = Done es.
Proof. exact path_rebuild. Qed.

(* The same in binary-length mode (MPT_PATHFLAG(SepBinary), [path_bin] = the step "bin"):
   the elements may contain ANY byte, the separator too; lengths up to 255 (the 8-bit
   length bytes; mpt_path_add refuses longer ones).  The result is the layout
   e1 |e1| |e2| e2 |e2| |e3| ... en |en| 0 ([benc]) and the walk with mpt_path_next gives
   back exactly the elements. *)
Theorem C10_path_rebuild_binary :
  forall sep assign es, hd [] es <> [] -> Forall short es ->
  exists p, build (path_bin (path_init sep assign)) es = Done p /\
    pbin p = true /\ poff p = 0 /\ plen p = length (pbase p) /\ pbase p = benc es /\ pwalk p = Done es.
Proof. exact path_rebuild_bin. Qed.

Theorem C10_path_bin_is_step : forall p, fst (pstep p PBin) = path_bin p.
Proof. exact path_bin_step. Qed.

(* one step of the walk, for every well-formed path *)
Theorem C10_path_next_element :
  forall p, pwf p -> plen p <> 0 ->
  exists e r p',
    elems p = e :: r /\ path_next p = Done (length e, p') /\
    rdn (pbase p) (poff p) (length e) = Done e /\
    pwf p' /\ elems p' = r /\ pfirst p' = 0 /\ same_store p p' /\
    plen p' < plen p /\ poff p' + plen p' = poff p + plen p.
Proof. exact path_next_spec. Qed.

(* ---- the store ---- *)

(* After ANY history of assign / remove / query through the global handle AND through
   sub-tree views on arbitrary base paths (configRoot.base), every output (result
   class, queried entry) is what the history specification gives: a query returns
   the value most recently assigned to exactly that path, reports presence without
   value for a mere prefix, absence otherwise.  A view with base b acts on key
   b ++ k; its empty path is the base node itself. *)
Theorem C10_config_refines_map :
  forall ops, Forall vop_ok ops ->
    map obs (fst (crun [] ops)) = map obs (fst (srun [] (map hop_of ops) (fst (crun [] ops)))).
Proof. exact (fun ops H => vrun_refines ops [] [] R_init H). Qed.

(* The private C++ configuration (config::root over config_item slot arrays with
   unused-slot reuse, eager removal [RRemove] and lazy removal [RDrop]) refines the
   SAME specification. *)
Theorem C10_root_refines_map :
  forall ops, Forall rop_ok ops ->
    map obs (fst (rrun [] ops)) = map obs (fst (srun [] (map rhop_of ops) (fst (rrun [] ops)))).
Proof. exact (fun ops H => rrun_refines ops [] [] RI_init H). Qed.

(* The same per operation, from any reachable state: the refinement relation
   (sibling names unique, reading of every key equal) is kept. *)
Theorem C10_step_refines :
  forall g h o, R g h -> vop_ok o ->
    let '(g', out) := cstep g o in
    let '(h', sout) := sstep h (hop_of o) (accepted out) in
    obs out = obs sout /\ R g' h'.
Proof. exact vstep_refines. Qed.

(* An accepted assignment to key q = base ++ path changes the reading of q only,
   except that it makes the proper prefixes of q present (their value is kept). *)
Theorem C10_assign_frame :
  forall g b p v, hpath b -> wff g -> pwf p -> Forall name_ok (elems p) -> elems b ++ elems p <> [] ->
  exists g', cfg_assign g b p v = Done (g', RcOk) /\ wff g' /\
    forall k, k <> [] ->
      tlook g' k = if key_eqb k (elems b ++ elems p) then Exists (Some v)
                   else if key_proper_prefix k (elems b ++ elems p) then touch (tlook g k)
                   else tlook g k.
Proof. exact assign_frame_all. Qed.

(* Removing key q = base ++ path hides exactly q and everything beneath it, nothing
   else; when q is absent nothing changes. *)
Theorem C10_remove_subtree_only :
  forall g b p, hpath b -> wff g -> pwf p -> elems p <> [] ->
  exists g' r, cfg_remove g b p = Done (g', r) /\ wff g' /\
    (is_removed r = true <-> tlook g (elems b ++ elems p) <> Absent) /\
    forall k, tlook g' k = if is_removed r && key_prefix (elems b ++ elems p) k then Absent else tlook g k.
Proof. exact remove_subtree_only_all. Qed.

(* Removal with the empty path through a view hides exactly what is strictly
   beneath the base node (the base keeps its own value). *)
Theorem C10_clear_beneath_only :
  forall g b p, vpath b -> wff g -> pwf p -> elems p = [] ->
  exists g' r, cfg_remove g b p = Done (g', r) /\ wff g' /\
    forall k, tlook g' k = if key_proper_prefix (elems b) k then Absent else tlook g k.
Proof. exact clear_beneath_only. Qed.

(* ---- the interface as callers use it (config_get.c, config_set.c, mpt++/config.cpp) ----

   [wop] adds to the plain interface calls ([WVt]) the entry points programs really call:
   mpt_config_set / config::set on a C string with separator and end character ([WSet],
   no value = removal), config::del with an explicit length ([WDel]), mpt_config_getp /
   config::get(path, type, ptr) ([WGetp]) and mpt_config_get on a '.'-separated string
   ([WGet]) with the requested conversion (existence only / 's' / vector of char),
   conversion of a view to its node ([WNode]: gets or creates the base element),
   remove(NULL) on a view ([WUnset]: drops the value of the base element) and a query
   whose handler walks the collection it is given ([WList]).  [wstep] runs one of them on
   the forest (ConfigModel.v: each is a composition of mpt_path_set and the operations
   above), [wsstep] on the history specification, keyed by [str_key_end] / [del_key] /
   [elems]; [wobs] keeps result classes, returned values and presence. *)

(* ANY history of caller-level operations on the global configuration and its views:
   every returned value (mpt_config_get / getp give the text most recently assigned to
   exactly that key, MissingData for an absent or value-less one), every result class
   and every presence answer is what the specification says. *)
Theorem C10_api_refines_map :
  forall ops, Forall wop_ok ops ->
    map wobs (fst (wrun [] ops)) = map wobs (fst (wsrun [] (map whop_of ops) (fst (wrun [] ops)))).
Proof. exact (fun ops H => wrun_refines ops [] [] R_init H). Qed.

Theorem C10_api_step_refines :
  forall g h o, R g h -> wop_ok o ->
    let '(g', out) := wstep g o in
    let '(h', sout) := wsstep h (whop_of o) (waccepted out) in
    wobs out = wobs sout /\ R g' h'.
Proof. exact wstep_refines. Qed.

(* The value accessors read the specification directly, in every reachable state:
   mpt_config_getp / mpt_config_get return [get_view] of the entry the history
   specification holds for that key (through a view: below its base). *)
Theorem C10_getp_reads_spec :
  forall g h b p ty, R g h -> hpath b -> pwf p ->
    cfg_getp g b p ty = Done (get_view false ty (squery h (elems b) (elems p))).
Proof. exact getp_reads_spec. Qed.

Theorem C10_get_reads_spec :
  forall g h b s ty, R g h -> hpath b ->
    cfg_get g b s ty = Done (get_view false ty (squery h (elems b) (str_key s 46%N))).
Proof. exact get_reads_spec. Qed.

(* Asked for the value itself (TypeConvertablePtr: mpt_config_getp(conf, path,
   MPT_ENUM(TypeConvertablePtr), &val), config::get(path, convertable *&), the form
   examples/cxx/config.cpp uses) the accessors hand out the value most recently assigned
   to exactly that key - whatever its length, whichever metatype holds it, for the
   process-wide configuration, a sub-tree view and a private config::root - and report
   MissingData for an absent or value-less element.  (As patched by
   docs/C10_get_convertable.diff: the unpatched _convert_value left the request to the
   value's own conversion, which no text metatype answers.) *)
Theorem C10_getp_convertable_is_assigned_value :
  forall g h b p, R g h -> hpath b -> pwf p ->
    cfg_getp g b p GConv = Done (assigned_view (squery h (elems b) (elems p))).
Proof. exact getp_conv_assigned. Qed.

Theorem C10_get_convertable_is_assigned_value :
  forall g h b s, R g h -> hpath b ->
    cfg_get g b s GConv = Done (assigned_view (squery h (elems b) (str_key s 46%N))).
Proof. exact get_conv_assigned. Qed.

Theorem C10_root_get_convertable_is_assigned_value :
  forall a h p, RI a h -> pwf p -> elems p <> [] ->
    root_getp a p GConv = Done (assigned_view (slook h (elems p))).
Proof. exact root_getp_conv_assigned. Qed.

(* mpt_config_set(conf, path, val, sep, end): the string names the key made of its
   separator-delimited components up to the end character; config::del(path, sep, len):
   of its first len bytes. *)
Theorem C10_string_key_end :
  forall s sep en, exists p, str_path s sep en = Done p /\ pwf p /\ elems p = str_key_end s sep en.
Proof. exact str_path_end_key. Qed.

Theorem C10_del_key :
  forall s sep len, del_len_ok s len ->
    exists p, del_path s sep len = Done p /\ pwf p /\ elems p = del_key s sep len.
Proof. exact del_path_key. Qed.

(* The collection handed to a query handler (collectionEach) is the store beneath the
   queried element: the element's own value is the one the store holds for its key and
   reading any key in the listed sub-elements equals reading it below that key. *)
Theorem C10_listing_reads_store :
  forall g b p mt kids, hpath b -> pwf p -> cfg_list g b p = Done (Some (mt, kids)) ->
    (elems b ++ elems p <> [] -> tlook g (elems b ++ elems p) = Exists mt) /\
    forall k, k <> [] -> tlook kids k = tlook g ((elems b ++ elems p) ++ k).
Proof. exact cfg_list_sound. Qed.

(* The private C++ configuration through config::set / del / get, assignment without
   value ([XUnset]: the value goes, the element stays) and query with a listing handler
   (NULL: the top-level items) refines the same specification. *)
Theorem C10_root_api_refines_map :
  forall ops, Forall xop_ok ops ->
    map xobs (fst (xrun [] ops)) = map xobs (fst (xsrun [] (map xhop_of ops) (fst (xrun [] ops)))).
Proof. exact (fun ops H => xrun_refines ops [] [] RI_init H). Qed.

Theorem C10_root_listing_reads_store :
  forall a p, pwf p -> elems p <> [] ->
    exists l, root_list a (Some p) = Done l /\ lentry l = ilook a (elems p) /\
      forall mt sub, l = Some (mt, sub) -> forall k, k <> [] -> ilook sub k = ilook a (elems p ++ k).
Proof. exact root_list_spec. Qed.

(* mpt_path_invalidate / mpt::path::clear_data: the post data goes, the elements stay. *)
Theorem C10_clear_keeps_elements :
  forall cxx p, pwf p -> (parr p = true -> poff p + plen p <= length (pbase p)) ->
    exists p', path_clear cxx p = Done p' /\ pwf p' /\ elems p' = elems p /\ pwalk p' = Done (elems p) /\
               (parr p = true -> length (pbase p') = poff p + plen p).
Proof. exact path_clear_spec. Qed.

(* ---- non-vacuity ---- *)
Definition bs (l : list nat) : list byte := map N.of_nat l.
Definition mk (s : list nat) : path :=
  match str_path (Some (bs s)) 46%N 0%N with Done p => p | _ => path_init 46%N 0%N end.
Definition gl : path := path_init 46%N 0%N.

(* "a.b" = 97 46 98,  "a" = 97,  "a.c" = 97 46 99 *)
Example C10_paths_wellformed : elems (mk [97;46;98]) = [bs [97]; bs [98]] /\ plen (mk [97;46;98]) = 4.
Proof. vm_compute. split; reflexivity. Qed.

Example C10_history_example :
  fst (crun [] [CAssign gl (mk [97;46;98]) (bs [1]); CQuery gl (mk [97]); CAssign gl (mk [97]) (bs [2]);
                CAssign gl (mk [97;46;98]) (bs [3]); CQuery gl (mk [97;46;98]); CRemove gl (mk [97]);
                CQuery gl (mk [97;46;98]); CQuery gl (mk [97;46;99])])
  = [OutRc RcOk; OutEntry (Exists None); OutRc RcOk; OutRc RcOk; OutEntry (Exists (Some (bs [3])));
     OutRc RcRemoved; OutEntry Absent; OutEntry Absent].
Proof. vm_compute. reflexivity. Qed.

Example C10_view_history_example :
  fst (crun [] [CAssign (mk [97;46;98]) (mk [99]) (bs [1]); CQuery gl (mk [97;46;98;46;99]);
                CAssign (mk [97;46;98]) gl (bs [2]); CQuery gl (mk [97;46;98]); CQuery (mk [97]) (mk [98;46;99]);
                CRemove (mk [97;46;98]) gl; CQuery gl (mk [97;46;98;46;99]); CQuery gl (mk [97;46;98])])
  = [OutRc RcOk; OutEntry (Exists (Some (bs [1]))); OutRc RcOk; OutEntry (Exists (Some (bs [2])));
     OutEntry (Exists (Some (bs [1]))); OutRc RcCleared; OutEntry Absent; OutEntry (Exists (Some (bs [2])))].
Proof. vm_compute. reflexivity. Qed.

Example C10_long_element_walk :
  pwalk (mk (repeat 120 257 ++ [46] ++ repeat 121 256)) = Done [bs (repeat 120 257); bs (repeat 121 256)].
Proof. vm_compute. reflexivity. Qed.

(* why [name_ok] is in the hypotheses: a name of 65535 bytes cannot be stored in an
   identifier; the assignment is refused AFTER the nodes in front of it were created,
   so the prefix "a" is present afterwards although nothing was assigned. *)
Example C10_name_limit_witness :
  cstep [] (CAssign gl (mk ([97;46] ++ repeat 120 (S ident_max))) (bs [1]))
  = ([Node (bs [97]) None []], OutRc RcRefused).
Proof. vm_compute. reflexivity. Qed.

Example C10_root_history_example :
  fst (rrun [] [RAssign (mk [97;46;98]) (bs [1]); RAssign (mk [99]) (bs [2]); RRemove (mk [97]);
                RAssign (mk [100;46;98]) (bs [3]); RQuery (mk [97;46;98]); RQuery (mk [100;46;98]); RQuery (mk [99])])
  = [OutRc RcOk; OutRc RcOk; OutRc RcRemoved; OutRc RcOk; OutEntry Absent;
     OutEntry (Exists (Some (bs [3]))); OutEntry (Exists (Some (bs [2])))].
Proof. vm_compute. reflexivity. Qed.

Example C10_rebuild_example :
  match build (path_init 46%N 0%N) [bs (repeat 120 300); bs []; bs [98;99]] with
  | Done p => pwalk p = Done [bs (repeat 120 300); bs []; bs [98;99]] /\ pfirst p = 0
  | _ => False
  end.
Proof. vm_compute. split; reflexivity. Qed.


(* caller-level history: set "a.b"; read it (vector of char); "a" has no value; a view on
   "x.y" handed out as node creates x and x.y; set "c" through the view on "a"; list "a";
   config::del("a.bZ", '.', 3) removes a.b; mpt_config_set("a.c=7", NULL, '.', '=') removes
   a.c; "a" is still there; its value is set through the view and dropped by remove(NULL) *)
Example C10_api_history_example :
  fst (wrun [] [WSet gl (Some (bs [97;46;98])) 46%N 0%N (Some (bs [1]));
                WGet gl (Some (bs [97;46;98])) GVec; WGet gl (Some (bs [97])) GStr;
                WNode (mk [120;46;121]); WGetp gl (mk [120]) GExist; WGetp (mk [120]) (mk [121]) GVec;
                WSet (mk [97]) (Some (bs [99])) 46%N 0%N (Some (bs [2]));
                WList gl (mk [97]);
                WDel gl (Some (bs [97;46;98;90])) 46%N (Some 3);
                WGet gl (Some (bs [97;46;98])) GVec; WGet gl (Some (bs [97;46;99])) GVec;
                WSet gl (Some (bs [97;46;99;61;55])) 46%N 61%N None;
                WGet gl (Some (bs [97;46;99])) GExist; WGet gl (Some (bs [97])) GExist;
                WSet (mk [97]) None 46%N 0%N (Some (bs [3])); WUnset (mk [97]); WGet gl (Some (bs [97])) GVec])
  = [WOut (OutRc RcOk); WVal (GText (bs [1])); WVal GMissing;
     WNodeAt (Some [1; 0]); WVal GFound; WVal GMissing;
     WOut (OutRc RcOk);
     WListing (Some (None, [Node (bs [98]) (Some (bs [1])) []; Node (bs [99]) (Some (bs [2])) []]));
     WOut (OutRc RcRemoved); WVal GMissing; WVal (GText (bs [2]));
     WOut (OutRc RcRemoved); WVal GMissing; WVal GFound;
     WOut (OutRc RcOk); WOut (OutRc RcCleared); WVal GMissing].
Proof. vm_compute. reflexivity. Qed.

(* text of 250 bytes and more is kept in a buffer metatype by the C store: readable as
   vector of char, not as 's'; the C++ store hands out both *)
Example C10_long_value_views :
  get_view false GStr (Exists (Some (bs (repeat 118 250)))) = GBadType /\
  get_view false GVec (Exists (Some (bs (repeat 118 250)))) = GText (bs (repeat 118 250)) /\
  get_view false GStr (Exists (Some (bs (repeat 118 249)))) = GText (bs (repeat 118 249)) /\
  get_view true GStr (Exists (Some (bs (repeat 118 250)))) = GText (bs (repeat 118 250)) /\
  get_view false GConv (Exists (Some (bs (repeat 118 250)))) = GText (bs (repeat 118 250)) /\
  get_view false GConv (Exists None) = GMissing.
Proof. vm_compute. repeat split; reflexivity. Qed.

Example C10_root_api_example :
  fst (xrun [] [XSet (Some (bs [97;46;98])) 46%N (Some (bs [1])); XSet (Some (bs [99])) 46%N (Some (bs [2]));
                XGetp (mk [97;46;98]) GStr; XUnset (mk [97;46;98]); XGetp (mk [97;46;98]) GStr;
                XGetp (mk [97;46;98]) GExist; XList None; XDel (Some (bs [97;46;98])) 46%N (Some 1);
                XList (Some (mk [97])); XGetp (mk [99]) GVec])
  = [XOut (OutRc RcOk); XOut (OutRc RcOk); XVal (GText (bs [1])); XOut (OutRc RcOk); XVal GMissing; XVal GFound;
     XListing (Some (None, [Item (Some (bs [97])) None [Item (Some (bs [98])) None []];
                            Item (Some (bs [99])) (Some (bs [2])) []]));
     XOut (OutRc RcRemoved); XListing None; XVal (GText (bs [2]))].
Proof. vm_compute. reflexivity. Qed.

(* binary mode: an element that contains the separator, an empty one, a 255-byte one *)
Example C10_rebuild_binary_example :
  let es := [bs [97; 46; 98]; []; bs (repeat 120 255); bs [46]] in
  match build (path_bin (path_init 46%N 0%N)) es with
  | Done p => pwalk p = Done es /\ firstn 6 (pbase p) = bs [97; 46; 98; 3; 0; 0] /\ plen p = 3 + 2 + 2 + 257 + 3
  | _ => False
  end.
Proof. vm_compute. repeat split; reflexivity. Qed.

(* post data "arbc": element "a" added ('r' becomes the delimiter), "bc" dropped again *)
Example C10_clear_example :
  let p := fst (pstep (fst (pstep (fst (pstep (path_init 46%N 0%N) (PPost (bs [97;114;98;99])))) (PAdd 1))) (PClear true)) in
  pbase p = bs [97; 0] /\ pwalk p = Done [bs [97]].
Proof. vm_compute. split; reflexivity. Qed.

(* ---- assignment without value, values that are no text, and mpt_meta_set over every kind of value
   (meta/meta_set.c, meta/meta_new.c, config/node_assign.c with val == NULL) ----

   [WAssignNone b p] is configAssign(cfg, path, NULL) through the handle with base [b]: the element is
   created without value when it does not exist, mpt_meta_set(&node->_meta, NULL) is applied when it
   does; [WAssignBad b p] is configAssign with a value that holds no text (refused by mpt_meta_new).
   Both are operations of [wop], so C10_api_refines_map / C10_api_step_refines above cover every
   history that contains them: afterwards the key and its prefixes are present, the key's value is
   gone - unless the result class says the element still holds a value ([RcOk]; the specification
   takes that decision from the implementation, see [HAssignNone]): mpt_meta_set asks the old value
   for an iterator to rewind before it replaces it, and the buffer metatype that holds text of 250
   bytes and more is one.  The next two theorems say exactly when that happens. *)
Theorem C10_unset_drops_short_text :
  forall v, length v <= 249 -> meta_set (Some v) None = Some None.
Proof. exact (fun v H => eq_trans (meta_set_none (Some v)) (f_equal Some (unset_val_short v H))). Qed.

Theorem C10_unset_keeps_long_text :
  forall v, 250 <= length v -> meta_set (Some v) None = Some (Some v).
Proof. exact (fun v H => eq_trans (meta_set_none (Some v)) (f_equal Some (unset_val_long v H))). Qed.

(* the reading of EVERY key after configAssign(cfg, path, NULL), any handle, any state: the old reading
   with the destination and its prefixes made present and - result class RcCleared - the destination
   without value, or - RcOk - with the value it had *)
Theorem C10_assign_none_frame :
  forall g b p, hpath b -> wff g -> pwf p -> Forall name_ok (elems p) ->
  exists g' r, cfg_assign_none g b p = Done (g', r) /\ wff g' /\
    ((elems b ++ elems p = [] /\ r = RcRefused /\ g' = g) \/
     (elems b ++ elems p <> [] /\
      exists ov, ((r = RcOk /\ ov = None) \/ (r = RcCleared /\ ov = Some None)) /\
        forall k, k <> [] -> tlook g' k = upd_gen (tlook g) (elems b ++ elems p) ov k)).
Proof. exact cfg_assign_none_spec. Qed.

(* a value without text is refused and the store reads as before (a view has made its base element present) *)
Theorem C10_assign_bad_changes_nothing :
  forall g b p, hpath b -> wff g -> pwf p ->
  exists g', cfg_assign_bad g b p = Done (g', RcRefused) /\ wff g' /\
    ((elems b = [] /\ g' = g) \/
     (elems b <> [] /\ forall k, k <> [] -> tlook g' k = upd_gen (tlook g) (elems b) None k)).
Proof. exact cfg_assign_bad_spec. Qed.

(* mpt_meta_set on one metatype reference holding ANY kind of value ([cell]: nothing, the default
   metatype, text, a value that is an object / a configuration / an iterator - accepting or refusing -,
   a view of the process-wide configuration), [meta_set_cell] = the order of meta_set.c:
   - on nothing / default / text it is the function [meta_set] the tree theorems are about;
   - an accepted text is what the value shows afterwards, byte for byte, at every length, whether the
     old value took it in place or was replaced; a refused call leaves the value as it was;
   - the old value is released only when another one has taken its place;
   - every call refines [cell_spec]. *)
Theorem C10_meta_set_is_tree_meta_set :
  forall c a, plain c -> a <> ABad ->
    let '(r, c', _) := meta_set_cell c a in
    r = MOk /\ plain c' /\ meta_set (cell_val c) (aval_val a) = Some (cell_val c').
Proof. exact meta_set_cell_plain. Qed.

Theorem C10_meta_set_reads_back :
  forall c v,
    let '(r, c', _) := meta_set_cell c (AText v) in
    (r = MOk -> cell_text c' = Some v) /\ (r = MErr -> c' = c).
Proof. exact meta_set_cell_reads_back. Qed.

Theorem C10_meta_set_refused_changes_nothing :
  forall c a, let '(r, c', rel) := meta_set_cell c a in r = MErr -> c' = c /\ rel = false.
Proof. exact meta_set_cell_refused. Qed.

Theorem C10_meta_set_releases_replaced_only :
  forall c a,
    let '(r, c', rel) := meta_set_cell c a in
    rel = true -> r = MOk /\ c <> CNull /\ (c' = CDefault \/ exists v, a = AText v /\ c' = CText v).
Proof. exact meta_set_cell_released. Qed.

Theorem C10_meta_set_refines_spec :
  forall c a,
    let '(r, c', _) := meta_set_cell c a in
    cell_text c' = cell_spec (cell_text c) a (mres_ok r) (no_text c') /\ (a = ABad -> r = MErr).
Proof. exact meta_set_cell_refines. Qed.

(* non-vacuity: value of 3 bytes dropped, of 250 bytes kept by "no value"; created without value;
   an integer refused through a view (base element present afterwards) *)
Example C10_assign_none_example :
  fst (wrun [] [WSet gl (Some (bs [97])) 46%N 0%N (Some (bs [1;2;3])); WAssignNone gl (mk [97]); WGet gl (Some (bs [97])) GVec;
                WGet gl (Some (bs [97])) GExist;
                WSet gl (Some (bs [97])) 46%N 0%N (Some (bs (repeat 118 250))); WAssignNone gl (mk [97]);
                WGetp gl (mk [97]) GVec; WAssignNone gl (mk [98;46;99]); WGetp gl (mk [98]) GExist; WGetp gl (mk [98;46;99]) GVec;
                WAssignBad (mk [120]) (mk [121]); WGetp gl (mk [120]) GExist; WGetp gl (mk [120;46;121]) GExist;
                WAssignNone (mk [97]) gl; WAssignNone gl gl])
  = [WOut (OutRc RcOk); WOut (OutRc RcCleared); WVal GMissing; WVal GFound;
     WOut (OutRc RcOk); WOut (OutRc RcOk); WVal (GText (bs (repeat 118 250)));
     WOut (OutRc RcCleared); WVal GFound; WVal GMissing;
     WOut (OutRc RcRefused); WVal GFound; WVal GMissing;
     WOut (OutRc RcOk); WOut (OutRc RcRefused)].
Proof. vm_compute. reflexivity. Qed.

(* an object takes 300 bytes in place and is not released; refusing, it refuses the whole call; asked to
   reset itself and refusing, it is replaced by the default metatype and released; a configuration
   that refuses is replaced by the text; an iterator is rewound and stays *)
Example C10_meta_set_example :
  meta_set_cell (CObj true None) (AText (bs (repeat 118 300))) = (MOk, CObj true (Some (bs (repeat 118 300))), false) /\
  meta_set_cell (CObj false (Some (bs [1]))) (AText (bs [2])) = (MErr, CObj false (Some (bs [1])), false) /\
  meta_set_cell (CObj false (Some (bs [1]))) ANone = (MOk, CDefault, true) /\
  meta_set_cell (CCfg false None) (AText (bs [2])) = (MOk, CText (bs [2]), true) /\
  meta_set_cell (CIter true (bs [7])) ANone = (MOk, CIter true (bs [7]), false) /\
  meta_set_cell (CIter false (bs [7])) ANone = (MOk, CDefault, true) /\
  meta_set_cell CView (AText (bs [2])) = (MOk, CText (bs [2]), true) /\
  meta_set_cell (CText (bs [1])) ABad = (MErr, CText (bs [1]), false).
Proof. vm_compute. repeat split; reflexivity. Qed.

(* ---- coverage round 6: mpt_path_last / mpt_path_del (separator mode), mpt_node_locate ---- *)

(* mpt_path_last on ANY well-formed non-empty path (any offset - after mpt_path_next calls -, with or
   without array storage and post data): the path becomes exactly its last element, whose length is
   returned and whose bytes lie inside the storage; the end of the path does not move *)
Theorem C10_path_last_element : forall p, pwf p -> plen p <> 0 ->
  exists e p', path_last p = Done (length e, p') /\
    e = last (elems p) [] /\ pwf p' /\ elems p' = [e] /\
    rdn (pbase p') (poff p') (length e) = Done e /\ same_store p p' /\
    poff p' + plen p' = poff p + plen p.
Proof. exact path_last_spec. Qed.

(* mpt_path_del on ANY well-formed non-empty path: exactly the last element is removed (its length is
   returned), the elements in front stay, the post data is gone (an array is cut behind the path) *)
Theorem C10_path_del_element : forall p, pwf p -> plen p <> 0 ->
  exists e p', path_del p = Done (length e, p') /\
    e = last (elems p) [] /\ elems p' = removelast (elems p) /\ pwf p' /\
    pkeep p' = false /\ poff p' = poff p /\ psep p' = psep p /\
    (parr p = true -> length (pbase p') = poff p' + plen p').
Proof. exact path_del_spec. Qed.

(* mpt_node_locate on ANY sibling list (names, nameless identifiers, pointer identifiers, any character
   sets), from any node of it, for any key: the result is the k-th node whose identifier matches, counted
   forwards from the start node (pos = k > 0), backwards before it (pos = -k), or the last match of the
   whole list (pos = 0) *)
Theorem C10_locate_kth_match : forall ids s p k,
  s < length ids -> (klen k = 0 \/ kptr k <> 0) ->
  (match p with LFwd c | LBwd c => 1 <= c | LLast => True end) ->
  node_locate ids (Some s) p k = res_of (locate_kth ids s p k).
Proof. exact node_locate_kth. Qed.

Theorem C10_locate_finds_matching_node : forall ids s p k i,
  s < length ids -> (klen k = 0 \/ kptr k <> 0) ->
  (match p with LFwd c | LBwd c => 1 <= c | LLast => True end) ->
  node_locate ids (Some s) p k = LFound i ->
  exists n, nth_error ids i = Some n /\ kmatch k n = true /\
    match p with LFwd _ => s <= i | LBwd _ => i < s | LLast => True end.
Proof. exact node_locate_sound. Qed.

(* the key mpt_node_query uses (charset -1): against a stored name it is equality of the name bytes - any
   bytes, any length -, and an identifier of another character set never matches *)
Theorem C10_locate_default_key_is_name_equality : forall nm key,
  kmatch (key_of_name key) (ident_of_name nm) = bytes_eqb nm key.
Proof. exact kmatch_name. Qed.

Theorem C10_locate_skips_other_charsets : forall key cs d, cs <> 1 -> kmatch (key_of_name key) (cs, d) = false.
Proof. exact kmatch_other_charset. Qed.

(* the search by which the store model walks one level (find_idx: every theorem about the store above goes
   through it) IS mpt_node_locate(first, 1, name, length, -1) on the identifiers of that level ... *)
Theorem C10_store_lookup_is_node_locate : forall nm l, l <> [] ->
  node_locate (map (fun k => ident_of_name (nname' k)) l) (Some 0) (LFwd 1) (key_of_name nm) =
  res_of (option_map fst (find_idx nm l 0)).
Proof. exact store_lookup_is_node_locate. Qed.

(* ... and the loop of node_query.c around that call computes mpt_node_query of the store model *)
Theorem C10_node_query_is_locate_loop : forall f p, lquery (map lift_node f) p = node_query f p.
Proof. exact lquery_is_node_query. Qed.

Example C10_locate_example :
  let bs := map N.of_nat in
  let ids := [ident_of_name (bs [97]); ident_nameless 2; ident_of_name (bs [98]); (4, IPtr 1);
              ident_of_name (bs [97]); ident_of_name (bs [97; 98]); ident_of_name (bs [97])] in
  node_locate ids (Some 0) (LFwd 1) (key_of_name (bs [97])) = LFound 0 /\
  node_locate ids (Some 0) (LFwd 2) (key_of_name (bs [97])) = LFound 4 /\
  node_locate ids (Some 1) (LFwd 2) (key_of_name (bs [97])) = LFound 6 /\
  node_locate ids (Some 6) (LBwd 2) (key_of_name (bs [97])) = LFound 0 /\
  node_locate ids (Some 2) LLast (key_of_name (bs [97])) = LFound 6 /\
  node_locate ids (Some 2) LLast (key_of_name (bs [98])) = LFound 2 /\
  node_locate ids (Some 0) (LFwd 1) (key_of_name (bs [99])) = LNone /\
  node_locate ids (Some 0) (LFwd 1) (mklkey (Some 0) 9 (bs [0; 0]) 2) = LFound 1 /\
  node_locate ids (Some 0) (LFwd 1) (mklkey (Some 4) 1 [] 0) = LFound 3 /\
  node_locate ids (Some 0) (LFwd 1) (mklkey (Some 4) 2 [] 0) = LNone /\
  node_locate ids (Some 0) (LFwd 1) (mklkey (Some 1) 9 (bs [97; 0]) 2) = LFound 0 /\
  node_locate ids None (LFwd 1) (key_of_name (bs [97])) = LEfault /\
  node_locate ids (Some 0) (LFwd 1) (mklkey None 0 [] 1) = LEfault.
Proof. vm_compute. repeat split; reflexivity. Qed.

Example C10_path_last_del_example :
  let bs := map N.of_nat in
  let p0 := path_init 46%N 0%N in
  match path_set p0 (Some (bs [97; 46; 98; 99; 46; 100; 0])) None with
  | Done (p, _) =>
    match path_next p with
    | Done (_, p1) =>
      (match path_last p1 with Done (n, q) => n = 1 /\ pwalk q = Done [bs [100]] | _ => False end) /\
      (match path_del p1 with Done (n, q) => n = 1 /\ pwalk q = Done [bs [98; 99]] | _ => False end)
    | _ => False
    end
  | _ => False
  end.
Proof. vm_compute. repeat split; reflexivity. Qed.

(* ---- mpt_path_add on a path that lies in the caller's string (no array) ---- *)

(* ANY well-formed non-empty path without array (laid over a string by mpt_path_set; any offset), n bytes of
   the caller's string behind it that hold no separator: mpt_path_add(path, n) succeeds, the elements afterwards
   are the elements before ++ [those n bytes], the path owns its storage (HasArray - AS PATCHED by
   docs/C10_path_add_hasarray.diff), nothing is behind it and a further element of m > 0 bytes is refused
   with BadValue until post data is appended *)
Theorem C10_path_add_from_string : forall p n,
  pwf p -> parr p = false -> plen p <> 0 ->
  poff p + plen p + n <= length (pbase p) ->
  nosep (psep p) (slice (poff p + plen p) n (pbase p)) ->
  exists p', path_add p n = Done p' /\ pwf p' /\ parr p' = true /\
    elems p' = elems p ++ [slice (poff p + plen p) n (pbase p)] /\
    poff p' = poff p /\ psep p' = psep p /\ passign p' = passign p /\
    length (pbase p') = poff p' + plen p' /\
    (forall m, 0 < m -> path_add p' m = Fail BadValue).
Proof. exact path_add_from_string. Qed.

(* "a.b=val": the path a.b, then v, a refused second add; after a del the element and its end byte are
   behind the path again ("b=v" can be taken as one element); model and abstract path agree *)
Example C10_path_add_from_string_example :
  let bs := map N.of_nat in
  let str := bs [97; 46; 98; 61; 118; 97; 108] in
  let run := fix run (p : path) (a : apath) (ops : list pop) : list (pret * pret * cres (list (list byte)) * list (list byte) * bool) :=
    match ops with
    | [] => []
    | o :: r => let '(p', x) := pstep p o in let '(a', y) := astep a o in (x, y, pwalk p', aelems a', parr p') :: run p' a' r
    end in
  let a0 := mkap [] [] false 46%N 61%N true None in
  map (fun t => match t with (x, y, w, e, f) => (x, y, w, e, f) end)
      (run (path_init 46%N 61%N) a0 [PSet (Some str) (Some 5); PAdd 1; PAdd 1; PAdd 0]) =
    [(RNum 2, RNum 0, Done [bs [97]; bs [98]], [bs [97]; bs [98]], false);
     (RNum 0, RNum 0, Done [bs [97]; bs [98]; bs [118]], [bs [97]; bs [98]; bs [118]], true);
     (RErr BadValue, RErr BadValue, Done [bs [97]; bs [98]; bs [118]], [bs [97]; bs [98]; bs [118]], true);
     (RNum 0, RNum 0, Done [bs [97]; bs [98]; bs [118]; []], [bs [97]; bs [98]; bs [118]; []], true)] /\
  map (fun t => match t with (x, y, w, e, f) => (w, e, f) end)
      (run (path_init 46%N 61%N) a0 [PSet (Some str) None; PDel; PAdd 3]) =
    [(Done [bs [97]; bs [98]], [bs [97]; bs [98]], false);
     (Done [bs [97]], [bs [97]], false);
     (Done [bs [97]; bs [98; 61; 118]], [bs [97]; bs [98; 61; 118]], true)].
Proof. vm_compute. split; reflexivity. Qed.

Print Assumptions C10_path_elements.
Print Assumptions C10_path_elements_string.
Print Assumptions C10_string_key.
Print Assumptions C10_path_rebuild.
Print Assumptions C10_path_rebuild_binary.
Print Assumptions C10_path_bin_is_step.
Print Assumptions C10_root_refines_map.
Print Assumptions C10_path_next_element.
Print Assumptions C10_config_refines_map.
Print Assumptions C10_step_refines.
Print Assumptions C10_assign_frame.
Print Assumptions C10_remove_subtree_only.
Print Assumptions C10_clear_beneath_only.
Print Assumptions C10_api_refines_map.
Print Assumptions C10_api_step_refines.
Print Assumptions C10_getp_reads_spec.
Print Assumptions C10_get_reads_spec.
Print Assumptions C10_getp_convertable_is_assigned_value.
Print Assumptions C10_get_convertable_is_assigned_value.
Print Assumptions C10_root_get_convertable_is_assigned_value.
Print Assumptions C10_string_key_end.
Print Assumptions C10_del_key.
Print Assumptions C10_listing_reads_store.
Print Assumptions C10_root_api_refines_map.
Print Assumptions C10_root_listing_reads_store.
Print Assumptions C10_clear_keeps_elements.
Print Assumptions C10_unset_drops_short_text.
Print Assumptions C10_unset_keeps_long_text.
Print Assumptions C10_assign_none_frame.
Print Assumptions C10_assign_bad_changes_nothing.
Print Assumptions C10_meta_set_is_tree_meta_set.
Print Assumptions C10_meta_set_reads_back.
Print Assumptions C10_meta_set_refused_changes_nothing.
Print Assumptions C10_meta_set_releases_replaced_only.
Print Assumptions C10_meta_set_refines_spec.
Print Assumptions C10_path_last_element.
Print Assumptions C10_path_del_element.
Print Assumptions C10_locate_kth_match.
Print Assumptions C10_locate_finds_matching_node.
Print Assumptions C10_locate_default_key_is_name_equality.
Print Assumptions C10_locate_skips_other_charsets.
Print Assumptions C10_store_lookup_is_node_locate.
Print Assumptions C10_node_query_is_locate_loop.
Print Assumptions C10_path_add_from_string.
