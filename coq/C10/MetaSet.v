(* C10/MetaSet.v — mpt_meta_set (meta_set.c) over every kind of value: what is read back.
   [meta_set_cell] (ConfigModel.v) is the transcription; here:
     - on the values the node tree model knows (no metatype / text) it is [meta_set], the
       function the tree theorems are about;
     - an accepted text is read back byte for byte, whatever its length and whatever kind of
       value took it (in place: object, configuration; replaced: anything else);
     - a refused call changes nothing and releases nothing;
     - the old value is released only when another one takes its place, never when it took the
       assignment itself;
     - "no value" leaves no text, or the value as it was. *)
From MptV Require Import Base.Mem Base.Tactics C10.ConfigModel C10.ConfigSpec C10.TreeAssign C10.AssignNone.
Local Open Scope nat_scope.

(* the tree model's view of a cell: text or nothing *)
Definition cell_val (c : cell) : option value := match c with CText v => Some v | _ => None end.
Definition plain (c : cell) : Prop := match c with CNull | CDefault | CText _ => True | _ => False end.
Definition aval_val (a : aval) : option value := match a with AText v => Some v | _ => None end.

Lemma meta_set_cell_plain c a : plain c -> a <> ABad ->
  let '(r, c', _) := meta_set_cell c a in
  r = MOk /\ plain c' /\ meta_set (cell_val c) (aval_val a) = Some (cell_val c').
Proof.
  intros Hp Ha. destruct c as [| |v|acc t|acc t|acc t|]; try contradiction;
    destruct a as [| |w]; try congruence; cbn [meta_set_cell cell_val aval_val meta_set cell_is_null negb];
    try rewrite meta_new_total; cbn; auto.
  destruct (fits_basic v); cbn; auto.
Qed.

Lemma meta_set_cell_reads_back c v :
  let '(r, c', _) := meta_set_cell c (AText v) in
  (r = MOk -> cell_text c' = Some v) /\ (r = MErr -> c' = c).
Proof.
  destruct c as [| |w|acc t|acc t|acc t|]; cbn [meta_set_cell]; try rewrite meta_new_total;
    try destruct acc; cbn; try rewrite meta_new_total; cbn; split; intros H; congruence || reflexivity.
Qed.

Lemma meta_set_cell_refused c a :
  let '(r, c', rel) := meta_set_cell c a in r = MErr -> c' = c /\ rel = false.
Proof.
  destruct c as [| |w|acc t|acc t|acc t|]; destruct a as [| |v]; cbn [meta_set_cell]; try rewrite meta_new_total;
    try destruct acc; cbn; try rewrite meta_new_total; try (destruct (fits_basic w)); cbn; intros H; (split; congruence || reflexivity) || discriminate.
Qed.

(* a value that is released has been replaced by the default metatype or by new text *)
Lemma meta_set_cell_released c a :
  let '(r, c', rel) := meta_set_cell c a in
  rel = true -> r = MOk /\ c <> CNull /\ (c' = CDefault \/ exists v, a = AText v /\ c' = CText v).
Proof.
  destruct c as [| |w|acc t|acc t|acc t|]; destruct a as [| |v]; cbn [meta_set_cell]; try rewrite meta_new_total;
    try destruct acc; cbn; try rewrite meta_new_total; try (destruct (fits_basic w)); cbn; intros H; try discriminate;
    (split; [reflexivity|]); (split; [discriminate|]); (left; reflexivity) || (right; eexists; split; reflexivity).
Qed.

(* a value that took the assignment itself (object, configuration) or stayed (iterator) is not released *)
Lemma meta_set_cell_in_place c a :
  let '(r, c', rel) := meta_set_cell c a in
  match c, c' with
  | CObj _ _, CObj _ _ | CCfg _ _, CCfg _ _ | CIter _ _, CIter _ _ => rel = false
  | _, _ => True
  end.
Proof.
  destruct c as [| |w|acc t|acc t|acc t|]; destruct a as [| |v]; cbn [meta_set_cell]; try rewrite meta_new_total;
    try destruct acc; cbn; try rewrite meta_new_total; try (destruct (fits_basic w)); cbn; auto.
Qed.

Lemma meta_set_cell_none c :
  let '(r, c', _) := meta_set_cell c ANone in
  r = MOk /\ (cell_text c' = None \/ c' = c).
Proof.
  destruct c as [| |w|acc t|acc t|acc t|]; cbn [meta_set_cell];
    try destruct acc; cbn; try (destruct (fits_basic w)); cbn; auto.
Qed.

(* the three together: every call refines [cell_spec] *)
Definition mres_ok (r : mres) : bool := match r with MOk => true | MErr => false end.
Definition no_text (c : cell) : bool := match cell_text c with None => true | Some _ => false end.

Lemma meta_set_cell_refines c a :
  let '(r, c', _) := meta_set_cell c a in
  cell_text c' = cell_spec (cell_text c) a (mres_ok r) (no_text c') /\ (a = ABad -> r = MErr).
Proof.
  destruct c as [| |w|acc t|acc t|acc t|]; destruct a as [| |v]; cbn [meta_set_cell]; try rewrite meta_new_total;
    try destruct acc; cbn; try rewrite meta_new_total; try (destruct (fits_basic w)); cbn;
    try (destruct t; cbn); split; congruence || reflexivity.
Qed.

(* which text stays when a text value is assigned "no value": up to 249 bytes none, from 250 bytes all of it *)
Lemma meta_set_cell_none_text v :
  meta_set_cell (CText v) ANone = if length v <=? 249 then (MOk, CDefault, true) else (MOk, CText v, false).
Proof.
  cbn [meta_set_cell]. unfold fits_basic, geninfo_size.
  destruct (Nat.leb_spec (length v) 249); destruct (Nat.ltb_spec 255 (length v + 1 + 4 + 1)); try lia; reflexivity.
Qed.
