(* C10/TreeAssign.v — mpt_node_assign (lookup, value replacement, creation of the
   missing nodes) read through [tlook]: it is the point update [upd_gen]. *)
From MptV Require Import Base.Mem Base.Tactics C10.ConfigModel C10.ConfigSpec C10.PathProofs
  C10.TreeQuery C10.TreeOps.
Local Open Scope nat_scope.

(* present (keep what is there, create without value otherwise) *)
Definition touch (e : entry) : entry := match e with Absent => Exists None | _ => e end.

(* reading after "make key q present (ov = None) / assign it (ov = Some value)" *)
Definition upd_gen (L : key -> entry) (q : key) (ov : option (option value)) (k : key) : entry :=
  if key_eqb k q then match ov with Some v => Exists v | None => touch (L k) end
  else if key_proper_prefix k q then touch (L k)
  else L k.

Definition name_ok (n : name) : Prop := length n <= ident_max.

(* ---------------------------------------------------------------- values *)
Lemma meta_new_total v : meta_new v = Some v.
Proof.
  unfold meta_new, geninfo_size.
  destruct (Nat.ltb_spec 255 (length v + 1 + 4 + 1)); [reflexivity|].
  set (x := length v + 1 + 4 + 1). unfold align8.
  assert (Hm : (x - 1) mod 8 < 8) by (apply Nat.mod_upper_bound; lia).
  destruct (Nat.ltb_spec (x + 7 - (x - 1) mod 8) 255);
    match goal with |- (if ?c then _ else _) = _ => destruct c eqn:E end; try reflexivity;
    apply Nat.ltb_ge in E; unfold x in *; lia.
Qed.

(* ---------------------------------------------------------------- chains *)
Fixpoint chain_of (r : key) (mt : option value) : node :=
  match r with
  | [] => Node [] mt []
  | n :: r' => match r' with [] => Node n mt [] | _ => Node n None [chain_of r' mt] end
  end.

Lemma chain_name n r mt : nname' (chain_of (n :: r) mt) = n.
Proof. cbn. destruct r; reflexivity. Qed.

Lemma wfn_chain r mt : wfn (chain_of r mt).
Proof.
  induction r as [|n r IH]; [cbn; split; [constructor|exact I]|].
  cbn [chain_of]. destruct r as [|a r].
  - cbn. split; [constructor|exact I].
  - apply wfn_unfold. cbn [nkids']. split; [cbn; constructor; [intros []|constructor]|].
    constructor; [exact IH|constructor].
Qed.

Lemma mkchain_spec : forall r fuel p mt, pwf p -> elems p = r -> r <> [] -> Forall name_ok r ->
  plen p < fuel -> mkchain fuel p mt = Done (Some (chain_of r mt), true).
Proof.
  induction r as [|n r IH]; intros fuel p mt Hw He Hn Hok Hf; [congruence|].
  destruct fuel as [|fuel]; [lia|]. cbn [mkchain].
  assert (Hz : plen p <> 0) by (intros H; apply elems_nil_iff in H; congruence).
  destruct (path_next_spec p Hw Hz) as (e & r' & p' & He' & Hnx & Hrd & Hw' & Her & _ & _ & Hlt & _).
  rewrite He in He'. injection He' as <- <-.
  rewrite Hnx, Hrd. cbn [cbind]. inversion Hok as [|? ? Hn1 Hok']; subst.
  unfold ident_set. unfold name_ok in Hn1. destruct (Nat.ltb_spec ident_max (length n)); [lia|].
  destruct (Nat.eqb_spec (plen p') 0) as [Hz'|Hz'].
  - apply elems_nil_iff in Hz'. rewrite Hz'. reflexivity.
  - assert (Hr : elems p' <> []) by (intros H'; apply elems_nil_iff in H'; congruence).
    rewrite (IH fuel p' mt Hw' eq_refl Hr Hok') by lia. cbn [cbind chain_of].
    destruct (elems p'); [congruence|reflexivity].
Qed.

Lemma key_proper_prefix_cons n k q :
  key_proper_prefix (n :: k) (n :: q) = key_proper_prefix k q.
Proof. unfold key_proper_prefix. cbn. rewrite bytes_eqb_refl. reflexivity. Qed.

Lemma key_proper_prefix_diff n n' k q : bytes_eqb n' n = false ->
  key_proper_prefix (n' :: k) (n :: q) = false.
Proof. intros H. unfold key_proper_prefix. cbn. rewrite H. reflexivity. Qed.

Lemma bytes_eqb_sym a b : bytes_eqb a b = bytes_eqb b a.
Proof.
  destruct (bytes_eqb a b) eqn:E.
  - apply bytes_eqb_eq in E. subst. symmetry. apply bytes_eqb_refl.
  - symmetry. apply bytes_eqb_neq. apply bytes_eqb_neq in E. congruence.
Qed.

Lemma tlook_chain : forall r mt k, r <> [] -> k <> [] ->
  tlook [chain_of r mt] k =
  if key_eqb k r then Exists mt else if key_proper_prefix k r then Exists None else Absent.
Proof.
  induction r as [|n r IH]; intros mt k Hr Hk; [congruence|].
  destruct k as [|n' k]; [congruence|].
  cbn [tlook find_node]. rewrite chain_name.
  destruct (bytes_eqb n n') eqn:E.
  - apply bytes_eqb_eq in E. subst n'. rewrite key_proper_prefix_cons.
    cbn [key_eqb]. rewrite bytes_eqb_refl. cbn [andb chain_of].
    destruct r as [|a r].
    + destruct k as [|b k]; [reflexivity|]. cbn. reflexivity.
    + cbn [nval' nkids']. destruct k as [|b k]; [reflexivity|].
      apply IH; discriminate.
  - rewrite key_proper_prefix_diff by (rewrite bytes_eqb_sym; assumption).
    cbn [key_eqb]. rewrite bytes_eqb_sym, E. reflexivity.
Qed.

(* appending a fresh chain to a sibling list that lacks its first name *)
Lemma tlook_create f r ov mt k : r <> [] -> k <> [] ->
  find_node (hd [] r) f = None ->
  (ov = None -> mt = None) -> (forall v, ov = Some v -> mt = v) ->
  tlook (f ++ [chain_of r mt]) k = upd_gen (tlook f) r ov k.
Proof.
  intros Hr Hk Hnone Hov1 Hov2. destruct r as [|n r]; [congruence|]. cbn [hd] in Hnone.
  rewrite tlook_app by (rewrite chain_name; assumption).
  destruct k as [|n' k]; [congruence|]. rewrite chain_name. unfold upd_gen.
  destruct (bytes_eqb n n') eqn:E.
  - apply bytes_eqb_eq in E. subst n'. rewrite tlook_chain by discriminate.
    assert (HL : tlook f (n :: k) = Absent) by (cbn; rewrite Hnone; reflexivity).
    rewrite HL. cbn [touch].
    destruct (key_eqb (n :: k) (n :: r)).
    + destruct ov as [v|]; [rewrite (Hov2 v eq_refl)|rewrite (Hov1 eq_refl)]; reflexivity.
    + reflexivity.
  - cbn [key_eqb]. rewrite bytes_eqb_sym, E. cbn [andb].
    rewrite key_proper_prefix_diff by (rewrite bytes_eqb_sym; assumption). reflexivity.
Qed.

(* an update of the sibling list below an existing node *)
Lemma tlook_under : forall g b t nd, trail_of g b t nd ->
  forall kids' q ov, q <> [] ->
  (forall k, k <> [] -> tlook kids' k = upd_gen (tlook (nkids' nd)) q ov k) ->
  forall k, k <> [] ->
  tlook (upd_at g t (fun n => Node (nname' n) (nval' n) kids')) k = upd_gen (tlook g) (b ++ q) ov k.
Proof.
  induction 1 as [f n i nd Hf | f n m i nd t x Hf Hm Ht IH]; intros kids' q ov Hq Hkids k Hk.
  - destruct (find_idx_first _ _ _ _ Hf) as (Hn & Hname & Hfirst).
    cbn [upd_at app]. destruct k as [|n' k']; [congruence|]. cbn [tlook].
    match goal with |- context [upd_nth f i ?G] => rewrite (find_node_upd_nth f i G nd Hn eq_refl Hfirst n') end.
    rewrite Hname. unfold upd_gen. destruct (bytes_eqb n n') eqn:E.
    + apply bytes_eqb_eq in E. subst n'. rewrite key_proper_prefix_cons. cbn [key_eqb].
      rewrite bytes_eqb_refl. cbn [andb nval' nkids' tlook].
      rewrite (find_idx_node n f 0), Hf. cbn [option_map snd].
      destruct k' as [|a k'].
      * destruct q as [|c q]; [congruence|]. cbn. reflexivity.
      * rewrite Hkids by discriminate. unfold upd_gen. reflexivity.
    + cbn [key_eqb]. rewrite bytes_eqb_sym, E. cbn [andb].
      rewrite key_proper_prefix_diff by (rewrite bytes_eqb_sym; assumption). reflexivity.
  - destruct (find_idx_first _ _ _ _ Hf) as (Hn & Hname & Hfirst).
    destruct (trail_of_nonnil _ _ _ _ Ht) as [_ Htn].
    rewrite upd_at_cons by assumption.
    destruct k as [|n' k']; [congruence|]. cbn [tlook app].
    match goal with |- context [upd_nth f i ?G] => rewrite (find_node_upd_nth f i G nd Hn eq_refl Hfirst n') end.
    rewrite Hname. unfold upd_gen. destruct (bytes_eqb n n') eqn:E.
    + apply bytes_eqb_eq in E. subst n'. rewrite key_proper_prefix_cons. cbn [key_eqb].
      rewrite bytes_eqb_refl. cbn [andb nval' nkids' tlook].
      rewrite (find_idx_node n f 0), Hf. cbn [option_map snd].
      destruct k' as [|a k'].
      * destruct m as [|c m]; [congruence|]. cbn. reflexivity.
      * rewrite (IH kids' q ov Hq Hkids (a :: k')) by discriminate. unfold upd_gen. reflexivity.
    + cbn [key_eqb]. rewrite bytes_eqb_sym, E. cbn [andb].
      rewrite key_proper_prefix_diff by (rewrite bytes_eqb_sym; assumption). reflexivity.
Qed.

(* every non-empty prefix of an existing key exists *)
Lemma tlook_prefix_exists : forall g b t nd, trail_of g b t nd ->
  forall k, k <> [] -> key_prefix k b = true -> touch (tlook g k) = tlook g k.
Proof.
  induction 1 as [f n i nd Hf | f n m i nd t x Hf Hm Ht IH]; intros k Hk Hp.
  - destruct k as [|n' k']; [congruence|]. cbn in Hp. apply andb_true_iff in Hp as [H1 H2].
    apply bytes_eqb_eq in H1. subst n'. destruct k'; [|discriminate].
    cbn. rewrite (find_idx_node n f 0), Hf. reflexivity.
  - destruct k as [|n' k']; [congruence|]. cbn in Hp. apply andb_true_iff in Hp as [H1 H2].
    apply bytes_eqb_eq in H1. subst n'. cbn [tlook]. rewrite (find_idx_node n f 0), Hf. cbn [option_map snd].
    destruct k' as [|a k']; [reflexivity|]. apply IH; [discriminate|assumption].
Qed.

(* replacing the value of an existing node *)
Lemma tlook_setval : forall g b t nd, trail_of g b t nd -> forall v k, k <> [] ->
  tlook (upd_at g t (fun n => Node (nname' n) v (nkids' n))) k = upd_gen (tlook g) b (Some v) k.
Proof.
  intros g b t nd Ht v k Hk.
  rewrite (tlook_upd_at g b t nd (fun n => Node (nname' n) v (nkids' n)) Ht eq_refl k). unfold upd_gen. cbn [nval' nkids'].
  destruct (key_eqb k b) eqn:E; [reflexivity|].
  destruct (key_proper_prefix k b) eqn:Ep.
  - unfold key_proper_prefix in Ep. apply andb_true_iff in Ep as [Ep _].
    rewrite (tlook_prefix_exists g b t nd Ht k Hk Ep).
    destruct (key_proper_prefix b k) eqn:Eb; [|reflexivity].
    (* k prefix of b and b proper prefix of k: impossible *)
    exfalso. unfold key_proper_prefix in Eb. apply andb_true_iff in Eb as [Eb1 Eb2].
    apply key_prefix_inv in Ep. apply key_prefix_inv in Eb1.
    assert (length k = length b).
    { apply (f_equal (@length _)) in Ep. apply (f_equal (@length _)) in Eb1.
      rewrite app_length in Ep, Eb1. lia. }
    assert (k = b).
    { rewrite Eb1. rewrite skipn_all2 by lia. rewrite app_nil_r. reflexivity. }
    subst. rewrite key_eqb_refl in E. discriminate.
  - destruct (key_proper_prefix b k) eqn:Eb; [|reflexivity].
    (* descending below b: the children are untouched *)
    clear -Ht Eb Hk. revert k Hk Eb. induction Ht as [f n i nd Hf | f n m i nd t x Hf Hm Ht IH]; intros k Hk Eb.
    + destruct k as [|n' k']; [congruence|]. unfold key_proper_prefix in Eb. cbn in Eb.
      destruct (bytes_eqb n n') eqn:E; [|discriminate]. apply bytes_eqb_eq in E. subst n'.
      cbn [length skipn tlook]. rewrite (find_idx_node n f 0), Hf. cbn [option_map snd].
      destruct k'; [cbn in Eb; discriminate|reflexivity].
    + destruct k as [|n' k']; [congruence|]. unfold key_proper_prefix in Eb. cbn in Eb.
      destruct (bytes_eqb n n') eqn:E; [|discriminate]. apply bytes_eqb_eq in E. subst n'.
      cbn [length skipn tlook]. rewrite (find_idx_node n f 0), Hf. cbn [option_map snd].
      destruct k' as [|a k']; [destruct m; [congruence|discriminate]|].
      apply IH; [discriminate|]. unfold key_proper_prefix. cbn in Eb. exact Eb.
Qed.

(* ---------------------------------------------------------------- mpt_node_assign *)
Lemma trail_of_find f m t nd : trail_of f m t nd -> nth_error (map nname' f) (hd 0 t) = Some (hd [] m).
Proof.
  intros H; inversion H; subst; cbn; destruct (find_idx_first _ _ _ _ H0) as (Hn & Hname & _);
    rewrite nth_error_map, Hn; cbn; congruence.
Qed.

Lemma upd_nth_ext {A} (l : list A) : forall i g1 g2 k, nth_error l i = Some k -> g1 k = g2 k ->
  upd_nth l i g1 = upd_nth l i g2.
Proof.
  induction l as [|x l IH]; intros i g1 g2 k Hn Hg; [destruct i; discriminate|].
  destruct i as [|i]; cbn in *.
  - inversion Hn; subst. rewrite Hg. reflexivity.
  - f_equal. eapply IH; eauto.
Qed.

Lemma upd_at_ext : forall f m t nd, trail_of f m t nd -> forall g1 g2, g1 nd = g2 nd ->
  upd_at f t g1 = upd_at f t g2.
Proof.
  induction 1 as [f n i nd Hf | f n m i nd t x Hf Hm Ht IH]; intros g1 g2 Hg.
  - destruct (find_idx_first _ _ _ _ Hf) as (Hn & _). cbn [upd_at]. eapply upd_nth_ext; eauto.
  - destruct (find_idx_first _ _ _ _ Hf) as (Hn & _).
    destruct (trail_of_nonnil _ _ _ _ Ht) as [_ Htn]. rewrite !upd_at_cons by assumption.
    eapply upd_nth_ext; [eassumption|]. cbn. f_equal. apply IH. assumption.
Qed.

Definition ov_of (val : option value) : option (option value) :=
  match val with Some v => Some (Some v) | None => None end.

Lemma node_assign_spec f p val : wff f -> pwf p -> elems p <> [] -> Forall name_ok (elems p) ->
  (* a NULL value only ever arrives for keys that have to be created (make_global) *)
  (val = None -> snd (aquery f (elems p)) <> []) ->
  exists f' t, node_assign f p val = Done (f', Some t) /\ wff f' /\
    forall k, k <> [] -> tlook f' k = upd_gen (tlook f) (elems p) (ov_of val) k.
Proof.
  intros Hwf Hw Hne Hok Hval.
  destruct (node_query_spec f p Hw) as (p' & Hq & Hw' & He' & _).
  unfold node_assign. rewrite Hq. cbn [cbind].
  set (r := elems p) in *.
  assert (Hmt : (match val with None => Some None | Some v => option_map Some (meta_new v) end) = Some val).
  { destruct val as [v|]; [rewrite meta_new_total|]; reflexivity. }
  destruct (aquery f r) as [q r2] eqn:Eaq. cbn [fst snd] in *.
  destruct q as [t|].
  - destruct (aquery_some _ _ _ _ Eaq) as (m & nd & Hr & Ht & Hnone).
    pose proof (trail_of_node_at _ _ _ _ Ht) as Hat.
    destruct (Nat.eqb_spec (plen p') 0) as [Hz|Hz].
    + (* the element exists: replace its value *)
      apply elems_nil_iff in Hz. assert (E0 : r2 = []) by congruence. rewrite E0 in *. clear E0.
      rewrite app_nil_r in Hr. subst m.
      destruct val as [v|]; [|exfalso; apply Hval; reflexivity].
      rewrite Hat. cbn [meta_set]. rewrite meta_new_total.
      eexists _, t. split; [reflexivity|]. split.
      * eapply wff_upd_at; eauto. intros Hn. apply wfn_unfold. cbn. apply wfn_unfold. assumption.
      * intros k Hk. cbn [ov_of]. apply (tlook_setval f r t nd Ht (Some v) k Hk).
    + (* create the missing elements below it *)
      assert (Hr2 : r2 <> []) by (intros H; apply Hz; apply elems_nil_iff; congruence).
      rewrite Hmt.
      assert (Hok2 : Forall name_ok r2).
      { rewrite Hr in Hok. apply Forall_app in Hok. apply Hok. }
      rewrite (mkchain_spec r2 (S (plen p')) p' val Hw' He' Hr2 Hok2) by lia. cbn [cbind].
      rewrite Hat.
      set (c := chain_of r2 val).
      assert (Hcn : nname' c = hd [] r2) by (unfold c; destruct r2; [congruence|apply chain_name]).
      assert (Hfn : find_node (nname' c) (nkids' nd) = None) by (rewrite Hcn; apply Hnone; assumption).
      eexists _, _. split; [reflexivity|].
      rewrite (upd_at_ext f m t nd Ht (fun n => Node (nname' n) (nval' n) (nkids' n ++ [c]))
                 (fun n => Node (nname' n) (nval' n) (nkids' nd ++ [c])) eq_refl).
      split.
      * eapply wff_upd_at; eauto. intros Hn. apply wfn_unfold. cbn [nkids'].
        apply wff_app; [apply wfn_unfold; assumption|apply wfn_chain|assumption].
      * intros k Hk. rewrite Hr.
        apply (tlook_under f m t nd Ht (nkids' nd ++ [c]) r2 (ov_of val) Hr2); [|assumption].
        intros k2 Hk2. apply tlook_create; try assumption.
        -- rewrite <- Hcn. assumption.
        -- intros H. destruct val; [discriminate|reflexivity].
        -- intros v H. destruct val; cbn in H; [inversion H; reflexivity|discriminate].
  - destruct (aquery_none _ _ _ Eaq) as [Hr2 Hnone]. rewrite Hr2 in *. clear Hr2.
    destruct Hnone as [Hnil|Hnone]; [congruence|].
    rewrite Hmt.
    rewrite (mkchain_spec r (S (plen p')) p' val Hw' He' Hne Hok) by lia. cbn [cbind].
    set (c := chain_of r val).
    assert (Hcn : nname' c = hd [] r) by (unfold c; destruct r; [congruence|apply chain_name]).
    eexists _, _. split; [reflexivity|]. split.
    + apply wff_app; [assumption|apply wfn_chain|rewrite Hcn; assumption].
    + intros k Hk. apply tlook_create; try assumption.
      * intros H. destruct val; [discriminate|reflexivity].
      * intros v H. destruct val; cbn in H; [inversion H; reflexivity|discriminate].
Qed.
