(* C10/PathAdd.v — building a path element by element with mpt_path_add
   (separator mode, array storage) gives a path that denotes those elements. *)
From MptV Require Import Base.Mem Base.Tactics C10.ConfigModel C10.ConfigSpec C10.PathProofs.
Local Open Scope nat_scope.

Lemma split_snoc sep a e : nosep sep e -> split sep (a ++ sep :: e) = split sep a ++ [e].
Proof.
  intros He. induction a as [|b a IH].
  - cbn [app]. rewrite split_cons. replace (beq sep sep) with true by (symmetry; apply beq_true; reflexivity).
    rewrite (index_of_none_split sep e He). reflexivity.
  - cbn [app]. rewrite !split_cons, IH. destruct (beq b sep); [reflexivity|].
    pose proof (split_nonnil sep a) as Hn. destruct (split sep a); [congruence|reflexivity].
Qed.

Lemma hd_split_snoc sep a e : nosep sep e -> hd [] (split sep (a ++ sep :: e)) = hd [] (split sep a).
Proof.
  intros He. rewrite split_snoc by assumption.
  pose proof (split_nonnil sep a) as Hn. destruct (split sep a); [congruence|reflexivity].
Qed.

Lemma setnth_ok m i b : i < length m -> setnth m i b = Done (firstn i m ++ b :: skipn (S i) m).
Proof. intros H. unfold setnth. destruct (Nat.ltb_spec i (length m)); [reflexivity|lia]. Qed.

(* array path with nothing behind it *)
Definition tight (p : path) : Prop :=
  pwf p /\ poff p = 0 /\ length (pbase p) = plen p.

Lemma path_add_step p e :
  tight p -> (parr p = true \/ e <> []) -> nosep (psep p) e ->
  exists p', path_add (path_post p e) (length e) = Done p' /\
    tight p' /\ parr p' = true /\ psep p' = psep p /\ passign p' = passign p /\
    elems p' = elems p ++ [e] /\
    pbase p' = (if plen p =? 0 then [] else firstn (plen p - 1) (pbase p) ++ [psep p]) ++ e ++ [passign p].
Proof.
  intros ((Hb & Hw) & Hoff & Hlen) Harr He.
  set (n := length e). set (L := plen p) in *.
  (* the path after the post bytes were appended *)
  assert (Hq : exists kp, path_post p e =
            mkpath (pbase p ++ e) 0 L (pfirst p) false true kp (psep p) (passign p)).
  { unfold path_post. destruct e as [|c e'].
    - destruct Harr as [Ha|Ha]; [|congruence]. exists (pkeep p). destruct p; cbn in *.
      subst. rewrite app_nil_r. reflexivity.
    - exists true. rewrite Hoff, Hb. cbn [Nat.add]. f_equal.
      destruct (parr p); [reflexivity|]. fold L. rewrite <- Hlen, firstn_all. reflexivity. }
  destruct Hq as (kp & Hq). rewrite Hq. unfold path_add. cbn [parr pbase poff plen pbin psep passign pfirst negb andb Nat.add].
  rewrite app_length, Hlen. fold n L.
  destruct (Nat.ltb_spec (L + n) L); [lia|].
  replace (L + n - L) with n by lia. destruct (Nat.ltb_spec n n); [lia|]. cbn [cbind].
  (* no separator inside the element *)
  assert (Hmc : memchr (pbase p ++ e) L n (psep p) = Done None).
  { unfold memchr, rdn. rewrite app_length, Hlen. fold L n.
    destruct (Nat.leb_spec (L + n) (L + n)); [|lia]. cbn [cbind]. f_equal.
    unfold slice. rewrite skipn_app, <- Hlen, skipn_all, Nat.sub_diag. cbn [app skipn].
    unfold n. rewrite firstn_all. exact He. }
  rewrite Hmc. cbn [cbind]. replace (n - n) with 0 by lia. change (0 <? 1) with true. cbv iota.
  set (d0 := (pbase p ++ e) ++ [0%N]).
  assert (Hd0 : length d0 = L + n + 1) by (unfold d0; rewrite !app_length, Hlen; cbn; lia).
  destruct (Nat.eqb_spec L 0) as [Hz|Hz].
  - (* first element *)
    cbn [cbind]. rewrite setnth_ok by lia.
    assert (Hbase : pbase p = []) by (destruct (pbase p); [reflexivity|cbn in Hlen; lia]).
    eexists. split; [reflexivity|]. cbn [cbind].
    assert (Hd : firstn (L + n) d0 ++ passign p :: skipn (S (L + n)) d0 = e ++ [passign p]).
    { unfold d0, n. rewrite Hbase, Hz. cbn [app Nat.add]. rewrite firstn_app, firstn_all, Nat.sub_diag.
      cbn [firstn]. rewrite app_nil_r. rewrite skipn_all2 by (rewrite app_length; cbn; lia). reflexivity. }
    rewrite Hd. rewrite Hz. cbn [Nat.add Nat.sub].
    assert (Hbody : body (mkpath (e ++ [passign p]) 0 (n + 1 - 0)
                      (if 255 <? n then 0 else n) false true false (psep p) (passign p)) = e).
    { unfold body, slice. cbn. replace (n + 1 - 0 - 1) with n by lia. unfold n.
      rewrite firstn_app, firstn_all, Nat.sub_diag. cbn. apply app_nil_r. }
    split.
    { split; [|split; [reflexivity|cbn; rewrite app_length; cbn; lia]].
      split; [reflexivity|]. intros _. cbn [poff plen pbase]. rewrite app_length. cbn [length]. split; [lia|].
      unfold first_ok. cbn [pfirst psep]. rewrite Hbody, (index_of_none_split _ _ He). cbn [hd].
      destruct (Nat.ltb_spec 255 n); [left|right]; reflexivity. }
    split; [reflexivity|]. split; [reflexivity|]. split; [reflexivity|]. split.
    { unfold elems at 1. cbn [plen psep]. destruct (Nat.eqb_spec (n + 1 - 0) 0); [lia|].
      rewrite Hbody. assert (Hep : elems p = []) by (apply elems_nil_iff; assumption).
      rewrite Hep. apply index_of_none_split. assumption. }
    reflexivity.
  - (* a further element: the old end position becomes a separator *)
    destruct (Hw Hz) as [Hbound Hf]. fold L in Hbound.
    cbn [cbind]. rewrite setnth_ok by lia. cbn [cbind].
    set (d1 := firstn (L - 1) d0 ++ psep p :: skipn (S (L - 1)) d0).
    assert (Hd1 : d1 = firstn (L - 1) (pbase p) ++ [psep p] ++ e ++ [0%N]).
    { unfold d1, d0. rewrite <- app_assoc. rewrite firstn_app.
      replace (L - 1 - length (pbase p)) with 0 by lia. rewrite firstn_O, app_nil_r.
      rewrite skipn_app. replace (S (L - 1) - length (pbase p)) with 0 by lia.
      rewrite skipn_all2 by lia. reflexivity. }
    assert (Hl1 : length d1 = L + n + 1).
    { rewrite Hd1, !app_length, firstn_length. cbn. lia. }
    rewrite setnth_ok by lia. eexists. split; [reflexivity|].
    assert (Hd : firstn (L + n) d1 ++ passign p :: skipn (S (L + n)) d1 =
                 (firstn (L - 1) (pbase p) ++ [psep p]) ++ e ++ [passign p]).
    { rewrite skipn_all2 by lia. rewrite Hd1.
      replace (firstn (L - 1) (pbase p) ++ [psep p] ++ e ++ [0%N])
        with ((firstn (L - 1) (pbase p) ++ [psep p] ++ e) ++ [0%N]) by (rewrite <- !app_assoc; reflexivity).
      rewrite firstn_app.
      assert (Hx : length (firstn (L - 1) (pbase p) ++ [psep p] ++ e) = L + n).
      { rewrite !app_length, firstn_length. cbn. lia. }
      rewrite Hx, Nat.sub_diag, firstn_O, app_nil_r. rewrite <- Hx, firstn_all.
      rewrite <- !app_assoc. reflexivity. }
    rewrite Hd.
    assert (Hbp : body p = firstn (L - 1) (pbase p)).
    { unfold body, slice. rewrite Hoff. reflexivity. }
    assert (Hbody : forall F kp', body (mkpath ((firstn (L - 1) (pbase p) ++ [psep p]) ++ e ++ [passign p]) 0 (L + n + 1 - 0)
                      F false true kp' (psep p) (passign p)) = body p ++ psep p :: e).
    { intros F kp'. unfold body at 1, slice. cbn [poff plen pbase skipn].
      replace (L + n + 1 - 0 - 1) with (L + n) by lia. rewrite Hbp.
      replace ((firstn (L - 1) (pbase p) ++ [psep p]) ++ e ++ [passign p])
        with ((firstn (L - 1) (pbase p) ++ psep p :: e) ++ [passign p])
        by (rewrite <- !app_assoc; reflexivity).
      rewrite firstn_app.
      assert (Hx : length (firstn (L - 1) (pbase p) ++ psep p :: e) = L + n).
      { rewrite app_length, firstn_length. cbn. lia. }
      rewrite Hx, Nat.sub_diag, firstn_O, app_nil_r. rewrite <- Hx. apply firstn_all. }
    split.
    { split; [|split; [reflexivity|cbn [pbase plen]; rewrite !app_length, firstn_length; cbn; lia]].
      split; [reflexivity|]. intros _. cbn [poff plen pbase]. split.
      - rewrite !app_length, firstn_length. cbn. lia.
      - unfold first_ok. cbn [pfirst psep]. rewrite Hbody, hd_split_snoc by assumption. exact Hf. }
    split; [reflexivity|]. split; [reflexivity|]. split; [reflexivity|]. split.
    { unfold elems. cbn [plen psep]. destruct (Nat.eqb_spec (L + n + 1 - 0) 0); [lia|].
      fold L. destruct (Nat.eqb_spec L 0); [lia|]. rewrite Hbody. apply split_snoc. assumption. }
    reflexivity.
Qed.

(* building a whole path *)
Fixpoint build (p : path) (es : list (list byte)) : cres path :=
  match es with
  | [] => Done p
  | e :: r => let* p' := path_add (path_post p e) (length e) in build p' r
  end.

Lemma build_spec : forall es p, tight p -> (parr p = true \/ hd [] es <> []) ->
  Forall (nosep (psep p)) es ->
  exists p', build p es = Done p' /\ tight p' /\ elems p' = elems p ++ es /\ psep p' = psep p.
Proof.
  induction es as [|e es IH]; intros p Ht Ha Hf.
  - exists p. rewrite app_nil_r. split; [reflexivity|]. split; [assumption|]. split; reflexivity.
  - inversion Hf; subst. cbn [hd] in Ha.
    destruct (path_add_step p e Ht Ha H1) as (p1 & Hadd & Ht1 & Ha1 & Hs1 & _ & He1 & _).
    cbn [build]. rewrite Hadd. cbn [cbind].
    destruct (IH p1 Ht1 (or_introl Ha1)) as (p' & Hb & Ht' & He' & Hs'); [rewrite Hs1; assumption|].
    exists p'. split; [assumption|]. split; [assumption|]. split; [|congruence].
    rewrite He', He1, <- app_assoc. reflexivity.
Qed.

(* from the empty path: the walk gives back exactly the elements put in *)
Lemma path_rebuild sep assign es :
  es <> [] -> hd [] es <> [] -> Forall (nosep sep) es ->
  exists p, build (path_init sep assign) es = Done p /\ pwf p /\ elems p = es /\ pwalk p = Done es.
Proof.
  intros Hne Hhd Hf.
  assert (Ht : tight (path_init sep assign)).
  { split; [|split; reflexivity]. split; [reflexivity|]. cbn. congruence. }
  destruct (build_spec es (path_init sep assign) Ht (or_intror Hhd) Hf) as (p & Hb & (Hw & Ho & Hl) & He & _).
  exists p. split; [assumption|]. split; [assumption|]. cbn in He. split; [assumption|].
  unfold pwalk. rewrite path_walk_spec by (assumption || lia). rewrite He. reflexivity.
Qed.
