(* C10/ConfigModel.v — executable mechanism model of the configuration store.
   NO proofs in this file (it must extract and run when a proof breaks).

   Transcribed (as they are after the fix: commits of branch verif-C10):
     mptcore/config/path_set.c path_next.c path_last.c path_add.c path_del.c
     mptcore/config/node_query.c node_assign.c config_global.c config_set.c config_get.c
     mptcore/config/config_item_query.c config_item_reserve.c, mpt++/config.cpp (config::root, the
       wrappers config::set / get / del, path::clear_data; at the end of this file)
     mptcore/node/node_locate.c (forward search, default charset), mptcore/meta/meta_set.c meta_new.c

   Conventions: bytes are [N]; offsets and lengths are [nat]; the 8-bit [first]
   field is a [nat] that is reduced [mod 256] wherever the C stores an int/size_t
   into it; every read of path bytes is bounds checked ([MemFault]).  A size_t
   subtraction that would wrap ([path->len -= skip] with skip > len) is reported
   as [MemFault] at the point of the wrap (every later access would be wild).
   The node tree is a pure ordered forest (link-level soundness is C14's subject);
   a "node pointer" is a trail of child indices. *)
From MptV Require Import Base.Mem.
Local Open Scope nat_scope.

Inductive cres (A : Type) :=
| Done (a : A)
| Fail (e : err)
| MemFault          (* access outside the modelled storage / wrapped size *)
| OutOfFuel.        (* never a normal result; excluded by every theorem *)
Arguments Done {A} a.
Arguments Fail {A} e.
Arguments MemFault {A}.
Arguments OutOfFuel {A}.

Definition cbind {A B} (r : cres A) (f : A -> cres B) : cres B :=
  match r with Done a => f a | Fail e => Fail e | MemFault => MemFault | OutOfFuel => OutOfFuel end.
Notation "'let*' x := r 'in' k" := (cbind r (fun x => k))
  (at level 200, x pattern, r at level 100, k at level 200).

Definition beq (a b : byte) : bool := N.eqb a b.

Fixpoint bytes_eqb (a b : list byte) : bool :=
  match a, b with
  | [], [] => true
  | x :: a', y :: b' => beq x y && bytes_eqb a' b'
  | _, _ => false
  end.

(* ------------------------------------------------------------------ paths *)

Record path := mkpath {
  pbase : list byte;   (* bytes reachable from [base]; with HasArray: the buffer content [0,_used) *)
  poff : nat;
  plen : nat;
  pfirst : nat;        (* uint8_t first *)
  pbin : bool;         (* MPT_PATHFLAG(SepBinary) *)
  parr : bool;         (* MPT_PATHFLAG(HasArray) *)
  pkeep : bool;        (* MPT_PATHFLAG(KeepPost) *)
  psep : byte;
  passign : byte }.

Definition u8 (n : nat) : nat := n mod 256.

Definition path_init (sep assign : byte) : path := mkpath [] 0 0 0 false false false sep assign.

Definition rdb (m : list byte) (i : nat) : cres byte :=
  match nth_error m i with Some b => Done b | None => MemFault end.

Definition rdn (m : list byte) (i n : nat) : cres (list byte) :=
  if i + n <=? length m then Done (slice i n m) else MemFault.

(* position of the first byte equal to [c] *)
Fixpoint index_of (c : byte) (l : list byte) : option nat :=
  match l with
  | [] => None
  | b :: l' => if beq b c then Some 0 else option_map S (index_of c l')
  end.

(* memchr(base + i, c, n) *)
Definition memchr (m : list byte) (i n : nat) (c : byte) : cres (option nat) :=
  let* d := rdn m i n in Done (index_of c d).

(* the loop of mpt_path_set over val[0..n) *)
Fixpoint pscan (l : list byte) (n plen elem first : nat) (sep assign : byte) {struct n}
  : cres (nat * nat * nat * bool) :=
  match n with
  | 0 => Done (plen, elem, first, false)
  | S n' =>
    match l with
    | [] => MemFault
    | c :: l' =>
      if beq c assign then Done (S plen, S elem, first, true)
      else if beq c sep then pscan l' n' (S plen) (S elem) (if elem =? 0 then plen else first) sep assign
      else pscan l' n' (S plen) elem first sep assign
    end
  end.

(* mpt_path_set(path, val, len): [mem] = the bytes readable at val (None = NULL),
   [len] = None for a negative length (strlen(val) + 1).  Returns path and element count. *)
Definition path_set (p : path) (mem : option (list byte)) (len : option nat) : cres (path * nat) :=
  match mem with
  | None => Done (mkpath [] 0 0 0 false false false (psep p) (passign p), 0)
  | Some m =>
    let* vlen := match len with
                 | Some n => Done n
                 | None => match index_of 0%N m with Some k => Done (k + 1) | None => MemFault end
                 end in
    let* (pl, elem, first, found) := pscan m vlen 0 0 0 (psep p) (passign p) in
    let add := if found then 0 else match len with None => 0 | Some _ => 1 end in
    Done (mkpath m 0 (pl + add) (if 255 <? first then 0 else first) false false false (psep p) (passign p), elem)
  end.

(* mpt_path_next: returns the removed element length *)
Definition path_next (p : path) : cres (nat * path) :=
  if plen p =? 0 then Fail MissingData
  else
    let data := poff p in
    let* (len, skip, first) :=
      if pbin p then
        let len := pfirst p in
        let* nx := rdb (pbase p) (data + len + 1) in
        Done (len, len + 2, N.to_nat nx)
      else if negb (pfirst p =? 0) then
        Done (pfirst p, pfirst p + 1, 0)
      else
        let* e := memchr (pbase p) data (plen p - 1) (psep p) in
        let skip := match e with Some k => k + 1 | None => plen p end in
        Done (skip - 1, skip, 0)
    in
    if plen p <? skip then MemFault
    else Done (len, mkpath (pbase p) (poff p + skip) (plen p - skip) first
                           (pbin p) (parr p) (pkeep p) (psep p) (passign p)).

(* backward scan of mpt_path_last / mpt_path_del: [pos] bytes are left before the
   scanned one, [k] = absolute index of the byte examined next *)
Fixpoint back_scan (m : list byte) (sep : byte) (pos : nat) (len : nat) : cres (nat * nat) :=
  match pos with
  | 0 => Done (0, len)
  | S pos' =>
    let* b := rdb m pos' in   (* caller passes m already shifted by off *)
    if beq b sep then Done (pos, len) else back_scan m sep pos' (S len)
  end.

(* mpt_path_last: reduce the path to its last element *)
Definition path_last (p : path) : cres (nat * path) :=
  let pos := plen p in
  if pos =? 0 then Fail EInval
  else if pbin p then
    if pos <? 2 then Fail EInval else
    let* b := rdb (pbase p) (poff p + pos - 2) in
    let len := N.to_nat b in
    if pos <? len + 2 then Fail EInval
    else
      let pos := pos - len - 2 in
      Done (len, mkpath (pbase p) (poff p + pos) (len + 2) (u8 len)
                        (pbin p) (parr p) (pkeep p) (psep p) (passign p))
  else
    (* data = base + off + (pos - 1) - 1, scanning down while pos != 0 *)
    let* (pos', len) := back_scan (skipn (poff p) (pbase p)) (psep p) (pos - 1) 0 in
    Done (len, mkpath (pbase p) (poff p + pos') (len + 1) (if 255 <? len then 0 else len)
                      (pbin p) (parr p) (pkeep p) (psep p) (passign p)).

(* the scan of mpt_path_del (separator mode): while (--len && *data != sep) *)
Fixpoint del_scan (m : list byte) (sep : byte) (len part : nat) : cres (nat * nat) :=
  match len with
  | 0 => Done (0, part)
  | S len' =>
    (* len = value after --len; byte examined: index len - 1 relative to off *)
    let* b := rdb m len' in
    if beq b sep then Done (len, part) else del_scan m sep len' (S part)
  end.

Definition setnth (m : list byte) (i : nat) (b : byte) : cres (list byte) :=
  if i <? length m then Done (firstn i m ++ b :: skipn (S i) m) else MemFault.

(* mpt_path_del: remove the last element (and post data) *)
Definition path_del (p : path) : cres (nat * path) :=
  let len := plen p in
  if len =? 0 then Fail MissingData
  else
    let pos := len + poff p in
    let* (len', part) :=
      if pbin p then
        if len <? 2 then Fail BadValue else
        let* b := rdb (pbase p) (pos - 2) in
        let part := N.to_nat b in
        if len <=? part then Fail BadValue else
        if len <? part + 2 then MemFault (* size_t wrap *) else
        let len' := len - (part + 2) in
        let pos' := len' + poff p in
        let* chk := if pos' =? 0 then Done (pfirst p)
                    else let* c := rdb (pbase p) (pos' - 1) in Done (N.to_nat c) in
        if part =? chk then Done (len', part) else Fail BadOperation
      else
        del_scan (skipn (poff p) (pbase p)) (psep p) (len - 1) 0
    in
    let* base' :=
      if parr p then
        if length (pbase p) <? poff p + len' then Fail BadValue
        else Done (firstn (poff p + len') (pbase p))      (* _used = off + len *)
      else Done (pbase p) in
    Done (part, mkpath base' (poff p) len' (if len' =? 0 then 0 else pfirst p)
                       (pbin p) (parr p) false (psep p) (passign p)).

(* mpt_path_add(path, add): the first [add] post bytes become a new element.  A path without
   array (set from the caller's string) takes the [add] bytes that follow it in that string and is
   copied with them into a new array, which is the path's from then on: HasArray is set AS PATCHED
   by docs/C10_path_add_hasarray.diff (the unpatched code left the flag clear: the array was never
   released and a second add read the bytes behind its used part) *)
Definition path_add (p : path) (add : nat) : cres path :=
  (* base == NULL: an initialised or NULL-set path that never got an array *)
  if negb (parr p) && (length (pbase p) =? 0) then Fail MissingBuffer else
  let len := poff p + plen p in
  let* (pre, post) :=
    if parr p then
      if length (pbase p) <? len then MemFault
      else let post := length (pbase p) - len in
           if post <? add then Fail BadValue else Done (0, post - add)
    else Done (len + add, 0) in
  if pbin p then
    if 255 <? add then Fail BadValue else
    (* need two more bytes *)
    let* data :=
      if post <? 2 then
        if parr p then Done (pbase p ++ repeat 0%N (2 - post))
        else let* d := rdn (pbase p) 0 pre in Done (d ++ [0%N; 0%N])
      else Done (pbase p) in
    let* data := if len =? 0 then Done data else setnth data (len - 1) (N.of_nat add) in
    let first := if plen p =? 0 then u8 add else pfirst p in
    let* data := setnth data (len + add) (N.of_nat add) in
    let* data := setnth data (len + add + 1) 0%N in
    Done (mkpath data (poff p) (len + add + 2 - poff p) first (pbin p) true false (psep p) (passign p))
  else
    let* e := memchr (pbase p) len add (psep p) in
    match e with
    | Some _ => Fail BadValue
    | None =>
      let* data :=
        if post <? 1 then
          if parr p then Done (pbase p ++ [0%N])
          else let* d := rdn (pbase p) 0 pre in Done (d ++ [0%N])
        else Done (pbase p) in
      let* (data, first) :=
        if len =? 0 then Done (data, if 255 <? add then 0 else add)
        else let* d := setnth data (len - 1) (psep p) in Done (d, pfirst p) in
      let* data := setnth data (len + add) (passign p) in
      Done (mkpath data (poff p) (len + add + 1 - poff p) first (pbin p) true false (psep p) (passign p))
    end.

(* post data is appended by the caller (mpt_path_addchar + mpt_path_valid per byte,
   the parser's business); here it is one step *)
Definition path_post (p : path) (d : list byte) : path :=
  match d with
  | [] => p
  | _ =>
    (* without HasArray the first addchar copies the off + len path bytes into a new buffer *)
    let b := if parr p then pbase p else firstn (poff p + plen p) (pbase p) in
    mkpath (b ++ d) (poff p) (plen p) (pfirst p) (pbin p) true true (psep p) (passign p)
  end.

(* walk a path with mpt_path_next until it reports MissingData: the element byte strings *)
Fixpoint path_walk (fuel : nat) (p : path) : cres (list (list byte)) :=
  match fuel with
  | 0 => OutOfFuel
  | S fuel =>
    match path_next p with
    | Fail _ => Done []
    | MemFault => MemFault
    | OutOfFuel => OutOfFuel
    | Done (len, p') =>
      let* e := rdn (pbase p) (poff p) len in
      let* r := path_walk fuel p' in Done (e :: r)
    end
  end.

(* ------------------------------------------------------------ values, names *)

Definition value := list byte.

Definition align8 (x : nat) : nat := x + 7 - ((x - 1) mod 8).

(* _mpt_geninfo_size(post) *)
Definition geninfo_size (post : nat) : option nat :=
  let post := post + 4 + 1 in
  if 255 <? post then None
  else let al := align8 post in Some (if al <? 255 then al else post).

(* mpt_meta_new for text: small values in a "geninfo" metatype (8-bit total size),
   anything that does not fit in a text buffer metatype; both hand the text back *)
Definition meta_new (v : value) : option value :=
  match geninfo_size (length v + 1) with
  | None => Some v                                  (* buffer-backed text *)
  | Some sz => if length v <? sz - 4 then Some v else None   (* _mpt_geninfo_set needs len < size *)
  end.

(* text of up to 249 bytes is held by the basic metatype, longer text by a buffer metatype *)
Definition fits_basic (v : value) : bool :=
  match geninfo_size (length v + 1) with Some _ => true | None => false end.

(* mpt_meta_set on a text / empty / default metatype: replace, old one kept on failure.
   Without value (val == NULL) the old metatype is first asked for an iterator to rewind:
   the basic metatype has none and is replaced by mpt_metatype_default() (no text); the
   buffer metatype that holds long text IS an iterator over that text, it is rewound and
   STAYS (the same branch rewinds the argument list mpt_init stores at mpt.args) *)
Definition meta_set (old : option value) (val : option value) : option (option value) :=
  match val with
  | None => match old with
            | Some v => if fits_basic v then Some None else Some old
            | None => Some None
            end
  | Some v => match meta_new v with Some v' => Some (Some v') | None => None end
  end.

(* mpt_identifier_set(id, name, len) with a name: stored length len + 1 must fit 16 bit *)
Definition ident_max : nat := 65534.
Definition ident_set (nm : list byte) : option (list byte) :=
  if ident_max <? length nm then None else Some nm.

(* ------------------------------------------------------------ node tree *)

Inductive node := Node (nname : list byte) (nval : option value) (nkids : list node).

Definition nname' (n : node) := match n with Node a _ _ => a end.
Definition nval' (n : node) := match n with Node _ v _ => v end.
Definition nkids' (n : node) := match n with Node _ _ k => k end.

Definition trail := list nat.

(* restore of mpt_node_query on a miss: off and len only *)
Definition restore (saved p : path) : path :=
  mkpath (pbase p) (poff saved) (plen saved) (pfirst p) (pbin p) (parr p) (pkeep p) (psep p) (passign p).

(* mpt_node_query(conf, path) for a non-empty list [conf] and path->len != 0:
   deepest node matching a prefix of the path (as trail) and the remaining path *)
Fixpoint query_kids (nd : node) (p : path) {struct nd} : cres (option trail * path) :=
  match path_next p with
  | Fail _ => Done (None, p)
  | MemFault => MemFault
  | OutOfFuel => OutOfFuel
  | Done (clen, p') =>
    match rdn (pbase p) (poff p) clen with
    | Fail e => Fail e
    | MemFault => MemFault
    | OutOfFuel => OutOfFuel
    | Done nm =>
    (fix loc (l : list node) (i : nat) {struct l} : cres (option trail * path) :=
       match l with
       | [] => Done (None, restore p p')
       | k :: l' =>
         if bytes_eqb (nname' k) nm then
           match nkids' k with
           | [] => Done (Some [i], p')
           | _ =>
             match query_kids k p' with
             | Done (None, p'') => Done (Some [i], p'')
             | Done (Some t, p'') => Done (Some (i :: t), p'')
             | r => r
             end
           end
         else loc l' (S i)
       end) (nkids' nd) 0
    end
  end.

(* the list [conf] seen as the children of an anonymous root *)
Definition query_in (conf : list node) (p : path) : cres (option trail * path) :=
  query_kids (Node [] None conf) p.

Definition node_query (conf : list node) (p : path) : cres (option trail * path) :=
  match conf with
  | [] => Done (None, p)
  | _ => if plen p =? 0 then Done (None, p) else query_in conf p
  end.

(* pointer-like access by trail *)
Fixpoint node_at (f : list node) (t : trail) : option node :=
  match t with
  | [] => None
  | i :: t' =>
    match nth_error f i with
    | None => None
    | Some n => match t' with [] => Some n | _ => node_at (nkids' n) t' end
    end
  end.

Fixpoint upd_nth {A} (l : list A) (i : nat) (g : A -> A) : list A :=
  match l, i with
  | [], _ => []
  | x :: l', 0 => g x :: l'
  | x :: l', S i' => x :: upd_nth l' i' g
  end.

Fixpoint del_nth {A} (l : list A) (i : nat) : list A :=
  match l, i with
  | [], _ => []
  | _ :: l', 0 => l'
  | x :: l', S i' => x :: del_nth l' i'
  end.

(* apply [g] to the node at the trail *)
Fixpoint upd_at (f : list node) (t : trail) (g : node -> node) : list node :=
  match t with
  | [] => f
  | [i] => upd_nth f i g
  | i :: t' => upd_nth f i (fun n => Node (nname' n) (nval' n) (upd_at (nkids' n) t' g))
  end.

(* unlink and destroy the node at the trail (with everything beneath) *)
Fixpoint remove_at (f : list node) (t : trail) : list node :=
  match t with
  | [] => f
  | [i] => del_nth f i
  | i :: t' => upd_nth f i (fun n => Node (nname' n) (nval' n) (remove_at (nkids' n) t'))
  end.

(* the creation loop of mpt_node_assign: a chain of new nodes for the remaining
   elements; the chain is linked top down, so an identifier that cannot be stored
   leaves the nodes created so far (without value) behind.
   Result: chain (if at least one node was linked), completed?, trail inside the chain *)
Fixpoint mkchain (fuel : nat) (p : path) (mt : option value) : cres (option node * bool) :=
  match fuel with
  | 0 => OutOfFuel
  | S fuel =>
    match path_next p with
    | Fail _ => Done (None, false)
    | MemFault => MemFault
    | OutOfFuel => OutOfFuel
    | Done (clen, p') =>
      let* nm := rdn (pbase p) (poff p) clen in
      match ident_set nm with
      | None => Done (None, false)
      | Some n =>
        if plen p' =? 0 then Done (Some (Node n mt []), true)
        else
          let* (sub, ok) := mkchain fuel p' mt in
          Done (Some (Node n None (match sub with Some c => [c] | None => [] end)), ok)
      end
    end
  end.

Fixpoint chain_trail (c : node) : trail :=
  match c with
  | Node _ _ [] => [0]
  | Node _ _ (k :: _) => 0 :: chain_trail k
  end.

(* mpt_node_assign(&base, dest, val): new forest and the trail of the (new/changed)
   element, None when the C returns 0 *)
Definition node_assign (f : list node) (dest : path) (val : option value)
  : cres (list node * option trail) :=
  let* (q, p) := node_query f dest in
  let create (t : option trail) :=
    (* base = &conf->children or the list itself *)
    match (match val with None => Some None | Some v => option_map Some (meta_new v) end) with
    | None => Done (f, None)
    | Some mt =>
      let* (ch, ok) := mkchain (S (plen p)) p mt in
      match ch with
      | None => Done (f, None)
      | Some c =>
        match t with
        | None =>
          let f' := f ++ [c] in
          Done (f', if ok then Some (length f :: tl (chain_trail c)) else None)
        | Some tr =>
          match node_at f tr with
          | None => MemFault
          | Some nd =>
            let k := length (nkids' nd) in
            let f' := upd_at f tr (fun n => Node (nname' n) (nval' n) (nkids' n ++ [c])) in
            Done (f', if ok then Some (tr ++ k :: tl (chain_trail c)) else None)
          end
        end
      end
    end in
  match q with
  | Some tr =>
    if plen p =? 0 then
      match node_at f tr with
      | None => MemFault
      | Some nd =>
        match meta_set (nval' nd) val with
        | None => Done (f, None)
        | Some v' => Done (upd_at f tr (fun n => Node (nname' n) v' (nkids' n)), Some tr)
        end
      end
    else create (Some tr)
  | None => create None
  end.

(* ------------------------------------------------------------ config_global.c *)

(* make_global(dest): get or create the node of a sub-tree view's base path *)
Definition make_global (g : list node) (dest : path) : cres (list node * option trail) :=
  let* (q, p) := node_query g dest in
  match q with
  | None => node_assign g dest None
  | Some tr =>
    if plen p =? 0 then Done (g, Some tr)
    else
      match node_at g tr with
      | None => MemFault
      | Some nd =>
        let* (kids', t2) := node_assign (nkids' nd) p None in
        let g' := upd_at g tr (fun n => Node (nname' n) (nval' n) kids') in
        Done (g', match t2 with Some t => Some (tr ++ t) | None => None end)
      end
  end.

(* result classes of the three interface calls *)
Inductive rc := RcOk | RcRefused | RcRemoved | RcNotFound | RcCleared.

(* configAssign(cfg, path, val) with val != NULL; [base] = configRoot.base (len 0: the global one) *)
Definition cfg_assign (g : list node) (base p : path) (v : value) : cres (list node * rc) :=
  if plen base =? 0 then
    if plen p =? 0 then Done (g, RcRefused)
    else
      let* (g', r) := node_assign g p (Some v) in
      Done (g', match r with Some _ => RcOk | None => RcRefused end)
  else
    let* (g1, tb) := make_global g base in
    match tb with
    | None => Done (g1, RcRefused)
    | Some tb =>
      match node_at g1 tb with
      | None => MemFault
      | Some nd =>
        if plen p =? 0 then
          match meta_set (nval' nd) (Some v) with
          | None => Done (g1, RcRefused)
          | Some v' => Done (upd_at g1 tb (fun n => Node (nname' n) v' (nkids' n)), RcOk)
          end
        else
          let* (kids', r) := node_assign (nkids' nd) p (Some v) in
          Done (upd_at g1 tb (fun n => Node (nname' n) (nval' n) kids'),
                match r with Some _ => RcOk | None => RcRefused end)
      end
    end.

(* configRemove(cfg, path), path != NULL *)
Definition cfg_remove (g : list node) (base p : path) : cres (list node * rc) :=
  match g with
  | [] => Done (g, RcRefused)
  | _ =>
    if plen base =? 0 then
      if plen p =? 0 then Done ([], RcCleared)
      else
        let* (q, p') := node_query g p in
        match q with
        | Some tr => if plen p' =? 0 then Done (remove_at g tr, RcRemoved) else Done (g, RcNotFound)
        | None => Done (g, RcNotFound)
        end
    else
      let* (qb, pb) := node_query g base in
      match qb with
      | None => Done (g, RcNotFound)
      | Some tb =>
        if negb (plen pb =? 0) then Done (g, RcNotFound)
        else
          match node_at g tb with
          | None => MemFault
          | Some nd =>
            if plen p =? 0 then
              Done (upd_at g tb (fun n => Node (nname' n) (nval' n) []), RcCleared)
            else
              let* (q, p') := node_query (nkids' nd) p in
              match q with
              | Some tr =>
                if plen p' =? 0 then Done (remove_at g (tb ++ tr), RcRemoved) else Done (g, RcNotFound)
              | None => Done (g, RcNotFound)
              end
          end
      end
  end.

(* what a query reports: absent / present without text / present with text *)
Inductive entry := Absent | Exists (v : option value).

(* configQuery(cfg, path, ...) *)
Definition cfg_query (g : list node) (base p : path) : cres entry :=
  let* (found, n, mt) :=
    if plen base =? 0 then Done (true, g, None)
    else
      let* (q, pb) := node_query g base in
      match q with
      | None => Done (false, [], None)
      | Some tb =>
        if negb (plen pb =? 0) then Done (false, [], None)
        else match node_at g tb with
             | None => MemFault
             | Some nd => Done (true, nkids' nd, nval' nd)
             end
      end in
  if negb found then Done Absent
  else if plen p =? 0 then Done (Exists mt)
  else
    let* (q, p') := node_query n p in
    match q with
    | None => Done Absent
    | Some tr =>
      if negb (plen p' =? 0) then Done Absent
      else match node_at n tr with
           | None => MemFault
           | Some nd => Done (Exists (nval' nd))
           end
    end.

(* mpt_config_set / mpt_config_get build the path from a C string:
   mpt_path_set(&where, str, -1) with where.sep = sep, where.assign = end *)
Definition str_path (s : option (list byte)) (sep en : byte) : cres path :=
  let* (p, _) := path_set (path_init sep en)
                           (match s with Some b => Some (b ++ [0%N]) | None => None end) None in
  Done p.

(* ------------------------------------------------- config_item arrays (C++ root) *)

(* one slot of a unique_array<config_item>: identifier (None = unused, _len == 0),
   value, sub-elements.  Only the slots below _used are part of the model: after
   the fix the code never looks beyond them. *)
Inductive item := Item (iname : option (list byte)) (ival : option value) (ielems : list item).

Definition iname' (x : item) := match x with Item a _ _ => a end.
Definition ival' (x : item) := match x with Item _ v _ => v end.
Definition ielems' (x : item) := match x with Item _ _ e => e end.

(* mpt_identifier_compare(&item->identifier, name, len) == 0 for a used item *)
Definition item_match (x : item) (nm : list byte) : bool :=
  match iname' x with None => false | Some n => bytes_eqb n nm end.

(* mpt_config_item_query(arr, path): trail of the matching item *)
Fixpoint item_query_in (x : item) (p : path) {struct x} : cres (option trail) :=
  match ielems' x with
  | [] => Done None                  (* !arr->_buf (or nothing used) *)
  | _ =>
    match path_next p with
    | Fail _ => Done None
    | MemFault => MemFault
    | OutOfFuel => OutOfFuel
    | Done (len, p') =>
      match rdn (pbase p) (poff p) len with
      | Fail e => Fail e
      | MemFault => MemFault
      | OutOfFuel => OutOfFuel
      | Done nm =>
      (fix scan (l : list item) (i : nat) {struct l} : cres (option trail) :=
         match l with
         | [] => Done None
         | y :: l' =>
           if item_match y nm then
             if negb (plen p' =? 0) then
               match item_query_in y p' with
               | Done r => Done (option_map (cons i) r)
               | r => r
               end
             else Done (Some [i])
           else scan l' (S i)
         end) (ielems' x) 0
      end
    end
  end.

Definition item_query (arr : list item) (p : path) : cres (option trail) :=
  item_query_in (Item None None arr) p.

Fixpoint item_at (a : list item) (t : trail) : option item :=
  match t with
  | [] => None
  | i :: t' =>
    match nth_error a i with
    | None => None
    | Some x => match t' with [] => Some x | _ => item_at (ielems' x) t' end
    end
  end.

Fixpoint iupd_at (a : list item) (t : trail) (g : item -> item) : list item :=
  match t with
  | [] => a
  | [i] => upd_nth a i g
  | i :: t' => upd_nth a i (fun x => Item (iname' x) (ival' x) (iupd_at (ielems' x) t' g))
  end.

(* index of the first unused slot *)
Fixpoint first_unused (l : list item) (i : nat) : option nat :=
  match l with
  | [] => None
  | x :: l' => match iname' x with None => Some i | Some _ => first_unused l' (S i) end
  end.

(* mpt_config_item_reserve(arr, path): new array, trail of the reserved item (None: C returns 0) *)
Fixpoint item_reserve (fuel : nat) (arr : list item) (p : path) {struct fuel}
  : cres (list item * option trail) :=
  match fuel with
  | 0 => OutOfFuel
  | S fuel =>
    match path_next p with
    | Fail _ => Done (arr, None)
    | MemFault => MemFault
    | OutOfFuel => OutOfFuel
    | Done (len, p') =>
      let* nm := rdn (pbase p) (poff p) len in
      let fresh (slot : nat) (arr' : list item) :=
        (* identifier set on the slot, then the rest of the path below it *)
        match ident_set nm with
        | None => Done (arr', None)
        | Some n =>
          let arr2 := upd_nth arr' slot (fun _ => Item (Some n) None []) in
          if negb (plen p' =? 0) then
            let* (sub, t) := item_reserve fuel [] p' in
            Done (upd_nth arr2 slot (fun x => Item (iname' x) (ival' x) sub), option_map (cons slot) t)
          else Done (arr2, Some [slot])
        end in
      (fix scan (l : list item) (i : nat) {struct l} : cres (list item * option trail) :=
         match l with
         | [] =>
           match first_unused arr 0 with
           | None => fresh (length arr) (arr ++ [Item None None []])   (* new slot at _used *)
           | Some u =>
             (* recycle: drop old value and ALL old sub-elements *)
             fresh u (upd_nth arr u (fun x => Item None None []))
           end
         | x :: l' =>
           if item_match x nm then
             if negb (plen p' =? 0) then
               let* (sub, t) := item_reserve fuel (ielems' x) p' in
               Done (upd_nth arr i (fun y => Item (iname' y) (ival' y) sub), option_map (cons i) t)
             else Done (arr, Some [i])
           else scan l' (S i)
         end) arr 0
    end
  end.

(* config::root::assign(dest, val) with a text value (metatype::create never fails for text) *)
Definition root_assign (a : list item) (p : path) (v : value) : cres (list item * rc) :=
  if plen p =? 0 then Done (a, RcRefused)
  else
    let* (a', t) := item_reserve (S (plen p)) a p in
    match t with
    | None => Done (a', RcRefused)
    | Some tr => Done (iupd_at a' tr (fun x => Item (iname' x) (Some v) (ielems' x)), RcOk)
    end.

(* config::root::remove(dest) *)
Definition root_remove (a : list item) (p : path) : cres (list item * rc) :=
  if plen p =? 0 then Done ([], RcCleared)
  else
    let* t := item_query a p in
    match t with
    | None => Done (a, RcNotFound)
    | Some tr => Done (iupd_at a tr (fun _ => Item None None []), RcRemoved)
    end.

(* the raw "lazy" removal used by the item-array harness: only the identifier is
   cleared (the slot is unused; its value and sub-elements stay until it is recycled) *)
Definition root_drop (a : list item) (p : path) : cres (list item * rc) :=
  if plen p =? 0 then Done (a, RcRefused)
  else
    let* t := item_query a p in
    match t with
    | None => Done (a, RcNotFound)
    | Some tr => Done (iupd_at a tr (fun x => Item None (ival' x) (ielems' x)), RcRemoved)
    end.

(* config::root::query(dest, ...) *)
Definition root_query (a : list item) (p : path) : cres entry :=
  let* t := item_query a p in
  match t with
  | None => Done Absent
  | Some tr => match item_at a tr with
               | None => MemFault
               | Some x => Done (Exists (ival' x))
               end
  end.

(* ------------------------------------------------------------ histories *)

(* which store handle an operation goes through: the global one or a sub-tree view *)
Inductive cop :=
| CAssign (base p : path) (v : value)
| CRemove (base p : path)
| CQuery (base p : path).

Inductive cout := OutRc (r : rc) | OutEntry (e : entry) | OutFault | OutFuel.

Definition cstep (g : list node) (o : cop) : list node * cout :=
  match o with
  | CAssign b p v =>
    match cfg_assign g b p v with
    | Done (g', r) => (g', OutRc r) | Fail _ => (g, OutRc RcRefused)
    | MemFault => (g, OutFault) | OutOfFuel => (g, OutFuel) end
  | CRemove b p =>
    match cfg_remove g b p with
    | Done (g', r) => (g', OutRc r) | Fail _ => (g, OutRc RcRefused)
    | MemFault => (g, OutFault) | OutOfFuel => (g, OutFuel) end
  | CQuery b p =>
    match cfg_query g b p with
    | Done e => (g, OutEntry e) | Fail _ => (g, OutEntry Absent)
    | MemFault => (g, OutFault) | OutOfFuel => (g, OutFuel) end
  end.

Fixpoint crun (g : list node) (ops : list cop) : list cout * list node :=
  match ops with
  | [] => ([], g)
  | o :: r => let '(g', out) := cstep g o in let '(outs, gf) := crun g' r in (out :: outs, gf)
  end.

Inductive rop :=
| RAssign (p : path) (v : value)
| RRemove (p : path)
| RDrop (p : path)
| RQuery (p : path).

Definition rstep (a : list item) (o : rop) : list item * cout :=
  let wrap (r : cres (list item * rc)) :=
    match r with
    | Done (a', r) => (a', OutRc r) | Fail _ => (a, OutRc RcRefused)
    | MemFault => (a, OutFault) | OutOfFuel => (a, OutFuel) end in
  match o with
  | RAssign p v => wrap (root_assign a p v)
  | RRemove p => wrap (root_remove a p)
  | RDrop p => wrap (root_drop a p)
  | RQuery p =>
    match root_query a p with
    | Done e => (a, OutEntry e) | Fail _ => (a, OutEntry Absent)
    | MemFault => (a, OutFault) | OutOfFuel => (a, OutFuel) end
  end.

Fixpoint rrun (a : list item) (ops : list rop) : list cout * list item :=
  match ops with
  | [] => ([], a)
  | o :: r => let '(a', out) := rstep a o in let '(outs, af) := rrun a' r in (out :: outs, af)
  end.

(* mpt_path_invalidate() (cxx = false) / mpt::path::clear_data() (cxx = true): the post
   data behind the path is dropped; the C function also clears KeepPost, the C++ method
   only cuts the array (content::set_length) *)
Definition path_clear (cxx : bool) (p : path) : cres path :=
  if parr p then
    if length (pbase p) <? poff p + plen p then Fail BadValue
    else Done (mkpath (firstn (poff p + plen p) (pbase p)) (poff p) (plen p) (pfirst p)
                      (pbin p) (parr p) (if cxx then pkeep p else false) (psep p) (passign p))
  else Done p.

(* ------------------------------------------------------------ path histories *)
Inductive pop :=
| PSet (s : option (list byte)) (len : option nat)   (* the string lives in a buffer of its bytes + NUL *)
| PNext | PLast | PDel
| PAdd (n : nat)
| PPost (d : list byte)
| PBin                                               (* path.flags |= SepBinary *)
| PClear (cxx : bool)                                (* mpt_path_invalidate / path::clear_data *)
| PCopy                                              (* mpt::path copy construction / assignment: the copy is used from here on *)
| PSep (sep asg : option byte).                      (* mpt::path::set(str, len, sep, assign): a value >= 0 replaces the field *)

Inductive pret := RNum (n : nat) | RErr (e : err) | RFault | RFuel.

Definition pwrap (p : path) (r : cres (nat * path)) : path * pret :=
  match r with
  | Done (n, p') => (p', RNum n)
  | Fail e => (p, RErr e)
  | MemFault => (p, RFault)
  | OutOfFuel => (p, RFuel)
  end.

Definition pstep (p : path) (o : pop) : path * pret :=
  match o with
  | PSet s len =>
    pwrap p (let* (p', n) := path_set p (option_map (fun b => b ++ [0%N]) s) len in Done (n, p'))
  | PNext => pwrap p (path_next p)
  | PLast => pwrap p (path_last p)
  | PDel => pwrap p (path_del p)
  | PAdd n => pwrap p (let* p' := path_add p n in Done (0, p'))
  | PPost d => (path_post p d, RNum 0)
  | PBin => (mkpath (pbase p) (poff p) (plen p) (pfirst p) true (parr p) (pkeep p) (psep p) (passign p), RNum 0)
  | PClear cxx => pwrap p (let* p' := path_clear cxx p in Done (0, p'))
  | PCopy => (p, RNum 0)                             (* memcpy of the struct, one more reference on the array *)
  | PSep sep asg =>
    (mkpath (pbase p) (poff p) (plen p) (pfirst p) (pbin p) (parr p) (pkeep p)
            (match sep with Some c => c | None => psep p end)
            (match asg with Some c => c | None => passign p end), RNum 0)
  end.

Definition pwalk (p : path) : cres (list (list byte)) := path_walk (S (plen p)) p.

(* ==========================================================================
   The interface as callers use it: mptcore/config/config_get.c (mpt_config_query,
   mpt_config_getp, mpt_config_get), config_set.c (mpt_config_set), the metatype side
   of config_global.c (conversion to a node pointer, the collection handed to a query
   handler) and the wrappers of mpt++/config.cpp (config::set / get / del,
   config::root::query(NULL), config::root::assign(path, NULL), mpt::path::clear_data).
   All of them are thin compositions of the operations above.
   ========================================================================== *)

(* requested conversion: type 0 (existence only, no handler), 's', vector of char,
   TypeConvertablePtr (the stored value itself: mpt_config_getp(.., TypeConvertablePtr, &val),
   config::get(path, convertable *&)) *)
Inductive gty := GExist | GStr | GVec | GConv.
(* what mpt_config_getp reports: MissingData / rc >= 0 without data / the text / BadType *)
Inductive gval := GMissing | GFound | GText (v : value) | GBadType.

(* the C store keeps text of up to 249 bytes in the basic metatype ('s' and vector of
   char), longer text in a buffer metatype (vector of char and iterator, no 's');
   the metatypes made by the C++ metatype::create offer both for every length *)
Definition value_conv (cxx : bool) (ty : gty) (v : value) : gval :=
  match ty with
  | GExist => GFound
  | GVec => GText v
  | GStr => if cxx || fits_basic v then GText v else GBadType
  (* _convert_value hands out the convertable it was given, whatever metatype holds the
     text (docs/C10_get_convertable.diff); the reader takes the text from that object *)
  | GConv => GText v
  end.

(* _convert_value of config_get.c applied to what the query found: an element without
   value is reported as MissingData when a value is asked for *)
Definition get_view (cxx : bool) (ty : gty) (e : entry) : gval :=
  match e with
  | Absent => GMissing
  | Exists mt =>
    match ty with
    | GExist => GFound
    | _ => match mt with None => GMissing | Some v => value_conv cxx ty v end
    end
  end.

(* mpt_config_getp(conf, path, type, ptr) / config::get(path, type, ptr) *)
Definition cfg_getp (g : list node) (base p : path) (ty : gty) : cres gval :=
  let* e := cfg_query g base p in Done (get_view false ty e).

(* mpt_config_get(conf, dest, type, ptr): path.sep = '.', path.assign = 0, mpt_path_set(&path, dest, -1) *)
Definition cfg_get (g : list node) (base : path) (s : option (list byte)) (ty : gty) : cres gval :=
  let* p := str_path s 46%N 0%N in cfg_getp g base p ty.

(* mpt_config_set(conf, path, val, sep, end) and config::set(path, val, sep) (end = 0):
   no value = remove *)
Definition cfg_set (g : list node) (base : path) (s : option (list byte)) (sep en : byte) (v : option value)
  : cres (list node * rc) :=
  let* p := str_path s sep en in
  match v with Some v => cfg_assign g base p v | None => cfg_remove g base p end.

(* the path of config::del(p, sep, len): path::set(p, len, sep, 0); with an explicit
   length only the first len bytes are looked at *)
Definition del_path (s : option (list byte)) (sep : byte) (len : option nat) : cres path :=
  let* (p, _) := path_set (path_init sep 0%N)
                   (match s with
                    | None => None
                    | Some b => Some (match len with None => b ++ [0%N] | Some n => firstn n (b ++ [0%N]) end)
                    end) len in
  Done p.

Definition cfg_del (g : list node) (base : path) (s : option (list byte)) (sep : byte) (len : option nat)
  : cres (list node * rc) :=
  let* p := del_path s sep len in cfg_remove g base p.

(* configConv(TypeNodePtr): the global configuration has no node, a view gets or creates its base node *)
Definition cfg_node (g : list node) (base : path) : cres (list node * option trail) :=
  if plen base =? 0 then Fail BadValue else make_global g base.

(* configRemove(cfg, NULL): a view drops the value of its base element (the element and
   what is beneath it stay); the global configuration has no element of its own *)
Definition cfg_unset (g : list node) (base : path) : cres (list node * rc) :=
  match g with
  | [] => Done (g, RcRefused)
  | _ =>
    if plen base =? 0 then Done (g, RcRefused)
    else
      let* (qb, pb) := node_query g base in
      match qb with
      | None => Done (g, RcNotFound)
      | Some tb =>
        if negb (plen pb =? 0) then Done (g, RcNotFound)
        else match node_at g tb with
             | None => MemFault
             | Some _ => Done (upd_at g tb (fun n => Node (nname' n) None (nkids' n)), RcCleared)
             end
      end
  end.

(* configAssign(cfg, path, NULL) - assignment WITHOUT value through the C store: the element is
   created (without value) when it does not exist, mpt_meta_set(&node->_meta, NULL) when it does;
   a view whose path is empty does that to its base element; the global configuration has no
   element of its own (BadValue).  The return value is the type code of what the element
   holds afterwards: RcOk = it still holds a value (long text, rewound in place), RcCleared = it
   holds none (created, dropped, or mpt_node_assign returned 0 for a name that cannot be stored:
   configAssign answers 0 for val == NULL all the same) *)
Definition rc_of_val (v : option value) : rc := match v with Some _ => RcOk | None => RcCleared end.

Definition cfg_assign_none (g : list node) (base p : path) : cres (list node * rc) :=
  if plen base =? 0 then
    if plen p =? 0 then Done (g, RcRefused)
    else
      let* (g', t) := node_assign g p None in
      match t with
      | None => Done (g', RcCleared)
      | Some t => match node_at g' t with
                  | None => MemFault
                  | Some nd => Done (g', rc_of_val (nval' nd))
                  end
      end
  else
    let* (g1, tb) := make_global g base in
    match tb with
    | None => Done (g1, RcRefused)
    | Some tb =>
      match node_at g1 tb with
      | None => MemFault
      | Some nd =>
        if plen p =? 0 then
          match meta_set (nval' nd) None with
          | None => Done (g1, RcRefused)
          | Some v' => Done (upd_at g1 tb (fun n => Node (nname' n) v' (nkids' n)), rc_of_val v')
          end
        else
          let* (kids', t) := node_assign (nkids' nd) p None in
          let g2 := upd_at g1 tb (fun n => Node (nname' n) (nval' n) kids') in
          match t with
          | None => Done (g2, RcCleared)
          | Some t => match node_at kids' t with
                      | None => MemFault
                      | Some x => Done (g2, rc_of_val (nval' x))
                      end
          end
      end
    end.

(* mpt_node_assign(&base, dest, val) with a value mpt_meta_new refuses (no text in it: an
   integer, a float, ..): on an existing element mpt_meta_set fails (no object, no
   configuration in a text metatype; the old value stays), otherwise mpt_meta_new fails
   BEFORE the first node is created: nothing changes, 0 is returned *)
Definition node_assign_bad (f : list node) (dest : path) : cres (list node * option trail) :=
  let* (_, _) := node_query f dest in Done (f, None).

(* configAssign(cfg, path, val) with such a value: BadOperation (BadValue for the empty path on
   the global handle); a view has made sure of its base element before *)
Definition cfg_assign_bad (g : list node) (base p : path) : cres (list node * rc) :=
  if plen base =? 0 then
    if plen p =? 0 then Done (g, RcRefused)
    else let* (g', _) := node_assign_bad g p in Done (g', RcRefused)
  else
    let* (g1, tb) := make_global g base in
    match tb with
    | None => Done (g1, RcRefused)
    | Some tb =>
      match node_at g1 tb with
      | None => MemFault
      | Some nd =>
        if plen p =? 0 then Done (g1, RcRefused)
        else
          (* nothing is written: the children stay what they are *)
          let* (_, _) := node_assign_bad (nkids' nd) p in Done (g1, RcRefused)
      end
    end.

(* configQuery with a handler that walks the collection (collectionEach): value of
   the element and the nodes beneath it (the top-level list for the empty path) *)
Definition cfg_list (g : list node) (base p : path) : cres (option (option value * list node)) :=
  let* (found, n, mt) :=
    if plen base =? 0 then Done (true, g, None)
    else
      let* (q, pb) := node_query g base in
      match q with
      | None => Done (false, [], None)
      | Some tb =>
        if negb (plen pb =? 0) then Done (false, [], None)
        else match node_at g tb with
             | None => MemFault
             | Some nd => Done (true, nkids' nd, nval' nd)
             end
      end in
  if negb found then Done None
  else if plen p =? 0 then Done (Some (mt, n))
  else
    let* (q, p') := node_query n p in
    match q with
    | None => Done None
    | Some tr =>
      if negb (plen p' =? 0) then Done None
      else match node_at n tr with
           | None => MemFault
           | Some nd => Done (Some (nval' nd, nkids' nd))
           end
    end.

(* ---- the same for config::root *)
Definition root_getp (a : list item) (p : path) (ty : gty) : cres gval :=
  let* e := root_query a p in Done (get_view true ty e).

Definition root_set (a : list item) (s : option (list byte)) (sep : byte) (v : option value)
  : cres (list item * rc) :=
  let* p := str_path s sep 0%N in
  match v with Some v => root_assign a p v | None => root_remove a p end.

Definition root_del (a : list item) (s : option (list byte)) (sep : byte) (len : option nat)
  : cres (list item * rc) :=
  let* p := del_path s sep len in root_remove a p.

(* config::root::assign(dest, NULL): the value of an existing element is dropped, the
   element (and what is beneath it) stays; nothing happens when it does not exist *)
Definition root_unset (a : list item) (p : path) : cres (list item * rc) :=
  if plen p =? 0 then Done (a, RcRefused)
  else
    let* t := item_query a p in
    match t with
    | None => Done (a, RcOk)
    | Some tr => Done (iupd_at a tr (fun x => Item (iname' x) None (ielems' x)), RcOk)
    end.

(* config::root::query(dest, handler): dest == NULL hands out the top-level items *)
Definition root_list (a : list item) (p : option path) : cres (option (option value * list item)) :=
  match p with
  | None => Done (Some (None, a))
  | Some p =>
    let* t := item_query a p in
    match t with
    | None => Done None
    | Some tr => match item_at a tr with
                 | None => MemFault
                 | Some x => Done (Some (ival' x, ielems' x))
                 end
    end
  end.

(* ---- histories over the caller-level interface *)
Inductive wop :=
| WVt (o : cop)                                                        (* the plain interface calls *)
| WSet (base : path) (s : option (list byte)) (sep en : byte) (v : option value)
| WDel (base : path) (s : option (list byte)) (sep : byte) (len : option nat)
| WGetp (base p : path) (ty : gty)
| WGet (base : path) (s : option (list byte)) (ty : gty)
| WNode (base : path)
| WUnset (base : path)
| WList (base p : path)
| WAssignNone (base p : path)                                          (* assign(path, NULL) *)
| WAssignBad (base p : path).                                          (* assign(path, value without text) *)

Inductive wout :=
| WOut (o : cout)
| WVal (v : gval)
| WNodeAt (t : option trail)                      (* node handed out (None: refused) *)
| WListing (l : option (option value * list node)).

Definition wlift {A} (g : list node) (r : cres A) (k : A -> list node * wout) : list node * wout :=
  match r with
  | Done a => k a
  | Fail _ => (g, WOut (OutRc RcRefused))
  | MemFault => (g, WOut OutFault)
  | OutOfFuel => (g, WOut OutFuel)
  end.

Definition wstep (g : list node) (o : wop) : list node * wout :=
  match o with
  | WVt c => let '(g', out) := cstep g c in (g', WOut out)
  | WSet b s sep en v => wlift g (cfg_set g b s sep en v) (fun '(g', r) => (g', WOut (OutRc r)))
  | WDel b s sep len => wlift g (cfg_del g b s sep len) (fun '(g', r) => (g', WOut (OutRc r)))
  | WGetp b p ty => wlift g (cfg_getp g b p ty) (fun v => (g, WVal v))
  | WGet b s ty => wlift g (cfg_get g b s ty) (fun v => (g, WVal v))
  | WNode b =>
    match cfg_node g b with
    | Done (g', t) => (g', WNodeAt t)
    | Fail _ => (g, WNodeAt None)
    | MemFault => (g, WOut OutFault)
    | OutOfFuel => (g, WOut OutFuel)
    end
  | WUnset b => wlift g (cfg_unset g b) (fun '(g', r) => (g', WOut (OutRc r)))
  | WList b p => wlift g (cfg_list g b p) (fun l => (g, WListing l))
  | WAssignNone b p => wlift g (cfg_assign_none g b p) (fun '(g', r) => (g', WOut (OutRc r)))
  | WAssignBad b p => wlift g (cfg_assign_bad g b p) (fun '(g', r) => (g', WOut (OutRc r)))
  end.

Fixpoint wrun (g : list node) (ops : list wop) : list wout * list node :=
  match ops with
  | [] => ([], g)
  | o :: r => let '(g', out) := wstep g o in let '(outs, gf) := wrun g' r in (out :: outs, gf)
  end.

Inductive xop :=
| XVt (o : rop)
| XSet (s : option (list byte)) (sep : byte) (v : option value)
| XDel (s : option (list byte)) (sep : byte) (len : option nat)
| XGetp (p : path) (ty : gty)
| XUnset (p : path)
| XList (p : option path).

Inductive xout :=
| XOut (o : cout)
| XVal (v : gval)
| XListing (l : option (option value * list item)).

Definition xlift {A} (a : list item) (r : cres A) (k : A -> list item * xout) : list item * xout :=
  match r with
  | Done x => k x
  | Fail _ => (a, XOut (OutRc RcRefused))
  | MemFault => (a, XOut OutFault)
  | OutOfFuel => (a, XOut OutFuel)
  end.

Definition xstep (a : list item) (o : xop) : list item * xout :=
  match o with
  | XVt r => let '(a', out) := rstep a r in (a', XOut out)
  | XSet s sep v => xlift a (root_set a s sep v) (fun '(a', r) => (a', XOut (OutRc r)))
  | XDel s sep len => xlift a (root_del a s sep len) (fun '(a', r) => (a', XOut (OutRc r)))
  | XGetp p ty => xlift a (root_getp a p ty) (fun v => (a, XVal v))
  | XUnset p => xlift a (root_unset a p) (fun '(a', r) => (a', XOut (OutRc r)))
  | XList p => xlift a (root_list a p) (fun l => (a, XListing l))
  end.

Fixpoint xrun (a : list item) (ops : list xop) : list xout * list item :=
  match ops with
  | [] => ([], a)
  | o :: r => let '(a', out) := xstep a o in let '(outs, af) := xrun a' r in (out :: outs, af)
  end.

(* ==========================================================================
   mpt_meta_set (meta_set.c) on ONE metatype reference, for every kind of value a node
   can hold - not only the text metatypes mpt_meta_new makes.  The function asks the
   old value, in this order,
     1. for an object (TypeObjectPtr): a value is handed to it (mpt_object_set_value(obj, 0, val):
        an error is the answer of the whole call, nothing is replaced), "no value" resets it
        (set_property(obj, 0, 0): on refusal the call goes on);
     2. for a configuration (TypeConfigPtr): assign(cfg, NULL, val); on refusal the call goes on;
     3. without value: for an iterator to rewind (kept when that works), else the default
        metatype replaces the old value;
     4. with a value: mpt_meta_new(val) replaces the old value (BadOperation and nothing
        changed when the value holds no text).
   The old value is released exactly when it is replaced.
   ========================================================================== *)
Inductive cell :=
| CNull                                   (* no metatype *)
| CDefault                                (* mpt_metatype_default() *)
| CText (v : value)                       (* made by mpt_meta_new *)
| CObj (acc : bool) (t : option value)    (* a value that is an object; accepts / refuses what it is given *)
| CCfg (acc : bool) (t : option value)    (* a value that is a configuration *)
| CIter (acc : bool) (t : value)          (* a value that is an iterator; rewinds / refuses *)
| CView.                                  (* a view of the process-wide configuration: configAssign refuses path == NULL *)

(* what is assigned: nothing (val == NULL), a value without text, text *)
Inductive aval := ANone | ABad | AText (v : value).
Inductive mres := MOk | MErr.

Definition cell_is_null (c : cell) : bool := match c with CNull => true | _ => false end.

Definition meta_set_cell (c : cell) (a : aval) : mres * cell * bool :=
  let by_object :=
    match c with
    | CObj acc t =>
      match a with
      | ANone => if acc then Some (MOk, CObj acc None, false) else None
      | AText v => if acc then Some (MOk, CObj acc (Some v), false) else Some (MErr, c, false)
      | ABad => Some (MErr, c, false)
      end
    | _ => None
    end in
  match by_object with
  | Some r => r
  | None =>
    let by_config :=
      match c with
      | CCfg true t =>
        match a with
        | ANone => Some (MOk, CCfg true None, false)
        | AText v => Some (MOk, CCfg true (Some v), false)
        | ABad => None
        end
      | _ => None
      end in
    match by_config with
    | Some r => r
    | None =>
      match a with
      | ANone =>
        match c with
        | CIter true _ => (MOk, c, false)
        | CText v => if fits_basic v then (MOk, CDefault, true) else (MOk, c, false)
        | CNull => (MOk, CDefault, false)
        | _ => (MOk, CDefault, true)
        end
      | ABad => (MErr, c, false)
      | AText v =>
        match meta_new v with
        | Some v' => (MOk, CText v', negb (cell_is_null c))
        | None => (MErr, c, false)
        end
      end
    end
  end.

(* the text a value shows *)
Definition cell_text (c : cell) : option value :=
  match c with
  | CText v => Some v
  | CObj _ t | CCfg _ t => t
  | CIter _ t => Some t
  | _ => None
  end.

(* specification of one call: [acc] = the call succeeded, [dropped] = the value shows no text
   afterwards; an accepted text is what the value shows afterwards, a refused call changes
   nothing, "no value" leaves either no text or - the value's own decision (an iterator is
   rewound and stays) - the text that was there *)
Definition cell_spec (txt : option value) (a : aval) (acc dropped : bool) : option value :=
  match a with
  | AText v => if acc then Some v else txt
  | ABad => txt
  | ANone => if dropped then None else txt
  end.
