(* C10/AssignNone.v — assignment WITHOUT value through the C store (configAssign(cfg, path, NULL):
   mpt_node_assign(.., NULL), mpt_meta_set(&node->_meta, NULL) of meta_set.c) and assignment
   of a value that holds no text (refused by mpt_meta_new).

   mpt_meta_set(.., NULL) asks the old value for an iterator to rewind before it replaces it
   by the default metatype.  Text of up to 249 bytes (basic metatype) has none: the value is
   dropped.  Longer text is held by a buffer metatype, which IS an iterator over its text:
   it is rewound and stays.  [unset_val] is that decision; the reading of every key after
   the call is [upd_gen] with "made present" where the value stayed and "present, no value"
   where it went. *)
From MptV Require Import Base.Mem Base.Tactics C10.ConfigModel C10.ConfigSpec C10.PathProofs
  C10.TreeQuery C10.TreeOps C10.TreeAssign C10.StoreRefine C10.TreeView C10.ViewRefine.
Local Open Scope nat_scope.

Definition unset_val (old : option value) : option value :=
  match old with Some v => if fits_basic v then None else old | None => None end.

Lemma meta_set_none old : meta_set old None = Some (unset_val old).
Proof. destruct old as [v|]; cbn [meta_set unset_val]; [destruct (fits_basic v)|]; reflexivity. Qed.

(* what mpt_meta_set(.., NULL) leaves is no value, or the old one *)
Lemma unset_val_cases old : unset_val old = None \/ (unset_val old = old /\ exists v, old = Some v /\ fits_basic v = false).
Proof.
  destruct old as [v|]; cbn [unset_val]; [|left; reflexivity].
  destruct (fits_basic v) eqn:E; [left; reflexivity|right]. split; [reflexivity|]. exists v. split; [reflexivity|assumption].
Qed.

(* text the basic metatype can hold is dropped: every length up to 249 *)
Lemma unset_val_short v : length v <= 249 -> unset_val (Some v) = None.
Proof.
  intros H. cbn [unset_val]. unfold fits_basic, geninfo_size.
  destruct (Nat.ltb_spec 255 (length v + 1 + 4 + 1)); [lia|reflexivity].
Qed.
Lemma unset_val_long v : 250 <= length v -> unset_val (Some v) = Some v.
Proof.
  intros H. cbn [unset_val]. unfold fits_basic, geninfo_size.
  destruct (Nat.ltb_spec 255 (length v + 1 + 4 + 1)); [reflexivity|lia].
Qed.

(* reading after "assignment without value" where the element ends up holding [after] *)
Definition none_ov (after : option value) : option (option value) :=
  match after with Some _ => None | None => Some None end.

Lemma upd_gen_absent_none (L : key -> entry) q k : L q = Absent ->
  upd_gen L q None k = upd_gen L q (Some None) k.
Proof.
  intros H. unfold upd_gen. destruct (key_eqb k q) eqn:E; [|reflexivity].
  apply key_eqb_eq in E. subst k. rewrite H. reflexivity.
Qed.

Lemma upd_gen_keep (L : key -> entry) q v k : L q = Exists (Some v) ->
  upd_gen L q (Some (Some v)) k = upd_gen L q None k.
Proof.
  intros H. unfold upd_gen. destruct (key_eqb k q) eqn:E; [|reflexivity].
  apply key_eqb_eq in E. subst k. rewrite H. reflexivity.
Qed.

(* mpt_node_assign(&base, dest, NULL) for EVERY destination: created without value, or
   mpt_meta_set(&node->_meta, NULL) on the existing element *)
Lemma node_assign_none f p : wff f -> pwf p -> elems p <> [] -> Forall name_ok (elems p) ->
  exists f' t nd, node_assign f p None = Done (f', Some t) /\ wff f' /\ trail_of f' (elems p) t nd /\
    forall k, k <> [] -> tlook f' k = upd_gen (tlook f) (elems p) (none_ov (nval' nd)) k.
Proof.
  intros Hwf Hw Hne Hok.
  destruct (aquery f (elems p)) as [q r2] eqn:Eaq.
  destruct r2 as [|a r2'].
  - (* the element exists *)
    destruct (node_query_spec f p Hw) as (p' & Hq & Hw' & He' & _).
    rewrite Eaq in Hq, He'. cbn [fst snd] in Hq, He'.
    destruct q as [t|].
    2:{ destruct (aquery_none _ _ _ Eaq) as [Hr _]. congruence. }
    destruct (aquery_some _ _ _ _ Eaq) as (m & nd & Hr & Ht & _).
    rewrite app_nil_r in Hr. subst m.
    pose proof (trail_of_node_at _ _ _ _ Ht) as Hat.
    unfold node_assign. rewrite Hq. cbn [cbind].
    apply elems_nil_iff in He'. rewrite He'. cbn [Nat.eqb].
    rewrite Hat, meta_set_none.
    set (G := fun n : node => Node (nname' n) (unset_val (nval' nd)) (nkids' n)).
    exists (upd_at f t G), t, (G nd). split; [reflexivity|]. split.
    { eapply (wff_upd_at f (elems p) t nd G Ht eq_refl Hwf). intros Hn. apply wfn_unfold. cbn. apply wfn_unfold. assumption. }
    split; [apply (trail_upd_same f (elems p) t nd Ht G); reflexivity|].
    intros k Hk. unfold G. rewrite (tlook_setval f (elems p) t nd Ht (unset_val (nval' nd)) k Hk).
    cbn [nval'].
    destruct (unset_val_cases (nval' nd)) as [Hn|(Hn & v & Hv & _)].
    + rewrite Hn. reflexivity.
    + rewrite Hn, Hv. cbn [none_ov]. apply upd_gen_keep.
      rewrite (trail_of_tlook _ _ _ _ Ht), Hv. reflexivity.
  - (* it does not: created without value *)
    destruct (node_assign_full f p None Hwf Hw Hne Hok) as (f' & t & nd & Ha & Hwf' & Ht & Hl).
    { intros _. rewrite Eaq. cbn. discriminate. }
    exists f', t, nd. split; [assumption|]. split; [assumption|]. split; [assumption|].
    assert (Habs : tlook f (elems p) = Absent).
    { apply (aquery_not_full _ _ _ _ Eaq Hne). right. discriminate. }
    assert (Hv : nval' nd = None).
    { pose proof (trail_of_tlook _ _ _ _ Ht) as H1. rewrite (Hl (elems p) Hne) in H1.
      unfold upd_gen in H1. rewrite key_eqb_refl in H1. cbn [ov_of] in H1. rewrite Habs in H1. cbn in H1. congruence. }
    intros k Hk. rewrite Hv. cbn [none_ov]. rewrite (Hl k Hk). cbn [ov_of]. apply upd_gen_absent_none. assumption.
Qed.

(* mpt_node_assign with a value that holds no text: nothing changes *)
Lemma node_assign_bad_spec f p : pwf p -> node_assign_bad f p = Done (f, None).
Proof.
  intros Hw. unfold node_assign_bad. destruct (node_query_spec f p Hw) as (p' & Hq & _). rewrite Hq. reflexivity.
Qed.

(* ---------------------------------------------------------------- specification side *)
Lemma slook_unset_touch h q k : q <> [] ->
  slook (SUnset q :: STouch q :: h) k = upd_gen (slook h) q (Some None) k.
Proof.
  intros Hq. cbn [slook]. unfold upd_gen, touch, key_proper_prefix.
  destruct (key_eqb k q) eqn:E.
  - apply key_eqb_eq in E. subst k. rewrite key_prefix_refl. destruct (slook h q); reflexivity.
  - destruct (key_prefix k q); cbn [andb negb]; [destruct (slook h k)|]; reflexivity.
Qed.

(* ---------------------------------------------------------------- configAssign(cfg, path, NULL) *)
Lemma upd_gen_twice_gen (L : key -> entry) q ov k :
  upd_gen (upd_gen L q None) q ov k = upd_gen L q ov k.
Proof.
  unfold upd_gen. destruct (key_eqb k q).
  - destruct ov; [reflexivity|apply touch_idem'].
  - destruct (key_proper_prefix k q); [apply touch_idem'|reflexivity].
Qed.

Lemma upd_gen_compose_gen (L : key -> entry) b q ov k : q <> [] ->
  upd_gen (upd_gen L b None) (b ++ q) ov k = upd_gen L (b ++ q) ov k.
Proof.
  intros Hq. destruct ov as [v|]; [apply upd_gen_compose; assumption|].
  unfold upd_gen at 1 3. destruct (key_eqb k (b ++ q)) eqn:E.
  - unfold upd_gen. destruct (key_eqb k b); [apply touch_idem'|].
    destruct (key_proper_prefix k b); [apply touch_idem'|reflexivity].
  - destruct (key_proper_prefix k (b ++ q)) eqn:Ep.
    + unfold upd_gen. destruct (key_eqb k b); [apply touch_idem'|].
      destruct (key_proper_prefix k b); [apply touch_idem'|reflexivity].
    + unfold upd_gen. destruct (key_eqb k b) eqn:Eb.
      * apply key_eqb_eq in Eb. subst k. rewrite (key_pp_app b b q Hq (key_prefix_refl b)) in Ep. discriminate.
      * destruct (key_proper_prefix k b) eqn:Epb; [|reflexivity].
        unfold key_proper_prefix in Epb. apply andb_true_iff in Epb as [Epb _].
        rewrite (key_pp_app k b q Hq Epb) in Ep. discriminate.
Qed.

Lemma rc_of_val_cases (v : option value) :
  (rc_of_val v = RcOk /\ none_ov v = None) \/ (rc_of_val v = RcCleared /\ none_ov v = Some None).
Proof. destruct v; [left|right]; split; reflexivity. Qed.

(* the result says whether the element still holds a value; the reading of every key is the old
   one with the destination (and its prefixes) made present, the destination's value gone unless
   the result says it stayed *)
Lemma cfg_assign_none_spec g b p : hpath b -> wff g -> pwf p -> Forall name_ok (elems p) ->
  exists g' r, cfg_assign_none g b p = Done (g', r) /\ wff g' /\
    ((elems b ++ elems p = [] /\ r = RcRefused /\ g' = g) \/
     (elems b ++ elems p <> [] /\
      exists ov, ((r = RcOk /\ ov = None) \/ (r = RcCleared /\ ov = Some None)) /\
        forall k, k <> [] -> tlook g' k = upd_gen (tlook g) (elems b ++ elems p) ov k)).
Proof.
  intros Hb Hwf Hw Hok. unfold cfg_assign_none. destruct (hpath_cases b Hb) as [Hg|Hv].
  - (* the global handle *)
    rewrite (gpath_elems b Hg). unfold gpath in Hg. rewrite Hg. cbn [Nat.eqb app].
    destruct (Nat.eqb_spec (plen p) 0) as [Hz|Hz].
    + apply elems_nil_iff in Hz. exists g, RcRefused. split; [reflexivity|]. split; [assumption|]. left. auto.
    + assert (Hne : elems p <> []) by (intros H; apply Hz; apply elems_nil_iff; assumption).
      destruct (node_assign_none g p Hwf Hw Hne Hok) as (g' & t & nd & Ha & Hwf' & Ht & Hl).
      rewrite Ha. cbn [cbind]. rewrite (trail_of_node_at _ _ _ _ Ht).
      exists g', (rc_of_val (nval' nd)). split; [reflexivity|]. split; [assumption|]. right. split; [assumption|].
      exists (none_ov (nval' nd)). split; [|assumption].
      destruct (rc_of_val_cases (nval' nd)) as [[H1 H2]|[H1 H2]]; rewrite H1, H2; auto.
  - (* a view *)
    pose proof (vpath_plen b Hv) as Hbz. destruct Hv as (Hwb & Hbne & Hbok).
    destruct (Nat.eqb_spec (plen b) 0); [congruence|].
    destruct (make_global_spec g b Hwf Hwb Hbne Hbok) as (g1 & tb & nd1 & Hmg & Hwf1 & Ht1 & Hl1).
    rewrite Hmg. cbn [cbind]. rewrite (trail_of_node_at _ _ _ _ Ht1).
    destruct (Nat.eqb_spec (plen p) 0) as [Hz|Hz].
    + apply elems_nil_iff in Hz. rewrite Hz, app_nil_r. rewrite meta_set_none.
      set (G := fun n : node => Node (nname' n) (unset_val (nval' nd1)) (nkids' n)).
      exists (upd_at g1 tb G), (rc_of_val (unset_val (nval' nd1))). split; [reflexivity|]. split.
      { eapply (wff_upd_at g1 (elems b) tb nd1 G Ht1 eq_refl Hwf1). intros Hn. apply wfn_unfold. cbn. apply wfn_unfold. assumption. }
      right. split; [assumption|].
      exists (none_ov (unset_val (nval' nd1))). split.
      { destruct (rc_of_val_cases (unset_val (nval' nd1))) as [[H1 H2]|[H1 H2]]; rewrite H1, H2; auto. }
      intros k Hk. unfold G. rewrite (tlook_setval g1 (elems b) tb nd1 Ht1 (unset_val (nval' nd1)) k Hk).
      rewrite <- (upd_gen_twice_gen (tlook g) (elems b) (none_ov (unset_val (nval' nd1))) k).
      destruct (unset_val_cases (nval' nd1)) as [Hn|(Hn & v & Hv & _)].
      * rewrite Hn. cbn [none_ov]. apply upd_gen_ext. apply Hl1. assumption.
      * rewrite Hn, Hv. cbn [none_ov].
        rewrite (upd_gen_keep (tlook g1) (elems b) v k).
        -- apply upd_gen_ext. apply Hl1. assumption.
        -- rewrite (trail_of_tlook _ _ _ _ Ht1), Hv. reflexivity.
    + assert (Hne : elems p <> []) by (intros H; apply Hz; apply elems_nil_iff; assumption).
      pose proof (wff_trail_kids _ _ _ _ Ht1 Hwf1) as Hwk.
      destruct (node_assign_none (nkids' nd1) p Hwk Hw Hne Hok) as (kids' & t2 & x & Ha & Hwk' & Ht2 & Hl2).
      rewrite Ha. cbn [cbind]. rewrite (trail_of_node_at _ _ _ _ Ht2).
      eexists _, (rc_of_val (nval' x)). split; [reflexivity|]. split.
      { eapply wff_upd_at; eauto. intros _. apply wfn_unfold. cbn. assumption. }
      right. split; [intros H; apply app_eq_nil in H; destruct H; congruence|].
      exists (none_ov (nval' x)). split.
      { destruct (rc_of_val_cases (nval' x)) as [[H1 H2]|[H1 H2]]; rewrite H1, H2; auto. }
      intros k Hk.
      rewrite (tlook_under g1 (elems b) tb nd1 Ht1 kids' (elems p) (none_ov (nval' x)) Hne Hl2 k Hk).
      rewrite <- (upd_gen_compose_gen (tlook g) (elems b) (elems p) (none_ov (nval' x)) k Hne).
      apply upd_gen_ext. apply Hl1. assumption.
Qed.

(* configAssign with a value that holds no text: refused; the store reads as before, except that a
   view has made its base element present *)
Lemma cfg_assign_bad_spec g b p : hpath b -> wff g -> pwf p ->
  exists g', cfg_assign_bad g b p = Done (g', RcRefused) /\ wff g' /\
    ((elems b = [] /\ g' = g) \/
     (elems b <> [] /\ forall k, k <> [] -> tlook g' k = upd_gen (tlook g) (elems b) None k)).
Proof.
  intros Hb Hwf Hw. unfold cfg_assign_bad. destruct (hpath_cases b Hb) as [Hg|Hv].
  - rewrite (gpath_elems b Hg). unfold gpath in Hg. rewrite Hg. cbn [Nat.eqb].
    destruct (plen p =? 0).
    + exists g. split; [reflexivity|]. split; [assumption|]. left. auto.
    + rewrite (node_assign_bad_spec g p Hw). cbn [cbind]. exists g. split; [reflexivity|]. split; [assumption|]. left. auto.
  - pose proof (vpath_plen b Hv) as Hbz. destruct Hv as (Hwb & Hbne & Hbok).
    destruct (Nat.eqb_spec (plen b) 0); [congruence|].
    destruct (make_global_spec g b Hwf Hwb Hbne Hbok) as (g1 & tb & nd1 & Hmg & Hwf1 & Ht1 & Hl1).
    rewrite Hmg. cbn [cbind]. rewrite (trail_of_node_at _ _ _ _ Ht1).
    destruct (plen p =? 0).
    + exists g1. split; [reflexivity|]. split; [assumption|]. right. split; assumption.
    + rewrite (node_assign_bad_spec (nkids' nd1) p Hw). cbn [cbind].
      exists g1. split; [reflexivity|]. split; [assumption|]. right. split; assumption.
Qed.
