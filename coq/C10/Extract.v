(* Extraction of the executable model and specification of C10 (ExtrOcamlBasic only). *)
From MptV Require Import Base.Mem C10.ConfigModel C10.ConfigSpec C16.Locate C10.LocateModel.
Require Import ExtrOcamlBasic.
Extraction "c10_model.ml" path_init path_set path_next path_last path_del path_add path_post path_walk
  str_path str_key cstep rstep sstep slookup pstep pwalk astep
  wstep xstep wsstep xsstep get_view squery del_path del_key str_key_end node_at item_at meta_set_cell cell_text cell_spec
  node_locate locate_kth lquery squery_l ident_of_name ident_nameless key_of_name.
