(* C10/StoreRefine.v — the process-global configuration (config_global.c) refines
   the history specification of ConfigSpec.v: per operation and for any history. *)
From MptV Require Import Base.Mem Base.Tactics C10.ConfigModel C10.ConfigSpec C10.PathProofs
  C10.TreeQuery C10.TreeOps C10.TreeAssign.
Local Open Scope nat_scope.

(* reading below an existing node *)
Lemma tlook_descend : forall g b t nd, trail_of g b t nd -> forall r, r <> [] ->
  tlook g (b ++ r) = tlook (nkids' nd) r.
Proof.
  induction 1 as [f n i nd Hf | f n m i nd t x Hf Hm Ht IH]; intros r Hr.
  - cbn [app tlook]. rewrite (find_idx_node n f 0), Hf. cbn [option_map snd].
    destruct r; [congruence|reflexivity].
  - cbn [app tlook]. rewrite (find_idx_node n f 0), Hf. cbn [option_map snd].
    destruct (m ++ r) eqn:E; [destruct m; [congruence|discriminate]|]. rewrite <- E. apply IH. assumption.
Qed.

(* a key that mpt_node_query does not consume completely is absent *)
Lemma aquery_partial_absent f r q r2 : aquery f r = (q, r2) -> r2 <> [] -> tlook f r = Absent.
Proof.
  intros Ha Hr2. destruct q as [t|].
  - destruct (aquery_some _ _ _ _ Ha) as (m & nd & Hr & Ht & Hnone). rewrite Hr.
    rewrite (tlook_descend f m t nd Ht r2 Hr2). destruct r2 as [|a r2]; [congruence|].
    cbn. cbn in Hnone. rewrite Hnone by discriminate. reflexivity.
  - destruct (aquery_none _ _ _ Ha) as [Hrk Hnone]. subst r2.
    destruct Hnone as [Hn|Hn]; [congruence|]. destruct r as [|a r]; [congruence|].
    cbn. cbn in Hn. rewrite Hn. reflexivity.
Qed.

Lemma aquery_full_trail f r t : aquery f r = (Some t, []) -> exists nd, trail_of f r t nd.
Proof.
  intros Ha. destruct (aquery_some _ _ _ _ Ha) as (m & nd & Hr & Ht & _).
  rewrite app_nil_r in Hr. subst m. eauto.
Qed.

(* ---------------------------------------------------------------- the three interface calls, global handle *)
Definition gpath (b : path) : Prop := plen b = 0.

(* reading through the global handle: the empty path is the (value-less) root *)
Definition glook (g : list node) (k : key) : entry :=
  match k with [] => Exists None | _ => tlook g k end.

Lemma cfg_query_global g b p : gpath b -> pwf p ->
  cfg_query g b p = Done (glook g (elems p)).
Proof.
  intros Hb Hw. unfold cfg_query, gpath in *. rewrite Hb. cbn [Nat.eqb cbind negb].
  destruct (Nat.eqb_spec (plen p) 0) as [Hz|Hz].
  - apply elems_nil_iff in Hz. rewrite Hz. reflexivity.
  - assert (Hne : elems p <> []) by (intros H; apply elems_nil_iff in H; congruence).
    destruct (node_query_spec g p Hw) as (p' & Hq & Hw' & He' & _). rewrite Hq. cbn [cbind].
    destruct (aquery g (elems p)) as [q r2] eqn:Ea. cbn [fst snd] in *.
    assert (Hgl : glook g (elems p) = tlook g (elems p)) by (destruct (elems p); [congruence|reflexivity]).
    rewrite Hgl. destruct q as [t|].
    + destruct (Nat.eqb_spec (plen p') 0) as [Hz'|Hz']; cbn [negb].
      * apply elems_nil_iff in Hz'. assert (E0 : r2 = []) by congruence. rewrite E0 in *. clear E0.
        destruct (aquery_full_trail _ _ _ Ea) as (nd & Ht).
        rewrite (trail_of_node_at _ _ _ _ Ht), (trail_of_tlook _ _ _ _ Ht). reflexivity.
      * assert (r2 <> []) by (intros H; apply Hz'; apply elems_nil_iff; congruence).
        rewrite (aquery_partial_absent _ _ _ _ Ea) by assumption. reflexivity.
    + destruct (aquery_none _ _ _ Ea) as [Hr Hn]. rewrite Hr in *.
      rewrite (aquery_partial_absent _ _ _ _ Ea) by assumption. reflexivity.
Qed.

Lemma cfg_assign_global g b p v : gpath b -> wff g -> pwf p -> Forall name_ok (elems p) ->
  match elems p with
  | [] => cfg_assign g b p v = Done (g, RcRefused)
  | q => exists g', cfg_assign g b p v = Done (g', RcOk) /\ wff g' /\
         forall k, k <> [] -> tlook g' k = upd_gen (tlook g) q (Some (Some v)) k
  end.
Proof.
  intros Hb Hwf Hw Hok. unfold cfg_assign, gpath in *. rewrite Hb. cbn [Nat.eqb].
  destruct (elems p) as [|n r] eqn:He.
  - apply elems_nil_iff in He. rewrite He. reflexivity.
  - assert (Hz : plen p <> 0) by (intros H; apply elems_nil_iff in H; congruence).
    destruct (Nat.eqb_spec (plen p) 0); [congruence|].
    destruct (node_assign_spec g p (Some v) Hwf Hw) as (g' & t & Ha & Hwf' & Hl);
      [rewrite He; discriminate | rewrite He; assumption | discriminate |].
    rewrite Ha. cbn [cbind]. exists g'. split; [reflexivity|]. split; [assumption|].
    intros k Hk. rewrite (Hl k Hk), He. reflexivity.
Qed.

Lemma tlook_nil k : tlook [] k = Absent.
Proof. destruct k; reflexivity. Qed.

Definition is_removed (r : rc) : bool := match r with RcRemoved => true | _ => false end.

Lemma cfg_remove_global g b p : gpath b -> wff g -> pwf p ->
  exists g' r, cfg_remove g b p = Done (g', r) /\ wff g' /\ r <> RcOk /\
  match elems p with
  | [] => is_removed r = false /\ forall k, tlook g' k = Absent
  | q => (is_removed r = true <-> tlook g q <> Absent) /\
         forall k, tlook g' k = if is_removed r && key_prefix q k then Absent else tlook g k
  end.
Proof.
  intros Hb Hwf Hw. unfold cfg_remove, gpath in *.
  destruct g as [|n0 g0] eqn:Eg.
  - exists [], RcRefused. split; [reflexivity|]. split; [apply wff_nil|]. split; [discriminate|].
    destruct (elems p); [split; [reflexivity|intros; apply tlook_nil]|]. split.
    + split; [discriminate|]. intros H. exfalso. apply H. apply tlook_nil.
    + intros k. cbn [is_removed andb]. reflexivity.
  - rewrite <- Eg in *. clear Eg n0 g0. rewrite Hb. cbn [Nat.eqb].
    destruct (Nat.eqb_spec (plen p) 0) as [Hz|Hz].
    + exists [], RcCleared. split; [reflexivity|]. split; [apply wff_nil|]. split; [discriminate|].
      apply elems_nil_iff in Hz. rewrite Hz. split; [reflexivity|intros; apply tlook_nil].
    + assert (Hne : elems p <> []) by (intros H; apply elems_nil_iff in H; congruence).
      destruct (node_query_spec g p Hw) as (p' & Hq & Hw' & He' & _). rewrite Hq. cbn [cbind].
      destruct (aquery g (elems p)) as [q r2] eqn:Ea. cbn [fst snd] in *.
      destruct q as [t|].
      * destruct (Nat.eqb_spec (plen p') 0) as [Hz'|Hz'].
        -- apply elems_nil_iff in Hz'. assert (E0 : r2 = []) by congruence. rewrite E0 in *. clear E0.
           destruct (aquery_full_trail _ _ _ Ea) as (nd & Ht).
           exists (remove_at g t), RcRemoved. split; [reflexivity|].
           split; [eapply wff_remove_at; eauto|]. split; [discriminate|].
           assert (HP : (is_removed RcRemoved = true <-> tlook g (elems p) <> Absent) /\
                        forall k, tlook (remove_at g t) k =
                                  if is_removed RcRemoved && key_prefix (elems p) k then Absent else tlook g k).
           { split.
             - split; [|reflexivity]. intros _. rewrite (trail_of_tlook _ _ _ _ Ht). discriminate.
             - intros k. cbn [is_removed andb]. apply (tlook_remove_at g (elems p) t nd Ht Hwf k). }
           destruct (elems p); [congruence|exact HP].
        -- assert (r2 <> []) by (intros H; apply Hz'; apply elems_nil_iff; congruence).
           exists g, RcNotFound. split; [reflexivity|]. split; [assumption|]. split; [discriminate|].
           assert (HP : (is_removed RcNotFound = true <-> tlook g (elems p) <> Absent) /\
                        forall k, tlook g k = if is_removed RcNotFound && key_prefix (elems p) k then Absent else tlook g k).
           { split; [|reflexivity]. split; [discriminate|].
             intros Hx. exfalso. apply Hx. eapply aquery_partial_absent; eauto. }
           destruct (elems p); [congruence|exact HP].
      * destruct (aquery_none _ _ _ Ea) as [Hr Hn]. rewrite Hr in *.
        exists g, RcNotFound. split; [reflexivity|]. split; [assumption|]. split; [discriminate|].
        assert (HP : (is_removed RcNotFound = true <-> tlook g (elems p) <> Absent) /\
                     forall k, tlook g k = if is_removed RcNotFound && key_prefix (elems p) k then Absent else tlook g k).
        { split; [|reflexivity]. split; [discriminate|].
          intros Hx. exfalso. apply Hx. eapply aquery_partial_absent; eauto. }
        destruct (elems p); [congruence|exact HP].
Qed.

(* ---------------------------------------------------------------- histories *)
Definition R (g : list node) (h : list sop) : Prop :=
  wff g /\ forall k, k <> [] -> tlook g k = slook h k.

Definition op_ok (o : cop) : Prop :=
  match o with
  | CAssign b p v => gpath b /\ pwf p /\ Forall name_ok (elems p)
  | CRemove b p => gpath b /\ pwf p
  | CQuery b p => gpath b /\ pwf p
  end.

Definition hop_of (o : cop) : hop :=
  match o with
  | CAssign b p v => HAssign (elems b) (elems p) v
  | CRemove b p => HRemove (elems b) (elems p)
  | CQuery b p => HQuery (elems b) (elems p)
  end.

(* "nothing was removed" has three result classes in the code (not found, empty
   store, store cleared); the property does not distinguish them *)
Definition obs (o : cout) : cout :=
  match o with
  | OutRc RcNotFound | OutRc RcCleared => OutRc RcRefused
  | x => x
  end.

Lemma gpath_elems b : gpath b -> elems b = [].
Proof. intros H. apply elems_nil_iff. exact H. Qed.

Lemma upd_gen_ext L1 L2 q ov k : L1 k = L2 k -> upd_gen L1 q ov k = upd_gen L2 q ov k.
Proof. intros H. unfold upd_gen. rewrite H. reflexivity. Qed.

Lemma slook_assign h q v k : slook (SAssign q v :: h) k = upd_gen (slook h) q (Some (Some v)) k.
Proof.
  cbn [slook]. unfold upd_gen, touch. destruct (key_eqb k q); [reflexivity|].
  destruct (key_proper_prefix k q); [|reflexivity]. destruct (slook h k); reflexivity.
Qed.

Lemma cstep_refines g h o : R g h -> op_ok o ->
  let '(g', out) := cstep g o in
  let '(h', sout) := sstep h (hop_of o) (accepted out) in
  obs out = obs sout /\ R g' h'.
Proof.
  intros [Hwf HR] Hok. destruct o as [b p v|b p|b p]; cbn [op_ok hop_of cstep] in *.
  - destruct Hok as (Hb & Hw & Hn). rewrite (gpath_elems b Hb). cbn [app sstep].
    pose proof (cfg_assign_global g b p v Hb Hwf Hw Hn) as Ha.
    destruct (elems p) as [|n r] eqn:He.
    + rewrite Ha. cbn. split; [reflexivity|split; assumption].
    + destruct Ha as (g' & Ha & Hwf' & Hl). rewrite Ha. cbn [accepted].
      split; [reflexivity|]. split; [assumption|].
      intros k Hk. rewrite (Hl k Hk), slook_assign. apply upd_gen_ext. apply HR. assumption.
  - destruct Hok as (Hb & Hw). rewrite (gpath_elems b Hb). cbn [app sstep].
    destruct (cfg_remove_global g b p Hb Hwf Hw) as (g' & r & Hr & Hwf' & Hnok & Hsp). rewrite Hr.
    destruct (elems p) as [|n q] eqn:He.
    + destruct Hsp as [Hnr Habs]. split.
      * destruct r; cbn in *; try reflexivity; try discriminate; congruence.
      * split; [assumption|]. intros k Hk. rewrite Habs. cbn [slook].
        unfold key_proper_prefix. destruct k; [congruence|reflexivity].
    + destruct Hsp as [Hiff Hl]. cbn [slookup].
      rewrite <- (HR (n :: q)) by discriminate.
      destruct (tlook g (n :: q)) eqn:Et.
      * assert (Hf : is_removed r = false).
        { destruct (is_removed r) eqn:E; [|reflexivity]. exfalso. apply (proj1 Hiff); reflexivity. }
        split; [destruct r; cbn in *; try reflexivity; try discriminate; congruence|].
        split; [assumption|]. intros k Hk. rewrite Hl, Hf. cbn [andb]. apply HR. assumption.
      * assert (Ht : is_removed r = true) by (apply (proj2 Hiff); discriminate).
        split; [destruct r; cbn in *; try discriminate; reflexivity|].
        split; [assumption|]. intros k Hk. rewrite Hl, Ht. cbn [andb slook].
        destruct (key_prefix (n :: q) k); [reflexivity|]. apply HR. assumption.
  - destruct Hok as (Hb & Hw). rewrite (gpath_elems b Hb). cbn [app sstep slookup].
    rewrite (cfg_query_global g b p Hb Hw). split; [|split; assumption].
    unfold glook, slookup. destruct (elems p) as [|n q]; [reflexivity|].
    rewrite HR by discriminate. reflexivity.
Qed.

Lemma crun_refines : forall ops g h, R g h -> Forall op_ok ops ->
  map obs (fst (crun g ops)) = map obs (fst (srun h (map hop_of ops) (fst (crun g ops)))).
Proof.
  induction ops as [|o ops IH]; intros g h HR Hok; [reflexivity|].
  inversion Hok as [|? ? Ho Hok']; subst.
  pose proof (cstep_refines g h o HR Ho) as Hs.
  cbn [crun map srun]. destruct (cstep g o) as [g' out].
  specialize (IH g').
  destruct (crun g' ops) as [outs gf] eqn:Ec. cbn [fst tl].
  destruct (sstep h (hop_of o) (accepted out)) as [h' sout]. destruct Hs as [Ho' HR'].
  specialize (IH h' HR' Hok'). cbn [fst] in IH.
  destruct (srun h' (map hop_of ops) outs) as [souts hf]. cbn [fst map] in *.
  rewrite Ho', IH. reflexivity.
Qed.

Lemma R_init : R [] [].
Proof. split; [apply wff_nil|]. intros k _. apply tlook_nil. Qed.

(* ---------------------------------------------------------------- frame statements *)
Lemma assign_frame g b p v : gpath b -> wff g -> pwf p -> Forall name_ok (elems p) -> elems p <> [] ->
  exists g', cfg_assign g b p v = Done (g', RcOk) /\ wff g' /\
    forall k, k <> [] ->
      tlook g' k = if key_eqb k (elems p) then Exists (Some v)
                   else if key_proper_prefix k (elems p) then touch (tlook g k)
                   else tlook g k.
Proof.
  intros Hb Hwf Hw Hok Hne. pose proof (cfg_assign_global g b p v Hb Hwf Hw Hok) as H.
  destruct (elems p) as [|n r]; [congruence|]. exact H.
Qed.

Lemma remove_subtree_only g b p : gpath b -> wff g -> pwf p -> elems p <> [] ->
  exists g' r, cfg_remove g b p = Done (g', r) /\ wff g' /\
    (is_removed r = true <-> tlook g (elems p) <> Absent) /\
    forall k, tlook g' k = if is_removed r && key_prefix (elems p) k then Absent else tlook g k.
Proof.
  intros Hb Hwf Hw Hne. destruct (cfg_remove_global g b p Hb Hwf Hw) as (g' & r & Hr & Hwf' & _ & Hsp).
  exists g', r. split; [assumption|]. split; [assumption|].
  destruct (elems p) as [|n q]; [congruence|]. exact Hsp.
Qed.
