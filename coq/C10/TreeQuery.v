(* C10/TreeQuery.v — mpt_node_query on the byte path equals an abstract
   longest-existing-prefix search over the element list. *)
From MptV Require Import Base.Mem Base.Tactics C10.ConfigModel C10.ConfigSpec C10.PathProofs.
Local Open Scope nat_scope.

Fixpoint find_idx (nm : name) (l : list node) (i : nat) : option (nat * node) :=
  match l with
  | [] => None
  | k :: l' => if bytes_eqb (nname' k) nm then Some (i, k) else find_idx nm l' (S i)
  end.

(* longest existing prefix of key [k] in forest [f]: trail of the deepest node and the rest of the key *)
Fixpoint aquery (f : list node) (k : key) : option trail * key :=
  match k with
  | [] => (None, [])
  | n :: k' =>
    match find_idx n f 0 with
    | None => (None, k)
    | Some (i, nd) =>
      match nkids' nd with
      | [] => (Some [i], k')
      | kids =>
        match aquery kids k' with
        | (None, r) => (Some [i], r)
        | (Some t, r) => (Some (i :: t), r)
        end
      end
    end
  end.

(* the inner loop of query_kids, named *)
Definition qloc (p p' : path) (nm : list byte) :=
  fix loc (l : list node) (i : nat) {struct l} : cres (option trail * path) :=
    match l with
    | [] => Done (None, restore p p')
    | k :: l' =>
      if bytes_eqb (nname' k) nm then
        match nkids' k with
        | [] => Done (Some [i], p')
        | _ =>
          match query_kids k p' with
          | Done (None, p'') => Done (Some [i], p'')
          | Done (Some t, p'') => Done (Some (i :: t), p'')
          | r => r
          end
        end
      else loc l' (S i)
    end.

Lemma query_kids_unfold nd p :
  query_kids nd p =
  match path_next p with
  | Fail _ => Done (None, p)
  | MemFault => MemFault
  | OutOfFuel => OutOfFuel
  | Done (clen, p') =>
    match rdn (pbase p) (poff p) clen with
    | Fail e => Fail e
    | MemFault => MemFault
    | OutOfFuel => OutOfFuel
    | Done nm => qloc p p' nm (nkids' nd) 0
    end
  end.
Proof. destruct nd; reflexivity. Qed.

Lemma qloc_find p p' nm l i :
  qloc p p' nm l i =
  match find_idx nm l i with
  | None => Done (None, restore p p')
  | Some (j, k) =>
    match nkids' k with
    | [] => Done (Some [j], p')
    | _ =>
      match query_kids k p' with
      | Done (None, p'') => Done (Some [j], p'')
      | Done (Some t, p'') => Done (Some (j :: t), p'')
      | r => r
      end
    end
  end.
Proof.
  revert i; induction l as [|k l IH]; intros i; [reflexivity|].
  cbn [qloc find_idx]. destruct (bytes_eqb (nname' k) nm); [reflexivity|]. apply IH.
Qed.

Lemma same_store_trans p q r : same_store p q -> same_store q r -> same_store p r.
Proof.
  intros (A1 & A2 & A3 & A4 & A5 & A6) (B1 & B2 & B3 & B4 & B5 & B6).
  unfold same_store. repeat split; congruence.
Qed.

Lemma same_store_refl p : same_store p p.
Proof. unfold same_store; repeat split. Qed.

(* query_kids computes aquery on the element list *)
Lemma query_kids_spec : forall ks nd p, pwf p -> elems p = ks ->
  exists p', query_kids nd p = Done (fst (aquery (nkids' nd) ks), p') /\
             pwf p' /\ elems p' = snd (aquery (nkids' nd) ks) /\ same_store p p'.
Proof.
  induction ks as [|n ks IH]; intros nd p Hw He.
  - apply elems_nil_iff in He. rewrite query_kids_unfold, path_next_empty by assumption.
    exists p. cbn. split; [reflexivity|]. split; [assumption|].
    split; [apply elems_nil_iff; assumption | apply same_store_refl].
  - assert (Hn : plen p <> 0) by (intros H; apply elems_nil_iff in H; congruence).
    destruct (path_next_spec p Hw Hn) as (e & r & p' & He' & Hnx & Hrd & Hw' & Her & Hf & Hss & _).
    rewrite He in He'. injection He' as <- <-.
    rewrite query_kids_unfold, Hnx, Hrd, qloc_find. cbn [aquery].
    destruct (find_idx n (nkids' nd) 0) as [[j k]|] eqn:Ef.
    + destruct (nkids' k) as [|k1 kk] eqn:Ek.
      * exists p'. cbn. split; [reflexivity|]. split; [assumption|]. split; [congruence|assumption].
      * destruct (IH k p' Hw' Her) as (p'' & Hq & Hw'' & He'' & Hss'). rewrite Ek in Hq, He''.
        rewrite Hq. destruct (aquery (k1 :: kk) ks) as [[t|] rr]; cbn [fst snd] in *;
          exists p''; (split; [reflexivity|]); (split; [assumption|]); (split; [congruence|]);
          eapply same_store_trans; eauto.
    + destruct (restore_spec p p' Hw Hss Hf) as (Hwr & Her' & Hsr & _).
      exists (restore p p'). cbn. split; [reflexivity|]. split; [assumption|]. split; [congruence|assumption].
Qed.

Lemma node_query_spec f p : pwf p ->
  exists p', node_query f p = Done (fst (aquery f (elems p)), p') /\
             pwf p' /\ elems p' = snd (aquery f (elems p)) /\ same_store p p'.
Proof.
  intros Hw. unfold node_query. destruct f as [|k f].
  - exists p. destruct (elems p) as [|n ks]; cbn; (split; [reflexivity|]); (split; [assumption|]);
      (split; [reflexivity|apply same_store_refl]).
  - destruct (Nat.eqb_spec (plen p) 0) as [Hz|Hz].
    + pose proof Hz as Hz'. apply elems_nil_iff in Hz'. rewrite Hz'. exists p. cbn.
      split; [reflexivity|]. split; [assumption|]. split; [assumption|apply same_store_refl].
    + unfold query_in. apply (query_kids_spec (elems p) (Node [] None (k :: f)) p Hw eq_refl).
Qed.
