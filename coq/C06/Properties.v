(* C06 — Type registry hands out unique, stable, correctly described types.
   This file holds only the property theorems (each closed by [exact] of a lemma
   proved in TypesHistory.v / TypesProps.v), non-vacuity examples and
   Print Assumptions.

   Reading guide.  [reg] is the mechanism state of mptcore/types/type_traits.c
   (interface slot table + interface_pos, dynamic sizes, metatype chunk list,
   generic chunk list); [step] transcribes the C entry points; [reg0] is the
   registry of a fresh process; [exec reg0 ops] is the state after the history
   [ops], [run reg0 ops] the outputs ([C06_run_exec] ties the two).  All bounds,
   chunk sizes and built-in tables are the GENERATED constants of Gen_Types.v:
   the proofs go through facts about them that are re-checked by computation
   (TypesFacts.v), so a changed bound or table re-opens the obligations.
   Every theorem quantifies over ALL histories [ops] (no length bound).

   [issued o x] is the identifier a registration [o] returned in output [x];
   [known r id] says mpt_type_traits(id) is non-NULL in state [r].

   Layering (second half of the file).  [sreg] (RegistrySpec.v) is the abstract
   registry: a finite map id |-> (kind, description, optional name), a finite map
   name |-> id and one next-free counter per kind; [sstep] is its one-page
   specification of every operation, [sreg0] its fresh state built from the
   independent list g_ctype_sizes.  [abs : reg -> sreg] (RegistryAbs.v) reads the
   abstract state off the tables, [obs] projects the model's outputs (error kinds
   and the raw positions of a sweep are dropped).  C06_step_refines_spec /
   C06_history_refines_spec / C06_fresh_refines_spec say M [= S for EVERY
   operation; [op_wf] only says that an id argument fits the C parameter type
   (uintptr_t).  The C06_spec_* theorems prove the property on S itself, the
   C06_*_via_spec theorems transfer them to the mechanism through the refinement;
   the direct theorems of the first half are kept (they need no [op_wf]). *)
From MptV Require Import Base.Mem C06.Gen_Types C06.TypesModel C06.TypesFacts
  C06.TypesChunks C06.TypesInv C06.TypesProps C06.TypesHistory
  C06.RegistrySpec C06.RegistryAbs C06.RegistryMaps C06.RegistryLookup C06.RegistryRefine
  C06.RegistryProps C06.RegistryCorollaries C06.RegistryFini C06.TplModel C06.TplSim C06.TplProps.

(* outputs of a history are the outputs of its prefix followed by those of the
   rest run from the state the prefix leaves *)
Theorem C06_run_exec : forall r a b, run r (a ++ b) = run r a ++ run (exec r a) b.
Proof. exact run_app. Qed.

(* Unique for the life of the process: the identifiers handed out along any
   history are pairwise different and none of them was known (built in) before. *)
Theorem C06_ids_unique : forall ops,
  NoDup (issued_run reg0 ops) /\ forall id, In id (issued_run reg0 ops) -> known reg0 id = false.
Proof. exact h_ids_unique. Qed.

(* ... more precisely an identifier is unknown until the registration that
   returns it, and known right after *)
Theorem C06_issued_fresh : forall ops o id,
  issued o (snd (step (exec reg0 ops) o)) = Some id ->
  known (exec reg0 ops) id = false /\ known (exec reg0 (ops ++ [o])) id = true.
Proof. exact h_fresh. Qed.

(* In the numeric range reserved for their kind (basic: dynamic range, generic
   traits: value range, interfaces: above the built-in interfaces, metatypes:
   above the base metatype). *)
Theorem C06_ids_in_kind_range : forall ops o id,
  issued o (snd (step (exec reg0 ops) o)) = Some id -> kind_range o id.
Proof. exact h_kind_range. Qed.

(* Stable: whatever an id or a name resolves to after a history, it resolves to
   the same description / the same entry (name, id, description) after any
   further history. *)
Theorem C06_lookup_stable : forall ops1 ops2,
  let r1 := exec reg0 ops1 in
  let r2 := exec reg0 (ops1 ++ ops2) in
  (forall id t, type_traits r1 id = Ok (Some t) -> type_traits r2 id = Ok (Some t)) /\
  (forall id e, interface_traits r1 id = Ok (inl e) -> interface_traits r2 id = Ok (inl e)) /\
  (forall id e, metatype_traits r1 id = Ok (inl e) -> metatype_traits r2 id = Ok (inl e)) /\
  (forall n len e, named_traits r1 n len = inl e -> named_traits r2 n len = inl e).
Proof. exact h_stable. Qed.

(* Name <-> id: the entry found for an id carries that id, and its name (if it
   has one) resolves to that very entry, in full-name and in exact-length mode;
   conversely whatever a name lookup returns is the entry of its id. *)
Theorem C06_name_id_bijection : forall ops,
  let r := exec reg0 ops in
  (forall id e, interface_traits r id = Ok (inl e) \/ metatype_traits r id = Ok (inl e) ->
     ne_type e = id /\
     forall n, ne_name e = Some n ->
       named_traits r (Some n) (-1) = inl e /\ named_traits r (Some n) (Z.of_nat (length n)) = inl e) /\
  (forall n len e, named_traits r n len = inl e ->
     interface_traits r (ne_type e) = Ok (inl e) \/ metatype_traits r (ne_type e) = Ok (inl e)).
Proof. exact h_bijection. Qed.

(* Duplicate names (carried by ANY named id, interface or metatype, built in or
   registered) and too short names are refused by both named registrations, and
   the registry is left as it was. *)
Theorem C06_dup_or_short_refused : forall ops m,
  let r := exec reg0 ops in
  (exists id e, (interface_traits r id = Ok (inl e) \/ metatype_traits r id = Ok (inl e)) /\ ne_name e = Some m)
  \/ (length m < g_MinIfaceName /\ length m < g_MinMetaName)%nat ->
  (exists e, interface_add r (Some m) = (r, Ok (inr e))) /\
  (exists e, metatype_add r (Some m) = (r, Ok (inr e))).
Proof. exact h_dup_or_short. Qed.

(* A registration that hands out no identifier reports an error and leaves the
   state (hence every lookup) exactly as it was; lookups never change it. *)
Theorem C06_exhaustion_preserves : forall ops o,
  let r := exec reg0 ops in
  (is_registration o = true -> issued o (snd (step r o)) = None ->
     fst (step r o) = r /\ refused (snd (step r o)) = true) /\
  (is_registration o = false -> fst (step r o) = r).
Proof. exact h_refused_unchanged. Qed.

(* ... and a registration into an exhausted range is such a refusal *)
Theorem C06_exhausted_refused : forall ops,
  let r := exec reg0 ops in
  ((dslots <= length (r_dyn r))%nat -> forall s, basic_add r s = (r, Err MissingBuffer)) /\
  ((g_ValueMax < g_ValueAdd + N.of_nat (length (concat (r_gen r))))%N ->
     forall t, exists e, type_add r t = (r, Err e)) /\
  ((islots <= r_ipos r)%nat -> forall n, interface_add r n = (r, Ok (inr ENOMEM))) /\
  ((g_MetaPtrMax < g_MetaPtrBase + N.of_nat (length (concat (r_meta r))))%N ->
     forall n, exists e, metatype_add r n = (r, Ok (inr e))).
Proof. exact h_exhausted. Qed.

(* No operation of any history makes the model access a table, slot or chunk
   outside its bounds (lookups of ALL ids, by the range partition — not by
   enumeration — including every id of a sweep). *)
Theorem C06_no_fault : forall ops o, out_ok (snd (step (exec reg0 ops) o)).
Proof. exact h_no_fault. Qed.

(* Built-in types: finite sweep over the generated table g_ctype_sizes (every
   publicly named built-in scalar, vector, pointer, interface, metatype and
   managed type with the sizeof of the C type it stands for): the registry
   reports exactly that size, initially and after every history. *)
Theorem C06_builtin_sizes_correct : forall id sz, In (id, sz) g_ctype_sizes ->
  forall ops, exists t, type_traits (exec reg0 ops) id = Ok (Some t) /\ ti_size t = sz.
Proof. exact h_builtin_sizes. Qed.

(* type_int.c / msgvalfmt.c name scalar types of exactly the requested size
   (finite sweep over the generated tables g_type_int, g_type_uint, g_valfmt_codes). *)
Theorem C06_helpers_consistent :
  (forall n c, In (n, c) g_type_int \/ In (n, c) g_type_uint ->
     exists t, type_traits reg0 c = Ok (Some t) /\ ti_size t = n) /\
  (forall t c, In (t, c) g_valfmt_codes ->
     msgvalfmt_typeid c = Ok t /\
     exists i, type_traits reg0 t = Ok (Some i) /\ ti_size i = msgvalfmt_size c).
Proof. exact h_helpers. Qed.

(* ================= refinement: mechanism model [= abstract specification ================= *)

(* One operation, any state satisfying the invariant: the invariant is kept, and
   the specification, run on the abstraction of the state, reaches the abstraction
   of the new state and makes the same observation.  All 15 operations:
   add basic / add traits / add interface / add metatype (accepted, refused,
   exhausted), lookups by id (3), by name (full, length-limited), alias
   descriptions, the stateless helpers, the sweep. *)
Theorem C06_step_refines_spec : forall r o, inv r -> op_wf o ->
  let '(r', x) := step r o in inv r' /\ sstep (abs r) o = (abs r', obs x).
Proof. exact step_refines. Qed.

(* Every history, by induction over the operation list. *)
Theorem C06_history_refines_spec : forall ops r, inv r -> Forall op_wf ops ->
  srun (abs r) ops = map obs (run r ops) /\
  sexec (abs r) ops = abs (exec r ops) /\
  inv (exec r ops).
Proof. exact run_refines. Qed.

(* The fresh process: the abstraction of the mechanism's initial tables IS the
   specification's initial registry (computed over the regenerated tables:
   core/scalar/vector sizes, built-in interfaces, base metatype, managed types
   against g_ctype_sizes, all ids 0..g_ValueMax), both invariants hold ... *)
Theorem C06_fresh_state : abs reg0 = sreg0 /\ inv reg0 /\ sinv sreg0.
Proof. exact fresh_state. Qed.

(* ... hence every history of the mechanism from a fresh process is, observation
   by observation and state by state, the history of the specification. *)
Theorem C06_fresh_refines_spec : forall ops, Forall op_wf ops ->
  srun sreg0 ops = map obs (run reg0 ops) /\
  sexec sreg0 ops = abs (exec reg0 ops).
Proof. exact fresh_refines. Qed.

(* ---- the property on the specification itself (all histories) ---- *)
Theorem C06_spec_ids_unique : forall ops,
  NoDup (s_issued_run sreg0 ops) /\ forall id, In id (s_issued_run sreg0 ops) -> s_get sreg0 id = None.
Proof. exact spec_ids_unique. Qed.

Theorem C06_spec_ids_in_kind_range : forall ops o id,
  s_issued o (snd (sstep (sexec sreg0 ops) o)) = Some id ->
  reg_kind o <> KBuiltin /\ (kind_first (reg_kind o) <= id <= kind_last (reg_kind o))%N.
Proof. exact spec_issued_range. Qed.

Theorem C06_spec_lookup_stable : forall ops1 ops2,
  let s1 := sexec sreg0 ops1 in
  let s2 := sexec sreg0 (ops1 ++ ops2) in
  (forall id d, s_get s1 id = Some d -> s_get s2 id = Some d) /\
  (forall n id, s_find s1 n = Some id -> s_find s2 n = Some id).
Proof. exact spec_stable. Qed.

Theorem C06_spec_refusal_preserves : forall s o,
  s_issued o (snd (sstep s o)) = None -> fst (sstep s o) = s.
Proof. exact spec_refused_unchanged. Qed.

(* ---- corollaries for the mechanism: refinement + the property of the specification ---- *)
Theorem C06_ids_unique_via_spec : forall ops, Forall op_wf ops ->
  NoDup (issued_run reg0 ops) /\ forall id, In id (issued_run reg0 ops) -> known reg0 id = false.
Proof. exact ids_unique_via_spec. Qed.

Theorem C06_ids_in_kind_range_via_spec : forall ops o id, Forall op_wf ops -> op_wf o ->
  issued o (snd (step (exec reg0 ops) o)) = Some id -> kind_range o id.
Proof. exact ids_in_range_via_spec. Qed.

Theorem C06_lookup_stable_via_spec : forall ops1 ops2, Forall op_wf ops1 -> Forall op_wf ops2 ->
  let r1 := exec reg0 ops1 in
  let r2 := exec reg0 (ops1 ++ ops2) in
  (forall id t, (id < 2 ^ g_WordBits)%N -> type_traits r1 id = Ok (Some t) -> type_traits r2 id = Ok (Some t)) /\
  (forall n len e, named_traits r1 n len = inl e -> named_traits r2 n len = inl e).
Proof. exact lookup_stable_via_spec. Qed.

(* Built-in types, both directions: whatever the fresh registry describes is a
   listed built-in id with the size of its C type (no undocumented, no wrongly
   sized built-in type among ALL ids below 2^g_WordBits), and every listed id is
   described with that size after every history.  Finite part: sweeps over
   g_ctype_sizes and over the ids 0..g_ValueMax (in C06_fresh_state). *)
Theorem C06_builtins_exactly_listed :
  (forall id t, (id < 2 ^ g_WordBits)%N -> type_traits reg0 id = Ok (Some t) -> In (id, ti_size t) g_ctype_sizes) /\
  (forall id sz, In (id, sz) g_ctype_sizes -> forall ops, Forall op_wf ops ->
     exists t, type_traits (exec reg0 ops) id = Ok (Some t) /\ ti_size t = sz).
Proof. exact builtins_exactly_listed. Qed.

(* ---- the C++ wrappers (mpt++/type_traits_wrap.cpp) and process exit ---- *)

(* type_traits::get(int) converts its int to the uintptr_t id of mpt_type_traits: for every int it
   is mpt_type_traits of that value when it is non-negative and finds nothing when it is negative
   (the sign-extended value lies above every id range); OpWrapTraits is one of the operations of
   C06_step_refines_spec.  The other five wrappers forward their arguments unchanged. *)
Theorem C06_cxx_get_transparent : forall r t, inv r ->
  (- 2 ^ (Z.of_N g_IntBits - 1) <= t < 2 ^ (Z.of_N g_IntBits - 1))%Z ->
  wrap_traits r t = if (t <? 0)%Z then Ok None else type_traits r (Z.to_N t).
Proof. exact wrap_transparent. Qed.

(* atexit clean-up: after any history the clean-up releases as many registered interface and
   metatype entries as identifiers of that kind were handed out (the ids of a kind are
   first .. counter-1), and one block per generic chunk. *)
Theorem C06_exit_releases_registered : forall ops,
  let r := exec reg0 ops in
  fini_counts r = (N.to_nat (s_niface (abs r) - g_InterfaceAdd),
                   N.to_nat (s_nmeta (abs r) - (g_MetaPtrBase + 1)),
                   length (r_gen r)).
Proof. exact fini_counts_history. Qed.

(* ---- non-vacuity ---- *)
Definition nm_hello : name := [104;101;108;108;111]%N.
Definition nm_world : name := [119;111;114;108;100]%N.
Definition nm_logger : name := [108;111;103;103;101;114]%N.
Definition nm_iter : name := [105;116;101;114]%N.
Definition tr8 : tinfo := mkti 8 true false (Some 0%N).

(* a history that registers one type of every kind; the ids issued *)
Example C06_issued_example :
  issued_run reg0 [OpBasicAdd 4; OpIfaceAdd (Some nm_hello); OpTraits 129; OpMetaAdd (Some nm_world);
                   OpTypeAdd (Some tr8); OpMetaAdd None; OpBasicAdd 0]
  = [192; 144; 257; 2304; 258; 193]%N.
Proof. vm_compute. reflexivity. Qed.

(* lookups have something to keep stable: a built-in interface and a registered name *)
Example C06_lookup_example :
  type_traits reg0 129 = Ok (Some ptr_traits) /\
  named_traits (exec reg0 [OpIfaceAdd (Some nm_hello)]) (Some nm_hello) (-1)
    = inl (mkne (Some nm_hello) 144 ptr_traits) /\
  interface_traits (exec reg0 [OpIfaceAdd (Some nm_hello); OpMetaAdd (Some nm_world)]) 144
    = Ok (inl (mkne (Some nm_hello) 144 ptr_traits)).
Proof. vm_compute. repeat split; reflexivity. Qed.

(* duplicates across kinds, built-in names and alias names are really refused *)
Example C06_refusal_example :
  run reg0 [OpIfaceAdd (Some nm_hello); OpMetaAdd (Some nm_hello); OpMetaAdd (Some nm_logger);
            OpIfaceAdd (Some nm_iter); OpIfaceAdd (Some [97;98;99]%N)]
  = [ONamed (mkne (Some nm_hello) 144 ptr_traits); ONull EINVAL; ONull EINVAL; ONull EINVAL; ONull EINVAL].
Proof. vm_compute. reflexivity. Qed.

(* every range really gets exhausted: the registration after the last id is refused *)
Example C06_exhaustion_example :
  snd (step (exec reg0 (repeat (OpBasicAdd 1) (N.to_nat g_DynamicSlots))) (OpBasicAdd 1)) = OCode MissingBuffer /\
  snd (step (exec reg0 (repeat (OpTypeAdd (Some tr8)) (N.to_nat (g_ValueMax + 1 - g_ValueAdd)))) (OpTypeAdd (Some tr8)))
    = OCode BadType /\
  snd (step (exec reg0 (repeat (OpIfaceAdd None) (N.to_nat (g_InterfaceMax + 1 - g_InterfaceAdd)))) (OpIfaceAdd None))
    = ONull ENOMEM /\
  snd (step (exec reg0 (repeat (OpMetaAdd None) (N.to_nat (g_MetaPtrMax - g_MetaPtrBase)))) (OpMetaAdd None))
    = ONull ENOMEM /\
  known (exec reg0 (repeat (OpTypeAdd (Some tr8)) (N.to_nat (g_ValueMax + 1 - g_ValueAdd)))) g_ValueMax = true.
Proof. vm_compute. repeat split; reflexivity. Qed.

(* the built-in table is not empty and contains the types repaired in the source *)
Example C06_builtin_example :
  In (11, 8)%N g_ctype_sizes /\ In (64, 16)%N g_ctype_sizes /\ In (129, 8)%N g_ctype_sizes /\
  g_ctype_sizes <> [].
Proof. vm_compute. repeat split; try tauto; discriminate. Qed.

(* the specification really runs: ids from the counters, cross-kind duplicate, built-in name, alias
   and short name refused, lookups by id and name, an alias description *)
Example C06_spec_run_example :
  srun sreg0 [OpBasicAdd 4; OpIfaceAdd (Some nm_hello); OpMetaAdd (Some nm_hello); OpMetaAdd (Some nm_logger);
              OpIfaceAdd (Some nm_iter); OpIfaceAdd (Some [97;98;99]%N); OpMetaAdd (Some nm_world);
              OpTypeAdd (Some tr8); OpTraits 192; OpIface 144; OpNamed (Some nm_world) (-1);
              OpNamed (Some nm_iter) (-1); OpAlias (Some (nm_hello ++ [32;58;32;120])%N) true; OpMeta 144]
  = [SId 192; SEntry 144 (Some nm_hello) ptr_traits; SRefused; SRefused; SRefused; SRefused;
     SEntry 257 (Some nm_world) ptr_traits; SId 2304; STraits (Some (plain 4));
     SEntry 144 (Some nm_hello) ptr_traits; SEntry 257 (Some nm_world) ptr_traits;
     SEntry 134 (Some [105;116;101;114;97;116;111;114]%N) ptr_traits; SAlias 144 (Some 8%nat); SRefused]%N.
Proof. vm_compute. reflexivity. Qed.

(* the hypotheses of the refinement theorems are satisfiable (every id a uintptr_t can hold is
   well-formed), and on a concrete mixed history the two levels agree by computation as well *)
Example C06_refines_example :
  Forall op_wf [OpTraits 129; OpTraits (2 ^ 64 - 1); OpSweep; OpIfaceAdd None] /\
  let ops := [OpIfaceAdd (Some nm_hello); OpMetaAdd (Some nm_hello); OpBasicAdd 0; OpTypeAdd (Some tr8);
              OpTraits 2304; OpNamed (Some nm_hello) 5; OpAlias (Some nm_iter) false; OpSweep] in
  srun sreg0 ops = map obs (run reg0 ops) /\ sexec sreg0 ops = abs (exec reg0 ops).
Proof. split; [repeat constructor|vm_compute; split; reflexivity]. Qed.

(* the specification's fresh registry is not empty, its two maps agree, its counters are the range starts *)
Example C06_spec_state_example :
  s_get sreg0 129 = Some (mkdesc KInterface (plain 8) (Some nm_logger)) /\
  s_find sreg0 nm_logger = Some 129%N /\ s_get sreg0 11 = Some (mkdesc KBuiltin (plain 8) None) /\
  s_get sreg0 137 = None /\ length (s_types sreg0) = length g_ctype_sizes /\
  (s_nbasic sreg0, s_ngeneric sreg0, s_niface sreg0, s_nmeta sreg0) = (192, 2304, 144, 257)%N.
Proof. vm_compute. repeat split; reflexivity. Qed.

(* every counter of the specification really runs out *)
Example C06_spec_exhaustion_example :
  snd (sstep (sexec sreg0 (repeat (OpBasicAdd 1) 64)) (OpBasicAdd 1)) = SRefused /\
  snd (sstep (sexec sreg0 (repeat (OpIfaceAdd None) 48)) (OpIfaceAdd None)) = SRefused /\
  snd (sstep (sexec sreg0 (repeat (OpMetaAdd None) 1791)) (OpMetaAdd None)) = SRefused /\
  snd (sstep (sexec sreg0 (repeat (OpTypeAdd (Some tr8)) 1792)) (OpTypeAdd (Some tr8))) = SRefused /\
  snd (sstep (sexec sreg0 (repeat (OpTypeAdd (Some tr8)) 1791)) (OpTypeAdd (Some tr8))) = SId 4095.
Proof. vm_compute. repeat split; reflexivity. Qed.

(* the C++ lookup: a built-in id, a negative int whose low byte is that id, the smallest int *)
Example C06_cxx_example :
  wrap_traits reg0 129 = Ok (Some ptr_traits) /\ wrap_traits reg0 (-127) = Ok None /\
  wrap_traits reg0 (- 2 ^ 31) = Ok None /\
  wrap_traits (exec reg0 [OpTypeAdd (Some tr8)]) 2304 = Ok (Some tr8).
Proof. vm_compute. repeat split; reflexivity. Qed.

Example C06_exit_example :
  fini_counts (exec reg0 [OpIfaceAdd None; OpMetaAdd None; OpMetaAdd (Some nm_hello); OpTypeAdd (Some tr8)]) = (1, 2, 1)%nat /\
  fini_counts reg0 = (0, 0, 0)%nat /\
  fini_counts (exec reg0 (repeat (OpTypeAdd (Some tr8)) 31)) = (0, 0, 2)%nat.
Proof. vm_compute. repeat split; reflexivity. Qed.

Print Assumptions C06_run_exec.
Print Assumptions C06_ids_unique.
Print Assumptions C06_issued_fresh.
Print Assumptions C06_ids_in_kind_range.
Print Assumptions C06_lookup_stable.
Print Assumptions C06_name_id_bijection.
Print Assumptions C06_dup_or_short_refused.
Print Assumptions C06_exhaustion_preserves.
Print Assumptions C06_exhausted_refused.
Print Assumptions C06_no_fault.
Print Assumptions C06_builtin_sizes_correct.
Print Assumptions C06_helpers_consistent.
Print Assumptions C06_step_refines_spec.
Print Assumptions C06_history_refines_spec.
Print Assumptions C06_fresh_state.
Print Assumptions C06_fresh_refines_spec.
Print Assumptions C06_spec_ids_unique.
Print Assumptions C06_spec_ids_in_kind_range.
Print Assumptions C06_spec_lookup_stable.
Print Assumptions C06_spec_refusal_preserves.
Print Assumptions C06_ids_unique_via_spec.
Print Assumptions C06_ids_in_kind_range_via_spec.
Print Assumptions C06_lookup_stable_via_spec.
Print Assumptions C06_builtins_exactly_listed.
Print Assumptions C06_cxx_get_transparent.
Print Assumptions C06_exit_releases_registered.

(* ================= round 5: the C++ template layer of mptcore/types.h =================
   type_properties<T>::id(bool) / ::traits() (primary template, T *, span<T>, span<const T>, the full
   specialisations for the built-in types), basetype(), MPT_type_toVector: TplModel.v.  One instantiation =
   one SLOT of the table g_slots (= the instantiations of harness/c06_tpl.cpp); its function-local statics
   (_valtype, the cached traits pointer of span<const T>) are the state [t_ids] / [t_trs] on top of the
   registry.  The layer reaches the registry only through type_traits::add (OpTypeAdd) and
   type_traits::get(int) (OpWrapTraits).  [mtrun]/[mtexec]: the layer over the mechanism model,
   [strun]/[stexec]: the same layer over the specification; [treach ops] = the state after the history
   [ops] (template calls interleaved with ANY operations of the wrappers) from a fresh process. *)

(* refinement: answer by answer (error codes erased) and state by state - cached ids, cached descriptions,
   abstraction of the registry - the layer over the mechanism is the layer over the specification *)
Theorem C06_tpl_refines_spec : forall ops, Forall twf ops ->
  map (@terase sout) (strun (t0 sreg0) ops) = map mtmap (mtrun (t0 reg0) ops) /\
  stexec (t0 sreg0) ops = mlift (mtexec (t0 reg0) ops).
Proof. exact tpl_refines. Qed.

(* stable across repeated instantiation: the id cached for a slot after some history is still cached after
   any further history, and is what every later id() of that slot answers, obtaining or not *)
Theorem C06_tpl_id_stable : forall ops1 ops2 k v, cached (t_ids (treach ops1)) k = Some v ->
  cached (t_ids (treach (ops1 ++ ops2))) k = Some v /\
  forall ob, match nth_error g_slots k with
             | Some (TFixed _ _) | None => True
             | _ => tid step mview (treach (ops1 ++ ops2)) k ob = (treach (ops1 ++ ops2), TInt (Z.of_N v))
             end.
Proof. exact h_tpl_stable. Qed.

(* unique: two instantiations never share a registered id *)
Theorem C06_tpl_ids_distinct : forall ops k1 k2 v, (g_ValueAdd <= v)%N ->
  cached (t_ids (treach ops)) k1 = Some v -> cached (t_ids (treach ops)) k2 = Some v -> k1 = k2.
Proof. exact h_tpl_distinct. Qed.

(* correctly described: whatever id() answers after any history - a specialisation its constant; the
   primary / pointer / span<T> template an id of the generic range that the registry describes with the
   very description object of that instantiation (sizeof T, init/fini); span<const T> such an id or the
   vector id of the built-in element type - or it is refused (negative), never anything else *)
Theorem C06_tpl_id_described : forall ops k ob s, nth_error g_slots k = Some s ->
  let '(st1, x) := tid step mview (treach ops) k ob in
  match x with
  | TInt z =>
    match s with
    | TFixed id _ => z = id
    | TGen t => exists v, z = Z.of_N v /\ dyn_ok (t_reg st1) t v
    | TSpanC _ t => exists v, z = Z.of_N v /\ (dyn_ok (t_reg st1) t v \/ is_vector v = true)
    end
  | TRef _ => True
  | _ => False
  end.
Proof. exact h_tpl_id. Qed.

(* traits() of every slot, after any history, hands out a description (never null) whose size is the sizeof
   of the C++ type: for the specialisations the registry's built-in entry (g_ctype_sizes), for span<const T>
   the size of struct iovec whichever of the three sources (cache, registry, own object) it comes from *)
Theorem C06_tpl_traits_size : forall ops k s, nth_error g_slots k = Some s ->
  exists tr, snd (ttraits step mview (treach ops) k) = Some (Some tr) /\ ti_size tr = slot_size s.
Proof. exact h_tpl_traits. Qed.

Theorem C06_basetype_range : forall id, (basetype id <= g_DynamicLast)%N.
Proof. exact basetype_range. Qed.
Theorem C06_basetype_metaptr : forall id, is_metaptr id = true -> basetype id = g_TypeConvertablePtr.
Proof. exact basetype_metaptr. Qed.

(* non-vacuity: id without obtaining, registration, repetition, a second type, traits before and after,
   span<const double> = 'D', span<const struct> registered, the registry asked for the new id; the layer over
   the specification answers alike; the table is well-formed and the hypotheses are satisfiable *)
Definition ex_tops : list top :=
  [TId 17 false; TTraits 17; TId 17 true; TId 18 true; TId 17 true; TId 17 false; TTraits 17; TId 25 false;
   TTraits 25; TId 28 true; TTraits 28; TBase (OpWrapTraits 2306); TBase (OpTypeAdd (Some tr8)); TId 19 true;
   TBasetype 2050; TToVector 100].
Example C06_tpl_example :
  mtrun (t0 reg0) ex_tops =
  [TRef (-3)%Z; TTr (Some (mkti 24 true true (Some 100017%N))) RNoId; TInt 2304; TInt 2305; TInt 2304; TInt 2304;
   TTr (Some (mkti 24 true true (Some 100017%N))) RSame; TInt 68; TTr (Some (plain 16)) RSame; TInt 2306;
   TTr (Some (mkti 16 false false (Some 100028%N))) RSame; TOut (OTraits (Some (mkti 16 false false (Some 100028%N))));
   TOut (OId 2307); TInt 2308; TInt 11; TInt 68] /\
  map (@terase sout) (strun (t0 sreg0) ex_tops) = map mtmap (mtrun (t0 reg0) ex_tops) /\
  all_wf 0 g_slots = true /\
  cached (t_ids (treach ex_tops)) 17 = Some 2304%N /\ cached (t_ids (treach ex_tops)) 25 = Some 68%N.
Proof. vm_compute. repeat split; reflexivity. Qed.
Example C06_tpl_wf_example : Forall twf ex_tops.
Proof.
  unfold ex_tops. repeat (apply Forall_cons; [try exact Logic.I|]); try apply Forall_nil.
  vm_compute. split; [discriminate|reflexivity].
Qed.

(* the generic range runs out: the instantiation is refused, and retried when asked again *)
Example C06_tpl_exhaustion_example :
  mtrun (mtexec (t0 reg0) (repeat (TBase (OpTypeAdd (Some tr8))) 1792)) [TId 17 true; TId 17 true; TTraits 28]
  = [TRef (-3)%Z; TRef (-3)%Z; TTr (Some (mkti 16 false false (Some 100028%N))) RNoId].
Proof. vm_compute. reflexivity. Qed.

Print Assumptions C06_tpl_refines_spec.
Print Assumptions C06_tpl_id_stable.
Print Assumptions C06_tpl_ids_distinct.
Print Assumptions C06_tpl_id_described.
Print Assumptions C06_tpl_traits_size.
Print Assumptions C06_basetype_range.
Print Assumptions C06_basetype_metaptr.
