(* C06/RegistryFini.v — the clean-up at process exit releases exactly the named
   entries that were handed out during the life of the process. *)
From MptV Require Import Base.Mem C06.Gen_Types C06.TypesModel C06.TypesFacts C06.TypesChunks
  C06.TypesInv C06.TypesProps C06.TypesHistory C06.RegistrySpec C06.RegistryAbs C06.RegistryRefine.
Local Open Scope nat_scope.

Definition ibase : nat := N.to_nat (g_InterfaceAdd - g_InterfaceBase).

(* every slot between the built-in interfaces and interface_pos holds an entry *)
Definition dense (r : reg) : Prop :=
  forall i, ibase <= i < r_ipos r -> exists e, nth_error (r_iface r) i = Some (Some e).

Lemma dense_reg0 : dense reg0.
Proof. intros i Hi. exfalso. revert Hi. vm_compute. intros [A B]. apply (Nat.lt_irrefl 16). eapply Nat.le_lt_trans; eassumption. Qed.

Lemma dense_step r o : inv r -> dense r -> dense (fst (step r o)).
Proof.
  intros I D. destruct o; cbn [step fst]; try exact D.
  - destruct (basic_add_cases r size) as [[E _]|(sz & E & _)]; rewrite E; exact D.
  - destruct (type_add_cases r t I) as [[e E]|(t0 & cs' & _ & _ & E & _)]; rewrite E; exact D.
  - destruct (interface_add_precise r n I) as [[_ E]|[(_ & _ & E)|(Hroom & _ & E)]];
      cbv zeta in E; rewrite E; cbn [fst]; try exact D.
    intros i Hi. cbn [r_iface r_ipos] in *.
    rewrite nth_error_set by (rewrite (inv_ilen r I); assumption).
    destruct (Nat.eqb_spec i (r_ipos r)); [eauto|]. apply D. lia.
  - destruct (metatype_add_cases r n I) as [[e E]|(cs' & E & _)]; rewrite E; exact D.
Qed.

Lemma dense_exec ops : forall r, inv r -> dense r -> dense (exec r ops).
Proof.
  unfold exec. induction ops as [|o ops IH]; intros r I D; [exact D|].
  cbn [fold_left]. apply IH; [apply step_inv, I|apply dense_step; assumption].
Qed.

Lemma nth_error_skipn' {A} (l : list A) : forall n i, nth_error (skipn n l) i = nth_error l (n + i).
Proof.
  induction l as [|x l IH]; intros n i.
  - rewrite skipn_nil. destruct i, n; reflexivity.
  - destruct n; [reflexivity|]. simpl. apply IH.
Qed.

Lemma filter_all {A} (p : A -> bool) l : (forall x, In x l -> p x = true) -> filter p l = l.
Proof.
  induction l as [|a l IH]; intros H; [reflexivity|]. simpl.
  rewrite (H a) by (left; reflexivity). f_equal. apply IH. intros x Hx. apply H. right. exact Hx.
Qed.

Lemma fini_ifaces r : inv r -> dense r ->
  fst (fst (fini_counts r)) = r_ipos r - ibase.
Proof.
  intros I D. unfold fini_counts. cbn [fst]. fold ibase.
  rewrite filter_all.
  - rewrite skipn_length, firstn_length. pose proof (inv_ipos r I). rewrite (inv_ilen r I). lia.
  - intros x Hx. apply In_nth_error in Hx. destruct Hx as [j Hj]. rewrite nth_error_skipn' in Hj.
    assert (ibase + j < r_ipos r).
    { assert (ibase + j < length (firstn (r_ipos r) (r_iface r))) by (apply nth_error_Some; congruence).
      rewrite firstn_length in H. lia. }
    rewrite nth_error_firstn_lt in Hj by assumption.
    destruct (D (ibase + j)) as [e He]; [lia|]. rewrite He in Hj. inversion Hj. reflexivity.
Qed.

(* released at exit = handed out during the life: the ids of a kind are first .. counter-1 *)
Theorem fini_counts_history ops :
  let r := exec reg0 ops in
  fini_counts r = (N.to_nat (s_niface (abs r) - g_InterfaceAdd),
                   N.to_nat (s_nmeta (abs r) - (g_MetaPtrBase + 1)),
                   length (r_gen r)).
Proof.
  cbv zeta. pose proof (reach_inv ops) as I. pose proof (dense_exec ops reg0 inv_reg0 dense_reg0) as D.
  pose proof (fini_ifaces _ I D) as F. pose proof (inv_ibase _ I) as B. pose proof (inv_mbase _ I) as M.
  rewrite abs_niface, abs_nmeta. unfold fini_counts in *. cbn [fst] in F. rewrite F.
  unfold ibase in *. pose proof range_order. f_equal. f_equal; lia.
Qed.
