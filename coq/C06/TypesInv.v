(* C06/TypesInv.v — the registry invariant, its preservation by every operation,
   and the characterisation of the lookups under the invariant. *)
From MptV Require Import Base.Mem C06.Gen_Types C06.TypesModel C06.TypesFacts C06.TypesChunks.
Local Open Scope nat_scope.

(* ---------- small list lemmas ---------- *)
Lemma name_eqb_eq a : forall b, name_eqb a b = true <-> a = b.
Proof.
  induction a as [|x a IH]; intros [|y b]; simpl; split; intros H; try reflexivity; try discriminate.
  - apply andb_true_iff in H. destruct H as [H1 H2]. apply N.eqb_eq in H1. apply IH in H2. congruence.
  - inversion H; subst. rewrite N.eqb_refl. simpl. apply IH. reflexivity.
Qed.

Lemma name_eqb_refl a : name_eqb a a = true.
Proof. apply name_eqb_eq. reflexivity. Qed.

Lemma find_app' {A} (p : A -> bool) l1 l2 :
  find p (l1 ++ l2) = match find p l1 with Some x => Some x | None => find p l2 end.
Proof. induction l1 as [|x l1 IH]; simpl; [reflexivity|]. destruct (p x); [reflexivity|exact IH]. Qed.

Lemma find_some_iff {A} (p : A -> bool) l : (exists x, In x l /\ p x = true) -> find p l <> None.
Proof.
  intros (x & Hi & Hp) Hn. pose proof (find_none p l Hn x Hi). congruence.
Qed.

Lemma nth_error_set {A} (l : list A) : forall i x j, i < length l ->
  nth_error (firstn i l ++ x :: skipn (S i) l) j = if j =? i then Some x else nth_error l j.
Proof.
  induction l as [|a l IH]; intros i x j Hi; simpl in Hi; [lia|].
  destruct i, j; simpl; try reflexivity. apply IH. lia.
Qed.

Lemma firstn_set {A} (l : list A) : forall i x, i < length l ->
  firstn (S i) (firstn i l ++ x :: skipn (S i) l) = firstn i l ++ [x].
Proof.
  induction l as [|a l IH]; intros i x Hi; simpl in Hi; [lia|].
  destruct i; simpl; [reflexivity|]. f_equal. apply IH. lia.
Qed.

Lemma length_set {A} (l : list A) i x : i < length l ->
  length (firstn i l ++ x :: skipn (S i) l) = length l.
Proof.
  intros H. rewrite app_length, firstn_length. cbn [length]. rewrite skipn_length. lia.
Qed.

Lemma set_nth_ok {A} (l : list A) i x l' : set_nth l i x = Ok l' ->
  i < length l /\ l' = firstn i l ++ x :: skipn (S i) l.
Proof.
  unfold set_nth. destruct (Nat.ltb_spec i (length l)) as [Hl|Hl]; intros E; inversion E. split; [assumption|reflexivity].
Qed.

Lemma nth_error_firstn_lt {A} (l : list A) : forall n i, i < n -> nth_error (firstn n l) i = nth_error l i.
Proof.
  induction l as [|a l IH]; intros n i H.
  - rewrite firstn_nil. reflexivity.
  - destruct n; [lia|]. destruct i; simpl; [reflexivity|]. apply IH. lia.
Qed.

(* ---------- named entries ---------- *)
Definition slot_entries (l : list (option nentry)) : list nentry :=
  flat_map (fun s => match s with Some e => [e] | None => [] end) l.
Definition iface_entries (r : reg) : list nentry := slot_entries (firstn (r_ipos r) (r_iface r)).
Definition named (r : reg) : list nentry := concat (r_meta r) ++ iface_entries r.

Lemma slot_entries_app l1 l2 : slot_entries (l1 ++ l2) = slot_entries l1 ++ slot_entries l2.
Proof. unfold slot_entries. apply flat_map_app. Qed.

Lemma in_slot_entries e l : In e (slot_entries l) <-> In (Some e) l.
Proof.
  unfold slot_entries. rewrite in_flat_map. split.
  - intros ([x|] & H1 & H2); simpl in H2; [destruct H2 as [->|[]]; assumption|destruct H2].
  - intros H. exists (Some e). split; [assumption|left; reflexivity].
Qed.

Lemma find_slots p l :
  match find (fun s => match s with Some e => p e | None => false end) l with
  | Some (Some e) => Some e | _ => None end = find p (slot_entries l).
Proof.
  induction l as [|[e|] l IH]; simpl; [reflexivity| |exact IH].
  destruct (p e); [reflexivity|exact IH].
Qed.

Lemma find_named_eq p r : find_named p r = find p (named r).
Proof.
  unfold find_named, find_meta, find_iface, named, iface_entries.
  rewrite find_app', find_slots. reflexivity.
Qed.

(* ---------- the invariant ---------- *)
Record inv (r : reg) : Prop := mkinv {
  inv_ilen : length (r_iface r) = islots;
  inv_ipos : r_ipos r <= islots;
  inv_islot : forall i e, nth_error (r_iface r) i = Some (Some e) ->
      i < r_ipos r /\ ne_type e = (g_InterfaceBase + N.of_nat i)%N /\ ne_traits e = ptr_traits;
  inv_dyn : length (r_dyn r) <= dslots;
  inv_meta : chunks_ok nchunk (r_meta r);
  inv_mlen : (g_MetaPtrBase + N.of_nat (length (concat (r_meta r))) <= g_MetaPtrMax + 1)%N;
  inv_ment : forall i e, nth_error (concat (r_meta r)) i = Some e ->
      ne_type e = (g_MetaPtrBase + N.of_nat i)%N /\ ne_traits e = ptr_traits;
  inv_gen : r_gen r = [] \/ chunks_ok gchunk (r_gen r);
  inv_glen : (g_ValueAdd + N.of_nat (length (concat (r_gen r))) <= g_ValueMax + 1)%N;
  inv_names : forall e1 e2 n, In e1 (named r) -> In e2 (named r) ->
      ne_name e1 = Some n -> ne_name e2 = Some n -> e1 = e2;
  inv_noalias : forall e n, In e (named r) -> ne_name e = Some n -> resolve_alias n = n /\ n <> [];
  inv_targets : forall a, In a g_aliases -> exists e, In e (named r) /\ ne_name e = Some (snd a);
  inv_ibase : N.to_nat (g_InterfaceAdd - g_InterfaceBase) <= r_ipos r;
  inv_mbase : 1 <= length (concat (r_meta r))
}.

(* membership in the interface table *)
Lemma in_iface_entries r e : inv r ->
  (In e (iface_entries r) <-> exists i, nth_error (r_iface r) i = Some (Some e)).
Proof.
  intros I. unfold iface_entries. rewrite in_slot_entries. split.
  - intros H. apply In_nth_error in H. destruct H as [i H].
    assert (i < r_ipos r).
    { assert (i < length (firstn (r_ipos r) (r_iface r))) by (apply nth_error_Some; congruence).
      rewrite firstn_length in H0. lia. }
    exists i. rewrite nth_error_firstn_lt in H by assumption. exact H.
  - intros [i H]. destruct (inv_islot r I i e H) as [Hi _].
    apply nth_error_In with i. rewrite nth_error_firstn_lt by assumption. exact H.
Qed.

(* ---------- alias resolution ---------- *)
Lemma resolve_alias_cases n :
  resolve_alias n = n \/ exists a, In a g_aliases /\ fst a = n /\ snd a = resolve_alias n.
Proof.
  unfold resolve_alias. destruct (find (fun p => name_eqb n (fst p)) g_aliases) as [a|] eqn:E.
  - right. apply find_some in E. destruct E as [E1 E2]. apply name_eqb_eq in E2.
    exists a. repeat split; auto.
  - left. reflexivity.
Qed.

(* a name that is not taken: no entry carries it and it is not an alias *)
Lemma not_taken r n : inv r -> n <> [] -> name_taken r n = false ->
  resolve_alias n = n /\ forall e, In e (named r) -> ne_name e <> Some n.
Proof.
  intros I Hn H. unfold name_taken, named_traits in H.
  destruct n as [|c n']; [congruence|]. cbn [length Nat.eqb Z.eqb orb Z.leb] in H.
  change (0 <=? -1)%Z with false in H. cbn iota in H.
  rewrite find_named_eq in H.
  destruct (find (name_is (resolve_alias (c :: n'))) (named r)) as [e|] eqn:E; [discriminate|].
  assert (R : resolve_alias (c :: n') = c :: n').
  { destruct (resolve_alias_cases (c :: n')) as [R|(a & Ha & Hf & Hs)]; [exact R|].
    destruct (inv_targets r I a Ha) as (e & He1 & He2).
    pose proof (find_none _ _ E e He1) as Hx. unfold name_is in Hx. rewrite He2, <- Hs in Hx.
    rewrite name_eqb_refl in Hx. discriminate. }
  split; [exact R|].
  intros e He Hname. pose proof (find_none _ _ E e He) as Hx.
  unfold name_is in Hx. rewrite Hname, R, name_eqb_refl in Hx. discriminate.
Qed.


(* conversely: a carried name is taken *)
Lemma taken r n e : inv r -> In e (named r) -> ne_name e = Some n -> name_taken r n = true.
Proof.
  intros I He Hn. destruct (inv_noalias r I e n He Hn) as [R Hne].
  unfold name_taken, named_traits.
  destruct n as [|c n']; [congruence|]. cbn [length Nat.eqb Z.eqb orb].
  change (0 <=? -1)%Z with false. cbn iota.
  rewrite find_named_eq, R.
  destruct (find (name_is (c :: n')) (named r)) eqn:E; [reflexivity|].
  pose proof (find_none _ _ E e He) as Hx. unfold name_is in Hx.
  rewrite Hn, name_eqb_refl in Hx. discriminate.
Qed.

(* the name part of the invariant when one entry is added *)
Lemma names_extend r (nm' : list nentry) e : inv r ->
  (forall x, In x nm' <-> In x (named r) \/ x = e) ->
  (forall n, ne_name e = Some n -> n <> [] /\ name_taken r n = false) ->
  (forall e1 e2 n, In e1 nm' -> In e2 nm' -> ne_name e1 = Some n -> ne_name e2 = Some n -> e1 = e2) /\
  (forall x n, In x nm' -> ne_name x = Some n -> resolve_alias n = n /\ n <> []) /\
  (forall a, In a g_aliases -> exists x, In x nm' /\ ne_name x = Some (snd a)).
Proof.
  intros I Hm He. repeat split.
  - intros e1 e2 n H1 H2 N1 N2. apply Hm in H1. apply Hm in H2.
    destruct H1 as [H1| ->], H2 as [H2| ->]; try reflexivity.
    + exact (inv_names r I e1 e2 n H1 H2 N1 N2).
    + destruct (He n N2) as [Hn Ht]. destruct (not_taken r n I Hn Ht) as [_ Hx].
      exfalso. exact (Hx e1 H1 N1).
    + destruct (He n N1) as [Hn Ht]. destruct (not_taken r n I Hn Ht) as [_ Hx].
      exfalso. exact (Hx e2 H2 N2).
  - apply Hm in H. destruct H as [H| ->].
    + exact (proj1 (inv_noalias r I x n H H0)).
    + destruct (He n H0) as [Hn Ht]. exact (proj1 (not_taken r n I Hn Ht)).
  - apply Hm in H. destruct H as [H| ->].
    + exact (proj2 (inv_noalias r I x n H H0)).
    + exact (proj1 (He n H0)).
  - intros a Ha. destruct (inv_targets r I a Ha) as (x & Hx & Hn).
    exists x. split; [apply Hm; left; exact Hx|exact Hn].
Qed.

(* ---------- extension order between registry states ---------- *)
Record extends (r r' : reg) : Prop := mkext {
  ext_dyn : exists l, r_dyn r' = r_dyn r ++ l;
  ext_meta : exists l, concat (r_meta r') = concat (r_meta r) ++ l;
  ext_gen : exists l, concat (r_gen r') = concat (r_gen r) ++ l;
  ext_iface : forall i e, nth_error (r_iface r) i = Some (Some e) -> nth_error (r_iface r') i = Some (Some e)
}.

Lemma extends_refl r : extends r r.
Proof. constructor; try (exists []; rewrite app_nil_r; reflexivity). auto. Qed.

Lemma extends_trans a b c : extends a b -> extends b c -> extends a c.
Proof.
  intros [[l1 D1] [m1 M1] [g1 G1] I1] [[l2 D2] [m2 M2] [g2 G2] I2]. constructor.
  - exists (l1 ++ l2). rewrite D2, D1, app_assoc. reflexivity.
  - exists (m1 ++ m2). rewrite M2, M1, app_assoc. reflexivity.
  - exists (g1 ++ g2). rewrite G2, G1, app_assoc. reflexivity.
  - auto.
Qed.

Lemma extends_named r r' : inv r -> inv r' -> extends r r' -> forall e, In e (named r) -> In e (named r').
Proof.
  intros I I' X e H. unfold named in *. apply in_app_iff in H. apply in_app_iff. destruct H as [H|H].
  - left. destruct (ext_meta r r' X) as [l ->]. apply in_app_iff. left. exact H.
  - right. apply (in_iface_entries r e I) in H. destruct H as [i H].
    apply (in_iface_entries r' e I'). exists i. exact (ext_iface r r' X i e H).
Qed.

(* ---------- registration: results, invariant, extension ---------- *)
Lemma basic_add_inv r s : inv r -> inv (fst (basic_add r s)) /\ extends r (fst (basic_add r s)).
Proof.
  intros I. unfold basic_add.
  destruct (Nat.ltb_spec (length (r_dyn r)) dslots) as [H|H]; cbn [fst].
  - split.
    + destruct I. constructor; cbn [r_iface r_ipos r_dyn r_meta r_gen]; try assumption.
      rewrite app_length. cbn [length]. lia.
    + constructor; cbn [r_iface r_ipos r_dyn r_meta r_gen];
        try (exists []; rewrite app_nil_r; reflexivity); eauto.
  - split; [assumption|apply extends_refl].
Qed.

Lemma gen_chunks_ok r : inv r -> chunks_ok gchunk (match r_gen r with [] => [[]] | l => l end) /\
  concat (match r_gen r with [] => [[]] | l => l end) = concat (r_gen r).
Proof.
  intros I. destruct (inv_gen r I) as [E|E].
  - rewrite E. simpl. split; [lia|reflexivity].
  - destruct (r_gen r); [destruct E|]. split; [exact E|reflexivity].
Qed.

Lemma type_add_inv r t : inv r -> inv (fst (type_add r t)) /\ extends r (fst (type_add r t)).
Proof.
  intros I. unfold type_add. destruct t as [t|]; [|split; [assumption|apply extends_refl]].
  destruct (ti_size t =? 0)%N; [split; [assumption|apply extends_refl]|].
  destruct (gen_chunks_ok r I) as [Hc Hcat].
  destruct (gen_add_walk_spec _ Hc g_ValueAdd t) as [S1 S2]. rewrite Hcat in S1, S2.
  destruct (N.ltb_spec g_ValueMax (g_ValueAdd + N.of_nat (length (concat (r_gen r))))) as [H|H].
  - rewrite (S1 H). cbn [fst]. split.
    + destruct I. constructor; cbn [r_iface r_ipos r_dyn r_meta r_gen]; try assumption.
      * right. exact Hc.
      * rewrite Hcat. assumption.
    + constructor; cbn [r_iface r_ipos r_dyn r_meta r_gen];
        try (exists []; rewrite app_nil_r; reflexivity); eauto.
      exists []. rewrite app_nil_r. exact Hcat.
  - destruct (S2 H) as (cs' & E1 & E2 & E3). rewrite E1. cbn [fst]. split.
    + destruct I. constructor; cbn [r_iface r_ipos r_dyn r_meta r_gen]; try assumption.
      * right. exact E3.
      * rewrite E2, app_length. cbn [length]. lia.
    + constructor; cbn [r_iface r_ipos r_dyn r_meta r_gen];
        try (exists []; rewrite app_nil_r; reflexivity); eauto.
Qed.

(* exact results of the four registrations under the invariant *)
Lemma basic_add_cases r s : 
  (basic_add r s = (r, Err MissingBuffer) /\ dslots <= length (r_dyn r)) \/
  (exists sz, basic_add r s =
     (mkreg (r_iface r) (r_ipos r) (r_dyn r ++ [sz]) (r_meta r) (r_gen r),
      Ok (g_DynamicBase + N.of_nat (length (r_dyn r)))%N) /\
     sz = (if (s =? 0)%N then g_PtrSize else s) /\ length (r_dyn r) < dslots).
Proof.
  unfold basic_add. destruct (Nat.ltb_spec (length (r_dyn r)) dslots) as [H|H].
  - right. eexists. repeat split. assumption.
  - left. split; [reflexivity|assumption].
Qed.

Lemma type_add_cases r t : inv r ->
  (exists e, type_add r t = (r, Err e)) \/
  (exists t0 cs', t = Some t0 /\ ti_size t0 <> 0%N /\
     type_add r t = (mkreg (r_iface r) (r_ipos r) (r_dyn r) (r_meta r) cs',
                     Ok (g_ValueAdd + N.of_nat (length (concat (r_gen r))))%N) /\
     concat cs' = concat (r_gen r) ++ [t0] /\ chunks_ok gchunk cs' /\
     (g_ValueAdd + N.of_nat (length (concat (r_gen r))) <= g_ValueMax)%N).
Proof.
  intros I. unfold type_add. destruct t as [t|]; [|left; eexists; reflexivity].
  destruct (N.eqb_spec (ti_size t) 0) as [Hz|Hz]; [left; eexists; reflexivity|].
  destruct (gen_chunks_ok r I) as [Hc Hcat].
  destruct (gen_add_walk_spec _ Hc g_ValueAdd t) as [S1 S2]. rewrite Hcat in S1, S2.
  destruct (N.ltb_spec g_ValueMax (g_ValueAdd + N.of_nat (length (concat (r_gen r))))) as [H|H].
  - rewrite (S1 H). left. exists BadType.
    destruct (r_gen r) as [|c l] eqn:E.
    + simpl in H. pose proof range_order. lia.
    + destruct r; simpl in *; subst; reflexivity.
  - destruct (S2 H) as (cs' & E1 & E2 & E3). rewrite E1. right.
    exists t, cs'. repeat split; assumption.
Qed.

Lemma name_ok_dec r (minlen : nat) (n : option name) (first_len : bool) :
  let refused :=
    match n with
    | Some m => if first_len then (if length m <? minlen then true else name_taken r m)
                else (if name_taken r m then true else length m <? minlen)
    | None => false
    end in
  0 < minlen ->
  (refused = true /\ exists m, n = Some m /\ (length m < minlen \/ name_taken r m = true)) \/
  (refused = false /\ forall m, n = Some m -> minlen <= length m /\ m <> [] /\ name_taken r m = false).
Proof.
  intros refused Hmin. subst refused. destruct n as [m|].
  - destruct first_len.
    + destruct (Nat.ltb_spec (length m) minlen) as [H|H].
      * left. split; [reflexivity|]. exists m. auto.
      * destruct (name_taken r m) eqn:T.
        -- left. split; [reflexivity|]. exists m. auto.
        -- right. split; [reflexivity|]. intros m' E. inversion E; subst. repeat split; auto.
           intros ->. simpl in H. lia.
    + destruct (name_taken r m) eqn:T.
      * left. split; [reflexivity|]. exists m. auto.
      * destruct (Nat.ltb_spec (length m) minlen) as [H|H].
        -- left. split; [reflexivity|]. exists m. auto.
        -- right. split; [reflexivity|]. intros m' E. inversion E; subst. repeat split; auto.
           intros ->. simpl in H. lia.
  - right. split; [reflexivity|]. intros m E. discriminate.
Qed.

Lemma metatype_add_cases r n : inv r ->
  (exists e, metatype_add r n = (r, Ok (inr e))) \/
  (exists cs',
     let e := mkne n (g_MetaPtrBase + N.of_nat (length (concat (r_meta r))))%N ptr_traits in
     metatype_add r n = (mkreg (r_iface r) (r_ipos r) (r_dyn r) cs' (r_gen r), Ok (inl e)) /\
     concat cs' = concat (r_meta r) ++ [e] /\ chunks_ok nchunk cs' /\
     (g_MetaPtrBase + N.of_nat (length (concat (r_meta r))) <= g_MetaPtrMax)%N /\
     (forall m, n = Some m -> g_MinMetaName <= length m /\ m <> [] /\ name_taken r m = false)).
Proof.
  intros I. unfold metatype_add.
  destruct (name_ok_dec r g_MinMetaName n true (proj2 min_name_pos)) as [[E _]|[E Hn]];
    cbv zeta in E; rewrite E.
  - left. eexists. reflexivity.
  - destruct (meta_add_walk_spec _ (inv_meta r I) g_MetaPtrBase n) as [S1 S2].
    destruct (N.ltb_spec g_MetaPtrMax (g_MetaPtrBase + N.of_nat (length (concat (r_meta r))))) as [H|H].
    + rewrite (S1 H). left. eexists. reflexivity.
    + destruct (S2 H) as (cs' & E1 & E2 & E3). rewrite E1. right.
      exists cs'. cbv zeta. repeat split; try assumption; apply (Hn m H0).
Qed.

Lemma interface_add_cases r n : inv r ->
  (exists e, interface_add r n = (r, Ok (inr e))) \/
  (let e := mkne n (g_InterfaceBase + N.of_nat (r_ipos r))%N ptr_traits in
   interface_add r n =
     (mkreg (firstn (r_ipos r) (r_iface r) ++ Some e :: skipn (S (r_ipos r)) (r_iface r))
            (S (r_ipos r)) (r_dyn r) (r_meta r) (r_gen r), Ok (inl e)) /\
   r_ipos r < islots /\
   (forall m, n = Some m -> g_MinIfaceName <= length m /\ m <> [] /\ name_taken r m = false)).
Proof.
  intros I. unfold interface_add.
  destruct (Nat.leb_spec islots (r_ipos r)) as [H|H]; [left; eexists; reflexivity|].
  destruct (name_ok_dec r g_MinIfaceName n false (proj1 min_name_pos)) as [[E _]|[E Hn]];
    cbv zeta in E; rewrite E.
  - left. eexists. reflexivity.
  - right. cbv zeta. unfold set_nth. rewrite (inv_ilen r I).
    destruct (Nat.ltb_spec (r_ipos r) islots); [|lia].
    repeat split; try assumption; apply (Hn m H1).
Qed.

Lemma metatype_add_inv r n : inv r -> inv (fst (metatype_add r n)) /\ extends r (fst (metatype_add r n)).
Proof.
  intros I. destruct (metatype_add_cases r n I) as [[e E]|(cs' & E & Hcat & Hok & Hmax & Hn)];
    rewrite E; cbn [fst]; [split; [assumption|apply extends_refl]|].
  set (e := mkne n (g_MetaPtrBase + N.of_nat (length (concat (r_meta r))))%N ptr_traits) in *.
  set (r' := mkreg (r_iface r) (r_ipos r) (r_dyn r) cs' (r_gen r)).
  assert (Hmem : forall x, In x (named r') <-> In x (named r) \/ x = e).
  { intros x. unfold named, iface_entries, r'. cbn [r_iface r_ipos r_meta]. rewrite Hcat.
    rewrite !in_app_iff. simpl. intuition. }
  destruct (names_extend r (named r') e I Hmem) as (N1 & N2 & N3).
  { intros m Hm. destruct (Hn m Hm) as (_ & A & B). split; assumption. }
  split.
  - constructor; cbn [r_iface r_ipos r_dyn r_meta r_gen r']; try (destruct I; assumption).
    + rewrite Hcat, app_length. cbn [length]. lia.
    + intros i x Hx. rewrite Hcat in Hx.
      destruct (Nat.lt_ge_cases i (length (concat (r_meta r)))) as [Hi|Hi].
      * rewrite nth_error_app1 in Hx by assumption. exact (inv_ment r I i x Hx).
      * rewrite nth_error_app2 in Hx by assumption.
        destruct (i - length (concat (r_meta r))) as [|k] eqn:Ek; simpl in Hx.
        -- inversion Hx; subst x. unfold e. cbn [ne_type ne_traits]. split; [|reflexivity]. f_equal. lia.
        -- destruct k; discriminate.
    + rewrite Hcat, app_length. cbn [length]. lia.
  - constructor; cbn [r_iface r_ipos r_dyn r_meta r_gen];
      try (exists []; rewrite app_nil_r; reflexivity); eauto.
Qed.

Lemma interface_add_inv r n : inv r -> inv (fst (interface_add r n)) /\ extends r (fst (interface_add r n)).
Proof.
  intros I. destruct (interface_add_cases r n I) as [[e E]|(E & Hpos & Hn)];
    rewrite E; cbn [fst]; [split; [assumption|apply extends_refl]|].
  set (e := mkne n (g_InterfaceBase + N.of_nat (r_ipos r))%N ptr_traits) in *.
  set (tab := firstn (r_ipos r) (r_iface r) ++ Some e :: skipn (S (r_ipos r)) (r_iface r)).
  set (r' := mkreg tab (S (r_ipos r)) (r_dyn r) (r_meta r) (r_gen r)).
  assert (Hlen : r_ipos r < length (r_iface r)) by (rewrite (inv_ilen r I); assumption).
  assert (Hnth : forall j, nth_error tab j = if j =? r_ipos r then Some (Some e) else nth_error (r_iface r) j).
  { intros j. apply nth_error_set. assumption. }
  assert (Hmem : forall x, In x (named r') <-> In x (named r) \/ x = e).
  { intros x. unfold named, iface_entries, r'. cbn [r_iface r_ipos r_meta].
    unfold tab. rewrite firstn_set by assumption. rewrite slot_entries_app.
    rewrite !in_app_iff. simpl. intuition. }
  destruct (names_extend r (named r') e I Hmem) as (N1 & N2 & N3).
  { intros m Hm. destruct (Hn m Hm) as (_ & A & B). split; assumption. }
  split.
  - constructor; cbn [r_iface r_ipos r_dyn r_meta r_gen r']; try (destruct I; assumption).
    + unfold tab. rewrite length_set by assumption. exact (inv_ilen r I).
    + intros i x Hx. rewrite Hnth in Hx. destruct (Nat.eqb_spec i (r_ipos r)) as [->|Hne].
      * inversion Hx; subst x. unfold e. cbn [ne_type ne_traits]. repeat split. lia.
      * destruct (inv_islot r I i x Hx) as (A & B & C). repeat split; try assumption. lia.
    + pose proof (inv_ibase r I). lia.
  - constructor; cbn [r_iface r_ipos r_dyn r_meta r_gen];
      try (exists []; rewrite app_nil_r; reflexivity).
    intros i x Hx. rewrite Hnth. destruct (Nat.eqb_spec i (r_ipos r)) as [->|Hne]; [|exact Hx].
    destruct (inv_islot r I _ x Hx). lia.
Qed.

Lemma step_inv r o : inv r -> inv (fst (step r o)) /\ extends r (fst (step r o)).
Proof.
  intros I. destruct o; cbn [step];
    try (cbn [fst]; split; [assumption|apply extends_refl]).
  - pose proof (basic_add_inv r size I). destruct (basic_add r size). exact H.
  - pose proof (type_add_inv r t I). destruct (type_add r t). exact H.
  - pose proof (interface_add_inv r n I). destruct (interface_add r n). exact H.
  - pose proof (metatype_add_inv r n I). destruct (metatype_add r n). exact H.
Qed.

Lemma exec_inv ops : forall r, inv r -> inv (exec r ops) /\ extends r (exec r ops).
Proof.
  unfold exec. induction ops as [|o ops IH]; intros r I; simpl.
  - split; [assumption|apply extends_refl].
  - destruct (step_inv r o I) as [I1 X1]. destruct (IH _ I1) as [I2 X2].
    split; [assumption|]. eapply extends_trans; eassumption.
Qed.
