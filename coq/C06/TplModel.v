(* C06/TplModel.v - the C++ template layer of mptcore/types.h above the registry:
     type_properties<T>::id(bool) / ::traits()   (primary template, T*, span<T>, span<const T>,
     and the full specialisations for the built-in types), basetype(), MPT_type_toVector/toScalar.
   NO proofs in this file.

   One instantiation of a template = one SLOT: its function-local statics are the state
     _valtype  (cached id; only a POSITIVE value is ever used again)          -> t_ids
     traits    (span<const T> only: cached description pointer, 0 = not yet)  -> t_trs
   The layer talks to the registry through two wrappers of mpt++/type_traits_wrap.cpp only:
     type_traits::add(const type_traits &) = OpTypeAdd (Some t),  type_traits::get(int) = OpWrapTraits.
   It is written ONCE, generic in the registry (state R, step function, view of its outputs), and
   instantiated with the mechanism model (reg, step) and with the specification (sreg, sstep):
   TplProps.v proves that the two instances run in lock step wherever the registries do.

   The slot table g_slots mirrors the instantiations of harness/c06_tpl.cpp (which checks every
   sizeof with static_assert and prints the table for comparison, op "tb"). *)
From MptV Require Import Base.Mem C06.Gen_Types C06.TypesModel C06.RegistrySpec C06.RegistryAbs.
Local Open Scope N_scope.

Inductive tslot :=
| TFixed (id : Z) (size : N)        (* full specialisation: id(bool) is a constant, traits() = type_traits::get(id(true)) *)
| TGen (t : tinfo)                  (* primary template (sizeof T, _fini, _init), T* and span<T> (size only): own static object *)
| TSpanC (elem : nat) (t : tinfo).  (* span<const T>: elem = slot of T, t = _dynamic_traits() *)

Definition tag_of (k : nat) : option N := Some (100000 + N.of_nat k).
Definition gen (k : nat) (size : N) (managed : bool) : tslot := TGen (mkti size managed managed (tag_of k)).
Definition spanc (k elem : nat) : tslot := TSpanC elem (mkti g_IovecSize false false (tag_of k)).

Definition g_slots : list tslot := [
  TFixed 100 8;  (*  0 double        *)   TFixed 102 4;  (*  1 float         *)
  TFixed 101 16; (*  2 long double   *)   TFixed 98 1;   (*  3 int8_t        *)
  TFixed 110 2;  (*  4 int16_t       *)   TFixed 105 4;  (*  5 int32_t       *)
  TFixed 120 8;  (*  6 int64_t       *)   TFixed 121 1;  (*  7 uint8_t       *)
  TFixed 113 2;  (*  8 uint16_t      *)   TFixed 117 4;  (*  9 uint32_t      *)
  TFixed 116 8;  (* 10 uint64_t      *)   TFixed 99 1;   (* 11 char          *)
  TFixed 115 8;  (* 12 const char *  *)   TFixed 25 16;  (* 13 value         *)
  TFixed 128 8;  (* 14 convertable * *)   TFixed 134 8;  (* 15 iterator *    *)
  TFixed 134 8;  (* 16 source<double> * *)
  gen 17 24 true;   (* struct of 24 bytes *)
  gen 18 8 true;    (* class with constructor / destructor, 8 bytes *)
  gen 19 1 true;    (* struct of 1 byte *)
  gen 20 40 true;   (* struct of 5 doubles *)
  gen 21 8 false;   (* pointer to the 24-byte struct *)
  gen 22 8 false;   (* double * : the pointer template does not look at the pointee *)
  gen 23 g_IovecSize false;   (* span<24-byte struct> *)
  gen 24 g_IovecSize false;   (* span<double>: a span of NON-const elements always gets an id of its own *)
  spanc 25 0;  (* span<const double>       -> 'D' *)
  spanc 26 11; (* span<const char>         -> 'C' *)
  spanc 27 12; (* span<const char * const> -> 'S' *)
  spanc 28 17; (* span<const 24-byte struct>: dynamic *)
  spanc 29 18; (* span<const class>: dynamic *)
  spanc 30 13; (* span<const value>: value has a built-in id that is no scalar: dynamic *)
  spanc 31 2;  (* span<const long double>  -> 'E' *)
  spanc 32 21; (* span<struct * const>: dynamic *)
  spanc 33 5   (* span<const int32_t>      -> 'I' *)
]%Z.

(* error codes as C ints *)
Definition err_z (e : err) : Z :=
  match e with
  | BadArgument => -1 | BadValue => -2 | BadType => -3 | BadOperation => -4 | BadEncoding => -8
  | MissingData => -16 | MissingBuffer => -17 | ERange => -100 | EInval => -101
  end%Z.

(* MPT_type_toVector / MPT_type_toScalar applied to an int (the result is cast to uint8_t) *)
Definition z_is_scalar (v : Z) : bool := (Z.of_N g_ScalarBase <=? v)%Z && (v <=? Z.of_N g_ScalarLast)%Z.
Definition z_is_vector (v : Z) : bool := (Z.of_N g_VectorBase <=? v)%Z && (v <=? Z.of_N g_VectorLast)%Z.
Definition to_vector (v : Z) : Z :=
  if z_is_scalar v then ((v - Z.of_N g_ScalarBase + Z.of_N g_VectorBase) mod 256)%Z else 0%Z.
Definition to_scalar (v : Z) : Z :=
  if z_is_vector v then ((v - Z.of_N g_VectorBase + Z.of_N g_ScalarBase) mod 256)%Z else 0%Z.

(* basetype(type_t): the id range a value of that type is stored as *)
Definition is_convertable (v : N) : bool := (v =? g_TypeConvertablePtr) || (v =? g_TypeMetaRef) || is_metaptr v.
Definition basetype (org : N) : N :=
  if org =? 0 then 0
  else if org <=? g_DynamicLast then org
  else if org =? g_TypeArray then g_TypeBufferPtr
  else if is_convertable org then g_TypeConvertablePtr
  else 0.

(* conversion of a (registry) id to the C++ int the templates keep it in *)
Definition int_wrap (z : Z) : Z :=
  ((z + 2 ^ (Z.of_N g_IntBits - 1)) mod 2 ^ Z.of_N g_IntBits - 2 ^ (Z.of_N g_IntBits - 1))%Z.

(* what the layer needs to see of a registry answer *)
Inductive tview := VId (id : N) | VRef (c : Z) | VTr (t : option tinfo) | VBad.

Definition mview (x : out) : tview :=
  match x with
  | OId i => VId i
  | OCode e => VRef (err_z e)
  | ONull _ => VRef (-1)
  | OAlias (AliasErr e) => VRef (err_z e)
  | OTraits t => VTr t
  | _ => VBad
  end.
Definition sview (x : sout) : tview :=
  match x with
  | SId i => VId i
  | SRefused => VRef 0
  | STraits t => VTr t
  | _ => VBad
  end.

Definition tinfo_eqb (a b : tinfo) : bool :=
  (ti_size a =? ti_size b) && Bool.eqb (ti_init a) (ti_init b) && Bool.eqb (ti_fini a) (ti_fini b) &&
  match ti_tag a, ti_tag b with
  | Some x, Some y => x =? y
  | None, None => true
  | _, _ => false
  end.

(* The behaviour part of a description of the primary template: _init(ptr, 0) default-constructs, _init(ptr, src)
   copy-constructs, _fini destroys.  Observation on a scratch object (see harness op px): first byte after default
   construction, after copy construction from an object whose first byte was set to 9, and after destruction,
   packed as d * 10000 + c * 100 + f; -1: the description has no init function.  Slot 18 is a class whose
   constructor stores 7 and whose destructor stores 0; the other managed slots are plain structs (value
   initialisation = 0, destruction leaves the bytes). *)
Definition g_class_slots : list nat := [18%nat].
Definition tbehave (k : nat) : Z :=
  match nth_error g_slots k with
  | Some (TGen t) =>
    if ti_init t then (if existsb (Nat.eqb k) g_class_slots then 70900 else 909)%Z else (-1)%Z
  | _ => (-1)%Z
  end.

(* operations of the layer *)
Inductive top :=
| TBase (o : op)                    (* anything the wrappers offer, interleaved *)
| TId (k : nat) (obtain : bool)     (* type_properties<T_k>::id(obtain) *)
| TTraits (k : nat)                 (* type_properties<T_k>::traits(), then id(false) and type_traits::get of it *)
| TBasetype (id : N)
| TToVector (v : Z) | TToScalar (v : Z)
| TBehave (k : nat).                (* run the init / fini functions of the description of T_k on a scratch object *)

(* relation of the description handed out by traits() to what the registry says about id(false):
   RSame = the very same object, RDiff = another one, RNoId = no id (yet) *)
Inductive trel := RSame | RDiff | RNoId.

Inductive tout (O : Type) :=
| TOut (x : O)
| TInt (z : Z)                      (* id or constant *)
| TRef (c : Z)                      (* negative result: refused *)
| TTr (t : option tinfo) (r : trel)
| TBadOut.
Arguments TOut {O} x. Arguments TInt {O} z. Arguments TRef {O} c. Arguments TTr {O} t r. Arguments TBadOut {O}.

Section Layer.
Context {R O : Type}.
Variable rstep : R -> op -> R * O.
Variable view : O -> tview.

Record tst := mkt { t_reg : R; t_ids : list (option N); t_trs : list (option tinfo) }.

Fixpoint upd {A} (l : list (option A)) (k : nat) (x : A) : list (option A) :=
  match k, l with
  | 0%nat, [] => [Some x]
  | 0%nat, _ :: l => Some x :: l
  | S k, [] => None :: upd [] k x
  | S k, a :: l => a :: upd l k x
  end.
Definition cached {A} (l : list (option A)) (k : nat) : option A := nth k l None.

(* id(false) of an element type: a constant, or the cached value *)
Definition peek_id (st : tst) (e : nat) : Z :=
  match nth_error g_slots e with
  | Some (TFixed id _) => id
  | Some _ => match cached (t_ids st) e with Some v => Z.of_N v | None => err_z BadType end
  | None => err_z BadType
  end.

(* if (!obtain) return BadType;  return _valtype = type_traits::add( *traits ) *)
Definition reg_add (st : tst) (k : nat) (t : tinfo) (obtain : bool) : tst * tout O :=
  if negb obtain then (st, TRef (err_z BadType)) else
  let '(r', x) := rstep (t_reg st) (OpTypeAdd (Some t)) in
  match view x with
  | VId v => (mkt r' (if 0 <? v then upd (t_ids st) k v else t_ids st) (t_trs st), TInt (Z.of_N v))
  | VRef c => (mkt r' (t_ids st) (t_trs st), TRef c)
  | _ => (mkt r' (t_ids st) (t_trs st), TBadOut)
  end.

Definition tid (st : tst) (k : nat) (obtain : bool) : tst * tout O :=
  match nth_error g_slots k with
  | Some (TFixed id _) => (st, TInt id)
  | Some (TGen t) =>
    match cached (t_ids st) k with
    | Some v => (st, TInt (Z.of_N v))
    | None => reg_add st k t obtain
    end
  | Some (TSpanC e t) =>
    match cached (t_ids st) k with
    | Some v => (st, TInt (Z.of_N v))
    | None =>
      (* use vector IDs for builtin types *)
      let v := to_vector (peek_id st e) in
      if (0 <? v)%Z then (mkt (t_reg st) (upd (t_ids st) k (Z.to_N v)) (t_trs st), TInt v)
      else reg_add st k t obtain
    end
  | None => (st, TBadOut)
  end.

(* type_traits::get(int): the argument is a C++ int *)
Definition get_traits (st : tst) (id : Z) : tst * option (option tinfo) :=
  let '(r', x) := rstep (t_reg st) (OpWrapTraits (int_wrap id)) in
  (mkt r' (t_ids st) (t_trs st), match view x with VTr t => Some t | _ => None end).

Definition ttraits (st : tst) (k : nat) : tst * option (option tinfo) :=
  match nth_error g_slots k with
  | Some (TFixed id _) => get_traits st id
  | Some (TGen t) => (st, Some (Some t))
  | Some (TSpanC e t) =>
    match cached (t_trs st) k with
    | Some tr => (st, Some (Some tr))
    | None =>
      let '(st1, x) := tid st k true in
      (* if (type < 0 || !(traits = type_traits::get(type))) traits = _dynamic_traits(); *)
      let '(st2, tr) :=
        match x with
        | TInt ty =>
          if (ty <? 0)%Z then (st1, t)
          else match get_traits st1 ty with
               | (st2, Some (Some u)) => (st2, u)
               | (st2, _) => (st2, t)
               end
        | _ => (st1, t)
        end in
      (mkt (t_reg st2) (t_ids st2) (upd (t_trs st2) k tr), Some (Some tr))
    end
  | None => (st, None)
  end.

(* traits(), then how the registry describes id(false) *)
Definition ttraits_rel (st : tst) (k : nat) : tst * tout O :=
  match ttraits st k with
  | (st1, None) => (st1, TBadOut)
  | (st1, Some tr) =>
    let '(st2, x) := tid st1 k false in
    match x with
    | TInt v =>
      if (0 <? v)%Z then
        match get_traits st2 v with
        | (st3, Some d) =>
          (st3, TTr tr (match tr, d with
                        | Some a, Some b => if tinfo_eqb a b then RSame else RDiff
                        | None, None => RSame
                        | _, _ => RDiff
                        end))
        | (st3, None) => (st3, TBadOut)
        end
      else (st2, TTr tr RNoId)
    | TRef _ => (st2, TTr tr RNoId)
    | _ => (st2, TBadOut)
    end
  end.

Definition tstep (st : tst) (o : top) : tst * tout O :=
  match o with
  | TBase b => let '(r', x) := rstep (t_reg st) b in (mkt r' (t_ids st) (t_trs st), TOut x)
  | TId k obtain => tid st k obtain
  | TTraits k => ttraits_rel st k
  | TBasetype id => (st, TInt (Z.of_N (basetype id)))
  | TToVector v => (st, TInt (to_vector v))
  | TToScalar v => (st, TInt (to_scalar v))
  | TBehave k => (st, TInt (tbehave k))
  end.

Fixpoint trun (st : tst) (ops : list top) : list (tout O) :=
  match ops with
  | [] => []
  | o :: ops => let '(st', x) := tstep st o in x :: trun st' ops
  end.
Definition texec (st : tst) (ops : list top) : tst := fold_left (fun s o => fst (tstep s o)) ops st.
End Layer.

Arguments mkt {R} t_reg t_ids t_trs.

Definition nslots : nat := length g_slots.
Definition t0 {R} (r : R) : tst := mkt r (repeat None nslots) (repeat None nslots).

(* the two instances *)
Definition mtstep := @tstep reg out step mview.
Definition mtrun := @trun reg out step mview.
Definition mtexec := @texec reg out step mview.
Definition ststep := @tstep sreg sout sstep sview.
Definition strun := @trun sreg sout sstep sview.
Definition stexec := @texec sreg sout sstep sview.
