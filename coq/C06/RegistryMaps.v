(* C06/RegistryMaps.v — facts about the finite maps of RegistrySpec.v (sorted
   association lists) and about [tab] (RegistryAbs.v), for any key order that is
   a strict total order; instances for ids (N.compare) and names (name_cmp). *)
From MptV Require Import Base.Mem C06.Gen_Types C06.TypesModel C06.RegistrySpec C06.RegistryAbs.
Local Open Scope N_scope.

Section Laws.
  Context {K V : Type} (cmp : K -> K -> comparison).
  Hypothesis cmp_eq : forall a b, cmp a b = Eq -> a = b.
  Hypothesis cmp_refl : forall a, cmp a a = Eq.
  Hypothesis cmp_anti : forall a b, cmp b a = CompOpp (cmp a b).
  Hypothesis cmp_trans : forall a b c, cmp a b = Lt -> cmp b c = Lt -> cmp a c = Lt.

  Lemma gt_lt a b : cmp a b = Gt -> cmp b a = Lt.
  Proof. intros H. rewrite cmp_anti, H. reflexivity. Qed.
  Lemma lt_gt a b : cmp a b = Lt -> cmp b a = Gt.
  Proof. intros H. rewrite cmp_anti, H. reflexivity. Qed.

  Lemma cmp_neq a b : a <> b -> cmp a b <> Eq.
  Proof. intros H E. apply H, cmp_eq, E. Qed.

  Lemma fget_fput k k' (v : V) m :
    fget cmp k (fput cmp k' v m) = match cmp k k' with Eq => Some v | _ => fget cmp k m end.
  Proof.
    induction m as [|[k1 v1] t IH]; cbn [fput fget].
    - destruct (cmp k k'); reflexivity.
    - destruct (cmp k' k1) eqn:E1; cbn [fget].
      + apply cmp_eq in E1. subst k1. destruct (cmp k k'); reflexivity.
      + destruct (cmp k k'); reflexivity.
      + rewrite IH. destruct (cmp k k1) eqn:A, (cmp k k') eqn:B; try reflexivity.
        apply cmp_eq in A, B. subst. rewrite cmp_refl in E1. discriminate.
  Qed.

  Lemma fget_fput_same k (v : V) m : fget cmp k (fput cmp k v m) = Some v.
  Proof. rewrite fget_fput, cmp_refl. reflexivity. Qed.

  Lemma fget_fput_other k k' (v : V) m : k <> k' -> fget cmp k (fput cmp k' v m) = fget cmp k m.
  Proof.
    intros H. rewrite fget_fput. pose proof (cmp_neq k k' H). destruct (cmp k k'); congruence.
  Qed.

  Ltac add_fact H :=
    let T := type of H in
    lazymatch goal with
    | _ : T |- _ => fail
    | _ => pose proof H
    end.

  Ltac sat :=
    repeat match goal with
    | H : cmp ?x ?y = Eq |- _ => apply cmp_eq in H; subst
    | H : cmp ?x ?y = Gt |- _ => add_fact (gt_lt _ _ H)
    | H : cmp ?x ?y = Lt |- _ => add_fact (lt_gt _ _ H)
    | H1 : cmp ?x ?y = Lt, H2 : cmp ?y ?z = Lt |- _ => add_fact (cmp_trans _ _ _ H1 H2)
    end.

  Ltac use_cmp :=
    repeat (cbn [fput];
            repeat match goal with
            | H : cmp ?x ?y = _ |- context [cmp ?x ?y] => rewrite H
            | |- context [cmp ?x ?x] => rewrite (cmp_refl x)
            end).

  (* insertion order does not matter: the list is canonical *)
  Lemma fput_comm a (x : V) b y m : a <> b ->
    fput cmp a x (fput cmp b y m) = fput cmp b y (fput cmp a x m).
  Proof.
    intros Hab. pose proof (cmp_neq a b Hab) as Nab.
    induction m as [|[k v] t IH].
    - destruct (cmp a b) eqn:Eab; [congruence| |]; sat; use_cmp; reflexivity.
    - destruct (cmp a b) eqn:Eab; [congruence| |];
        destruct (cmp b k) eqn:Ebk; destruct (cmp a k) eqn:Eak; sat; use_cmp;
        try reflexivity; try congruence;
        try (rewrite IH; reflexivity);
        try (exfalso; match goal with H : cmp ?u ?u = Lt |- _ => rewrite cmp_refl in H; discriminate
                                    | H : cmp ?u ?u = Gt |- _ => rewrite cmp_refl in H; discriminate end).
  Qed.

  (* ---------- tab ---------- *)
  Lemma tab_ext (f g : N -> option (K * V)) n : forall b,
    (forall i, b <= i < b + N.of_nat n -> f i = g i) -> tab cmp f b n = tab cmp g b n.
  Proof.
    induction n as [|n IH]; intros b H; [reflexivity|].
    cbn [tab]; unfold opt_put. rewrite <- (H b) by lia. rewrite (IH (b + 1)) by (intros i Hi; apply H; lia).
    reflexivity.
  Qed.

  (* one more binding at position j, with a key no other position carries *)
  Lemma tab_ins (f g : N -> option (K * V)) j k v n : forall b,
    b <= j < b + N.of_nat n ->
    f j = None -> g j = Some (k, v) ->
    (forall i, b <= i < b + N.of_nat n -> i <> j -> g i = f i) ->
    (forall i k' v', b <= i < b + N.of_nat n -> f i = Some (k', v') -> k' <> k) ->
    tab cmp g b n = fput cmp k v (tab cmp f b n).
  Proof.
    induction n as [|n IH]; intros b Hj Hf Hg Hframe Hfresh; [lia|].
    cbn [tab]; unfold opt_put. destruct (N.eq_dec b j) as [->|Hne].
    - rewrite Hf, Hg. f_equal. apply tab_ext. intros i Hi. apply Hframe; lia.
    - rewrite (Hframe b) by lia.
      rewrite (IH (b + 1)); try assumption; try lia.
      + destruct (f b) as [[k' v']|] eqn:E; [|reflexivity].
        apply fput_comm. apply (Hfresh b k' v'); [lia|exact E].
      + intros i Hi Hij. apply Hframe; [lia|assumption].
      + intros i k' v' Hi. apply Hfresh. lia.
  Qed.

  Lemma fget_tab_some (f : N -> option (K * V)) k v n : forall b,
    fget cmp k (tab cmp f b n) = Some v ->
    exists i, b <= i < b + N.of_nat n /\ f i = Some (k, v).
  Proof.
    induction n as [|n IH]; intros b H; [discriminate|].
    cbn [tab] in H; unfold opt_put in H. destruct (f b) as [[k1 v1]|] eqn:E.
    - rewrite fget_fput in H. destruct (cmp k k1) eqn:C.
      + apply cmp_eq in C. subst k1. inversion H; subst v1. exists b. split; [lia|exact E].
      + destruct (IH _ H) as (i & Hi & Fi). exists i. split; [lia|exact Fi].
      + destruct (IH _ H) as (i & Hi & Fi). exists i. split; [lia|exact Fi].
    - destruct (IH _ H) as (i & Hi & Fi). exists i. split; [lia|exact Fi].
  Qed.

  Lemma fget_tab_none (f : N -> option (K * V)) k n : forall b,
    fget cmp k (tab cmp f b n) = None ->
    forall i v, b <= i < b + N.of_nat n -> f i <> Some (k, v).
  Proof.
    induction n as [|n IH]; intros b H i v Hi; [lia|].
    cbn [tab] in H; unfold opt_put in H. destruct (f b) as [[k1 v1]|] eqn:E.
    - rewrite fget_fput in H. destruct (cmp k k1) eqn:C; [discriminate| |];
        (destruct (N.eq_dec i b) as [->|Hne];
         [rewrite E; intros X; inversion X; subst; rewrite cmp_refl in C; discriminate
         |apply (IH _ H); lia]).
    - destruct (N.eq_dec i b) as [->|Hne]; [rewrite E; discriminate|apply (IH _ H); lia].
  Qed.
End Laws.

(* ---------- the two key orders ---------- *)
Lemma ncmp_eq a b : N.compare a b = Eq -> a = b.
Proof. apply N.compare_eq. Qed.
Lemma ncmp_trans a b c : N.compare a b = Lt -> N.compare b c = Lt -> N.compare a c = Lt.
Proof. rewrite !N.compare_lt_iff. lia. Qed.

Lemma name_cmp_eq a : forall b, name_cmp a b = Eq -> a = b.
Proof.
  induction a as [|x a IH]; intros [|y b]; simpl; intros H; try reflexivity; try discriminate.
  destruct (x ?= y) eqn:E; try discriminate. apply N.compare_eq in E. subst. f_equal. apply IH, H.
Qed.
Lemma name_cmp_refl a : name_cmp a a = Eq.
Proof. induction a as [|x a IH]; simpl; [reflexivity|]. rewrite N.compare_refl. exact IH. Qed.
Lemma name_cmp_anti a : forall b, name_cmp b a = CompOpp (name_cmp a b).
Proof.
  induction a as [|x a IH]; intros [|y b]; simpl; try reflexivity.
  rewrite (N.compare_antisym x y). destruct (x ?= y); simpl; try reflexivity. apply IH.
Qed.
Lemma name_cmp_trans a : forall b c, name_cmp a b = Lt -> name_cmp b c = Lt -> name_cmp a c = Lt.
Proof.
  induction a as [|x a IH]; intros [|y b] [|z c]; simpl; intros H1 H2; try reflexivity; try discriminate.
  destruct (x ?= y) eqn:E1; try discriminate; destruct (y ?= z) eqn:E2; try discriminate.
  - apply N.compare_eq in E1, E2. subst. rewrite N.compare_refl. eapply IH; eassumption.
  - apply N.compare_eq in E1. subst. rewrite E2. reflexivity.
  - apply N.compare_eq in E2. subst. rewrite E1. reflexivity.
  - rewrite (ncmp_trans _ _ _ E1 E2). reflexivity.
Qed.

(* instances *)
Lemma id_get_put {V} k k' (v : V) m :
  fget N.compare k (fput N.compare k' v m) = match N.compare k k' with Eq => Some v | _ => fget N.compare k m end.
Proof. apply fget_fput; auto using ncmp_eq, N.compare_refl. Qed.
Lemma nm_get_put {V} k k' (v : V) m :
  fget name_cmp k (fput name_cmp k' v m) = match name_cmp k k' with Eq => Some v | _ => fget name_cmp k m end.
Proof. apply fget_fput; auto using name_cmp_eq, name_cmp_refl. Qed.

(* the id map of [tab] over bindings keyed by the position itself *)
Lemma fget_tab_id {V} (g : N -> option V) id n : forall b,
  fget N.compare id (tab N.compare (fun i => option_map (fun d => (i, d)) (g i)) b n) =
  if (b <=? id) && (id <? b + N.of_nat n) then g id else None.
Proof.
  induction n as [|n IH]; intros b.
  - cbn [tab fget]. destruct (N.leb_spec b id); [|reflexivity].
    destruct (N.ltb_spec id (b + N.of_nat 0)); [lia|reflexivity].
  - cbn [tab]; unfold opt_put. destruct (g b) as [d|] eqn:E; cbn [option_map].
    + rewrite id_get_put, IH. destruct (N.compare_spec id b) as [->|H|H].
      * rewrite E. destruct (N.leb_spec b b); [|lia]. destruct (N.ltb_spec b (b + N.of_nat (S n))); [reflexivity|lia].
      * destruct (N.leb_spec (b + 1) id); [lia|]. destruct (N.leb_spec b id); [lia|]. reflexivity.
      * destruct (N.leb_spec (b + 1) id); [|lia]. destruct (N.leb_spec b id); [|lia].
        cbn [andb]. destruct (N.ltb_spec id (b + 1 + N.of_nat n)), (N.ltb_spec id (b + N.of_nat (S n)));
          try reflexivity; lia.
    + rewrite IH. destruct (N.eq_dec id b) as [->|Hne].
      * rewrite E. destruct (N.leb_spec (b + 1) b); [lia|]. cbn [andb].
        destruct ((b <=? b) && (b <? b + N.of_nat (S n))); reflexivity.
      * destruct (N.leb_spec (b + 1) id), (N.leb_spec b id); try lia; cbn [andb]; try reflexivity.
        destruct (N.ltb_spec id (b + 1 + N.of_nat n)), (N.ltb_spec id (b + N.of_nat (S n)));
          try reflexivity; lia.
Qed.
