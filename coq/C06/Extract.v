(* Extraction of the executable model and specification of C06 (ExtrOcamlBasic only). *)
From MptV Require Import Base.Mem C06.Gen_Types C06.TypesModel C06.RegistrySpec C06.TplModel.
Require Import ExtrOcamlBasic.
Extraction "c06_model.ml" run srun reg0 sreg0 exec sexec fini_counts mtrun strun t0 g_slots.
