(* C06/RegistryLookup.v — refinement, part 1: every lookup of the mechanism model
   (by id: mpt_type_traits / mpt_interface_traits / mpt_metatype_traits, by name:
   mpt_named_traits in both modes, mpt_alias_typeid, the sweep) returns what the
   specification reads off the abstract state [abs r], for every state satisfying
   the invariant. *)
From MptV Require Import Base.Mem C06.Gen_Types C06.TypesModel C06.TypesFacts C06.TypesChunks
  C06.TypesInv C06.TypesProps C06.RegistrySpec C06.RegistryAbs C06.RegistryMaps.
Local Open Scope N_scope.

(* ---------- more facts about the generated constants (re-checked on regeneration) ---------- *)
(* the dynamic table has exactly as many slots as its id range has ids *)
Lemma dyn_capacity_exact : g_DynamicBase + g_DynamicSlots = g_DynamicMax + 1.
Proof. vm_compute. reflexivity. Qed.

Lemma sweep_in_word : g_SweepEnd < 2 ^ g_WordBits.
Proof. vm_compute. reflexivity. Qed.

Lemma span_N : N.of_nat id_span = g_ValueMax + 1.
Proof. unfold id_span. apply N2Nat.id. Qed.

(* ---------- the id map of [abs] ---------- *)
Lemma abs_types r : s_types (abs r) = tab N.compare (type_binding r) 0 id_span.
Proof. reflexivity. Qed.
Lemma abs_names r : s_names (abs r) = tab name_cmp (name_binding r) 0 id_span.
Proof. reflexivity. Qed.

Lemma s_find_abs r n : s_find (abs r) n = fget name_cmp n (tab name_cmp (name_binding r) 0 id_span).
Proof. unfold s_find. rewrite abs_names. reflexivity. Qed.

Lemma abs_get r id : s_get (abs r) id = if id <=? g_ValueMax then descr r id else None.
Proof.
  unfold s_get. rewrite abs_types. unfold type_binding. rewrite fget_tab_id, span_N.
  destruct (N.leb_spec 0 id); [|lia]. cbn [andb].
  destruct (N.ltb_spec id (0 + (g_ValueMax + 1))), (N.leb_spec id g_ValueMax); try reflexivity; lia.
Qed.

(* ---------- the by-id lookups always return ---------- *)
Lemma interface_traits_ok r id : inv r -> exists x, interface_traits r id = Ok x.
Proof.
  intros I. destruct (N.lt_ge_cases id g_InterfaceBase) as [H|H].
  - rewrite interface_traits_out by lia. eauto.
  - destruct (N.lt_ge_cases g_InterfaceMax id) as [H2|H2].
    + rewrite interface_traits_out by lia. eauto.
    + rewrite interface_traits_slot by (assumption || lia).
      destruct (nth_error _ _) as [[e|]|]; eauto.
Qed.

Lemma metatype_traits_ok r id : inv r -> exists x, metatype_traits r id = Ok x.
Proof.
  intros I. destruct (N.lt_ge_cases id g_MetaPtrBase) as [H|H].
  - rewrite metatype_traits_out by lia. eauto.
  - destruct (N.lt_ge_cases g_MetaPtrMax id) as [H2|H2].
    + rewrite metatype_traits_out by lia. eauto.
    + rewrite metatype_traits_flat by (assumption || lia).
      destruct (nth_error _ _); eauto.
Qed.

Lemma size_entry_ok tab t pos : tab = Ok t -> (pos < length t)%nat -> exists x, size_entry tab pos = Ok x.
Proof.
  intros -> H. unfold size_entry. cbn [bind].
  destruct (nth_error t pos) eqn:E; [eauto|]. apply nth_error_None in E. lia.
Qed.

Lemma named_result_ok x : (exists y, x = Ok y) -> exists t, named_result x = Ok t.
Proof. intros [y ->]. simpl. eauto. Qed.

Lemma type_traits_ok r id : inv r -> exists t, type_traits r id = Ok t.
Proof.
  intros I. unfold type_traits.
  destruct (tables_ok) as ((ct & Hct) & (st & Hst) & (vt & Hvt)).
  destruct (tables_len) as (Lc & Ls & Lv). pose proof table_span as [TS TV].
  destruct (id =? 0); [eauto|].
  destruct (N.ltb_spec id g_CoreSize).
  { apply (size_entry_ok _ ct); [assumption|]. rewrite (Lc _ Hct). lia. }
  destruct (is_scalar id) eqn:Es.
  { unfold is_scalar in Es. apply andb_true_iff in Es. destruct Es as [E1 E2].
    apply N.leb_le in E1, E2.
    apply (size_entry_ok _ st); [assumption|]. rewrite (Ls _ Hst). lia. }
  destruct (is_vector id) eqn:Ev.
  { unfold is_vector in Ev. apply andb_true_iff in Ev. destruct Ev as [E1 E2].
    apply N.leb_le in E1, E2.
    apply (size_entry_ok _ vt); [assumption|]. rewrite (Lv _ Hvt). lia. }
  destruct (is_interface id).
  { apply named_result_ok, interface_traits_ok, I. }
  destruct (is_dynamic id).
  { destruct (Nat.leb_spec (length (r_dyn r)) (N.to_nat (id - g_DynamicBase))); [eauto|].
    destruct (nth_error (r_dyn r) _) eqn:E; [eauto|]. apply nth_error_None in E. lia. }
  destruct (assoc id g_static_types) as [[[s i] f]|]; [eauto|].
  destruct (is_metaptr id).
  { apply named_result_ok, metatype_traits_ok, I. }
  rewrite gen_lookup_flat by (try assumption; apply wsub_lt). eauto.
Qed.

(* an entry is only found inside the range of its kind *)
Lemma iface_entry_range r id e : interface_traits r id = Ok (inl e) -> g_InterfaceBase <= id <= g_InterfaceMax.
Proof.
  intros H. destruct (N.lt_ge_cases id g_InterfaceBase) as [H1|H1];
    [rewrite interface_traits_out in H by lia; discriminate|].
  destruct (N.lt_ge_cases g_InterfaceMax id) as [H2|H2];
    [rewrite interface_traits_out in H by lia; discriminate|]. lia.
Qed.

Lemma meta_entry_range r id e : metatype_traits r id = Ok (inl e) -> g_MetaPtrBase <= id <= g_MetaPtrMax.
Proof.
  intros H. destruct (N.lt_ge_cases id g_MetaPtrBase) as [H1|H1];
    [rewrite metatype_traits_out in H by lia; discriminate|].
  destruct (N.lt_ge_cases g_MetaPtrMax id) as [H2|H2];
    [rewrite metatype_traits_out in H by lia; discriminate|]. lia.
Qed.

(* ---------- descr ---------- *)
Lemma descr_iface r id e : interface_traits r id = Ok (inl e) ->
  descr r id = Some (mkdesc KInterface (ne_traits e) (ne_name e)).
Proof. intros H. unfold descr. rewrite H. reflexivity. Qed.

Lemma descr_meta r id e : metatype_traits r id = Ok (inl e) ->
  descr r id = Some (mkdesc KMetatype (ne_traits e) (ne_name e)).
Proof.
  intros H. pose proof (meta_entry_range r id e H). ranges.
  unfold descr. rewrite interface_traits_out by lia. rewrite H. reflexivity.
Qed.

(* a description with a name or of a named kind comes from an entry of the two named tables *)
Lemma descr_entry r id d : inv r -> descr r id = Some d ->
  (d_kind d = KInterface \/ d_kind d = KMetatype \/ d_name d <> None) ->
  exists e, In e (named r) /\ ne_type e = id /\ ne_name e = d_name d /\ ne_traits e = d_info d /\
    ((interface_traits r id = Ok (inl e) /\ d_kind d = KInterface) \/
     (metatype_traits r id = Ok (inl e) /\ d_kind d = KMetatype)).
Proof.
  intros I H K. unfold descr in H.
  destruct (interface_traits r id) as [[e|x]| |] eqn:Ei.
  - inversion H; subst d. cbn [d_kind d_name d_info].
    destruct (lookup_in_named r id e I (or_introl Ei)) as [A B]. exists e. repeat split; auto.
  - destruct (metatype_traits r id) as [[e|y]| |] eqn:Em.
    + inversion H; subst d. cbn [d_kind d_name d_info].
      destruct (lookup_in_named r id e I (or_intror Em)) as [A B]. exists e. repeat split; auto.
    + destruct (type_traits r id) as [[t|]| |]; try discriminate. inversion H; subst d.
      cbn [d_kind d_name] in K. exfalso.
      destruct K as [K|[K|K]]; [| |congruence];
        destruct (is_dynamic id); try discriminate; destruct (g_ValueAdd <=? id); discriminate.
    + destruct (metatype_traits_ok r id I) as [z Hz]. congruence.
    + destruct (metatype_traits_ok r id I) as [z Hz]. congruence.
  - destruct (interface_traits_ok r id I) as [z Hz]. congruence.
  - destruct (interface_traits_ok r id I) as [z Hz]. congruence.
Qed.

(* ---------- lookup by id ---------- *)
Lemma traits_refines r id : inv r -> id < 2 ^ g_WordBits ->
  type_traits r id = Ok (option_map d_info (s_get (abs r) id)).
Proof.
  intros I W. rewrite abs_get. ranges.
  destruct (N.leb_spec id g_ValueMax) as [Hm|Hm].
  - unfold descr. destruct (interface_traits r id) as [[e|x]| |] eqn:Ei.
    + pose proof (iface_entry_range r id e Ei). rewrite tt_iface by lia. rewrite Ei. reflexivity.
    + destruct (metatype_traits r id) as [[e|y]| |] eqn:Em.
      * pose proof (meta_entry_range r id e Em). rewrite tt_meta by lia. rewrite Em. reflexivity.
      * destruct (type_traits_ok r id I) as [t Ht]. rewrite Ht. destruct t; reflexivity.
      * destruct (metatype_traits_ok r id I) as [z Hz]. congruence.
      * destruct (metatype_traits_ok r id I) as [z Hz]. congruence.
    + destruct (interface_traits_ok r id I) as [z Hz]. congruence.
    + destruct (interface_traits_ok r id I) as [z Hz]. congruence.
  - rewrite tt_gen by lia. rewrite wsub_small by lia.
    rewrite gen_lookup_flat by (assumption || lia).
    pose proof (inv_glen r I).
    destruct (nth_error (concat (r_gen r)) (N.to_nat (id - g_ValueAdd))) eqn:E; [|reflexivity].
    assert (N.to_nat (id - g_ValueAdd) < length (concat (r_gen r)))%nat by (apply nth_error_Some; congruence).
    lia.
Qed.

(* the C++ wrapper type_traits::get(int): a negative int is converted to an id above every range *)
Lemma int_below_word :
  (Z.of_N g_ValueMax + 2 ^ (Z.of_N g_IntBits - 1) < 2 ^ Z.of_N g_WordBits)%Z /\ (0 < Z.of_N g_IntBits)%Z.
Proof. vm_compute. split; reflexivity. Qed.

Lemma wrap_refines r t : inv r ->
  (- 2 ^ (Z.of_N g_IntBits - 1) <= t < 2 ^ (Z.of_N g_IntBits - 1))%Z ->
  wrap_traits r t = Ok (if (t <? 0)%Z then None else option_map d_info (s_get (abs r) (Z.to_N t))).
Proof.
  intros I Ht. unfold wrap_traits. pose proof int_below_word as [IW IP].
  assert (EW : Z.of_N (2 ^ g_WordBits) = (2 ^ Z.of_N g_WordBits)%Z) by apply N2Z.inj_pow.
  remember (2 ^ Z.of_N g_WordBits)%Z as W eqn:HW.
  remember (2 ^ (Z.of_N g_IntBits - 1))%Z as J eqn:HJ.
  assert (0 < J)%Z by (subst J; apply Z.pow_pos_nonneg; lia).
  destruct (Z.ltb_spec t 0) as [Hn|Hn].
  - assert (Em : (t mod W = W + t)%Z).
    { symmetry. apply Z.mod_unique_pos with (q := (-1)%Z); lia. }
    rewrite Em. rewrite traits_refines by (assumption || lia). rewrite abs_get.
    destruct (N.leb_spec (Z.to_N (W + t)) g_ValueMax); [lia|reflexivity].
  - rewrite Z.mod_small by lia. rewrite traits_refines by (assumption || lia). reflexivity.
Qed.

(* ... so the wrapper is transparent for every non-negative int and finds nothing for a negative one *)
Lemma wrap_transparent r t : inv r ->
  (- 2 ^ (Z.of_N g_IntBits - 1) <= t < 2 ^ (Z.of_N g_IntBits - 1))%Z ->
  wrap_traits r t = if (t <? 0)%Z then Ok None else type_traits r (Z.to_N t).
Proof.
  intros I Ht. rewrite wrap_refines by assumption. destruct (Z.ltb_spec t 0) as [Hn|Hn]; [reflexivity|].
  symmetry. apply traits_refines; [assumption|].
  pose proof int_below_word as [IW IP].
  assert (EW : Z.of_N (2 ^ g_WordBits) = (2 ^ Z.of_N g_WordBits)%Z) by apply N2Z.inj_pow.
  lia.
Qed.

Lemma kind_eqb_refl k : kind_eqb k k = true.
Proof. destruct k; reflexivity. Qed.

Lemma iface_refines' r id : inv r ->
  obs (out_named (interface_traits r id)) =
  match s_get (abs r) id with
  | Some d => if kind_eqb (d_kind d) KInterface then s_entry id d else SRefused
  | None => SRefused
  end.
Proof.
  intros I. ranges. rewrite abs_get.
  destruct (interface_traits r id) as [[e|x]| |] eqn:Ei.
  - pose proof (iface_entry_range r id e Ei).
    destruct (lookup_in_named r id e I (or_introl Ei)) as [_ T].
    destruct (N.leb_spec id g_ValueMax); [|lia].
    rewrite (descr_iface r id e Ei). cbn [d_kind kind_eqb s_entry d_name d_info out_named obs].
    rewrite T. reflexivity.
  - cbn [out_named obs]. destruct (id <=? g_ValueMax); [|reflexivity].
    destruct (descr r id) as [d|] eqn:D; [|reflexivity].
    destruct (kind_eqb (d_kind d) KInterface) eqn:K; [|reflexivity].
    assert (Hk : d_kind d = KInterface) by (destruct (d_kind d); try discriminate; reflexivity).
    destruct (descr_entry r id d I D (or_introl Hk)) as (e & _ & _ & _ & _ & [[A _]|[_ B]]); congruence.
  - destruct (interface_traits_ok r id I) as [z Hz]. congruence.
  - destruct (interface_traits_ok r id I) as [z Hz]. congruence.
Qed.

Lemma iface_refines r id : inv r ->
  obs (out_named (interface_traits r id)) = s_by_id (abs r) KInterface id.
Proof. intros I. unfold s_by_id. apply iface_refines', I. Qed.

Lemma meta_refines' r id : inv r ->
  obs (out_named (metatype_traits r id)) =
  match s_get (abs r) id with
  | Some d => if kind_eqb (d_kind d) KMetatype then s_entry id d else SRefused
  | None => SRefused
  end.
Proof.
  intros I. ranges. rewrite abs_get.
  destruct (metatype_traits r id) as [[e|x]| |] eqn:Em.
  - pose proof (meta_entry_range r id e Em).
    destruct (lookup_in_named r id e I (or_intror Em)) as [_ T].
    destruct (N.leb_spec id g_ValueMax); [|lia].
    rewrite (descr_meta r id e Em). cbn [d_kind kind_eqb s_entry d_name d_info out_named obs].
    rewrite T. reflexivity.
  - cbn [out_named obs]. destruct (id <=? g_ValueMax); [|reflexivity].
    destruct (descr r id) as [d|] eqn:D; [|reflexivity].
    destruct (kind_eqb (d_kind d) KMetatype) eqn:K; [|reflexivity].
    assert (Hk : d_kind d = KMetatype) by (destruct (d_kind d); try discriminate; reflexivity).
    destruct (descr_entry r id d I D (or_intror (or_introl Hk))) as (e & _ & _ & _ & _ & [[_ B]|[A _]]); congruence.
  - destruct (metatype_traits_ok r id I) as [z Hz]. congruence.
  - destruct (metatype_traits_ok r id I) as [z Hz]. congruence.
Qed.

Lemma meta_refines r id : inv r ->
  obs (out_named (metatype_traits r id)) = s_by_id (abs r) KMetatype id.
Proof. intros I. unfold s_by_id. apply meta_refines', I. Qed.

(* ---------- lookup by name ---------- *)
Lemma find_ext' {A} (p q : A -> bool) l : (forall x, p x = q x) -> find p l = find q l.
Proof. intros H. induction l as [|a l IH]; simpl; [reflexivity|]. rewrite H, IH. reflexivity. Qed.

Lemma find_named_ext p q r : (forall e, p e = q e) -> find_named p r = find_named q r.
Proof. intros H. rewrite !find_named_eq. apply find_ext', H. Qed.

Lemma find_named_false r : find_named (fun _ => false) r = None.
Proof. rewrite find_named_eq. induction (named r); simpl; auto. Qed.

Lemma name_binding_some r i n id : name_binding r i = Some (n, id) ->
  id = i /\ exists d, descr r i = Some d /\ d_name d = Some n.
Proof.
  unfold name_binding. destruct (descr r i) as [d|]; [|discriminate].
  destruct (d_name d) as [m|] eqn:E; [|discriminate]. simpl. intros H. inversion H; subst.
  split; [reflexivity|]. exists d. auto.
Qed.

(* the name map of [abs r] binds a name exactly when the mechanism's search finds an entry *)
Lemma s_find_some r n id : inv r -> s_find (abs r) n = Some id ->
  id <= g_ValueMax /\ exists e, find_named (name_is n) r = Some e /\ ne_type e = id /\
    exists d, descr r id = Some d /\ d_name d = ne_name e /\ d_info d = ne_traits e.
Proof.
  intros I H. rewrite s_find_abs in H.
  apply (fget_tab_some name_cmp name_cmp_eq name_cmp_refl) in H.
  destruct H as (i & Hi & B). rewrite span_N in Hi. apply name_binding_some in B.
  destruct B as (-> & d & D & Dn). split; [lia|].
  destruct (descr_entry r i d I D) as (e & Hin & T & En & Et & _); [right; right; congruence|].
  exists e. split; [|split; [exact T|exists d; auto]].
  apply (find_by_name r e n); auto.
  - congruence.
  - unfold name_is. rewrite En, Dn. apply name_eqb_refl.
  - intros x. apply name_is_true.
Qed.

Lemma s_find_none r n : inv r -> s_find (abs r) n = None -> find_named (name_is n) r = None.
Proof.
  intros I H. rewrite s_find_abs in H.
  pose proof (fget_tab_none name_cmp name_cmp_eq name_cmp_refl _ _ _ _ H) as Hn.
  destruct (find_named (name_is n) r) as [e|] eqn:F; [exfalso|reflexivity].
  rewrite find_named_eq in F. apply find_some in F. destruct F as [Hin Hp]. apply name_is_true in Hp.
  ranges. destruct (named_has_id r e I Hin) as [L|L].
  - pose proof (iface_entry_range _ _ _ L).
    apply (Hn (ne_type e) (ne_type e)); [rewrite span_N; lia|].
    unfold name_binding. rewrite (descr_iface _ _ _ L). cbn [d_name]. rewrite Hp. reflexivity.
  - pose proof (meta_entry_range _ _ _ L).
    apply (Hn (ne_type e) (ne_type e)); [rewrite span_N; lia|].
    unfold name_binding. rewrite (descr_meta _ _ _ L). cbn [d_name]. rewrite Hp. reflexivity.
Qed.

(* what a caller sees of an entry *)
Definition eview (x : nentry + eno) : option (N * option name * tinfo) :=
  match x with inl e => Some (ne_type e, ne_name e, ne_traits e) | inr _ => None end.
Definition dview (x : option (N * desc)) : option (N * option name * tinfo) :=
  match x with Some (id, d) => Some (id, d_name d, d_info d) | None => None end.

Lemma by_name_refines r n : inv r ->
  dview (s_by_name (abs r) n) =
  match find_named (name_is n) r with Some e => Some (ne_type e, ne_name e, ne_traits e) | None => None end.
Proof.
  intros I. unfold s_by_name. destruct (s_find (abs r) n) as [id|] eqn:F.
  - destruct (s_find_some r n id I F) as (Hm & e & Fe & T & d & D & Dn & Di). rewrite Fe, abs_get.
    destruct (N.leb_spec id g_ValueMax); [|lia]. rewrite D. cbn [dview]. congruence.
  - rewrite (s_find_none r n I F). reflexivity.
Qed.

Lemma name_is_n_alt n L e :
  name_is_n n L e = if (length n <? L)%nat then false else name_is (firstn L n) e.
Proof.
  unfold name_is_n, name_is. destruct (ne_name e) as [m|]; [|destruct (length n <? L)%nat; reflexivity].
  destruct (Nat.ltb_spec (length n) L).
  - rewrite firstn_all2 by lia. destruct (name_eqb n m) eqn:E.
    + apply name_eqb_eq in E. subst m. destruct (Nat.eqb_spec (length n) L); [lia|reflexivity].
    + apply andb_false_r.
  - destruct (name_eqb (firstn L n) m) eqn:E.
    + apply name_eqb_eq in E. subst m. rewrite firstn_length, Nat.min_l by lia.
      rewrite Nat.eqb_refl. reflexivity.
    + apply andb_false_r.
Qed.

Lemma named_refines r n len : inv r ->
  eview (named_traits r n len) = dview (s_lookup (abs r) n len).
Proof.
  intros I. unfold named_traits, s_lookup. destruct n as [n|]; [|reflexivity].
  destruct ((len =? 0)%Z || (length n =? 0)%nat); [reflexivity|].
  destruct (Z.leb_spec 0 len) as [Hl|Hl].
  - destruct (Z.ltb_spec len 0); [lia|].
    destruct (Nat.ltb_spec (length n) (Z.to_nat len)).
    + rewrite (find_named_ext _ (fun _ => false)), find_named_false; [reflexivity|].
      intros e. rewrite name_is_n_alt. destruct (Nat.ltb_spec (length n) (Z.to_nat len)); [reflexivity|lia].
    + rewrite (find_named_ext _ (name_is (firstn (Z.to_nat len) n))).
      2:{ intros e. rewrite name_is_n_alt. destruct (Nat.ltb_spec (length n) (Z.to_nat len)); [lia|reflexivity]. }
      rewrite by_name_refines by assumption. destruct (find_named _ r); reflexivity.
  - destruct (Z.ltb_spec len 0); [|lia].
    rewrite by_name_refines by assumption. destruct (find_named _ r); reflexivity.
Qed.

Lemma lookup_id_refines r n len : inv r -> lookup_id r n len = s_lookup_id (abs r) n len.
Proof.
  intros I. unfold lookup_id, s_lookup_id. pose proof (named_refines r n len I) as H.
  destruct (named_traits r n len), (s_lookup (abs r) n len) as [[id d]|]; cbn in *; congruence.
Qed.

Lemma opnamed_refines r n len : inv r ->
  obs (out_named (Ok (named_traits r n len))) =
  match s_lookup (abs r) n len with Some (id, d) => s_entry id d | None => SRefused end.
Proof.
  intros I. pose proof (named_refines r n len I) as H.
  destruct (named_traits r n len), (s_lookup (abs r) n len) as [[id d]|]; cbn in *; try congruence.
  inversion H. unfold s_entry. congruence.
Qed.

(* ---------- mpt_alias_typeid ---------- *)
Lemma strip_drop l : strip_len l = match drop_spaces l with [] => None | x => Some (length x) end.
Proof.
  induction l as [|c rest IH]; [reflexivity|]. cbn [strip_len drop_spaces].
  destruct (is_space c).
  - destruct rest as [|c2 rest2]; [reflexivity|]. exact IH.
  - reflexivity.
Qed.

Lemma drop_spaces_suffix l : exists sp, l = sp ++ drop_spaces l /\ length sp = skip_spaces l.
Proof.
  induction l as [|c l IH]; [exists []; auto|]. cbn [drop_spaces skip_spaces].
  destruct (is_space c).
  - destruct IH as (sp & E & L). exists (c :: sp). split; [simpl; congruence|simpl; congruence].
  - exists []. auto.
Qed.

Lemma index_of_lt c l : forall k, index_of c l = Some k -> (k < length l)%nat.
Proof.
  induction l as [|a l IH]; intros k; simpl; [discriminate|].
  destruct (a =? c); [intros H; inversion H; lia|].
  destruct (index_of c l) as [j|]; simpl; [|discriminate].
  intros H. inversion H. specialize (IH j eq_refl). lia.
Qed.

Lemma alias_refines r d e : inv r -> obs (OAlias (alias_typeid r d e)) = s_alias (abs r) d e.
Proof.
  intros I. unfold alias_typeid, s_alias. destruct d as [d|]; [|reflexivity].
  destruct (index_of 58 d) as [k|] eqn:Ek.
  - pose proof (index_of_lt _ _ _ Ek) as Hk.
    destruct (Nat.eqb_spec k 0) as [->|Hk0]; [reflexivity|].
    rewrite strip_drop.
    destruct (drop_spaces_suffix (rev (firstn k d))) as (sp & Esp & _).
    destruct (drop_spaces (rev (firstn k d))) as [|c t] eqn:Ed; [reflexivity|].
    cbn [option_map].
    assert (Epre : firstn k d = rev (c :: t) ++ rev sp).
    { rewrite <- rev_app_distr, <- Esp, rev_involutive. reflexivity. }
    assert (Hlen : (length (c :: t) <= k)%nat).
    { assert (length (firstn k d) = k) by (rewrite firstn_length; lia).
      rewrite Epre, app_length, rev_length in H. lia. }
    assert (Enm : firstn (length (c :: t)) d = rev (c :: t)).
    { replace (length (c :: t)) with (Nat.min (length (c :: t)) k) by lia.
      rewrite <- firstn_firstn, Epre.
      replace (length (c :: t)) with (length (rev (c :: t)) + 0)%nat by (rewrite rev_length; lia).
      rewrite firstn_app_2. cbn [firstn]. apply app_nil_r. }
    pose proof (named_refines r (Some d) (Z.of_nat (length (c :: t))) I) as R.
    assert (HS : s_lookup (abs r) (Some d) (Z.of_nat (length (c :: t))) = s_by_name (abs r) (rev (c :: t))).
    { unfold s_lookup. rewrite Nat2Z.id.
      destruct (Z.eqb_spec (Z.of_nat (length (c :: t))) 0) as [Hz|_]; [simpl in Hz; lia|].
      destruct (Nat.eqb_spec (length d) 0) as [Hz|_]; [lia|]. cbn [orb].
      destruct (Z.ltb_spec (Z.of_nat (length (c :: t))) 0); [lia|].
      destruct (Nat.ltb_spec (length d) (length (c :: t))); [lia|].
      rewrite Enm. reflexivity. }
    rewrite HS in R.
    destruct (rev (c :: t)) as [|x nm] eqn:Erev.
    { apply (f_equal (@length _)) in Erev. rewrite rev_length in Erev. simpl in Erev. lia. }
    destruct (named_traits r (Some d) (Z.of_nat (length (c :: t)))) as [en|x0],
             (s_by_name (abs r) (x :: nm)) as [[id dd]|]; cbn in R; try discriminate; [|reflexivity].
    inversion R; subst id.
    destruct (drop_spaces_suffix (skipn (S k) d)) as (sp2 & E2 & L2).
    assert (length (skipn (S k) d) = length d - S k)%nat by apply skipn_length.
    rewrite E2, app_length in H at 1.
    destruct e; cbn [obs]; [|reflexivity]. f_equal. f_equal. lia.
  - pose proof (named_refines r (Some d) (-1) I) as R.
    destruct (named_traits r (Some d) (-1)) as [en|x0],
             (s_lookup (abs r) (Some d) (-1)) as [[id dd]|]; cbn in R; try discriminate; [|reflexivity].
    inversion R; subst id. destruct e; reflexivity.
Qed.

(* ---------- the sweep ---------- *)
Lemma all_ok_map {A B} (f : A -> res B) (g : A -> B) l :
  (forall x, In x l -> f x = Ok (g x)) -> all_ok (map f l) = Some (map g l).
Proof.
  induction l as [|a l IH]; intros H; [reflexivity|].
  cbn [map all_ok]. rewrite (H a) by (left; reflexivity).
  rewrite IH by (intros x Hx; apply H; right; exact Hx). reflexivity.
Qed.

Lemma ids_from_bound n : forall b x, In x (ids_from b n) -> b <= x < b + N.of_nat n.
Proof.
  induction n as [|n IH]; intros b x H; [destruct H|].
  cbn [ids_from] in H. destruct H as [<-|H]; [lia|]. apply IH in H. lia.
Qed.

Lemma rows_iface r ids : inv r ->
  map obs_row (sweep_named r (interface_traits r) ids) = s_rows (abs r) KInterface ids.
Proof.
  intros I. unfold sweep_named, s_rows. induction ids as [|id ids IH]; [reflexivity|].
  cbn [flat_map]. rewrite map_app, IH. f_equal.
  pose proof (iface_refines' r id I) as H.
  destruct (interface_traits r id) as [[e|x]| |]; cbn [out_named obs] in H;
    destruct (s_get (abs r) id) as [d|]; try discriminate; try reflexivity;
    destruct (kind_eqb (d_kind d) KInterface); try discriminate; try reflexivity.
  unfold s_entry in H. inversion H. cbn [map]. unfold obs_row. cbn [sw_id sw_ent sw_full sw_exact].
  rewrite !lookup_id_refines by assumption. rewrite H2, H3. reflexivity.
Qed.

Lemma rows_meta r ids : inv r ->
  map obs_row (sweep_named r (metatype_traits r) ids) = s_rows (abs r) KMetatype ids.
Proof.
  intros I. unfold sweep_named, s_rows. induction ids as [|id ids IH]; [reflexivity|].
  cbn [flat_map]. rewrite map_app, IH. f_equal.
  pose proof (meta_refines' r id I) as H.
  destruct (metatype_traits r id) as [[e|x]| |]; cbn [out_named obs] in H;
    destruct (s_get (abs r) id) as [d|]; try discriminate; try reflexivity;
    destruct (kind_eqb (d_kind d) KMetatype); try discriminate; try reflexivity.
  unfold s_entry in H. inversion H. cbn [map]. unfold obs_row. cbn [sw_id sw_ent sw_full sw_exact].
  rewrite !lookup_id_refines by assumption. rewrite H2, H3. reflexivity.
Qed.

Lemma sweep_refines r : inv r -> obs (sweep r) = s_sweep (abs r).
Proof.
  intros I. unfold sweep, s_sweep. cbn [obs].
  rewrite (all_ok_map _ (fun id => option_map d_info (s_get (abs r) id))).
  - rewrite map_app, rows_iface, rows_meta by assumption. reflexivity.
  - intros id Hin. apply traits_refines; [assumption|].
    apply ids_from_bound in Hin. pose proof sweep_in_word. lia.
Qed.
