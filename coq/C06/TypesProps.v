(* C06/TypesProps.v — the initial registry satisfies the invariant; lookups under
   the invariant; the property lemmas used by Properties.v. *)
From MptV Require Import Base.Mem C06.Gen_Types C06.TypesModel C06.TypesFacts C06.TypesChunks C06.TypesInv.
Local Open Scope nat_scope.

(* ---------- the initial state ---------- *)
Lemma name_is_true n e : name_is n e = true -> ne_name e = Some n.
Proof.
  unfold name_is. destruct (ne_name e) as [m|]; [|discriminate].
  intros H. apply name_eqb_eq in H. congruence.
Qed.

Lemma reg0_targets :
  forallb (fun a => existsb (name_is (snd a)) (named reg0)) g_aliases = true.
Proof. vm_compute. reflexivity. Qed.

Fixpoint all_slots {A} (pb : nat -> A -> bool) (k : nat) (l : list A) : bool :=
  match l with [] => true | x :: l => pb k x && all_slots pb (S k) l end.

Lemma all_slots_nth {A} (pb : nat -> A -> bool) (l : list A) : forall k, all_slots pb k l = true ->
  forall i x, nth_error l i = Some x -> pb (k + i) x = true.
Proof.
  induction l as [|a l IH]; intros k H i x E; [destruct i; discriminate|].
  simpl in H. apply andb_true_iff in H. destruct H as [H1 H2].
  destruct i; simpl in E.
  - inversion E; subst. rewrite Nat.add_0_r. exact H1.
  - rewrite <- Nat.add_succ_comm. exact (IH _ H2 _ _ E).
Qed.

Definition is_ptr_traits (t : tinfo) : bool :=
  match t with mkti s false false None => (s =? g_PtrSize)%N | _ => false end.

Lemma is_ptr_traits_eq t : is_ptr_traits t = true -> t = ptr_traits.
Proof.
  destruct t as [s [|] [|] [g|]]; simpl; try discriminate.
  intros H. apply N.eqb_eq in H. subst. reflexivity.
Qed.

Definition slot_ok (ipos : nat) (i : nat) (s : option nentry) : bool :=
  match s with
  | Some e => (i <? ipos) && (ne_type e =? g_InterfaceBase + N.of_nat i)%N && is_ptr_traits (ne_traits e)
  | None => true
  end.

Lemma reg0_slots : all_slots (slot_ok (r_ipos reg0)) 0 (r_iface reg0) = true.
Proof. vm_compute. reflexivity. Qed.

Lemma inv_reg0 : inv reg0.
Proof.
  constructor.
  - reflexivity.
  - apply Nat.leb_le. reflexivity.
  - intros i e H. pose proof (all_slots_nth _ _ 0 reg0_slots i _ H) as S.
    cbn [Nat.add slot_ok] in S. apply andb_true_iff in S. destruct S as [S S3].
    apply andb_true_iff in S. destruct S as [S1 S2].
    apply Nat.ltb_lt in S1. apply N.eqb_eq in S2. apply is_ptr_traits_eq in S3. auto.
  - apply Nat.leb_le. reflexivity.
  - simpl. apply Nat.leb_le. reflexivity.
  - apply N.leb_le. reflexivity.
  - intros i e H. destruct i as [|i]; [|destruct i; discriminate].
    vm_compute in H. inversion H; subst e. vm_compute. split; reflexivity.
  - left. reflexivity.
  - apply N.leb_le. reflexivity.
  - intros e1 e2 n H1 H2 N1 N2. vm_compute in H1, H2.
    repeat (destruct H1 as [<-|H1]; [repeat (destruct H2 as [<-|H2]; [first [reflexivity | cbn in N1, N2; congruence]|]); destruct H2|]).
    destruct H1.
  - intros e n H N1. vm_compute in H.
    repeat (destruct H as [<-|H]; [cbn in N1; inversion N1; subst n; split; [reflexivity|discriminate]|]).
    destruct H.
  - intros a Ha. pose proof reg0_targets as T. rewrite forallb_forall in T.
    specialize (T a Ha). apply existsb_exists in T. destruct T as (x & Hx & Hn).
    exists x. split; [exact Hx|apply name_is_true; exact Hn].
  - apply Nat.leb_le. reflexivity.
  - apply Nat.leb_le. reflexivity.
Qed.

(* ---------- which branch of mpt_type_traits an id takes ---------- *)
Ltac ncmp :=
  repeat match goal with
  | |- context [(?a <=? ?b)%N] =>
    first [ rewrite (proj2 (N.leb_le a b)) by lia | rewrite (proj2 (N.leb_gt a b)) by lia ]
  | |- context [(?a <? ?b)%N] =>
    first [ rewrite (proj2 (N.ltb_lt a b)) by lia | rewrite (proj2 (N.ltb_ge a b)) by lia ]
  | |- context [(?a =? ?b)%N] =>
    first [ rewrite (proj2 (N.eqb_eq a b)) by lia | rewrite (proj2 (N.eqb_neq a b)) by lia ]
  end; cbn [andb orb negb].

Ltac ranges := pose proof range_order as RO; decompose [and] RO; clear RO.

Lemma tt_iface r id : (g_InterfaceBase <= id <= g_InterfaceMax)%N ->
  type_traits r id = named_result (interface_traits r id).
Proof. intros H. ranges. unfold type_traits, is_scalar, is_vector, is_interface. ncmp. reflexivity. Qed.

Lemma tt_dyn r id : (g_DynamicBase <= id <= g_DynamicMax)%N ->
  type_traits r id =
  if length (r_dyn r) <=? N.to_nat (id - g_DynamicBase) then Ok None
  else match nth_error (r_dyn r) (N.to_nat (id - g_DynamicBase)) with
       | Some s => Ok (Some (plain s)) | None => Fault end.
Proof.
  intros H. ranges. unfold type_traits, is_scalar, is_vector, is_interface, is_dynamic. ncmp. reflexivity.
Qed.

Lemma tt_meta r id : (g_MetaPtrBase <= id <= g_MetaPtrMax)%N ->
  type_traits r id = named_result (metatype_traits r id).
Proof.
  intros H. ranges.
  unfold type_traits, is_scalar, is_vector, is_interface, is_dynamic, is_metaptr. ncmp.
  rewrite static_none by lia. ncmp. reflexivity.
Qed.

Lemma tt_gen r id : (g_ValueAdd <= id)%N ->
  type_traits r id = gen_walk (r_gen r) (wsub id g_ValueAdd).
Proof.
  intros H. ranges.
  unfold type_traits, is_scalar, is_vector, is_interface, is_dynamic, is_metaptr. ncmp.
  rewrite static_none by lia. ncmp. reflexivity.
Qed.

(* ---------- lookups by id under the invariant ---------- *)
Lemma interface_traits_slot r id : inv r -> (g_InterfaceBase <= id <= g_InterfaceMax)%N ->
  interface_traits r id =
  match nth_error (r_iface r) (N.to_nat (id - g_InterfaceBase)) with
  | Some (Some e) => Ok (inl e)
  | _ => Ok (inr EAGAIN)
  end.
Proof.
  intros I H. unfold interface_traits. ncmp.
  pose proof capacity_fit as [CF _]. pose proof islots_N as SN.
  assert (Hp : N.to_nat (id - g_InterfaceBase) < length (r_iface r)) by (rewrite (inv_ilen r I); lia).
  destruct (nth_error (r_iface r) (N.to_nat (id - g_InterfaceBase))) as [[e|]|] eqn:E.
  - destruct (inv_islot r I _ e E) as [Hi _].
    destruct (Nat.ltb_spec (r_ipos r) (N.to_nat (id - g_InterfaceBase))); [lia|reflexivity].
  - destruct (r_ipos r <? _); reflexivity.
  - apply nth_error_None in E. lia.
Qed.

Lemma interface_traits_out r id : (id < g_InterfaceBase \/ g_InterfaceMax < id)%N ->
  interface_traits r id = Ok (inr EINVAL).
Proof.
  intros H. unfold interface_traits.
  destruct (N.ltb_spec g_InterfaceMax id), (N.ltb_spec id g_InterfaceBase); simpl; try reflexivity; lia.
Qed.

Lemma metatype_traits_flat r id : inv r -> (g_MetaPtrBase <= id <= g_MetaPtrMax)%N ->
  metatype_traits r id =
  match nth_error (concat (r_meta r)) (N.to_nat (id - g_MetaPtrBase)) with
  | Some e => Ok (inl e)
  | None => Ok (inr EAGAIN)
  end.
Proof.
  intros I H. unfold metatype_traits. ncmp.
  rewrite meta_walk_flat by (try exact (inv_meta r I); lia).
  replace (Z.to_nat (Z.of_N (id - g_MetaPtrBase))) with (N.to_nat (id - g_MetaPtrBase)) by lia.
  reflexivity.
Qed.

Lemma metatype_traits_out r id : (id < g_MetaPtrBase \/ g_MetaPtrMax < id)%N ->
  metatype_traits r id = Ok (inr EINVAL).
Proof.
  intros H. unfold metatype_traits.
  destruct (N.ltb_spec g_MetaPtrMax id), (N.ltb_spec id g_MetaPtrBase); simpl; try reflexivity; lia.
Qed.

Lemma gen_lookup_flat r t : inv r -> (t < 2 ^ g_WordBits)%N ->
  gen_walk (r_gen r) t = Ok (nth_error (concat (r_gen r)) (N.to_nat t)).
Proof.
  intros I Ht. destruct (inv_gen r I) as [E|E].
  - rewrite E. simpl. destruct (N.to_nat t); reflexivity.
  - apply gen_walk_flat; assumption.
Qed.

(* ---------- no lookup and no registration leaves the modelled storage ---------- *)
Lemma size_entry_nf tab t pos : tab = Ok t -> pos < length t -> size_entry tab pos <> Fault.
Proof.
  intros -> H. unfold size_entry. cbn [bind].
  destruct (nth_error t pos) eqn:E; [destruct (n =? 0)%N; discriminate|].
  apply nth_error_None in E. lia.
Qed.

Lemma interface_traits_nf r id : inv r -> interface_traits r id <> Fault.
Proof.
  intros I. destruct (N.lt_ge_cases id g_InterfaceBase) as [H|H].
  - rewrite interface_traits_out by lia. discriminate.
  - destruct (N.lt_ge_cases g_InterfaceMax id) as [H2|H2].
    + rewrite interface_traits_out by lia. discriminate.
    + rewrite interface_traits_slot by (assumption || lia).
      destruct (nth_error _ _) as [[e|]|]; discriminate.
Qed.

Lemma metatype_traits_nf r id : inv r -> metatype_traits r id <> Fault.
Proof.
  intros I. destruct (N.lt_ge_cases id g_MetaPtrBase) as [H|H].
  - rewrite metatype_traits_out by lia. discriminate.
  - destruct (N.lt_ge_cases g_MetaPtrMax id) as [H2|H2].
    + rewrite metatype_traits_out by lia. discriminate.
    + rewrite metatype_traits_flat by (assumption || lia).
      destruct (nth_error _ _); discriminate.
Qed.

Lemma named_result_nf x : x <> Fault -> named_result x <> Fault.
Proof. destruct x as [[e|e]| |]; simpl; congruence. Qed.

Lemma type_traits_nf r id : inv r -> type_traits r id <> Fault.
Proof.
  intros I. unfold type_traits.
  destruct (tables_ok) as ((ct & Hct) & (st & Hst) & (vt & Hvt)).
  destruct (tables_len) as (Lc & Ls & Lv). pose proof table_span as [TS TV].
  destruct (id =? 0)%N; [discriminate|].
  destruct (N.ltb_spec id g_CoreSize).
  { apply (size_entry_nf _ ct); [assumption|]. rewrite (Lc _ Hct). lia. }
  destruct (is_scalar id) eqn:Es.
  { unfold is_scalar in Es. apply andb_true_iff in Es. destruct Es as [E1 E2].
    apply N.leb_le in E1, E2.
    apply (size_entry_nf _ st); [assumption|]. rewrite (Ls _ Hst). lia. }
  destruct (is_vector id) eqn:Ev.
  { unfold is_vector in Ev. apply andb_true_iff in Ev. destruct Ev as [E1 E2].
    apply N.leb_le in E1, E2.
    apply (size_entry_nf _ vt); [assumption|]. rewrite (Lv _ Hvt). lia. }
  destruct (is_interface id).
  { apply named_result_nf, interface_traits_nf, I. }
  destruct (is_dynamic id).
  { destruct (Nat.leb_spec (length (r_dyn r)) (N.to_nat (id - g_DynamicBase))); [discriminate|].
    destruct (nth_error (r_dyn r) _) eqn:E; [discriminate|]. apply nth_error_None in E. lia. }
  destruct (assoc id g_static_types) as [[[s i] f]|]; [discriminate|].
  destruct (is_metaptr id).
  { apply named_result_nf, metatype_traits_nf, I. }
  rewrite gen_lookup_flat by (try assumption; apply wsub_lt). discriminate.
Qed.

(* ---------- stability of lookups along extensions ---------- *)
Lemma iface_stable r r' id e : inv r -> inv r' -> extends r r' ->
  interface_traits r id = Ok (inl e) -> interface_traits r' id = Ok (inl e).
Proof.
  intros I I' X H.
  destruct (N.lt_ge_cases id g_InterfaceBase) as [H1|H1];
    [rewrite interface_traits_out in H by lia; discriminate|].
  destruct (N.lt_ge_cases g_InterfaceMax id) as [H2|H2];
    [rewrite interface_traits_out in H by lia; discriminate|].
  rewrite interface_traits_slot in * by (assumption || lia).
  destruct (nth_error (r_iface r) _) as [[x|]|] eqn:E; try discriminate.
  inversion H; subst x. rewrite (ext_iface r r' X _ _ E). reflexivity.
Qed.

Lemma nth_error_ext {A} (l l2 : list A) i x : nth_error l i = Some x -> nth_error (l ++ l2) i = Some x.
Proof.
  intros H. rewrite nth_error_app1; [exact H|]. apply nth_error_Some. congruence.
Qed.

Lemma meta_stable r r' id e : inv r -> inv r' -> extends r r' ->
  metatype_traits r id = Ok (inl e) -> metatype_traits r' id = Ok (inl e).
Proof.
  intros I I' X H.
  destruct (N.lt_ge_cases id g_MetaPtrBase) as [H1|H1];
    [rewrite metatype_traits_out in H by lia; discriminate|].
  destruct (N.lt_ge_cases g_MetaPtrMax id) as [H2|H2];
    [rewrite metatype_traits_out in H by lia; discriminate|].
  rewrite metatype_traits_flat in * by (assumption || lia).
  destruct (nth_error (concat (r_meta r)) _) as [x|] eqn:E; try discriminate.
  inversion H; subst x. destruct (ext_meta r r' X) as [l ->].
  rewrite (nth_error_ext _ l _ _ E). reflexivity.
Qed.

Lemma named_result_some x t : named_result x = Ok (Some t) -> exists e, x = Ok (inl e) /\ ne_traits e = t.
Proof.
  destruct x as [[e|e]| |]; simpl; intros H; inversion H. exists e. auto.
Qed.

Lemma traits_stable r r' id t : inv r -> inv r' -> extends r r' ->
  type_traits r id = Ok (Some t) -> type_traits r' id = Ok (Some t).
Proof.
  intros I I' X. unfold type_traits.
  destruct (id =? 0)%N; [auto|].
  destruct (id <? g_CoreSize)%N; [auto|].
  destruct (is_scalar id); [auto|].
  destruct (is_vector id); [auto|].
  destruct (is_interface id).
  { intros H. apply named_result_some in H. destruct H as (e & H & <-).
    rewrite (iface_stable r r' id e I I' X H). reflexivity. }
  destruct (is_dynamic id).
  { destruct (ext_dyn r r' X) as [l ->].
    destruct (Nat.leb_spec (length (r_dyn r)) (N.to_nat (id - g_DynamicBase))) as [Hl|Hl]; [discriminate|].
    destruct (nth_error (r_dyn r) _) as [s|] eqn:E; [|discriminate].
    intros Hs. rewrite (nth_error_ext _ l _ _ E). rewrite app_length.
    destruct (Nat.leb_spec (length (r_dyn r) + length l) (N.to_nat (id - g_DynamicBase))); [lia|exact Hs]. }
  destruct (assoc id g_static_types) as [[[s i] f]|]; [auto|].
  destruct (is_metaptr id).
  { intros H. apply named_result_some in H. destruct H as (e & H & <-).
    rewrite (meta_stable r r' id e I I' X H). reflexivity. }
  rewrite !gen_lookup_flat by (try assumption; apply wsub_lt).
  intros H. destruct (ext_gen r r' X) as [l L]. rewrite L.
  destruct (nth_error (concat (r_gen r)) (N.to_nat (wsub id g_ValueAdd))) as [x|] eqn:E; [|discriminate].
  rewrite (nth_error_ext _ l _ _ E). exact H.
Qed.

Lemma name_is_n_true n len e : name_is_n n len e = true -> ne_name e = Some (firstn len n).
Proof.
  unfold name_is_n. destruct (ne_name e) as [m|]; [|discriminate].
  intros H. apply andb_true_iff in H. destruct H as [_ H].
  apply (proj1 (name_eqb_eq _ _)) in H. rewrite H. reflexivity.
Qed.

Lemma find_named_stable r r' p k e : inv r -> inv r' -> extends r r' ->
  (forall x, p x = true -> ne_name x = Some k) ->
  find_named p r = Some e -> find_named p r' = Some e.
Proof.
  intros I I' X Hp H. rewrite find_named_eq in *.
  apply find_some in H. destruct H as [Hin Hpe].
  pose proof (extends_named r r' I I' X e Hin) as Hin'.
  destruct (find p (named r')) as [e'|] eqn:E.
  - apply find_some in E. destruct E as [Hin2 Hpe2].
    f_equal. exact (inv_names r' I' e' e k Hin2 Hin' (Hp _ Hpe2) (Hp _ Hpe)).
  - pose proof (find_none _ _ E e Hin'). congruence.
Qed.

Lemma named_stable r r' n len e : inv r -> inv r' -> extends r r' ->
  named_traits r n len = inl e -> named_traits r' n len = inl e.
Proof.
  intros I I' X. unfold named_traits. destruct n as [n|]; [|discriminate].
  destruct ((len =? 0)%Z || (length n =? 0)); [discriminate|].
  destruct (0 <=? len)%Z.
  - destruct (find_named (name_is_n n (Z.to_nat len)) r) as [x|] eqn:E; [|discriminate].
    intros H. inversion H; subst x.
    rewrite (find_named_stable r r' _ (firstn (Z.to_nat len) n) e I I' X); auto.
    intros y. apply name_is_n_true.
  - destruct (find_named (name_is (resolve_alias n)) r) as [x|] eqn:E; [|discriminate].
    intros H. inversion H; subst x.
    rewrite (find_named_stable r r' _ (resolve_alias n) e I I' X); auto.
    intros y. apply name_is_true.
Qed.

(* ---------- entries, ids and names ---------- *)
Lemma lookup_in_named r id e : inv r ->
  interface_traits r id = Ok (inl e) \/ metatype_traits r id = Ok (inl e) ->
  In e (named r) /\ ne_type e = id.
Proof.
  intros I [H|H].
  - destruct (N.lt_ge_cases id g_InterfaceBase) as [H1|H1];
      [rewrite interface_traits_out in H by lia; discriminate|].
    destruct (N.lt_ge_cases g_InterfaceMax id) as [H2|H2];
      [rewrite interface_traits_out in H by lia; discriminate|].
    rewrite interface_traits_slot in H by (assumption || lia).
    destruct (nth_error (r_iface r) _) as [[x|]|] eqn:E; try discriminate.
    inversion H; subst x. split.
    + unfold named. apply in_app_iff. right. apply (in_iface_entries r e I). eexists. exact E.
    + destruct (inv_islot r I _ e E) as (_ & T & _). rewrite T. lia.
  - destruct (N.lt_ge_cases id g_MetaPtrBase) as [H1|H1];
      [rewrite metatype_traits_out in H by lia; discriminate|].
    destruct (N.lt_ge_cases g_MetaPtrMax id) as [H2|H2];
      [rewrite metatype_traits_out in H by lia; discriminate|].
    rewrite metatype_traits_flat in H by (assumption || lia).
    destruct (nth_error (concat (r_meta r)) _) as [x|] eqn:E; try discriminate.
    inversion H; subst x. split.
    + unfold named. apply in_app_iff. left. eapply nth_error_In. exact E.
    + destruct (inv_ment r I _ e E) as (T & _). rewrite T. lia.
Qed.

Lemma named_has_id r e : inv r -> In e (named r) ->
  interface_traits r (ne_type e) = Ok (inl e) \/ metatype_traits r (ne_type e) = Ok (inl e).
Proof.
  intros I H. unfold named in H. apply in_app_iff in H. destruct H as [H|H].
  - right. apply In_nth_error in H. destruct H as [i E].
    destruct (inv_ment r I i e E) as (T & _).
    assert (i < length (concat (r_meta r))) by (apply nth_error_Some; congruence).
    pose proof (inv_mlen r I).
    rewrite metatype_traits_flat by (assumption || lia).
    replace (N.to_nat (ne_type e - g_MetaPtrBase)) with i by lia. rewrite E. reflexivity.
  - left. apply (in_iface_entries r e I) in H. destruct H as [i E].
    destruct (inv_islot r I i e E) as (Hi & T & _).
    pose proof (inv_ipos r I). pose proof capacity_fit as [CF _]. pose proof islots_N.
    rewrite interface_traits_slot by (assumption || lia).
    replace (N.to_nat (ne_type e - g_InterfaceBase)) with i by lia. rewrite E. reflexivity.
Qed.

Lemma find_by_name r e n p : inv r -> In e (named r) -> ne_name e = Some n ->
  p e = true -> (forall x, p x = true -> ne_name x = Some n) -> find_named p r = Some e.
Proof.
  intros I Hin Hn Hpe Hp. rewrite find_named_eq.
  destruct (find p (named r)) as [e'|] eqn:E.
  - apply find_some in E. destruct E as [Hin2 Hpe2]. f_equal.
    exact (inv_names r I e' e n Hin2 Hin (Hp _ Hpe2) Hn).
  - pose proof (find_none _ _ E e Hin). congruence.
Qed.

Lemma name_to_entry r e n : inv r -> In e (named r) -> ne_name e = Some n ->
  named_traits r (Some n) (-1) = inl e /\ named_traits r (Some n) (Z.of_nat (length n)) = inl e.
Proof.
  intros I Hin Hn. destruct (inv_noalias r I e n Hin Hn) as [R Hne].
  destruct n as [|c n']; [congruence|]. unfold named_traits. split.
  - cbn [length Nat.eqb Z.eqb orb]. change (0 <=? -1)%Z with false. cbn iota. rewrite R.
    rewrite (find_by_name r e (c :: n') _ I Hin Hn); [reflexivity| |apply name_is_true].
    unfold name_is. rewrite Hn. apply name_eqb_refl.
  - destruct (Z.eqb_spec (Z.of_nat (length (c :: n'))) 0) as [Hz|Hz]; [simpl in Hz; lia|].
    cbn [length Nat.eqb orb]. 
    destruct (Z.leb_spec 0 (Z.of_nat (S (length n')))) as [_|Hl]; [|lia].
    rewrite Nat2Z.id.
    assert (F : firstn (S (length n')) (c :: n') = c :: n') by (apply (firstn_all (c :: n'))).
    rewrite (find_by_name r e (c :: n') _ I Hin Hn); [reflexivity| |].
    + unfold name_is_n. rewrite Hn, F, name_eqb_refl. simpl. rewrite Nat.eqb_refl. reflexivity.
    + intros x Hx. apply name_is_n_true in Hx. rewrite F in Hx. exact Hx.
Qed.

Lemma named_traits_in r n len e : named_traits r n len = inl e -> In e (named r).
Proof.
  unfold named_traits. destruct n as [n|]; [|discriminate].
  destruct ((len =? 0)%Z || (length n =? 0)); [discriminate|].
  destruct (0 <=? len)%Z.
  - destruct (find_named _ r) as [x|] eqn:E; [|discriminate]. intros H; inversion H; subst x.
    rewrite find_named_eq in E. apply find_some in E. tauto.
  - destruct (find_named _ r) as [x|] eqn:E; [|discriminate]. intros H; inversion H; subst x.
    rewrite find_named_eq in E. apply find_some in E. tauto.
Qed.

(* ---------- freshly issued identifiers ---------- *)
Definition known (r : reg) (id : N) : bool :=
  match type_traits r id with Ok (Some _) => true | _ => false end.

Definition is_registration (o : op) : bool :=
  match o with OpBasicAdd _ | OpTypeAdd _ | OpIfaceAdd _ | OpMetaAdd _ => true | _ => false end.

(* the identifier handed out by a registration, if it succeeded *)
Definition issued (o : op) (x : out) : option N :=
  if is_registration o then
    match x with OId id => Some id | ONamed e => Some (ne_type e) | _ => None end
  else None.

(* the range reserved for the kind an operation registers *)
Definition kind_range (o : op) (id : N) : Prop :=
  match o with
  | OpBasicAdd _ => (g_DynamicBase <= id <= g_DynamicMax)%N
  | OpTypeAdd _ => (g_ValueAdd <= id <= g_ValueMax)%N
  | OpIfaceAdd _ => (g_InterfaceAdd <= id <= g_InterfaceMax)%N
  | OpMetaAdd _ => (g_MetaPtrBase < id <= g_MetaPtrMax)%N
  | _ => False
  end.

Lemma some_inj {A} (a b : A) : Some a = Some b -> b = a.
Proof. congruence. Qed.

Lemma step_fresh r o id : inv r -> issued o (snd (step r o)) = Some id ->
  known r id = false /\ known (fst (step r o)) id = true /\ kind_range o id.
Proof.
  intros I. pose proof (step_inv r o I) as [I' _]. revert I'.
  ranges. pose proof capacity_fit as [CF1 CF2]. pose proof dslots_N. pose proof islots_N.
  unfold issued, known. destruct o; cbn [is_registration step]; try discriminate.
  - (* basic *)
    destruct (basic_add_cases r size) as [[E _]|(sz & E & _ & Hl)]; rewrite E; cbn [fst snd out_int];
      [discriminate|]. intros I' H'. apply some_inj in H'.
    rewrite !tt_dyn by lia. cbn [r_dyn kind_range].
    replace (N.to_nat (id - g_DynamicBase)) with (length (r_dyn r)) by lia.
    rewrite Nat.leb_refl. rewrite app_length. cbn [length].
    destruct (Nat.leb_spec (length (r_dyn r) + 1) (length (r_dyn r))); [lia|].
    rewrite nth_error_app2 by lia. rewrite Nat.sub_diag. cbn [nth_error].
    repeat split; lia.
  - (* generic *)
    destruct (type_add_cases r t I) as [[e E]|(t0 & cs' & -> & Hsz & E & Hcat & Hok & Hmax)];
      rewrite E; cbn [fst snd out_int]; [discriminate|]. intros I' H'. apply some_inj in H'.
    rewrite !tt_gen by lia. cbn [r_gen kind_range].
    rewrite wsub_small by lia.
    rewrite gen_lookup_flat by (assumption || lia).
    rewrite (gen_walk_flat cs' Hok) by lia. rewrite Hcat.
    replace (N.to_nat (id - g_ValueAdd)) with (length (concat (r_gen r))) by lia.
    rewrite nth_error_app2 by lia. rewrite Nat.sub_diag. cbn [nth_error].
    destruct (nth_error (concat (r_gen r)) (length (concat (r_gen r)))) eqn:E2.
    + assert (length (concat (r_gen r)) < length (concat (r_gen r))) by (apply nth_error_Some; congruence). lia.
    + repeat split; lia.
  - (* interface *)
    destruct (interface_add_cases r n I) as [[e E]|(E & Hpos & Hn)];
      rewrite E; cbn [fst snd out_named]; [discriminate|]. intros I' H'. apply some_inj in H'.
    cbn [ne_type] in H'. cbn [kind_range]. pose proof (inv_ibase r I).
    rewrite !tt_iface by lia.
    rewrite !interface_traits_slot by (assumption || lia). cbn [r_iface].
    replace (N.to_nat (id - g_InterfaceBase)) with (r_ipos r) by lia.
    rewrite nth_error_set by (rewrite (inv_ilen r I); assumption). rewrite Nat.eqb_refl.
    cbn [named_result bind].
    destruct (nth_error (r_iface r) (r_ipos r)) as [[x|]|] eqn:E2.
    + destruct (inv_islot r I _ x E2). lia.
    + repeat split; lia.
    + repeat split; lia.
  - (* metatype *)
    destruct (metatype_add_cases r n I) as [[e E]|(cs' & E & Hcat & Hok & Hmax & Hn)];
      rewrite E; cbn [fst snd out_named]; [discriminate|]. intros I' H'. apply some_inj in H'.
    cbn [ne_type] in H'. cbn [kind_range]. pose proof (inv_mbase r I).
    rewrite !tt_meta by lia.
    rewrite !metatype_traits_flat by (assumption || lia). cbn [r_meta]. rewrite Hcat.
    replace (N.to_nat (id - g_MetaPtrBase)) with (length (concat (r_meta r))) by lia.
    rewrite nth_error_app2 by lia. rewrite Nat.sub_diag. cbn [nth_error named_result bind].
    destruct (nth_error (concat (r_meta r)) (length (concat (r_meta r)))) eqn:E2.
    + assert (length (concat (r_meta r)) < length (concat (r_meta r))) by (apply nth_error_Some; congruence). lia.
    + repeat split; lia.
Qed.

Fixpoint issued_run (r : reg) (ops : list op) : list N :=
  match ops with
  | [] => []
  | o :: ops =>
    match issued o (snd (step r o)) with
    | Some id => id :: issued_run (fst (step r o)) ops
    | None => issued_run (fst (step r o)) ops
    end
  end.

Lemma known_mono r r' id : inv r -> inv r' -> extends r r' -> known r id = true -> known r' id = true.
Proof.
  intros I I' X. unfold known.
  destruct (type_traits r id) as [[t|]| |] eqn:E; try discriminate.
  rewrite (traits_stable r r' id t I I' X E). reflexivity.
Qed.

Lemma issued_unique ops : forall r, inv r ->
  NoDup (issued_run r ops) /\ forall id, In id (issued_run r ops) -> known r id = false.
Proof.
  induction ops as [|o ops IH]; intros r I; cbn [issued_run].
  - split; [constructor|intros id []].
  - destruct (step_inv r o I) as [I' X]. destruct (IH _ I') as [ND U].
    assert (U' : forall id, In id (issued_run (fst (step r o)) ops) -> known r id = false).
    { intros id Hin. destruct (known r id) eqn:K; [|reflexivity].
      pose proof (known_mono _ _ _ I I' X K) as K'. rewrite (U id Hin) in K'. discriminate. }
    destruct (issued o (snd (step r o))) as [id|] eqn:E; [|split; assumption].
    destruct (step_fresh r o id I E) as (K1 & K2 & _). split.
    + constructor; [|assumption]. intros Hin. rewrite (U id Hin) in K2. discriminate.
    + intros id' [<-|Hin]; [assumption|apply U'; assumption].
Qed.

(* ---------- refusals ---------- *)
Definition refused (x : out) : bool :=
  match x with OCode _ | ONull _ => true | _ => false end.

Lemma step_refused_unchanged r o : inv r -> is_registration o = true ->
  issued o (snd (step r o)) = None -> fst (step r o) = r /\ refused (snd (step r o)) = true.
Proof.
  intros I. unfold issued. destruct o; cbn [is_registration step]; try discriminate; intros _.
  - destruct (basic_add_cases r size) as [[E _]|(sz & E & _)]; rewrite E; cbn [fst snd out_int];
      [auto|discriminate].
  - destruct (type_add_cases r t I) as [[e E]|(t0 & cs' & -> & _ & E & _)]; rewrite E; cbn [fst snd out_int];
      [auto|discriminate].
  - destruct (interface_add_cases r n I) as [[e E]|(E & _)]; rewrite E; cbn [fst snd out_named];
      [auto|discriminate].
  - destruct (metatype_add_cases r n I) as [[e E]|(cs' & E & _)]; rewrite E; cbn [fst snd out_named];
      [auto|discriminate].
Qed.

Lemma lookup_keeps_state r o : is_registration o = false -> fst (step r o) = r.
Proof. destruct o; cbn [is_registration step fst]; try discriminate; reflexivity. Qed.

(* a duplicate or too short name is refused by both named registrations *)
Lemma dup_or_short r m : inv r ->
  (length m < g_MinIfaceName \/ exists e, In e (named r) /\ ne_name e = Some m) ->
  exists e, interface_add r (Some m) = (r, Ok (inr e)).
Proof.
  intros I H. unfold interface_add.
  destruct (islots <=? r_ipos r); [eexists; reflexivity|].
  assert (R : (if name_taken r m then true else length m <? g_MinIfaceName) = true).
  { destruct H as [H|(e & H1 & H2)].
    - destruct (name_taken r m); [reflexivity|]. apply Nat.ltb_lt. exact H.
    - rewrite (taken r m e I H1 H2). reflexivity. }
  rewrite R. eexists. reflexivity.
Qed.

Lemma dup_or_short_meta r m : inv r ->
  (length m < g_MinMetaName \/ exists e, In e (named r) /\ ne_name e = Some m) ->
  exists e, metatype_add r (Some m) = (r, Ok (inr e)).
Proof.
  intros I H. unfold metatype_add.
  assert (R : (if length m <? g_MinMetaName then true else name_taken r m) = true).
  { destruct H as [H|(e & H1 & H2)].
    - apply Nat.ltb_lt in H. rewrite H. reflexivity.
    - rewrite (taken r m e I H1 H2). destruct (length m <? g_MinMetaName); reflexivity. }
  rewrite R. eexists. reflexivity.
Qed.

(* exhausted ranges *)
Lemma exhausted_refused r : inv r ->
  (dslots <= length (r_dyn r) -> forall s, basic_add r s = (r, Err MissingBuffer)) /\
  ((g_ValueMax < g_ValueAdd + N.of_nat (length (concat (r_gen r))))%N ->
     forall t, exists e, type_add r t = (r, Err e)) /\
  (islots <= r_ipos r -> forall n, interface_add r n = (r, Ok (inr ENOMEM))) /\
  ((g_MetaPtrMax < g_MetaPtrBase + N.of_nat (length (concat (r_meta r))))%N ->
     forall n, exists e, metatype_add r n = (r, Ok (inr e))).
Proof.
  intros I. repeat split.
  - intros H s. destruct (basic_add_cases r s) as [[E _]|(sz & _ & _ & Hl)]; [exact E|lia].
  - intros H t. destruct (type_add_cases r t I) as [[e E]|(t0 & cs' & _ & _ & _ & _ & _ & Hm)];
      [eexists; exact E|lia].
  - intros H n. unfold interface_add. destruct (Nat.leb_spec islots (r_ipos r)); [reflexivity|lia].
  - intros H n. destruct (metatype_add_cases r n I) as [[e E]|(cs' & _ & _ & _ & Hm & _)];
      [eexists; exact E|lia].
Qed.

(* ---------- no step leaves the modelled storage ---------- *)
Definition out_ok (x : out) : Prop :=
  match x with
  | OFault => False
  | OSweep tr _ _ => Forall (fun t => t <> Fault) tr
  | _ => True
  end.

Lemma msgvalfmt_nf f : msgvalfmt_typeid f <> Fault.
Proof.
  unfold msgvalfmt_typeid. cbv zeta.
  repeat match goal with |- context [if ?c then _ else _] => destruct c end; discriminate.
Qed.

Lemma step_no_fault r o : inv r -> out_ok (snd (step r o)).
Proof.
  intros I. destruct o; cbn [step snd]; try exact Logic.I.
  - destruct (basic_add_cases r size) as [[E _]|(sz & E & _)]; rewrite E; exact Logic.I.
  - destruct (type_add_cases r t I) as [[e E]|(t0 & cs' & -> & _ & E & _)]; rewrite E; exact Logic.I.
  - destruct (interface_add_cases r n I) as [[e E]|(E & _)]; rewrite E; exact Logic.I.
  - destruct (metatype_add_cases r n I) as [[e E]|(cs' & E & _)]; rewrite E; exact Logic.I.
  - pose proof (type_traits_nf r id I). destruct (type_traits r id); simpl; try exact Logic.I; congruence.
  - pose proof (interface_traits_nf r id I).
    destruct (interface_traits r id) as [[e|e]| |]; simpl; try exact Logic.I; congruence.
  - pose proof (metatype_traits_nf r id I).
    destruct (metatype_traits r id) as [[e|e]| |]; simpl; try exact Logic.I; congruence.
  - destruct (named_traits r n len); exact Logic.I.
  - pose proof (msgvalfmt_nf f). destruct (msgvalfmt_typeid f); try exact Logic.I; congruence.
  - unfold sweep. cbn [out_ok]. apply Forall_forall. intros x Hx.
    apply in_map_iff in Hx. destruct Hx as (id & <- & _). apply type_traits_nf, I.
  - unfold wrap_traits. pose proof (type_traits_nf r (Z.to_N (t mod 2 ^ Z.of_N g_WordBits)) I).
    destruct (type_traits r _); simpl; try exact Logic.I; congruence.
Qed.
