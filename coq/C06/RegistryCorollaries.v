(* C06/RegistryCorollaries.v — the property theorems of the mechanism model
   re-derived from  (1) the refinement M [= S (RegistryRefine.v)  and
   (2) the same property proved on the specification (RegistryProps.v). *)
From MptV Require Import Base.Mem C06.Gen_Types C06.TypesModel C06.TypesFacts C06.TypesChunks
  C06.TypesInv C06.TypesProps C06.TypesHistory C06.RegistrySpec C06.RegistryAbs C06.RegistryMaps
  C06.RegistryLookup C06.RegistryRefine C06.RegistryProps.
Local Open Scope N_scope.

(* ---------- the state after a history, on both levels ---------- *)
Lemma abs_exec ops : Forall op_wf ops -> abs (exec reg0 ops) = sexec sreg0 ops.
Proof. intros W. symmetry. exact (proj2 (fresh_refines ops W)). Qed.

Lemma sinv_abs ops : Forall op_wf ops -> sinv (abs (exec reg0 ops)).
Proof. intros W. rewrite abs_exec by assumption. apply sexec_inv, sinv0. Qed.

Lemma sexec_app s a b : sexec s (a ++ b) = sexec (sexec s a) b.
Proof. unfold sexec. apply fold_left_app. Qed.

(* ---------- issued identifiers ---------- *)
Lemma issued_obs o x : issued o x = s_issued o (obs x).
Proof.
  unfold issued, s_issued. destruct (is_registration o); [|reflexivity].
  destruct x as [id|e|e|e|t|[e|id e]|z|tr nm m|]; cbn [obs]; try reflexivity.
  destruct (all_ok tr); reflexivity.
Qed.

Lemma issued_run_refines ops : forall r, inv r -> Forall op_wf ops ->
  issued_run r ops = s_issued_run (abs r) ops.
Proof.
  induction ops as [|o ops IH]; intros r I W; [reflexivity|].
  inversion W as [|? ? W1 W2]; subst. pose proof (step_refines r o I W1) as S.
  cbn [issued_run s_issued_run]. destruct (step r o) as [r' x]. destruct S as [I' S].
  rewrite S. cbn [fst snd]. rewrite issued_obs, (IH r' I' W2). reflexivity.
Qed.

(* unique for the life of the process, and unknown before *)
Theorem ids_unique_via_spec ops : Forall op_wf ops ->
  NoDup (issued_run reg0 ops) /\ forall id, In id (issued_run reg0 ops) -> known reg0 id = false.
Proof.
  intros W. rewrite (issued_run_refines ops reg0 inv_reg0 W), abs_reg0.
  destruct (s_ids_unique ops sreg0 sinv0) as [ND U]. split; [exact ND|].
  intros id Hin. pose proof (U id Hin) as G.
  destruct (issued_above ops sreg0 sinv0 id Hin) as (k & Hk & _ & Hr).
  assert (Hw : id < 2 ^ g_WordBits).
  { ranges. destruct k; try congruence; cbn [kind_first kind_last] in Hr; lia. }
  unfold known. rewrite (traits_refines reg0 id inv_reg0 Hw), abs_reg0, G. reflexivity.
Qed.

(* in the range of their kind *)
Theorem ids_in_range_via_spec ops o id : Forall op_wf ops -> op_wf o ->
  issued o (snd (step (exec reg0 ops) o)) = Some id -> kind_range o id.
Proof.
  intros W Wo H. pose proof (reach_inv ops) as I.
  pose proof (step_refines _ o I Wo) as S. destruct (step (exec reg0 ops) o) as [r' x].
  destruct S as [_ S]. cbn [snd] in H. rewrite issued_obs in H.
  assert (E : obs x = snd (sstep (abs (exec reg0 ops)) o)) by (rewrite S; reflexivity).
  rewrite E in H. destruct (s_ids_in_range _ o id (sinv_abs ops W) H) as [Hk Hr].
  destruct o; cbn [reg_kind kind_range kind_first kind_last] in *; try congruence; lia.
Qed.

(* ---------- stability ---------- *)
Lemma s_lookup_stable s s' n len id d :
  (forall i x, s_get s i = Some x -> s_get s' i = Some x) ->
  (forall m i, s_find s m = Some i -> s_find s' m = Some i) ->
  s_lookup s n len = Some (id, d) -> s_lookup s' n len = Some (id, d).
Proof.
  intros G F. unfold s_lookup. destruct n as [n|]; [|discriminate].
  destruct ((len =? 0)%Z || (length n =? 0)%nat); [discriminate|].
  assert (B : forall m, s_by_name s m = Some (id, d) -> s_by_name s' m = Some (id, d)).
  { intros m. unfold s_by_name. destruct (s_find s m) as [i|] eqn:E; [|discriminate].
    rewrite (F m i E). destruct (s_get s i) as [x|] eqn:E2; [|discriminate]. rewrite (G i x E2). auto. }
  destruct (len <? 0)%Z; [apply B|]. destruct (length n <? Z.to_nat len)%nat; [discriminate|apply B].
Qed.

Theorem lookup_stable_via_spec ops1 ops2 : Forall op_wf ops1 -> Forall op_wf ops2 ->
  let r1 := exec reg0 ops1 in
  let r2 := exec reg0 (ops1 ++ ops2) in
  (forall id t, id < 2 ^ g_WordBits -> type_traits r1 id = Ok (Some t) -> type_traits r2 id = Ok (Some t)) /\
  (forall n len e, named_traits r1 n len = inl e -> named_traits r2 n len = inl e).
Proof.
  intros W1 W2. cbv zeta. pose proof (reach_inv ops1) as I1. pose proof (reach_inv (ops1 ++ ops2)) as I2.
  assert (W : Forall op_wf (ops1 ++ ops2)) by (apply Forall_app; auto).
  assert (E : abs (exec reg0 (ops1 ++ ops2)) = sexec (abs (exec reg0 ops1)) ops2).
  { rewrite !abs_exec by assumption. apply sexec_app. }
  destruct (sexec_stable ops2 _ (sinv_abs ops1 W1)) as [G F]. rewrite <- E in G, F. split.
  - intros id t Hw H. rewrite (traits_refines _ id I1 Hw) in H. rewrite (traits_refines _ id I2 Hw).
    destruct (s_get (abs (exec reg0 ops1)) id) as [d|] eqn:D; [|discriminate].
    rewrite (G id d D). exact H.
  - intros n len e H. pose proof (named_refines _ n len I1) as R1. pose proof (named_refines _ n len I2) as R2.
    rewrite H in R1. cbn [eview] in R1.
    destruct (s_lookup (abs (exec reg0 ops1)) n len) as [[id d]|] eqn:L; [|discriminate].
    rewrite (s_lookup_stable _ _ n len id d G F L) in R2. rewrite <- R1 in R2.
    destruct (named_traits (exec reg0 (ops1 ++ ops2)) n len) as [e'|x]; [|discriminate].
    cbn [eview] in R2. inversion R2. f_equal. destruct e, e'; cbn in *; congruence.
Qed.

(* ---------- built-in types: exactly the listed ones, each with the size of its C type ---------- *)
Definition listed (p : N * desc) : bool :=
  existsb (fun q => (fst q =? fst p) && (snd q =? ti_size (d_info (snd p)))) g_ctype_sizes.

Lemma sreg0_listed : forallb listed (s_types sreg0) = true.
Proof. vm_compute. reflexivity. Qed.

Definition described (p : N * N) : bool :=
  match s_get sreg0 (fst p) with Some d => ti_size (d_info d) =? snd p | None => false end.

Lemma sreg0_described : forallb described g_ctype_sizes = true.
Proof. vm_compute. reflexivity. Qed.

Theorem builtins_exactly_listed :
  (* what the fresh registry describes is a listed built-in type with the size of its C type ... *)
  (forall id t, id < 2 ^ g_WordBits -> type_traits reg0 id = Ok (Some t) -> In (id, ti_size t) g_ctype_sizes) /\
  (* ... and every listed type is described with that size, after every history *)
  (forall id sz, In (id, sz) g_ctype_sizes -> forall ops, Forall op_wf ops ->
     exists t, type_traits (exec reg0 ops) id = Ok (Some t) /\ ti_size t = sz).
Proof.
  split.
  - intros id t Hw H. rewrite (traits_refines reg0 id inv_reg0 Hw), abs_reg0 in H.
    destruct (s_get sreg0 id) as [d|] eqn:D; [|discriminate]. inversion H; subst t.
    apply (fget_in N.compare ncmp_eq) in D.
    pose proof sreg0_listed as L. rewrite forallb_forall in L. specialize (L _ D).
    unfold listed in L. apply existsb_exists in L. destruct L as ([i s] & Hin & Hq).
    cbn [fst snd] in Hq. apply andb_true_iff in Hq. destruct Hq as [A B].
    apply N.eqb_eq in A, B. subst. exact Hin.
  - intros id sz Hin ops W. pose proof sreg0_described as S. rewrite forallb_forall in S.
    specialize (S _ Hin). unfold described in S. cbn [fst snd] in S.
    destruct (s_get sreg0 id) as [d|] eqn:D; [|discriminate]. apply N.eqb_eq in S.
    assert (Hw : id < 2 ^ g_WordBits).
    { apply (fget_in N.compare ncmp_eq) in D.
      assert (B : forallb (fun p => fst p <? 2 ^ g_WordBits) (s_types sreg0) = true) by (vm_compute; reflexivity).
      rewrite forallb_forall in B. specialize (B _ D). apply N.ltb_lt in B. exact B. }
    exists (d_info d). split; [|exact S].
    rewrite (traits_refines _ id (reach_inv ops) Hw), abs_exec by assumption.
    rewrite (proj1 (sexec_stable ops sreg0 sinv0) id d D). reflexivity.
Qed.

(* ---------- statements used by Properties.v ---------- *)
Lemma fresh_state : abs reg0 = sreg0 /\ inv reg0 /\ sinv sreg0.
Proof. exact (conj abs_reg0 (conj inv_reg0 sinv0)). Qed.

Lemma spec_ids_unique ops :
  NoDup (s_issued_run sreg0 ops) /\ forall id, In id (s_issued_run sreg0 ops) -> s_get sreg0 id = None.
Proof. exact (s_ids_unique ops sreg0 sinv0). Qed.

Lemma spec_issued_range ops o id : s_issued o (snd (sstep (sexec sreg0 ops) o)) = Some id ->
  reg_kind o <> KBuiltin /\ kind_first (reg_kind o) <= id <= kind_last (reg_kind o).
Proof. apply s_ids_in_range, sexec_inv, sinv0. Qed.

Lemma spec_stable ops1 ops2 :
  let s1 := sexec sreg0 ops1 in
  let s2 := sexec sreg0 (ops1 ++ ops2) in
  (forall id d, s_get s1 id = Some d -> s_get s2 id = Some d) /\
  (forall n id, s_find s1 n = Some id -> s_find s2 n = Some id).
Proof. cbv zeta. rewrite sexec_app. apply sexec_stable, sexec_inv, sinv0. Qed.

Lemma spec_refused_unchanged s o : s_issued o (snd (sstep s o)) = None -> fst (sstep s o) = s.
Proof. exact (s_refused_unchanged s o). Qed.
