(* C06/TypesChunks.v — the append-only chunk lists of type_traits.c behave as one
   flat array: lookups index the concatenation, registration appends at its end
   and numbers the new entry base + length, refusing exactly when that id would
   leave the range.  (The id arithmetic over chunks of g_NamedChunk / g_GenericChunk
   entries, including the unsigned wrap of the generic walk.) *)
From MptV Require Import Base.Mem C06.Gen_Types C06.TypesModel C06.TypesFacts.
Local Open Scope nat_scope.

(* every chunk but the last is full; the list is not empty *)
Fixpoint chunks_ok {A} (n : nat) (cs : list (list A)) : Prop :=
  match cs with
  | [] => False
  | c :: rest => match rest with [] => length c <= n | _ => length c = n /\ chunks_ok n rest end
  end.

Lemma chunks_ok_nonempty {A} n (cs : list (list A)) : chunks_ok n cs -> cs <> [].
Proof. destruct cs; simpl; [tauto|discriminate]. Qed.

(* ---------- metatype chunks ---------- *)
Lemma meta_walk_flat cs : chunks_ok nchunk cs -> forall pos, (0 <= pos)%Z ->
  meta_walk cs pos =
  match nth_error (concat cs) (Z.to_nat pos) with Some e => Ok (inl e) | None => Ok (inr EAGAIN) end.
Proof.
  induction cs as [|c rest IH]; intros H pos Hp; [destruct H|].
  cbn [meta_walk concat].
  destruct (Z.ltb_spec pos (Z.of_nat (length c))) as [Hlt|Hge].
  - destruct (Z.ltb_spec pos 0); [lia|].
    rewrite nth_error_app1 by lia.
    destruct (nth_error c (Z.to_nat pos)) eqn:E; [reflexivity|].
    apply nth_error_None in E. lia.
  - destruct rest as [|c2 rest'].
    + cbn [meta_walk concat]. rewrite app_nil_r.
      destruct (nth_error c (Z.to_nat pos)) eqn:E; [|reflexivity].
      assert (Z.to_nat pos < length c) by (apply nth_error_Some; congruence). lia.
    + destruct H as [Hc Hr]. rewrite IH by (assumption || lia).
      rewrite nth_error_app2 by lia.
      replace (Z.to_nat (pos - Z.of_nat nchunk)) with (Z.to_nat pos - length c) by lia.
      reflexivity.
Qed.

Lemma meta_add_walk_spec cs : chunks_ok nchunk cs -> forall pos n,
  ((g_MetaPtrMax < pos + N.of_nat (length (concat cs)))%N -> meta_add_walk cs pos n = inr ENOMEM) /\
  ((pos + N.of_nat (length (concat cs)) <= g_MetaPtrMax)%N ->
   exists cs',
     meta_add_walk cs pos n =
       inl (Ok (cs', mkne n (pos + N.of_nat (length (concat cs)))%N ptr_traits)) /\
     concat cs' = concat cs ++ [mkne n (pos + N.of_nat (length (concat cs)))%N ptr_traits] /\
     chunks_ok nchunk cs').
Proof.
  pose proof nchunk_N as HN. pose proof chunk_pos as [Hcp _].
  induction cs as [|c rest IH]; intros H pos n; [destruct H|].
  cbn [meta_add_walk].
  destruct rest as [|c2 rest'].
  - cbn [concat] in *. rewrite app_nil_r. simpl in H.
    destruct (Nat.eqb_spec (length c) nchunk) as [E|E].
    + replace (pos + g_NamedChunk)%N with (pos + N.of_nat (length c))%N by lia.
      split; intros Hm.
      * destruct (N.ltb_spec g_MetaPtrMax (pos + N.of_nat (length c))); [reflexivity|lia].
      * destruct (N.ltb_spec g_MetaPtrMax (pos + N.of_nat (length c))); [lia|].
        destruct (Nat.eqb_spec 0 nchunk); [lia|].
        eexists. split; [reflexivity|]. split.
        -- simpl. reflexivity.
        -- simpl. lia.
    + split; intros Hm.
      * destruct (N.ltb_spec g_MetaPtrMax (pos + N.of_nat (length c))); [reflexivity|lia].
      * destruct (N.ltb_spec g_MetaPtrMax (pos + N.of_nat (length c))); [lia|].
        eexists. split; [reflexivity|]. split.
        -- simpl. rewrite !app_nil_r. reflexivity.
        -- simpl. rewrite app_length. simpl. lia.
  - destruct H as [Hc Hr].
    destruct (Nat.eqb_spec (length c) nchunk) as [E|E]; [|lia].
    specialize (IH Hr (pos + g_NamedChunk)%N n). destruct IH as [IH1 IH2].
    assert (HL : (pos + N.of_nat (length (concat (c :: c2 :: rest'))) =
                  pos + g_NamedChunk + N.of_nat (length (concat (c2 :: rest'))))%N).
    { cbn [concat]. rewrite !app_length. lia. }
    rewrite HL. split; intros Hm.
    + destruct (N.ltb_spec g_MetaPtrMax (pos + g_NamedChunk)); [reflexivity|].
      rewrite IH1 by assumption. reflexivity.
    + destruct (N.ltb_spec g_MetaPtrMax (pos + g_NamedChunk)); [lia|].
      destruct (IH2 Hm) as (cs' & E1 & E2 & E3).
      rewrite E1. exists (c :: cs'). split; [reflexivity|]. split.
      * cbn [concat]. rewrite E2. cbn [concat]. rewrite <- !app_assoc. reflexivity.
      * destruct cs' as [|x cs'']; [destruct E3|]. split; assumption.
Qed.

(* ---------- generic chunks ---------- *)
Lemma wsub_small t k : (k <= t)%N -> (t < 2 ^ g_WordBits)%N -> wsub t k = (t - k)%N.
Proof.
  intros H1 H2. unfold wsub.
  replace (t + 2 ^ g_WordBits - k)%N with ((t - k) + 1 * 2 ^ g_WordBits)%N by lia.
  rewrite N.mod_add by (pose proof range_order; lia).
  apply N.mod_small. lia.
Qed.

Lemma wsub_lt a b : (wsub a b < 2 ^ g_WordBits)%N.
Proof. unfold wsub. apply N.mod_lt. pose proof range_order. lia. Qed.

Lemma gen_walk_flat cs : chunks_ok gchunk cs -> forall t, (t < 2 ^ g_WordBits)%N ->
  gen_walk cs t = Ok (nth_error (concat cs) (N.to_nat t)).
Proof.
  pose proof gchunk_N as HN.
  induction cs as [|c rest IH]; intros H t Ht; [destruct H|].
  cbn [gen_walk concat].
  destruct (N.ltb_spec t (N.of_nat (length c))) as [Hlt|Hge].
  - rewrite nth_error_app1 by lia.
    destruct (nth_error c (N.to_nat t)) eqn:E; [reflexivity|].
    apply nth_error_None in E. lia.
  - destruct rest as [|c2 rest'].
    + cbn [gen_walk concat]. rewrite app_nil_r.
      destruct (nth_error c (N.to_nat t)) eqn:E; [|reflexivity].
      assert (N.to_nat t < length c) by (apply nth_error_Some; congruence). lia.
    + destruct H as [Hc Hr].
      rewrite wsub_small by lia.
      rewrite IH by (assumption || lia).
      rewrite nth_error_app2 by lia.
      replace (N.to_nat (t - g_GenericChunk)) with (N.to_nat t - length c) by lia.
      reflexivity.
Qed.

Lemma gen_add_walk_spec cs : chunks_ok gchunk cs -> forall pos t,
  ((g_ValueMax < pos + N.of_nat (length (concat cs)))%N -> gen_add_walk cs pos t = Err BadType) /\
  ((pos + N.of_nat (length (concat cs)) <= g_ValueMax)%N ->
   exists cs',
     gen_add_walk cs pos t = Ok (cs', (pos + N.of_nat (length (concat cs)))%N) /\
     concat cs' = concat cs ++ [t] /\ chunks_ok gchunk cs').
Proof.
  pose proof gchunk_N as HN. pose proof chunk_pos as [_ Hcp].
  induction cs as [|c rest IH]; intros H pos t; [destruct H|].
  cbn [gen_add_walk].
  destruct rest as [|c2 rest'].
  - cbn [concat] in *. rewrite app_nil_r. simpl in H.
    destruct (Nat.eqb_spec (length c) gchunk) as [E|E].
    + replace (pos + g_GenericChunk)%N with (pos + N.of_nat (length c))%N by lia.
      split; intros Hm.
      * destruct (N.ltb_spec g_ValueMax (pos + N.of_nat (length c))); [reflexivity|lia].
      * destruct (N.ltb_spec g_ValueMax (pos + N.of_nat (length c))); [lia|].
        destruct (Nat.eqb_spec 0 gchunk); [lia|].
        eexists. split; [reflexivity|]. split.
        -- simpl. reflexivity.
        -- simpl. lia.
    + split; intros Hm.
      * destruct (N.ltb_spec g_ValueMax (pos + N.of_nat (length c))); [reflexivity|lia].
      * destruct (N.ltb_spec g_ValueMax (pos + N.of_nat (length c))); [lia|].
        eexists. split; [reflexivity|]. split.
        -- simpl. rewrite !app_nil_r. reflexivity.
        -- simpl. rewrite app_length. simpl. lia.
  - destruct H as [Hc Hr].
    destruct (Nat.eqb_spec (length c) gchunk) as [E|E]; [|lia].
    specialize (IH Hr (pos + g_GenericChunk)%N t). destruct IH as [IH1 IH2].
    assert (HL : (pos + N.of_nat (length (concat (c :: c2 :: rest'))) =
                  pos + g_GenericChunk + N.of_nat (length (concat (c2 :: rest'))))%N).
    { cbn [concat]. rewrite !app_length. lia. }
    rewrite HL. split; intros Hm.
    + rewrite IH1 by assumption. reflexivity.
    + destruct (IH2 Hm) as (cs' & E1 & E2 & E3).
      rewrite E1. cbn [bind]. exists (c :: cs'). split; [reflexivity|]. split.
      * cbn [concat]. rewrite E2. cbn [concat]. rewrite <- !app_assoc. reflexivity.
      * destruct cs' as [|x cs'']; [destruct E3|]. split; assumption.
Qed.
