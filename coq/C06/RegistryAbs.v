(* C06/RegistryAbs.v — the abstraction function from the mechanism state
   (TypesModel.reg: slot table, positions, chunk lists) to the specification
   state (RegistrySpec.sreg: two finite maps and four counters), and the
   projection of the model's outputs to the specification's observations.
   Definitions only; the proofs are in RegistryRefine.v. *)
From MptV Require Import Base.Mem C06.Gen_Types C06.TypesModel C06.RegistrySpec.
Local Open Scope N_scope.

(* what the three by-id lookups of the mechanism tell about one id *)
Definition descr (r : reg) (id : N) : option desc :=
  match interface_traits r id with
  | Ok (inl e) => Some (mkdesc KInterface (ne_traits e) (ne_name e))
  | _ =>
    match metatype_traits r id with
    | Ok (inl e) => Some (mkdesc KMetatype (ne_traits e) (ne_name e))
    | _ =>
      match type_traits r id with
      | Ok (Some t) =>
        Some (mkdesc (if is_dynamic id then KBasic else if g_ValueAdd <=? id then KGeneric else KBuiltin) t None)
      | _ => None
      end
    end
  end.

(* the finite map holding f(b), f(b+1), ..., f(b+n-1) *)
Definition opt_put {K V} (cmp : K -> K -> comparison) (o : option (K * V)) (m : list (K * V)) : list (K * V) :=
  match o with Some (k, v) => fput cmp k v m | None => m end.

Fixpoint tab {K V} (cmp : K -> K -> comparison) (f : N -> option (K * V)) (b : N) (n : nat) : list (K * V) :=
  match n with
  | O => []
  | S n => opt_put cmp (f b) (tab cmp f (b + 1) n)
  end.

(* all ids of types.h: 0 .. g_ValueMax *)
Definition id_span : nat := N.to_nat (g_ValueMax + 1).

Definition type_binding (r : reg) (id : N) : option (N * desc) :=
  option_map (fun d => (id, d)) (descr r id).
Definition name_binding (r : reg) (id : N) : option (name * N) :=
  match descr r id with
  | Some d => option_map (fun n => (n, id)) (d_name d)
  | None => None
  end.

Definition abs (r : reg) : sreg :=
  mksreg (tab N.compare (type_binding r) 0 id_span)
         (tab name_cmp (name_binding r) 0 id_span)
         (g_DynamicBase + N.of_nat (length (r_dyn r)))
         (g_ValueAdd + N.of_nat (length (concat (r_gen r))))
         (g_InterfaceBase + N.of_nat (r_ipos r))
         (g_MetaPtrBase + N.of_nat (length (concat (r_meta r)))).

(* ---------- observations ---------- *)
Fixpoint all_ok {A} (l : list (res A)) : option (list A) :=
  match l with
  | [] => Some []
  | Ok a :: l => option_map (cons a) (all_ok l)
  | _ :: _ => None
  end.

Definition obs_row (w : swname) : srow :=
  mksrow (sw_id w) (ne_type (sw_ent w)) (ne_name (sw_ent w)) (ne_traits (sw_ent w)) (sw_full w) (sw_exact w).

(* error kinds (negative return codes, errno) and the raw positions / chunk fill
   of a sweep are mechanism detail: not observable at the level of the property *)
Definition obs (x : out) : sout :=
  match x with
  | OId id => SId id
  | OCode _ => SRefused
  | ONamed e => SEntry (ne_type e) (ne_name e) (ne_traits e)
  | ONull _ => SRefused
  | OTraits t => STraits t
  | OAlias (AliasErr _) => SRefused
  | OAlias (AliasId id e) => SAlias id e
  | ONum z => SNum z
  | OSweep tr nm _ =>
    match all_ok tr with
    | Some l => SSweep l (map obs_row nm)
    | None => SFault
    end
  | OFault => SFault
  end.

(* arguments representable in the parameter types: an id is a uintptr_t, the
   argument of the C++ wrapper type_traits::get is an int *)
Definition op_wf (o : op) : Prop :=
  match o with
  | OpTraits id => id < 2 ^ g_WordBits
  | OpWrapTraits t => (- 2 ^ (Z.of_N g_IntBits - 1) <= t < 2 ^ (Z.of_N g_IntBits - 1))%Z
  | _ => True
  end.
