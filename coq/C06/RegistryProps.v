(* C06/RegistryProps.v — the property, proved on the abstract specification
   (RegistrySpec.v) where it is easy to see, for every history from the fresh
   registry: identifiers are handed out from the kind's counter, lie in the kind's
   range, are pairwise different and were unknown before; whatever an id or a name
   resolves to stays as it is; a refusal changes nothing.  RegistryCorollaries.v
   transfers these to the mechanism model through the refinement theorem. *)
From MptV Require Import Base.Mem C06.Gen_Types C06.TypesModel C06.TypesFacts C06.TypesInv C06.TypesProps
  C06.RegistrySpec C06.RegistryMaps.
Local Open Scope N_scope.

(* ---------- invariant of the specification state ---------- *)
Definition id_ok (s : sreg) (id : N) (k : kind) : Prop :=
  match k with
  | KBasic => g_DynamicBase <= id < s_nbasic s
  | KGeneric => g_ValueAdd <= id < s_ngeneric s
  | KInterface => g_InterfaceBase <= id < s_niface s
  | KMetatype => g_MetaPtrBase <= id < s_nmeta s
  | KBuiltin => id < g_InterfaceBase \/ g_MetaPtrMax < id < g_ValueAdd
  end.

Record sinv (s : sreg) : Prop := mksinv {
  si_ids : forall id d, s_get s id = Some d -> id_ok s id (d_kind d);
  si_cnt : g_DynamicBase <= s_nbasic s <= g_DynamicMax + 1 /\
           g_ValueAdd <= s_ngeneric s <= g_ValueMax + 1 /\
           g_InterfaceAdd <= s_niface s <= g_InterfaceMax + 1 /\
           g_MetaPtrBase + 1 <= s_nmeta s <= g_MetaPtrMax + 1;
  si_targets : forall a, In a g_aliases -> s_find s (snd a) <> None
}.

Definition id_okb (s : sreg) (p : N * desc) : bool :=
  let id := fst p in
  match d_kind (snd p) with
  | KBasic => (g_DynamicBase <=? id) && (id <? s_nbasic s)
  | KGeneric => (g_ValueAdd <=? id) && (id <? s_ngeneric s)
  | KInterface => (g_InterfaceBase <=? id) && (id <? s_niface s)
  | KMetatype => (g_MetaPtrBase <=? id) && (id <? s_nmeta s)
  | KBuiltin => (id <? g_InterfaceBase) || ((g_MetaPtrMax <? id) && (id <? g_ValueAdd))
  end.

Lemma fget_in {K V} (cmp : K -> K -> comparison) (cmp_eq : forall a b, cmp a b = Eq -> a = b) k (v : V) m :
  fget cmp k m = Some v -> In (k, v) m.
Proof.
  induction m as [|[k1 v1] m IH]; simpl; [discriminate|].
  destruct (cmp k k1) eqn:E; auto. intros H. inversion H; subst. apply cmp_eq in E. subst. auto.
Qed.

Lemma sreg0_ids : forallb (id_okb sreg0) (s_types sreg0) = true.
Proof. vm_compute. reflexivity. Qed.

Lemma sreg0_targets :
  forallb (fun a => match s_find sreg0 (snd a) with Some _ => true | None => false end) g_aliases = true.
Proof. vm_compute. reflexivity. Qed.

Lemma sinv0 : sinv sreg0.
Proof.
  constructor.
  - intros id d H. apply (fget_in N.compare ncmp_eq) in H.
    pose proof sreg0_ids as S. rewrite forallb_forall in S. specialize (S _ H).
    unfold id_okb in S. cbn [fst snd] in S. unfold id_ok.
    destruct (d_kind d);
      repeat match goal with
      | H : _ && _ = true |- _ => apply andb_true_iff in H; destruct H
      | H : _ || _ = true |- _ => apply orb_true_iff in H; destruct H
      | H : (_ <=? _) = true |- _ => apply N.leb_le in H
      | H : (_ <? _) = true |- _ => apply N.ltb_lt in H
      end; lia.
  - vm_compute. repeat split; congruence.
  - intros a Ha. pose proof sreg0_targets as S. rewrite forallb_forall in S. specialize (S a Ha).
    cbv beta in S. unfold name in S. destruct (s_find sreg0 (snd a)); [intros X; discriminate X|discriminate S].
Qed.

(* ---------- what a step does to the state ---------- *)
Definition is_named_kind (k : kind) : bool :=
  match k with KInterface | KMetatype => true | _ => false end.

(* the counters after a successful registration of kind k *)
Definition cnt_after (s s' : sreg) (k : kind) : Prop :=
  s_nbasic s' = s_nbasic s + (if kind_eqb k KBasic then 1 else 0) /\
  s_ngeneric s' = s_ngeneric s + (if kind_eqb k KGeneric then 1 else 0) /\
  s_niface s' = s_niface s + (if kind_eqb k KInterface then 1 else 0) /\
  s_nmeta s' = s_nmeta s + (if kind_eqb k KMetatype then 1 else 0).

Lemma kind_eqb_refl k : kind_eqb k k = true.
Proof. destruct k; reflexivity. Qed.

Lemma cnt_after_next s s' k k' : k <> KBuiltin -> cnt_after s s' k ->
  s_next s' k' = s_next s k' + (if kind_eqb k' k then 1 else 0).
Proof.
  intros Hk (A & B & C & D).
  destruct k; try congruence; destruct k'; cbn [s_next kind_eqb] in *; lia.
Qed.

Lemma s_register_cases s k t n : k <> KBuiltin ->
  (kind_last k < s_next s k /\ s_register s k t n = (s, SRefused)) \/
  (s_next s k <= kind_last k /\
   exists s', s_register s k t n =
              (s', if is_named_kind k then SEntry (s_next s k) n t else SId (s_next s k)) /\
     s_types s' = fput N.compare (s_next s k) (mkdesc k t n) (s_types s) /\
     s_names s' = match n with Some m => fput name_cmp m (s_next s k) (s_names s) | None => s_names s end /\
     cnt_after s s' k).
Proof.
  intros Hk. unfold s_register. cbv zeta.
  destruct (N.ltb_spec (kind_last k) (s_next s k)) as [H|H]; [left; auto|right].
  split; [exact H|]. eexists. split; [destruct k; try congruence; reflexivity|].
  unfold cnt_after.
  destruct k; try congruence; cbn [s_bump s_types s_names s_nbasic s_ngeneric s_niface s_nmeta kind_eqb];
    repeat split; try reflexivity; lia.
Qed.

(* the registration a step performs, if any *)
Lemma sstep_cases s o :
  fst (sstep s o) = s \/
  exists k t n, k <> KBuiltin /\ sstep s o = s_register s k t n /\
    (forall m, n = Some m -> s_find s (resolve_alias m) = None) /\ is_registration o = true.
Proof.
  destruct o; cbn [sstep is_registration]; try (left; reflexivity).
  - right. exists KBasic. do 2 eexists. split; [discriminate|]. split; [reflexivity|]. split; [discriminate|reflexivity].
  - destruct t as [t|]; [|left; reflexivity]. destruct (ti_size t =? 0); [left; reflexivity|].
    right. exists KGeneric. do 2 eexists. split; [discriminate|]. split; [reflexivity|]. split; [discriminate|reflexivity].
  - unfold s_register_named. destruct (s_name_ok s g_MinIfaceName n) eqn:E; [|left; reflexivity].
    right. exists KInterface. do 2 eexists. split; [discriminate|]. split; [reflexivity|].
    split; [|reflexivity]. intros m ->. unfold s_name_ok in E. apply andb_true_iff in E. destruct E as [_ E].
    destruct (s_find s (resolve_alias m)); [discriminate|reflexivity].
  - unfold s_register_named. destruct (s_name_ok s g_MinMetaName n) eqn:E; [|left; reflexivity].
    right. exists KMetatype. do 2 eexists. split; [discriminate|]. split; [reflexivity|].
    split; [|reflexivity]. intros m ->. unfold s_name_ok in E. apply andb_true_iff in E. destruct E as [_ E].
    destruct (s_find s (resolve_alias m)); [discriminate|reflexivity].
Qed.

(* the next id of a kind with room left is not in the map *)
Lemma s_fresh s k : sinv s -> k <> KBuiltin -> s_next s k <= kind_last k -> s_get s (s_next s k) = None.
Proof.
  intros I Hk Hroom. destruct (s_get s (s_next s k)) as [d|] eqn:E; [exfalso|reflexivity].
  pose proof (si_ids s I _ _ E) as H. pose proof (si_cnt s I) as C. ranges.
  destruct k; try congruence; cbn [s_next kind_last] in *; destruct (d_kind d); cbn [id_ok] in H; lia.
Qed.

(* a name that is accepted is not bound yet *)
Lemma s_unbound s m : sinv s -> s_find s (resolve_alias m) = None -> s_find s m = None.
Proof.
  intros I H. destruct (resolve_alias_cases m) as [R|(a & Ha & Hf & Hs)]; [congruence|].
  exfalso. apply (si_targets s I a Ha). congruence.
Qed.

Lemma sstep_inv s o : sinv s -> sinv (fst (sstep s o)).
Proof.
  intros I. destruct (sstep_cases s o) as [E|(k & t & n & Hk & E & Hn & _)]; [rewrite E; exact I|].
  rewrite E. destruct (s_register_cases s k t n Hk) as [[_ R]|(Hroom & s' & R & Ty & Nm & Cn)];
    rewrite R; cbn [fst]; [exact I|].
  pose proof (si_cnt s I) as C. destruct Cn as (C1 & C2 & C3 & C4). ranges. constructor.
  - intros id d Hg. unfold s_get in Hg. rewrite Ty, id_get_put in Hg.
    destruct (N.compare_spec id (s_next s k)) as [->|Hlt|Hgt].
    + inversion Hg; subst d. cbn [d_kind].
      destruct k; try congruence; cbn [id_ok s_next kind_last kind_eqb] in *; lia.
    + pose proof (si_ids s I id d Hg) as Hok.
      destruct (d_kind d); cbn [id_ok] in *; try assumption;
        destruct k; try congruence; cbn [kind_eqb] in *; lia.
    + pose proof (si_ids s I id d Hg) as Hok.
      destruct (d_kind d); cbn [id_ok] in *; try assumption;
        destruct k; try congruence; cbn [kind_eqb] in *; lia.
  - destruct k; try congruence; cbn [s_next kind_last kind_eqb] in *; lia.
  - intros a Ha. unfold s_find. rewrite Nm. destruct n as [m|]; [|exact (si_targets s I a Ha)].
    rewrite nm_get_put. destruct (name_cmp (snd a) m); [discriminate| |]; exact (si_targets s I a Ha).
Qed.

Lemma sexec_inv ops : forall s, sinv s -> sinv (sexec s ops).
Proof.
  unfold sexec. induction ops as [|o ops IH]; intros s I; [exact I|].
  cbn [fold_left]. apply IH, sstep_inv, I.
Qed.

(* ---------- stability ---------- *)
Lemma sstep_stable s o : sinv s ->
  (forall id d, s_get s id = Some d -> s_get (fst (sstep s o)) id = Some d) /\
  (forall n id, s_find s n = Some id -> s_find (fst (sstep s o)) n = Some id).
Proof.
  intros I. destruct (sstep_cases s o) as [E|(k & t & n & Hk & E & Hn & _)]; [rewrite E; auto|].
  rewrite E. destruct (s_register_cases s k t n Hk) as [[_ R]|(Hroom & s' & R & Ty & Nm & Cn)];
    rewrite R; cbn [fst]; [auto|].
  pose proof (s_fresh s k I Hk Hroom) as F. split.
  - intros id d H. unfold s_get. rewrite Ty, id_get_put.
    destruct (N.compare_spec id (s_next s k)) as [->|_|_]; [congruence|exact H|exact H].
  - intros x id H. unfold s_find. rewrite Nm. destruct n as [m|]; [|exact H].
    rewrite nm_get_put. destruct (name_cmp x m) eqn:C; [|exact H|exact H].
    apply name_cmp_eq in C. subst x. rewrite (s_unbound s m I (Hn m eq_refl)) in H. discriminate.
Qed.

Lemma sexec_stable ops : forall s, sinv s ->
  (forall id d, s_get s id = Some d -> s_get (sexec s ops) id = Some d) /\
  (forall n id, s_find s n = Some id -> s_find (sexec s ops) n = Some id).
Proof.
  unfold sexec. induction ops as [|o ops IH]; intros s I; [auto|].
  cbn [fold_left]. destruct (sstep_stable s o I) as [A B].
  destruct (IH _ (sstep_inv s o I)) as [A' B']. split; auto.
Qed.

(* ---------- issued identifiers ---------- *)
Definition s_issued (o : op) (x : sout) : option N :=
  if is_registration o then
    match x with SId id => Some id | SEntry id _ _ => Some id | _ => None end
  else None.

Definition reg_kind (o : op) : kind :=
  match o with
  | OpBasicAdd _ => KBasic | OpTypeAdd _ => KGeneric
  | OpIfaceAdd _ => KInterface | OpMetaAdd _ => KMetatype
  | _ => KBuiltin
  end.

(* an issued id is the counter of the operation's kind, inside the kind's range;
   it was unknown and is known afterwards; the counter moves past it *)
Lemma sstep_issued s o id : sinv s -> s_issued o (snd (sstep s o)) = Some id ->
  let k := reg_kind o in
  k <> KBuiltin /\ id = s_next s k /\ kind_first k <= id <= kind_last k /\
  s_get s id = None /\ s_get (fst (sstep s o)) id <> None /\
  s_next (fst (sstep s o)) k = id + 1 /\
  forall k', k' <> k -> s_next (fst (sstep s o)) k' = s_next s k'.
Proof.
  intros I. cbv zeta. unfold s_issued. pose proof (si_cnt s I) as C.
  assert (G : forall k t n, k <> KBuiltin -> k = reg_kind o ->
            match snd (s_register s k t n) with SId id => Some id | SEntry id _ _ => Some id | _ => None end = Some id ->
            k <> KBuiltin /\ id = s_next s k /\ kind_first k <= id <= kind_last k /\
            s_get s id = None /\ s_get (fst (s_register s k t n)) id <> None /\
            s_next (fst (s_register s k t n)) k = id + 1 /\
            forall k', k' <> k -> s_next (fst (s_register s k t n)) k' = s_next s k').
  { intros k t n Hk _ H.
    destruct (s_register_cases s k t n Hk) as [[_ R]|(Hroom & s' & R & Ty & Nm & Cn)];
      rewrite R in *; cbn [fst snd] in *; [discriminate|].
    assert (id = s_next s k) by (destruct (is_named_kind k); congruence). subst id.
    split; [exact Hk|]. split; [reflexivity|]. split.
    { destruct k; try congruence; cbn [kind_first kind_last s_next] in *; lia. }
    split; [exact (s_fresh s k I Hk Hroom)|]. split.
    { unfold s_get. rewrite Ty, id_get_put, N.compare_refl. discriminate. }
    split.
    - rewrite (cnt_after_next s s' k k Hk Cn), kind_eqb_refl. reflexivity.
    - intros k' Hk'. rewrite (cnt_after_next s s' k k' Hk Cn).
      destruct (kind_eqb k' k) eqn:K; [|lia].
      exfalso. apply Hk'. destruct k', k; try discriminate; reflexivity. }
  destruct o; cbn [is_registration sstep reg_kind]; try discriminate.
  - apply G; [discriminate|reflexivity].
  - destruct t as [t|]; [|discriminate]. destruct (ti_size t =? 0); [discriminate|].
    apply G; [discriminate|reflexivity].
  - unfold s_register_named. destruct (s_name_ok s g_MinIfaceName n); [|discriminate].
    apply G; [discriminate|reflexivity].
  - unfold s_register_named. destruct (s_name_ok s g_MinMetaName n); [|discriminate].
    apply G; [discriminate|reflexivity].
Qed.

Fixpoint s_issued_run (s : sreg) (ops : list op) : list N :=
  match ops with
  | [] => []
  | o :: ops =>
    match s_issued o (snd (sstep s o)) with
    | Some id => id :: s_issued_run (fst (sstep s o)) ops
    | None => s_issued_run (fst (sstep s o)) ops
    end
  end.

(* counters only grow *)
Lemma sstep_next_mono s o k : sinv s -> s_next s k <= s_next (fst (sstep s o)) k.
Proof.
  intros I. destruct (sstep_cases s o) as [E|(k0 & t & n & Hk & E & _ & _)]; [rewrite E; lia|].
  rewrite E. destruct (s_register_cases s k0 t n Hk) as [[_ R]|(_ & s' & R & _ & _ & Cn)];
    rewrite R; cbn [fst]; [lia|].
  rewrite (cnt_after_next s s' k0 k Hk Cn). lia.
Qed.

(* every id issued later is at or above the counter of its kind now *)
Lemma issued_above ops : forall s, sinv s -> forall id, In id (s_issued_run s ops) ->
  exists k, k <> KBuiltin /\ s_next s k <= id /\ kind_first k <= id <= kind_last k.
Proof.
  induction ops as [|o ops IH]; intros s I id H; [destruct H|].
  cbn [s_issued_run] in H. pose proof (sstep_inv s o I) as I'.
  assert (T : In id (s_issued_run (fst (sstep s o)) ops) ->
              exists k, k <> KBuiltin /\ s_next s k <= id /\ kind_first k <= id <= kind_last k).
  { intros Hin. destruct (IH _ I' id Hin) as (k & Hk & Hn & Hr). exists k. split; [exact Hk|].
    split; [|exact Hr]. pose proof (sstep_next_mono s o k I). lia. }
  destruct (s_issued o (snd (sstep s o))) as [id0|] eqn:E; [|exact (T H)].
  destruct H as [<-|H]; [|exact (T H)].
  destruct (sstep_issued s o id0 I E) as (Hk & Hid & Hr & _). exists (reg_kind o).
  split; [exact Hk|]. split; [lia|exact Hr].
Qed.

Lemma kind_ranges_disjoint k k' id : k <> KBuiltin -> k' <> KBuiltin ->
  kind_first k <= id <= kind_last k -> kind_first k' <= id <= kind_last k' -> k = k'.
Proof.
  intros Hk Hk' H H'. ranges.
  destruct k, k'; try congruence; cbn [kind_first kind_last] in *; lia.
Qed.

Theorem s_ids_unique ops : forall s, sinv s ->
  NoDup (s_issued_run s ops) /\ forall id, In id (s_issued_run s ops) -> s_get s id = None.
Proof.
  induction ops as [|o ops IH]; intros s I; cbn [s_issued_run].
  - split; [constructor|intros id []].
  - pose proof (sstep_inv s o I) as I'. destruct (IH _ I') as [ND U].
    assert (U' : forall id, In id (s_issued_run (fst (sstep s o)) ops) -> s_get s id = None).
    { intros id Hin. destruct (s_get s id) as [d|] eqn:G; [|reflexivity].
      pose proof (U id Hin) as X. rewrite (proj1 (sstep_stable s o I) id d G) in X. discriminate. }
    destruct (s_issued o (snd (sstep s o))) as [id|] eqn:E; [|split; assumption].
    destruct (sstep_issued s o id I E) as (Hk & Hid & Hr & Hnone & Hnew & Hnx & _). split.
    + constructor; [|assumption]. intros Hin. apply Hnew. apply U. exact Hin.
    + intros id' [<-|Hin]; [assumption|apply U'; assumption].
Qed.

Theorem s_ids_in_range s o id : sinv s -> s_issued o (snd (sstep s o)) = Some id ->
  reg_kind o <> KBuiltin /\ kind_first (reg_kind o) <= id <= kind_last (reg_kind o).
Proof. intros I H. destruct (sstep_issued s o id I H) as (A & _ & B & _). auto. Qed.

(* a step that issues nothing leaves the state as it was *)
Theorem s_refused_unchanged s o : s_issued o (snd (sstep s o)) = None -> fst (sstep s o) = s.
Proof.
  intros H. destruct (sstep_cases s o) as [E|(k & t & n & Hk & E & _ & Ro)]; [exact E|].
  destruct (s_register_cases s k t n Hk) as [[_ R]|(_ & s' & R & _)]; rewrite E, R in *; [reflexivity|].
  exfalso. unfold s_issued in H. rewrite Ro in H. cbn [snd] in H.
  destruct (is_named_kind k); discriminate.
Qed.
