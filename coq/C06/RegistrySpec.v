(* C06/RegistrySpec.v — the abstract specification of the type registry.

   The registry is the simplest object the property text talks about:
     * a finite map   id   |-> description (kind, size/behaviour description, optional name)
     * a finite map   name |-> id
     * one "next free id" counter per kind that can be registered, running through
       the range types.h reserves for that kind.
   It knows nothing about slot tables, positions, chunk lists, the order in which
   the tables are searched, lazily created arrays or errno values.  A refusal is
   just [SRefused]: which error code the C function picks is not part of the
   property.

   Finite maps are association lists kept sorted by key ([fput] inserts in key
   order, [fget] searches), so that equal maps are equal terms and the refinement
   theorem (RegistryRefine.v) can be stated as an equation between states.

   Reused from the model file: the data type of operations ([op]), [name], the
   caller-visible description of a traits object ([tinfo]: size, init/fini
   present, identity of a caller-supplied object), the alias table and the
   stateless helpers of type_int.c / msgvalfmt.c.  NO proofs in this file. *)
From MptV Require Import Base.Mem C06.Gen_Types C06.TypesModel.
Local Open Scope N_scope.

(* ---------- finite maps ---------- *)
Definition is_eq (c : comparison) : bool := match c with Eq => true | _ => false end.

Section FMap.
  Context {K V : Type} (cmp : K -> K -> comparison).

  Fixpoint fget (k : K) (m : list (K * V)) : option V :=
    match m with
    | [] => None
    | (k', v) :: m => if is_eq (cmp k k') then Some v else fget k m
    end.

  Fixpoint fput (k : K) (v : V) (m : list (K * V)) : list (K * V) :=
    match m with
    | [] => [(k, v)]
    | (k', v') :: t =>
      match cmp k k' with
      | Lt => (k, v) :: m
      | Eq => (k, v) :: t
      | Gt => (k', v') :: fput k v t
      end
    end.
End FMap.

(* lexicographic order on names *)
Fixpoint name_cmp (a b : name) : comparison :=
  match a, b with
  | [], [] => Eq
  | [], _ :: _ => Lt
  | _ :: _, [] => Gt
  | x :: a, y :: b => match x ?= y with Eq => name_cmp a b | c => c end
  end.

(* ---------- the state ---------- *)
Inductive kind := KBuiltin | KInterface | KBasic | KMetatype | KGeneric.

Definition kind_eqb (a b : kind) : bool :=
  match a, b with
  | KBuiltin, KBuiltin | KInterface, KInterface | KBasic, KBasic
  | KMetatype, KMetatype | KGeneric, KGeneric => true
  | _, _ => false
  end.

Record desc := mkdesc { d_kind : kind; d_info : tinfo; d_name : option name }.

Record sreg := mksreg {
  s_types : list (N * desc);     (* id |-> description *)
  s_names : list (name * N);     (* name |-> id *)
  s_nbasic : N;                  (* next free id of each kind *)
  s_ngeneric : N;
  s_niface : N;
  s_nmeta : N
}.

Definition s_get (s : sreg) (id : N) : option desc := fget N.compare id (s_types s).
Definition s_find (s : sreg) (n : name) : option N := fget name_cmp n (s_names s).

(* the last id of the range reserved for a kind (types.h) *)
Definition kind_last (k : kind) : N :=
  match k with
  | KBasic => g_DynamicMax
  | KGeneric => g_ValueMax
  | KInterface => g_InterfaceMax
  | KMetatype => g_MetaPtrMax
  | KBuiltin => 0
  end.

(* the first id handed out for a kind: interfaces follow the built-in interfaces,
   metatypes follow the base metatype *)
Definition kind_first (k : kind) : N :=
  match k with
  | KBasic => g_DynamicBase
  | KGeneric => g_ValueAdd
  | KInterface => g_InterfaceAdd
  | KMetatype => g_MetaPtrBase + 1
  | KBuiltin => 1
  end.

Definition s_next (s : sreg) (k : kind) : N :=
  match k with
  | KBasic => s_nbasic s
  | KGeneric => s_ngeneric s
  | KInterface => s_niface s
  | KMetatype => s_nmeta s
  | KBuiltin => 1
  end.

(* ---------- observations ---------- *)
(* one line of the named part of a sweep *)
Record srow := mksrow {
  sr_id : N;                (* the id that was looked up *)
  sr_type : N;              (* the id the entry carries *)
  sr_name : option name;
  sr_info : tinfo;
  sr_full : option N;       (* id its name resolves to, full-name mode *)
  sr_exact : option N       (* id its name resolves to, exact-length mode *)
}.

Inductive sout :=
| SId (id : N)                                   (* an unnamed kind was registered *)
| SEntry (id : N) (n : option name) (t : tinfo)  (* a named entry: registered or found *)
| SRefused                                       (* registration refused / nothing found / error *)
| STraits (t : option tinfo)                     (* description of an id, if any *)
| SAlias (id : N) (endoff : option nat)
| SNum (z : Z)
| SSweep (traits : list (option tinfo)) (rows : list srow)
| SFault.                                        (* never produced by the specification *)

(* ---------- registration ---------- *)
Definition s_bump (s : sreg) (k : kind) (ty : list (N * desc)) (nm : list (name * N)) : sreg :=
  match k with
  | KBasic => mksreg ty nm (s_nbasic s + 1) (s_ngeneric s) (s_niface s) (s_nmeta s)
  | KGeneric => mksreg ty nm (s_nbasic s) (s_ngeneric s + 1) (s_niface s) (s_nmeta s)
  | KInterface => mksreg ty nm (s_nbasic s) (s_ngeneric s) (s_niface s + 1) (s_nmeta s)
  | KMetatype => mksreg ty nm (s_nbasic s) (s_ngeneric s) (s_niface s) (s_nmeta s + 1)
  | KBuiltin => s
  end.

(* the next id of the kind's range, or refusal when the range is used up; the
   two maps get exactly one new binding each (none for an anonymous entry) *)
Definition s_register (s : sreg) (k : kind) (t : tinfo) (n : option name) : sreg * sout :=
  let id := s_next s k in
  if kind_last k <? id then (s, SRefused)
  else
    (s_bump s k (fput N.compare id (mkdesc k t n) (s_types s))
                (match n with Some m => fput name_cmp m id (s_names s) | None => s_names s end),
     match k with
     | KInterface | KMetatype => SEntry id n t
     | _ => SId id
     end).

(* a name is acceptable when it is long enough and does not resolve already
   (to an id of ANY kind, directly or through an alias) *)
Definition s_name_ok (s : sreg) (minlen : nat) (n : option name) : bool :=
  match n with
  | None => true
  | Some m =>
    (minlen <=? length m)%nat &&
    match s_find s (resolve_alias m) with Some _ => false | None => true end
  end.

Definition s_register_named (s : sreg) (k : kind) (minlen : nat) (n : option name) : sreg * sout :=
  if s_name_ok s minlen n then s_register s k ptr_traits n else (s, SRefused).

(* ---------- lookups ---------- *)
Definition s_entry (id : N) (d : desc) : sout := SEntry id (d_name d) (d_info d).

(* by id, restricted to one named kind *)
Definition s_by_id (s : sreg) (k : kind) (id : N) : sout :=
  match s_get s id with
  | Some d => if kind_eqb (d_kind d) k then s_entry id d else SRefused
  | None => SRefused
  end.

Definition s_by_name (s : sreg) (n : name) : option (N * desc) :=
  match s_find s n with
  | Some id => match s_get s id with Some d => Some (id, d) | None => None end
  | None => None
  end.

(* full names (len < 0) go through the alias table; a length-limited lookup takes
   exactly the first [len] bytes of the name *)
Definition s_lookup (s : sreg) (n : option name) (len : Z) : option (N * desc) :=
  match n with
  | None => None
  | Some n =>
    if (len =? 0)%Z || (length n =? 0)%nat then None
    else if (len <? 0)%Z then s_by_name s (resolve_alias n)
    else if (length n <? Z.to_nat len)%nat then None
    else s_by_name s (firstn (Z.to_nat len) n)
  end.

Definition s_lookup_id (s : sreg) (n : option name) (len : Z) : option N :=
  option_map fst (s_lookup s n len).

(* alias description: "name" or "name [spaces] : [spaces] rest" *)
Fixpoint drop_spaces (l : list N) : list N :=
  match l with c :: r => if is_space c then drop_spaces r else l | [] => [] end.

Definition s_alias (s : sreg) (d : option name) (want_end : bool) : sout :=
  match d with
  | None => SRefused
  | Some d =>
    match index_of 58 d with
    | None =>
      match s_lookup s (Some d) (-1) with
      | Some (id, _) => SAlias id (if want_end then Some (length d) else None)
      | None => SRefused
      end
    | Some k =>
      let nm := rev (drop_spaces (rev (firstn k d))) in
      match nm with
      | [] => SRefused
      | _ =>
        match s_by_name s nm with
        | Some (id, _) =>
          SAlias id (if want_end then Some (length d - length (drop_spaces (skipn (S k) d)))%nat else None)
        | None => SRefused
        end
      end
    end
  end.

(* ---------- sweep: every id 0..g_SweepEnd, every entry of the two named ranges ---------- *)
Definition s_rows (s : sreg) (k : kind) (ids : list N) : list srow :=
  flat_map (fun id =>
    match s_get s id with
    | Some d =>
      if kind_eqb (d_kind d) k then
        [mksrow id id (d_name d) (d_info d)
                (s_lookup_id s (d_name d) (-1))
                (s_lookup_id s (d_name d) (match d_name d with Some m => Z.of_nat (length m) | None => 0%Z end))]
      else []
    | None => []
    end) ids.

Definition s_sweep (s : sreg) : sout :=
  SSweep (map (fun id => option_map d_info (s_get s id)) (ids_from 0 (S (N.to_nat g_SweepEnd))))
         (s_rows s KInterface (ids_from g_InterfaceBase (N.to_nat (g_InterfaceMax + 1 - g_InterfaceBase)))
          ++ s_rows s KMetatype (ids_from g_MetaPtrBase (N.to_nat (g_MetaPtrMax + 1 - g_MetaPtrBase)))).

(* ---------- one operation ---------- *)
Definition sstep (s : sreg) (o : op) : sreg * sout :=
  match o with
  | OpBasicAdd sz => s_register s KBasic (plain (if sz =? 0 then g_PtrSize else sz)) None
  | OpTypeAdd None => (s, SRefused)
  | OpTypeAdd (Some t) => if ti_size t =? 0 then (s, SRefused) else s_register s KGeneric t None
  | OpIfaceAdd n => s_register_named s KInterface g_MinIfaceName n
  | OpMetaAdd n => s_register_named s KMetatype g_MinMetaName n
  | OpTraits id => (s, STraits (option_map d_info (s_get s id)))
  | OpIface id => (s, s_by_id s KInterface id)
  | OpMeta id => (s, s_by_id s KMetatype id)
  | OpNamed n len =>
    (s, match s_lookup s n len with Some (id, d) => s_entry id d | None => SRefused end)
  | OpAlias d e => (s, s_alias s d e)
  | OpTypeInt n => (s, SNum (Z.of_N (type_int n)))
  | OpTypeUint n => (s, SNum (Z.of_N (type_uint n)))
  | OpFmtSize f => (s, SNum (Z.of_N (msgvalfmt_size f)))
  | OpFmtType f => (s, match msgvalfmt_typeid f with Ok c => SNum (Z.of_N c) | _ => SRefused end)
  | OpFmtCode t => (s, SNum (msgvalfmt_code t))
  | OpSweep => (s, s_sweep s)
  | OpWrapTraits t =>   (* C++ type_traits::get(int): a negative int names no type *)
    (s, STraits (if (t <? 0)%Z then None else option_map d_info (s_get s (Z.to_N t))))
  end.

Fixpoint srun (s : sreg) (ops : list op) : list sout :=
  match ops with
  | [] => []
  | o :: ops => let '(s', x) := sstep s o in x :: srun s' ops
  end.

Definition sexec (s : sreg) (ops : list op) : sreg := fold_left (fun s o => fst (sstep s o)) ops s.

(* ---------- the registry of a fresh process ----------
   Built-in types: exactly the publicly named built-in ids, each with the sizeof
   of the C type it stands for (Gen_Types.g_ctype_sizes), the built-in interface
   names, the base metatype and the init/fini flags of the managed types. *)
Definition builtin_desc (p : N * N) : N * desc :=
  let '(id, sz) := p in
  (id, match assoc id g_core_interfaces with
       | Some n => mkdesc KInterface (plain sz) (Some n)
       | None =>
         if id =? g_MetaPtrBase then mkdesc KMetatype (plain sz) (Some g_meta_base_name)
         else match assoc id g_static_types with
              | Some (_, i, f) => mkdesc KBuiltin (mkti sz i f None) None
              | None => mkdesc KBuiltin (plain sz) None
              end
       end).

Definition sreg0 : sreg :=
  let ents := map builtin_desc g_ctype_sizes in
  mksreg (fold_right (fun p m => fput N.compare (fst p) (snd p) m) [] ents)
         (fold_right (fun p m => match d_name (snd p) with
                                 | Some n => fput name_cmp n (fst p) m
                                 | None => m
                                 end) [] ents)
         (kind_first KBasic) (kind_first KGeneric) (kind_first KInterface) (kind_first KMetatype).
