(* C06/TypesSpec.v — the abstract specification: ONE finite map
      id -> (name, description)
   (association list, newest first) from which the name -> id direction is
   derived.  It knows nothing about slots, positions, chunks or the order of
   the tables.  Built-in entries are exactly the named built-in ids with the
   size of the C type they stand for (Gen_Types.g_ctype_sizes).

   The specification reuses from the model only: the data types of operations
   and outputs, name equality, the alias table and the pure helpers of
   type_int.c / msgvalfmt.c (which have no state). *)
From MptV Require Import Base.Mem C06.Gen_Types C06.TypesModel.
Local Open Scope N_scope.

Record sentry := mkse { se_name : option name; se_info : tinfo }.
Definition smap := list (N * sentry).

Definition s_get (m : smap) (id : N) : option sentry := assoc id m.

Definition in_range (lo hi id : N) : bool := (lo <=? id) && (id <=? hi).

(* ids of named kinds *)
Definition named_id (id : N) : bool :=
  in_range g_InterfaceBase g_InterfaceMax id || in_range g_MetaPtrBase g_MetaPtrMax id.

(* name -> id: the entry of a named kind carrying that name *)
Definition s_byname (m : smap) (n : name) : option (N * sentry) :=
  find (fun p => named_id (fst p) &&
                 match se_name (snd p) with Some k => name_eqb n k | None => false end) m.

Definition count_in (m : smap) (lo hi : N) : N :=
  N.of_nat (length (filter (fun p => in_range lo hi (fst p)) m)).

(* the next identifier of a kind whose user range is [lo, hi]: ranges are filled in order *)
Definition s_alloc (m : smap) (lo hi : N) : option N :=
  let id := lo + count_in m lo hi in
  if hi <? id then None else Some id.

(* built-in part *)
Definition builtin_entry (p : N * N) : N * sentry :=
  let '(id, sz) := p in
  (id, mkse (match assoc id g_core_interfaces with
             | Some n => Some n
             | None => if id =? g_MetaPtrBase then Some g_meta_base_name else None
             end)
            (match assoc id g_static_types with
             | Some (_, i, f) => mkti sz i f None
             | None => plain sz
             end)).

Definition smap0 : smap := map builtin_entry g_ctype_sizes.

Definition s_entry_out (id : N) (e : sentry) : nentry := mkne (se_name e) id (se_info e).

(* lookup of a named kind by id: outside the kind's range it is a caller error *)
Definition s_named (m : smap) (lo hi id : N) : out :=
  if negb (in_range lo hi id) then ONull EINVAL
  else match s_get m id with
       | Some e => ONamed (s_entry_out id e)
       | None => ONull EAGAIN
       end.

(* name lookup: full names go through the alias table, a length-limited lookup
   takes exactly the first [len] bytes *)
Definition s_lookup (m : smap) (n : option name) (len : Z) : option (N * sentry) :=
  match n with
  | None => None
  | Some n =>
    if (len =? 0)%Z || (length n =? 0)%nat then None
    else if (len <? 0)%Z then s_byname m (resolve_alias n)
    else if (length n <? Z.to_nat len)%nat then None
    else s_byname m (firstn (Z.to_nat len) n)
  end.

Definition s_lookup_id (m : smap) (n : option name) (len : Z) : option N :=
  option_map fst (s_lookup m n len).

(* registration of a named kind *)
Definition s_add_named (m : smap) (lo hi : N) (minlen : nat) (n : option name) : smap * out :=
  let bad := match n with
             | Some k => (length k <? minlen)%nat ||
                         (match s_lookup m (Some k) (-1) with Some _ => true | None => false end)
             | None => false
             end in
  if bad then (m, ONull EINVAL)
  else match s_alloc m lo hi with
       | None => (m, ONull ENOMEM)
       | Some id => let e := mkse n ptr_traits in ((id, e) :: m, ONamed (s_entry_out id e))
       end.

(* registration of an unnamed kind *)
Definition s_add_plain (m : smap) (lo hi : N) (t : tinfo) (full : err) : smap * out :=
  match s_alloc m lo hi with
  | None => (m, OCode full)
  | Some id => ((id, mkse None t) :: m, OId id)
  end.

(* alias description "name [spaces] : [spaces] rest" or "name" *)
Fixpoint drop_spaces (l : list N) : list N :=
  match l with c :: r => if is_space c then drop_spaces r else l | [] => [] end.

Definition s_alias (m : smap) (d : option name) (want_end : bool) : out :=
  match d with
  | None => OAlias (AliasErr BadArgument)
  | Some d =>
    match index_of 58 d with
    | None =>
      match s_lookup m (Some d) (-1) with
      | Some (id, _) => OAlias (AliasId id (if want_end then Some (length d) else None))
      | None => OAlias (AliasErr BadValue)
      end
    | Some k =>
      let nm := rev (drop_spaces (rev (firstn k d))) in
      match nm with
      | [] => OAlias (AliasErr BadValue)
      | _ =>
        match s_byname m nm with
        | Some (id, _) =>
          let rest := skipn (S k) d in
          OAlias (AliasId id (if want_end then Some (length d - length (drop_spaces rest))%nat else None))
        | None => OAlias (AliasErr BadValue)
        end
      end
    end
  end.

Definition s_sweep_named (m : smap) (ids : list N) : list swname :=
  flat_map (fun id =>
    match s_get m id with
    | Some e =>
      [mksw id (s_entry_out id e) (s_lookup_id m (se_name e) (-1))
            (s_lookup_id m (se_name e) (match se_name e with Some k => Z.of_nat (length k) | None => 0%Z end))]
    | None => []
    end) ids.

Definition s_sweep (m : smap) : out :=
  OSweep (map (fun id => Ok (option_map se_info (s_get m id))) (ids_from 0 (S (N.to_nat g_SweepEnd))))
         (s_sweep_named m (ids_from g_InterfaceBase (N.to_nat (g_InterfaceMax + 1 - g_InterfaceBase)))
          ++ s_sweep_named m (ids_from g_MetaPtrBase (N.to_nat (g_MetaPtrMax + 1 - g_MetaPtrBase))))
         (0, 0, [], [])%nat.

Definition sstep (m : smap) (o : op) : smap * out :=
  match o with
  | OpBasicAdd s =>
    s_add_plain m g_DynamicBase g_DynamicMax (plain (if s =? 0 then g_PtrSize else s)) MissingBuffer
  | OpTypeAdd None => (m, OCode BadArgument)
  | OpTypeAdd (Some t) =>
    if ti_size t =? 0 then (m, OCode BadArgument)
    else s_add_plain m g_ValueAdd g_ValueMax t BadType
  | OpIfaceAdd n => s_add_named m g_InterfaceAdd g_InterfaceMax g_MinIfaceName n
  | OpMetaAdd n => s_add_named m (g_MetaPtrBase + 1) g_MetaPtrMax g_MinMetaName n
  | OpTraits id => (m, OTraits (option_map se_info (s_get m id)))
  | OpIface id => (m, s_named m g_InterfaceBase g_InterfaceMax id)
  | OpMeta id => (m, s_named m g_MetaPtrBase g_MetaPtrMax id)
  | OpNamed n len =>
    (m, match s_lookup m n len with
        | Some (id, e) => ONamed (s_entry_out id e)
        | None => ONull EINVAL
        end)
  | OpAlias d e => (m, s_alias m d e)
  | OpTypeInt n => (m, ONum (Z.of_N (type_int n)))
  | OpTypeUint n => (m, ONum (Z.of_N (type_uint n)))
  | OpFmtSize f => (m, ONum (Z.of_N (msgvalfmt_size f)))
  | OpFmtType f => (m, match msgvalfmt_typeid f with Ok c => ONum (Z.of_N c) | Err e => OCode e | Fault => OFault end)
  | OpFmtCode t => (m, ONum (msgvalfmt_code t))
  | OpSweep => (m, s_sweep m)
  end.

Fixpoint srun (m : smap) (ops : list op) : list out :=
  match ops with
  | [] => []
  | o :: ops => let '(m', x) := sstep m o in x :: srun m' ops
  end.
