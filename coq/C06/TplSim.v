(* C06/TplSim.v - the template layer (TplModel.v) run over two registries that simulate each other
   runs in lock step: same cached ids, same cached descriptions, same answers (error codes erased).
   Instantiated with  mechanism model [= specification  (RegistryRefine.step_refines). *)
From MptV Require Import Base.Mem C06.Gen_Types C06.TypesModel C06.TypesFacts C06.TypesInv
  C06.RegistrySpec C06.RegistryAbs C06.RegistryRefine C06.TplModel.
Local Open Scope N_scope.

Definition erase (v : tview) : tview := match v with VRef _ => VRef 0 | x => x end.

Lemma sview_obs x : sview (obs x) = erase (mview x).
Proof.
  destruct x; try reflexivity.
  - destruct a; reflexivity.
  - cbn [obs]. destruct (all_ok traits); reflexivity.
Qed.

Lemma int_wrap_range z :
  (- 2 ^ (Z.of_N g_IntBits - 1) <= int_wrap z < 2 ^ (Z.of_N g_IntBits - 1))%Z.
Proof.
  unfold int_wrap.
  assert (E1 : (2 ^ (Z.of_N g_IntBits - 1) = 2147483648)%Z) by reflexivity.
  assert (E2 : (2 ^ Z.of_N g_IntBits = 4294967296)%Z) by reflexivity.
  rewrite E1, E2. pose proof (Z.mod_pos_bound (z + 2147483648) 4294967296). lia.
Qed.
Lemma int_wrap_wf z : op_wf (OpWrapTraits (int_wrap z)).
Proof. exact (int_wrap_range z). Qed.
Lemma int_wrap_small z : (- 2 ^ (Z.of_N g_IntBits - 1) <= z < 2 ^ (Z.of_N g_IntBits - 1))%Z -> int_wrap z = z.
Proof.
  unfold int_wrap.
  assert (E1 : (2 ^ (Z.of_N g_IntBits - 1) = 2147483648)%Z) by reflexivity.
  assert (E2 : (2 ^ Z.of_N g_IntBits = 4294967296)%Z) by reflexivity.
  rewrite E1, E2. intros H. rewrite Z.mod_small by lia. lia.
Qed.

Definition twf (o : top) : Prop := match o with TBase b => op_wf b | _ => True end.

Section Sim.
Context {R1 O1 R2 O2 : Type}.
Variable step1 : R1 -> op -> R1 * O1.
Variable view1 : O1 -> tview.
Variable step2 : R2 -> op -> R2 * O2.
Variable view2 : O2 -> tview.
Variable f : R1 -> R2.
Variable g : O1 -> O2.
Variable P : R1 -> Prop.
Hypothesis view_g : forall x, view2 (g x) = erase (view1 x).
Hypothesis sim : forall r o, P r -> op_wf o ->
  P (fst (step1 r o)) /\ step2 (f r) o = (f (fst (step1 r o)), g (snd (step1 r o))).

Definition lift (st : @tst R1) : @tst R2 := mkt (f (t_reg st)) (t_ids st) (t_trs st).
Definition tmap (x : tout O1) : tout O2 :=
  match x with
  | TOut x => TOut (g x)
  | TInt z => TInt z
  | TRef _ => TRef 0
  | TTr t r => TTr t r
  | TBadOut => TBadOut
  end.

Definition terase (x : tout O2) : tout O2 := match x with TRef _ => TRef 0 | y => y end.

(* the shape every lemma of this section has: same state, same answer up to the error code *)
Definition agree {A B} (m : A -> B) (e : B -> B) (r1 : @tst R1 * A) (r2 : @tst R2 * B) : Prop :=
  P (t_reg (fst r1)) /\ fst r2 = lift (fst r1) /\ e (snd r2) = m (snd r1).

Lemma terase_inv x' x : terase x' = tmap x ->
  match x with
  | TOut o => x' = TOut (g o)
  | TInt z => x' = TInt z
  | TRef _ => exists c, x' = TRef c
  | TTr t r => x' = TTr t r
  | TBadOut => x' = TBadOut
  end.
Proof. destruct x, x'; cbn; intros H; try discriminate; try exact H; eauto. Qed.

Lemma peek_lift st e : peek_id (lift st) e = peek_id st e.
Proof. reflexivity. Qed.

Ltac done := repeat split; try assumption; try reflexivity.

Lemma reg_add_sim st k t ob : P (t_reg st) ->
  agree tmap terase (reg_add step1 view1 st k t ob) (reg_add step2 view2 (lift st) k t ob).
Proof.
  intros HP. unfold agree, reg_add. destruct ob; cbn [negb]; [|done].
  destruct (sim (t_reg st) (OpTypeAdd (Some t)) HP Logic.I) as [P' E].
  cbn [lift t_reg]. rewrite E. destruct (step1 (t_reg st) (OpTypeAdd (Some t))) as [r' x].
  cbn [fst snd] in *. rewrite view_g.
  destruct (view1 x); cbn [erase]; done.
Qed.

Lemma tid_sim st k ob : P (t_reg st) ->
  agree tmap terase (tid step1 view1 st k ob) (tid step2 view2 (lift st) k ob).
Proof.
  intros HP. unfold tid. destruct (nth_error g_slots k) as [[id sz|t|e t]|]; try solve [unfold agree; done].
  - change (t_ids (lift st)) with (t_ids st). destruct (cached (t_ids st) k); [unfold agree; done|].
    now apply reg_add_sim.
  - change (t_ids (lift st)) with (t_ids st). destruct (cached (t_ids st) k); [unfold agree; done|].
    rewrite peek_lift. destruct (0 <? to_vector (peek_id st e))%Z; [unfold agree; done|].
    now apply reg_add_sim.
Qed.

Lemma get_traits_sim st id : P (t_reg st) ->
  agree (fun x => x) (fun x => x) (get_traits step1 view1 st id) (get_traits step2 view2 (lift st) id).
Proof.
  intros HP. unfold agree, get_traits.
  destruct (sim (t_reg st) (OpWrapTraits (int_wrap id)) HP (int_wrap_wf id)) as [P' E].
  cbn [lift t_reg]. rewrite E. destruct (step1 (t_reg st) (OpWrapTraits (int_wrap id))) as [r' x].
  cbn [fst snd] in *. rewrite view_g. split; [assumption|]. split; [reflexivity|].
  destruct (view1 x); reflexivity.
Qed.

Lemma ttraits_sim st k : P (t_reg st) ->
  agree (fun x => x) (fun x => x) (ttraits step1 view1 st k) (ttraits step2 view2 (lift st) k).
Proof.
  intros HP. unfold ttraits. destruct (nth_error g_slots k) as [[id sz|t|e t]|]; try solve [unfold agree; done].
  - now apply get_traits_sim.
  - change (t_trs (lift st)) with (t_trs st). destruct (cached (t_trs st) k); [unfold agree; done|].
    destruct (tid_sim st k true HP) as [P1 [E1 X1]].
    destruct (tid step1 view1 st k true) as [st1 x], (tid step2 view2 (lift st) k true) as [st1' x'].
    cbn [fst snd] in *. subst st1'. apply terase_inv in X1.
    destruct x as [x|ty|c|tr r|].
    + subst x'. unfold agree; done.
    + subst x'. destruct (ty <? 0)%Z; [unfold agree; done|].
      destruct (get_traits_sim st1 ty P1) as [P2 [E2 X2]].
      destruct (get_traits step1 view1 st1 ty) as [st2 u], (get_traits step2 view2 (lift st1) ty) as [st2' u'].
      cbn [fst snd] in *. subst st2' u'. destruct u as [[u|]|]; unfold agree; done.
    + destruct X1 as [c' ->]. unfold agree; done.
    + subst x'. unfold agree; done.
    + subst x'. unfold agree; done.
Qed.

Lemma ttraits_rel_sim st k : P (t_reg st) ->
  agree tmap terase (ttraits_rel step1 view1 st k) (ttraits_rel step2 view2 (lift st) k).
Proof.
  intros HP. unfold ttraits_rel.
  destruct (ttraits_sim st k HP) as [P1 [E1 X1]].
  destruct (ttraits step1 view1 st k) as [st1 tr], (ttraits step2 view2 (lift st) k) as [st1' tr'].
  cbn [fst snd] in *. subst st1' tr'. destruct tr as [tr|]; [|unfold agree; done].
  destruct (tid_sim st1 k false P1) as [P2 [E2 X2]].
  destruct (tid step1 view1 st1 k false) as [st2 x], (tid step2 view2 (lift st1) k false) as [st2' x'].
  cbn [fst snd] in *. subst st2'. apply terase_inv in X2.
  destruct x as [x|v|c|tr' r|].
  - subst x'. unfold agree; done.
  - subst x'. destruct (0 <? v)%Z; [|unfold agree; done].
    destruct (get_traits_sim st2 v P2) as [P3 [E3 X3]].
    destruct (get_traits step1 view1 st2 v) as [st3 d], (get_traits step2 view2 (lift st2) v) as [st3' d'].
    cbn [fst snd] in *. subst st3' d'. destruct d as [d|]; unfold agree; done.
  - destruct X2 as [c' ->]. unfold agree; done.
  - subst x'. unfold agree; done.
  - subst x'. unfold agree; done.
Qed.

Theorem tstep_sim st o : P (t_reg st) -> twf o ->
  agree tmap terase (tstep step1 view1 st o) (tstep step2 view2 (lift st) o).
Proof.
  intros HP W. destruct o as [b|k ob|k|id|v|v|k']; cbn [tstep twf] in *; try solve [unfold agree; done].
  - destruct (sim (t_reg st) b HP W) as [P' E]. cbn [lift t_reg]. rewrite E.
    destruct (step1 (t_reg st) b) as [r' x]. cbn [fst snd] in *. unfold agree; done.
  - now apply tid_sim.
  - now apply ttraits_rel_sim.
Qed.

Theorem trun_sim : forall ops st, P (t_reg st) -> Forall twf ops ->
  map terase (trun step2 view2 (lift st) ops) = map tmap (trun step1 view1 st ops) /\
  texec step2 view2 (lift st) ops = lift (texec step1 view1 st ops) /\
  P (t_reg (texec step1 view1 st ops)).
Proof.
  induction ops as [|o ops IH]; intros st HP W; [cbn; auto|].
  inversion W as [|? ? W1 W2]; subst.
  destruct (tstep_sim st o HP W1) as [P1 [E1 X1]].
  cbn [trun texec fold_left map].
  destruct (tstep step1 view1 st o) as [st1 x], (tstep step2 view2 (lift st) o) as [st1' x'].
  cbn [fst snd] in *. subst st1'.
  destruct (IH st1 P1 W2) as [A [B C]].
  fold (texec step2 view2 (lift st1) ops). fold (texec step1 view1 st1 ops).
  cbn [map]. rewrite A, B, X1. auto.
Qed.
End Sim.

(* ---- the cached id of a slot never changes once it is set (any registry) ---- *)
Section Stable.
Context {R O : Type}.
Variable rstep : R -> op -> R * O.
Variable view : O -> tview.

Lemma cached_upd_same {A} (l : list (option A)) k x : cached (upd l k x) k = Some x.
Proof. unfold cached. revert l. induction k as [|k IH]; intros [|a l]; cbn; auto. Qed.
Lemma cached_upd_other {A} (l : list (option A)) k j x : j <> k -> cached (upd l k x) j = cached l j.
Proof.
  unfold cached. revert l j. induction k as [|k IH]; intros [|a l] [|j] H; cbn; try congruence; auto.
  - now destruct j.
  - rewrite IH by congruence. now destruct j.
Qed.

(* the ids cache grows only: an entry is written only while it is empty *)
Definition ids_le (a b : list (option N)) : Prop := forall j v, cached a j = Some v -> cached b j = Some v.

Lemma ids_le_refl a : ids_le a a. Proof. intros j v H. exact H. Qed.
Lemma ids_le_trans a b c : ids_le a b -> ids_le b c -> ids_le a c.
Proof. intros H1 H2 j v H. auto. Qed.
Lemma ids_le_upd a k x : cached a k = None -> ids_le a (upd a k x).
Proof.
  intros E j v H. destruct (Nat.eq_dec j k) as [->|N]; [congruence|]. now rewrite cached_upd_other.
Qed.

Lemma reg_add_mono st k t ob : cached (t_ids st) k = None ->
  ids_le (t_ids st) (t_ids (fst (reg_add rstep view st k t ob))).
Proof.
  intros E. unfold reg_add. destruct ob; cbn [negb fst]; [|apply ids_le_refl].
  destruct (rstep (t_reg st) (OpTypeAdd (Some t))) as [r' x].
  destruct (view x); cbn [fst t_ids]; try apply ids_le_refl.
  destruct (0 <? id); [now apply ids_le_upd|apply ids_le_refl].
Qed.

Lemma tid_mono st k ob : ids_le (t_ids st) (t_ids (fst (tid rstep view st k ob))).
Proof.
  unfold tid. destruct (nth_error g_slots k) as [[id sz|t|e t]|]; cbn [fst]; try apply ids_le_refl.
  - destruct (cached (t_ids st) k) eqn:E; cbn [fst]; [apply ids_le_refl|now apply reg_add_mono].
  - destruct (cached (t_ids st) k) eqn:E; cbn [fst]; [apply ids_le_refl|].
    destruct (0 <? to_vector (peek_id st e))%Z; cbn [fst t_ids]; [now apply ids_le_upd|now apply reg_add_mono].
Qed.

Lemma get_traits_ids st id : t_ids (fst (get_traits rstep view st id)) = t_ids st.
Proof. unfold get_traits. destruct (rstep _ _). reflexivity. Qed.

Lemma ttraits_mono st k : ids_le (t_ids st) (t_ids (fst (ttraits rstep view st k))).
Proof.
  unfold ttraits. destruct (nth_error g_slots k) as [[id sz|t|e t]|]; cbn [fst]; try apply ids_le_refl.
  - rewrite get_traits_ids. apply ids_le_refl.
  - destruct (cached (t_trs st) k); cbn [fst]; [apply ids_le_refl|].
    pose proof (tid_mono st k true) as M. destruct (tid rstep view st k true) as [st1 x]. cbn [fst] in M.
    destruct x as [x|ty|c|tr r|]; cbn [fst t_ids]; try exact M.
    destruct (ty <? 0)%Z; cbn [fst t_ids]; [exact M|].
    pose proof (get_traits_ids st1 ty) as G. destruct (get_traits rstep view st1 ty) as [st2 [[u|]|]];
      cbn [fst t_ids] in *; rewrite G; exact M.
Qed.

Lemma tstep_mono st o : ids_le (t_ids st) (t_ids (fst (tstep rstep view st o))).
Proof.
  destruct o as [b|k ob|k|id|v|v|k']; cbn [tstep fst]; try apply ids_le_refl.
  - destruct (rstep (t_reg st) b). apply ids_le_refl.
  - apply tid_mono.
  - unfold ttraits_rel. pose proof (ttraits_mono st k) as M1.
    destruct (ttraits rstep view st k) as [st1 [tr|]]; cbn [fst] in *; [|exact M1].
    pose proof (tid_mono st1 k false) as M2. destruct (tid rstep view st1 k false) as [st2 x]. cbn [fst] in M2.
    assert (M : ids_le (t_ids st) (t_ids st2)) by (eapply ids_le_trans; eassumption).
    destruct x as [x|v|c|tr' r|]; cbn [fst]; try exact M.
    destruct (0 <? v)%Z; cbn [fst]; [|exact M].
    pose proof (get_traits_ids st2 v) as G. destruct (get_traits rstep view st2 v) as [st3 [d|]];
      cbn [fst] in *; rewrite G; exact M.
Qed.

Lemma texec_mono : forall ops st, ids_le (t_ids st) (t_ids (texec rstep view st ops)).
Proof.
  induction ops as [|o ops IH]; intros st; [apply ids_le_refl|].
  cbn [texec fold_left]. eapply ids_le_trans; [apply tstep_mono|]. apply IH.
Qed.

(* an id once handed out for a slot is the answer of every later id() of that slot, obtaining or not *)
Lemma tid_answer st k ob v : cached (t_ids st) k = Some v ->
  match nth_error g_slots k with Some (TFixed _ _) | None => True
  | _ => tid rstep view st k ob = (st, TInt (Z.of_N v)) end.
Proof.
  intros E. unfold tid. destruct (nth_error g_slots k) as [[id sz|t|e t]|]; try exact Logic.I; now rewrite E.
Qed.

Theorem tpl_id_stable st ops1 ops2 k v :
  cached (t_ids (texec rstep view st ops1)) k = Some v ->
  cached (t_ids (texec rstep view st (ops1 ++ ops2))) k = Some v.
Proof.
  intros H. unfold texec. rewrite fold_left_app. apply (texec_mono ops2). exact H.
Qed.
End Stable.
