(* C06/TypesModel.v — executable mechanism model of the type registry
   (mptcore/types/type_traits.c, alias_typeid.c, type_int.c, message/msgvalfmt.c).
   NO proofs in this file.  All bounds, tables and chunk sizes come from
   C06/Gen_Types.v, which the probe regenerates from the current source.

   Transcription notes
   * ids are [N]; positions inside the tables are [nat]; C string = list of bytes
     (no NUL), [None] = NULL pointer.
   * the lazily created tables (_core_init, _scalar_init, _iovec_init,
     _interfaces_init, _meta_init) are modelled as created at start: every entry
     point creates them before its first use, so no caller can tell.
   * malloc/calloc are assumed to succeed; errno is reported on NULL returns.
   * the traits of named entries are a copy of [pointer_traits]; for generic
     entries the registry keeps the caller's pointer: [ti_tag] identifies it. *)
From MptV Require Import Base.Mem C06.Gen_Types.
Local Open Scope N_scope.

Definition name := list N.

Fixpoint name_eqb (a b : name) : bool :=
  match a, b with
  | [], [] => true
  | x :: a, y :: b => (x =? y) && name_eqb a b
  | _, _ => false
  end.

Inductive eno := EINVAL | ENOMEM | EAGAIN.

(* struct type_traits as seen by a caller: size, init/fini present, and for
   caller-supplied traits which object it is *)
Record tinfo := mkti { ti_size : N; ti_init : bool; ti_fini : bool; ti_tag : option N }.
(* struct named_traits *)
Record nentry := mkne { ne_name : option name; ne_type : N; ne_traits : tinfo }.

Definition ptr_traits : tinfo := mkti g_PtrSize false false None.

Record reg := mkreg {
  r_iface : list (option nentry);   (* interface_types[TypeInterfaceSize] *)
  r_ipos : nat;                     (* interface_pos *)
  r_dyn : list N;                   (* dynamic_types[0 .. dynamic_pos) : sizes *)
  r_meta : list (list nentry);      (* meta_types: chunk list, used = length *)
  r_gen : list (list tinfo)         (* generic_types: chunk list ([] = NULL) *)
}.

Definition nchunk : nat := N.to_nat g_NamedChunk.
Definition gchunk : nat := N.to_nat g_GenericChunk.
Definition islots : nat := N.to_nat g_InterfaceSlots.
Definition dslots : nat := N.to_nat g_DynamicSlots.

(* ---------- checked array store (calloc'ed tables) ---------- *)
Definition set_nth {A} (l : list A) (i : nat) (x : A) : res (list A) :=
  if (i <? length l)%nat then Ok (firstn i l ++ x :: skipn (S i) l) else Fault.

(* _core_init / _scalar_init / _iovec_init: size tables filled from the static tables *)
Fixpoint fill_sizes (tab : list N) (base : N) (ents : list (N * N)) (fixed : option N) : res (list N) :=
  match ents with
  | [] => Ok tab
  | (t, s) :: ents =>
    if t <? base then Fault
    else do tab' <- set_nth tab (N.to_nat (t - base)) (match fixed with Some f => f | None => s end);
         fill_sizes tab' base ents fixed
  end.

Definition core_table : res (list N) :=
  fill_sizes (repeat 0 (N.to_nat g_CoreSize)) 0 g_core_sizes None.
Definition scalar_table : res (list N) :=
  fill_sizes (repeat 0 (N.to_nat g_ScalarSize)) g_ScalarBase g_scalar_sizes None.
(* every scalar has its vector; the generic vector (TypeVector) is described too *)
Definition iovec_table : res (list N) :=
  do tab <- fill_sizes (repeat 0 (N.to_nat g_VectorSize)) g_ScalarBase g_scalar_sizes (Some g_IovecSize);
  if g_TypeVector <? g_VectorBase then Fault
  else set_nth tab (N.to_nat (g_TypeVector - g_VectorBase)) g_IovecSize.

Definition plain (size : N) : tinfo := mkti size false false None.

(* table[pos].size ? &table[pos] : 0 *)
Definition size_entry (tab : res (list N)) (pos : nat) : res (option tinfo) :=
  do t <- tab;
  match nth_error t pos with
  | None => Fault
  | Some s => Ok (if s =? 0 then None else Some (plain s))
  end.

(* _interfaces_init *)
Fixpoint init_ifaces (tab : list (option nentry)) (i : nat) (ents : list (N * name)) : res (list (option nentry)) :=
  match ents with
  | [] => Ok tab
  | (t, n) :: ents =>
    do tab' <- set_nth tab i (Some (mkne (Some n) t ptr_traits));
    init_ifaces tab' (S i) ents
  end.

Definition iface0 : res (list (option nentry)) :=
  init_ifaces (repeat None islots) 0 g_core_interfaces.

(* _meta_init *)
Definition meta0 : list (list nentry) :=
  [[mkne (Some g_meta_base_name) g_MetaPtrBase ptr_traits]].

Definition reg0 : reg :=
  mkreg (match iface0 with Ok t => t | _ => [] end)
        (N.to_nat (g_InterfaceAdd - g_InterfaceBase)) [] meta0 [].

(* ---------- range tests (MPT_type_is* of types.h, ends found by evaluating the macros) ---------- *)
Definition is_scalar (v : N) := (g_ScalarBase <=? v) && (v <=? g_ScalarLast).
Definition is_vector (v : N) := (g_VectorBase <=? v) && (v <=? g_VectorLast).
Definition is_interface (v : N) := (g_InterfaceBase <=? v) && (v <=? g_InterfaceLast).
Definition is_dynamic (v : N) := (g_DynamicBase <=? v) && (v <=? g_DynamicLast).
Definition is_metaptr (v : N) := (g_MetaPtrBase <=? v) && (v <=? g_MetaPtrLast).

(* ---------- lookups by id ---------- *)

(* mpt_interface_traits *)
Definition interface_traits (r : reg) (t : N) : res (nentry + eno) :=
  if (g_InterfaceMax <? t) || (t <? g_InterfaceBase) then Ok (inr EINVAL)
  else
    let pos := N.to_nat (t - g_InterfaceBase) in
    if (r_ipos r <? pos)%nat then Ok (inr EAGAIN)
    else match nth_error (r_iface r) pos with
         | None => Fault
         | Some (Some e) => Ok (inl e)
         | Some None => Ok (inr EAGAIN)
         end.

(* the chunk walk of mpt_metatype_traits: [pos] is a C int *)
Fixpoint meta_walk (chunks : list (list nentry)) (pos : Z) : res (nentry + eno) :=
  match chunks with
  | [] => Ok (inr EAGAIN)
  | c :: rest =>
    if (pos <? Z.of_nat (length c))%Z then
      if (pos <? 0)%Z then Fault
      else match nth_error c (Z.to_nat pos) with
           | Some e => Ok (inl e)
           | None => Fault
           end
    else meta_walk rest (pos - Z.of_nat nchunk)%Z
  end.

(* mpt_metatype_traits *)
Definition metatype_traits (r : reg) (t : N) : res (nentry + eno) :=
  if (g_MetaPtrMax <? t) || (t <? g_MetaPtrBase) then Ok (inr EINVAL)
  else meta_walk (r_meta r) (Z.of_N (t - g_MetaPtrBase)).

(* the chunk walk at the end of mpt_type_traits: [t] is a uintptr_t, the
   subtraction wraps modulo 2^g_WordBits *)
Definition wsub (a b : N) : N := (a + 2 ^ g_WordBits - b) mod 2 ^ g_WordBits.

Fixpoint gen_walk (chunks : list (list tinfo)) (t : N) : res (option tinfo) :=
  match chunks with
  | [] => Ok None
  | c :: rest =>
    if t <? N.of_nat (length c) then
      match nth_error c (N.to_nat t) with
      | Some e => Ok (Some e)
      | None => Fault
      end
    else gen_walk rest (wsub t g_GenericChunk)
  end.

Definition assoc {A} (k : N) (l : list (N * A)) : option A :=
  match find (fun p => fst p =? k) l with Some p => Some (snd p) | None => None end.

Definition named_result (x : res (nentry + eno)) : res (option tinfo) :=
  do v <- x; Ok (match v with inl e => Some (ne_traits e) | inr _ => None end).

(* mpt_type_traits *)
Definition type_traits (r : reg) (t : N) : res (option tinfo) :=
  if t =? 0 then Ok None
  else if t <? g_CoreSize then size_entry core_table (N.to_nat t)
  else if is_scalar t then size_entry scalar_table (N.to_nat (t - g_ScalarBase))
  else if is_vector t then size_entry iovec_table (N.to_nat (t - g_VectorBase))
  else if is_interface t then named_result (interface_traits r t)
  else if is_dynamic t then
    let pos := N.to_nat (t - g_DynamicBase) in
    if (length (r_dyn r) <=? pos)%nat then Ok None
    else match nth_error (r_dyn r) pos with Some s => Ok (Some (plain s)) | None => Fault end
  else match assoc t g_static_types with
  | Some (s, i, f) => Ok (Some (mkti s i f None))
  | None =>
    if is_metaptr t then named_result (metatype_traits r t)
    else gen_walk (r_gen r) (wsub t g_ValueAdd)
  end.

(* mpt++/type_traits_wrap.cpp: type_traits::get(int type) hands a C++ int to the
   uintptr_t parameter of mpt_type_traits: the conversion is reduction modulo
   2^g_WordBits (sign extension).  The other five wrappers (get(name, len = -1),
   add(const type_traits &), add_basic, add_metatype(name = 0), add_interface(name = 0))
   forward their arguments unchanged: they are the operations OpNamed, OpTypeAdd (Some _),
   OpBasicAdd, OpMetaAdd, OpIfaceAdd. *)
Definition wrap_traits (r : reg) (t : Z) : res (option tinfo) :=
  type_traits r (Z.to_N (t mod 2 ^ Z.of_N g_WordBits)).

(* ---------- lookups by name ---------- *)

Definition name_is (n : name) (e : nentry) : bool :=
  match ne_name e with Some m => name_eqb n m | None => false end.

(* len == strlen(elem->name) && !strncmp(name, elem->name, len) *)
Definition name_is_n (n : name) (len : nat) (e : nentry) : bool :=
  match ne_name e with
  | Some m => (length m =? len)%nat && name_eqb (firstn len n) m
  | None => false
  end.

Definition find_meta (p : nentry -> bool) (r : reg) : option nentry := find p (concat (r_meta r)).

(* for (i = 0; i < interface_pos; i++) *)
Definition find_iface (p : nentry -> bool) (r : reg) : option nentry :=
  match find (fun s => match s with Some e => p e | None => false end) (firstn (r_ipos r) (r_iface r)) with
  | Some (Some e) => Some e
  | _ => None
  end.

Definition find_named (p : nentry -> bool) (r : reg) : option nentry :=
  match find_meta p r with
  | Some e => Some e
  | None => find_iface p r
  end.

Definition resolve_alias (n : name) : name :=
  match find (fun p => name_eqb n (fst p)) g_aliases with
  | Some p => snd p
  | None => n
  end.

(* mpt_named_traits(name, len) *)
Definition named_traits (r : reg) (n : option name) (len : Z) : nentry + eno :=
  match n with
  | None => inr EINVAL
  | Some n =>
    if (len =? 0)%Z || (length n =? 0)%nat then inr EINVAL
    else
      let hit := if (0 <=? len)%Z then find_named (name_is_n n (Z.to_nat len)) r
                 else find_named (name_is (resolve_alias n)) r in
      match hit with Some e => inl e | None => inr EINVAL end
  end.

(* ---------- registration ---------- *)

(* mpt_type_basic_add *)
Definition basic_add (r : reg) (size : N) : reg * res N :=
  let size := if size =? 0 then g_PtrSize else size in
  let pos := length (r_dyn r) in
  if (pos <? dslots)%nat
  then (mkreg (r_iface r) (r_ipos r) (r_dyn r ++ [size]) (r_meta r) (r_gen r), Ok (g_DynamicBase + N.of_nat pos))
  else (r, Err MissingBuffer).

(* the chunk search of mpt_type_add: returns the new chunk list and the id *)
Fixpoint gen_add_walk (chunks : list (list tinfo)) (pos : N) (t : tinfo) : res (list (list tinfo) * N) :=
  match chunks with
  | [] => Fault
  | c :: rest =>
    if (length c =? gchunk)%nat then
      let pos := pos + g_GenericChunk in
      match rest with
      | [] =>
        (* append new empty chunk; its used = 0 ends the loop *)
        if g_ValueMax <? pos then Err BadType
        else if (0 =? gchunk)%nat then Fault
        else if g_ValueMax <? pos then Err BadType
        else Ok ([c; [t]], pos)
      | _ => do '(rest', id) <- gen_add_walk rest pos t; Ok (c :: rest', id)
      end
    else
      let pos := pos + N.of_nat (length c) in
      if g_ValueMax <? pos then Err BadType else Ok ((c ++ [t]) :: rest, pos)
  end.

(* mpt_type_add *)
Definition type_add (r : reg) (t : option tinfo) : reg * res N :=
  match t with
  | None => (r, Err BadArgument)
  | Some t =>
    if ti_size t =? 0 then (r, Err BadArgument)
    else
      let chunks := match r_gen r with [] => [[]] | l => l end in
      match gen_add_walk chunks g_ValueAdd t with
      | Ok (chunks', id) => (mkreg (r_iface r) (r_ipos r) (r_dyn r) (r_meta r) chunks', Ok id)
      | Err e => (mkreg (r_iface r) (r_ipos r) (r_dyn r) (r_meta r) chunks, Err e)
      | Fault => (r, Fault)
      end
  end.

(* the chunk search of mpt_type_metatype_add *)
Fixpoint meta_add_walk (chunks : list (list nentry)) (pos : N) (n : option name)
  : res (list (list nentry) * nentry) + eno :=
  match chunks with
  | [] => inl Fault
  | c :: rest =>
    if (length c =? nchunk)%nat then
      let pos := pos + g_NamedChunk in
      if g_MetaPtrMax <? pos then inr ENOMEM
      else match rest with
      | [] =>
        if (0 =? nchunk)%nat then inl Fault
        else if g_MetaPtrMax <? pos then inr ENOMEM
        else let e := mkne n pos ptr_traits in inl (Ok ([c; [e]], e))
      | _ =>
        match meta_add_walk rest pos n with
        | inl (Ok (rest', e)) => inl (Ok (c :: rest', e))
        | x => x
        end
      end
    else
      let pos := pos + N.of_nat (length c) in
      if g_MetaPtrMax <? pos then inr ENOMEM
      else let e := mkne n pos ptr_traits in inl (Ok ((c ++ [e]) :: rest, e))
  end.

(* a name that already resolves (either table, or through an alias) is taken *)
Definition name_taken (r : reg) (n : name) : bool :=
  match named_traits r (Some n) (-1) with inl _ => true | inr _ => false end.

(* mpt_type_metatype_add *)
Definition metatype_add (r : reg) (n : option name) : reg * res (nentry + eno) :=
  let refused :=
    match n with
    | Some m => if (length m <? g_MinMetaName)%nat then true else name_taken r m
    | None => false
    end in
  if refused then (r, Ok (inr EINVAL))
  else match meta_add_walk (r_meta r) g_MetaPtrBase n with
       | inl (Ok (chunks', e)) => (mkreg (r_iface r) (r_ipos r) (r_dyn r) chunks' (r_gen r), Ok (inl e))
       | inl (Err _) => (r, Fault)
       | inl Fault => (r, Fault)
       | inr e => (r, Ok (inr e))
       end.

(* mpt_type_interface_add *)
Definition interface_add (r : reg) (n : option name) : reg * res (nentry + eno) :=
  if (islots <=? r_ipos r)%nat then (r, Ok (inr ENOMEM))
  else
    let refused :=
      match n with
      | Some m => if name_taken r m then true else (length m <? g_MinIfaceName)%nat
      | None => false
      end in
    if refused then (r, Ok (inr EINVAL))
    else
      let e := mkne n (g_InterfaceBase + N.of_nat (r_ipos r)) ptr_traits in
      match set_nth (r_iface r) (r_ipos r) (Some e) with
      | Ok tab => (mkreg tab (S (r_ipos r)) (r_dyn r) (r_meta r) (r_gen r), Ok (inl e))
      | _ => (r, Fault)
      end.

(* ---------- alias_typeid.c ---------- *)
Definition is_space (c : N) : bool := (c =? 32) || ((9 <=? c) && (c <=? 13)).

Fixpoint index_of (c : N) (l : list N) : option nat :=
  match l with
  | [] => None
  | x :: l => if x =? c then Some 0%nat else option_map S (index_of c l)
  end.

(* while (isspace( *--to )) if (!--len) return BadValue;  -- [rev_pre] is desc[0..len) reversed *)
Fixpoint strip_len (rev_pre : list N) : option nat :=
  match rev_pre with
  | [] => None
  | c :: rest =>
    if is_space c then (match rest with [] => None | _ => strip_len rest end)
    else Some (length rev_pre)
  end.

Fixpoint skip_spaces (l : list N) : nat :=
  match l with
  | c :: l => if is_space c then S (skip_spaces l) else 0%nat
  | [] => 0%nat
  end.

Inductive alias_out := AliasErr (e : err) | AliasId (id : N) (endoff : option nat).

Definition alias_typeid (r : reg) (desc : option name) (want_end : bool) : alias_out :=
  match desc with
  | None => AliasErr BadArgument
  | Some d =>
    let sep := index_of 58 d in
    let len : option Z :=
      match sep with
      | None => Some (-1)%Z
      | Some k =>
        if (k =? 0)%nat then None
        else option_map Z.of_nat (strip_len (rev (firstn k d)))
      end in
    match len with
    | None => AliasErr BadValue
    | Some len =>
      match named_traits r (Some d) len with
      | inr _ => AliasErr BadValue
      | inl e =>
        if want_end then
          AliasId (ne_type e) (Some (match sep with
                                     | Some k => (S k + skip_spaces (skipn (S k) d))%nat
                                     | None => length d
                                     end))
        else AliasId (ne_type e) None
      end
    end
  end.

(* ---------- type_int.c / msgvalfmt.c ---------- *)
Definition type_int (n : N) : N := match assoc n g_type_int with Some c => c | None => 0 end.
Definition type_uint (n : N) : N := match assoc n g_type_uint with Some c => c | None => 0 end.

(* fmt is a uint8_t *)
Definition fmt_clear_little (f : N) : N := N.land f (N.lxor 255 g_MesgValLittle).
Definition msgvalfmt_size (f : N) : N :=
  let f := fmt_clear_little f in
  if negb (N.land f g_MesgValNormal =? 0) then N.land f 31 + 1
  else (N.land f 31 + 1) * g_MesgValBigAtom.

Definition msgvalfmt_typeid (f : N) : res N :=
  if negb (N.land f g_MesgValLittle =? g_MesgValNative) then Err BadValue
  else
    let size := msgvalfmt_size f in
    let k := N.land f g_MesgValNormal in
    if k =? 0 then Err BadType
    else if k =? g_MesgValInteger then
      (let c := type_int size in if c =? 0 then Err BadType else Ok c)
    else if k =? g_MesgValFloat then
      (if size =? g_sizeof_float then Ok 102
       else if size =? g_sizeof_double then Ok 100
       else if size =? g_sizeof_ldouble then Ok 101
       else Err BadType)
    else if k =? g_MesgValUnsigned then
      (let c := type_uint size in if c =? 0 then Err BadType else Ok c)
    else (if f =? 0 then Err BadType else Ok f).

Definition msgvalfmt_code (t : Z) : Z :=
  if (t <? 0)%Z then (-1)%Z
  else match assoc (Z.to_N t) g_valfmt_codes with Some c => Z.of_N c | None => (-1)%Z end.

(* ---------- operations, outputs, histories ---------- *)
Inductive op :=
| OpBasicAdd (size : N)
| OpTypeAdd (t : option tinfo)
| OpIfaceAdd (n : option name)
| OpMetaAdd (n : option name)
| OpTraits (id : N)
| OpIface (id : N)
| OpMeta (id : N)
| OpNamed (n : option name) (len : Z)
| OpAlias (d : option name) (want_end : bool)
| OpTypeInt (n : N)
| OpTypeUint (n : N)
| OpFmtSize (f : N)
| OpFmtType (f : N)
| OpFmtCode (t : Z)
| OpSweep
| OpWrapTraits (t : Z).

(* one line of the named part of a sweep: the entry found for an id and the
   ids its name resolves to (full-name mode, exact-length mode) *)
Record swname := mksw { sw_id : N; sw_ent : nentry; sw_full : option N; sw_exact : option N }.

Inductive out :=
| OId (id : N)                       (* int result >= 0 *)
| OCode (e : err)                    (* negative int result *)
| ONamed (e : nentry)                (* named_traits pointer *)
| ONull (e : eno)                    (* NULL + errno *)
| OTraits (t : option tinfo)         (* type_traits pointer or NULL *)
| OAlias (a : alias_out)
| ONum (z : Z)
| OSweep (traits : list (res (option tinfo))) (named : list swname)
         (mech : nat * nat * list nat * list nat)
| OFault.

Definition out_named (x : res (nentry + eno)) : out :=
  match x with
  | Ok (inl e) => ONamed e
  | Ok (inr e) => ONull e
  | Err e => OCode e
  | Fault => OFault
  end.

Definition out_int (x : res N) : out :=
  match x with Ok i => OId i | Err e => OCode e | Fault => OFault end.

Definition out_traits (x : res (option tinfo)) : out :=
  match x with Ok t => OTraits t | Err e => OCode e | Fault => OFault end.

(* ids 0 .. n-1 shifted by base *)
Fixpoint ids_from (base : N) (n : nat) : list N :=
  match n with O => [] | S n => base :: ids_from (base + 1) n end.

Definition lookup_id (r : reg) (n : option name) (len : Z) : option N :=
  match named_traits r n len with inl e => Some (ne_type e) | inr _ => None end.

Definition sweep_named (r : reg) (look : N -> res (nentry + eno)) (ids : list N) : list swname :=
  flat_map (fun id =>
    match look id with
    | Ok (inl e) =>
      [mksw id e (lookup_id r (ne_name e) (-1))
            (lookup_id r (ne_name e) (match ne_name e with Some m => Z.of_nat (length m) | None => 0%Z end))]
    | _ => []
    end) ids.

Definition sweep (r : reg) : out :=
  OSweep (map (type_traits r) (ids_from 0 (S (N.to_nat g_SweepEnd))))
         (sweep_named r (interface_traits r) (ids_from g_InterfaceBase (N.to_nat (g_InterfaceMax + 1 - g_InterfaceBase)))
          ++ sweep_named r (metatype_traits r) (ids_from g_MetaPtrBase (N.to_nat (g_MetaPtrMax + 1 - g_MetaPtrBase))))
         (r_ipos r, length (r_dyn r), map (@length _) (r_meta r), map (@length _) (r_gen r)).

Definition step (r : reg) (o : op) : reg * out :=
  match o with
  | OpBasicAdd s => let '(r', x) := basic_add r s in (r', out_int x)
  | OpTypeAdd t => let '(r', x) := type_add r t in (r', out_int x)
  | OpIfaceAdd n => let '(r', x) := interface_add r n in (r', out_named x)
  | OpMetaAdd n => let '(r', x) := metatype_add r n in (r', out_named x)
  | OpTraits id => (r, out_traits (type_traits r id))
  | OpIface id => (r, out_named (interface_traits r id))
  | OpMeta id => (r, out_named (metatype_traits r id))
  | OpNamed n len => (r, out_named (Ok (named_traits r n len)))
  | OpAlias d e => (r, OAlias (alias_typeid r d e))
  | OpTypeInt n => (r, ONum (Z.of_N (type_int n)))
  | OpTypeUint n => (r, ONum (Z.of_N (type_uint n)))
  | OpFmtSize f => (r, ONum (Z.of_N (msgvalfmt_size f)))
  | OpFmtType f => (r, match msgvalfmt_typeid f with Ok c => ONum (Z.of_N c) | Err e => OCode e | Fault => OFault end)
  | OpFmtCode t => (r, ONum (msgvalfmt_code t))
  | OpSweep => (r, sweep r)
  | OpWrapTraits t => (r, out_traits (wrap_traits r t))
  end.

Fixpoint run (r : reg) (ops : list op) : list out :=
  match ops with
  | [] => []
  | o :: ops => let '(r', x) := step r o in x :: run r' ops
  end.

(* ---------- process exit: the clean-up functions registered with atexit ----------
   _interfaces_fini frees interface_types[0 .. interface_pos) and the table, _meta_fini every
   entry of every chunk and the chunks, _generic_types_fini the chunks (the traits objects
   belong to the callers), _dynamic_fini / _core_fini / _scalar_fini / _iovec_fini one table
   each; every one of them resets its statics, so a later call (from an exit handler that runs
   afterwards) starts from the state of a fresh process: [reg0].
   [fini_counts]: how many REGISTERED interface entries, registered metatype entries and
   generic chunks the clean-up releases (what exists of the built-in part depends on which
   tables were ever created, which the model does not track). *)
Definition is_some {A} (o : option A) : bool := match o with Some _ => true | None => false end.

Definition fini_counts (r : reg) : nat * nat * nat :=
  (length (filter is_some (skipn (N.to_nat (g_InterfaceAdd - g_InterfaceBase)) (firstn (r_ipos r) (r_iface r)))),
   (length (concat (r_meta r)) - 1)%nat,
   length (r_gen r)).

(* state after a history *)
Definition exec (r : reg) (ops : list op) : reg := fold_left (fun r o => fst (step r o)) ops r.
