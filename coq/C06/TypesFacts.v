(* C06/TypesFacts.v — facts about the GENERATED constants and tables (Gen_Types.v).
   Every lemma here is re-checked by computation whenever the probe regenerates
   Gen_Types.v from a changed source: if a range bound, capacity or table entry
   changes so that the ranges overlap, a capacity exceeds its range, a table
   entry falls outside its array, ... the corresponding lemma stops compiling. *)
From MptV Require Import Base.Mem C06.Gen_Types C06.TypesModel.
Local Open Scope N_scope.

(* the id ranges of types.h are ordered and disjoint *)
Lemma range_order :
  0 < g_CoreSize /\ g_CoreSize <= g_VectorBase /\ g_VectorBase <= g_VectorLast /\
  g_VectorLast < g_ScalarBase /\ g_ScalarBase <= g_ScalarLast /\
  g_ScalarLast < g_InterfaceBase /\ g_InterfaceBase <= g_InterfaceAdd /\
  g_InterfaceAdd <= g_InterfaceMax /\ g_InterfaceLast = g_InterfaceMax /\
  g_InterfaceMax < g_DynamicBase /\ g_DynamicBase <= g_DynamicMax /\ g_DynamicLast = g_DynamicMax /\
  g_DynamicMax < g_MetaPtrBase /\ g_MetaPtrBase < g_MetaPtrMax /\ g_MetaPtrLast = g_MetaPtrMax /\
  g_MetaPtrMax < g_ValueAdd /\ g_ValueAdd <= g_ValueMax /\ g_ValueMax < 2 ^ g_WordBits.
Proof. vm_compute. repeat split; congruence. Qed.

(* capacities fit their ranges *)
Lemma capacity_fit :
  g_InterfaceBase + g_InterfaceSlots = g_InterfaceMax + 1 /\
  g_DynamicBase + g_DynamicSlots <= g_DynamicMax + 1.
Proof. vm_compute. split; congruence. Qed.

Lemma chunk_pos : (0 < nchunk)%nat /\ (0 < gchunk)%nat.
Proof. vm_compute. split; repeat constructor. Qed.

Lemma nchunk_N : N.of_nat nchunk = g_NamedChunk.
Proof. reflexivity. Qed.
Lemma gchunk_N : N.of_nat gchunk = g_GenericChunk.
Proof. reflexivity. Qed.
Lemma islots_N : N.of_nat islots = g_InterfaceSlots.
Proof. reflexivity. Qed.
Lemma dslots_N : N.of_nat dslots = g_DynamicSlots.
Proof. reflexivity. Qed.

(* the static managed types lie between the metatype and the generic range *)
Lemma static_between :
  forallb (fun p => (g_MetaPtrMax <? fst p) && (fst p <? g_ValueAdd)) g_static_types = true.
Proof. vm_compute. reflexivity. Qed.

Lemma assoc_none {A} (k : N) (l : list (N * A)) (P : N -> bool) :
  forallb (fun p => P (fst p)) l = true -> P k = false -> assoc k l = None.
Proof.
  unfold assoc. induction l as [|[a b] l IH]; simpl; intros H Hk; [reflexivity|].
  apply andb_true_iff in H. destruct H as [Ha Hl].
  destruct (N.eqb_spec a k) as [->|Hne].
  - congruence.
  - apply IH; assumption.
Qed.

Lemma static_none id : id <= g_MetaPtrMax \/ g_ValueAdd <= id -> assoc id g_static_types = None.
Proof.
  intros H. apply (assoc_none id g_static_types (fun i => (g_MetaPtrMax <? i) && (i <? g_ValueAdd))).
  - exact static_between.
  - destruct (N.ltb_spec g_MetaPtrMax id), (N.ltb_spec id g_ValueAdd); simpl; try reflexivity; lia.
Qed.

(* the size tables are filled without leaving their arrays *)
Lemma tables_ok :
  (exists t, core_table = Ok t) /\ (exists t, scalar_table = Ok t) /\ (exists t, iovec_table = Ok t).
Proof. vm_compute. repeat split; eexists; reflexivity. Qed.

Lemma tables_len :
  (forall t, core_table = Ok t -> length t = N.to_nat g_CoreSize) /\
  (forall t, scalar_table = Ok t -> length t = N.to_nat g_ScalarSize) /\
  (forall t, iovec_table = Ok t -> length t = N.to_nat g_VectorSize).
Proof.
  repeat split; intros t H; vm_compute in H; inversion H; reflexivity.
Qed.

Lemma table_span :
  g_ScalarLast - g_ScalarBase < g_ScalarSize /\ g_VectorLast - g_VectorBase < g_VectorSize.
Proof. vm_compute. split; reflexivity. Qed.

(* alias targets are not themselves aliases, and no alias key is an alias target *)
Lemma alias_idem :
  forallb (fun p => name_eqb (resolve_alias (snd p)) (snd p)) g_aliases = true.
Proof. vm_compute. reflexivity. Qed.

(* both registrations refuse the empty name by their length test *)
Lemma min_name_pos : (0 < g_MinIfaceName)%nat /\ (0 < g_MinMetaName)%nat.
Proof. vm_compute. split; repeat constructor. Qed.
