(* C06/RegistryRefine.v — refinement, part 2: every registration of the mechanism
   model changes the abstract state exactly as the specification says (one new
   binding id |-> description, one new binding name |-> id for a named entry, the
   kind's counter advanced; nothing at all on refusal), the initial registry is
   the specification's initial registry, and hence every history of the model is
   a history of the specification:

       M  [=  S     (step_refines, run_refines, fresh_refines). *)
From MptV Require Import Base.Mem C06.Gen_Types C06.TypesModel C06.TypesFacts C06.TypesChunks
  C06.TypesInv C06.TypesProps C06.RegistrySpec C06.RegistryAbs C06.RegistryMaps C06.RegistryLookup.
Local Open Scope N_scope.

(* ---------- the counters of [abs] ---------- *)
Lemma abs_nbasic r : s_nbasic (abs r) = g_DynamicBase + N.of_nat (length (r_dyn r)).
Proof. reflexivity. Qed.
Lemma abs_ngeneric r : s_ngeneric (abs r) = g_ValueAdd + N.of_nat (length (concat (r_gen r))).
Proof. reflexivity. Qed.
Lemma abs_niface r : s_niface (abs r) = g_InterfaceBase + N.of_nat (r_ipos r).
Proof. reflexivity. Qed.
Lemma abs_nmeta r : s_nmeta (abs r) = g_MetaPtrBase + N.of_nat (length (concat (r_meta r))).
Proof. reflexivity. Qed.

Lemma sreg_eq s a b c d e f :
  s_types s = a -> s_names s = b -> s_nbasic s = c -> s_ngeneric s = d -> s_niface s = e -> s_nmeta s = f ->
  s = mksreg a b c d e f.
Proof. destruct s; simpl; intros; subst; reflexivity. Qed.

(* ---------- frame: an id whose three lookups are unchanged keeps its description ---------- *)
Definition dyn_lookup (l : list N) (id : N) : res (option tinfo) :=
  let pos := N.to_nat (id - g_DynamicBase) in
  if (length l <=? pos)%nat then Ok None
  else match nth_error l pos with Some s => Ok (Some (plain s)) | None => Fault end.

Lemma type_traits_congr r r' id :
  interface_traits r' id = interface_traits r id ->
  metatype_traits r' id = metatype_traits r id ->
  (is_dynamic id = true -> dyn_lookup (r_dyn r') id = dyn_lookup (r_dyn r) id) ->
  gen_walk (r_gen r') (wsub id g_ValueAdd) = gen_walk (r_gen r) (wsub id g_ValueAdd) ->
  type_traits r' id = type_traits r id.
Proof.
  intros H1 H2 H3 H4. unfold type_traits. rewrite H1, H2, H4.
  destruct (id =? 0); [reflexivity|]. destruct (id <? g_CoreSize); [reflexivity|].
  destruct (is_scalar id); [reflexivity|]. destruct (is_vector id); [reflexivity|].
  destruct (is_interface id); [reflexivity|].
  destruct (is_dynamic id); [exact (H3 eq_refl)|]. reflexivity.
Qed.

Lemma descr_congr r r' id :
  interface_traits r' id = interface_traits r id ->
  metatype_traits r' id = metatype_traits r id ->
  type_traits r' id = type_traits r id ->
  descr r' id = descr r id.
Proof. intros H1 H2 H3. unfold descr. rewrite H1, H2, H3. reflexivity. Qed.

(* ---------- one new description: both maps get exactly the specification's new bindings ---------- *)
Lemma abs_register r r' k id t n :
  id <= g_ValueMax ->
  descr r id = None ->
  descr r' id = Some (mkdesc k t n) ->
  (forall i, i <= g_ValueMax -> i <> id -> descr r' i = descr r i) ->
  (forall m, n = Some m -> forall i d, i <= g_ValueMax -> descr r i = Some d -> d_name d <> Some m) ->
  s_types (abs r') = fput N.compare id (mkdesc k t n) (s_types (abs r)) /\
  s_names (abs r') = match n with
                     | Some m => fput name_cmp m id (s_names (abs r))
                     | None => s_names (abs r)
                     end.
Proof.
  intros Hid Hnone Hnew Hframe Hfresh. rewrite !abs_types, !abs_names. split.
  - apply (tab_ins N.compare ncmp_eq N.compare_refl N.compare_antisym ncmp_trans) with (j := id).
    + rewrite span_N. lia.
    + unfold type_binding. rewrite Hnone. reflexivity.
    + unfold type_binding. rewrite Hnew. reflexivity.
    + intros i Hi Hne. unfold type_binding. rewrite span_N in Hi. rewrite Hframe by (lia || assumption). reflexivity.
    + intros i k' v' Hi Hb. unfold type_binding in Hb.
      destruct (descr r i) as [d|] eqn:D; [|discriminate]. cbn in Hb. inversion Hb; subst k' v'.
      intros ->. congruence.
  - destruct n as [m|].
    + apply (tab_ins name_cmp name_cmp_eq name_cmp_refl name_cmp_anti name_cmp_trans) with (j := id).
      * rewrite span_N. lia.
      * unfold name_binding. rewrite Hnone. reflexivity.
      * unfold name_binding. rewrite Hnew. reflexivity.
      * intros i Hi Hne. unfold name_binding. rewrite span_N in Hi. rewrite Hframe by (lia || assumption). reflexivity.
      * intros i k' v' Hi Hb. rewrite span_N in Hi. unfold name_binding in Hb.
        destruct (descr r i) as [d|] eqn:D; [|discriminate].
        destruct (d_name d) as [x|] eqn:Dn; [|discriminate]. cbn in Hb. inversion Hb; subst k' v'.
        intros ->. apply (Hfresh m eq_refl i d); [lia|exact D|exact Dn].
    + apply tab_ext. intros i Hi. rewrite span_N in Hi. unfold name_binding.
      destruct (N.eq_dec i id) as [->|Hne].
      * rewrite Hnone, Hnew. reflexivity.
      * rewrite Hframe by (lia || assumption). reflexivity.
Qed.

(* ---------- names ---------- *)
Lemma taken_refines r m : inv r -> m <> [] ->
  name_taken r m = match s_find (abs r) (resolve_alias m) with Some _ => true | None => false end.
Proof.
  intros I Hm. unfold name_taken, named_traits. destruct m as [|c m']; [congruence|].
  cbn [length Nat.eqb Z.eqb orb]. change (0 <=? -1)%Z with false. cbn iota.
  destruct (s_find (abs r) (resolve_alias (c :: m'))) as [id|] eqn:F.
  - destruct (s_find_some _ _ _ I F) as (_ & e & Fe & _). rewrite Fe. reflexivity.
  - rewrite (s_find_none _ _ I F). reflexivity.
Qed.

Lemma name_ok_true r minlen n : inv r ->
  (forall m, n = Some m -> (minlen <= length m)%nat /\ m <> [] /\ name_taken r m = false) ->
  s_name_ok (abs r) minlen n = true.
Proof.
  intros I H. unfold s_name_ok. destruct n as [m|]; [|reflexivity].
  destruct (H m eq_refl) as (A & B & C). rewrite taken_refines in C by assumption.
  destruct (Nat.leb_spec minlen (length m)); [|lia].
  destruct (s_find (abs r) (resolve_alias m)); [discriminate|reflexivity].
Qed.

Lemma name_ok_false r minlen m : inv r -> (0 < minlen)%nat ->
  (length m < minlen)%nat \/ name_taken r m = true ->
  s_name_ok (abs r) minlen (Some m) = false.
Proof.
  intros I Hp H. unfold s_name_ok.
  destruct (Nat.leb_spec minlen (length m)) as [Hl|Hl]; [|reflexivity].
  destruct H as [H|H]; [lia|].
  assert (Hm : m <> []) by (intros ->; simpl in Hl; lia).
  rewrite taken_refines in H by assumption.
  destruct (s_find (abs r) (resolve_alias m)); [reflexivity|discriminate].
Qed.

(* names of descriptions are names of entries: a name that is not taken is carried by no id *)
Lemma fresh_name r n : inv r ->
  (forall m, n = Some m -> m <> [] /\ name_taken r m = false) ->
  forall m, n = Some m -> forall i d, i <= g_ValueMax -> descr r i = Some d -> d_name d <> Some m.
Proof.
  intros I H m Hn i d _ D Dn. destruct (H m Hn) as [Hm Ht].
  destruct (not_taken r m I Hm Ht) as [_ Hx].
  destruct (descr_entry r i d I D) as (e & Hin & _ & En & _); [right; right; congruence|].
  apply (Hx e Hin). congruence.
Qed.

(* ---------- exact outcome of the registrations of the model ---------- *)
Lemma type_add_precise r t : inv r -> ti_size t <> 0 ->
  (g_ValueMax < g_ValueAdd + N.of_nat (length (concat (r_gen r))) /\ type_add r (Some t) = (r, Err BadType)) \/
  (g_ValueAdd + N.of_nat (length (concat (r_gen r))) <= g_ValueMax /\
   exists cs', type_add r (Some t) = (mkreg (r_iface r) (r_ipos r) (r_dyn r) (r_meta r) cs',
                                     Ok (g_ValueAdd + N.of_nat (length (concat (r_gen r))))) /\
               concat cs' = concat (r_gen r) ++ [t] /\ chunks_ok gchunk cs').
Proof.
  intros I Hz. unfold type_add. destruct (N.eqb_spec (ti_size t) 0) as [E|_]; [congruence|].
  destruct (gen_chunks_ok r I) as [Hc Hcat].
  destruct (gen_add_walk_spec _ Hc g_ValueAdd t) as [S1 S2]. rewrite Hcat in S1, S2.
  destruct (N.ltb_spec g_ValueMax (g_ValueAdd + N.of_nat (length (concat (r_gen r))))) as [H|H].
  - left. split; [exact H|]. rewrite (S1 H).
    destruct (r_gen r) as [|c l] eqn:E.
    + simpl in H. pose proof range_order. lia.
    + destruct r; simpl in *; subst; reflexivity.
  - right. split; [exact H|]. destruct (S2 H) as (cs' & E1 & E2 & E3). rewrite E1.
    exists cs'. repeat split; assumption.
Qed.

Lemma interface_add_precise r n : inv r ->
  ((islots <= r_ipos r)%nat /\ interface_add r n = (r, Ok (inr ENOMEM))) \/
  ((r_ipos r < islots)%nat /\
   (exists m, n = Some m /\ ((length m < g_MinIfaceName)%nat \/ name_taken r m = true)) /\
   interface_add r n = (r, Ok (inr EINVAL))) \/
  ((r_ipos r < islots)%nat /\
   (forall m, n = Some m -> (g_MinIfaceName <= length m)%nat /\ m <> [] /\ name_taken r m = false) /\
   let e := mkne n (g_InterfaceBase + N.of_nat (r_ipos r)) ptr_traits in
   interface_add r n =
     (mkreg (firstn (r_ipos r) (r_iface r) ++ Some e :: skipn (S (r_ipos r)) (r_iface r))
            (S (r_ipos r)) (r_dyn r) (r_meta r) (r_gen r), Ok (inl e))).
Proof.
  intros I. unfold interface_add.
  destruct (Nat.leb_spec islots (r_ipos r)) as [H|H]; [left; split; [exact H|reflexivity]|].
  right.
  destruct (name_ok_dec r g_MinIfaceName n false (proj1 min_name_pos)) as [[E Hn]|[E Hn]];
    cbv zeta in E; rewrite E.
  - left. split; [exact H|]. split; [exact Hn|reflexivity].
  - right. split; [exact H|]. split; [exact Hn|]. cbv zeta. unfold set_nth. rewrite (inv_ilen r I).
    destruct (Nat.ltb_spec (r_ipos r) islots); [reflexivity|lia].
Qed.

Lemma metatype_add_precise r n : inv r ->
  ((exists m, n = Some m /\ ((length m < g_MinMetaName)%nat \/ name_taken r m = true)) /\
   metatype_add r n = (r, Ok (inr EINVAL))) \/
  ((forall m, n = Some m -> (g_MinMetaName <= length m)%nat /\ m <> [] /\ name_taken r m = false) /\
   g_MetaPtrMax < g_MetaPtrBase + N.of_nat (length (concat (r_meta r))) /\
   metatype_add r n = (r, Ok (inr ENOMEM))) \/
  ((forall m, n = Some m -> (g_MinMetaName <= length m)%nat /\ m <> [] /\ name_taken r m = false) /\
   g_MetaPtrBase + N.of_nat (length (concat (r_meta r))) <= g_MetaPtrMax /\
   exists cs',
     let e := mkne n (g_MetaPtrBase + N.of_nat (length (concat (r_meta r)))) ptr_traits in
     metatype_add r n = (mkreg (r_iface r) (r_ipos r) (r_dyn r) cs' (r_gen r), Ok (inl e)) /\
     concat cs' = concat (r_meta r) ++ [e] /\ chunks_ok nchunk cs').
Proof.
  intros I. unfold metatype_add.
  destruct (name_ok_dec r g_MinMetaName n true (proj2 min_name_pos)) as [[E Hn]|[E Hn]];
    cbv zeta in E; rewrite E.
  - left. split; [exact Hn|reflexivity].
  - right. destruct (meta_add_walk_spec _ (inv_meta r I) g_MetaPtrBase n) as [S1 S2].
    destruct (N.ltb_spec g_MetaPtrMax (g_MetaPtrBase + N.of_nat (length (concat (r_meta r))))) as [H|H].
    + left. rewrite (S1 H). split; [exact Hn|]. split; [exact H|reflexivity].
    + right. destruct (S2 H) as (cs' & E1 & E2 & E3). rewrite E1.
      split; [exact Hn|]. split; [exact H|]. exists cs'. cbv zeta. split; [reflexivity|]. split; assumption.
Qed.

(* ---------- mpt_type_basic_add ---------- *)
Lemma basic_refines r sz : inv r ->
  sstep (abs r) (OpBasicAdd sz) = (abs (fst (basic_add r sz)), obs (out_int (snd (basic_add r sz)))).
Proof.
  intros I. ranges. pose proof dyn_capacity_exact as CE. pose proof dslots_N as DN.
  cbn [sstep]. unfold s_register. cbv zeta. cbn [s_next kind_last]. rewrite abs_nbasic.
  pose proof (basic_add_inv r sz I) as [I' _].
  destruct (basic_add_cases r sz) as [[E Hfull]|(sz' & E & Hsz & Hl)]; rewrite E in *;
    cbn [fst snd out_int obs] in *.
  - destruct (N.ltb_spec g_DynamicMax (g_DynamicBase + N.of_nat (length (r_dyn r)))); [reflexivity|lia].
  - destruct (N.ltb_spec g_DynamicMax (g_DynamicBase + N.of_nat (length (r_dyn r)))); [lia|].
    subst sz'. remember (if sz =? 0 then g_PtrSize else sz) as v eqn:Hv. clear Hv.
    remember (g_DynamicBase + N.of_nat (length (r_dyn r))) as id eqn:Hid.
    set (r' := mkreg (r_iface r) (r_ipos r) (r_dyn r ++ [v]) (r_meta r) (r_gen r)) in *.
    f_equal. symmetry. cbn [s_bump].
    destruct (abs_register r r' KBasic id (plain v) None) as [Ht Hn].
    + lia.
    + unfold descr. rewrite interface_traits_out, metatype_traits_out by lia. rewrite tt_dyn by lia.
      replace (N.to_nat (id - g_DynamicBase)) with (length (r_dyn r)) by lia.
      rewrite Nat.leb_refl. reflexivity.
    + unfold descr. rewrite interface_traits_out, metatype_traits_out by lia. rewrite tt_dyn by lia.
      unfold r'. cbn [r_dyn]. rewrite app_length. cbn [length].
      replace (N.to_nat (id - g_DynamicBase)) with (length (r_dyn r)) by lia.
      destruct (Nat.leb_spec (length (r_dyn r) + 1) (length (r_dyn r))); [lia|].
      rewrite nth_error_app2 by lia. rewrite Nat.sub_diag. cbn [nth_error].
      assert (D : is_dynamic id = true) by (unfold is_dynamic; ncmp; reflexivity).
      rewrite D. reflexivity.
    + intros i Hi Hne. apply descr_congr; [reflexivity|reflexivity|].
      apply type_traits_congr; [reflexivity|reflexivity| |reflexivity].
      intros Hd. unfold is_dynamic in Hd. apply andb_true_iff in Hd. destruct Hd as [A B].
      apply N.leb_le in A, B.
      unfold dyn_lookup, r'. cbn [r_dyn]. cbv zeta. rewrite app_length. cbn [length].
      remember (N.to_nat (i - g_DynamicBase)) as pos eqn:Hpos.
      destruct (Nat.lt_ge_cases pos (length (r_dyn r))).
      * destruct (Nat.leb_spec (length (r_dyn r) + 1) pos); [lia|].
        destruct (Nat.leb_spec (length (r_dyn r)) pos); [lia|].
        rewrite nth_error_app1 by lia. reflexivity.
      * destruct (Nat.leb_spec (length (r_dyn r) + 1) pos); [|lia].
        destruct (Nat.leb_spec (length (r_dyn r)) pos); [|lia]. reflexivity.
    + intros m Hm. discriminate.
    + apply sreg_eq; [exact Ht|exact Hn| | | |];
        rewrite ?abs_nbasic, ?abs_ngeneric, ?abs_niface, ?abs_nmeta; unfold r';
        cbn [r_dyn r_gen r_ipos r_meta]; [|reflexivity|reflexivity|reflexivity].
      rewrite app_length. cbn [length]. lia.
Qed.

(* ---------- mpt_type_add ---------- *)
Lemma nth_error_snoc_other {A} (l : list A) x k : k <> length l -> nth_error (l ++ [x]) k = nth_error l k.
Proof.
  intros H. destruct (Nat.lt_ge_cases k (length l)).
  - apply nth_error_app1. assumption.
  - transitivity (@None A); [|symmetry]; apply nth_error_None; [rewrite app_length; simpl|]; lia.
Qed.

Lemma generic_refines r t : inv r ->
  sstep (abs r) (OpTypeAdd t) = (abs (fst (type_add r t)), obs (out_int (snd (type_add r t)))).
Proof.
  intros I. ranges. destruct t as [t|]; [|reflexivity].
  cbn [sstep]. destruct (N.eqb_spec (ti_size t) 0) as [Hz|Hz].
  - unfold type_add. rewrite (proj2 (N.eqb_eq _ _) Hz). reflexivity.
  - pose proof (type_add_inv r (Some t) I) as [I' _].
    unfold s_register. cbv zeta. cbn [s_next kind_last]. rewrite abs_ngeneric.
    destruct (type_add_precise r t I Hz) as [[Hfull E]|(Hroom & cs' & E & Hcat & Hok)]; rewrite E in *;
      cbn [fst snd out_int obs] in *.
    + destruct (N.ltb_spec g_ValueMax (g_ValueAdd + N.of_nat (length (concat (r_gen r))))); [reflexivity|lia].
    + destruct (N.ltb_spec g_ValueMax (g_ValueAdd + N.of_nat (length (concat (r_gen r))))); [lia|].
      remember (g_ValueAdd + N.of_nat (length (concat (r_gen r)))) as id eqn:Hid.
      set (r' := mkreg (r_iface r) (r_ipos r) (r_dyn r) (r_meta r) cs') in *.
      f_equal. symmetry. cbn [s_bump].
      destruct (abs_register r r' KGeneric id t None) as [Ht Hn].
      * lia.
      * unfold descr. rewrite interface_traits_out, metatype_traits_out by lia. rewrite tt_gen by lia.
        rewrite wsub_small by lia. rewrite gen_lookup_flat by (assumption || lia).
        replace (N.to_nat (id - g_ValueAdd)) with (length (concat (r_gen r))) by lia.
        destruct (nth_error (concat (r_gen r)) (length (concat (r_gen r)))) eqn:E2; [|reflexivity].
        assert (length (concat (r_gen r)) < length (concat (r_gen r)))%nat by (apply nth_error_Some; congruence).
        lia.
      * unfold descr. rewrite interface_traits_out, metatype_traits_out by lia. rewrite tt_gen by lia.
        rewrite wsub_small by lia. rewrite gen_lookup_flat by (assumption || lia).
        unfold r'. cbn [r_gen]. rewrite Hcat.
        replace (N.to_nat (id - g_ValueAdd)) with (length (concat (r_gen r))) by lia.
        rewrite nth_error_app2 by lia. rewrite Nat.sub_diag. cbn [nth_error].
        assert (D : is_dynamic id = false) by (unfold is_dynamic; ncmp; reflexivity).
        assert (G : (g_ValueAdd <=? id) = true) by (apply N.leb_le; lia).
        rewrite D, G. reflexivity.
      * intros i Hi Hne. apply descr_congr; [reflexivity|reflexivity|].
        apply type_traits_congr; [reflexivity|reflexivity|intros; reflexivity|].
        rewrite !gen_lookup_flat by (assumption || apply wsub_lt).
        unfold r'. cbn [r_gen]. rewrite Hcat. f_equal. apply nth_error_snoc_other.
        destruct (N.lt_ge_cases i g_ValueAdd).
        -- unfold wsub. rewrite N.mod_small by lia. lia.
        -- rewrite wsub_small by lia. lia.
      * intros m Hm. discriminate.
      * apply sreg_eq; [exact Ht|exact Hn| | | |];
          rewrite ?abs_nbasic, ?abs_ngeneric, ?abs_niface, ?abs_nmeta; unfold r';
          cbn [r_dyn r_gen r_ipos r_meta]; [reflexivity| |reflexivity|reflexivity].
        rewrite Hcat, app_length. cbn [length]. lia.
Qed.

(* ---------- mpt_type_interface_add ---------- *)
Lemma iface_add_refines r n : inv r ->
  sstep (abs r) (OpIfaceAdd n) =
  (abs (fst (interface_add r n)), obs (out_named (snd (interface_add r n)))).
Proof.
  intros I. ranges. pose proof capacity_fit as [CF _]. pose proof islots_N as SN.
  pose proof min_name_pos as [MP _].
  cbn [sstep]. unfold s_register_named.
  pose proof (interface_add_inv r n I) as [I' _].
  destruct (interface_add_precise r n I) as [[Hfull E]|[(Hroom & (m & -> & Hbad) & E)|(Hroom & Hn & E)]];
    cbv zeta in E; rewrite E in *; cbn [fst snd out_named obs] in *.
  - destruct (s_name_ok (abs r) g_MinIfaceName n); [|reflexivity].
    unfold s_register. cbv zeta. cbn [s_next kind_last]. rewrite abs_niface.
    destruct (N.ltb_spec g_InterfaceMax (g_InterfaceBase + N.of_nat (r_ipos r))); [reflexivity|lia].
  - rewrite name_ok_false by assumption. reflexivity.
  - rewrite name_ok_true by assumption.
    unfold s_register. cbv zeta. cbn [s_next kind_last]. rewrite abs_niface.
    destruct (N.ltb_spec g_InterfaceMax (g_InterfaceBase + N.of_nat (r_ipos r))); [lia|].
    remember (g_InterfaceBase + N.of_nat (r_ipos r)) as id eqn:Hid.
    set (e := mkne n id ptr_traits) in *.
    set (r' := mkreg (firstn (r_ipos r) (r_iface r) ++ Some e :: skipn (S (r_ipos r)) (r_iface r))
                     (S (r_ipos r)) (r_dyn r) (r_meta r) (r_gen r)) in *.
    cbn [ne_type ne_name ne_traits e].
    assert (Hlen : (r_ipos r < length (r_iface r))%nat) by (rewrite (inv_ilen r I); assumption).
    assert (Hnth : forall j, nth_error (r_iface r') j =
                     if (j =? r_ipos r)%nat then Some (Some e) else nth_error (r_iface r) j).
    { intros j. unfold r'. cbn [r_iface]. apply nth_error_set. assumption. }
    f_equal. symmetry. cbn [s_bump].
    destruct (abs_register r r' KInterface id ptr_traits n) as [Ht Hnm].
    + lia.
    + unfold descr. rewrite tt_iface by lia. rewrite (interface_traits_slot r id I) by lia.
      replace (N.to_nat (id - g_InterfaceBase)) with (r_ipos r) by lia.
      destruct (nth_error (r_iface r) (r_ipos r)) as [[x|]|] eqn:E2.
      * destruct (inv_islot r I _ x E2). lia.
      * rewrite metatype_traits_out by lia. reflexivity.
      * rewrite metatype_traits_out by lia. reflexivity.
    + apply (descr_iface r' id e). rewrite (interface_traits_slot r' id I') by lia.
      replace (N.to_nat (id - g_InterfaceBase)) with (r_ipos r) by lia.
      rewrite Hnth, Nat.eqb_refl. reflexivity.
    + intros i Hi Hne.
      assert (Hif : interface_traits r' i = interface_traits r i).
      { destruct (N.lt_ge_cases i g_InterfaceBase); [rewrite !interface_traits_out by lia; reflexivity|].
        destruct (N.lt_ge_cases g_InterfaceMax i); [rewrite !interface_traits_out by lia; reflexivity|].
        rewrite (interface_traits_slot r' i I'), (interface_traits_slot r i I) by lia. rewrite Hnth.
        destruct (Nat.eqb_spec (N.to_nat (i - g_InterfaceBase)) (r_ipos r)); [lia|reflexivity]. }
      apply descr_congr; [exact Hif|reflexivity|].
      apply type_traits_congr; [exact Hif|reflexivity|intros; reflexivity|reflexivity].
    + apply fresh_name; [exact I|]. intros m Hm. destruct (Hn m Hm) as (_ & A & B). auto.
    + apply sreg_eq; [exact Ht|exact Hnm| | | |];
        rewrite ?abs_nbasic, ?abs_ngeneric, ?abs_niface, ?abs_nmeta; unfold r';
        cbn [r_dyn r_gen r_ipos r_meta]; [reflexivity|reflexivity| |reflexivity].
      lia.
Qed.

(* ---------- mpt_type_metatype_add ---------- *)
Lemma meta_add_refines r n : inv r ->
  sstep (abs r) (OpMetaAdd n) =
  (abs (fst (metatype_add r n)), obs (out_named (snd (metatype_add r n)))).
Proof.
  intros I. ranges. pose proof min_name_pos as [_ MP]. pose proof (inv_mbase r I) as MB.
  cbn [sstep]. unfold s_register_named.
  pose proof (metatype_add_inv r n I) as [I' _].
  destruct (metatype_add_precise r n I)
    as [[(m & -> & Hbad) E]|[(Hn & Hfull & E)|(Hn & Hroom & cs' & E & Hcat & Hok)]];
    cbv zeta in E; rewrite E in *; cbn [fst snd out_named obs] in *.
  - rewrite name_ok_false by assumption. reflexivity.
  - rewrite name_ok_true by assumption.
    unfold s_register. cbv zeta. cbn [s_next kind_last]. rewrite abs_nmeta.
    destruct (N.ltb_spec g_MetaPtrMax (g_MetaPtrBase + N.of_nat (length (concat (r_meta r))))); [reflexivity|lia].
  - rewrite name_ok_true by assumption.
    unfold s_register. cbv zeta. cbn [s_next kind_last]. rewrite abs_nmeta.
    destruct (N.ltb_spec g_MetaPtrMax (g_MetaPtrBase + N.of_nat (length (concat (r_meta r))))); [lia|].
    cbv zeta in Hcat.
    remember (g_MetaPtrBase + N.of_nat (length (concat (r_meta r)))) as id eqn:Hid.
    set (e := mkne n id ptr_traits) in *.
    set (r' := mkreg (r_iface r) (r_ipos r) (r_dyn r) cs' (r_gen r)) in *.
    cbn [ne_type ne_name ne_traits e].
    f_equal. symmetry. cbn [s_bump].
    destruct (abs_register r r' KMetatype id ptr_traits n) as [Ht Hnm].
    + lia.
    + unfold descr. rewrite interface_traits_out by lia. rewrite tt_meta by lia.
      rewrite (metatype_traits_flat r id I) by lia.
      replace (N.to_nat (id - g_MetaPtrBase)) with (length (concat (r_meta r))) by lia.
      destruct (nth_error (concat (r_meta r)) (length (concat (r_meta r)))) eqn:E2; [|reflexivity].
      assert (length (concat (r_meta r)) < length (concat (r_meta r)))%nat by (apply nth_error_Some; congruence).
      lia.
    + apply (descr_meta r' id e). rewrite (metatype_traits_flat r' id I') by lia.
      unfold r'. cbn [r_meta]. rewrite Hcat.
      replace (N.to_nat (id - g_MetaPtrBase)) with (length (concat (r_meta r))) by lia.
      rewrite nth_error_app2 by lia. rewrite Nat.sub_diag. reflexivity.
    + intros i Hi Hne.
      assert (Hmt : metatype_traits r' i = metatype_traits r i).
      { destruct (N.lt_ge_cases i g_MetaPtrBase); [rewrite !metatype_traits_out by lia; reflexivity|].
        destruct (N.lt_ge_cases g_MetaPtrMax i); [rewrite !metatype_traits_out by lia; reflexivity|].
        rewrite (metatype_traits_flat r' i I'), (metatype_traits_flat r i I) by lia.
        unfold r'. cbn [r_meta]. rewrite Hcat. rewrite nth_error_snoc_other by lia. reflexivity. }
      apply descr_congr; [reflexivity|exact Hmt|].
      apply type_traits_congr; [reflexivity|exact Hmt|intros; reflexivity|reflexivity].
    + apply fresh_name; [exact I|]. intros m Hm. destruct (Hn m Hm) as (_ & A & B). auto.
    + apply sreg_eq; [exact Ht|exact Hnm| | | |];
        rewrite ?abs_nbasic, ?abs_ngeneric, ?abs_niface, ?abs_nmeta; unfold r';
        cbn [r_dyn r_gen r_ipos r_meta]; [reflexivity|reflexivity|reflexivity|].
      rewrite Hcat, app_length. cbn [length]. lia.
Qed.

(* ---------- every operation ---------- *)
Theorem step_refines r o : inv r -> op_wf o ->
  let '(r', x) := step r o in inv r' /\ sstep (abs r) o = (abs r', obs x).
Proof.
  intros I W. pose proof (step_inv r o I) as [I' _]. destruct o; cbn [step] in *.
  - pose proof (basic_refines r size I). destruct (basic_add r size) as [r' x]. split; assumption.
  - pose proof (generic_refines r t I). destruct (type_add r t) as [r' x]. split; assumption.
  - pose proof (iface_add_refines r n I). destruct (interface_add r n) as [r' x]. split; assumption.
  - pose proof (meta_add_refines r n I). destruct (metatype_add r n) as [r' x]. split; assumption.
  - split; [exact I|]. cbn [sstep op_wf] in *. rewrite traits_refines by assumption. reflexivity.
  - split; [exact I|]. cbn [sstep]. rewrite iface_refines by assumption. reflexivity.
  - split; [exact I|]. cbn [sstep]. rewrite meta_refines by assumption. reflexivity.
  - split; [exact I|]. cbn [sstep]. rewrite opnamed_refines by assumption. reflexivity.
  - split; [exact I|]. cbn [sstep]. rewrite alias_refines by assumption. reflexivity.
  - split; [exact I|]. reflexivity.
  - split; [exact I|]. reflexivity.
  - split; [exact I|]. reflexivity.
  - split; [exact I|]. cbn [sstep]. pose proof (msgvalfmt_nf f).
    destruct (msgvalfmt_typeid f); [reflexivity|reflexivity|congruence].
  - split; [exact I|]. reflexivity.
  - split; [exact I|]. cbn [sstep]. rewrite sweep_refines by assumption. reflexivity.
  - split; [exact I|]. cbn [sstep op_wf] in *. rewrite wrap_refines by assumption.
    destruct (t <? 0)%Z; reflexivity.
Qed.

(* ---------- every history ---------- *)
Theorem run_refines ops : forall r, inv r -> Forall op_wf ops ->
  srun (abs r) ops = map obs (run r ops) /\
  sexec (abs r) ops = abs (exec r ops) /\
  inv (exec r ops).
Proof.
  induction ops as [|o ops IH]; intros r I W.
  - cbn. auto.
  - inversion W as [|? ? W1 W2]; subst. pose proof (step_refines r o I W1) as S.
    unfold sexec, exec. cbn [srun run map fold_left].
    destruct (step r o) as [r' x]. destruct S as [I' S]. rewrite S. cbn [fst map].
    destruct (IH r' I' W2) as (A & B & C). rewrite A. auto.
Qed.

(* ---------- the fresh registry ----------
   computed over the regenerated tables: the mechanism's built-in tables (core,
   scalar, vector sizes, built-in interfaces, base metatype, managed types)
   describe exactly the ids of g_ctype_sizes, each with the size of its C type,
   and nothing else in 0 .. g_ValueMax *)
Lemma abs_reg0 : abs reg0 = sreg0.
Proof. vm_compute. reflexivity. Qed.

Theorem fresh_refines ops : Forall op_wf ops ->
  srun sreg0 ops = map obs (run reg0 ops) /\
  sexec sreg0 ops = abs (exec reg0 ops).
Proof.
  intros W. rewrite <- abs_reg0. destruct (run_refines ops reg0 inv_reg0 W) as (A & B & _). auto.
Qed.
