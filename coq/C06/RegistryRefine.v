(* C06/RegistryRefine.v — refinement, part 2: every registration of the mechanism
   model changes the abstract state exactly as the specification says (one new
   binding id |-> description, one new binding name |-> id for a named entry, the
   kind's counter advanced; nothing at all on refusal), the initial registry is
   the specification's initial registry, and hence every history of the model is
   a history of the specification:

       M  [=  S     (step_refines, run_refines, fresh_refines). *)
From MptV Require Import Base.Mem C06.Gen_Types C06.TypesModel C06.TypesFacts C06.TypesChunks
  C06.TypesInv C06.TypesProps C06.RegistrySpec C06.RegistryAbs C06.RegistryMaps C06.RegistryLookup.
Local Open Scope N_scope.

(* ---------- the counters of [abs] ---------- *)
Lemma abs_nbasic r : s_nbasic (abs r) = g_DynamicBase + N.of_nat (length (r_dyn r)).
Proof. reflexivity. Qed.
Lemma abs_ngeneric r : s_ngeneric (abs r) = g_ValueAdd + N.of_nat (length (concat (r_gen r))).
Proof. reflexivity. Qed.
Lemma abs_niface r : s_niface (abs r) = g_InterfaceBase + N.of_nat (r_ipos r).
Proof. reflexivity. Qed.
Lemma abs_nmeta r : s_nmeta (abs r) = g_MetaPtrBase + N.of_nat (length (concat (r_meta r))).
Proof. reflexivity. Qed.

Lemma sreg_eq s a b c d e f :
  s_types s = a -> s_names s = b -> s_nbasic s = c -> s_ngeneric s = d -> s_niface s = e -> s_nmeta s = f ->
  s = mksreg a b c d e f.
Proof. destruct s; simpl; intros; subst; reflexivity. Qed.

(* ---------- frame: an id whose three lookups are unchanged keeps its description ---------- *)
Definition dyn_lookup (l : list N) (id : N) : res (option tinfo) :=
  let pos := N.to_nat (id - g_DynamicBase) in
  if (length l <=? pos)%nat then Ok None
  else match nth_error l pos with Some s => Ok (Some (plain s)) | None => Fault end.

Lemma type_traits_congr r r' id :
  interface_traits r' id = interface_traits r id ->
  metatype_traits r' id = metatype_traits r id ->
  (is_dynamic id = true -> dyn_lookup (r_dyn r') id = dyn_lookup (r_dyn r) id) ->
  gen_walk (r_gen r') (wsub id g_ValueAdd) = gen_walk (r_gen r) (wsub id g_ValueAdd) ->
  type_traits r' id = type_traits r id.
Proof.
  intros H1 H2 H3 H4. unfold type_traits. rewrite H1, H2, H4.
  destruct (id =? 0); [reflexivity|]. destruct (id <? g_CoreSize); [reflexivity|].
  destruct (is_scalar id); [reflexivity|]. destruct (is_vector id); [reflexivity|].
  destruct (is_interface id); [reflexivity|].
  destruct (is_dynamic id); [exact (H3 eq_refl)|]. reflexivity.
Qed.

Lemma descr_congr r r' id :
  interface_traits r' id = interface_traits r id ->
  metatype_traits r' id = metatype_traits r id ->
  type_traits r' id = type_traits r id ->
  descr r' id = descr r id.
Proof. intros H1 H2 H3. unfold descr. rewrite H1, H2, H3. reflexivity. Qed.

(* ---------- one new description: both maps get exactly the specification's new bindings ---------- *)
Lemma abs_register r r' k id t n :
  id <= g_ValueMax ->
  descr r id = None ->
  descr r' id = Some (mkdesc k t n) ->
  (forall i, i <= g_ValueMax -> i <> id -> descr r' i = descr r i) ->
  (forall m, n = Some m -> forall i d, i <= g_ValueMax -> descr r i = Some d -> d_name d <> Some m) ->
  s_types (abs r') = fput N.compare id (mkdesc k t n) (s_types (abs r)) /\
  s_names (abs r') = match n with
                     | Some m => fput name_cmp m id (s_names (abs r))
                     | None => s_names (abs r)
                     end.
Proof.
  intros Hid Hnone Hnew Hframe Hfresh. rewrite !abs_types, !abs_names. split.
  - apply (tab_ins N.compare ncmp_eq N.compare_refl N.compare_antisym ncmp_trans) with (j := id).
    + rewrite span_N. lia.
    + unfold type_binding. rewrite Hnone. reflexivity.
    + unfold type_binding. rewrite Hnew. reflexivity.
    + intros i Hi Hne. unfold type_binding. rewrite span_N in Hi. rewrite Hframe by (lia || assumption). reflexivity.
    + intros i k' v' Hi Hb. unfold type_binding in Hb.
      destruct (descr r i) as [d|] eqn:D; [|discriminate]. cbn in Hb. inversion Hb; subst k' v'.
      intros ->. congruence.
  - destruct n as [m|].
    + apply (tab_ins name_cmp name_cmp_eq name_cmp_refl name_cmp_anti name_cmp_trans) with (j := id).
      * rewrite span_N. lia.
      * unfold name_binding. rewrite Hnone. reflexivity.
      * unfold name_binding. rewrite Hnew. reflexivity.
      * intros i Hi Hne. unfold name_binding. rewrite span_N in Hi. rewrite Hframe by (lia || assumption). reflexivity.
      * intros i k' v' Hi Hb. rewrite span_N in Hi. unfold name_binding in Hb.
        destruct (descr r i) as [d|] eqn:D; [|discriminate].
        destruct (d_name d) as [x|] eqn:Dn; [|discriminate]. cbn in Hb. inversion Hb; subst k' v'.
        intros ->. apply (Hfresh m eq_refl i d); [lia|exact D|exact Dn].
    + apply tab_ext. intros i Hi. rewrite span_N in Hi. unfold name_binding.
      destruct (N.eq_dec i id) as [->|Hne].
      * rewrite Hnone, Hnew. reflexivity.
      * rewrite Hframe by (lia || assumption). reflexivity.
Qed.

(* ---------- names ---------- *)
Lemma taken_refines r m : inv r -> m <> [] ->
  name_taken r m = match s_find (abs r) (resolve_alias m) with Some _ => true | None => false end.
Proof.
  intros I Hm. unfold name_taken, named_traits. destruct m as [|c m']; [congruence|].
  cbn [length Nat.eqb Z.eqb orb]. change (0 <=? -1)%Z with false. cbn iota.
  destruct (s_find (abs r) (resolve_alias (c :: m'))) as [id|] eqn:F.
  - destruct (s_find_some _ _ _ I F) as (_ & e & Fe & _). rewrite Fe. reflexivity.
  - rewrite (s_find_none _ _ I F). reflexivity.
Qed.

Lemma name_ok_true r minlen n : inv r ->
  (forall m, n = Some m -> (minlen <= length m)%nat /\ m <> [] /\ name_taken r m = false) ->
  s_name_ok (abs r) minlen n = true.
Proof.
  intros I H. unfold s_name_ok. destruct n as [m|]; [|reflexivity].
  destruct (H m eq_refl) as (A & B & C). rewrite taken_refines in C by assumption.
  destruct (Nat.leb_spec minlen (length m)); [|lia].
  destruct (s_find (abs r) (resolve_alias m)); [discriminate|reflexivity].
Qed.

Lemma name_ok_false r minlen m : inv r -> (0 < minlen)%nat ->
  (length m < minlen)%nat \/ name_taken r m = true ->
  s_name_ok (abs r) minlen (Some m) = false.
Proof.
  intros I Hp H. unfold s_name_ok.
  destruct (Nat.leb_spec minlen (length m)) as [Hl|Hl]; [|reflexivity].
  destruct H as [H|H]; [lia|].
  assert (Hm : m <> []) by (intros ->; simpl in Hl; lia).
  rewrite taken_refines in H by assumption.
  destruct (s_find (abs r) (resolve_alias m)); [reflexivity|discriminate].
Qed.

(* names of descriptions are names of entries: a name that is not taken is carried by no id *)
Lemma fresh_name r n : inv r ->
  (forall m, n = Some m -> m <> [] /\ name_taken r m = false) ->
  forall m, n = Some m -> forall i d, i <= g_ValueMax -> descr r i = Some d -> d_name d <> Some m.
Proof.
  intros I H m Hn i d _ D Dn. destruct (H m Hn) as [Hm Ht].
  destruct (not_taken r m I Hm Ht) as [_ Hx].
  destruct (descr_entry r i d I D) as (e & Hin & _ & En & _); [right; right; congruence|].
  apply (Hx e Hin). congruence.
Qed.

(* ---------- exact outcome of the registrations of the model ---------- *)
Lemma type_add_precise r t : inv r -> ti_size t <> 0 ->
  (g_ValueMax < g_ValueAdd + N.of_nat (length (concat (r_gen r))) /\ type_add r (Some t) = (r, Err BadType)) \/
  (g_ValueAdd + N.of_nat (length (concat (r_gen r))) <= g_ValueMax /\
   exists cs', type_add r (Some t) = (mkreg (r_iface r) (r_ipos r) (r_dyn r) (r_meta r) cs',
                                     Ok (g_ValueAdd + N.of_nat (length (concat (r_gen r))))) /\
               concat cs' = concat (r_gen r) ++ [t] /\ chunks_ok gchunk cs').
Proof.
  intros I Hz. unfold type_add. destruct (N.eqb_spec (ti_size t) 0) as [E|_]; [congruence|].
  destruct (gen_chunks_ok r I) as [Hc Hcat].
  destruct (gen_add_walk_spec _ Hc g_ValueAdd t) as [S1 S2]. rewrite Hcat in S1, S2.
  destruct (N.ltb_spec g_ValueMax (g_ValueAdd + N.of_nat (length (concat (r_gen r))))) as [H|H].
  - left. split; [exact H|]. rewrite (S1 H).
    destruct (r_gen r) as [|c l] eqn:E.
    + simpl in H. pose proof range_order. lia.
    + destruct r; simpl in *; subst; reflexivity.
  - right. split; [exact H|]. destruct (S2 H) as (cs' & E1 & E2 & E3). rewrite E1.
    exists cs'. repeat split; assumption.
Qed.

Lemma interface_add_precise r n : inv r ->
  ((islots <= r_ipos r)%nat /\ interface_add r n = (r, Ok (inr ENOMEM))) \/
  ((r_ipos r < islots)%nat /\
   (exists m, n = Some m /\ ((length m < g_MinIfaceName)%nat \/ name_taken r m = true)) /\
   interface_add r n = (r, Ok (inr EINVAL))) \/
  ((r_ipos r < islots)%nat /\
   (forall m, n = Some m -> (g_MinIfaceName <= length m)%nat /\ m <> [] /\ name_taken r m = false) /\
   let e := mkne n (g_InterfaceBase + N.of_nat (r_ipos r)) ptr_traits in
   interface_add r n =
     (mkreg (firstn (r_ipos r) (r_iface r) ++ Some e :: skipn (S (r_ipos r)) (r_iface r))
            (S (r_ipos r)) (r_dyn r) (r_meta r) (r_gen r), Ok (inl e))).
Proof.
  intros I. unfold interface_add.
  destruct (Nat.leb_spec islots (r_ipos r)) as [H|H]; [left; split; [exact H|reflexivity]|].
  right.
  destruct (name_ok_dec r g_MinIfaceName n false (proj1 min_name_pos)) as [[E Hn]|[E Hn]];
    cbv zeta in E; rewrite E.
  - left. split; [exact H|]. split; [exact Hn|reflexivity].
  - right. split; [exact H|]. split; [exact Hn|]. cbv zeta. unfold set_nth. rewrite (inv_ilen r I).
    destruct (Nat.ltb_spec (r_ipos r) islots); [reflexivity|lia].
Qed.

Lemma metatype_add_precise r n : inv r ->
  ((exists m, n = Some m /\ ((length m < g_MinMetaName)%nat \/ name_taken r m = true)) /\
   metatype_add r n = (r, Ok (inr EINVAL))) \/
  ((forall m, n = Some m -> (g_MinMetaName <= length m)%nat /\ m <> [] /\ name_taken r m = false) /\
   g_MetaPtrMax < g_MetaPtrBase + N.of_nat (length (concat (r_meta r))) /\
   metatype_add r n = (r, Ok (inr ENOMEM))) \/
  ((forall m, n = Some m -> (g_MinMetaName <= length m)%nat /\ m <> [] /\ name_taken r m = false) /\
   g_MetaPtrBase + N.of_nat (length (concat (r_meta r))) <= g_MetaPtrMax /\
   exists cs',
     let e := mkne n (g_MetaPtrBase + N.of_nat (length (concat (r_meta r)))) ptr_traits in
     metatype_add r n = (mkreg (r_iface r) (r_ipos r) (r_dyn r) cs' (r_gen r), Ok (inl e)) /\
     concat cs' = concat (r_meta r) ++ [e] /\ chunks_ok nchunk cs').
Proof.
  intros I. unfold metatype_add.
  destruct (name_ok_dec r g_MinMetaName n true (proj2 min_name_pos)) as [[E Hn]|[E Hn]];
    cbv zeta in E; rewrite E.
  - left. split; [exact Hn|reflexivity].
  - right. destruct (meta_add_walk_spec _ (inv_meta r I) g_MetaPtrBase n) as [S1 S2].
    destruct (N.ltb_spec g_MetaPtrMax (g_MetaPtrBase + N.of_nat (length (concat (r_meta r))))) as [H|H].
    + left. rewrite (S1 H). split; [exact Hn|]. split; [exact H|reflexivity].
    + right. destruct (S2 H) as (cs' & E1 & E2 & E3). rewrite E1.
      split; [exact Hn|]. split; [exact H|]. exists cs'. cbv zeta. split; [reflexivity|]. split; assumption.
Qed.
