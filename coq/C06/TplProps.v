(* C06/TplProps.v - the template layer of types.h over the mechanism model of the registry:
   refinement (lock step with the layer over the specification), and the property itself -
   an id handed out for an instantiation is stable, ids of different instantiations differ, the
   registry describes such an id with the very description of the instantiation (size = sizeof T),
   traits() reports sizeof T for every slot. *)
From MptV Require Import Base.Mem C06.Gen_Types C06.TypesModel C06.TypesFacts C06.TypesChunks C06.TypesInv
  C06.TypesProps C06.TypesHistory C06.RegistrySpec C06.RegistryAbs C06.RegistryLookup C06.RegistryRefine
  C06.TplModel C06.TplSim.
Local Open Scope N_scope.

(* ================= refinement ================= *)
Lemma step_sim r o : inv r -> op_wf o ->
  inv (fst (step r o)) /\ sstep (abs r) o = (abs (fst (step r o)), obs (snd (step r o))).
Proof.
  intros I W. pose proof (step_refines r o I W) as H. destruct (step r o) as [r' x]. exact H.
Qed.

Definition mlift : @tst reg -> @tst sreg := lift abs.
Definition mtmap : tout out -> tout sout := tmap obs.

Lemma lift_t0 : mlift (t0 reg0) = t0 sreg0.
Proof. unfold mlift, lift, t0. cbn [t_reg t_ids t_trs]. rewrite abs_reg0. reflexivity. Qed.

(* every history of the template layer (interleaved with any operations of the wrappers) over the
   mechanism model is, answer by answer (error codes erased) and state by state, the history of the
   same layer over the specification *)
Theorem tpl_refines ops : Forall twf ops ->
  map terase (strun (t0 sreg0) ops) = map mtmap (mtrun (t0 reg0) ops) /\
  stexec (t0 sreg0) ops = mlift (mtexec (t0 reg0) ops).
Proof.
  intros W. rewrite <- lift_t0.
  destruct (trun_sim step mview sstep sview abs obs inv sview_obs step_sim ops (t0 reg0) inv_reg0 W) as [A [B _]].
  split; assumption.
Qed.

(* ================= facts about the slot table (checked by computation) ================= *)
Definition tag_is (k : nat) (t : tinfo) : bool :=
  match ti_tag t with Some g => g =? 100000 + N.of_nat k | None => false end.
Definition slot_wfb (k : nat) (s : tslot) : bool :=
  match s with
  | TFixed id sz =>
    existsb (fun p => (fst p =? Z.to_N id) && (snd p =? sz)) g_ctype_sizes && (0 <? id)%Z && (id <? 2304)%Z
  | TGen t => tag_is k t && negb (ti_size t =? 0)
  | TSpanC e t =>
    tag_is k t && (ti_size t =? g_IovecSize) &&
    match nth_error g_slots e with
    | Some (TFixed id _) => (to_vector id =? 0)%Z || is_vector (Z.to_N (to_vector id)) && (0 <? to_vector id)%Z
    | Some (TGen _) => true
    | _ => false
    end
  end.
Fixpoint all_wf (k : nat) (l : list tslot) : bool :=
  match l with [] => true | s :: l => slot_wfb k s && all_wf (S k) l end.
Lemma slots_wf : all_wf 0 g_slots = true.
Proof. vm_compute. reflexivity. Qed.
Lemma all_wf_nth : forall l k0 k s, all_wf k0 l = true -> nth_error l k = Some s -> slot_wfb (k0 + k) s = true.
Proof.
  induction l as [|a l IH]; intros k0 k s H E; [destruct k; discriminate|].
  cbn [all_wf] in H. apply andb_prop in H as [H1 H2]. destruct k as [|k]; cbn [nth_error] in E.
  - injection E as <-. now rewrite Nat.add_0_r.
  - rewrite <- Nat.add_succ_comm. now apply IH.
Qed.
Lemma slot_wf k s : nth_error g_slots k = Some s -> slot_wfb k s = true.
Proof. intros E. exact (all_wf_nth g_slots 0 k s slots_wf E). Qed.

Definition slot_size (s : tslot) : N :=
  match s with TFixed _ sz => sz | TGen t => ti_size t | TSpanC _ _ => g_IovecSize end.

(* ================= registry facts ================= *)
Lemma word_val : 2 ^ g_WordBits = 18446744073709551616.
Proof. reflexivity. Qed.

Lemma wsub_add n : n < 2 ^ g_WordBits -> wsub (g_ValueAdd + n) g_ValueAdd = n.
Proof.
  intros H. unfold wsub. replace (g_ValueAdd + n + 2 ^ g_WordBits - g_ValueAdd) with (n + 1 * 2 ^ g_WordBits) by lia.
  rewrite N.mod_add by (rewrite word_val; discriminate). now apply N.mod_small.
Qed.

Definition dyn_ok (r : reg) (t : tinfo) (v : N) : Prop :=
  g_ValueAdd <= v <= g_ValueMax /\ type_traits r v = Ok (Some t).

(* a successful type_traits::add makes the registry describe the new id with that very object *)
Lemma type_add_lookup r t : inv r ->
  match step r (OpTypeAdd (Some t)) with
  | (r', OId v) => dyn_ok r' t v
  | _ => True
  end.
Proof.
  intros I. cbn [step]. destruct (N.eq_dec (ti_size t) 0) as [Z|NZ].
  - unfold type_add. rewrite Z. cbn. exact Logic.I.
  - pose proof (type_add_inv r (Some t) I) as [I' _].
    destruct (type_add_precise r t I NZ) as [[_ E]|[Hroom [cs' [E [Hcat Hok]]]]]; rewrite E in *;
      cbn [out_int fst] in *; [exact Logic.I|].
    set (n := N.of_nat (length (concat (r_gen r)))) in *.
    assert (Hn : n < 2 ^ g_WordBits).
    { rewrite word_val. unfold g_ValueAdd, g_ValueMax in Hroom. lia. }
    split; [lia|].
    rewrite tt_gen by lia. rewrite wsub_add by assumption.
    rewrite gen_lookup_flat by assumption. cbn [r_gen]. rewrite Hcat.
    unfold n. rewrite Nat2N.id. rewrite nth_error_app2 by lia. rewrite Nat.sub_diag. reflexivity.
Qed.

Lemma dyn_ok_step r o t v : inv r -> dyn_ok r t v -> dyn_ok (fst (step r o)) t v.
Proof.
  intros I [B H]. destruct (step_inv r o I) as [I' X]. split; [assumption|].
  now apply (traits_stable r (fst (step r o)) v t I I' X).
Qed.

Lemma iovec_entries pos : (pos < 32)%nat ->
  match size_entry iovec_table pos with
  | Ok None => True
  | Ok (Some u) => ti_size u = g_IovecSize
  | _ => False
  end.
Proof.
  intros H. do 32 (destruct pos as [|pos]; [vm_compute; trivial|]). lia.
Qed.

Lemma vector_bounds v : is_vector v = true -> g_VectorBase <= v <= g_VectorLast.
Proof. unfold is_vector. intros H. apply andb_prop in H as [A B]. apply N.leb_le in A, B. lia. Qed.

Lemma vector_lookup r v u : is_vector v = true -> type_traits r v = Ok (Some u) -> ti_size u = g_IovecSize.
Proof.
  intros V. pose proof (vector_bounds v V) as B. ranges.
  unfold type_traits. rewrite V. unfold is_scalar. ncmp.
  intros HTT. pose proof (iovec_entries (N.to_nat (v - g_VectorBase))) as E.
  rewrite HTT in E. apply E. unfold g_VectorBase, g_VectorLast in *. lia.
Qed.

Lemma wrap_of_id r v : inv r -> v <= g_ValueMax -> wrap_traits r (int_wrap (Z.of_N v)) = type_traits r v.
Proof.
  intros I H.
  assert (R : (- 2 ^ (Z.of_N g_IntBits - 1) <= Z.of_N v < 2 ^ (Z.of_N g_IntBits - 1))%Z).
  { assert (E1 : (2 ^ (Z.of_N g_IntBits - 1) = 2147483648)%Z) by reflexivity. rewrite E1.
    unfold g_ValueMax in H. lia. }
  rewrite int_wrap_small by assumption. rewrite wrap_transparent by assumption.
  destruct (Z.ltb_spec (Z.of_N v) 0); [lia|]. now rewrite N2Z.id.
Qed.

(* ================= the invariant of the layer over the mechanism model ================= *)
Definition slot_ok (r : reg) (k : nat) (v : N) : Prop :=
  match nth_error g_slots k with
  | Some (TGen t) => dyn_ok r t v
  | Some (TSpanC e t) => dyn_ok r t v \/ is_vector v = true
  | _ => False
  end.
Definition trs_ok (k : nat) (tr : tinfo) : Prop :=
  ti_size tr = g_IovecSize /\ exists e t, nth_error g_slots k = Some (TSpanC e t).

Record tinv (st : @tst reg) : Prop := mktinv {
  ti_reach : exists ops, t_reg st = exec reg0 ops;
  ti_ids : forall k v, cached (t_ids st) k = Some v -> slot_ok (t_reg st) k v;
  ti_trs : forall k tr, cached (t_trs st) k = Some tr -> trs_ok k tr
}.

Lemma tinv_inv st : tinv st -> inv (t_reg st).
Proof. intros [[ops E] _ _]. rewrite E. apply reach_inv. Qed.

Lemma cached_repeat {A} n k : cached (repeat (@None A) n) k = None.
Proof. unfold cached. revert k. induction n; intros [|k]; cbn; auto. Qed.

Lemma tinv_t0 : tinv (t0 reg0).
Proof.
  split; cbn [t0 t_reg t_ids t_trs].
  - exists []. reflexivity.
  - intros k v H. now rewrite cached_repeat in H.
  - intros k tr H. now rewrite cached_repeat in H.
Qed.

Lemma slot_ok_step r o k v : inv r -> slot_ok r k v -> slot_ok (fst (step r o)) k v.
Proof.
  intros I. unfold slot_ok. destruct (nth_error g_slots k) as [[id sz|t|e t]|]; try tauto.
  - now apply dyn_ok_step.
  - intros [H|H]; [left; now apply dyn_ok_step|now right].
Qed.

(* the registry moves on by one operation: everything cached stays valid *)
Lemma tinv_reg st o : tinv st -> tinv (mkt (fst (step (t_reg st) o)) (t_ids st) (t_trs st)).
Proof.
  intros T. pose proof (tinv_inv st T) as I. destruct T as [[ops E] HI HT]. split; cbn [t_reg t_ids t_trs].
  - exists (ops ++ [o]). rewrite exec_app, <- E. reflexivity.
  - intros k v H. apply slot_ok_step; auto.
  - exact HT.
Qed.

Lemma tinv_set_id st k v : tinv st -> slot_ok (t_reg st) k v ->
  tinv (mkt (t_reg st) (upd (t_ids st) k v) (t_trs st)).
Proof.
  intros [R HI HT] S. split; cbn [t_reg t_ids t_trs]; [exact R| |exact HT].
  intros j w H. destruct (Nat.eq_dec j k) as [->|N].
  - rewrite cached_upd_same in H. injection H as <-. exact S.
  - rewrite cached_upd_other in H by assumption. now apply HI.
Qed.

(* what an id() call leaves and answers: the invariant, and an id that is valid for the slot *)
Definition answer_ok (st : @tst reg) (k : nat) (x : tout out) : Prop :=
  match x with
  | TInt z =>
    match nth_error g_slots k with
    | Some (TFixed id _) => z = id
    | _ => exists v, z = Z.of_N v /\ slot_ok (t_reg st) k v /\ cached (t_ids st) k = Some v
    end
  | TRef c => True
  | _ => False
  end.

Lemma reg_add_inv st k t ob : tinv st ->
  (nth_error g_slots k = Some (TGen t) \/ exists e, nth_error g_slots k = Some (TSpanC e t)) ->
  let '(st1, x) := reg_add step mview st k t ob in tinv st1 /\ answer_ok st1 k x.
Proof.
  intros T SL. unfold reg_add. destruct ob; cbn [negb]; [|split; [assumption|exact Logic.I]].
  pose proof (tinv_inv st T) as I.
  pose proof (type_add_lookup (t_reg st) t I) as L.
  pose proof (tinv_reg st (OpTypeAdd (Some t)) T) as T1.
  pose proof (step_no_fault (t_reg st) (OpTypeAdd (Some t)) I) as NF.
  cbn [step] in *. destruct (type_add (t_reg st) (Some t)) as [r' y]. cbn [fst snd] in *.
  destruct y as [id|e|]; cbn [out_int mview] in *.
  - (* OId *)
    assert (P : 0 < id) by (destruct L as [[B _] _]; unfold g_ValueAdd in B; lia).
    apply N.ltb_lt in P. rewrite P.
    assert (S : slot_ok r' k id).
    { unfold slot_ok. destruct SL as [->|[e ->]]; [exact L|left; exact L]. }
    split; [exact (tinv_set_id _ k id T1 S)|].
    unfold answer_ok. destruct SL as [E|[e E]]; rewrite E; exists id; cbn [t_reg t_ids];
      (split; [reflexivity|split; [exact S|apply cached_upd_same]]).
  - split; [assumption|exact Logic.I].
  - exfalso. exact NF.
Qed.

Lemma st_eta (st : @tst reg) : mkt (t_reg st) (t_ids st) (t_trs st) = st.
Proof. now destruct st. Qed.

Lemma z_scalar_big v : g_ValueAdd <= v -> z_is_scalar (Z.of_N v) = false.
Proof.
  intros H. unfold z_is_scalar. unfold g_ValueAdd in H.
  assert (E : (Z.of_N v <=? Z.of_N g_ScalarLast)%Z = false) by (apply Z.leb_gt; unfold g_ScalarLast; lia).
  rewrite E. apply andb_false_r.
Qed.

(* the element type of a span<const T> that is itself a registered (generic) type has no vector id *)
Lemma peek_gen st e t : tinv st -> nth_error g_slots e = Some (TGen t) -> to_vector (peek_id st e) = 0%Z.
Proof.
  intros T E. unfold peek_id. rewrite E. destruct (cached (t_ids st) e) as [v|] eqn:C.
  - pose proof (ti_ids st T e v C) as S. unfold slot_ok in S. rewrite E in S. destruct S as [[B _] _].
    unfold to_vector. now rewrite z_scalar_big.
  - reflexivity.
Qed.

Lemma tid_inv st k ob : tinv st ->
  let '(st1, x) := tid step mview st k ob in
  tinv st1 /\ (nth_error g_slots k <> None -> answer_ok st1 k x).
Proof.
  intros T. unfold tid. destruct (nth_error g_slots k) as [[id sz|t|e t]|] eqn:SL.
  - split; [assumption|]. intros _. unfold answer_ok. now rewrite SL.
  - destruct (cached (t_ids st) k) as [v|] eqn:C.
    + split; [assumption|]. intros _. unfold answer_ok. rewrite SL. exists v.
      split; [reflexivity|]. split; [|assumption]. exact (ti_ids st T k v C).
    + pose proof (reg_add_inv st k t ob T (or_introl SL)) as H.
      destruct (reg_add step mview st k t ob) as [st1 x]. destruct H as [H1 H2]. auto.
  - destruct (cached (t_ids st) k) as [v|] eqn:C.
    + split; [assumption|]. intros _. unfold answer_ok. rewrite SL. exists v.
      split; [reflexivity|]. split; [|assumption]. exact (ti_ids st T k v C).
    + destruct (Z.ltb_spec 0 (to_vector (peek_id st e))) as [P|P].
      * (* the vector id of a built-in element type *)
        pose proof (slot_wf k _ SL) as W. cbn [slot_wfb] in W.
        apply andb_prop in W as [_ W].
        assert (V : is_vector (Z.to_N (to_vector (peek_id st e))) = true).
        { destruct (nth_error g_slots e) as [[id sz|t'|e' t']|] eqn:SE; try discriminate.
          - unfold peek_id in *. rewrite SE in *. apply orb_prop in W as [W|W].
            + apply Z.eqb_eq in W. lia.
            + now apply andb_prop in W as [W _].
          - rewrite (peek_gen st e t' T SE) in P. lia. }
        assert (S : slot_ok (t_reg st) k (Z.to_N (to_vector (peek_id st e)))).
        { unfold slot_ok. rewrite SL. now right. }
        split; [exact (tinv_set_id st k _ T S)|]. intros _. unfold answer_ok. rewrite SL.
        exists (Z.to_N (to_vector (peek_id st e))). cbn [t_reg t_ids].
        split; [rewrite Z2N.id by lia; reflexivity|]. split; [exact S|apply cached_upd_same].
      * pose proof (reg_add_inv st k t ob T (or_intror (ex_intro _ e SL))) as H.
        destruct (reg_add step mview st k t ob) as [st1 x]. destruct H as [H1 H2]. auto.
  - split; [assumption|]. intros H. now elim H.
Qed.

Lemma get_traits_m st id :
  get_traits step mview st id =
  (st, match wrap_traits (t_reg st) (int_wrap id) with Ok t => Some t | _ => None end).
Proof.
  unfold get_traits. cbn [step]. rewrite st_eta. destruct (wrap_traits (t_reg st) (int_wrap id)); reflexivity.
Qed.

Lemma tinv_set_tr st k tr : tinv st -> trs_ok k tr -> tinv (mkt (t_reg st) (t_ids st) (upd (t_trs st) k tr)).
Proof.
  intros [R HI HT] S. split; cbn [t_reg t_ids t_trs]; [exact R|exact HI|].
  intros j w H. destruct (Nat.eq_dec j k) as [->|N].
  - rewrite cached_upd_same in H. injection H as <-. exact S.
  - rewrite cached_upd_other in H by assumption. now apply HT.
Qed.

(* traits(): the invariant is kept and the description handed out has the size of the C++ type *)
Lemma ttraits_inv st k s : tinv st -> nth_error g_slots k = Some s ->
  let '(st1, r) := ttraits step mview st k in
  tinv st1 /\ exists tr, r = Some (Some tr) /\ ti_size tr = slot_size s.
Proof.
  intros T SL. pose proof (slot_wf k s SL) as W. unfold ttraits. rewrite SL. destruct s as [id sz|t|e t]; cbn [slot_wfb slot_size] in *.
  - (* specialisation: type_traits::get of the constant id *)
    rewrite get_traits_m. split; [assumption|].
    apply andb_prop in W as [W W3]. apply andb_prop in W as [W1 W2].
    apply Z.ltb_lt in W2, W3. apply existsb_exists in W1 as [[i z] [IN E]]. cbn [fst snd] in E.
    apply andb_prop in E as [E1 E2]. apply N.eqb_eq in E1, E2. subst i z.
    destruct T as [[ops R] _ _]. 
    destruct (h_builtin_sizes _ _ IN ops) as [t' [L Z]]. rewrite <- R in L.
    replace id with (Z.of_N (Z.to_N id)) by (apply Z2N.id; lia).
    rewrite wrap_of_id; [|rewrite R; apply reach_inv|unfold g_ValueMax; lia].
    rewrite L. eauto.
  - split; [assumption|]. eauto.
  - apply andb_prop in W as [W _]. apply andb_prop in W as [_ W]. apply N.eqb_eq in W.
    destruct (cached (t_trs st) k) as [tr|] eqn:C.
    + split; [assumption|]. exists tr. split; [reflexivity|]. exact (proj1 (ti_trs st T k tr C)).
    + pose proof (tid_inv st k true T) as H. destruct (tid step mview st k true) as [st1 x].
      destruct H as [T1 A]. assert (NE : nth_error g_slots k <> None) by congruence. specialize (A NE).
      assert (OK : forall tr, ti_size tr = g_IovecSize ->
                tinv (mkt (t_reg st1) (t_ids st1) (upd (t_trs st1) k tr)) /\
                exists tr', Some (Some tr) = Some (Some tr') /\ ti_size tr' = g_IovecSize).
      { intros tr Z. split; [|eauto]. apply tinv_set_tr; [assumption|]. split; [assumption|eauto]. }
      destruct x as [x|ty|c|tr0 r0|]; try (apply OK; assumption).
      destruct (Z.ltb_spec ty 0) as [N|N]; [apply OK; assumption|].
      rewrite get_traits_m.
      unfold answer_ok in A. rewrite SL in A. destruct A as [v [-> [S _]]].
      unfold slot_ok in S. rewrite SL in S. pose proof (tinv_inv st1 T1) as I1.
      destruct S as [[B L]|V].
      * rewrite wrap_of_id by (assumption || lia). rewrite L. apply OK; assumption.
      * pose proof (vector_bounds v V) as B.
        rewrite wrap_of_id by (assumption || (unfold g_VectorLast, g_ValueMax in *; lia)).
        destruct (type_traits (t_reg st1) v) as [[u|]|e'|] eqn:L; try (apply OK; assumption).
        apply OK. exact (vector_lookup _ v u V L).
Qed.

Lemma ttraits_rel_inv st k : tinv st -> tinv (fst (ttraits_rel step mview st k)).
Proof.
  intros T. unfold ttraits_rel. destruct (nth_error g_slots k) as [s|] eqn:SL.
  - pose proof (ttraits_inv st k s T SL) as H. destruct (ttraits step mview st k) as [st1 r].
    destruct H as [T1 [tr [-> _]]].
    pose proof (tid_inv st1 k false T1) as H. destruct (tid step mview st1 k false) as [st2 x]. destruct H as [T2 _].
    destruct x as [x|v|c|tr' r'|]; cbn [fst]; try assumption.
    destruct (0 <? v)%Z; cbn [fst]; [|assumption]. rewrite get_traits_m.
    destruct (wrap_traits (t_reg st2) (int_wrap v)); cbn [fst]; assumption.
  - unfold ttraits. rewrite SL. cbn [fst]. assumption.
Qed.

Lemma tstep_inv st o : tinv st -> tinv (fst (mtstep st o)).
Proof.
  intros T. unfold mtstep. destruct o as [b|k ob|k|id|v|v|k']; cbn [tstep fst]; try assumption.
  - pose proof (tinv_reg st b T) as H. destruct (step (t_reg st) b). exact H.
  - pose proof (tid_inv st k ob T) as H. destruct (tid step mview st k ob). exact (proj1 H).
  - now apply ttraits_rel_inv.
Qed.

Theorem tpl_history_inv : forall ops st, tinv st -> tinv (mtexec st ops).
Proof.
  induction ops as [|o ops IH]; intros st T; [exact T|].
  unfold mtexec in *. cbn [texec fold_left]. apply IH. now apply tstep_inv.
Qed.

(* ================= the property ================= *)

(* ids of different instantiations differ (wherever a registration took place) *)
Theorem tpl_ids_distinct st k1 k2 v : tinv st -> g_ValueAdd <= v ->
  cached (t_ids st) k1 = Some v -> cached (t_ids st) k2 = Some v -> k1 = k2.
Proof.
  intros T B C1 C2. pose proof (ti_ids st T k1 v C1) as S1. pose proof (ti_ids st T k2 v C2) as S2.
  assert (NV : is_vector v = true -> False).
  { intros V. apply vector_bounds in V. unfold g_VectorLast, g_ValueAdd in *. lia. }
  assert (D : forall k, slot_ok (t_reg st) k v ->
            exists t, type_traits (t_reg st) v = Ok (Some t) /\ tag_is k t = true).
  { intros k S. unfold slot_ok in S. destruct (nth_error g_slots k) as [[id sz|t|e t]|] eqn:SL; try contradiction.
    - exists t. split; [exact (proj2 S)|]. pose proof (slot_wf k _ SL) as W. cbn [slot_wfb] in W.
      now apply andb_prop in W as [W _].
    - destruct S as [S|V]; [|now elim NV]. exists t. split; [exact (proj2 S)|].
      pose proof (slot_wf k _ SL) as W. cbn [slot_wfb] in W.
      apply andb_prop in W as [W _]. now apply andb_prop in W as [W _]. }
  destruct (D k1 S1) as [t1 [L1 G1]], (D k2 S2) as [t2 [L2 G2]].
  rewrite L1 in L2. injection L2 as <-. unfold tag_is in *. destruct (ti_tag t1) as [g|]; [|discriminate].
  apply N.eqb_eq in G1, G2. lia.
Qed.

(* what id() answers is valid for the slot, in the state it leaves *)
Theorem tpl_id_described st k ob s : tinv st -> nth_error g_slots k = Some s ->
  let '(st1, x) := tid step mview st k ob in
  tinv st1 /\
  match x with
  | TInt z =>
    match s with
    | TFixed id _ => z = id
    | TGen t => exists v, z = Z.of_N v /\ dyn_ok (t_reg st1) t v
    | TSpanC _ t => exists v, z = Z.of_N v /\ (dyn_ok (t_reg st1) t v \/ is_vector v = true)
    end
  | TRef _ => True
  | _ => False
  end.
Proof.
  intros T SL. pose proof (tid_inv st k ob T) as H. destruct (tid step mview st k ob) as [st1 x].
  destruct H as [T1 A]. split; [assumption|]. assert (NE : nth_error g_slots k <> None) by congruence.
  specialize (A NE). unfold answer_ok, slot_ok in A. rewrite SL in A.
  destruct x; try exact A. destruct s; [exact A| |]; destruct A as [v [E [S _]]]; eauto.
Qed.

(* ================= final forms over all histories from a fresh process ================= *)
Definition treach (ops : list top) : @tst reg := mtexec (t0 reg0) ops.

Lemma reach_tinv ops : tinv (treach ops).
Proof. apply tpl_history_inv. exact tinv_t0. Qed.

Theorem h_tpl_stable ops1 ops2 k v : cached (t_ids (treach ops1)) k = Some v ->
  cached (t_ids (treach (ops1 ++ ops2))) k = Some v /\
  forall ob, match nth_error g_slots k with
             | Some (TFixed _ _) | None => True
             | _ => tid step mview (treach (ops1 ++ ops2)) k ob = (treach (ops1 ++ ops2), TInt (Z.of_N v))
             end.
Proof.
  intros H. pose proof (tpl_id_stable step mview (t0 reg0) ops1 ops2 k v H) as S.
  split; [exact S|]. intros ob. exact (tid_answer step mview _ k ob v S).
Qed.

Theorem h_tpl_distinct ops k1 k2 v : g_ValueAdd <= v ->
  cached (t_ids (treach ops)) k1 = Some v -> cached (t_ids (treach ops)) k2 = Some v -> k1 = k2.
Proof. intros B. apply tpl_ids_distinct; [apply reach_tinv|exact B]. Qed.

Theorem h_tpl_id ops k ob s : nth_error g_slots k = Some s ->
  let '(st1, x) := tid step mview (treach ops) k ob in
  match x with
  | TInt z =>
    match s with
    | TFixed id _ => z = id
    | TGen t => exists v, z = Z.of_N v /\ dyn_ok (t_reg st1) t v
    | TSpanC _ t => exists v, z = Z.of_N v /\ (dyn_ok (t_reg st1) t v \/ is_vector v = true)
    end
  | TRef _ => True
  | _ => False
  end.
Proof.
  intros SL. pose proof (tpl_id_described (treach ops) k ob s (reach_tinv ops) SL) as H.
  destruct (tid step mview (treach ops) k ob). exact (proj2 H).
Qed.

Theorem h_tpl_traits ops k s : nth_error g_slots k = Some s ->
  exists tr, snd (ttraits step mview (treach ops) k) = Some (Some tr) /\ ti_size tr = slot_size s.
Proof.
  intros SL. pose proof (ttraits_inv (treach ops) k s (reach_tinv ops) SL) as H.
  destruct (ttraits step mview (treach ops) k). exact (proj2 H).
Qed.

(* basetype(): a value is stored under an id below 256; every pointer to a convertable/metatype under the
   convertable id, an array under the buffer-pointer id *)
Theorem basetype_range id : basetype id <= g_DynamicLast.
Proof.
  unfold basetype. destruct (id =? 0); [unfold g_DynamicLast; lia|].
  destruct (N.leb_spec id g_DynamicLast); [assumption|].
  destruct (id =? g_TypeArray); [unfold g_TypeBufferPtr, g_DynamicLast; lia|].
  destruct (is_convertable id); unfold g_TypeConvertablePtr, g_DynamicLast; lia.
Qed.
Theorem basetype_metaptr id : is_metaptr id = true -> basetype id = g_TypeConvertablePtr.
Proof.
  intros H. unfold basetype, is_convertable. rewrite H. 
  unfold is_metaptr in H. apply andb_prop in H as [A B]. apply N.leb_le in A, B.
  unfold g_MetaPtrBase, g_MetaPtrLast in *.
  assert (E1 : (id =? 0) = false) by (apply N.eqb_neq; lia).
  assert (E2 : (id <=? g_DynamicLast) = false) by (apply N.leb_gt; unfold g_DynamicLast; lia).
  assert (E3 : (id =? g_TypeArray) = false) by (apply N.eqb_neq; unfold g_TypeArray; lia).
  rewrite E1, E2, E3. now rewrite !orb_true_r.
Qed.
