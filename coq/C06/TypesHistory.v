(* C06/TypesHistory.v — the property lemmas lifted to every history of operations
   from the initial registry, and the finite sweeps over the generated tables. *)
From MptV Require Import Base.Mem C06.Gen_Types C06.TypesModel C06.TypesFacts C06.TypesChunks
  C06.TypesInv C06.TypesProps.
Local Open Scope nat_scope.

Lemma reach_inv ops : inv (exec reg0 ops).
Proof. exact (proj1 (exec_inv ops reg0 inv_reg0)). Qed.

Lemma exec_app r a b : exec r (a ++ b) = exec (exec r a) b.
Proof. unfold exec. apply fold_left_app. Qed.

(* [run] lists the outputs, [exec] is the state they are produced in *)
Lemma run_app r a : forall b, run r (a ++ b) = run r a ++ run (exec r a) b.
Proof.
  revert r. induction a as [|o a IH]; intros r b; [reflexivity|].
  cbn [app run]. destruct (step r o) as [r' x] eqn:E.
  change (exec r (o :: a)) with (exec (fst (step r o)) a). rewrite E. cbn [fst].
  rewrite IH. reflexivity.
Qed.

Lemma h_ids_unique ops :
  NoDup (issued_run reg0 ops) /\ forall id, In id (issued_run reg0 ops) -> known reg0 id = false.
Proof. exact (issued_unique ops reg0 inv_reg0). Qed.

Lemma h_kind_range ops o id :
  issued o (snd (step (exec reg0 ops) o)) = Some id -> kind_range o id.
Proof. intros H. exact (proj2 (proj2 (step_fresh _ o id (reach_inv ops) H))). Qed.

Lemma h_fresh ops o id :
  issued o (snd (step (exec reg0 ops) o)) = Some id ->
  known (exec reg0 ops) id = false /\ known (exec reg0 (ops ++ [o])) id = true.
Proof.
  intros H. destruct (step_fresh _ o id (reach_inv ops) H) as (A & B & _).
  split; [exact A|]. rewrite exec_app. exact B.
Qed.

Lemma h_stable ops1 ops2 :
  let r1 := exec reg0 ops1 in
  let r2 := exec reg0 (ops1 ++ ops2) in
  (forall id t, type_traits r1 id = Ok (Some t) -> type_traits r2 id = Ok (Some t)) /\
  (forall id e, interface_traits r1 id = Ok (inl e) -> interface_traits r2 id = Ok (inl e)) /\
  (forall id e, metatype_traits r1 id = Ok (inl e) -> metatype_traits r2 id = Ok (inl e)) /\
  (forall n len e, named_traits r1 n len = inl e -> named_traits r2 n len = inl e).
Proof.
  cbv zeta. rewrite exec_app.
  pose proof (reach_inv ops1) as I1.
  destruct (exec_inv ops2 _ I1) as [I2 X].
  repeat split; intros.
  - apply (traits_stable _ _ id t I1 I2 X). assumption.
  - apply (iface_stable _ _ id e I1 I2 X). assumption.
  - apply (meta_stable _ _ id e I1 I2 X). assumption.
  - apply (named_stable _ _ n len e I1 I2 X). assumption.
Qed.

Lemma h_bijection ops :
  let r := exec reg0 ops in
  (forall id e, interface_traits r id = Ok (inl e) \/ metatype_traits r id = Ok (inl e) ->
     ne_type e = id /\
     forall n, ne_name e = Some n ->
       named_traits r (Some n) (-1) = inl e /\ named_traits r (Some n) (Z.of_nat (length n)) = inl e) /\
  (forall n len e, named_traits r n len = inl e ->
     interface_traits r (ne_type e) = Ok (inl e) \/ metatype_traits r (ne_type e) = Ok (inl e)).
Proof.
  cbv zeta. pose proof (reach_inv ops) as I. split.
  - intros id e H. destruct (lookup_in_named _ id e I H) as [Hin Hid]. split; [exact Hid|].
    intros n Hn. exact (name_to_entry _ e n I Hin Hn).
  - intros n len e H. apply named_has_id; [exact I|]. eapply named_traits_in. exact H.
Qed.

Lemma h_dup_or_short ops m :
  let r := exec reg0 ops in
  (exists id e, (interface_traits r id = Ok (inl e) \/ metatype_traits r id = Ok (inl e)) /\ ne_name e = Some m)
  \/ length m < g_MinIfaceName /\ length m < g_MinMetaName ->
  (exists e, interface_add r (Some m) = (r, Ok (inr e))) /\
  (exists e, metatype_add r (Some m) = (r, Ok (inr e))).
Proof.
  cbv zeta. pose proof (reach_inv ops) as I. intros [(id & e & H & Hn)|[H1 H2]].
  - destruct (lookup_in_named _ id e I H) as [Hin _]. split.
    + apply dup_or_short; [exact I|]. right. exists e. auto.
    + apply dup_or_short_meta; [exact I|]. right. exists e. auto.
  - split; [apply dup_or_short|apply dup_or_short_meta]; auto.
Qed.

Lemma h_short_iface ops m : length m < g_MinIfaceName ->
  exists e, interface_add (exec reg0 ops) (Some m) = (exec reg0 ops, Ok (inr e)).
Proof. intros H. apply dup_or_short; [apply reach_inv|]. left. exact H. Qed.

Lemma h_short_meta ops m : length m < g_MinMetaName ->
  exists e, metatype_add (exec reg0 ops) (Some m) = (exec reg0 ops, Ok (inr e)).
Proof. intros H. apply dup_or_short_meta; [apply reach_inv|]. left. exact H. Qed.

Lemma h_refused_unchanged ops o :
  let r := exec reg0 ops in
  (is_registration o = true -> issued o (snd (step r o)) = None ->
     fst (step r o) = r /\ refused (snd (step r o)) = true) /\
  (is_registration o = false -> fst (step r o) = r).
Proof.
  cbv zeta. split.
  - apply step_refused_unchanged, reach_inv.
  - apply lookup_keeps_state.
Qed.

Lemma h_exhausted ops :
  let r := exec reg0 ops in
  (dslots <= length (r_dyn r) -> forall s, basic_add r s = (r, Err MissingBuffer)) /\
  ((g_ValueMax < g_ValueAdd + N.of_nat (length (concat (r_gen r))))%N ->
     forall t, exists e, type_add r t = (r, Err e)) /\
  (islots <= r_ipos r -> forall n, interface_add r n = (r, Ok (inr ENOMEM))) /\
  ((g_MetaPtrMax < g_MetaPtrBase + N.of_nat (length (concat (r_meta r))))%N ->
     forall n, exists e, metatype_add r n = (r, Ok (inr e))).
Proof. cbv zeta. apply exhausted_refused, reach_inv. Qed.

Lemma h_no_fault ops o : out_ok (snd (step (exec reg0 ops) o)).
Proof. apply step_no_fault, reach_inv. Qed.

(* ---------- finite sweeps over the generated tables ---------- *)
Definition size_matches (r : reg) (p : N * N) : bool :=
  match type_traits r (fst p) with
  | Ok (Some t) => (ti_size t =? snd p)%N
  | _ => false
  end.

Lemma builtin_sweep : forallb (size_matches reg0) g_ctype_sizes = true.
Proof. vm_compute. reflexivity. Qed.

Lemma h_builtin_sizes id sz : In (id, sz) g_ctype_sizes ->
  forall ops, exists t, type_traits (exec reg0 ops) id = Ok (Some t) /\ ti_size t = sz.
Proof.
  intros H ops. pose proof builtin_sweep as S. rewrite forallb_forall in S.
  specialize (S _ H). unfold size_matches in S. cbn [fst snd] in S.
  destruct (type_traits reg0 id) as [[t|]| |] eqn:E; try discriminate.
  apply N.eqb_eq in S. exists t. split; [|exact S].
  destruct (h_stable [] ops) as (St & _). cbn [app] in St. apply St. exact E.
Qed.

(* built-in named entries are plain pointers: no init, no fini *)
Definition plain_pointer (r : reg) (p : N * list N) : bool :=
  match type_traits r (fst p) with
  | Ok (Some t) => (ti_size t =? g_PtrSize)%N && negb (ti_init t) && negb (ti_fini t)
  | _ => false
  end.

Lemma builtin_iface_sweep : forallb (plain_pointer reg0) g_core_interfaces = true.
Proof. vm_compute. reflexivity. Qed.

(* type_int.c / msgvalfmt.c agree with the scalar table *)
Definition int_size_matches (p : N * N) : bool := size_matches reg0 (snd p, fst p).
Lemma type_int_sweep :
  forallb int_size_matches g_type_int && forallb int_size_matches g_type_uint = true.
Proof. vm_compute. reflexivity. Qed.

Definition valfmt_matches (p : N * N) : bool :=
  match msgvalfmt_typeid (snd p) with
  | Ok t => (t =? fst p)%N && size_matches reg0 (fst p, msgvalfmt_size (snd p))
  | _ => false
  end.
Lemma valfmt_sweep : forallb valfmt_matches g_valfmt_codes = true.
Proof. vm_compute. reflexivity. Qed.

Lemma h_helpers :
  (forall n c, In (n, c) g_type_int \/ In (n, c) g_type_uint ->
     exists t, type_traits reg0 c = Ok (Some t) /\ ti_size t = n) /\
  (forall t c, In (t, c) g_valfmt_codes ->
     msgvalfmt_typeid c = Ok t /\
     exists i, type_traits reg0 t = Ok (Some i) /\ ti_size i = msgvalfmt_size c).
Proof.
  split.
  - intros n c H. pose proof type_int_sweep as S. apply andb_true_iff in S. destruct S as [S1 S2].
    rewrite forallb_forall in S1, S2.
    assert (M : int_size_matches (n, c) = true) by (destruct H; auto).
    unfold int_size_matches, size_matches in M. cbn [fst snd] in M.
    destruct (type_traits reg0 c) as [[t|]| |]; try discriminate.
    apply N.eqb_eq in M. exists t. auto.
  - intros t c H. pose proof valfmt_sweep as S. rewrite forallb_forall in S. specialize (S _ H).
    unfold valfmt_matches, size_matches in S. cbn [fst snd] in S.
    destruct (msgvalfmt_typeid c) as [t'| |]; try discriminate.
    apply andb_true_iff in S. destruct S as [S1 S2]. apply N.eqb_eq in S1. subst t'.
    split; [reflexivity|].
    destruct (type_traits reg0 t) as [[i|]| |]; try discriminate.
    apply N.eqb_eq in S2. exists i. auto.
Qed.
