(* Extraction of the executable model and specification of C17 (ExtrOcamlBasic only). *)
From MptV Require Import Base.Mem C17.MessageModel C17.MessageSpec.
Require Import ExtrOcamlBasic.
Extraction "c17_model.ml" mrun srun abs.
