(* C17/MessageSpec.v — the abstract specification: every operation on the single
   contiguous byte string.  Plain functions on [list byte]; nothing here knows
   about fragments.  (The ctype predicates, [in_set], [cstr] and the operation
   vocabulary [op]/[out] are shared with the model file; everything else is
   written independently of it.) *)
From MptV Require Export Base.Mem C17.MessageModel.
Local Open Scope nat_scope.

(* read n bytes: (count, bytes, rest) *)
Definition flat_read (s : list byte) (n : nat) : nat * list byte * list byte :=
  (Nat.min n (length s), firstn n s, skipn n s).

(* first / last index of a byte accepted by p *)
Fixpoint flat_find (p : byte -> bool) (s : list byte) : option nat :=
  match s with
  | [] => None
  | c :: r => if p c then Some 0
              else match flat_find p r with Some k => Some (S k) | None => None end
  end.
Definition flat_rfind (p : byte -> bool) (s : list byte) : option nat :=
  match flat_find p (rev s) with
  | Some k => Some (length s - 1 - k)
  | None => None
  end.

Definition flat_memchr (s : list byte) (b : byte) := flat_find (N.eqb b) s.
Definition flat_memrchr (s : list byte) (b : byte) := flat_rfind (N.eqb b) s.
Definition flat_memstr (s set : list byte) : option nat :=
  match set with [] => Some 0 | _ => flat_find (fun c => in_set c set) s end.
Definition flat_memrstr (s set : list byte) : option nat :=
  match set with [] => Some 0 | _ => flat_rfind (fun c => in_set c set) s end.

(* mpt_memtok on one string.  q = the open quote character when inside a quoted
   region, incom = inside a comment (dropped up to its newline), prev = previous
   significant byte; tok/com/esc are the byte sets (already cut at their NUL). *)
Fixpoint ftok (tok : option (list byte)) (com esc : list byte)
         (q : option byte) (incom : bool) (prev : byte) (s : list byte) (pos : nat) : option nat :=
  match s with
  | [] => None
  | c :: r =>
    if incom then
      (if (c =? 10)%N then ftok tok com esc q false c r (S pos)
       else ftok tok com esc q true prev r (S pos))
    else
    match q with
    | Some m =>
      ftok tok com esc (if (c =? m)%N && negb (prev =? 92)%N then None else Some m) false c r (S pos)
    | None =>
      if in_set c esc then ftok tok com esc (Some c) false prev r (S pos)
      else if in_set c com && is_space prev then
        match tok with
        | Some _ => Some pos
        | None => ftok tok com esc None true prev r (S pos)
        end
      else if (match tok with Some t => in_set c t | None => negb (is_space c) end) then Some pos
      else ftok tok com esc None false c r (S pos)
    end
  end.
Definition flat_memtok (s : list byte) (tok : option (list byte)) (com esc : list byte) : option nat :=
  ftok (option_map cstr tok) (cstr com) (cstr esc) None false 32%N s 0.

(* copy len bytes (len < 0: as many as both sides hold) from s over the start of d *)
Definition flat_memcpy (len : Z) (s d : list byte) : Z * list byte :=
  if (0 <? len)%Z && (Z.of_nat (length s) <? len)%Z then ((-1)%Z, d)
  else if (0 <? len)%Z && (Z.of_nat (length d) <? len)%Z then ((-2)%Z, d)
  else let n := if (len <? 0)%Z then Nat.min (length s) (length d) else Z.to_nat len in
       (Z.of_nat n, firstn n s ++ skipn n d).

(* first index of byte c, or the length *)
Definition index_or_len (c : byte) (s : list byte) : nat :=
  match flat_find (N.eqb c) s with Some k => k | None => length s end.

Fixpoint drop_space (s : list byte) : list byte :=
  match s with
  | c :: r => if is_space c then drop_space r else s
  | [] => []
  end.

(* next argument: (length of the argument | MissingData, string left as the message) *)
Definition flat_argv (s : list byte) (sep : byte) : res nat * list byte :=
  match s with
  | [] => (Err MissingData, [])
  | _ =>
    if (sep =? 0)%N then (Ok (index_or_len 0%N s), s)
    else
      let t := match drop_space s with [] => s | t => t end in
      if is_graph sep then (Ok (index_or_len sep t), t)
      else match flat_memtok t (Some [9; 32; 10; 13; 11]%N) [] [39; 34]%N with
           | Some p => (Ok p, t)
           | None => (Ok (index_or_len 0%N t), t)
           end
  end.

Definition flat_append (arr s : list byte) : list byte := arr ++ s.

(* bytes held by a ring, oldest first *)
Definition ring_contents (q : ring) : list byte :=
  map (fun i => nth ((roff q + i) mod rmax q) (rbuf q) 0%N) (seq 0 (rlen q)).
(* the window [off, off+take) of the held bytes *)
Definition flat_get (c : list byte) (off take : nat) : res (list byte) :=
  if length c <? off then Err BadArgument
  else if length c - off <? take then Err ERange
  else Ok (firstn take (skipn off c)).

(* arguments of the text, each followed by a NUL: (count, bytes) *)
Fixpoint flat_args (fuel : nat) (s : list byte) (sep : byte) (arr : list byte) (n : nat) : nat * list byte :=
  match fuel with
  | 0 => (n, arr)
  | S fu =>
    match flat_argv s sep with
    | (Ok len, t) =>
      if (len =? 0) && negb (sep =? 0)%N then (n, arr)
      else flat_args fu (skipn (S len) t) sep (arr ++ firstn len t ++ [0%N]) (S n)
    | _ => (n, arr)
    end
  end.
Definition flat_array_message (s : list byte) (sep : byte) : nat * list byte :=
  flat_args (S (length s)) s sep [] 0.

(* appending to an array that may refuse (typed buffer, no memory): all of the text or
   nothing.  [refused] is consulted only where the interface allows both outcomes. *)
Definition flat_append_lim (arr s : list byte) (lim : option nat) (refused : bool) : out :=
  let refuse := match s, lim with
                | [], _ => false             (* nothing to append: never asks the array *)
                | _, None => false           (* the array takes everything *)
                | _, Some 0 => true          (* the array takes nothing (typed buffer) *)
                | _, Some _ => refused       (* some allocation in between failed *)
                end in
  if refuse then OArrE MissingBuffer arr else OArr 0 (flat_append arr s).

(* argument array built with an array that refuses after [lim] calls: one call for the
   reservation, one per non-empty argument, one per terminating NUL *)
Fixpoint flat_args_lim (fuel : nat) (s : list byte) (sep : byte) (arr : list byte) (n : nat) (lim : option nat)
  : res (nat * list byte) :=
  match fuel with
  | 0 => Ok (n, arr)
  | S fu =>
    match flat_argv s sep with
    | (Ok len, t) =>
      if (len =? 0) && negb (sep =? 0)%N then Ok (n, arr)
      else match (if len =? 0 then Some lim else lim_take lim) with
           | None => Err MissingBuffer
           | Some l1 =>
             match lim_take l1 with
             | None => Err MissingBuffer
             | Some l2 => flat_args_lim fu (skipn (S len) t) sep (arr ++ firstn len t ++ [0%N]) (S n) l2
             end
           end
    | _ => Ok (n, arr)
    end
  end.
Definition flat_array_message_lim (s : list byte) (sep : byte) (lim : option nat) (pre : list byte) : out :=
  match s with
  | [] => OArr 0 []
  | _ => match lim_take lim with
         | None => OArrE BadOperation pre
         | Some l1 => match flat_args_lim (S (length s)) s sep [] 0 l1 with
                      | Ok (n, a) => OArr n a
                      | Err e => OArrE e pre
                      | Fault => OFault
                      end
         end
  end.

(* last position of a byte accepted by the search, in the string  <big bytes> ++ s  when
   the byte is found inside s: representable as ssize_t or EOVERFLOW *)
Definition rkind_pred (k : rkind) : option (byte -> bool) :=
  match k with
  | RChr b => Some (N.eqb b)
  | RFcn n => Some (fcn_of n)
  | RStr [] => None
  | RStr set => Some (fun c => in_set c set)
  end.
Definition flat_rbig (big : N) (s : list byte) (k : rkind) : rpos :=
  match (match rkind_pred k with Some p => flat_rfind p s | None => None end) with
  | None => RSkip
  | Some p => if (big + N.of_nat p <=? ssize_max)%N then RAt (big + N.of_nat p) else ROverflow
  end.

(* ---------------------------------------------------------------- histories on the flat string *)
(* spec state: the remaining text *)
Definition sstate := list byte.
Definition abs (F : list frag) : sstate := concat F.

(* [hint] is the model's output: consulted only where the interface allows refusing:
   OpGet (no second vector given; it also reports how many parts it used) and OpAppL
   (an allocation in the middle failed) *)
Definition sstep (s : sstate) (o : op) (hint : out) : sstate * out :=
  match o with
  | OpSet F' => (abs F', ONat (length F'))
  | OpRead n dest =>
    let '(t, d, r) := flat_read s n in (r, ORead t (if dest then Some d else None))
  | OpLen => (s, ONat (length s))
  | OpArgv sep => let '(r, t) := flat_argv s sep in (t, OArgv r)
  | OpChr false b => (s, OPos (flat_memchr s b))
  | OpChr true b => (s, OPos (flat_memrchr s b))
  | OpFcn false k => (s, OPos (flat_find (fcn_of k) s))
  | OpFcn true k => (s, OPos (flat_rfind (fcn_of k) s))
  | OpStr false set => (s, OPos (flat_memstr s set))
  | OpStr true set => (s, OPos (flat_memrstr s set))
  | OpTok t c e => (s, OPos (flat_memtok s t c e))
  | OpCpy len dest => let '(r, d) := flat_memcpy len s (concat dest) in (s, OCpy r d)
  | OpApp pre => (s, OArr 0 (flat_append pre s))
  | OpGet q off take vec =>
    match flat_get (ring_contents q) off take with
    | Ok w =>
      match hint with
      | OGet (Err EInval) => if vec then (w, OGet (Ok 0)) else (s, OGet (Err EInval))
      | OGet (Ok k) => (w, OGet (Ok k))
      | _ => (w, OGet (Ok 0))
      end
    | Err e => (s, OGet (Err e))
    | Fault => (s, OFault)
    end
  | OpAmsg sep => let '(n, a) := flat_array_message s sep in (s, OArr n a)
  | OpAppL pre lim =>
    (s, flat_append_lim pre s lim (match hint with OArrE _ _ => true | _ => false end))
  | OpAmsgL sep lim pre => (s, flat_array_message_lim s sep lim pre)
  | OpAmsgNull => (s, OArr 0 [])
  | OpNullArg which => (s, if m_nullarg which then OPosE else OPos (Some 0))
  | OpRBig big k => (s, ORBig (flat_rbig big s k))
  end.

(* run model and spec side by side (the spec gets the model's output as hint) *)
Fixpoint srun (F : list frag) (st : sstate) (ops : list op) : list (out * list byte) :=
  match ops with
  | [] => []
  | o :: r =>
    let '(F', x) := mstep F o in
    let '(st', y) := sstep st o x in
    (y, st') :: srun F' st' r
  end.
