(* C17/MessageSpec.v — the abstract specification: every operation on the single
   contiguous byte string.  Plain functions on [list byte]; nothing here knows
   about fragments.  (The ctype predicates, [in_set], [cstr] and the operation
   vocabulary [op]/[out] are shared with the model file; everything else is
   written independently of it.) *)
From MptV Require Export Base.Mem C17.MessageModel.
Local Open Scope nat_scope.

(* read n bytes: (count, bytes, rest) *)
Definition flat_read (s : list byte) (n : nat) : nat * list byte * list byte :=
  (Nat.min n (length s), firstn n s, skipn n s).

(* first / last index of a byte accepted by p *)
Fixpoint flat_find (p : byte -> bool) (s : list byte) : option nat :=
  match s with
  | [] => None
  | c :: r => if p c then Some 0
              else match flat_find p r with Some k => Some (S k) | None => None end
  end.
Definition flat_rfind (p : byte -> bool) (s : list byte) : option nat :=
  match flat_find p (rev s) with
  | Some k => Some (length s - 1 - k)
  | None => None
  end.

Definition flat_memchr (s : list byte) (b : byte) := flat_find (N.eqb b) s.
Definition flat_memrchr (s : list byte) (b : byte) := flat_rfind (N.eqb b) s.
Definition flat_memstr (s set : list byte) : option nat :=
  match set with [] => Some 0 | _ => flat_find (fun c => in_set c set) s end.
Definition flat_memrstr (s set : list byte) : option nat :=
  match set with [] => Some 0 | _ => flat_rfind (fun c => in_set c set) s end.

(* mpt_memtok on one string.  q = the open quote character when inside a quoted
   region, incom = inside a comment (dropped up to its newline), prev = previous
   significant byte; tok/com/esc are the byte sets (already cut at their NUL). *)
Fixpoint ftok (tok : option (list byte)) (com esc : list byte)
         (q : option byte) (incom : bool) (prev : byte) (s : list byte) (pos : nat) : option nat :=
  match s with
  | [] => None
  | c :: r =>
    if incom then
      (if (c =? 10)%N then ftok tok com esc q false c r (S pos)
       else ftok tok com esc q true prev r (S pos))
    else
    match q with
    | Some m =>
      ftok tok com esc (if (c =? m)%N && negb (prev =? 92)%N then None else Some m) false c r (S pos)
    | None =>
      if in_set c esc then ftok tok com esc (Some c) false prev r (S pos)
      else if in_set c com && is_space prev then
        match tok with
        | Some _ => Some pos
        | None => ftok tok com esc None true prev r (S pos)
        end
      else if (match tok with Some t => in_set c t | None => negb (is_space c) end) then Some pos
      else ftok tok com esc None false c r (S pos)
    end
  end.
Definition flat_memtok (s : list byte) (tok : option (list byte)) (com esc : list byte) : option nat :=
  ftok (option_map cstr tok) (cstr com) (cstr esc) None false 32%N s 0.

(* copy len bytes (len < 0: as many as both sides hold) from s over the start of d *)
Definition flat_memcpy (len : Z) (s d : list byte) : Z * list byte :=
  if (0 <? len)%Z && (Z.of_nat (length s) <? len)%Z then ((-1)%Z, d)
  else if (0 <? len)%Z && (Z.of_nat (length d) <? len)%Z then ((-2)%Z, d)
  else let n := if (len <? 0)%Z then Nat.min (length s) (length d) else Z.to_nat len in
       (Z.of_nat n, firstn n s ++ skipn n d).

(* first index of byte c, or the length *)
Definition index_or_len (c : byte) (s : list byte) : nat :=
  match flat_find (N.eqb c) s with Some k => k | None => length s end.

Fixpoint drop_space (s : list byte) : list byte :=
  match s with
  | c :: r => if is_space c then drop_space r else s
  | [] => []
  end.

(* next argument: (length of the argument | MissingData, string left as the message) *)
Definition flat_argv (s : list byte) (sep : byte) : res nat * list byte :=
  match s with
  | [] => (Err MissingData, [])
  | _ =>
    if (sep =? 0)%N then (Ok (index_or_len 0%N s), s)
    else
      let t := match drop_space s with [] => s | t => t end in
      if is_graph sep then (Ok (index_or_len sep t), t)
      else match flat_memtok t (Some [9; 32; 10; 13; 11]%N) [] [39; 34]%N with
           | Some p => (Ok p, t)
           | None => (Ok (index_or_len 0%N t), t)
           end
  end.

Definition flat_append (arr s : list byte) : list byte := arr ++ s.

(* bytes held by a ring, oldest first *)
Definition ring_contents (q : ring) : list byte :=
  map (fun i => nth ((roff q + i) mod rmax q) (rbuf q) 0%N) (seq 0 (rlen q)).
(* the window [off, off+take) of the held bytes *)
Definition flat_get (c : list byte) (off take : nat) : res (list byte) :=
  if length c <? off then Err BadArgument
  else if length c - off <? take then Err ERange
  else Ok (firstn take (skipn off c)).

(* arguments of the text, each followed by a NUL: (count, bytes) *)
Fixpoint flat_args (fuel : nat) (s : list byte) (sep : byte) (arr : list byte) (n : nat) : nat * list byte :=
  match fuel with
  | 0 => (n, arr)
  | S fu =>
    match flat_argv s sep with
    | (Ok len, t) =>
      if (len =? 0) && negb (sep =? 0)%N then (n, arr)
      else flat_args fu (skipn (S len) t) sep (arr ++ firstn len t ++ [0%N]) (S n)
    | _ => (n, arr)
    end
  end.
Definition flat_array_message (s : list byte) (sep : byte) : nat * list byte :=
  flat_args (S (length s)) s sep [] 0.

(* ---------------------------------------------------------------- histories on the flat string *)
(* spec state: the remaining text, and whether the message has no part at all
   (mpt_memcpy documents nothing for a zero part count and returns 0) *)
Definition sstate := (list byte * bool)%type.
Definition abs (F : list frag) : sstate := (concat F, match F with [] => true | _ => false end).

(* [hint] is the model's output: consulted only by OpGet, where the interface
   allows refusing (no second vector given) and reports how many parts it used *)
Definition sstep (st : sstate) (o : op) (hint : out) : sstate * out :=
  let '(s, nop) := st in
  match o with
  | OpSet F' => (abs F', ONat (length F'))
  | OpRead n dest =>
    let '(t, d, r) := flat_read s n in ((r, false), ORead t (if dest then Some d else None))
  | OpLen => (st, ONat (length s))
  | OpArgv sep => let '(r, t) := flat_argv s sep in ((t, false), OArgv r)
  | OpChr false b => (st, OPos (flat_memchr s b))
  | OpChr true b => (st, OPos (flat_memrchr s b))
  | OpFcn false k => (st, OPos (flat_find (fcn_of k) s))
  | OpFcn true k => (st, OPos (flat_rfind (fcn_of k) s))
  | OpStr false set => (st, OPos (flat_memstr s set))
  | OpStr true set => (st, OPos (flat_memrstr s set))
  | OpTok t c e => (st, OPos (flat_memtok s t c e))
  | OpCpy len dest =>
    if nop || (match dest with [] => true | _ => false end) then (st, OCpy 0%Z (concat dest))
    else let '(r, d) := flat_memcpy len s (concat dest) in (st, OCpy r d)
  | OpApp pre => (st, OArr 0 (flat_append pre s))
  | OpGet q off take vec =>
    match flat_get (ring_contents q) off take with
    | Ok w =>
      match hint with
      | OGet (Err EInval) => if vec then ((w, false), OGet (Ok 0)) else (st, OGet (Err EInval))
      | OGet (Ok k) => ((w, false), OGet (Ok k))
      | _ => ((w, false), OGet (Ok 0))
      end
    | Err e => (st, OGet (Err e))
    | Fault => (st, OFault)
    end
  | OpAmsg sep => let '(n, a) := flat_array_message s sep in (st, OArr n a)
  end.

(* run model and spec side by side (the spec gets the model's output as hint) *)
Fixpoint srun (F : list frag) (st : sstate) (ops : list op) : list (out * list byte) :=
  match ops with
  | [] => []
  | o :: r =>
    let '(F', x) := mstep F o in
    let '(st', y) := sstep st o x in
    (y, fst st') :: srun F' st' r
  end.
