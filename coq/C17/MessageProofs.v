(* C17/MessageProofs.v — fragments vs. the flat string: basic lemmas, read, length,
   the byte searches (memchr/memrchr/memfcn/memrfcn/memstr/memrstr), append. *)
From MptV Require Import Base.Mem Base.Tactics C17.MessageModel C17.MessageSpec.
Local Open Scope nat_scope.

(* ---------------------------------------------------------------- lengths *)
Lemma total_len_concat d : total_len d = length (concat d).
Proof.
  induction d as [|f d IH]; [reflexivity|].
  cbn [total_len fold_right concat]. rewrite app_length. fold (total_len d). lia.
Qed.

Lemma total_len_app a b : total_len (a ++ b) = total_len a + total_len b.
Proof. rewrite !total_len_concat, concat_app, app_length. reflexivity. Qed.

Lemma lens_before_app pre rest : lens_before (pre ++ rest) (length pre) = total_len pre.
Proof.
  unfold lens_before. rewrite firstn_app, Nat.sub_diag, firstn_all. cbn [firstn]. rewrite app_nil_r. reflexivity.
Qed.

Lemma frags_msg_of F : concat (frags (msg_of F)) = concat F.
Proof. destruct F; reflexivity. Qed.

Lemma firstn_0_skipn {A} (l : list A) n : firstn n (skipn 0 l) = firstn n l.
Proof. reflexivity. Qed.

Lemma rd0 (l : list byte) n : n <= length l -> rd l 0 n = Ok (firstn n l).
Proof. intros H. rewrite rd_ok by lia. reflexivity. Qed.

(* ---------------------------------------------------------------- message_read *)
Lemma skip_empty_concat cur cont : concat (frags (skip_empty cur cont)) = cur ++ concat cont.
Proof.
  revert cur; induction cont as [|f r IH]; intros cur.
  - destruct cur; reflexivity.
  - destruct cur as [|c cur]; [|reflexivity]. cbn [skip_empty]. rewrite IH. reflexivity.
Qed.

Lemma skip_empty_normal cur cont : mcur (skip_empty cur cont) = [] -> mcont (skip_empty cur cont) = [].
Proof.
  revert cur; induction cont as [|f r IH]; intros cur.
  - destruct cur; reflexivity.
  - destruct cur as [|c cur]; cbn [skip_empty]; [apply IH|]. cbn. discriminate.
Qed.

Lemma mread_flat cont : forall cur n,
  exists m, mread cur cont n = Ok (Nat.min n (length (cur ++ concat cont)), firstn n (cur ++ concat cont), m)
            /\ concat (frags m) = skipn n (cur ++ concat cont)
            /\ (mcur m = [] -> mcont m = []).
Proof.
  induction cont as [|f r IH]; intros cur n; cbn [mread concat].
  - rewrite app_nil_r. destruct (Nat.ltb_spec (length cur) n) as [H|H].
    + rewrite rd0 by lia. cbn [bind]. eexists; split; [|split].
      * rewrite Nat.min_r by lia. rewrite firstn_all, firstn_all2 by lia. reflexivity.
      * cbn [frags mcur mcont concat]. rewrite !skipn_all2 by lia. reflexivity.
      * reflexivity.
    + rewrite rd0 by lia. cbn [bind]. eexists; split; [|split].
      * rewrite Nat.min_l by lia. reflexivity.
      * rewrite skip_empty_concat. cbn [concat]. rewrite app_nil_r. reflexivity.
      * apply skip_empty_normal.
  - destruct (Nat.ltb_spec (length cur) n) as [H|H].
    + rewrite rd0 by lia. cbn [bind].
      destruct (IH f (n - length cur)) as (m & E & C & N). rewrite E. cbn [bind].
      eexists; split; [|split]; [| |exact N].
      * rewrite firstn_all. rewrite (firstn_app n cur), (firstn_all2 cur) by lia.
        rewrite !app_length. f_equal. f_equal. f_equal. lia.
      * rewrite C. rewrite (skipn_app n cur), (skipn_all2 cur) by lia. reflexivity.
    + rewrite rd0 by lia. cbn [bind]. eexists; split; [|split].
      * rewrite app_length, Nat.min_l by lia. rewrite firstn_app.
        replace (n - length cur) with 0 by lia. cbn [firstn]. rewrite app_nil_r. reflexivity.
      * rewrite skip_empty_concat. rewrite skipn_app. replace (n - length cur) with 0 by lia. reflexivity.
      * apply skip_empty_normal.
Qed.

(* reading n bytes from any fragmentation = reading n bytes from the flat string;
   the cursor left behind denotes the flat suffix and is normalised *)
Lemma read_flat m n :
  exists m', m_read m n = Ok (fst (fst (flat_read (concat (frags m)) n)),
                              snd (fst (flat_read (concat (frags m)) n)), m')
             /\ concat (frags m') = snd (flat_read (concat (frags m)) n)
             /\ (mcur m' = [] -> mcont m' = []).
Proof. destruct m as [cur cont]. unfold m_read, flat_read, frags. cbn [mcur mcont concat fst snd]. apply mread_flat. Qed.

Lemma length_flat m : m_length m = length (concat (frags m)).
Proof. destruct m as [cur cont]. unfold m_length, frags. cbn [mcur mcont concat]. rewrite app_length, total_len_concat. reflexivity. Qed.

(* ---------------------------------------------------------------- first / last index *)
Lemma blk_find_flat p l : blk_find p l = flat_find p l.
Proof.
  induction l as [|c r IH]; [reflexivity|]. cbn [blk_find flat_find]. rewrite IH.
  destruct (p c); [reflexivity|]. destruct (flat_find p r); reflexivity.
Qed.

Lemma flat_find_lt p s k : flat_find p s = Some k -> k < length s.
Proof.
  revert k; induction s as [|c r IH]; intros k; cbn [flat_find length]; [discriminate|].
  destruct (p c); [intros E; inversion E; lia|].
  destruct (flat_find p r) as [j|]; [|discriminate]. intros E; inversion E. specialize (IH j eq_refl). lia.
Qed.

Lemma flat_find_app p a b :
  flat_find p (a ++ b) = match flat_find p a with
                         | Some k => Some k
                         | None => option_map (Nat.add (length a)) (flat_find p b)
                         end.
Proof.
  induction a as [|c r IH]; cbn [app flat_find length].
  - destruct (flat_find p b); reflexivity.
  - destruct (p c); [reflexivity|]. rewrite IH.
    destruct (flat_find p r); [reflexivity|]. destruct (flat_find p b); reflexivity.
Qed.

Lemma flat_rfind_app p a b :
  flat_rfind p (a ++ b) = match flat_rfind p b with
                          | Some k => Some (length a + k)
                          | None => flat_rfind p a
                          end.
Proof.
  unfold flat_rfind. rewrite rev_app_distr, flat_find_app, app_length, rev_length.
  destruct (flat_find p (rev b)) as [k|] eqn:E.
  - apply flat_find_lt in E. rewrite rev_length in E. f_equal. lia.
  - destruct (flat_find p (rev a)) as [k|] eqn:E2; cbn [option_map]; [|reflexivity].
    apply flat_find_lt in E2. rewrite rev_length in E2. f_equal. lia.
Qed.

Lemma flat_rfind_nil p : flat_rfind p [] = None.
Proof. reflexivity. Qed.

Lemma flat_rfind_one p c : flat_rfind p [c] = if p c then Some 0 else None.
Proof. unfold flat_rfind. cbn. destruct (p c); reflexivity. Qed.

Lemma blk_rfind_flat p l : blk_rfind p l = flat_rfind p l.
Proof.
  induction l as [|c r IH]; [reflexivity|]. cbn [blk_rfind]. rewrite IH.
  change (c :: r) with ([c] ++ r). rewrite flat_rfind_app, flat_rfind_one.
  destruct (flat_rfind p r); reflexivity.
Qed.

(* ---------------------------------------------------------------- forward search over fragments *)
Lemma fwd_go_flat find p (Hf : forall f, find f = flat_find p f) rest : forall pre,
  fwd_go find (pre ++ rest) rest (length pre)
  = option_map (Nat.add (total_len pre)) (flat_find p (concat rest)).
Proof.
  induction rest as [|f r IH]; intros pre; cbn [fwd_go concat]; [reflexivity|].
  rewrite Hf, flat_find_app, lens_before_app.
  destruct (flat_find p f) as [k|]; cbn [option_map]; [f_equal; lia|].
  replace (pre ++ f :: r) with ((pre ++ [f]) ++ r) by (rewrite <- app_assoc; reflexivity).
  replace (S (length pre)) with (length (pre ++ [f])) by (rewrite app_length; cbn; lia).
  rewrite IH, total_len_app. cbn [total_len fold_right].
  destruct (flat_find p (concat r)); cbn [option_map]; [f_equal; lia|reflexivity].
Qed.

Lemma fwd_flat find p (Hf : forall f, find f = flat_find p f) data :
  fwd_go find data data 0 = flat_find p (concat data).
Proof.
  pose proof (fwd_go_flat find p Hf data []) as E. cbn [app length] in E. rewrite E. cbn [total_len fold_right].
  destruct (flat_find p (concat data)); reflexivity.
Qed.

Lemma memchr_flat data b : m_memchr data b = flat_memchr (concat data) b.
Proof.
  unfold m_memchr, flat_memchr. apply fwd_flat. intros f. rewrite blk_find_flat.
  destruct f; reflexivity.
Qed.

Lemma memfcn_flat data p : m_memfcn data p = flat_find p (concat data).
Proof. unfold m_memfcn. apply fwd_flat. intros f. apply blk_find_flat. Qed.

Lemma memstr_flat data set : m_memstr data set = flat_memstr (concat data) set.
Proof.
  unfold m_memstr, flat_memstr. destruct set as [|c set]; [reflexivity|].
  cbn [length Nat.eqb]. apply memfcn_flat.
Qed.

(* ---------------------------------------------------------------- backward search over fragments *)
Lemma firstn_S_nth_error {A} (l : list A) j x : nth_error l j = Some x -> firstn (S j) l = firstn j l ++ [x].
Proof.
  revert j; induction l as [|a l IH]; intros j; destruct j; simpl; try discriminate.
  - intros E; inversion E; reflexivity.
  - intros E. f_equal. apply (IH j E).
Qed.

Lemma bwd_go_flat find p (Hf : forall f, find f = flat_rfind p f) data : forall i, i <= length data ->
  bwd_go find data i = Ok (flat_rfind p (concat (firstn i data))).
Proof.
  induction i as [|j IH]; intros H; cbn [bwd_go]; [reflexivity|].
  destruct (nth_error data j) as [f|] eqn:E.
  - rewrite (firstn_S_nth_error _ _ _ E), concat_app. cbn [concat]. rewrite app_nil_r.
    rewrite flat_rfind_app, Hf. unfold lens_before. rewrite total_len_concat.
    destruct (flat_rfind p f) as [k|]; [f_equal; f_equal; lia|]. apply IH. lia.
  - apply nth_error_None in E. lia.
Qed.

Lemma bwd_flat find p (Hf : forall f, find f = flat_rfind p f) data :
  bwd_go find data (length data) = Ok (flat_rfind p (concat data)).
Proof. rewrite (bwd_go_flat find p Hf) by lia. rewrite firstn_all. reflexivity. Qed.

Lemma memrchr_flat data b : m_memrchr data b = Ok (flat_memrchr (concat data) b).
Proof. apply bwd_flat. intros f. apply blk_rfind_flat. Qed.

Lemma memrfcn_flat data p : m_memrfcn data p = Ok (flat_rfind p (concat data)).
Proof. apply bwd_flat. intros f. apply blk_rfind_flat. Qed.

Lemma memrstr_flat data set : m_memrstr data set = Ok (flat_memrstr (concat data) set).
Proof.
  unfold m_memrstr, flat_memrstr. destruct set as [|c set]; [reflexivity|].
  cbn [length Nat.eqb]. apply memrfcn_flat.
Qed.

(* ---------------------------------------------------------------- message_append *)
Lemma append_fold (cont : list frag) : forall a : list byte,
  fold_left (fun a f => if length f =? 0 then a else a ++ f) cont a = a ++ concat cont.
Proof.
  induction cont as [|f r IH]; intros a; cbn [fold_left concat]; [rewrite app_nil_r; reflexivity|].
  rewrite IH. destruct f; cbn [length Nat.eqb]; [reflexivity|]. rewrite <- app_assoc. reflexivity.
Qed.

Lemma append_flat arr m : m_append arr m = flat_append arr (concat (frags m)).
Proof.
  destruct m as [cur cont]. unfold m_append, flat_append, frags. cbn [mcur mcont concat].
  rewrite append_fold. destruct cur; cbn [length Nat.eqb]; [reflexivity|]. rewrite <- app_assoc. reflexivity.
Qed.
