(* C17/MessageArgv.v — mpt_message_argv, mpt_message_get and mpt_array_message. *)
From MptV Require Import Base.Mem Base.Tactics C17.MessageModel C17.MessageSpec C17.MessageProofs
  C17.MessageTok C17.MessageCopy.
Local Open Scope nat_scope.

(* ---------------------------------------------------------------- helpers of message_argv.c *)
Lemma argv_start_flat cont : forall cur,
  match argv_start cur cont with
  | None => cur ++ concat cont = []
  | Some (c, k) => c <> [] /\ c ++ concat k = cur ++ concat cont
  end.
Proof.
  induction cont as [|f r IH]; intros cur.
  - destruct cur; cbn [argv_start]; [reflexivity|]. split; [discriminate|reflexivity].
  - destruct cur as [|c cur]; cbn [argv_start]; [apply IH|]. split; [discriminate|reflexivity].
Qed.

Lemma index_or_len_le c s : index_or_len c s <= length s.
Proof.
  unfold index_or_len. destruct (flat_find (N.eqb c) s) eqn:E; [|lia]. apply flat_find_lt in E. lia.
Qed.

Lemma next_char_flat cur cont c : m_next_char cur cont c = index_or_len c (cur ++ concat cont).
Proof.
  unfold m_next_char, index_or_len. rewrite memchr_flat. unfold flat_memchr. cbn [concat].
  rewrite app_nil_r, flat_find_app.
  destruct (flat_find (N.eqb c) cur) as [k|]; [reflexivity|].
  rewrite app_length, total_len_concat.
  destruct cont as [|f r].
  - reflexivity.
  - cbn [length Nat.eqb]. rewrite memchr_flat. unfold flat_memchr.
    destruct (flat_find (N.eqb c) (concat (f :: r))); reflexivity.
Qed.

Lemma argv_seek_flat cont : forall p, p < total_len cont ->
  exists part f r, argv_seek p cont = Ok (part, f, r) /\ skipn part f ++ concat r = skipn p (concat cont).
Proof.
  induction cont as [|f r IH]; intros p H; cbn [total_len fold_right] in H; [lia|].
  fold (total_len r) in H. cbn [argv_seek concat].
  destruct (Nat.ltb_spec (length f) p) as [Hl|Hl].
  - destruct (IH (p - length f)) as (part & g & r' & E & C); [lia|].
    exists part, g, r'. split; [exact E|]. rewrite C, skipn_app, (skipn_all2 f) by lia. reflexivity.
  - exists p, f, r. split; [reflexivity|]. symmetry. apply skipn_app_le. lia.
Qed.

(* leading white space *)
Lemma drop_space_find s :
  match flat_find not_space s with
  | Some p => drop_space s = skipn p s /\ skipn p s <> []
  | None => drop_space s = []
  end.
Proof.
  induction s as [|c r IH]; [reflexivity|]. cbn [flat_find drop_space]. unfold not_space at 1.
  destruct (is_space c); cbn [negb].
  - destruct (flat_find not_space r); exact IH.
  - split; [reflexivity|discriminate].
Qed.

Definition trimmed (s : list byte) : list byte := match drop_space s with [] => s | t => t end.

Lemma trimmed_find s :
  trimmed s = match flat_find not_space s with Some p => skipn p s | None => s end.
Proof.
  unfold trimmed. pose proof (drop_space_find s) as H.
  destruct (flat_find not_space s) as [p|].
  - destruct H as [H1 H2]. rewrite H1. destruct (skipn p s); [contradiction|reflexivity].
  - rewrite H. reflexivity.
Qed.

(* the whitespace trim of message_argv: the parts left denote the trimmed string *)
Lemma argv_trim_flat cur cont :
  exists cur' cont',
    (match m_memfcn [cur] not_space with
     | Some p => Ok (skipn p cur, cont)
     | None =>
       match m_memfcn cont not_space with
       | Some p => do '(part, f, r) <- argv_seek p cont; Ok (skipn part f, r)
       | None => Ok (cur, cont)
       end
     end) = Ok (cur', cont')
    /\ cur' ++ concat cont' = trimmed (cur ++ concat cont).
Proof.
  rewrite trimmed_find, !memfcn_flat. cbn [concat]. rewrite app_nil_r, flat_find_app.
  destruct (flat_find not_space cur) as [p|] eqn:E1.
  - exists (skipn p cur), cont. split; [reflexivity|]. apply flat_find_lt in E1.
    symmetry. apply skipn_app_le. lia.
  - destruct (flat_find not_space (concat cont)) as [p|] eqn:E2; cbn [option_map].
    + apply flat_find_lt in E2. rewrite <- total_len_concat in E2.
      destruct (argv_seek_flat cont p E2) as (part & f & r & Es & C). rewrite Es. cbn [bind].
      exists (skipn part f), r. split; [reflexivity|].
      rewrite C, skipn_app, (skipn_all2 cur) by lia.
      cbn [app]. f_equal. lia.
    + exists cur, cont. split; reflexivity.
Qed.

(* next argument of any fragmentation = next argument of the flat string;
   the cursor left behind denotes the flat text left *)
Lemma argv_flat m sep :
  exists m', m_argv m sep = Ok (fst (flat_argv (concat (frags m)) sep), m')
             /\ concat (frags m') = snd (flat_argv (concat (frags m)) sep).
Proof.
  destruct m as [cur0 cont0]. unfold m_argv, frags. cbn [mcur mcont concat].
  pose proof (argv_start_flat cont0 cur0) as Hs.
  destruct (argv_start cur0 cont0) as [[cur cont]|].
  2:{ rewrite Hs. exists (mkmsg [] []). split; reflexivity. }
  destruct Hs as [Hne Hs]. rewrite <- Hs. clear Hs cur0 cont0.
  unfold flat_argv.
  destruct (cur ++ concat cont) as [|x xs] eqn:Ex; [destruct cur; [contradiction|discriminate]|].
  rewrite <- Ex. clear x xs Ex.
  destruct (N.eqb_spec sep 0) as [E0|E0].
  { exists (mkmsg cur cont). split; [|reflexivity]. rewrite next_char_flat. reflexivity. }
  destruct (argv_trim_flat cur cont) as (cur' & cont' & Et & Ct). rewrite Et. cbn [bind].
  fold (trimmed (cur ++ concat cont)). rewrite <- Ct.
  exists (mkmsg cur' cont'). unfold frags. cbn [mcur mcont concat].
  destruct (is_graph sep); cbn [negb].
  - rewrite next_char_flat. split; reflexivity.
  - rewrite next_space_flat. unfold ws_tok, q_esc.
    destruct (flat_memtok (cur' ++ concat cont') (Some [9; 32; 10; 13; 11]%N) [] [39; 34]%N);
      [split; reflexivity|]. rewrite next_char_flat. split; reflexivity.
Qed.

(* facts about the flat argument split used for the argument array *)
Lemma trimmed_facts s : s <> [] -> trimmed s <> [] /\ length (trimmed s) <= length s.
Proof.
  intros H. rewrite trimmed_find. pose proof (drop_space_find s) as D.
  destruct (flat_find not_space s) as [p|].
  - destruct D as [_ D]. split; [exact D|]. rewrite skipn_length. lia.
  - split; [exact H|lia].
Qed.

Lemma flat_argv_facts s sep len t : flat_argv s sep = (Ok len, t) ->
  t <> [] /\ length t <= length s /\ len <= length t.
Proof.
  unfold flat_argv. destruct s as [|x xs]; [discriminate|].
  set (s := x :: xs). assert (Hs : s <> []) by discriminate.
  destruct (sep =? 0)%N.
  { intros E; inversion E; subst. split; [exact Hs|]. split; [lia|apply index_or_len_le]. }
  fold (trimmed s). destruct (trimmed_facts s Hs) as [T1 T2].
  destruct (is_graph sep).
  { intros E; inversion E; subst. split; [exact T1|]. split; [exact T2|apply index_or_len_le]. }
  destruct (flat_memtok (trimmed s) _ _ _) as [p|] eqn:Em; intros E; inversion E; subst.
  - apply flat_memtok_lt in Em. split; [exact T1|]. split; [exact T2|lia].
  - split; [exact T1|]. split; [exact T2|apply index_or_len_le].
Qed.

(* ---------------------------------------------------------------- array_message *)
Lemma amsg_go_flat fuel : forall m sep arr n,
  length (concat (frags m)) < fuel ->
  amsg_go fuel m sep arr n = Some (Ok (flat_args fuel (concat (frags m)) sep arr n)).
Proof.
  induction fuel as [|fu IH]; intros m sep arr n Hf; [lia|].
  cbn [amsg_go flat_args].
  destruct (argv_flat m sep) as (m1 & Ea & Ca). rewrite Ea.
  destruct (flat_argv (concat (frags m)) sep) as [r t] eqn:Ef. cbn [fst snd] in *.
  destruct r as [len|e|]; [|reflexivity|].
  2:{ (* the flat argv never faults *)
      exfalso. unfold flat_argv in Ef. destruct (concat (frags m)); [discriminate|].
      destruct (sep =? 0)%N; [discriminate|]. destruct (is_graph sep); [discriminate|].
      destruct (flat_memtok _ _ _ _); discriminate. }
  destruct (flat_argv_facts _ _ _ _ Ef) as (Tne & Tle & Lle).
  destruct ((len =? 0) && negb (sep =? 0)%N); [reflexivity|].
  assert (Hr : exists m2, (if len =? 0 then Ok (0, [], m1) else m_read m1 len) = Ok (len, firstn len t, m2)
                          /\ concat (frags m2) = skipn len t).
  { destruct (Nat.eqb_spec len 0) as [El|El].
    - subst len. exists m1. split; [reflexivity|exact Ca].
    - destruct (read_flat m1 len) as (m2 & Er & Cr & _). rewrite Ca in Er, Cr. unfold flat_read in Er, Cr.
      cbn [fst snd] in Er, Cr. rewrite Nat.min_l in Er by lia. exists m2. split; assumption. }
  destruct Hr as (m2 & Er & Cr). rewrite Er.
  destruct (read_flat m2 1) as (m3 & Er3 & Cr3 & _). rewrite Cr in Er3, Cr3. unfold flat_read in Er3, Cr3.
  cbn [fst snd] in Er3, Cr3. rewrite Er3.
  rewrite Nat.sub_diag. cbn [repeat app].
  rewrite IH.
  - rewrite Cr3. replace (skipn 1 (skipn len t)) with (skipn (S len) t)
      by (rewrite <- (skipn_add len 1 t); f_equal; lia). reflexivity.
  - rewrite Cr3, !skipn_length. destruct t; [contradiction|]. cbn [length] in *. lia.
Qed.

Lemma array_message_flat m sep :
  m_array_message m sep = Some (Ok (flat_array_message (concat (frags m)) sep)).
Proof.
  unfold m_array_message, flat_array_message. rewrite length_flat.
  destruct (Nat.eqb_spec (length (concat (frags m))) 0) as [E|E].
  - destruct (concat (frags m)); [reflexivity|discriminate].
  - apply amsg_go_flat. lia.
Qed.

(* ---------------------------------------------------------------- message_get *)
Definition rinv (q : ring) : Prop :=
  length (rbuf q) = rmax q /\ rlen q <= rmax q /\ roff q <= rmax q /\ 0 < rmax q.

Lemma length_ring_contents q : length (ring_contents q) = rlen q.
Proof. unfold ring_contents. rewrite map_length, seq_length. reflexivity. Qed.

Lemma nth_ring_contents q i : i < rlen q ->
  nth i (ring_contents q) 0%N = nth ((roff q + i) mod rmax q) (rbuf q) 0%N.
Proof.
  intros H. unfold ring_contents.
  set (f := fun i => nth ((roff q + i) mod rmax q) (rbuf q) 0%N).
  rewrite (nth_indep (map f (seq 0 (rlen q))) 0%N (f 0)) by (rewrite map_length, seq_length; exact H).
  rewrite (map_nth f), seq_nth by exact H. reflexivity.
Qed.

(* the window [o, o+n) of the held bytes that does not cross the wrap, at storage index b *)
Lemma ring_window q o n b : rinv q -> o + n <= rlen q -> b + n <= rmax q ->
  (forall i, i < n -> (roff q + (o + i)) mod rmax q = b + i) ->
  slice b n (rbuf q) = firstn n (skipn o (ring_contents q)).
Proof.
  intros (Hl & Hle & Ho & Hm) Hon Hb Hidx.
  apply (nth_ext' _ _ 0%N).
  - rewrite length_slice by lia. rewrite firstn_length, skipn_length, length_ring_contents. lia.
  - rewrite length_slice by lia. intros i Hi.
    rewrite nth_slice, nth_firstn', nth_skipn', nth_ring_contents by lia.
    rewrite Hidx by lia. reflexivity.
Qed.

Lemma mod_wrap a m : 0 < m -> m <= a < 2 * m -> a mod m = a - m.
Proof.
  intros Hm H. replace a with ((a - m) + 1 * m) at 1 by lia.
  rewrite Nat.mod_add by lia. apply Nat.mod_small. lia.
Qed.

Lemma firstn_skipn_split {A} (l : list A) o a b :
  firstn (a + b) (skipn o l) = firstn a (skipn o l) ++ firstn b (skipn (o + a) l).
Proof. rewrite firstn_add, <- skipn_add. reflexivity. Qed.

(* the one or two parts handed out denote the requested window of the held bytes *)
Lemma get_flat q off take vec : rinv q ->
  match flat_get (ring_contents q) off take with
  | Ok w => (exists k m, m_get q off take vec = Ok (k, m) /\ concat (frags m) = w)
            \/ (vec = false /\ m_get q off take vec = Err EInval)
  | Err e => m_get q off take vec = Err e
  | Fault => False
  end.
Proof.
  intros Hinv. pose proof Hinv as (Hl & Hle & Ho & Hm).
  unfold flat_get, m_get, ring_data. rewrite length_ring_contents.
  set (start := rmax q - roff q).
  destruct (Nat.ltb_spec start (rlen q)) as [Hw|Hw].
  - (* data wraps: low = start *)
    destruct (Nat.ltb_spec (rlen q) off) as [H1|H1].
    { destruct (Nat.ltb_spec off start); [lia|]. cbn [bind].
      destruct (Nat.ltb_spec (rlen q - start) (off - start)); [reflexivity|lia]. }
    destruct (Nat.ltb_spec off start) as [H2|H2]; cbn [bind].
    + replace (start - off + (rlen q - start)) with (rlen q - off) by lia.
      destruct (Nat.ltb_spec (rlen q - off) take) as [H3|H3]; [reflexivity|].
      destruct (Nat.leb_spec take (start - off)) as [H4|H4].
      * left. rewrite rd_ok by (unfold start in *; lia). cbn [bind].
        eexists _, _. split; [reflexivity|]. cbn [frags mcur mcont concat]. rewrite app_nil_r.
        apply ring_window; [exact Hinv|lia|unfold start in *; lia|].
        intros i Hi. rewrite Nat.mod_small by (unfold start in *; lia). lia.
      * destruct vec; cbn [negb]; [|right; split; reflexivity].
        left. rewrite !rd_ok by (unfold start in *; lia). cbn [bind].
        eexists _, _. split; [reflexivity|]. cbn [frags mcur mcont concat]. rewrite app_nil_r.
        replace (firstn take (skipn off (ring_contents q)))
          with (firstn ((start - off) + (take - (start - off))) (skipn off (ring_contents q))) by (f_equal; lia).
        rewrite firstn_skipn_split. f_equal.
        -- apply ring_window; [exact Hinv|lia|unfold start in *; lia|].
           intros i Hi. rewrite Nat.mod_small by (unfold start in *; lia). lia.
        -- apply ring_window; [exact Hinv|lia|unfold start in *; lia|].
           intros i Hi. rewrite mod_wrap by (unfold start in *; lia). unfold start in *. lia.
    + destruct (Nat.ltb_spec (rlen q - start) (off - start)) as [H3|H3]; [lia|]. cbn [bind].
      replace (rlen q - start - (off - start) + 0) with (rlen q - off) by lia.
      destruct (Nat.ltb_spec (rlen q - off) take) as [H4|H4]; [reflexivity|].
      destruct (Nat.leb_spec take (rlen q - start - (off - start))) as [H5|H5]; [|lia].
      left. rewrite rd_ok by (unfold start in *; lia). cbn [bind].
      eexists _, _. split; [reflexivity|]. cbn [frags mcur mcont concat]. rewrite app_nil_r.
      apply ring_window; [exact Hinv|lia|unfold start in *; lia|].
      intros i Hi. rewrite mod_wrap by (unfold start in *; lia). unfold start in *. lia.
  - (* data in one piece: low = len *)
    replace (rlen q - rlen q) with 0 by lia.
    destruct (Nat.ltb_spec (rlen q) off) as [H1|H1].
    { destruct (Nat.ltb_spec off (rlen q)); [lia|]. cbn [bind].
      destruct (Nat.ltb_spec 0 (off - rlen q)); [reflexivity|lia]. }
    destruct (Nat.ltb_spec off (rlen q)) as [H2|H2]; cbn [bind].
    + replace (rlen q - off + 0) with (rlen q - off) by lia.
      destruct (Nat.ltb_spec (rlen q - off) take) as [H3|H3]; [reflexivity|].
      destruct (Nat.leb_spec take (rlen q - off)) as [H4|H4]; [|lia].
      left. rewrite rd_ok by (unfold start in *; lia). cbn [bind].
      eexists _, _. split; [reflexivity|]. cbn [frags mcur mcont concat]. rewrite app_nil_r.
      apply ring_window; [exact Hinv|lia|unfold start in *; lia|].
      intros i Hi. rewrite Nat.mod_small by (unfold start in *; lia). lia.
    + replace (off - rlen q) with 0 by lia. replace (rlen q - off) with 0 by lia.
      cbn [Nat.ltb Nat.leb Nat.sub Nat.add bind].
      destruct take as [|tk]; [|reflexivity]. cbn [Nat.leb].
      left. rewrite rd_ok by lia. cbn [bind].
      eexists _, _. split; reflexivity.
Qed.
