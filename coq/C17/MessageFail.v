(* C17/MessageFail.v — the branches of the message functions that are taken only when
   something is refused or not representable:
   - mpt_message_append / mpt_array_message with an array that refuses (typed buffer,
     allocation failure): all of the flat text or nothing;
   - the reservation made by mpt_array_message always suffices (its refusal branches
     inside the loop are dead without an injected failure);
   - mpt_memtok never leaves its loop inside a quoted region (its "escaped sequence
     unfinished" exit after the loop is dead);
   - absolute positions beyond SSIZE_MAX (EOVERFLOW) of the backward searches. *)
From MptV Require Import Base.Mem Base.Tactics C17.MessageModel C17.MessageSpec C17.MessageProofs
  C17.MessageTok C17.MessageCopy C17.MessageArgv.
Local Open Scope nat_scope.

(* ---------------------------------------------------------------- message_append with a refusing array *)
(* number of mpt_array_append calls the fragmentation needs *)
Definition count_ne (fs : list frag) : nat := length (filter (fun f => negb (length f =? 0)) fs).
Definition lim_ge (lim : option nat) (n : nat) : bool :=
  match lim with None => true | Some k => n <=? k end.

Lemma mapp_spec fs : forall a lim olen, olen <= length a ->
  mapp olen a lim fs
  = if lim_ge lim (count_ne fs) then (true, a ++ concat fs) else (false, firstn olen a).
Proof.
  induction fs as [|f r IH]; intros a lim olen Ho; cbn [mapp concat].
  - unfold count_ne. cbn [filter length]. rewrite app_nil_r. destruct lim; reflexivity.
  - destruct f as [|c f]; cbn [length Nat.eqb].
    + unfold count_ne in *. cbn [filter length Nat.eqb negb app]. apply IH. exact Ho.
    + unfold count_ne in *. cbn [filter length Nat.eqb negb].
      destruct lim as [[|j]|]; cbn [lim_take lim_ge Nat.leb].
      * reflexivity.
      * rewrite IH by (rewrite app_length; lia). cbn [lim_ge].
        rewrite <- app_assoc. rewrite firstn_app_le by exact Ho. reflexivity.
      * rewrite IH by (rewrite app_length; lia). cbn [lim_ge]. rewrite <- app_assoc. reflexivity.
Qed.

Lemma count_ne_concat fs : count_ne fs = 0 <-> concat fs = [].
Proof.
  unfold count_ne. induction fs as [|f r IH]; cbn [filter concat]; [tauto|].
  destruct f as [|c f]; cbn [length Nat.eqb negb app]; [exact IH|].
  split; discriminate.
Qed.

(* the whole text or nothing; which of the two depends only on how many appends the
   array still grants *)
Lemma append_lim_flat arr lim m :
  m_append_lim arr lim m
  = if lim_ge lim (count_ne (frags m)) then (true, flat_append arr (concat (frags m))) else (false, arr).
Proof.
  unfold m_append_lim. rewrite mapp_spec by lia. rewrite firstn_all. reflexivity.
Qed.

Lemma append_lim_none arr m : m_append_lim arr None m = (true, m_append arr m).
Proof. rewrite append_lim_flat, append_flat. reflexivity. Qed.

(* the step-level form used by the history theorem: the output is the flat one, the
   refusal being read off the output only where both outcomes are allowed *)
Definition appl_out (r : bool * list byte) : out :=
  match r with (true, a) => OArr 0 a | (false, a) => OArrE MissingBuffer a end.

Lemma appl_step_flat pre lim m :
  appl_out (m_append_lim pre lim m)
  = flat_append_lim pre (concat (frags m)) lim
      (match appl_out (m_append_lim pre lim m) with OArrE _ _ => true | _ => false end).
Proof.
  rewrite append_lim_flat. unfold flat_append_lim.
  destruct (concat (frags m)) as [|b s] eqn:Es.
  - apply count_ne_concat in Es. rewrite Es. destruct lim; reflexivity.
  - assert (Hc : count_ne (frags m) <> 0) by (intros H; apply count_ne_concat in H; congruence).
    destruct lim as [[|k]|]; cbn [lim_ge].
    + destruct (count_ne (frags m)); [contradiction|reflexivity].
    + destruct (count_ne (frags m) <=? S k); reflexivity.
    + reflexivity.
Qed.

(* ---------------------------------------------------------------- array_message with a refusing array *)
Lemma amsgl_go_flat fuel : forall m sep arr n lim,
  length (concat (frags m)) < fuel ->
  amsgl_go fuel m sep arr n lim = Some (flat_args_lim fuel (concat (frags m)) sep arr n lim).
Proof.
  induction fuel as [|fu IH]; intros m sep arr n lim Hf; [lia|].
  cbn [amsgl_go flat_args_lim].
  destruct (argv_flat m sep) as (m1 & Ea & Ca). rewrite Ea.
  destruct (flat_argv (concat (frags m)) sep) as [r t] eqn:Ef. cbn [fst snd] in *.
  destruct r as [len|e|]; [|reflexivity|].
  2:{ exfalso. unfold flat_argv in Ef. destruct (concat (frags m)); [discriminate|].
      destruct (sep =? 0)%N; [discriminate|]. destruct (is_graph sep); [discriminate|].
      destruct (flat_memtok _ _ _ _); discriminate. }
  destruct (flat_argv_facts _ _ _ _ Ef) as (Tne & Tle & Lle).
  destruct ((len =? 0) && negb (sep =? 0)%N); [reflexivity|].
  destruct (if len =? 0 then Some lim else lim_take lim) as [l1|]; [|reflexivity].
  assert (Hr : exists m2, (if len =? 0 then Ok (0, [], m1) else m_read m1 len) = Ok (len, firstn len t, m2)
                          /\ concat (frags m2) = skipn len t).
  { destruct (Nat.eqb_spec len 0) as [El|El].
    - subst len. exists m1. split; [reflexivity|exact Ca].
    - destruct (read_flat m1 len) as (m2 & Er & Cr & _). rewrite Ca in Er, Cr. unfold flat_read in Er, Cr.
      cbn [fst snd] in Er, Cr. rewrite Nat.min_l in Er by lia. exists m2. split; assumption. }
  destruct Hr as (m2 & Er & Cr). rewrite Er.
  destruct (lim_take l1) as [l2|]; [|reflexivity].
  destruct (read_flat m2 1) as (m3 & Er3 & Cr3 & _). rewrite Cr in Er3, Cr3. unfold flat_read in Er3, Cr3.
  cbn [fst snd] in Er3, Cr3. rewrite Er3.
  rewrite Nat.sub_diag. cbn [repeat app].
  rewrite IH.
  - rewrite Cr3. replace (skipn 1 (skipn len t)) with (skipn (S len) t)
      by (rewrite <- (skipn_add len 1 t); f_equal; lia). reflexivity.
  - rewrite Cr3, !skipn_length. destruct t; [contradiction|]. cbn [length] in *. lia.
Qed.

Lemma array_message_lim_flat m sep lim pre :
  amsgl_out (m_array_message_lim m sep lim pre)
  = flat_array_message_lim (concat (frags m)) sep lim pre.
Proof.
  unfold m_array_message_lim, flat_array_message_lim. rewrite length_flat.
  pose proof (amsgl_go_flat (S (length (concat (frags m)))) m sep [] 0) as G.
  destruct (concat (frags m)) as [|b s]; [reflexivity|].
  cbn [length Nat.eqb]. destruct (lim_take lim) as [l1|]; [|reflexivity].
  rewrite G by (cbn [length]; lia).
  destruct (flat_args_lim _ _ _ _ _ _) as [[n a]|e|]; reflexivity.
Qed.

(* an array that never refuses: the unlimited functions *)
Lemma flat_args_lim_none fuel : forall s sep arr n,
  flat_args_lim fuel s sep arr n None = Ok (flat_args fuel s sep arr n).
Proof.
  induction fuel as [|fu IH]; intros s sep arr n; [reflexivity|].
  cbn [flat_args_lim flat_args]. destruct (flat_argv s sep) as [[len|e|] t]; try reflexivity.
  destruct ((len =? 0) && negb (sep =? 0)%N); [reflexivity|].
  destruct (len =? 0); cbn [lim_take]; apply IH.
Qed.

Lemma array_message_lim_none s sep pre :
  flat_array_message_lim s sep None pre = OArr (fst (flat_array_message s sep)) (snd (flat_array_message s sep)).
Proof.
  unfold flat_array_message_lim, flat_array_message. destruct s as [|b s]; [reflexivity|].
  cbn [lim_take]. rewrite flat_args_lim_none. destruct (flat_args _ _ _ _ _). reflexivity.
Qed.

(* the reservation `mpt_array_slice(&a, 0, len+1)` suffices: the arguments with their
   NULs never need more than the message length + 1 *)
Lemma flat_args_len fuel : forall s sep arr n,
  length (snd (flat_args fuel s sep arr n))
  <= length arr + match s with [] => 0 | _ => length s + 1 end.
Proof.
  induction fuel as [|fu IH]; intros s sep arr n; cbn [flat_args]; [cbn [snd]; lia|].
  destruct (flat_argv s sep) as [r t] eqn:Ef.
  destruct r as [len|e|]; [|cbn [snd]; lia|cbn [snd]; lia].
  destruct (flat_argv_facts _ _ _ _ Ef) as (Tne & Tle & Lle).
  destruct ((len =? 0) && negb (sep =? 0)%N); [cbn [snd]; lia|].
  eapply Nat.le_trans; [apply IH|].
  rewrite !app_length, firstn_length. cbn [length].
  assert (Hs : s <> []) by (intros E; subst s; destruct t; [contradiction|cbn [length] in Tle; lia]).
  destruct s as [|b s']; [contradiction|].
  pose proof (skipn_length (S len) t) as Hk.
  destruct (skipn (S len) t) as [|y ys]; cbn [length] in *; lia.
Qed.

Lemma array_message_fits s sep : length (snd (flat_array_message s sep)) <= length s + 1.
Proof.
  unfold flat_array_message. pose proof (flat_args_len (S (length s)) s sep [] 0) as H.
  cbn [length] in H. destruct s; cbn [length] in *; lia.
Qed.

(* ---------------------------------------------------------------- memtok: the loop is never left inside quotes *)
Lemma tok_step_found_unquoted tok com esc s c :
  tok_step tok com esc s c = TkFound -> tk_match s = 0%N.
Proof.
  unfold tok_step. destruct (tk_skip s).
  { destruct (c =? 10)%N; discriminate. }
  destruct (N.eqb_spec (tk_match s) 0) as [E|E]; [intros _; exact E|]. cbn [negb]. discriminate.
Qed.

(* ---------------------------------------------------------------- positions beyond SSIZE_MAX *)
Local Open Scope N_scope.
Fixpoint sumN (l : list N) : N := match l with [] => 0 | x :: r => x + sumN r end.

(* with every part length (and the start) at most SSIZE_MAX the size_t sum never wraps
   before the comparison sees it: the loop reports EOVERFLOW exactly when the true sum
   is not representable *)
Lemma pos_acc_spec lens : forall pos, pos <= ssize_max -> Forall (fun l => l <= ssize_max) lens ->
  pos_acc pos lens = if pos + sumN lens <=? ssize_max then Some (pos + sumN lens) else None.
Proof.
  induction lens as [|l r IH]; intros pos Hp Hl; cbn [pos_acc sumN].
  - rewrite N.add_0_r. destruct (N.leb_spec pos ssize_max); [reflexivity|lia].
  - inversion Hl as [|? ? H1 H2]; subst.
    assert (Hs : pos + l < size_mod) by (unfold size_mod, ssize_max in *; lia).
    rewrite N.mod_small by exact Hs.
    destruct (N.ltb_spec ssize_max (pos + l)) as [Hb|Hb].
    + destruct (N.leb_spec (pos + (l + sumN r)) ssize_max); [lia|reflexivity].
    + rewrite IH by assumption. rewrite N.add_assoc. reflexivity.
Qed.

Lemma sumN_app a b : sumN (a ++ b) = sumN a + sumN b.
Proof. induction a as [|x a IH]; cbn [app sumN]; [reflexivity|]. rewrite IH. lia. Qed.

Lemma sumN_rev l : sumN (rev l) = sumN l.
Proof. induction l as [|x l IH]; cbn [rev sumN]; [reflexivity|]. rewrite sumN_app, IH. cbn [sumN]. lia. Qed.

Lemma sumN_lensN d : sumN (lensN d) = N.of_nat (total_len d).
Proof.
  induction d as [|f d IH]; [reflexivity|]. cbn [lensN map sumN total_len fold_right].
  fold (lensN d). fold (total_len d). rewrite IH. lia.
Qed.

Lemma lensN_bounded d : Forall (fun l => l <= N.of_nat (total_len d)) (lensN d).
Proof.
  induction d as [|f d IH]; [constructor|]. cbn [lensN map total_len fold_right].
  fold (lensN d). fold (total_len d). constructor; [lia|].
  eapply Forall_impl; [|exact IH]. cbn beta. intros a Ha. lia.
Qed.
Local Close Scope N_scope.

Lemma total_len_firstn j d : total_len (firstn j d) <= total_len d.
Proof. rewrite <- (firstn_skipn j d) at 2. rewrite total_len_app. lia. Qed.

Lemma nth_error_len_le (d : list frag) j f : nth_error d j = Some f -> length f <= total_len d.
Proof.
  revert j; induction d as [|g d IH]; intros j; destruct j; cbn [nth_error]; try discriminate.
  - intros E; inversion E; subst. cbn [total_len fold_right]. lia.
  - intros E. apply IH in E. cbn [total_len fold_right]. fold (total_len d). lia.
Qed.

Lemma flat_rfind_lt p s k : flat_rfind p s = Some k -> k < length s.
Proof.
  unfold flat_rfind. destruct (flat_find p (rev s)) as [j|] eqn:E; [|discriminate].
  apply flat_find_lt in E. rewrite rev_length in E. intros H; inversion H. lia.
Qed.

Lemma bwd_idx_flat (find : frag -> option nat) p (Hf : forall f, find f = flat_rfind p f) (data : list frag) : forall i, i <= length data ->
  match bwd_idx find data i with
  | Ok None => flat_rfind p (concat (firstn i data)) = None
  | Ok (Some (j, k)) =>
    flat_rfind p (concat (firstn i data)) = Some (total_len (firstn j data) + k)
    /\ exists f, nth_error data j = Some f /\ k < length f
  | _ => False
  end.
Proof.
  induction i as [|j IH]; intros H; cbn [bwd_idx]; [reflexivity|].
  destruct (nth_error data j) as [f|] eqn:E.
  - rewrite (firstn_S_nth_error _ _ _ E), concat_app. cbn [concat]. rewrite app_nil_r.
    rewrite flat_rfind_app, Hf.
    destruct (flat_rfind p f) as [k|] eqn:Ek.
    + split; [rewrite total_len_concat; reflexivity|]. exists f. split; [exact E|].
      apply flat_rfind_lt in Ek. exact Ek.
    + apply IH. lia.
  - apply nth_error_None in E. lia.
Qed.

Lemma rbig_core big (data : list frag) (find : frag -> option nat) p (up : bool) (Hf : forall f, find f = flat_rfind p f) :
  (big <= ssize_max)%N -> (N.of_nat (length (concat data)) <= ssize_max)%N ->
  match bwd_idx find data (length data) with
  | Fault | Err _ => RFault
  | Ok None => RSkip
  | Ok (Some (j, off)) =>
    let pre := big :: lensN (firstn j data) in
    match pos_acc (N.of_nat off) (if up then pre else rev pre) with
    | None => ROverflow
    | Some q => RAt q
    end
  end
  = match flat_rfind p (concat data) with
    | None => RSkip
    | Some q => if (big + N.of_nat q <=? ssize_max)%N then RAt (big + N.of_nat q) else ROverflow
    end.
Proof.
  intros Hb Hl. pose proof (bwd_idx_flat find p Hf data (length data) (le_n _)) as B.
  rewrite firstn_all in B. rewrite <- total_len_concat in Hl.
  destruct (bwd_idx find data (length data)) as [[[j off]|]|e|]; try contradiction.
  2:{ rewrite B. reflexivity. }
  destruct B as (E & f & Hn & Hk). rewrite E. cbn zeta.
  pose proof (nth_error_len_le _ _ _ Hn) as Hfl. pose proof (total_len_firstn j data) as Hj.
  set (pre := big :: lensN (firstn j data)).
  assert (Hsum : sumN pre = (big + N.of_nat (total_len (firstn j data)))%N).
  { unfold pre. cbn [sumN]. rewrite sumN_lensN. reflexivity. }
  assert (Hall : Forall (fun l => (l <= ssize_max)%N) pre).
  { unfold pre. constructor; [exact Hb|].
    eapply Forall_impl; [|apply lensN_bounded]. cbn beta. intros a Ha. lia. }
  assert (Hacc : pos_acc (N.of_nat off) (if up then pre else rev pre)
                 = if (N.of_nat off + sumN pre <=? ssize_max)%N then Some (N.of_nat off + sumN pre)%N else None).
  { destruct up.
    - apply pos_acc_spec; [lia|exact Hall].
    - rewrite pos_acc_spec; [rewrite sumN_rev; reflexivity|lia|apply Forall_rev; exact Hall]. }
  rewrite Hacc, Hsum.
  replace (N.of_nat off + (big + N.of_nat (total_len (firstn j data))))%N
    with (big + N.of_nat (total_len (firstn j data) + off))%N by lia.
  destruct (big + N.of_nat (total_len (firstn j data) + off) <=? ssize_max)%N; reflexivity.
Qed.

(* mpt_memrchr / mpt_memrfcn / mpt_memrstr over  <big bytes never looked at> ++ message *)
Lemma rbig_flat big data k :
  (big <= ssize_max)%N -> (N.of_nat (length (concat data)) <= ssize_max)%N ->
  m_rbig big data k = flat_rbig big (concat data) k.
Proof.
  intros Hb Hl. unfold m_rbig, flat_rbig.
  destruct k as [b|n|[|c set]]; cbn [rkind_pred].
  - apply (rbig_core big data _ (N.eqb b) false (fun f => blk_rfind_flat _ f) Hb Hl).
  - apply (rbig_core big data _ (fcn_of n) true (fun f => blk_rfind_flat _ f) Hb Hl).
  - reflexivity.
  - apply (rbig_core big data _ (fun x => in_set x (c :: set)) true (fun f => blk_rfind_flat _ f) Hb Hl).
Qed.
