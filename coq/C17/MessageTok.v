(* C17/MessageTok.v — mpt_memtok and the nextSpace scan of message_argv.c:
   the state machine carried across fragments = the same scan of the flat string. *)
From MptV Require Import Base.Mem Base.Tactics C17.MessageModel C17.MessageSpec C17.MessageProofs.
Local Open Scope nat_scope.

(* the open quote of the flat scan that corresponds to the C variable `match` *)
Definition qof (m : byte) : option byte := if (m =? 0)%N then None else Some m.

Lemma in_set_cstr_nz c l : in_set c (cstr l) = true -> c <> 0%N.
Proof.
  induction l as [|a l IH]; cbn [cstr in_set existsb]; [discriminate|].
  destruct (N.eqb_spec a 0) as [E|E]; cbn [in_set existsb]; [discriminate|].
  destruct (N.eqb_spec c a) as [E2|E2]; cbn [orb]; [intros _; congruence|]. exact IH.
Qed.

Lemma qof_nz c : c <> 0%N -> qof c = Some c.
Proof. intros H. unfold qof. destruct (N.eqb_spec c 0); [contradiction|reflexivity]. Qed.

Section Tok.
Variables (tok : option (list byte)) (com esc : list byte).
Hypothesis esc_nz : forall c, in_set c esc = true -> c <> 0%N.

(* one fragment: found inside it, or the state to continue with *)
Lemma tok_blk_flat l : forall s k base rest,
  ftok tok com esc (qof (tk_match s)) (tk_skip s) (tk_prev s) (l ++ rest) (base + k)
  = match tok_blk tok com esc s l k with
    | inl p => Some (base + p)
    | inr s' => ftok tok com esc (qof (tk_match s')) (tk_skip s') (tk_prev s') rest (base + k + length l)
    end.
Proof.
  induction l as [|c r IH]; intros s k base rest.
  - cbn [app tok_blk length]. rewrite Nat.add_0_r. reflexivity.
  - cbn [app tok_blk length ftok]. unfold tok_step.
    replace (S (base + k)) with (base + S k) by lia.
    replace (base + k + S (length r)) with (base + S k + length r) by lia.
    destruct s as [mt pv sk]. cbn [tk_match tk_prev tk_skip].
    destruct sk.
    { destruct (N.eqb_spec c 10); rewrite <- IH; reflexivity. }
    unfold qof at 1. destruct (N.eqb_spec mt 0) as [Em|Em]; cbn [negb].
    2:{ rewrite <- IH. cbn [tk_match tk_prev tk_skip].
        destruct ((c =? mt)%N && negb (pv =? 92)%N); [reflexivity|].
        rewrite (qof_nz mt Em). reflexivity. }
    subst mt.
    destruct (in_set c esc) eqn:Ee.
    { rewrite <- IH. cbn [tk_match tk_prev tk_skip]. rewrite (qof_nz c (esc_nz c Ee)). reflexivity. }
    destruct (in_set c com && is_space pv).
    { destruct tok; [reflexivity|]. rewrite <- IH. reflexivity. }
    destruct tok as [t|].
    + destruct (in_set c t); [reflexivity|]. rewrite <- IH. reflexivity.
    + unfold not_space. destruct (is_space c); cbn [negb]; [|reflexivity]. rewrite <- IH. reflexivity.
Qed.

Lemma tok_go_flat rest : forall pre s,
  tok_go tok com esc (pre ++ rest) rest (length pre) s
  = ftok tok com esc (qof (tk_match s)) (tk_skip s) (tk_prev s) (concat rest) (total_len pre).
Proof.
  induction rest as [|f r IH]; intros pre s; cbn [tok_go concat].
  - destruct s as [mt pv sk]; destruct sk; reflexivity.
  - pose proof (tok_blk_flat f s 0 (total_len pre) (concat r)) as E.
    rewrite Nat.add_0_r in E. rewrite E. clear E. rewrite lens_before_app.
    destruct (tok_blk tok com esc s f 0) as [p|s']; [f_equal; lia|].
    replace (pre ++ f :: r) with ((pre ++ [f]) ++ r) by (rewrite <- app_assoc; reflexivity).
    replace (S (length pre)) with (length (pre ++ [f])) by (rewrite app_length; cbn; lia).
    rewrite IH, total_len_app. cbn [total_len fold_right]. rewrite Nat.add_0_r. reflexivity.
Qed.
End Tok.

Lemma ftok_nil tok com esc q ic pv pos : ftok tok com esc q ic pv [] pos = None.
Proof. reflexivity. Qed.

Lemma memtok_flat data tok com esc : m_memtok data tok com esc = flat_memtok (concat data) tok com esc.
Proof.
  unfold m_memtok, flat_memtok.
  pose proof (tok_go_flat (option_map cstr tok) (cstr com) (cstr esc)
                (fun c => in_set_cstr_nz c esc) data [] (mktks 0%N 32%N false)) as E.
  cbn [app length total_len fold_right tk_match tk_skip tk_prev] in E. exact E.
Qed.

(* ---------------------------------------------------------------- nextSpace of message_argv.c *)
Definition ws_tok : option (list byte) := Some [9; 32; 10; 13; 11]%N.
Definition q_esc : list byte := [39; 34]%N.

Lemma quote_nz c : in_set c quote_set = true -> c <> 0%N.
Proof.
  unfold quote_set, in_set. cbn [existsb].
  destruct (N.eqb_spec c 39); [intros _; subst; discriminate|].
  destruct (N.eqb_spec c 34); [intros _; subst; discriminate|]. discriminate.
Qed.

Lemma sp_blk_flat l : forall mt pv k base rest,
  ftok (Some ws_set) [] quote_set (qof mt) false pv (l ++ rest) (base + k)
  = match sp_blk (mt, pv) l k with
    | inl p => Some (base + p)
    | inr (mt', pv') => ftok (Some ws_set) [] quote_set (qof mt') false pv' rest (base + k + length l)
    end.
Proof.
  induction l as [|c r IH]; intros mt pv k base rest.
  - cbn [app sp_blk length]. rewrite Nat.add_0_r. reflexivity.
  - cbn [app sp_blk length ftok sp_step].
    replace (S (base + k)) with (base + S k) by lia.
    replace (base + k + S (length r)) with (base + S k + length r) by lia.
    unfold qof at 1. destruct (N.eqb_spec mt 0) as [Em|Em]; cbn [negb].
    2:{ rewrite <- IH. destruct ((c =? mt)%N && negb (pv =? 92)%N); [reflexivity|].
        rewrite (qof_nz mt Em). reflexivity. }
    subst mt.
    destruct (in_set c quote_set) eqn:Eq.
    { rewrite <- IH. rewrite (qof_nz c (quote_nz c Eq)). reflexivity. }
    cbn [in_set existsb andb].
    change (existsb (N.eqb c) ws_set) with (in_set c ws_set).
    destruct (in_set c ws_set); [reflexivity|]. rewrite <- IH. reflexivity.
Qed.

Lemma sp_go_flat cont : forall mt pv cur pos,
  sp_go (mt, pv) cur cont pos
  = ftok (Some ws_set) [] quote_set (qof mt) false pv (cur ++ concat cont) pos.
Proof.
  induction cont as [|f r IH]; intros mt pv cur pos; cbn [sp_go concat].
  - pose proof (sp_blk_flat cur mt pv 0 pos []) as E. rewrite Nat.add_0_r in E. rewrite E.
    destruct (sp_blk (mt, pv) cur 0) as [p|[mt' pv']]; reflexivity.
  - pose proof (sp_blk_flat cur mt pv 0 pos (f ++ concat r)) as E. rewrite Nat.add_0_r in E. rewrite E.
    destruct (sp_blk (mt, pv) cur 0) as [p|[mt' pv']]; [reflexivity|]. apply IH.
Qed.

Lemma next_space_flat cur cont :
  m_next_space cur cont = flat_memtok (cur ++ concat cont) ws_tok [] q_esc.
Proof. unfold m_next_space. rewrite sp_go_flat. reflexivity. Qed.

(* a found position lies inside the string *)
Lemma ftok_lt tok com esc s : forall q ic pv pos p,
  ftok tok com esc q ic pv s pos = Some p -> pos <= p < pos + length s.
Proof.
  induction s as [|c r IH]; intros q ic pv pos p; cbn [ftok length]; [discriminate|].
  destruct ic.
  { destruct (c =? 10)%N; intros E; apply IH in E; lia. }
  destruct q as [m|]; [intros E; apply IH in E; lia|].
  destruct (in_set c esc); [intros E; apply IH in E; lia|].
  destruct (in_set c com && is_space pv).
  { destruct tok; [intros E; inversion E; lia|intros E; apply IH in E; lia]. }
  destruct (match tok with Some t => in_set c t | None => negb (is_space c) end);
    [intros E; inversion E; lia|intros E; apply IH in E; lia].
Qed.

Lemma flat_memtok_lt s tok com esc p : flat_memtok s tok com esc = Some p -> p < length s.
Proof. unfold flat_memtok. intros E. apply ftok_lt in E. lia. Qed.
