(* C17 — Fragmented messages read like contiguous ones.
   This file holds only the property theorems (each closed by [exact] of a lemma
   proved elsewhere), their non-vacuity examples and Print Assumptions.

   Reading guide.  A fragment ([frag]) is the byte list of one iovec; a message
   ([msg]) is the current fragment [base, base+used) plus the continuation list;
   [frags m] is the message as one fragment list and [concat (frags m)] the single
   contiguous string it denotes.  The [m_*] functions (C17/MessageModel.v)
   transcribe the C functions; the [flat_*] functions (C17/MessageSpec.v) are the
   same operations on ONE byte string.  Every theorem quantifies over ALL fragment
   lists: any number of fragments, any lengths, empty fragments anywhere. *)
From MptV Require Import Base.Mem C17.MessageModel C17.MessageSpec C17.MessageProofs
  C17.MessageTok C17.MessageCopy C17.MessageArgv C17.MessageRefine.

(* mpt_message_read: count and bytes are those of the flat read, the cursor left
   behind denotes the flat suffix [skipn n], and it is normalised (an empty current
   fragment only when nothing follows). *)
Theorem C17_read_flat :
  forall m n, exists m',
    m_read m n = Ok (fst (fst (flat_read (concat (frags m)) n)),
                     snd (fst (flat_read (concat (frags m)) n)), m')
    /\ concat (frags m') = snd (flat_read (concat (frags m)) n)
    /\ (mcur m' = [] -> mcont m' = []).
Proof. exact read_flat. Qed.

(* mpt_message_length *)
Theorem C17_length_flat : forall m, m_length m = length (concat (frags m)).
Proof. exact length_flat. Qed.

(* mpt_memchr / mpt_memrchr: absolute position of the first / last occurrence *)
Theorem C17_memchr_flat : forall data b, m_memchr data b = flat_memchr (concat data) b.
Proof. exact memchr_flat. Qed.
Theorem C17_memrchr_flat : forall data b, m_memrchr data b = Ok (flat_memrchr (concat data) b).
Proof. exact memrchr_flat. Qed.

(* mpt_memfcn / mpt_memrfcn, for every match function *)
Theorem C17_memfcn_flat : forall data p, m_memfcn data p = flat_find p (concat data).
Proof. exact memfcn_flat. Qed.
Theorem C17_memrfcn_flat : forall data p, m_memrfcn data p = Ok (flat_rfind p (concat data)).
Proof. exact memrfcn_flat. Qed.

(* mpt_memstr / mpt_memrstr, for every set of match bytes *)
Theorem C17_memstr_flat : forall data set, m_memstr data set = flat_memstr (concat data) set.
Proof. exact memstr_flat. Qed.
Theorem C17_memrstr_flat : forall data set, m_memrstr data set = Ok (flat_memrstr (concat data) set).
Proof. exact memrstr_flat. Qed.

(* mpt_memtok: token, comment and escape strings arbitrary (tok = None is NULL);
   quote state, escape state and comment skipping survive every fragment boundary *)
Theorem C17_memtok_flat :
  forall data tok com esc, m_memtok data tok com esc = flat_memtok (concat data) tok com esc.
Proof. exact memtok_flat. Qed.

(* mpt_memcpy.  Full statement (FALSE of the code, see C17_memcpy_noparts_refuted):
     forall len src dest, exists o, m_memcpy len src dest = Some (fst (flat_memcpy ..), o) /\ ...
   The code returns 0 whenever a part COUNT is zero, before looking at len; a zero
   count and one empty part denote the same flat string but give 0 resp. -1/-2.
   Guarded statement: both counts non-zero.  Then: same return value (copied size,
   -1 source too short, -2 target too short), the target parts hold the flat
   result, their lengths are unchanged, and the loop fuel suffices (Some). *)
Theorem C17_memcpy_flat_partial :
  forall len src dest, src <> [] -> dest <> [] ->
    exists o, m_memcpy len src dest = Some (fst (flat_memcpy len (concat src) (concat dest)), o)
              /\ concat o = snd (flat_memcpy len (concat src) (concat dest))
              /\ map (@length byte) o = map (@length byte) dest.
Proof. exact memcpy_flat. Qed.

Theorem C17_memcpy_noparts :
  forall len src dest, src = [] \/ dest = [] -> m_memcpy len src dest = Some (0%Z, dest).
Proof. exact memcpy_noparts. Qed.

Theorem C17_memcpy_noparts_refuted :
  exists len src dest o, m_memcpy len src dest = Some o
    /\ fst o <> fst (flat_memcpy len (concat src) (concat dest)).
Proof. exact memcpy_noparts_refuted. Qed.

(* mpt_message_argv, every separator byte: same argument length (or MissingData),
   and the message left behind (leading white space consumed) denotes the flat text left *)
Theorem C17_argv_flat :
  forall m sep, exists m',
    m_argv m sep = Ok (fst (flat_argv (concat (frags m)) sep), m')
    /\ concat (frags m') = snd (flat_argv (concat (frags m)) sep).
Proof. exact argv_flat. Qed.

(* mpt_message_append *)
Theorem C17_append_flat : forall arr m, m_append arr m = flat_append arr (concat (frags m)).
Proof. exact append_flat. Qed.

(* mpt_message_get: for every well formed ring (any capacity, offset, fill; wrapped
   or not) the one or two parts handed out denote exactly the window [off, off+take)
   of the held bytes; refusals are those of the flat window, plus "two parts needed
   but no second vector given". *)
Theorem C17_get_flat :
  forall q off take vec, rinv q ->
    match flat_get (ring_contents q) off take with
    | Ok w => (exists k m, m_get q off take vec = Ok (k, m) /\ concat (frags m) = w)
              \/ (vec = false /\ m_get q off take vec = Err EInval)
    | Err e => m_get q off take vec = Err e
    | Fault => False
    end.
Proof. exact get_flat. Qed.

(* mpt_array_message: argument count and argument bytes; the loop fuel suffices *)
Theorem C17_array_message_flat :
  forall m sep, m_array_message m sep = Some (Ok (flat_array_message (concat (frags m)) sep)).
Proof. exact array_message_flat. Qed.

(* Any history of operations (the cursor of one is the input of the next): outputs
   and the text denoted by the cursor after every step are those of the flat run,
   and no step faults or runs out of fuel. *)
Theorem C17_history_flat :
  forall ops F, Forall op_ok ops -> map proj (mrun F ops) = srun F (abs F) ops.
Proof. exact run_flat. Qed.

Theorem C17_history_no_fault :
  forall ops F, Forall op_ok ops -> Forall (fun r => bad_out (fst r) = false) (mrun F ops).
Proof. exact run_no_fault. Qed.

(* ---- non-vacuity: concrete fragmentations with empty fragments; the statements
   say something about them ---- *)
(* "'a b' c" cut as  '  |  (empty)  |  a␣b  |  '␣c  *)
Example C17_ex_message :
  concat (frags (mkmsg [39]%N [[]; [97; 32; 98]%N; [39; 32; 99]%N])) = [39; 97; 32; 98; 39; 32; 99]%N.
Proof. reflexivity. Qed.

Example C17_ex_read :
  m_read (mkmsg [39]%N [[]; [97; 32; 98]%N; [39; 32; 99]%N]) 3
  = Ok (3, [39; 97; 32]%N, mkmsg [98]%N [[39; 32; 99]%N]).
Proof. vm_compute. reflexivity. Qed.

(* the quoted blank is not an argument end although the quote opens in another fragment *)
Example C17_ex_argv :
  m_argv (mkmsg [39]%N [[]; [97; 32; 98]%N; [39; 32; 99]%N]) 32%N
  = Ok (Ok 5, mkmsg [39]%N [[]; [97; 32; 98]%N; [39; 32; 99]%N]).
Proof. vm_compute. reflexivity. Qed.

Example C17_ex_memtok :
  m_memtok [[39]%N; []; [97; 32; 98]%N; [39; 32; 99]%N] (Some [32]%N) [] [39; 34]%N = Some 5.
Proof. vm_compute. reflexivity. Qed.

(* comment running over two fragment boundaries, newline first byte of a fragment *)
Example C17_ex_memtok_comment :
  m_memtok [[32; 35; 120]%N; []; [10; 65]%N] None [35]%N [] = Some 4.
Proof. vm_compute. reflexivity. Qed.

Example C17_ex_memcpy :
  m_memcpy 4 [[1]%N; []; [2; 3]%N; [4; 5]%N] [[9; 9; 9]%N; []; [9; 9]%N]
  = Some (4%Z, [[1; 2; 3]%N; []; [4; 9]%N]).
Proof. vm_compute. reflexivity. Qed.

Example C17_ex_ring_inv : rinv (mkring [3; 4; 238; 238; 1; 2]%N 4 6 4).
Proof. unfold rinv; cbn; lia. Qed.

Example C17_ex_get :
  m_get (mkring [3; 4; 238; 238; 1; 2]%N 4 6 4) 1 3 true = Ok (1, mkmsg [2]%N [[3; 4]%N]).
Proof. vm_compute. reflexivity. Qed.

Example C17_ex_array_message :
  m_array_message (mkmsg [32; 97]%N [[]; [98; 32]%N; [32; 99]%N]) 32%N
  = Some (Ok (2, [97; 98; 0; 99; 0]%N)).
Proof. vm_compute. reflexivity. Qed.

Example C17_ex_history :
  map fst (mrun [[39]%N; []; [97; 32; 98]%N; [39; 32; 99]%N]
                [OpRead 2 true; OpLen; OpChr false 39%N; OpArgv 32%N; OpRead 9 true; OpLen])
  = [ORead 2 (Some [39; 97]%N); ONat 5; OPos (Some 2); OArgv (Ok 4);
     ORead 4 (Some [98; 39; 32; 99]%N); ONat 0].
Proof. vm_compute. reflexivity. Qed.

Print Assumptions C17_read_flat.
Print Assumptions C17_length_flat.
Print Assumptions C17_memchr_flat.
Print Assumptions C17_memrchr_flat.
Print Assumptions C17_memfcn_flat.
Print Assumptions C17_memrfcn_flat.
Print Assumptions C17_memstr_flat.
Print Assumptions C17_memrstr_flat.
Print Assumptions C17_memtok_flat.
Print Assumptions C17_memcpy_flat_partial.
Print Assumptions C17_memcpy_noparts.
Print Assumptions C17_memcpy_noparts_refuted.
Print Assumptions C17_argv_flat.
Print Assumptions C17_append_flat.
Print Assumptions C17_get_flat.
Print Assumptions C17_array_message_flat.
Print Assumptions C17_history_flat.
Print Assumptions C17_history_no_fault.
