(* C17 — Fragmented messages read like contiguous ones.
   This file holds only the property theorems (each closed by [exact] of a lemma
   proved elsewhere), their non-vacuity examples and Print Assumptions.

   Reading guide.  A fragment ([frag]) is the byte list of one iovec; a message
   ([msg]) is the current fragment [base, base+used) plus the continuation list;
   [frags m] is the message as one fragment list and [concat (frags m)] the single
   contiguous string it denotes.  The [m_*] functions (C17/MessageModel.v)
   transcribe the C functions; the [flat_*] functions (C17/MessageSpec.v) are the
   same operations on ONE byte string.  Every theorem quantifies over ALL fragment
   lists: any number of fragments, any lengths, empty fragments anywhere. *)
From MptV Require Import Base.Mem C17.MessageModel C17.MessageSpec C17.MessageProofs
  C17.MessageTok C17.MessageCopy C17.MessageArgv C17.MessageFail C17.MessageRefine.

(* mpt_message_read: count and bytes are those of the flat read, the cursor left
   behind denotes the flat suffix [skipn n], and it is normalised (an empty current
   fragment only when nothing follows). *)
Theorem C17_read_flat :
  forall m n, exists m',
    m_read m n = Ok (fst (fst (flat_read (concat (frags m)) n)),
                     snd (fst (flat_read (concat (frags m)) n)), m')
    /\ concat (frags m') = snd (flat_read (concat (frags m)) n)
    /\ (mcur m' = [] -> mcont m' = []).
Proof. exact read_flat. Qed.

(* mpt_message_length *)
Theorem C17_length_flat : forall m, m_length m = length (concat (frags m)).
Proof. exact length_flat. Qed.

(* mpt_memchr / mpt_memrchr: absolute position of the first / last occurrence *)
Theorem C17_memchr_flat : forall data b, m_memchr data b = flat_memchr (concat data) b.
Proof. exact memchr_flat. Qed.
Theorem C17_memrchr_flat : forall data b, m_memrchr data b = Ok (flat_memrchr (concat data) b).
Proof. exact memrchr_flat. Qed.

(* mpt_memfcn / mpt_memrfcn, for every match function *)
Theorem C17_memfcn_flat : forall data p, m_memfcn data p = flat_find p (concat data).
Proof. exact memfcn_flat. Qed.
Theorem C17_memrfcn_flat : forall data p, m_memrfcn data p = Ok (flat_rfind p (concat data)).
Proof. exact memrfcn_flat. Qed.

(* mpt_memstr / mpt_memrstr, for every set of match bytes *)
Theorem C17_memstr_flat : forall data set, m_memstr data set = flat_memstr (concat data) set.
Proof. exact memstr_flat. Qed.
Theorem C17_memrstr_flat : forall data set, m_memrstr data set = Ok (flat_memrstr (concat data) set).
Proof. exact memrstr_flat. Qed.

(* mpt_memtok: token, comment and escape strings arbitrary (tok = None is NULL);
   quote state, escape state and comment skipping survive every fragment boundary *)
Theorem C17_memtok_flat :
  forall data tok com esc, m_memtok data tok com esc = flat_memtok (concat data) tok com esc.
Proof. exact memtok_flat. Qed.

(* mpt_memcpy, EVERY pair of fragment lists (a zero part count included): same return
   value (copied size, -1 source too short, -2 target too short), the target parts
   hold the flat result, their lengths are unchanged, and the loop fuel suffices
   (Some).  Holds of the code with docs/C17_memcpy_noparts.diff (size check before the
   "no part" exit); without it a zero part COUNT returned 0 before len was looked at,
   so "no part" and "one empty part" (the same flat string) gave 0 resp. -1/-2. *)
Theorem C17_memcpy_flat :
  forall len src dest,
    exists o, m_memcpy len src dest = Some (fst (flat_memcpy len (concat src) (concat dest)), o)
              /\ concat o = snd (flat_memcpy len (concat src) (concat dest))
              /\ map (@length byte) o = map (@length byte) dest.
Proof. exact memcpy_flat. Qed.

Theorem C17_memcpy_noparts :
  forall len src dest, src = [] \/ dest = [] -> (len <= 0)%Z -> m_memcpy len src dest = Some (0%Z, dest).
Proof. exact memcpy_noparts. Qed.

(* mpt_message_argv, every separator byte: same argument length (or MissingData),
   and the message left behind (leading white space consumed) denotes the flat text left *)
Theorem C17_argv_flat :
  forall m sep, exists m',
    m_argv m sep = Ok (fst (flat_argv (concat (frags m)) sep), m')
    /\ concat (frags m') = snd (flat_argv (concat (frags m)) sep).
Proof. exact argv_flat. Qed.

(* mpt_message_append *)
Theorem C17_append_flat : forall arr m, m_append arr m = flat_append arr (concat (frags m)).
Proof. exact append_flat. Qed.

(* mpt_message_get: for every well formed ring (any capacity, offset, fill; wrapped
   or not) the one or two parts handed out denote exactly the window [off, off+take)
   of the held bytes; refusals are those of the flat window, plus "two parts needed
   but no second vector given". *)
Theorem C17_get_flat :
  forall q off take vec, rinv q ->
    match flat_get (ring_contents q) off take with
    | Ok w => (exists k m, m_get q off take vec = Ok (k, m) /\ concat (frags m) = w)
              \/ (vec = false /\ m_get q off take vec = Err EInval)
    | Err e => m_get q off take vec = Err e
    | Fault => False
    end.
Proof. exact get_flat. Qed.

(* mpt_array_message: argument count and argument bytes; the loop fuel suffices *)
Theorem C17_array_message_flat :
  forall m sep, m_array_message m sep = Some (Ok (flat_array_message (concat (frags m)) sep)).
Proof. exact array_message_flat. Qed.

(* mpt_message_append onto an array that refuses (typed buffer: lim = Some 0; the
   (lim+1)-th allocation fails: Some lim; never: None).  All of the flat text or
   nothing: on refusal the array holds exactly what it held before (`_used = olen`),
   whatever was appended from earlier fragments.  [count_ne] = number of non-empty
   fragments = number of mpt_array_append calls. *)
Theorem C17_append_refusing_flat :
  forall arr lim m,
    m_append_lim arr lim m
    = if lim_ge lim (count_ne (frags m)) then (true, flat_append arr (concat (frags m))) else (false, arr).
Proof. exact append_lim_flat. Qed.

Theorem C17_append_refusing_none : forall arr m, m_append_lim arr None m = (true, m_append arr m).
Proof. exact append_lim_none. Qed.

(* an empty text never asks the array, a non-empty one always does: whether a typed
   array refuses depends on the flat text alone *)
Theorem C17_append_asks_iff_text : forall fs, count_ne fs = 0 <-> concat fs = [].
Proof. exact count_ne_concat. Qed.

(* mpt_array_message with an array that refuses after lim calls (reservation,
   arguments, separators): BadOperation / MissingBuffer with the caller's array
   untouched, at the same call as on the flat text *)
Theorem C17_array_message_refusing_flat :
  forall m sep lim pre,
    amsgl_out (m_array_message_lim m sep lim pre) = flat_array_message_lim (concat (frags m)) sep lim pre.
Proof. exact array_message_lim_flat. Qed.

Theorem C17_array_message_refusing_none :
  forall s sep pre,
    flat_array_message_lim s sep None pre = OArr (fst (flat_array_message s sep)) (snd (flat_array_message s sep)).
Proof. exact array_message_lim_none. Qed.

(* the reservation of message length + 1 bytes made before the loop suffices: without an
   injected failure the appends inside the loop of mpt_array_message never have to grow
   the buffer, their refusal branches are dead *)
Theorem C17_array_message_fits :
  forall s sep, length (snd (flat_array_message s sep)) <= length s + 1.
Proof. exact array_message_fits. Qed.

(* mpt_memtok leaves its scan loop only outside a quoted region: the "escaped sequence
   unfinished" exit behind the loop is dead *)
Theorem C17_memtok_found_unquoted :
  forall tok com esc s c, tok_step tok com esc s c = TkFound -> tk_match s = 0%N.
Proof. exact tok_step_found_unquoted. Qed.

(* the "add the lengths of the preceding parts" loops (size_t sum compared with SSIZE_MAX
   after every addition): with part lengths that are object sizes the sum never wraps
   unseen - EOVERFLOW exactly when the position is not representable *)
Theorem C17_position_sum_checked :
  forall lens pos, (pos <= ssize_max)%N -> Forall (fun l => (l <= ssize_max)%N) lens ->
    pos_acc pos lens = if (pos + sumN lens <=? ssize_max)%N then Some (pos + sumN lens)%N else None.
Proof. exact pos_acc_spec. Qed.

(* mpt_memrchr / mpt_memrfcn / mpt_memrstr over  <big bytes> ++ message  when the byte
   is found in the message: the flat position big + p, or EOVERFLOW *)
Theorem C17_rbig_flat :
  forall big data k, (big <= ssize_max)%N -> (N.of_nat (length (concat data)) <= ssize_max)%N ->
    m_rbig big data k = flat_rbig big (concat data) k.
Proof. exact rbig_flat. Qed.

(* Any history of operations (the cursor of one is the input of the next): outputs
   and the text denoted by the cursor after every step are those of the flat run,
   and no step faults or runs out of fuel.  [ops_ok]: rings handed to message_get are
   well formed; OpRBig is run with big and the message length at most SSIZE_MAX. *)
Theorem C17_history_flat :
  forall ops F, ops_ok F ops -> map proj (mrun F ops) = srun F (abs F) ops.
Proof. exact run_flat. Qed.

Theorem C17_history_no_fault :
  forall ops F, ops_ok F ops -> Forall (fun r => bad_out (fst r) = false) (mrun F ops).
Proof. exact run_no_fault. Qed.

(* histories without OpRBig need only the ring condition, whatever the message *)
Theorem C17_history_side_conditions : forall ops F, Forall op_ok0 ops -> ops_ok F ops.
Proof. exact ops_ok_of_forall. Qed.

(* ---- non-vacuity: concrete fragmentations with empty fragments; the statements
   say something about them ---- *)
(* "'a b' c" cut as  '  |  (empty)  |  a␣b  |  '␣c  *)
Example C17_ex_message :
  concat (frags (mkmsg [39]%N [[]; [97; 32; 98]%N; [39; 32; 99]%N])) = [39; 97; 32; 98; 39; 32; 99]%N.
Proof. reflexivity. Qed.

Example C17_ex_read :
  m_read (mkmsg [39]%N [[]; [97; 32; 98]%N; [39; 32; 99]%N]) 3
  = Ok (3, [39; 97; 32]%N, mkmsg [98]%N [[39; 32; 99]%N]).
Proof. vm_compute. reflexivity. Qed.

(* the quoted blank is not an argument end although the quote opens in another fragment *)
Example C17_ex_argv :
  m_argv (mkmsg [39]%N [[]; [97; 32; 98]%N; [39; 32; 99]%N]) 32%N
  = Ok (Ok 5, mkmsg [39]%N [[]; [97; 32; 98]%N; [39; 32; 99]%N]).
Proof. vm_compute. reflexivity. Qed.

Example C17_ex_memtok :
  m_memtok [[39]%N; []; [97; 32; 98]%N; [39; 32; 99]%N] (Some [32]%N) [] [39; 34]%N = Some 5.
Proof. vm_compute. reflexivity. Qed.

(* comment running over two fragment boundaries, newline first byte of a fragment *)
Example C17_ex_memtok_comment :
  m_memtok [[32; 35; 120]%N; []; [10; 65]%N] None [35]%N [] = Some 4.
Proof. vm_compute. reflexivity. Qed.

Example C17_ex_memcpy :
  m_memcpy 4 [[1]%N; []; [2; 3]%N; [4; 5]%N] [[9; 9; 9]%N; []; [9; 9]%N]
  = Some (4%Z, [[1; 2; 3]%N; []; [4; 9]%N]).
Proof. vm_compute. reflexivity. Qed.

Example C17_ex_ring_inv : rinv (mkring [3; 4; 238; 238; 1; 2]%N 4 6 4).
Proof. unfold rinv; cbn; lia. Qed.

Example C17_ex_get :
  m_get (mkring [3; 4; 238; 238; 1; 2]%N 4 6 4) 1 3 true = Ok (1, mkmsg [2]%N [[3; 4]%N]).
Proof. vm_compute. reflexivity. Qed.

Example C17_ex_array_message :
  m_array_message (mkmsg [32; 97]%N [[]; [98; 32]%N; [32; 99]%N]) 32%N
  = Some (Ok (2, [97; 98; 0; 99; 0]%N)).
Proof. vm_compute. reflexivity. Qed.

Example C17_ex_history :
  map fst (mrun [[39]%N; []; [97; 32; 98]%N; [39; 32; 99]%N]
                [OpRead 2 true; OpLen; OpChr false 39%N; OpArgv 32%N; OpRead 9 true; OpLen])
  = [ORead 2 (Some [39; 97]%N); ONat 5; OPos (Some 2); OArgv (Ok 4);
     ORead 4 (Some [98; 39; 32; 99]%N); ONat 0].
Proof. vm_compute. reflexivity. Qed.

(* the second allocation fails: the first fragment is taken back *)
Example C17_ex_append_refused :
  m_append_lim [81; 81]%N (Some 1) (mkmsg [65]%N [[]; [66]%N; [67]%N]) = (false, [81; 81]%N)
  /\ m_append_lim [81; 81]%N (Some 3) (mkmsg [65]%N [[]; [66]%N; [67]%N]) = (true, [81; 81; 65; 66; 67]%N)
  /\ m_append_lim [81; 81]%N (Some 0) (mkmsg [] [[]; []]) = (true, [81; 81]%N).
Proof. vm_compute. repeat split. Qed.

Example C17_ex_array_message_refused :
  amsgl_out (m_array_message_lim (mkmsg [65; 32]%N [[66]%N; [32; 67]%N]) 32%N (Some 4) [90; 90]%N)
  = OArrE MissingBuffer [90; 90]%N
  /\ amsgl_out (m_array_message_lim (mkmsg [65; 32]%N [[66]%N; [32; 67]%N]) 32%N (Some 7) [90; 90]%N)
  = OArr 3 [65; 0; 66; 0; 67; 0]%N.
Proof. vm_compute. split; reflexivity. Qed.

Example C17_ex_memcpy_noparts :
  m_memcpy 1 [] [[9]%N] = Some ((-1)%Z, [[9]%N]) /\ m_memcpy 1 [[]] [[9]%N] = Some ((-1)%Z, [[9]%N])
  /\ m_memcpy 1 [[65]%N] [] = Some ((-2)%Z, []).
Proof. vm_compute. repeat split. Qed.

(* byte 'A' found at offset 0 of the third part, 2 bytes and the big part before it *)
Example C17_ex_rbig :
  m_rbig 9223372036854775805 [[65]%N; [66]%N; [65]%N] (RChr 65%N) = RAt 9223372036854775807
  /\ m_rbig 9223372036854775806 [[65]%N; [66]%N; [65]%N] (RChr 65%N) = ROverflow
  /\ m_rbig 9223372036854775806 [[65]%N; [66]%N; [65]%N] (RFcn 1) = ROverflow.
Proof. vm_compute. repeat split. Qed.

Example C17_ex_history_refusals :
  ops_ok [[65; 32]%N; [66]%N] [OpAppL [81]%N (Some 1); OpRead 1 true; OpAmsgL 32%N (Some 2) [90]%N;
                                OpRBig 9223372036854775807 (RChr 66%N); OpNullArg 0]
  /\ map fst (mrun [[65; 32]%N; [66]%N] [OpAppL [81]%N (Some 1); OpRead 1 true; OpAmsgL 32%N (Some 2) [90]%N;
                                          OpRBig 9223372036854775807 (RChr 66%N); OpNullArg 0])
     = [OArrE MissingBuffer [81]%N; ORead 1 (Some [65]%N); OArrE MissingBuffer [90]%N; ORBig ROverflow; OPosE].
Proof. split; [cbn; unfold ssize_max; repeat split; lia|vm_compute; reflexivity]. Qed.

Print Assumptions C17_read_flat.
Print Assumptions C17_length_flat.
Print Assumptions C17_memchr_flat.
Print Assumptions C17_memrchr_flat.
Print Assumptions C17_memfcn_flat.
Print Assumptions C17_memrfcn_flat.
Print Assumptions C17_memstr_flat.
Print Assumptions C17_memrstr_flat.
Print Assumptions C17_memtok_flat.
Print Assumptions C17_memcpy_flat.
Print Assumptions C17_memcpy_noparts.
Print Assumptions C17_argv_flat.
Print Assumptions C17_append_flat.
Print Assumptions C17_get_flat.
Print Assumptions C17_array_message_flat.
Print Assumptions C17_append_refusing_flat.
Print Assumptions C17_append_refusing_none.
Print Assumptions C17_append_asks_iff_text.
Print Assumptions C17_array_message_refusing_flat.
Print Assumptions C17_array_message_refusing_none.
Print Assumptions C17_array_message_fits.
Print Assumptions C17_memtok_found_unquoted.
Print Assumptions C17_position_sum_checked.
Print Assumptions C17_rbig_flat.
Print Assumptions C17_history_flat.
Print Assumptions C17_history_no_fault.
Print Assumptions C17_history_side_conditions.
