(* C17/MessageModel.v — mechanism-level model of mptcore/message/*.c
   (message_read.c, memchr.c, memfcn.c, memstr.c, memtok.c, memcpy.c,
   message_argv.c, message_append.c, message_get.c) and array/array_message.c.
   Executable, no proofs.  A fragment is the byte list of one iovec
   [iov_base, iov_base+iov_len); a message is the current fragment
   [base, base+used) plus the `cont` list.  Every function is a transcription of
   the C function named in its comment, as the code is AFTER the fix: commits of
   the verification worktree (see docs/notes_C17.md). *)
From MptV Require Export Base.Mem.
Local Open Scope nat_scope.

Definition frag := list byte.
Record msg := mkmsg { mcur : frag; mcont : list frag }.

(* the message seen as one iovec list, and back (no fragment = used 0, clen 0) *)
Definition frags (m : msg) : list frag := mcur m :: mcont m.
Definition msg_of (F : list frag) : msg :=
  match F with [] => mkmsg [] [] | c :: r => mkmsg c r end.

(* "C" locale ctype *)
Definition is_space (c : byte) : bool := ((9 <=? c) && (c <=? 13) || (c =? 32))%N.
Definition is_graph (c : byte) : bool := ((33 <=? c) && (c <=? 126))%N.
Definition not_space (c : byte) : bool := negb (is_space c).
Definition in_set (c : byte) (s : list byte) : bool := existsb (N.eqb c) s.
(* a `const char *` argument: the bytes before the first NUL (strlen) *)
Fixpoint cstr (l : list byte) : list byte :=
  match l with [] => [] | c :: r => if (c =? 0)%N then [] else c :: cstr r end.

(* libc memchr-like scans of ONE block: first / last index accepted by p *)
Fixpoint blk_find (p : byte -> bool) (l : frag) : option nat :=
  match l with
  | [] => None
  | c :: r => if p c then Some 0 else option_map S (blk_find p r)
  end.
Fixpoint blk_rfind (p : byte -> bool) (l : frag) : option nat :=
  match l with
  | [] => None
  | c :: r => match blk_rfind p r with
              | Some k => Some (S k)
              | None => if p c then Some 0 else None
              end
  end.

Definition total_len (d : list frag) : nat := fold_right (fun f n => length f + n) 0 d.
(* sum of data[0..i).iov_len — the "absolute position" loops *)
Definition lens_before (d : list frag) (i : nat) : nat := total_len (firstn i d).

(* ---------------------------------------------------------------- message_read.c *)
(* the trailing `while (!msg->used && msg->clen)` *)
Fixpoint skip_empty (cur : frag) (cont : list frag) : msg :=
  match cur, cont with
  | [], f :: r => skip_empty f r
  | _, _ => mkmsg cur cont
  end.

(* mpt_message_read: (returned count, bytes stored at dest, cursor left behind) *)
Fixpoint mread (cur : frag) (cont : list frag) (len : nat) : res (nat * list byte * msg) :=
  let part := length cur in
  if part <? len then
    do d <- rd cur 0 part;
    match cont with
    | [] => Ok (part, d, mkmsg (skipn part cur) [])
    | f :: r =>
      do '(t, d', m) <- mread f r (len - part);
      Ok (part + t, d ++ d', m)
    end
  else
    do d <- rd cur 0 len;
    Ok (len, d, skip_empty (skipn len cur) cont).
Definition m_read (m : msg) (len : nat) := mread (mcur m) (mcont m) len.

(* mpt_message_length *)
Definition m_length (m : msg) : nat := length (mcur m) + total_len (mcont m).

(* ---------------------------------------------------------------- memchr.c / memfcn.c / memstr.c *)
(* forward: while (ndat--) / while (i < ndat): first fragment with a hit, then add preceding lengths *)
Fixpoint fwd_go (find : frag -> option nat) (data rest : list frag) (i : nat) : option nat :=
  match rest with
  | [] => None
  | f :: r => match find f with
              | Some k => Some (k + lens_before data i)
              | None => fwd_go find data r (S i)
              end
  end.
(* backward: i = ndat; while (i--) *)
Fixpoint bwd_go (find : frag -> option nat) (data : list frag) (i : nat) : res (option nat) :=
  match i with
  | 0 => Ok None
  | S j => match nth_error data j with
           | None => Fault
           | Some f => match find f with
                       | Some k => Ok (Some (k + lens_before data j))
                       | None => bwd_go find data j
                       end
           end
  end.

(* mpt_memchr: None = -2 (EAGAIN) *)
Definition m_memchr (data : list frag) (tok : byte) : option nat :=
  fwd_go (fun f => if length f =? 0 then None else blk_find (N.eqb tok) f) data data 0.
Definition m_memrchr (data : list frag) (tok : byte) : res (option nat) :=
  bwd_go (blk_rfind (N.eqb tok)) data (length data).
Definition m_memfcn (data : list frag) (p : byte -> bool) : option nat :=
  fwd_go (blk_find p) data data 0.
Definition m_memrfcn (data : list frag) (p : byte -> bool) : res (option nat) :=
  bwd_go (blk_rfind p) data (length data).
(* mpt_memstr / mpt_memrstr: no match bytes -> 0 *)
Definition m_memstr (data : list frag) (set : list byte) : option nat :=
  if length set =? 0 then Some 0 else m_memfcn data (fun c => in_set c set).
Definition m_memrstr (data : list frag) (set : list byte) : res (option nat) :=
  if length set =? 0 then Ok (Some 0) else m_memrfcn data (fun c => in_set c set).

(* ---------------------------------------------------------------- memtok.c *)
(* locals of mpt_memtok that survive a fragment change: match, prev, and whether
   the scan is inside the "continue until end of line" loop *)
Record tks := mktks { tk_match : byte; tk_prev : byte; tk_skip : bool }.
Inductive tkr := TkFound | TkNext (s : tks).

Definition tok_step (tok : option (list byte)) (com esc : list byte) (s : tks) (c : byte) : tkr :=
  if tk_skip s then
    (if c =? 10 then TkNext (mktks (tk_match s) c false) else TkNext s)%N
  else if negb (tk_match s =? 0)%N then
    TkNext (mktks (if (c =? tk_match s)%N && negb (tk_prev s =? 92)%N then 0%N else tk_match s) c false)
  else if in_set c esc then
    TkNext (mktks c (tk_prev s) false)
  else if in_set c com && is_space (tk_prev s) then
    match tok with
    | Some _ => TkFound
    | None => TkNext (mktks (tk_match s) (tk_prev s) true)
    end
  else
    match tok with
    | Some t => if in_set c t then TkFound else TkNext (mktks (tk_match s) c false)
    | None => if not_space c then TkFound else TkNext (mktks (tk_match s) c false)
    end.

Fixpoint tok_blk tok com esc (s : tks) (l : frag) (pos : nat) : nat + tks :=
  match l with
  | [] => inr s
  | c :: r => match tok_step tok com esc s c with
              | TkFound => inl pos
              | TkNext s' => tok_blk tok com esc s' r (S pos)
              end
  end.
Fixpoint tok_go tok com esc (data rest : list frag) (i : nat) (s : tks) : option nat :=
  match rest with
  | [] => None
  | f :: r => match tok_blk tok com esc s f 0 with
              | inl p => Some (p + lens_before data i)
              | inr s' => tok_go tok com esc data r (S i) s'
              end
  end.
(* mpt_memtok(data, ndat, tok, com, escape); tok = None is the NULL pointer *)
Definition m_memtok (data : list frag) (tok : option (list byte)) (com esc : list byte) : option nat :=
  tok_go (option_map cstr tok) (cstr com) (cstr esc) data data 0 (mktks 0%N 32%N false).

(* ---------------------------------------------------------------- memcpy.c *)
(* the `while (len)` loop: cs = rest of the current source part, dw/dr = written and
   remaining bytes of the current target part; one recursion step per C iteration;
   None = out of fuel.  Result: (total, target parts from the current one on). *)
Fixpoint mcp (fuel : nat) (len : Z) (cs : frag) (rs : list frag) (dw dr : frag) (rdst : list frag)
  : option (nat * list frag) :=
  match fuel with
  | 0 => None
  | S fu =>
    if (len =? 0)%Z then Some (0, (dw ++ dr) :: rdst)
    else match cs with
    | [] => match rs with
            | [] => Some (0, (dw ++ dr) :: rdst)
            | c :: rs' => mcp fu len c rs' dw dr rdst
            end
    | _ :: _ =>
      match dr with
      | [] => match rdst with
              | [] => Some (0, [dw])
              | g :: rd' => match mcp fu len cs rs [] g rd' with
                            | Some (t, o) => Some (t, dw :: o)
                            | None => None
                            end
              end
      | _ :: _ =>
        (* size_t copy = len  (a negative len is a huge size_t) *)
        let copy := Nat.min (length cs) (length dr) in
        let copy := if (0 <? len)%Z then Nat.min copy (Z.to_nat len) else copy in
        match mcp fu (len - Z.of_nat copy) (skipn copy cs) rs (dw ++ firstn copy cs) (skipn copy dr) rdst with
        | Some (t, o) => Some (copy + t, o)
        | None => None
        end
      end
    end
  end.

Definition mcp_fuel (src dest : list frag) : nat := 2 * (length src + length dest) + 2.

(* mpt_memcpy: (return value, target parts afterwards).  As the code is WITH
   docs/C17_memcpy_noparts.diff: the size check (-1 source too short, -2 target too
   short) comes before the "no part" exit, so a zero part COUNT is treated like one
   empty part. *)
Definition m_memcpy (len : Z) (src dest : list frag) : option (Z * list frag) :=
  if (0 <? len)%Z && (Z.of_nat (total_len src) <? len)%Z then Some ((-1)%Z, dest)
  else if (0 <? len)%Z && (Z.of_nat (total_len dest) <? len)%Z then Some ((-2)%Z, dest)
  else match src, dest with
  | [], _ | _, [] => Some (0%Z, dest)
  | s0 :: rs, d0 :: rdst =>
    match mcp (mcp_fuel src dest) len s0 rs [] d0 rdst with
    | Some (t, o) => Some (Z.of_nat t, o)
    | None => None
    end
  end.

(* ---------------------------------------------------------------- message_argv.c *)
(* static nextChar *)
Definition m_next_char (cur : frag) (cont : list frag) (c : byte) : nat :=
  match m_memchr [cur] c with
  | Some p => p
  | None =>
    match (if length cont =? 0 then None else m_memchr cont c) with
    | Some p => length cur + p
    | None => length cur + total_len cont
    end
  end.

(* static nextSpace: white space outside quotes over the current part and the continuation *)
Definition ws_set : list byte := [9; 32; 10; 13; 11]%N.
Definition quote_set : list byte := [39; 34]%N.
(* state: (match, prev); None = found *)
Definition sp_step (st : byte * byte) (c : byte) : option (byte * byte) :=
  let '(mt, prev) := st in
  if negb (mt =? 0)%N then
    Some (if (c =? mt)%N && negb (prev =? 92)%N then 0%N else mt, c)
  else if in_set c quote_set then Some (c, prev)
  else if in_set c ws_set then None
  else Some (mt, c).
Fixpoint sp_blk (st : byte * byte) (l : frag) (pos : nat) : nat + (byte * byte) :=
  match l with
  | [] => inr st
  | c :: r => match sp_step st c with
              | None => inl pos
              | Some st' => sp_blk st' r (S pos)
              end
  end.
Fixpoint sp_go (st : byte * byte) (cur : frag) (cont : list frag) (pos : nat) : option nat :=
  match sp_blk st cur 0 with
  | inl p => Some (pos + p)
  | inr st' => match cont with
               | [] => None
               | f :: r => sp_go st' f r (pos + length cur)
               end
  end.
Definition m_next_space (cur : frag) (cont : list frag) : option nat := sp_go (0%N, 32%N) cur cont 0.

(* while (!(curr.iov_len = msg->used)): None = MissingData *)
Fixpoint argv_start (cur : frag) (cont : list frag) : option (frag * list frag) :=
  match cur, cont with
  | [], [] => None
  | [], f :: r => argv_start f r
  | _, _ => Some (cur, cont)
  end.
(* while ((size_t) part > cont->iov_len) { part -= cont->iov_len; --clen; ++cont; } *)
Fixpoint argv_seek (part : nat) (cont : list frag) : res (nat * frag * list frag) :=
  match cont with
  | [] => Fault
  | f :: r => if length f <? part then argv_seek (part - length f) r else Ok (part, f, r)
  end.

(* mpt_message_argv: (Ok length | Err MissingData, cursor left behind) *)
Definition m_argv (m : msg) (sep : byte) : res (res nat * msg) :=
  match argv_start (mcur m) (mcont m) with
  | None => Ok (Err MissingData, mkmsg [] [])
  | Some (cur, cont) =>
    if (sep =? 0)%N then Ok (Ok (m_next_char cur cont 0%N), mkmsg cur cont)
    else
      do '(cur, cont) <-
        (match m_memfcn [cur] not_space with
         | Some p => Ok (skipn p cur, cont)
         | None =>
           match m_memfcn cont not_space with
           | Some p => do '(part, f, r) <- argv_seek p cont; Ok (skipn part f, r)
           | None => Ok (cur, cont)
           end
         end);
      if negb (is_graph sep) then
        match m_next_space cur cont with
        | Some p => Ok (Ok p, mkmsg cur cont)
        | None => Ok (Ok (m_next_char cur cont 0%N), mkmsg cur cont)
        end
      else Ok (Ok (m_next_char cur cont sep), mkmsg cur cont)
  end.

(* ---------------------------------------------------------------- message_append.c *)
(* the array is its content bytes; mpt_array_append is assumed to succeed *)
Definition m_append (arr : list byte) (m : msg) : list byte :=
  fold_left (fun a f => if length f =? 0 then a else a ++ f) (mcont m)
            (if length (mcur m) =? 0 then arr else arr ++ mcur m).

(* ---------------------------------------------------------------- message_get.c *)
Record ring := mkring { rbuf : mem; rlen : nat; rmax : nat; roff : nat }.
(* queue_data.c *)
Definition ring_data (q : ring) : nat * nat :=
  let start := rmax q - roff q in
  if start <? rlen q then (roff q, start) else (roff q, rlen q).
(* mpt_message_get(qu, off, take, msg, vec): Ok (0|1, message) or Err BadArgument (-1),
   ERange (-2), EInval (-3: two parts needed, no vec) *)
Definition m_get (q : ring) (off take : nat) (vec : bool) : res (nat * msg) :=
  let '(base, low) := ring_data q in
  let high := rlen q - low in
  do '(base, low, high) <-
    (if off <? low then Ok (base + off, low - off, high)
     else let len := off - low in
          if high <? len then Err BadArgument else Ok (len, high - len, 0));
  if low + high <? take then Err ERange
  else if take <=? low then
    do d <- rd (rbuf q) base take; Ok (0, mkmsg d [])
  else if negb vec then Err EInval
  else
    do a <- rd (rbuf q) base low;
    do b <- rd (rbuf q) 0 (take - low);
    Ok (1, mkmsg a [b]).

(* ---------------------------------------------------------------- array/array_message.c *)
(* the `while ((len = mpt_message_argv(&msg, asep)) >= 0)` loop; None = out of fuel *)
Fixpoint amsg_go (fuel : nat) (m : msg) (asep : byte) (arr : list byte) (narg : nat)
  : option (res (nat * list byte)) :=
  match fuel with
  | 0 => None
  | S fu =>
    match m_argv m asep with
    | Fault => Some Fault
    | Err e => Some (Err e)
    | Ok (Err _, _) => Some (Ok (narg, arr))
    | Ok (Fault, _) => Some Fault
    | Ok (Ok len, m1) =>
      if (len =? 0) && negb (asep =? 0)%N then Some (Ok (narg, arr))
      else
        (* mpt_array_append(&a, len, 0) zero-fills, mpt_message_read stores into it *)
        match (if len =? 0 then Ok (0, [], m1) else m_read m1 len) with
        | Ok (cnt, d, m2) =>
          let arr1 := arr ++ d ++ repeat 0%N (len - cnt) ++ [0%N] in
          match m_read m2 1 with
          | Ok (_, _, m3) => amsg_go fu m3 asep arr1 (S narg)
          | Err e => Some (Err e)
          | Fault => Some Fault
          end
        | Err e => Some (Err e)
        | Fault => Some Fault
        end
    end
  end.
(* mpt_array_message: (number of arguments, array content) *)
Definition m_array_message (m : msg) (asep : byte) : option (res (nat * list byte)) :=
  if m_length m =? 0 then Some (Ok (0, []))
  else amsg_go (S (m_length m)) m asep [] 0.

(* ---------------------------------------------------------------- refusing array (message_append.c, array_message.c) *)
(* mpt_array_append / mpt_array_slice as their callers see them: the call succeeds or
   returns NULL (typed buffer, no memory) without changing the array.  [lim] = how
   many further calls succeed (None: all; a typed buffer: Some 0).
   lim_take: None = this call fails, Some l = it succeeds and l is left. *)
Definition lim_take (lim : option nat) : option (option nat) :=
  match lim with
  | None => Some None
  | Some 0 => None
  | Some (S j) => Some (Some j)
  end.

(* mpt_message_append with the failure branches: (false, _) = MissingBuffer after
   `buf->_used = olen`; the first part and the continuation parts are treated alike
   (empty ones skipped, the others appended) *)
Fixpoint mapp (olen : nat) (a : list byte) (lim : option nat) (fs : list frag) : bool * list byte :=
  match fs with
  | [] => (true, a)
  | f :: r =>
    if length f =? 0 then mapp olen a lim r
    else match lim_take lim with
         | None => (false, firstn olen a)
         | Some l => mapp olen (a ++ f) l r
         end
  end.
Definition m_append_lim (arr : list byte) (lim : option nat) (m : msg) : bool * list byte :=
  mapp (length arr) arr lim (frags m).

(* mpt_array_message with the failure branches; [pre] = content of the caller's array
   before the call (kept on failure, cleared for an empty message, replaced otherwise) *)
Fixpoint amsgl_go (fuel : nat) (m : msg) (asep : byte) (arr : list byte) (narg : nat) (lim : option nat)
  : option (res (nat * list byte)) :=
  match fuel with
  | 0 => None
  | S fu =>
    match m_argv m asep with
    | Fault => Some Fault
    | Err e => Some (Err e)
    | Ok (Err _, _) => Some (Ok (narg, arr))
    | Ok (Fault, _) => Some Fault
    | Ok (Ok len, m1) =>
      if (len =? 0) && negb (asep =? 0)%N then Some (Ok (narg, arr))
      else
        match (if len =? 0 then Some lim else lim_take lim) with
        | None => Some (Err MissingBuffer)
        | Some l1 =>
          match (if len =? 0 then Ok (0, [], m1) else m_read m1 len) with
          | Ok (cnt, d, m2) =>
            let arr1 := arr ++ d ++ repeat 0%N (len - cnt) ++ [0%N] in
            match lim_take l1 with
            | None => Some (Err MissingBuffer)
            | Some l2 =>
              match m_read m2 1 with
              | Ok (_, _, m3) => amsgl_go fu m3 asep arr1 (S narg) l2
              | Err e => Some (Err e)
              | Fault => Some Fault
              end
            end
          | Err e => Some (Err e)
          | Fault => Some Fault
          end
        end
    end
  end.
(* (result, content of the caller's array afterwards) *)
Definition m_array_message_lim (m : msg) (asep : byte) (lim : option nat) (pre : list byte)
  : option (res nat * list byte) :=
  if m_length m =? 0 then Some (Ok 0, [])
  else match lim_take lim with
       | None => Some (Err BadOperation, pre)          (* mpt_array_slice refused *)
       | Some l1 =>
         match amsgl_go (S (m_length m)) m asep [] 0 l1 with
         | None => None
         | Some (Ok (n, a)) => Some (Ok n, a)
         | Some (Err e) => Some (Err e, pre)
         | Some Fault => Some (Fault, pre)
         end
       end.

(* ---------------------------------------------------------------- absolute positions beyond SSIZE_MAX *)
(* the "add the lengths of the preceding parts" loops of memchr.c / memfcn.c / memtok.c:
   a size_t sum, compared with SSIZE_MAX after every addition; None = EOVERFLOW *)
Definition ssize_max : N := 9223372036854775807.
Definition size_mod : N := 18446744073709551616.
Fixpoint pos_acc (pos : N) (lens : list N) : option N :=
  match lens with
  | [] => Some pos
  | l :: r => let p := ((pos + l) mod size_mod)%N in
              if (ssize_max <? p)%N then None else pos_acc p r
  end.

(* backward search that reports (part index, offset inside the part) *)
Fixpoint bwd_idx (find : frag -> option nat) (data : list frag) (i : nat) : res (option (nat * nat)) :=
  match i with
  | 0 => Ok None
  | S j => match nth_error data j with
           | None => Fault
           | Some f => match find f with
                       | Some k => Ok (Some (j, k))
                       | None => bwd_idx find data j
                       end
           end
  end.
Definition lensN (d : list frag) : list N := map (fun f => N.of_nat (length f)) d.

(* the match functions the harness passes to mpt_memfcn/mpt_memrfcn *)
Definition fcn_of (k : nat) : byte -> bool :=
  match k with 0 => is_space | 1 => not_space | _ => is_graph end.

(* the match predicates of the three backward searches *)
Inductive rkind := RChr (b : byte) | RFcn (k : nat) | RStr (set : list byte).

(* a backward search over  <one part of [big] bytes> :: data  that finds its byte in
   [data] (the leading part is then never looked at, only its length is added):
   mpt_memrchr adds the preceding lengths from part i-1 down to part 0, mpt_memrfcn
   (and mpt_memrstr through it) from part 0 up.  None = nothing found in data (the
   harness does not make the call then). *)
Inductive rpos := RSkip | ROverflow | RAt (p : N) | RFault.
Definition m_rbig (big : N) (data : list frag) (k : rkind) : rpos :=
  let '(find, up) := match k with
                     | RChr b => (blk_rfind (N.eqb b), false)
                     | RFcn n => (blk_rfind (fcn_of n), true)
                     | RStr set => (blk_rfind (fun c => in_set c set), true)
                     end in
  match (match k with RStr [] => Ok None | _ => bwd_idx find data (length data) end) with
  | Fault | Err _ => RFault
  | Ok None => RSkip
  | Ok (Some (j, off)) =>
    let pre := big :: lensN (firstn j data) in
    match pos_acc (N.of_nat off) (if up then pre else rev pre) with
    | None => ROverflow
    | Some p => RAt p
    end
  end.

(* ---------------------------------------------------------------- missing arguments (EFAULT) *)
(* which = 0/1 mpt_memfcn(NULL data / NULL function), 2/3 mpt_memrfcn likewise,
   4/5 mpt_memstr / mpt_memrstr with NULL match bytes and a non-zero count, 6 mpt_memtok(NULL data),
   7/8 mpt_memstr / mpt_memrstr with NULL data, 9/10 mpt_memstr / mpt_memrstr with a zero
   match count (0 before anything is looked at): true = -1 (EFAULT), false = 0 *)
Definition m_nullarg (which : nat) : bool := which <? 9.

(* ---------------------------------------------------------------- operations / histories *)
Inductive op :=
| OpSet (F : list frag)
| OpRead (n : nat) (dest : bool)
| OpLen
| OpArgv (sep : byte)
| OpChr (rev : bool) (b : byte)
| OpFcn (rev : bool) (k : nat)
| OpStr (rev : bool) (set : list byte)
| OpTok (tok : option (list byte)) (com esc : list byte)
| OpCpy (len : Z) (dest : list frag)
| OpApp (pre : list byte)
| OpGet (q : ring) (off take : nat) (vec : bool)
| OpAmsg (sep : byte)
| OpAppL (pre : list byte) (lim : option nat)
| OpAmsgL (sep : byte) (lim : option nat) (pre : list byte)
| OpAmsgNull
| OpNullArg (which : nat)
| OpRBig (big : N) (k : rkind).

Inductive out :=
| ORead (n : nat) (d : option (list byte))
| ONat (n : nat)
| OPos (p : option nat)
| OArgv (r : res nat)
| OCpy (r : Z) (dest : list byte)
| OArr (n : nat) (a : list byte)
| OGet (r : res nat)
| OArrE (e : err) (a : list byte)
| OPosE
| ORBig (r : rpos)
| OFault
| OFuel.

Definition amsgl_out (r : option (res nat * list byte)) : out :=
  match r with
  | Some (Ok n, a) => OArr n a
  | Some (Err e, a) => OArrE e a
  | Some (Fault, _) => OFault
  | None => OFuel
  end.

Definition pos_out (r : res (option nat)) : out :=
  match r with Ok p => OPos p | _ => OFault end.

(* state = the message as iovec list ([] = no part at all: used 0, clen 0, ndat 0) *)
Definition mstep (F : list frag) (o : op) : list frag * out :=
  match o with
  | OpSet F' => (F', ONat (length F'))
  | OpRead n dest =>
    match m_read (msg_of F) n with
    | Ok (t, d, m) => (frags m, ORead t (if dest then Some d else None))
    | _ => (F, OFault)
    end
  | OpLen => (F, ONat (m_length (msg_of F)))
  | OpArgv sep =>
    match m_argv (msg_of F) sep with
    | Ok (r, m) => (frags m, OArgv r)
    | _ => (F, OFault)
    end
  | OpChr false b => (F, OPos (m_memchr F b))
  | OpChr true b => (F, pos_out (m_memrchr F b))
  | OpFcn false k => (F, OPos (m_memfcn F (fcn_of k)))
  | OpFcn true k => (F, pos_out (m_memrfcn F (fcn_of k)))
  | OpStr false s => (F, OPos (m_memstr F s))
  | OpStr true s => (F, pos_out (m_memrstr F s))
  | OpTok t c e => (F, OPos (m_memtok F t c e))
  | OpCpy len dest =>
    match m_memcpy len F dest with
    | Some (r, d) => (F, OCpy r (concat d))
    | None => (F, OFuel)
    end
  | OpApp pre => (F, OArr 0 (m_append pre (msg_of F)))
  | OpGet q off take vec =>
    match m_get q off take vec with
    | Ok (k, m) => (frags m, OGet (Ok k))
    | Err e => (F, OGet (Err e))
    | Fault => (F, OFault)
    end
  | OpAmsg sep =>
    match m_array_message (msg_of F) sep with
    | Some (Ok (n, a)) => (F, OArr n a)
    | Some _ => (F, OFault)
    | None => (F, OFuel)
    end
  | OpAppL pre lim =>
    match m_append_lim pre lim (msg_of F) with
    | (true, a) => (F, OArr 0 a)
    | (false, a) => (F, OArrE MissingBuffer a)
    end
  | OpAmsgL sep lim pre => (F, amsgl_out (m_array_message_lim (msg_of F) sep lim pre))
  | OpAmsgNull => (F, OArr 0 [])
  | OpNullArg which => (F, if m_nullarg which then OPosE else OPos (Some 0))
  | OpRBig big k => (F, ORBig (m_rbig big F k))
  end.

Fixpoint mrun (F : list frag) (ops : list op) : list (out * list frag) :=
  match ops with
  | [] => []
  | o :: r => let '(F', x) := mstep F o in (x, F') :: mrun F' r
  end.
