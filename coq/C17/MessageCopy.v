(* C17/MessageCopy.v — mpt_memcpy between two fragment lists = overwriting the start
   of the flat target with the start of the flat source; the part lengths of the
   target are preserved; the loop fuel always suffices. *)
From MptV Require Import Base.Mem Base.Tactics C17.MessageModel C17.MessageSpec C17.MessageProofs.
Local Open Scope nat_scope.

(* bytes the loop has to move *)
Definition want (len : Z) (S D : list byte) : nat :=
  if (len <? 0)%Z then Nat.min (length S) (length D) else Z.to_nat len.

(* iterations still needed at most *)
Definition mu (cs : frag) (rs : list frag) (dr : frag) (rdst : list frag) : nat :=
  2 * (length rs + length rdst) + (match cs, dr with _ :: _, _ :: _ => 1 | _, _ => 0 end) + 1.

Lemma mcp_zero fu cs rs dw dr rdst : mcp (S fu) 0 cs rs dw dr rdst = Some (0, (dw ++ dr) :: rdst).
Proof. reflexivity. Qed.

Lemma skipn_app_le {A} n (a b : list A) : n <= length a -> skipn n (a ++ b) = skipn n a ++ b.
Proof. intros H. rewrite skipn_app. replace (n - length a) with 0 by lia. reflexivity. Qed.

Lemma firstn_app_le {A} n (a b : list A) : n <= length a -> firstn n (a ++ b) = firstn n a.
Proof. intros H. rewrite firstn_app. replace (n - length a) with 0 by lia. cbn [firstn]. apply app_nil_r. Qed.

Lemma firstn_add {A} a b (l : list A) : firstn (a + b) l = firstn a l ++ firstn b (skipn a l).
Proof.
  revert l; induction a as [|a IH]; intros l; [reflexivity|].
  destruct l as [|x l]; cbn [Nat.add firstn skipn app]; [rewrite firstn_nil; reflexivity|].
  rewrite IH. reflexivity.
Qed.

Lemma skipn_add {A} a b (l : list A) : skipn (a + b) l = skipn b (skipn a l).
Proof.
  revert l; induction a as [|a IH]; intros l; [reflexivity|].
  destruct l as [|x l]; cbn [Nat.add skipn]; [rewrite skipn_nil; reflexivity|]. apply IH.
Qed.

Lemma mcp_flat fuel : forall len cs rs dw dr rdst,
  mu cs rs dr rdst <= fuel ->
  ((0 <= len)%Z -> (len <= Z.of_nat (length (cs ++ concat rs)))%Z /\ (len <= Z.of_nat (length (dr ++ concat rdst)))%Z) ->
  exists o,
    mcp fuel len cs rs dw dr rdst = Some (want len (cs ++ concat rs) (dr ++ concat rdst), o)
    /\ concat o = dw ++ firstn (want len (cs ++ concat rs) (dr ++ concat rdst)) (cs ++ concat rs)
                     ++ skipn (want len (cs ++ concat rs) (dr ++ concat rdst)) (dr ++ concat rdst)
    /\ map (@length byte) o = length (dw ++ dr) :: map (@length byte) rdst.
Proof.
  induction fuel as [|fu IH]; intros len cs rs dw dr rdst Hmu Hpre; [unfold mu in Hmu; lia|].
  cbn [mcp]. destruct (Z.eqb_spec len 0) as [E0|E0].
  { subst len. eexists; split; [|split]; [reflexivity| |reflexivity].
    unfold want. cbn [Z.ltb Z.compare Z.to_nat firstn skipn concat app]. rewrite <- app_assoc. reflexivity. }
  destruct cs as [|c0 cs'].
  { destruct rs as [|c rs'].
    - (* source exhausted *)
      cbn [app concat] in *.
      assert (Hn : want len [] (dr ++ concat rdst) = 0).
      { unfold want. cbn [length]. destruct (Z.ltb_spec len 0); [reflexivity|].
        cbn [length] in Hpre. lia. }
      rewrite Hn. eexists; split; [|split]; [reflexivity| |reflexivity].
      cbn [firstn skipn concat app]. rewrite <- app_assoc. reflexivity.
    - cbn [app concat]. cbn [app concat] in Hpre. apply IH; [|exact Hpre].
      unfold mu in *. cbn [length] in Hmu. destruct c, dr; lia. }
  destruct dr as [|d0 dr'].
  { destruct rdst as [|g rd'].
    - (* target exhausted *)
      cbn [app concat] in *.
      assert (Hn : want len (c0 :: cs' ++ concat rs) [] = 0).
      { unfold want. cbn [length]. destruct (Z.ltb_spec len 0); [lia|].
        cbn [length] in Hpre. lia. }
      rewrite Hn. eexists; split; [|split]; [reflexivity| |].
      + cbn [firstn skipn concat app]. rewrite !app_nil_r. reflexivity.
      + cbn [map]. rewrite app_nil_r. reflexivity.
    - cbn [app concat]. cbn [app concat] in Hpre.
      destruct (IH len (c0 :: cs') rs [] g rd') as (o & E & C & L); [|exact Hpre|].
      { unfold mu in *. cbn [length] in Hmu. destruct g; lia. }
      rewrite E. eexists; split; [|split]; [reflexivity| |].
      + cbn [concat]. rewrite C. reflexivity.
      + cbn [map]. rewrite L, app_nil_r. reflexivity. }
  (* copy *)
  set (cs := c0 :: cs') in *. set (dr := d0 :: dr') in *.
  set (copy0 := Nat.min (length cs) (length dr)).
  set (copy := if (0 <? len)%Z then Nat.min copy0 (Z.to_nat len) else copy0).
  assert (Hc1 : 1 <= copy /\ copy <= length cs /\ copy <= length dr /\ ((0 < len)%Z -> (Z.of_nat copy <= len)%Z)).
  { unfold copy, copy0, cs, dr. cbn [length]. destruct (Z.ltb_spec 0 len); lia. }
  set (S := cs ++ concat rs) in *. set (D := dr ++ concat rdst) in *.
  assert (HS : skipn copy S = skipn copy cs ++ concat rs) by (apply skipn_app_le; lia).
  assert (HD : skipn copy D = skipn copy dr ++ concat rdst) by (apply skipn_app_le; lia).
  assert (Hw : want len S D = copy + want (len - Z.of_nat copy) (skipn copy S) (skipn copy D)).
  { unfold want. rewrite !skipn_length.
    assert (length cs <= length S) by (unfold S; rewrite app_length; lia).
    assert (length dr <= length D) by (unfold D; rewrite app_length; lia).
    destruct (Z.ltb_spec len 0); destruct (Z.ltb_spec (len - Z.of_nat copy) 0); try lia. }
  destruct (Z.eqb_spec (len - Z.of_nat copy) 0) as [El|El].
  - (* length reached: the next iteration leaves the loop *)
    destruct fu as [|fu']; [unfold mu, cs, dr in Hmu; lia|].
    rewrite El, mcp_zero. rewrite Hw, El.
    unfold want at 1 2 3. cbn [Z.ltb Z.compare Z.to_nat]. rewrite Nat.add_0_r.
    eexists; split; [|split]; [reflexivity| |].
    + cbn [concat]. rewrite <- !app_assoc. f_equal.
      rewrite <- HD. f_equal. unfold S. symmetry. apply firstn_app_le. lia.
    + cbn [map]. f_equal. rewrite !app_length, firstn_length, skipn_length. lia.
  - destruct (IH (len - Z.of_nat copy)%Z (skipn copy cs) rs (dw ++ firstn copy cs) (skipn copy dr) rdst)
      as (o & E & C & L).
    { (* one of the two current parts is used up *)
      unfold mu in *. unfold cs, dr in Hmu.
      assert (Hz : skipn copy cs = [] \/ skipn copy dr = []).
      { destruct (Nat.eq_dec copy (length cs)) as [Ea|Ea]; [left; apply skipn_all2; lia|].
        destruct (Nat.eq_dec copy (length dr)) as [Eb|Eb]; [right; apply skipn_all2; lia|].
        exfalso. unfold copy, copy0 in *. destruct (Z.ltb_spec 0 len); lia. }
      destruct Hz as [Hz|Hz]; rewrite Hz; [|destruct (skipn copy cs)]; lia. }
    { rewrite <- HS, <- HD, !skipn_length. intros Hl.
      assert (length cs <= length S) by (unfold S; rewrite app_length; lia).
      assert (length dr <= length D) by (unfold D; rewrite app_length; lia).
      lia. }
    rewrite E, <- HS, <- HD, <- Hw. eexists; split; [|split]; [reflexivity| |].
    + rewrite C, <- HS, <- HD. rewrite Hw.
      set (w := want (len - Z.of_nat copy) (skipn copy S) (skipn copy D)).
      rewrite firstn_add, skipn_add, <- !app_assoc. f_equal. f_equal.
      unfold S. symmetry. apply firstn_app_le. lia.
    + rewrite L. f_equal. rewrite !app_length, firstn_length, skipn_length. lia.
Qed.

(* every pair of fragment lists, a zero part count included (the code with
   docs/C17_memcpy_noparts.diff: size check before the "no part" exit) *)
Lemma memcpy_flat len src dest :
  exists o, m_memcpy len src dest = Some (fst (flat_memcpy len (concat src) (concat dest)), o)
            /\ concat o = snd (flat_memcpy len (concat src) (concat dest))
            /\ map (@length byte) o = map (@length byte) dest.
Proof.
  unfold m_memcpy, flat_memcpy. rewrite !total_len_concat.
  destruct ((0 <? len)%Z && (Z.of_nat (length (concat src)) <? len)%Z) eqn:E1;
    [eexists; split; [|split]; reflexivity|].
  destruct ((0 <? len)%Z && (Z.of_nat (length (concat dest)) <? len)%Z) eqn:E2;
    [eexists; split; [|split]; reflexivity|].
  assert (Hpre : (0 <= len)%Z -> (len <= Z.of_nat (length (concat src)))%Z /\ (len <= Z.of_nat (length (concat dest)))%Z).
  { intros Hl. apply andb_false_iff in E1, E2.
    destruct E1 as [E1|E1], E2 as [E2|E2];
      repeat match goal with H : (_ <? _)%Z = false |- _ => apply Z.ltb_ge in H end; lia. }
  destruct src as [|s0 rs].
  { (* no source part: nothing can be wanted *)
    cbn [concat length] in *. exists dest.
    assert (Hn : (if (len <? 0)%Z then Nat.min 0 (length (concat dest)) else Z.to_nat len) = 0).
    { destruct (Z.ltb_spec len 0); [reflexivity|]. lia. }
    rewrite Hn. destruct dest; split; [|split| |split]; reflexivity. }
  destruct dest as [|d0 rdst].
  { cbn [concat length] in *. exists [].
    assert (Hn : (if (len <? 0)%Z then Nat.min (length (s0 ++ concat rs)) 0 else Z.to_nat len) = 0).
    { destruct (Z.ltb_spec len 0); [lia|]. lia. }
    rewrite Hn. split; [|split]; reflexivity. }
  cbn [concat] in *.
  destruct (mcp_flat (mcp_fuel (s0 :: rs) (d0 :: rdst)) len s0 rs [] d0 rdst) as (o & E & C & L).
  { unfold mu, mcp_fuel. cbn [length]. destruct s0, d0; lia. }
  { exact Hpre. }
  rewrite E. exists o. split; [|split].
  - reflexivity.
  - cbn [snd]. rewrite C. reflexivity.
  - rewrite L. reflexivity.
Qed.

(* a zero part count: 0 unless a positive length was asked for *)
Lemma memcpy_noparts len src dest : src = [] \/ dest = [] -> (len <= 0)%Z -> m_memcpy len src dest = Some (0%Z, dest).
Proof.
  intros H Hl. unfold m_memcpy. replace (0 <? len)%Z with false by (symmetry; apply Z.ltb_ge; lia).
  cbn [andb]. destruct H; subst; [reflexivity|]. destruct src; reflexivity.
Qed.
