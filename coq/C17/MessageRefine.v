(* C17/MessageRefine.v — every operation and every history of operations on a
   fragment list gives the outputs of the flat specification, and the message left
   behind always denotes the flat text left. *)
From MptV Require Import Base.Mem Base.Tactics C17.MessageModel C17.MessageSpec C17.MessageProofs
  C17.MessageTok C17.MessageCopy C17.MessageArgv.
Local Open Scope nat_scope.

(* rings handed to message_get are well formed queues *)
Definition op_ok (o : op) : Prop :=
  match o with OpGet q _ _ _ => rinv q | _ => True end.

Lemma abs_frags m : abs (frags m) = (concat (frags m), false).
Proof. reflexivity. Qed.

Lemma step_flat F o : op_ok o ->
  sstep (abs F) o (snd (mstep F o)) = (abs (fst (mstep F o)), snd (mstep F o)).
Proof.
  intros Hok. destruct o as [F'|n dest| |sep|rev b|rev k|rev set|t c e|len dest|pre|q off take vec|sep];
    unfold abs at 1; cbn [sstep mstep].
  - reflexivity.
  - destruct (read_flat (msg_of F) n) as (m' & E & C & _). rewrite frags_msg_of in E, C.
    rewrite E. cbn [fst snd]. unfold flat_read in *. cbn [fst snd] in *. rewrite abs_frags, C. reflexivity.
  - rewrite length_flat, frags_msg_of. reflexivity.
  - destruct (argv_flat (msg_of F) sep) as (m' & E & C). rewrite frags_msg_of in E, C.
    rewrite E. cbn [fst snd]. destruct (flat_argv (concat F) sep) as [r t]. cbn [fst snd] in *.
    rewrite abs_frags, C. reflexivity.
  - destruct rev; cbn [fst snd].
    + rewrite memrchr_flat. reflexivity.
    + rewrite memchr_flat. reflexivity.
  - destruct rev; cbn [fst snd].
    + rewrite memrfcn_flat. reflexivity.
    + rewrite memfcn_flat. reflexivity.
  - destruct rev; cbn [fst snd].
    + rewrite memrstr_flat. reflexivity.
    + rewrite memstr_flat. reflexivity.
  - cbn [fst snd]. rewrite memtok_flat. reflexivity.
  - destruct F as [|f0 F].
    { rewrite memcpy_noparts by (left; reflexivity). reflexivity. }
    destruct dest as [|d0 dest].
    { rewrite memcpy_noparts by (right; reflexivity). reflexivity. }
    destruct (memcpy_flat len (f0 :: F) (d0 :: dest)) as (o & E & C & _); [discriminate|discriminate|].
    rewrite E. cbn [fst snd orb]. rewrite C.
    destruct (flat_memcpy len (concat (f0 :: F)) (concat (d0 :: dest))). reflexivity.
  - cbn [fst snd]. rewrite append_flat, frags_msg_of. reflexivity.
  - cbn [op_ok] in Hok. pose proof (get_flat q off take vec Hok) as G.
    destruct (flat_get (ring_contents q) off take) as [w|e|].
    + destruct G as [(k & m & E & C)|(Ev & E)]; rewrite E; cbn [fst snd].
      * rewrite abs_frags, C. reflexivity.
      * subst vec. reflexivity.
    + rewrite G. reflexivity.
    + contradiction.
  - rewrite array_message_flat, frags_msg_of. cbn [fst snd].
    destruct (flat_array_message (concat F) sep). reflexivity.
Qed.

Definition proj (r : out * list frag) : out * list byte := (fst r, concat (snd r)).

Lemma run_flat ops : forall F, Forall op_ok ops ->
  map proj (mrun F ops) = srun F (abs F) ops.
Proof.
  induction ops as [|o r IH]; intros F H; [reflexivity|].
  inversion H as [|? ? Ho Hr]; subst. cbn [mrun srun].
  pose proof (step_flat F o Ho) as E. destruct (mstep F o) as [F' x]. cbn [fst snd] in E.
  rewrite E. cbn [map proj fst snd]. rewrite <- IH by exact Hr. reflexivity.
Qed.

(* no step of a history faults or runs out of loop fuel *)
Definition bad_out (x : out) : bool :=
  match x with OFault | OFuel | OArgv Fault | OGet Fault => true | _ => false end.

Lemma sstep_not_bad st o h : bad_out (snd (sstep st o h)) = false.
Proof.
  destruct st as [s nop].
  destruct o as [F'|n dest| |sep|rev b|rev k|rev set|t c e|len dest|pre|q off take vec|sep]; cbn [sstep].
  - reflexivity.
  - destruct (flat_read s n) as [[? ?] ?]. reflexivity.
  - reflexivity.
  - unfold flat_argv. destruct s; [reflexivity|]. destruct (sep =? 0)%N; [reflexivity|].
    destruct (is_graph sep); [reflexivity|]. destruct (flat_memtok _ _ _ _); reflexivity.
  - destruct rev; reflexivity.
  - destruct rev; reflexivity.
  - destruct rev; reflexivity.
  - reflexivity.
  - destruct (nop || _); [reflexivity|]. destruct (flat_memcpy _ _ _). reflexivity.
  - reflexivity.
  - unfold flat_get. destruct (length (ring_contents q) <? off); [reflexivity|].
    destruct (length (ring_contents q) - off <? take); [reflexivity|].
    destruct h; try reflexivity. destruct r as [?|[]|]; try reflexivity. destruct vec; reflexivity.
  - destruct (flat_array_message s sep). reflexivity.
Qed.

Lemma run_no_fault ops : forall F, Forall op_ok ops ->
  Forall (fun r => bad_out (fst r) = false) (mrun F ops).
Proof.
  induction ops as [|o r IH]; intros F H; [constructor|].
  inversion H as [|? ? Ho Hr]; subst. cbn [mrun].
  pose proof (step_flat F o Ho) as E. destruct (mstep F o) as [F' x]. cbn [fst snd] in E.
  constructor; [|apply IH; exact Hr].
  cbn [fst]. pose proof (sstep_not_bad (abs F) o x) as B. rewrite E in B. exact B.
Qed.
