(* C17/MessageRefine.v — every operation and every history of operations on a
   fragment list gives the outputs of the flat specification, and the message left
   behind always denotes the flat text left. *)
From MptV Require Import Base.Mem Base.Tactics C17.MessageModel C17.MessageSpec C17.MessageProofs
  C17.MessageTok C17.MessageCopy C17.MessageArgv C17.MessageFail.
Local Open Scope nat_scope.

(* side conditions of an operation run on the message F: rings handed to message_get
   are well formed queues; the search over <big bytes> ++ message is made with part
   lengths that are object sizes (at most SSIZE_MAX) *)
Definition op_ok (F : list frag) (o : op) : Prop :=
  match o with
  | OpGet q _ _ _ => rinv q
  | OpRBig big _ => (big <= ssize_max)%N /\ (N.of_nat (length (concat F)) <= ssize_max)%N
  | _ => True
  end.

(* ... of a history: each operation on the message the ones before it left *)
Fixpoint ops_ok (F : list frag) (ops : list op) : Prop :=
  match ops with
  | [] => True
  | o :: r => op_ok F o /\ ops_ok (fst (mstep F o)) r
  end.

(* operations whose side condition does not depend on the message *)
Definition op_ok0 (o : op) : Prop :=
  match o with
  | OpGet q _ _ _ => rinv q
  | OpRBig _ _ => False
  | _ => True
  end.

Lemma ops_ok_of_forall ops : forall F, Forall op_ok0 ops -> ops_ok F ops.
Proof.
  induction ops as [|o r IH]; intros F H; [exact I|].
  inversion H as [|? ? Ho Hr]; subst. split; [|apply IH; exact Hr].
  destruct o; try exact I; try exact Ho. contradiction.
Qed.

Lemma step_flat F o : op_ok F o ->
  sstep (abs F) o (snd (mstep F o)) = (abs (fst (mstep F o)), snd (mstep F o)).
Proof.
  intros Hok.
  destruct o as [F'|n dest| |sep|rev b|rev k|rev set|t c e|len dest|pre|q off take vec|sep
                 |pre lim|sep lim pre| |which|big k];
    unfold abs at 1; cbn [sstep mstep].
  - reflexivity.
  - destruct (read_flat (msg_of F) n) as (m' & E & C & _). rewrite frags_msg_of in E, C.
    rewrite E. cbn [fst snd]. unfold flat_read in *. cbn [fst snd] in *. unfold abs. rewrite C. reflexivity.
  - rewrite length_flat, frags_msg_of. reflexivity.
  - destruct (argv_flat (msg_of F) sep) as (m' & E & C). rewrite frags_msg_of in E, C.
    rewrite E. cbn [fst snd]. destruct (flat_argv (concat F) sep) as [r t]. cbn [fst snd] in *.
    unfold abs. rewrite C. reflexivity.
  - destruct rev; cbn [fst snd].
    + rewrite memrchr_flat. reflexivity.
    + rewrite memchr_flat. reflexivity.
  - destruct rev; cbn [fst snd].
    + rewrite memrfcn_flat. reflexivity.
    + rewrite memfcn_flat. reflexivity.
  - destruct rev; cbn [fst snd].
    + rewrite memrstr_flat. reflexivity.
    + rewrite memstr_flat. reflexivity.
  - cbn [fst snd]. rewrite memtok_flat. reflexivity.
  - destruct (memcpy_flat len F dest) as (o & E & C & _).
    rewrite E. cbn [fst snd]. rewrite C.
    destruct (flat_memcpy len (concat F) (concat dest)). reflexivity.
  - cbn [fst snd]. rewrite append_flat, frags_msg_of. reflexivity.
  - cbn [op_ok] in Hok. pose proof (get_flat q off take vec Hok) as G.
    destruct (flat_get (ring_contents q) off take) as [w|e|].
    + destruct G as [(k & m & E & C)|(Ev & E)]; rewrite E; cbn [fst snd].
      * unfold abs. rewrite C. reflexivity.
      * subst vec. reflexivity.
    + rewrite G. reflexivity.
    + contradiction.
  - rewrite array_message_flat, frags_msg_of. cbn [fst snd].
    destruct (flat_array_message (concat F) sep). reflexivity.
  - pose proof (appl_step_flat pre lim (msg_of F)) as A. rewrite frags_msg_of in A.
    unfold appl_out in A. destruct (m_append_lim pre lim (msg_of F)) as [[|] a]; cbn [fst snd]; rewrite <- A; reflexivity.
  - cbn [fst snd]. rewrite array_message_lim_flat, frags_msg_of. reflexivity.
  - reflexivity.
  - reflexivity.
  - cbn [op_ok] in Hok. destruct Hok as [Hb Hl]. cbn [fst snd]. rewrite rbig_flat by assumption. reflexivity.
Qed.

Definition proj (r : out * list frag) : out * list byte := (fst r, concat (snd r)).

Lemma run_flat ops : forall F, ops_ok F ops ->
  map proj (mrun F ops) = srun F (abs F) ops.
Proof.
  induction ops as [|o r IH]; intros F H; [reflexivity|].
  destruct H as [Ho Hr]. cbn [mrun srun].
  pose proof (step_flat F o Ho) as E. destruct (mstep F o) as [F' x]. cbn [fst snd] in E, Hr.
  rewrite E. cbn [map proj fst snd]. rewrite <- IH by exact Hr. reflexivity.
Qed.

(* no step of a history faults or runs out of loop fuel *)
Definition bad_out (x : out) : bool :=
  match x with OFault | OFuel | OArgv Fault | OGet Fault | ORBig RFault => true | _ => false end.

Lemma flat_args_lim_not_fault fuel : forall s sep arr n l, flat_args_lim fuel s sep arr n l <> Fault.
Proof.
  induction fuel as [|fu IH]; intros s sep arr n l; cbn [flat_args_lim]; [discriminate|].
  destruct (flat_argv s sep) as [[len|e|] t]; try discriminate.
  destruct ((len =? 0) && negb (sep =? 0)%N); [discriminate|].
  destruct (if len =? 0 then Some l else lim_take l) as [l1|]; [|discriminate].
  destruct (lim_take l1) as [l2|]; [|discriminate]. apply IH.
Qed.

Lemma sstep_not_bad st o h : bad_out (snd (sstep st o h)) = false.
Proof.
  rename st into s.
  destruct o as [F'|n dest| |sep|rev b|rev k|rev set|t c e|len dest|pre|q off take vec|sep
                 |pre lim|sep lim pre| |which|big k]; cbn [sstep].
  - reflexivity.
  - destruct (flat_read s n) as [[? ?] ?]. reflexivity.
  - reflexivity.
  - unfold flat_argv. destruct s; [reflexivity|]. destruct (sep =? 0)%N; [reflexivity|].
    destruct (is_graph sep); [reflexivity|]. destruct (flat_memtok _ _ _ _); reflexivity.
  - destruct rev; reflexivity.
  - destruct rev; reflexivity.
  - destruct rev; reflexivity.
  - reflexivity.
  - destruct (flat_memcpy _ _ _). reflexivity.
  - reflexivity.
  - unfold flat_get. destruct (length (ring_contents q) <? off); [reflexivity|].
    destruct (length (ring_contents q) - off <? take); [reflexivity|].
    destruct h; try reflexivity. destruct r as [?|[]|]; try reflexivity. destruct vec; reflexivity.
  - destruct (flat_array_message s sep). reflexivity.
  - cbn [snd]. unfold flat_append_lim. destruct (match s with [] => _ | _ => _ end); reflexivity.
  - cbn [snd]. unfold flat_array_message_lim. destruct s as [|b0 s0]; [reflexivity|].
    destruct (lim_take lim) as [l1|]; [|reflexivity].
    destruct (flat_args_lim _ _ _ _ _ _) as [[n a]|e|] eqn:E; [reflexivity|reflexivity|].
    exfalso. exact (flat_args_lim_not_fault _ _ _ _ _ _ E).
  - reflexivity.
  - cbn [snd]. destruct (m_nullarg which); reflexivity.
  - cbn [snd]. unfold flat_rbig. destruct (match rkind_pred k with Some p => _ | None => _ end); [|reflexivity].
    destruct (_ <=? _)%N; reflexivity.
Qed.

Lemma run_no_fault ops : forall F, ops_ok F ops ->
  Forall (fun r => bad_out (fst r) = false) (mrun F ops).
Proof.
  induction ops as [|o r IH]; intros F H; [constructor|].
  destruct H as [Ho Hr]. cbn [mrun].
  pose proof (step_flat F o Ho) as E. destruct (mstep F o) as [F' x]. cbn [fst snd] in E, Hr.
  constructor; [|apply IH; exact Hr].
  cbn [fst]. pose proof (sstep_not_bad (abs F) o x) as B. rewrite E in B. exact B.
Qed.
