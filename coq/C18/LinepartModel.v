(* C18 — mechanism model of the line part code (NO proofs in this file).

   Transcribes, over EXACT rationals [Q] (the inputs are doubles, i.e. dyadic
   rationals; binary64 rounding of the two fractions is NOT modelled, see
   Properties.v / [code_agrees_small_dyadic] for the comparison rule):

     mptplot/values/linepart_code.c    mpt_linepart_code, mpt_linepart_real
     mptplot/values/linepart_linear.c  mpt_linepart_linear
     mptplot/values/linepart_join.c    mpt_linepart_join
     mpt++/linepart.cpp                linepart::array::set, linepart::array::apply
                                       (both the "empty array" loop  pos += pt.raw  and the
                                        merge loop over existing parts that polyline::set uses)

   Conventions: a C pointer [from] into the value array is the SUFFIX list that
   starts there, [from[-1]] is carried as [prev]; every read is checked and
   yields [Fault] when the list is exhausted.  [raw/usr/_cut/_trim] are uint16_t:
   every store is written [wrap16] (mod 2^16) where the C truncates.  Counts are
   [Z]; fuel of the driver loops is a list (structural), never a numeral. *)
From Coq Require Import ZArith QArith Qround List Bool.
Import ListNotations.
Local Open Scope Z_scope.
Local Open Scope bool_scope.

Definition U16MAX : Z := 65535.
Definition wrap16 (z : Z) : Z := z mod 65536.

Record part := mkpart { raw : Z; usr : Z; cut : Z; trim : Z }.
Record range := mkrange { rmin : Q; rmax : Q }.

Inductive res (A : Type) : Type := Ok (a : A) | Fault.
Arguments Ok {A} a.
Arguments Fault {A}.

(* C comparisons on doubles, here on Q *)
Definition Qltb (a b : Q) : bool := negb (Qle_bool b a).   (* a < b *)
Definition Qleb (a b : Q) : bool := Qle_bool a b.          (* a <= b *)

(* (int) d : truncation toward zero *)
Definition Qtrunc (q : Q) : Z := Z.quot (Qnum q) (Zpos (Qden q)).

Definition q65536 : Q := 65536 # 1.
Definition q65535 : Q := 65535 # 1.

(* ---- linepart_code.c ---- *)
Definition linepart_code (val : Q) : Z :=
  if Qltb val 0 || Qltb 1 val then -2 else
  let small := (val * q65536)%Q in
  if negb (Qeq_bool val 0) && Qeq_bool small 0 then 1 else
  if Qltb q65535 small then U16MAX else Qtrunc small.

Definition linepart_real (val : Z) : Q := (inject_Z val / q65536)%Q.

(* ---- linepart_linear.c ---- *)
Definition below (r : range) (v : Q) : bool := Qltb v (rmin r).          (* *from < min *)
Definition above (r : range) (v : Q) : bool := Qltb (rmax r) v.          (* *from > max *)
Definition within (r : range) (v : Q) : bool := Qleb (rmin r) v && Qleb v (rmax r).  (* from[1] >= min && from[1] <= max *)

Definition set_cut (p : part) (c : Z) : part := mkpart (raw p) (usr p) (wrap16 c) (trim p).
Definition set_trim (p : part) (c : Z) : part := mkpart (raw p) (usr p) (cut p) (wrap16 c).

(* state of the walk: record so far, from[-1], from, len *)
Definition walk : Type := (part * option Q * list Q * Z)%type.

(* "partial first" block *)
Definition first_step (r : range) (from : list Q) (len : Z) : res walk :=
  let p0 := mkpart 0 0 0 0 in
  match from with
  | [] => Fault
  | f0 :: tl0 =>
    if below r f0 then
      if 2 <=? len then
        match tl0 with
        | [] => Fault
        | f1 :: tl1 =>
          if within r f1
          then Ok (mkpart 2 2 (wrap16 (linepart_code ((rmin r - f0) / (f1 - f0))%Q)) 0, Some f1, tl1, len - 2)
          else Ok (p0, None, from, len)
        end
      else Ok (p0, None, from, len)
    else if above r f0 then
      if 2 <=? len then
        match tl0 with
        | [] => Fault
        | f1 :: tl1 =>
          if within r f1
          then Ok (mkpart 2 2 (wrap16 (linepart_code ((f0 - rmax r) / (f0 - f1))%Q)) 0, Some f1, tl1, len - 2)
          else Ok (p0, None, from, len)
        end
      else Ok (p0, None, from, len)
    else Ok (p0, None, from, len)
  end.

(* "count visible points": returns the state at the break / at len = 0 *)
Fixpoint vis_loop (r : range) (prev : option Q) (from : list Q) (len : Z) (p : part) {struct from}
  : res (part * list Q * Z) :=
  if len =? 0 then Ok (p, from, len) else
  match from with
  | [] => Fault
  | v :: tl =>
    if below r v then
      if usr p =? 0 then Ok (p, from, len) else
      match prev with
      | None => Fault
      | Some pv =>
        let t := wrap16 (linepart_code ((rmin r - v) / (pv - v))%Q) in
        Ok (mkpart (raw p) (wrap16 (usr p + 1)) (cut p) t, from, len)
      end
    else if above r v then
      if usr p =? 0 then Ok (p, from, len) else
      match prev with
      | None => Fault
      | Some pv =>
        let t := wrap16 (linepart_code ((v - rmax r) / (v - pv))%Q) in
        Ok (mkpart (raw p) (wrap16 (usr p + 1)) (cut p) t, from, len)
      end
    else
      let u := wrap16 (usr p + 1) in            (* part->raw = ++part->usr *)
      vis_loop r (Some v) tl (len - 1) (mkpart u u (cut p) (trim p))
  end.

(* "trailing invisible" *)
Fixpoint trail_loop (r : range) (from : list Q) (len : Z) (p : part) {struct from} : res (part * Z) :=
  if len =? 0 then Ok (p, len) else
  match from with
  | [] => Fault
  | v :: tl =>
    if below r v || above r v
    then trail_loop r tl (len - 1) (mkpart (wrap16 (raw p + 1)) (usr p) (cut p) (trim p))
    else Ok (p, len)
  end.

Definition linepart_linear (r : option range) (from : list Q) (len0 : Z) : res part :=
  let len := if U16MAX <? len0 then U16MAX else len0 in
  match r with
  | None => Ok (mkpart (wrap16 len) (wrap16 len) 0 0)
  | Some r =>
    if len =? 0 then Ok (mkpart 0 0 0 0) else
    match first_step r from len with
    | Fault => Fault
    | Ok (p, prev, from, len) =>
      match vis_loop r prev from len p with
      | Fault => Fault
      | Ok (p, from, len) =>
        if len =? 0 then Ok p else
        match from with
        | [] => Fault
        | _ :: tl =>                                       (* ++from; --len; *)
          match trail_loop r tl (len - 1) p with
          | Fault => Fault
          | Ok (p, len) =>
            if len =? 0 then Ok (mkpart (wrap16 (raw p + 1)) (usr p) (cut p) (trim p)) else Ok p
          end
        end
      end
    end
  end.

(* ---- linepart_join.c ---- *)
Definition linepart_join (to post : part) : option part :=
  if (U16MAX - raw to) <? raw post then None else
  if (U16MAX - usr to) <? usr post then None else
  if negb (trim to =? 0) || negb (cut post =? 0) || negb (usr to =? raw to) then None else
  Some (mkpart (wrap16 (raw to + raw post)) (wrap16 (usr to + usr post)) (cut to) (trim post)).   (* to->_trim = post._trim *)

(* ---- driver loops ---- *)
Definition zlen {A} (l : list A) : Z := Z.of_nat (length l).
Definition zskip {A} (n : Z) (l : list A) : list A := skipn (Z.to_nat n) l.

Inductive run_res : Type := Done (ps : list part) | OutOfFuel | RFault.

(* linepart::array::apply on an empty array:
     while (pos < len) { pt = tr.part(dim, val + pos, len - pos); insert(pt); pos += pt.raw; } *)
Fixpoint drive (fuel : list Q) (r : option range) (from : list Q) (len : Z) {struct fuel} : run_res :=
  if len <=? 0 then Done [] else
  match fuel with
  | [] => OutOfFuel
  | _ :: fuel' =>
    match linepart_linear r from len with
    | Fault => RFault
    | Ok p =>
      match drive fuel' r (zskip (raw p) from) (len - raw p) with
      | Done ps => Done (p :: ps)
      | e => e
      end
    end
  end.

Definition run (r : option range) (data : list Q) : run_res := drive data r data (zlen data).

(* linepart::array::set(len), len > 0: chunks of UINT16_MAX - 2 points, all drawn *)
Definition chunk_max : Z := U16MAX - 2.
Fixpoint set_loop (k : nat) (len : Z) : list part :=
  match k with
  | O => []
  | S k' =>
    if len <? chunk_max
    then mkpart (wrap16 len) (wrap16 len) 0 0 :: set_loop k' 0
    else mkpart (wrap16 chunk_max) (wrap16 chunk_max) 0 0 :: set_loop k' (len - chunk_max)
  end.
Definition set_parts (len : Z) : list part :=
  if len <=? 0 then [] else
  let num := len / chunk_max in
  let num := if num * chunk_max <? len then num + 1 else num in
  set_loop (Z.to_nat num) len.

(* "merge part data": join with the last new part or append ([acc] is the new part list, last first) *)
Definition emit (acc : list part) (pt : part) : list part :=
  match acc with
  | [] => [pt]
  | last :: rest =>
    match linepart_join last pt with
    | Some j => j :: rest
    | None => pt :: last :: rest
    end
  end.

(* linepart::array::apply, loop over the existing parts ([old] = current, [olds] = base[pos+1..]).
   This is the loop AS PATCHED by docs/C18_merge_cut_trim.diff and docs/C18_short_dimension.diff (the branches the
   patches change are reached only when a SECOND dimension is applied to parts that carry cut/trim fractions or
   undrawn points, or when a dimension has fewer values than the parts cover; set(n)+apply() for one dimension -
   [run_merged] - takes the same path before and after the patches):
     - the visible points of [old] are limited to the remaining data first (its trim then no longer applies; a
       leading clipped point alone is not drawn);
     - the cut of [old] is taken over only by a part that draws something, its trim only by a part that ends on
       the same point (usr equal); a remainder without visible points keeps no trim. *)
Fixpoint merge (fuel : nat) (r : option range) (old : part) (olds : list part)
         (val : list Q) (len : Z) (acc : list part) {struct fuel} : run_res :=
  match fuel with
  | O => OutOfFuel
  | S f =>
    let old0 :=
      if len <? usr old then
        let u := if negb (cut old =? 0) && (len <? 2) then 0 else wrap16 len in
        mkpart (raw old) u (if u =? 0 then 0 else cut old) 0
      else old in
    if usr old0 =? 0 then
      let pt := old0 in
      let val' := if raw pt <? len then zskip (raw pt) val else val in
      let len' := if raw pt <? len then len - raw pt else 0 in
      let acc' := emit acc pt in
      match olds with
      | [] => Done (rev acc')
      | o :: os => merge f r o os val' len' acc'
      end
    else
      match linepart_linear r val (usr old0) with
      | Fault => RFault
      | Ok pt0 =>
        let pt1 := if negb (usr pt0 =? 0) && (cut pt0 <? cut old0)
                   then mkpart (raw pt0) (usr pt0) (cut old0) (trim pt0) else pt0 in
        let pt2 := if (usr pt1 =? usr old0) && (trim pt1 <? trim old0)
                   then mkpart (raw pt1) (usr pt1) (cut pt1) (trim old0) else pt1 in
        if raw pt2 <? raw old0 then
          let u := wrap16 (usr old0 - raw pt2) in
          let old2 := mkpart (wrap16 (raw old0 - raw pt2)) u 0 (if u =? 0 then 0 else trim old0) in
          merge f r old2 olds (zskip (raw pt2) val) (len - raw pt2) (emit acc pt2)
        else
          let pt3 := if raw old0 <? raw pt2 then mkpart (raw old0) (usr pt2) (cut pt2) (trim pt2) else pt2 in
          match olds with
          | [] => Done (rev (emit acc pt3))
          | o :: os => merge f r o os (zskip (raw pt3) val) (len - raw pt3) (emit acc pt3)
          end
      end
  end.

Definition apply (olds : list part) (r : option range) (data : list Q) : run_res :=
  if zlen data =? 0 then Done olds else
  match olds with
  | [] => run r data
  | o :: os => merge (length data + length olds) r o os data (zlen data) []
  end.

(* what polyline::set does for one dimension: _vis.set(n); _vis.apply(tr, 0, data) *)
Definition run_merged (r : option range) (data : list Q) : run_res :=
  apply (set_parts (zlen data)) r data.
