(* C18 — what a polyline must hold, written from the property text ("... the stored cut/trim fractions
   reproduce, to the precision of their 16-bit encoding, where the line crosses the range boundary"):

   For a part at position [pos] (see LinepartSpec.v) that draws [usr] points, the polyline holds [usr]
   points: drawn point j is value [pos + j] of the data — except the first point of a part with a cut
   fraction and the last point of a part with a trim fraction: these lie on the segment towards the
   neighbour inside the part, at the decoded fraction measured from the (out-of-range) end point.
   Nothing here refers to the model of polyline.cpp. *)
From Coq Require Import ZArith QArith List Bool.
From MptV Require Import C18.LinepartModel C18.LinepartSpec.
Import ListNotations.
Local Open Scope Z_scope.
Local Open Scope bool_scope.

Definition zrange (n : Z) : list Z := map Z.of_nat (seq 0 (Z.to_nat n)).

Definition drawn_value (data : list Q) (pos : Z) (p : part) (j : Z) : Q :=
  if (j =? 0) && negb (cut p =? 0)
  then (zn data pos + real_spec (cut p) * (zn data (pos + 1) - zn data pos))%Q
  else if (j =? usr p - 1) && negb (trim p =? 0)
  then (zn data (pos + j) + real_spec (trim p) * (zn data (pos + j - 1) - zn data (pos + j)))%Q
  else zn data (pos + j).

Fixpoint drawn_values (data : list Q) (pos : Z) (ps : list part) : list Q :=
  match ps with
  | [] => []
  | p :: tl => map (drawn_value data pos p) (zrange (usr p)) ++ drawn_values data (pos + raw p) tl
  end.

(* the views the part iterator must yield: the lines tile the point array in order; the "full points" of a
   part are its line without a clipped first / last point *)
Fixpoint views_of (off : Z) (ps : list part) : list (Z * Z * Z * Z) :=
  match ps with
  | [] => []
  | p :: tl =>
    let c := if cut p =? 0 then 0 else 1 in
    let t := if trim p =? 0 then 0 else 1 in
    (off, usr p, off + c, usr p - c - t) :: views_of (off + usr p) tl
  end.
