(* C18 — why the binary64 computation of a cut/trim code agrees with the exact one for
   "small dyadic" inputs (<= 16 fractional bits, magnitude < 2^16): DESIGN section 7, C18.

   The C computes  code (fl (fl (b - o) / fl (v - o))).  For small dyadic inputs both
   differences are multiples of 2^-16 below 2^17, hence exact in binary64 (53-bit significand);
   their exact quotient is x = p/q with integers 0 < p <= q < 2^33.  The rounded quotient y is
   described by two HYPOTHESES of the lemma (properties of IEEE-754 round-to-nearest division,
   not proved here, binary64 is not modelled):
     (R1)  |y - x| <= x * 2^-53                     relative error of one correctly rounded operation
     (R2)  x = k / 65536 for an integer k  ->  y = x   a representable quotient is returned exactly
   Then 65536 x is an integer (and y = x), or it is at least 1/q > 2^-33 away from every
   integer while 65536 |y - x| <= 2^-37: the floors agree. *)
From Coq Require Import ZArith QArith Qround Qabs List Bool Lia Lqa.
From MptV Require Import C18.LinepartModel C18.LinepartSpec C18.LinepartCode C18.LinepartLocal.
Local Open Scope Z_scope.

Lemma Qfloor_unique z f : (inject_Z f <= z)%Q -> (z < inject_Z (f + 1))%Q -> Qfloor z = f.
Proof.
  intros H1 H2.
  pose proof (Qfloor_le z) as H3. pose proof (Qlt_floor z) as H4.
  assert (A : (inject_Z f < inject_Z (Qfloor z + 1))%Q) by (eapply Qle_lt_trans; eauto).
  assert (B : (inject_Z (Qfloor z) < inject_Z (f + 1))%Q) by (eapply Qle_lt_trans; eauto).
  rewrite <- Zlt_Qlt in A, B. lia.
Qed.

Definition two53 : positive := 9007199254740992.
Definition two33 : Z := 8589934592.

Lemma code_agrees_quotient (p : Z) (q : positive) (y : Q) :
  0 < p <= Zpos q -> Zpos q < two33 ->
  (Qabs (y - (p # q)) <= (p # q) * (1 # two53))%Q ->
  (forall k, 0 <= k <= 65536 -> (p # q == k # 65536)%Q -> (y == p # q)%Q) ->
  linepart_code y = code_spec (p # q).
Proof.
  intros Hp Hq R1 R2. unfold two33 in Hq.
  set (x := (p # q)%Q) in *.
  assert (Hx0 : (0 < x)%Q) by (unfold x, Qlt; cbn; lia).
  assert (Hx1 : (x <= 1)%Q) by (unfold x, Qle; cbn; lia).
  set (P := 65536 * p).
  pose proof (Z.div_mod P (Zpos q) ltac:(lia)) as Hdm.
  pose proof (Z.mod_pos_bound P (Zpos q) ltac:(lia)) as Hrem.
  set (f := P / Zpos q) in *. set (rem := P mod Zpos q) in *.
  assert (Hf : 0 <= f <= 65536).
  { split; [apply Z.div_pos; lia|]. subst f. apply Z.div_le_upper_bound; lia. }
  assert (Hs : (x * (65536 # 1) == inject_Z f + (rem # q))%Q).
  { unfold x, Qeq, Qmult, Qplus, inject_Z. cbn [Qnum Qden]. subst P. lia. }
  destruct (Z.eq_dec rem 0) as [Hz|Hnz].
  - (* the quotient is a multiple of 2^-16: returned exactly *)
    assert (Hk : (x == f # 65536)%Q).
    { unfold x, Qeq. cbn [Qnum Qden]. subst P. lia. }
    assert (Hy : (y == x)%Q) by (apply (R2 f Hf Hk)).
    rewrite <- (code_spec_comp _ _ Hy). apply code_unit. rewrite Hy. split; [apply Qlt_le_weak|]; auto.
  - (* otherwise 65536 x keeps a distance > 2^-33 from the integers *)
    assert (Hlo : ((1 # 8589934592) < (rem # q))%Q) by (unfold Qlt; cbn; lia).
    assert (Hhi : ((rem # q) + (1 # 8589934592) <= 1)%Q).
    { unfold Qle, Qplus. cbn [Qnum Qden]. lia. }
    apply Qabs_Qle_condition in R1. destruct R1 as [Ra Rb].
    unfold two53 in Ra, Rb.
    assert (Hfy : Qfloor (y * (65536 # 1)) = f).
    { apply Qfloor_unique.
      - lra.
      - rewrite inject_Z_plus. change (inject_Z 1) with 1%Q. lra. }
    assert (Hfx : Qfloor (x * (65536 # 1)) = f).
    { apply Qfloor_unique.
      - lra.
      - rewrite inject_Z_plus. change (inject_Z 1) with 1%Q. lra. }
    assert (Hf2 : f <= 65535).
    { destruct (Z.eq_dec f 65536) as [E|]; [|lia]. exfalso.
      rewrite E in Hs. change (inject_Z 65536) with (65536 # 1)%Q in Hs. lra. }
    assert (Hy01 : (0 <= y <= 1)%Q).
    { split; [lra|].
      assert (Hi : (inject_Z f <= 65535 # 1)%Q).
      { change (65535 # 1)%Q with (inject_Z 65535). rewrite <- Zle_Qle. lia. }
      lra. }
    rewrite (code_unit y Hy01). unfold code_spec. rewrite Hfy, Hfx. reflexivity.
Qed.

(* values with at most 16 fractional bits and magnitude below 2^16 *)
Definition small_dyadic (v : Q) : Prop := exists z : Z, (v == z # 65536)%Q /\ -4294967296 < z < 4294967296.

(* the exact fraction of the model is a quotient of integers below 2^33 *)
Lemma small_quotient (b o v : Q) : small_dyadic b -> small_dyadic o -> small_dyadic v ->
  (o < b)%Q -> (b <= v)%Q ->
  exists (p : Z) (q : positive), 0 < p <= Zpos q /\ Zpos q < two33 /\ ((b - o) / (v - o) == p # q)%Q.
Proof.
  intros [zb [Hb Bb]] [zo [Ho Bo]] [zv [Hv Bv]] Hob Hbv.
  rewrite Hb, Ho in Hob. rewrite Hb, Hv in Hbv.
  assert (H1 : zo < zb) by (unfold Qlt in Hob; cbn in Hob; lia).
  assert (H2 : zb <= zv) by (unfold Qle in Hbv; cbn in Hbv; lia).
  exists (zb - zo), (Z.to_pos (zv - zo)).
  rewrite Z2Pos.id by lia. unfold two33. split; [lia|]. split; [lia|].
  rewrite Hb, Ho, Hv.
  assert (E : forall a c, ((a # 65536) - (c # 65536) == inject_Z (a - c) / (65536 # 1))%Q).
  { intros a c. unfold Qeq, Qminus, Qplus, Qopp, Qdiv, Qmult, Qinv, inject_Z. cbn [Qnum Qden]. lia. }
  rewrite !E.
  assert (Hd : ~ (inject_Z (zv - zo) == 0)%Q).
  { unfold Qeq, inject_Z. cbn. lia. }
  rewrite (Qmake_Qdiv (zb - zo)). rewrite Z2Pos.id by lia.
  field; repeat split; try exact Hd; try discriminate.
Qed.

(* the statement for one boundary crossing: range bounds, outside point o and inside point v are
   small dyadic; y is the rounded quotient of the two (exact) differences *)
Theorem code_agrees_small_dyadic r o v (y : Q) :
  small_dyadic (rmin r) -> small_dyadic (rmax r) -> small_dyadic o -> small_dyadic v ->
  within r v = true -> within r o = false ->
  let x := cross r o v in
  (Qabs (y - x) <= x * (1 # two53))%Q ->
  (forall k, 0 <= k <= 65536 -> (x == k # 65536)%Q -> (y == x)%Q) ->
  wrap16 (linepart_code y) = code_spec x /\ wrap16 (linepart_code y) = edge_code r o v.
Proof.
  intros Smin Smax So Sv Hv Ho x R1 R2.
  assert (Hgoal : wrap16 (linepart_code y) = code_spec x).
  { assert (Hq : exists (p : Z) (q : positive), 0 < p <= Zpos q /\ Zpos q < two33 /\ (x == p # q)%Q).
    { subst x. pose proof (within_false_or _ _ Ho) as Hor. apply within_iff in Hv. destruct Hv as [Hv1 Hv2].
      destruct (below r o) eqn:Eb.
      - destruct (cross_below r o v ltac:(apply within_iff; auto) Eb) as [_ [_ He]].
        apply below_iff in Eb.
        destruct (small_quotient (rmin r) o v Smin So Sv Eb Hv1) as [p [q [H1 [H2 H3]]]].
        exists p, q. rewrite He, H3. repeat split; try tauto; try reflexivity.
      - cbn in Hor. destruct (cross_above r o v ltac:(apply within_iff; auto) Eb Hor) as [_ [_ He]].
        apply above_iff in Hor.
        (* mirror: (o - max)/(o - v) = ((-max) - (-o)) / ((-v) - (-o)) *)
        assert (Sneg : forall a, small_dyadic a -> small_dyadic (- a)).
        { intros a [z [Hz Bz]]. exists (- z). split; [rewrite Hz; reflexivity|lia]. }
        destruct (small_quotient (- rmax r) (- o) (- v) (Sneg _ Smax) (Sneg _ So) (Sneg _ Sv)
                    ltac:(lra) ltac:(lra)) as [p [q [H1 [H2 H3]]]].
        exists p, q. split; [auto|]. split; [auto|]. rewrite He, <- H3.
        field. lra. }
    destruct Hq as [p [q [H1 [H2 H3]]]].
    assert (R1' : (Qabs (y - (p # q)) <= (p # q) * (1 # two53))%Q) by (rewrite <- H3; exact R1).
    assert (R2' : forall k, 0 <= k <= 65536 -> (p # q == k # 65536)%Q -> (y == p # q)%Q).
    { intros k Hk E. rewrite <- H3 in *. apply (R2 k Hk E). }
    rewrite (code_agrees_quotient p q y H1 H2 R1' R2').
    rewrite <- (code_spec_comp _ _ H3).
    apply wrap16_small. apply code_spec_range. apply cross_nonneg; auto. }
  split; [exact Hgoal|]. rewrite Hgoal. symmetry. apply edge_code_spec; auto.
Qed.
