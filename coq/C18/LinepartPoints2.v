(* C18 — a FURTHER dimension, point by point (dimension with at least as many values as the parts cover):
   linepart::array::apply never adds visibility, keeps every point that was drawn once and is in range
   in the new dimension drawn exactly once, and draws no point that is interior out of range in it. *)
From Coq Require Import ZArith QArith List Bool Lia.
From MptV Require Import C18.LinepartModel C18.LinepartSpec C18.LinepartCode C18.LinepartLocal C18.LinepartGlobal
  C18.LinepartMerge C18.LinepartDims.
Import ListNotations.
Local Open Scope Z_scope.

(* a call that stops before the end of its window leaves at least two points *)
Lemma linear_stop r from0 len0 p : 1 <= len0 <= zlen from0 -> len0 <= 65535 ->
  linepart_linear r from0 len0 = Ok p -> raw p = len0 \/ raw p + 2 <= len0.
Proof.
  intros Hl H16 Hp. destruct r as [r|].
  - destruct (linear_shape r from0 len0 Hl) as [p' [Hp' Hs]]. rewrite Hp in Hp'. inversion Hp'; subst p'. clear Hp'.
    assert (E : (if U16MAX <? len0 then U16MAX else len0) = len0).
    { unfold U16MAX. destruct (Z.ltb_spec 65535 len0); lia. }
    rewrite E in Hs. destruct Hs as [c [m [_ [_ [_ [_ [_ [_ Hcase]]]]]]]].
    destruct Hcase as [[_ [Hr _]]|[_ [_ [m2 [Hm2 [Hm2l [_ [_ [Hr _]]]]]]]]]; [left; exact Hr|].
    destruct (Z.eqb_spec (Z.of_nat m2) len0); [left; exact Hr|right; lia].
  - unfold linepart_linear in Hp. inversion Hp; subst p. cbn [raw]. left.
    unfold U16MAX. destruct (Z.ltb_spec 65535 len0); [lia|]. apply wrap16_small. lia.
Qed.

Definition wfo (p : part) : Prop := 1 <= raw p <= 65535 /\ 0 <= usr p <= raw p + 1 /\ usr p <= 65535.

Lemma wfo_wfp p : wfo p -> wfp p.
Proof. unfold wfo, wfp. lia. Qed.

Lemma raw1_placed : forall ps b, Forall (fun p => 1 <= raw p) ps -> Forall (fun pp => 1 <= raw (snd pp)) (placed b ps).
Proof. induction ps as [|p tl IH]; intros b H; cbn [placed]; constructor; inversion H; subst; auto. Qed.

Lemma wfo_raw1 ps : Forall wfo ps -> Forall (fun p => 1 <= raw p) ps.
Proof. intro H. eapply Forall_impl; [|exact H]. intros p [Hp _]. lia. Qed.

Lemma before0 ps b i : i < b -> Forall (fun p => 1 <= raw p) ps -> draw_count b ps i = 0.
Proof. intros Hi H. apply draw_count_before; [exact Hi|apply raw1_placed; exact H]. Qed.

Lemma drawn_in_iff pos p i : drawn_in pos p i = true <-> pos <= i < pos + usr p.
Proof.
  unfold drawn_in. rewrite andb_true_iff, Z.leb_le, Z.ltb_lt. tauto.
Qed.

Definition d01 (b : bool) : Z := if b then 1 else 0.
Lemma draw_count_cons pos p tl i : draw_count pos (p :: tl) i = d01 (drawn_in pos p i) + draw_count (pos + raw p) tl i.
Proof. reflexivity. Qed.

Lemma draw_count_nonneg : forall ps pos i, 0 <= draw_count pos ps i.
Proof. induction ps as [|p tl IH]; intros; cbn [draw_count]; [lia|]. specialize (IH (pos + raw p) i). destruct (drawn_in pos p i); lia. Qed.

(* a part that is as specified at position q does not draw a point that is interior out of range *)
Lemma interior_not_drawn r data q len p i :
  0 <= q -> q + usr p <= zlen data -> part_ok r (zskip q data) len p ->
  interior_out r data i -> q <= i < q + usr p -> False.
Proof.
  intros Hq Hfit Hok [Hout [Hprev Hnext]] Hi.
  assert (Hzn : forall j, 0 <= j -> zn (zskip q data) j = zn data (q + j)) by (intros; apply zn_zskip; lia).
  destruct (ok_drawn _ _ _ _ Hok (i - q) ltac:(lia)) as [Hx|[[Hj [H2 Hx]]|[Hj [H2 Hx]]]].
  - rewrite Hzn in Hx by lia. replace (q + (i - q)) with i in Hx by lia. contradiction.
  - rewrite Hzn in Hx by lia. replace (q + 1) with (i + 1) in Hx by lia. apply Hnext; [lia|exact Hx].
  - rewrite Hzn in Hx by lia. replace (q + (usr p - 2)) with (i - 1) in Hx by lia. apply Hprev; [lia|exact Hx].
Qed.

Lemma inside_drawn r data q len p i :
  0 <= q -> part_ok r (zskip q data) len p -> q <= i < q + raw p -> inr r (zn data i) -> q <= i < q + usr p.
Proof.
  intros Hq Hok Hi Hin.
  pose proof (ok_inside_drawn _ _ _ _ Hok (i - q) ltac:(lia)) as Hd.
  rewrite zn_zskip in Hd by lia. replace (q + (i - q)) with i in Hd by lia. specialize (Hd Hin). lia.
Qed.

Lemma overhang_out r data q len p :
  0 <= q -> part_ok r (zskip q data) len p -> usr p = raw p + 1 -> ~ inr r (zn data (q + raw p)).
Proof.
  intros Hq Hok Hu Hin. apply (ok_overhang _ _ _ _ Hok Hu).
  pose proof (ok_progress _ _ _ _ Hok). rewrite zn_zskip by lia. exact Hin.
Qed.

Definition facts (r : option range) (data : list Q) (q : Z) (before after : list part) : Prop :=
  forall i, q <= i ->
    (draw_count q before i = 0 -> draw_count q after i = 0) /\
    (draw_count q before i = 1 -> inr r (zn data i) -> draw_count q after i = 1) /\
    (interior_out r data i -> draw_count q after i = 0).

(* the records of the existing list draw only points the new dimension has a value for *)
Definition fits (data : list Q) (b : Z) (ps : list part) : Prop :=
  Forall (fun pp => fst pp + usr (snd pp) <= zlen data) (placed b ps).

Lemma merge_points2 r data : forall fuel old olds val len acc g q,
  wfo old -> Forall wfo olds ->
  q = sum_raw g -> 0 <= q -> val = zskip q data -> len = zlen data - q ->
  q + usr old <= zlen data -> q + raw old + sum_raw olds <= zlen data -> fits data (q + raw old) olds ->
  Forall nn acc -> eqv (rev acc) g ->
  (Z.to_nat len + length olds < fuel)%nat ->
  exists ps gf, merge fuel r old olds val len acc = Done ps /\ eqv ps (g ++ gf) /\
    Forall (fun p => 1 <= raw p) gf /\ sum_raw gf = raw old + sum_raw olds /\
    facts r data q (old :: olds) gf.
Proof.
  induction fuel as [|f IH]; intros old olds val len acc g q Hold Holds Hq Hq0 Hval Hlen Hfo Hcov Hfits Hacc He Hfuel; [lia|].
  destruct Hold as [Hr [Hu Hu16]].
  pose proof (sum_raw_nonneg olds (Forall_impl _ wfo_wfp Holds)) as Hsn.
  pose proof (wfo_raw1 olds Holds) as Holds1.
  assert (Hzv : zlen val = len) by (rewrite Hval, zlen_zskip; lia).
  cbn [merge].
  assert (E3 : (len <? usr old) = false) by (apply Z.ltb_ge; lia). rewrite E3.
  destruct (Z.eqb_spec (usr old) 0) as [E0|E0].
  - (* the record draws nothing: passed on *)
    assert (Hnn : nn old) by (unfold nn; lia).
    destruct (emit_sum acc old Hacc Hnn) as [Hes Hen].
    pose proof (emit_eqv acc old g Hacc Hnn He) as He'.
    assert (Hd0 : forall i, drawn_in q old i = false).
    { intro i. destruct (drawn_in q old i) eqn:E; [|reflexivity]. apply drawn_in_iff in E. lia. }
    destruct olds as [|o os].
    + exists (rev (emit acc old)), [old]. split; [reflexivity|]. split; [exact He'|].
      split; [constructor; [lia|constructor]|]. split; [cbn [sum_raw]; lia|].
      intros i Hi. cbn [draw_count]. rewrite Hd0. repeat split; intros; lia.
    + inversion Holds as [|x l Ho Hos]; subst x l. inversion Hfits as [|x l Hfo' Hfos]; subst x l. cbn [fst snd] in Hfo'.
      inversion Holds1 as [|x l Ho1 Hos1]; subst x l.
      pose proof (sum_raw_nonneg os (Forall_impl _ wfo_wfp Hos)) as Hsn'.
      assert (Elt : (raw old <? len) = true) by (apply Z.ltb_lt; cbn [sum_raw] in Hcov; lia). rewrite Elt.
      destruct (IH o os (zskip (raw old) val) (len - raw old) (emit acc old) (g ++ [old]) (q + raw old))
        as [ps [gf' [Hd [Heq [Hg1 [Hgs Hf]]]]]]; auto; try lia.
      * rewrite sum_raw_app. cbn [sum_raw]. lia.
      * rewrite Hval. apply zskip_zskip; lia.
      * cbn [sum_raw] in Hcov. lia.
      * cbn [length] in Hfuel. lia.
      * exists ps, (old :: gf'). split; [exact Hd|]. split; [rewrite <- app_assoc in Heq; exact Heq|].
        split; [constructor; [lia|exact Hg1]|]. split; [cbn [sum_raw]; lia|].
        intros i Hi. rewrite (draw_count_cons q old (o :: os) i), (draw_count_cons q old gf' i), Hd0. cbn [d01]. rewrite !Z.add_0_l.
        destruct (Z_lt_le_dec i (q + raw old)) as [Hlt|Hge].
        -- rewrite (before0 gf' _ i Hlt Hg1). rewrite (before0 (o :: os) _ i Hlt Holds1). repeat split; intros; lia.
        -- apply (Hf i Hge).
  - destruct (linear_ok r val (usr old)) as [pt [Hpt Hok]]; [lia|]. rewrite Hpt.
    pose proof (linear_stop r val (usr old) pt ltac:(lia) Hu16 Hpt) as Hstop.
    pose proof (ok_progress _ _ _ _ Hok) as Hp1. pose proof (ok_usr _ _ _ _ Hok) as Hp2.
    rewrite Hval in Hok.
    set (pt1 := if negb (usr pt =? 0) && (cut pt <? cut old) then mkpart (raw pt) (usr pt) (cut old) (trim pt) else pt).
    set (pt2 := if (usr pt1 =? usr old) && (trim pt1 <? trim old) then mkpart (raw pt1) (usr pt1) (cut pt1) (trim old) else pt1).
    assert (H2 : raw pt2 = raw pt /\ usr pt2 = usr pt).
    { subst pt2 pt1. destruct (negb (usr pt =? 0) && (cut pt <? cut old)); cbn [raw usr];
        match goal with |- context [if ?c then _ else _] => destruct c end; cbn [raw usr]; auto. }
    destruct H2 as [Hr2 Hu2].
    assert (Hdi2 : forall i, drawn_in q pt2 i = drawn_in q pt i) by (intro i; unfold drawn_in; rewrite Hu2; reflexivity).
    (* what the new part draws, in terms of the dimension's data *)
    assert (Hin : forall i, q <= i < q + raw pt -> inr r (zn data i) -> drawn_in q pt i = true).
    { intros i Hi Hx. apply drawn_in_iff. apply (inside_drawn r data q (usr old) pt i Hq0 Hok Hi Hx). }
    assert (Hout : forall i, interior_out r data i -> drawn_in q pt i = false).
    { intros i Hx. destruct (drawn_in q pt i) eqn:E; [|reflexivity]. apply drawn_in_iff in E. exfalso.
      apply (interior_not_drawn r data q (usr old) pt i Hq0 ltac:(lia) Hok Hx E). }
    destruct (Z.ltb_spec (raw pt2) (raw old)) as [Hlt|Hge].
    + (* the old record is only partly used up *)
      assert (Hnn2 : nn pt2) by (unfold nn; lia).
      destruct (emit_sum acc pt2 Hacc Hnn2) as [Hes Hen].
      pose proof (emit_eqv acc pt2 g Hacc Hnn2 He) as He'.
      rewrite !wrap16_small by lia.
      set (old2 := mkpart (raw old - raw pt2) (usr old - raw pt2) 0 (if usr old - raw pt2 =? 0 then 0 else trim old)).
      destruct (IH old2 olds (zskip (raw pt2) val) (len - raw pt2) (emit acc pt2) (g ++ [pt2]) (q + raw pt2))
        as [ps [gf' [Hd [Heq [Hg1 [Hgs Hf]]]]]]; auto; try lia.
      * subst old2. unfold wfo. cbn [raw usr]. lia.
      * rewrite sum_raw_app. cbn [sum_raw]. lia.
      * rewrite Hval. apply zskip_zskip; lia.
      * subst old2. cbn [usr]. lia.
      * subst old2. cbn [raw]. lia.
      * subst old2. cbn [raw]. replace (q + raw pt2 + (raw old - raw pt2)) with (q + raw old) by lia. exact Hfits.
      * exists ps, (pt2 :: gf'). split; [exact Hd|]. split; [rewrite <- app_assoc in Heq; exact Heq|].
        split; [constructor; [lia|exact Hg1]|]. split; [subst old2; cbn [sum_raw raw] in *; lia|].
        intros i Hi. rewrite (draw_count_cons q old olds i), (draw_count_cons q pt2 gf' i), Hdi2. rewrite Hr2 in *.
        assert (Hold2 : draw_count (q + raw pt) (old2 :: olds) i
                        = d01 (drawn_in (q + raw pt) old2 i) + draw_count (q + raw old) olds i).
        { rewrite draw_count_cons. subst old2. cbn [raw]. rewrite Hr2.
          replace (q + raw pt + (raw old - raw pt)) with (q + raw old) by lia. reflexivity. }
        destruct (Z_lt_le_dec i (q + raw pt)) as [Hc|Hc].
        -- (* consumed by the new part *)
           rewrite (before0 gf' _ i Hc Hg1). rewrite (before0 olds (q + raw old) i ltac:(lia) Holds1).
           assert (Hdo : drawn_in q old i = true) by (apply drawn_in_iff; lia). rewrite Hdo. cbn [d01].
           split; [intros; lia|]. split.
           ++ intros _ Hx. rewrite (Hin i ltac:(lia) Hx). reflexivity.
           ++ intros Hx. rewrite (Hout i Hx). reflexivity.
        -- (* behind it: the new part reaches it only by an overhanging last point *)
           destruct (Hf i Hc) as [Hfa [Hfc Hfd]]. rewrite Hold2 in Hfa, Hfc.
           assert (Hsame : drawn_in (q + raw pt) old2 i = drawn_in q old i).
           { unfold drawn_in. subst old2. cbn [usr]. rewrite Hr2.
             replace (q + raw pt + (usr old - raw pt)) with (q + usr old) by lia.
             destruct (Z.leb_spec (q + raw pt) i), (Z.leb_spec q i); try reflexivity; lia. }
           rewrite Hsame in Hfa, Hfc.
           assert (Hover : drawn_in q pt i = true -> i = q + raw pt /\ usr pt = raw pt + 1 /\ drawn_in q old i = true).
           { intro E. apply drawn_in_iff in E. split; [lia|]. split; [lia|]. apply drawn_in_iff. lia. }
           split; [|split].
           ++ intro H0. pose proof (draw_count_nonneg olds (q + raw old) i).
              destruct (drawn_in q old i) eqn:Eo; cbn [d01] in *; [lia|].
              destruct (drawn_in q pt i) eqn:Ep; [destruct (Hover eq_refl) as [_ [_ Hx]]; congruence|].
              cbn [d01]. rewrite Hfa; lia.
           ++ intros H1 Hx.
              destruct (drawn_in q pt i) eqn:Ep.
              ** exfalso. destruct (Hover eq_refl) as [Hi' [Hu' _]]. subst i.
                 apply (overhang_out r data q (usr old) pt Hq0 Hok Hu' Hx).
              ** cbn [d01]. rewrite (Hfc H1 Hx). reflexivity.
           ++ intro Hx. rewrite (Hout i Hx). cbn [d01]. rewrite (Hfd Hx). reflexivity.
    + (* the old record is used up *)
      assert (HW : raw pt = usr old) by lia.
      set (pt3 := if raw old <? raw pt2 then mkpart (raw old) (usr pt2) (cut pt2) (trim pt2) else pt2).
      assert (H3 : raw pt3 = raw old /\ usr pt3 = usr pt).
      { subst pt3. destruct (Z.ltb_spec (raw old) (raw pt2)); cbn [raw usr]; lia. }
      destruct H3 as [Hr3 Hu3].
      assert (Hdi3 : forall i, drawn_in q pt3 i = drawn_in q pt i) by (intro i; unfold drawn_in; rewrite Hu3; reflexivity).
      assert (Hnn3 : nn pt3) by (unfold nn; lia).
      destruct (emit_sum acc pt3 Hacc Hnn3) as [Hes Hen].
      pose proof (emit_eqv acc pt3 g Hacc Hnn3 He) as He'.
      destruct olds as [|o os].
      * exists (rev (emit acc pt3)), [pt3]. split; [reflexivity|]. split; [exact He'|].
        split; [constructor; [lia|constructor]|]. split; [cbn [sum_raw]; lia|].
        intros i Hi. cbn [draw_count]. rewrite Hdi3, !Z.add_0_r.
        split; [|split].
        -- intro H0. destruct (drawn_in q pt i) eqn:Ep; [|reflexivity]. apply drawn_in_iff in Ep.
           assert (drawn_in q old i = true) by (apply drawn_in_iff; lia). rewrite H in H0. discriminate.
        -- intros H1 Hx. destruct (drawn_in q old i) eqn:Eo; [|discriminate]. apply drawn_in_iff in Eo.
           rewrite (Hin i ltac:(lia) Hx). reflexivity.
        -- intro Hx. rewrite (Hout i Hx). reflexivity.
      * inversion Holds as [|x l Ho Hos]; subst x l. inversion Hfits as [|x l Hfo' Hfos]; subst x l. cbn [fst snd] in Hfo'.
        destruct (IH o os (zskip (raw pt3) val) (len - raw pt3) (emit acc pt3) (g ++ [pt3]) (q + raw old))
          as [ps [gf' [Hd [Heq [Hg1 [Hgs Hf]]]]]]; auto; try lia.
        -- rewrite sum_raw_app. cbn [sum_raw]. lia.
        -- rewrite Hval, Hr3. apply zskip_zskip; lia.
        -- cbn [sum_raw] in Hcov. lia.
        -- cbn [length] in Hfuel. lia.
        -- exists ps, (pt3 :: gf'). split; [exact Hd|]. split; [rewrite <- app_assoc in Heq; exact Heq|].
           split; [constructor; [lia|exact Hg1]|]. split; [cbn [sum_raw]; lia|].
           intros i Hi. rewrite (draw_count_cons q old (o :: os) i), (draw_count_cons q pt3 gf' i), Hdi3, Hr3.
           destruct (Z_lt_le_dec i (q + raw old)) as [Hc|Hc].
           ++ rewrite (before0 gf' _ i Hc Hg1). rewrite (before0 (o :: os) _ i Hc Holds1).
              assert (Hdo : drawn_in q old i = true) by (apply drawn_in_iff; lia). rewrite Hdo. cbn [d01].
              split; [intros; lia|]. split.
              ** intros _ Hx. rewrite (Hin i ltac:(lia) Hx). reflexivity.
              ** intros Hx. rewrite (Hout i Hx). reflexivity.
           ++ destruct (Hf i Hc) as [Hfa [Hfc Hfd]].
              assert (Hover : drawn_in q pt i = true -> i = q + raw old /\ usr old = raw old + 1 /\ drawn_in q old i = true).
              { intro E. apply drawn_in_iff in E. split; [lia|]. split; [lia|]. apply drawn_in_iff. lia. }
              pose proof (draw_count_nonneg (o :: os) (q + raw old) i) as Hnn'.
              split; [|split].
              ** intro H0. destruct (drawn_in q old i) eqn:Eo; cbn [d01] in *; [lia|].
                 destruct (drawn_in q pt i) eqn:Ep; [destruct (Hover eq_refl) as [_ [_ Hx]]; congruence|].
                 cbn [d01]. rewrite Hfa; lia.
              ** intros H1 Hx. destruct (drawn_in q old i) eqn:Eo; cbn [d01] in *.
                 --- (* the overhanging last point of the old record *)
                     apply drawn_in_iff in Eo. assert (Hi' : i = q + raw old) by lia.
                     rewrite (Hin i ltac:(lia) Hx). cbn [d01]. rewrite Hfa; lia.
                 --- destruct (drawn_in q pt i) eqn:Ep; [destruct (Hover eq_refl) as [_ [_ Hy]]; congruence|].
                     cbn [d01]. rewrite (Hfc ltac:(lia) Hx). reflexivity.
              ** intro Hx. rewrite (Hout i Hx). cbn [d01]. rewrite (Hfd Hx). reflexivity.
Qed.

Lemma apply_points2 r olds data ps :
  Forall wfo olds -> olds <> [] -> sum_raw olds <= zlen data -> fits data 0 olds ->
  apply olds r data = Done ps ->
  sum_raw ps = sum_raw olds /\
  forall i, 0 <= i ->
    (draw_count 0 olds i = 0 -> draw_count 0 ps i = 0) /\
    (draw_count 0 olds i = 1 -> inr r (zn data i) -> draw_count 0 ps i = 1) /\
    (interior_out r data i -> draw_count 0 ps i = 0).
Proof.
  intros Hw Hne Hcov Hfits. unfold apply.
  destruct olds as [|o os]; [congruence|].
  inversion Hw as [|x l Ho Hos]; subst x l.
  pose proof (sum_raw_nonneg os (Forall_impl _ wfo_wfp Hos)) as Hsn.
  assert (Hn : 0 < zlen data) by (cbn [sum_raw] in Hcov; destruct Ho; lia).
  destruct (Z.eqb_spec (zlen data) 0) as [E|_]; [lia|].
  unfold fits in Hfits. cbn [placed] in Hfits. inversion Hfits as [|x l Hfo Hfos]; subst x l. cbn [fst snd] in Hfo.
  destruct (merge_points2 r data (length data + length (o :: os)) o os data (zlen data) [] [] 0)
    as [ps' [gf [Hd [Heq [Hg1 [Hgs Hf]]]]]]; auto; try (cbn [sum_raw] in Hcov; lia).
  - split; [reflexivity|]. intros; reflexivity.
  - unfold zlen. cbn [length]. lia.
  - intro H. rewrite Hd in H. inversion H; subst ps'. cbn [app] in Heq. destruct Heq as [Hs Hdc].
    split; [rewrite Hs, Hgs; reflexivity|].
    intros i Hi. rewrite Hdc. apply (Hf i Hi).
Qed.
