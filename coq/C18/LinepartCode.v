(* C18 — proofs about the 16-bit fraction encoding and the crossing fractions. *)
From Coq Require Import ZArith QArith Qround Qabs List Bool Lia Lqa.
From MptV Require Import C18.LinepartModel C18.LinepartSpec.
Import ListNotations.
Local Open Scope Z_scope.

(* ---- comparisons ---- *)
Lemma Qltb_true a b : Qltb a b = true <-> (a < b)%Q.
Proof.
  unfold Qltb. rewrite negb_true_iff. split; intro H.
  - apply Qnot_le_lt. intro L. apply Qle_bool_iff in L. congruence.
  - destruct (Qle_bool b a) eqn:E; auto. apply Qle_bool_iff in E. exfalso. eapply Qlt_not_le; eauto.
Qed.
Lemma Qltb_false a b : Qltb a b = false <-> (b <= a)%Q.
Proof.
  unfold Qltb. rewrite negb_false_iff. apply Qle_bool_iff.
Qed.
Lemma Qleb_true a b : Qleb a b = true <-> (a <= b)%Q.
Proof. apply Qle_bool_iff. Qed.

Lemma within_iff r v : within r v = true <-> (rmin r <= v /\ v <= rmax r)%Q.
Proof. unfold within. rewrite andb_true_iff, !Qleb_true. tauto. Qed.
Lemma within_out r v : within r v = negb (below r v || above r v).
Proof.
  unfold within, below, above, Qltb, Qleb. rewrite negb_orb, !negb_involutive. reflexivity.
Qed.
Lemma inb_some r v : inb (Some r) v = within r v.
Proof. reflexivity. Qed.
Lemma below_iff r v : below r v = true <-> (v < rmin r)%Q.
Proof. apply Qltb_true. Qed.
Lemma above_iff r v : above r v = true <-> (rmax r < v)%Q.
Proof. apply Qltb_true. Qed.

(* ---- wrap ---- *)
Lemma wrap16_small z : 0 <= z <= 65535 -> wrap16 z = z.
Proof. intros. unfold wrap16. apply Z.mod_small. lia. Qed.

(* ---- code ---- *)
Lemma Qnum_nonneg x : (0 <= x)%Q <-> 0 <= Qnum x.
Proof. unfold Qle. cbn. rewrite Z.mul_1_r. tauto. Qed.

Lemma Qtrunc_floor x : (0 <= x)%Q -> Qtrunc x = Qfloor x.
Proof.
  intro H. apply Qnum_nonneg in H. destruct x as [n d]. unfold Qtrunc, Qfloor. cbn in *.
  apply Z.quot_div_nonneg; lia.
Qed.

Lemma code_spec_range x : (0 <= x)%Q -> 0 <= code_spec x <= 65535.
Proof.
  intro H. unfold code_spec. split; [|apply Z.le_min_l].
  apply Z.min_glb; [lia|].
  rewrite <- (Qfloor_Z 0). apply Qfloor_resp_le.
  change (inject_Z 0) with 0%Q. nra.
Qed.

Lemma code_unit x : (0 <= x <= 1)%Q -> linepart_code x = code_spec x.
Proof.
  intros [H0 H1]. unfold linepart_code.
  assert (E0 : Qltb x 0 = false) by (apply Qltb_false; auto).
  assert (E1 : Qltb 1 x = false) by (apply Qltb_false; auto).
  rewrite E0, E1. cbn [orb].
  assert (Hs : (0 <= x * q65536)%Q) by (unfold q65536; nra).
  destruct (negb (Qeq_bool x 0) && Qeq_bool (x * q65536) 0) eqn:Ez.
  - exfalso. apply andb_true_iff in Ez. destruct Ez as [Ea Eb].
    apply negb_true_iff in Ea. apply Qeq_bool_iff in Eb.
    assert (x == 0)%Q by (unfold q65536 in Eb; nra).
    apply Qeq_bool_iff in H. congruence.
  - unfold code_spec. change (65536 # 1)%Q with q65536.
    destruct (Qltb q65535 (x * q65536)) eqn:El.
    + apply Qltb_true in El. unfold U16MAX. symmetry. apply Z.min_l.
      rewrite <- (Qfloor_Z 65535). apply Qfloor_resp_le. unfold q65535 in El.
      change (inject_Z 65535) with (65535 # 1)%Q. lra.
    + apply Qltb_false in El. rewrite Qtrunc_floor by auto. symmetry. apply Z.min_r.
      rewrite <- (Qfloor_Z 65535). apply Qfloor_resp_le. exact El.
Qed.

Lemma code_unit_wrap x : (0 <= x <= 1)%Q -> wrap16 (linepart_code x) = code_spec x.
Proof.
  intro H. rewrite code_unit by auto. apply wrap16_small. apply code_spec_range. tauto.
Qed.

Lemma code_outside x : ~ (0 <= x <= 1)%Q -> linepart_code x = -2.
Proof.
  intro H. unfold linepart_code.
  destruct (Qltb x 0) eqn:E0; [reflexivity|].
  destruct (Qltb 1 x) eqn:E1; [reflexivity|].
  apply Qltb_false in E0, E1. tauto.
Qed.

Lemma code_spec_comp x y : (x == y)%Q -> code_spec x = code_spec y.
Proof. intro H. unfold code_spec. rewrite H. reflexivity. Qed.

(* the coded value is the floor of 65536 x clipped to 16 bits, and decodes to within 2^-16 of x *)
Lemma code_precision x : (0 <= x <= 1)%Q ->
  (Qabs (real_spec (code_spec x) - x) <= 1 # 65536)%Q.
Proof.
  intros [H0 H1].
  pose proof (Qfloor_le (x * (65536 # 1))) as Hf.
  pose proof (Qlt_floor (x * (65536 # 1))) as Hg.
  rewrite inject_Z_plus in Hg. change (inject_Z 1) with 1%Q in Hg.
  assert (Hr : forall c, (real_spec c * (65536 # 1) == inject_Z c)%Q).
  { intro c. unfold real_spec, Qeq, Qmult, inject_Z. cbn [Qnum Qden]. lia. }
  apply Qabs_Qle_condition.
  unfold code_spec.
  destruct (Z.min_spec 65535 (Qfloor (x * (65536 # 1)))) as [[Hlt Hm]|[Hle Hm]]; rewrite Hm.
  - (* clipped: floor >= 65536 means x = 1 *)
    assert (Hi : (inject_Z 65536 <= inject_Z (Qfloor (x * (65536 # 1))))%Q).
    { rewrite <- Zle_Qle. lia. }
    change (inject_Z 65536) with (65536 # 1)%Q in Hi.
    specialize (Hr 65535). change (inject_Z 65535) with (65535 # 1)%Q in Hr.
    split; lra.
  - specialize (Hr (Qfloor (x * (65536 # 1)))).
    split; lra.
Qed.

Lemma real_model_spec c : (linepart_real c == real_spec c)%Q.
Proof.
  unfold linepart_real, real_spec, q65536, Qdiv, Qinv, Qmult, Qeq, inject_Z. cbn [Qnum Qden]. lia.
Qed.

(* ---- crossings ---- *)
Section Cross.
Variable r : range.
Variables o v : Q.
Hypothesis Hv : within r v = true.

Lemma cross_below : below r o = true ->
  (0 < cross r o v <= 1)%Q /\ (o + cross r o v * (v - o) == rmin r)%Q /\
  (cross r o v == (rmin r - o) / (v - o))%Q.
Proof.
  intro Hb. apply below_iff in Hb. apply within_iff in Hv. destruct Hv as [Ha Hc].
  unfold cross, bound_of.
  assert (E : Qle_bool (rmin r) o = false).
  { destruct (Qle_bool (rmin r) o) eqn:E; auto. apply Qle_bool_iff in E. lra. }
  rewrite E.
  assert (Hd : (0 < v - o)%Q) by lra.
  split; [split|split].
  - apply Qlt_shift_div_l; auto. lra.
  - apply Qle_shift_div_r; auto. lra.
  - field. lra.
  - reflexivity.
Qed.

Lemma cross_above : below r o = false -> above r o = true ->
  (0 < cross r o v <= 1)%Q /\ (o + cross r o v * (v - o) == rmax r)%Q /\
  (cross r o v == (o - rmax r) / (o - v))%Q.
Proof.
  intros Hb Ha. apply Qltb_false in Hb. apply above_iff in Ha. apply within_iff in Hv. destruct Hv as [Hc Hd].
  unfold cross, bound_of.
  assert (E : Qle_bool (rmin r) o = true) by (apply Qle_bool_iff; auto).
  rewrite E.
  assert (He : (0 < o - v)%Q) by lra.
  assert (Heq : ((rmax r - o) / (v - o) == (o - rmax r) / (o - v))%Q) by (field; split; lra).
  split; [split|split].
  - rewrite Heq. apply Qlt_shift_div_l; auto. lra.
  - rewrite Heq. apply Qle_shift_div_r; auto. lra.
  - field. lra.
  - exact Heq.
Qed.
End Cross.

(* what the C writes into _cut/_trim for an outside point [o] next to an inside point [v] *)
Definition edge_code (r : range) (o v : Q) : Z :=
  if below r o then wrap16 (linepart_code ((rmin r - o) / (v - o))%Q)
  else wrap16 (linepart_code ((o - rmax r) / (o - v))%Q).

Lemma edge_code_spec r o v : within r v = true -> within r o = false ->
  edge_code r o v = code_spec (cross r o v).
Proof.
  intros Hv Ho. unfold edge_code. rewrite within_out in Ho. apply negb_false_iff in Ho.
  destruct (below r o) eqn:Eb.
  - destruct (cross_below r o v Hv Eb) as [Hr [_ He]].
    rewrite (code_spec_comp _ _ He). apply code_unit_wrap. rewrite <- He. split; [apply Qlt_le_weak|]; tauto.
  - cbn in Ho. destruct (cross_above r o v Hv Eb Ho) as [Hr [_ He]].
    rewrite (code_spec_comp _ _ He). apply code_unit_wrap. rewrite <- He. split; [apply Qlt_le_weak|]; tauto.
Qed.
