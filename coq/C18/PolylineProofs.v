(* C18 — polyline::set for one dimension: the model of polyline.cpp never reads outside the data and
   produces exactly the points PolylineSpec.v asks for; the part iterator tiles them; a clipped end
   point lies on the range boundary to the precision of the 16-bit fraction. *)
From Coq Require Import ZArith QArith Qabs List Bool Lia Lqa.
From MptV Require Import C18.LinepartModel C18.LinepartSpec C18.LinepartCode C18.LinepartLocal C18.LinepartGlobal
  C18.LinepartMerge C18.PolylineModel C18.PolylineSpec C18.PolylineSegs.
Import ListNotations.
Local Open Scope Z_scope.

(* ---- lists ---- *)
Lemma take_ok : forall n l, (n <= length l)%nat -> take n l = Ok (firstn n l).
Proof.
  induction n as [|n IH]; intros l H; [reflexivity|].
  destruct l as [|v tl]; [cbn in H; lia|]. cbn [take firstn]. rewrite IH by (cbn in H; lia). reflexivity.
Qed.

Lemma clip_from_length : forall w j u f l, length (clip_from j u f l w) = length w.
Proof. induction w as [|v tl IH]; intros; cbn [clip_from length]; [reflexivity|]. rewrite IH. reflexivity. Qed.

Lemma clip_from_nth : forall w j u f l k d, (k < length w)%nat ->
  nth k (clip_from j u f l w) d =
  match (if j + Z.of_nat k =? 0 then f else None) with
  | Some x => x
  | None => match (if j + Z.of_nat k =? u - 1 then l else None) with Some x => x | None => nth k w d end
  end.
Proof.
  induction w as [|v tl IH]; intros j u f l k d Hk; [cbn in Hk; lia|].
  destruct k as [|k]; cbn [clip_from nth].
  - replace (j + Z.of_nat 0) with j by lia. reflexivity.
  - rewrite IH by (cbn in Hk; lia). replace (j + 1 + Z.of_nat k) with (j + Z.of_nat (S k)) by lia. reflexivity.
Qed.

Lemma Forall2_pointwise {A B} (R : A -> B -> Prop) (da : A) (db : B) : forall la lb,
  length la = length lb -> (forall k, (k < length la)%nat -> R (nth k la da) (nth k lb db)) -> Forall2 R la lb.
Proof.
  induction la as [|a la IH]; intros lb Hl H; destruct lb as [|b lb]; try discriminate; constructor.
  - apply (H 0%nat). cbn. lia.
  - apply IH; [cbn in Hl; lia|]. intros k Hk. apply (H (S k)). cbn. lia.
Qed.

Lemma Forall2_app' {A B} (R : A -> B -> Prop) la lb la' lb' :
  Forall2 R la lb -> Forall2 R la' lb' -> Forall2 R (la ++ la') (lb ++ lb').
Proof. induction 1; intros; cbn [app]; [assumption|constructor; auto]. Qed.

Lemma Forall2_len {A B} (R : A -> B -> Prop) la lb : Forall2 R la lb -> length la = length lb.
Proof. induction 1; cbn; lia. Qed.

Lemma zrange_length n : length (zrange n) = Z.to_nat n.
Proof. unfold zrange. rewrite map_length, seq_length. reflexivity. Qed.

Lemma zrange_nth n k d : (k < Z.to_nat n)%nat -> nth k (zrange n) d = Z.of_nat k.
Proof.
  intro H. unfold zrange. rewrite (nth_indep _ d (Z.of_nat 0)) by (rewrite map_length, seq_length; exact H).
  rewrite map_nth, seq_nth by exact H. reflexivity.
Qed.

Lemma nth_firstn_lt {A} (d : A) : forall n k (l : list A), (k < n)%nat -> nth k (firstn n l) d = nth k l d.
Proof.
  induction n as [|n IH]; intros k l H; [lia|].
  destruct l as [|v tl]; [destruct k; reflexivity|]. destruct k; [reflexivity|]. cbn [firstn nth]. apply IH. lia.
Qed.

(* ---- one part ---- *)
Lemma part_contrib_ok data pos p :
  0 <= pos -> 0 <= usr p -> pos + usr p <= zlen data ->
  (cut p <> 0 -> 2 <= usr p) -> (trim p <> 0 -> 2 <= usr p) ->
  exists l, part_contrib p (zskip pos data) = Ok l /\
            Forall2 Qeq l (map (drawn_value data pos p) (zrange (usr p))).
Proof.
  intros Hpos Hu Hfit Hc2 Ht2. unfold part_contrib.
  destruct (Z.eqb_spec (usr p) 0) as [E0|E0].
  - exists []. split; [reflexivity|]. rewrite E0. constructor.
  - assert (Hg : ((negb (cut p =? 0) || negb (trim p =? 0)) && (usr p <? 2)) = false).
    { destruct (Z.eqb_spec (cut p) 0) as [Ec|Ec]; destruct (Z.eqb_spec (trim p) 0) as [Et|Et]; cbn [negb orb andb];
        try reflexivity; apply Z.ltb_ge; auto. }
    rewrite Hg.
    assert (Hlen : (Z.to_nat (usr p) <= length (zskip pos data))%nat).
    { pose proof (zlen_zskip data pos ltac:(pose proof (zlen_nonneg data); lia)) as Hz. unfold zlen in *. lia. }
    rewrite (take_ok _ _ Hlen).
    set (w := firstn (Z.to_nat (usr p)) (zskip pos data)).
    assert (Hwl : length w = Z.to_nat (usr p)) by (subst w; rewrite firstn_length; lia).
    assert (Hwn : forall i, 0 <= i < usr p -> wn w i = zn data (pos + i)).
    { intros i Hi. unfold wn. subst w. rewrite nth_firstn_lt by lia.
      change (nth (Z.to_nat i) (zskip pos data) (0 # 1)%Q) with (zn (zskip pos data) i). apply zn_zskip; lia. }
    eexists. split; [reflexivity|].
    apply (Forall2_pointwise Qeq (0 # 1)%Q (0 # 1)%Q).
    + rewrite clip_from_length, map_length, zrange_length. exact Hwl.
    + intros k Hk. rewrite clip_from_length in Hk.
      rewrite clip_from_nth by exact Hk.
      rewrite (nth_indep (map (drawn_value data pos p) (zrange (usr p))) (0 # 1)%Q (drawn_value data pos p 0))
        by (rewrite map_length, zrange_length; lia).
      rewrite map_nth, zrange_nth by lia.
      rewrite Z.add_0_l. unfold drawn_value.
      destruct (Z.eqb_spec (Z.of_nat k) 0) as [Ek|Ek].
      * destruct (Z.eqb_spec (cut p) 0) as [Ec|Ec]; cbn [negb andb].
        -- (* first point, no cut *)
           destruct (Z.eqb_spec (Z.of_nat k) (usr p - 1)) as [Ek1|Ek1].
           ++ destruct (Z.eqb_spec (trim p) 0) as [Et|Et]; cbn [negb andb].
              ** change (nth k w (0 # 1)%Q) with (nth k w (0 # 1)%Q).
                 replace k with (Z.to_nat (Z.of_nat k)) at 1 by lia. fold (wn w (Z.of_nat k)). rewrite Hwn by lia. reflexivity.
              ** specialize (Ht2 Et). lia.
           ++ replace k with (Z.to_nat (Z.of_nat k)) at 1 by lia. fold (wn w (Z.of_nat k)). rewrite Hwn by lia. reflexivity.
        -- specialize (Hc2 Ec). rewrite !Hwn by lia. rewrite real_model_spec.
           replace (pos + 0) with pos by lia. reflexivity.
      * cbn [andb].
        destruct (Z.eqb_spec (Z.of_nat k) (usr p - 1)) as [Ek1|Ek1].
        -- destruct (Z.eqb_spec (trim p) 0) as [Et|Et]; cbn [negb andb].
           ++ replace k with (Z.to_nat (Z.of_nat k)) at 1 by lia. fold (wn w (Z.of_nat k)). rewrite Hwn by lia. reflexivity.
           ++ specialize (Ht2 Et). rewrite !Hwn by lia. rewrite real_model_spec. rewrite Ek1.
              replace (pos + (usr p - 1) - 1) with (pos + (usr p - 2)) by lia. reflexivity.
        -- replace k with (Z.to_nat (Z.of_nat k)) at 1 by lia. fold (wn w (Z.of_nat k)). rewrite Hwn by lia. reflexivity.
Qed.

(* ---- apply_data over the part list ---- *)
(* behind the data nothing is drawn *)
Lemma drawn_values_behind r data : forall ps pos, zlen data <= pos -> segs_ok r data pos ps -> drawn_values data pos ps = [].
Proof.
  induction ps as [|p tl IH]; intros pos Hpos H; [reflexivity|].
  unfold segs_ok in H. cbn [placed] in H. inversion H as [|x l Hp Htl]; subst x l. cbn [fst snd] in Hp.
  destruct Hp as [_ Hp2 _ Hp3 _ _ _ _].
  cbn [drawn_values]. assert (E : usr p = 0) by lia. rewrite E. cbn [zrange Z.to_nat seq map app].
  apply IH; [lia|exact Htl].
Qed.

(* [max] = what is left of the dimension at position [pos] *)
Lemma data_parts_ok r data : forall ps pos, pos < zlen data -> segs_ok r data pos ps ->
  exists sh, data_parts ps (zskip pos data) (zlen data - pos) = Ok sh /\ Forall2 Qeq sh (drawn_values data pos ps).
Proof.
  induction ps as [|p tl IH]; intros pos Hlt H.
  - exists []. split; [reflexivity|constructor].
  - unfold segs_ok in H. cbn [placed] in H. inversion H as [|x l Hp Htl]; subst x l. cbn [fst snd] in Hp.
    destruct Hp as [Hp1 Hp2 _ Hp3 Hp4 Hp5 _ _].
    cbn [data_parts drawn_values].
    assert (E : (zlen data - pos <? usr p) = false) by (apply Z.ltb_ge; lia). rewrite E.
    destruct (part_contrib_ok data pos p) as [a [Ha Ha2]]; auto; try lia. rewrite Ha.
    destruct (Z.leb_spec (zlen data - pos - raw p) 0) as [Eend|Emore].
    + (* the data ends with this part: the loop breaks, the parts behind draw nothing *)
      rewrite (drawn_values_behind r data tl (pos + raw p)) by (try lia; exact Htl).
      rewrite app_nil_r. exists a. split; [reflexivity|exact Ha2].
    + destruct (IH (pos + raw p) ltac:(lia) Htl) as [b [Hb Hb2]].
      rewrite zskip_zskip by lia.
      replace (zlen data - pos - raw p) with (zlen data - (pos + raw p)) by lia. rewrite Hb.
      exists (a ++ b). split; [reflexivity|]. apply Forall2_app'; assumption.
Qed.

(* ---- the counters ---- *)
Lemma sum_usr_m_eq ps : sum_usr_m ps = sum_usr ps.
Proof. induction ps as [|p tl IH]; cbn; [reflexivity|]. unfold sum_usr_m in IH. rewrite IH. reflexivity. Qed.

Lemma drawn_values_length r data : forall ps pos, segs_ok r data pos ps ->
  Z.of_nat (length (drawn_values data pos ps)) = sum_usr ps.
Proof.
  induction ps as [|p tl IH]; intros pos H; [reflexivity|].
  unfold segs_ok in H. cbn [placed] in H. inversion H as [|x l Hp Htl]; subst x l. cbn [fst snd] in Hp.
  destruct Hp as [_ _ _ Hp3 _ _ _ _].
  cbn [drawn_values sum_usr]. rewrite app_length, map_length, zrange_length, Nat2Z.inj_add, (IH _ Htl). lia.
Qed.

Lemma fit_id : forall l, fit (length l) l = l.
Proof. induction l as [|v tl IH]; cbn [fit length]; [reflexivity|]. rewrite IH. reflexivity. Qed.

Lemma add_share_origin : forall sh,
  add_share 0 (origin (Z.of_nat (length sh))) sh = map (fun v => ((0 # 1) + v, (0 # 1))%Q) sh.
Proof.
  intro sh. unfold origin. rewrite Nat2Z.id.
  induction sh as [|v tl IH]; cbn [length repeat add_share map]; [reflexivity|].
  rewrite IH. reflexivity.
Qed.

(* ---- polyline::set with one store of doubles ---- *)
Definition point_is (pt : Q * Q) (v : Q) : Prop := (fst pt == v)%Q /\ (snd pt == 0)%Q.

Lemma polyline_set_one st r data : data <> [] ->
  exists ps, run_merged r data = Done ps /\ segs_ok r data 0 ps /\ sum_raw ps = zlen data /\
    ((sum_usr ps = 0 /\ polyline_set st [SData r data] = SetOk false (mkps ps [])) \/
     (0 < sum_usr ps /\ exists pts, polyline_set st [SData r data] = SetOk true (mkps ps pts) /\
        Forall2 point_is pts (drawn_values data 0 ps))).
Proof.
  intro Hne.
  destruct (run_merged_ok r data) as [ps [Hd Hsum]]. exists ps.
  destruct (run_merged_segs r data ps Hd) as [Hseg _].
  split; [exact Hd|]. split; [exact Hseg|]. split; [exact Hsum|].
  assert (Hn : 0 < zlen data).
  { destruct data; [congruence|]. unfold zlen. cbn [length]. lia. }
  unfold polyline_set. unfold maxsize. cbn [maxsize_from].
  destruct (Z.ltb_spec (-1) (zlen data)) as [_|E]; [|lia].
  destruct (Z.leb_spec (zlen data) 0) as [E|_]; [lia|].
  unfold array_set. destruct (Z.eqb_spec (zlen data) 0) as [E|_]; [lia|].
  destruct (Z.ltb_spec (zlen data) 0) as [E|_]; [lia|].
  cbn [vis_loop_stores]. unfold vis_apply. change (3 <=? 0) with false. cbv iota.
  change (apply (set_parts (zlen data)) r data) with (run_merged r data). rewrite Hd.
  replace (sum_usr_m ps) with (sum_usr ps) by (symmetry; apply sum_usr_m_eq).
  pose proof (drawn_values_length r data ps 0 Hseg) as Hlen.
  destruct (Z.eqb_spec (sum_usr ps) 0) as [E|E].
  - left. split; [exact E|reflexivity].
  - right.
    assert (Hpos : 0 < sum_usr ps) by lia.
    split; [exact Hpos|].
    destruct (data_parts_ok r data ps 0 Hn Hseg) as [sh [Hsh Hsh2]].
    unfold zskip in Hsh. cbn [Z.to_nat skipn] in Hsh. rewrite Z.sub_0_r in Hsh.
    unfold apply_data_parts. cbn [apply_data_loop]. change (3 <=? 0) with false. cbv iota.
    destruct (Z.eqb_spec (zlen data) 0) as [E'|_]; [lia|].
    rewrite Hsh. cbn [apply_data_loop].
    eexists. split; [reflexivity|].
    pose proof (Forall2_len _ _ _ Hsh2) as Hl.
    assert (Hn2 : Z.to_nat (sum_usr ps) = length sh) by lia.
    rewrite Hn2, fit_id.
    replace (sum_usr ps) with (Z.of_nat (length sh)) by lia.
    rewrite add_share_origin.
    clear -Hsh2. induction Hsh2 as [|a b la lb Hab _ IH]; cbn [map]; constructor; auto.
    split; cbn [fst snd]; [rewrite Hab; ring|reflexivity].
Qed.

(* ---- the iterator ---- *)
Definition view_tuple (v : view) : Z * Z * Z * Z := (line_off v, line_len v, pts_off v, pts_len v).

Definition plain (p : part) : Prop :=
  0 <= usr p <= 65535 /\ (cut p <> 0 -> 2 <= usr p) /\ (trim p <> 0 -> 2 <= usr p).

Lemma part_view_tuple off p : plain p ->
  view_tuple (part_view off p) =
  (off, usr p, off + (if cut p =? 0 then 0 else 1), usr p - (if cut p =? 0 then 0 else 1) - (if trim p =? 0 then 0 else 1)).
Proof.
  intros [Hu [Hc Ht]]. unfold view_tuple, part_view. cbn [line_off line_len pts_off pts_len].
  f_equal. apply Z.mod_small. unfold two64.
  destruct (Z.eqb_spec (cut p) 0) as [Ec|Ec]; destruct (Z.eqb_spec (trim p) 0) as [Et|Et];
    try specialize (Hc Ec); try specialize (Ht Et); lia.
Qed.

Lemma iter_walk_ok : forall ps off, Forall plain ps ->
  exists k vs, iter_walk ps off (off + sum_usr ps) = WDone vs /\
    map view_tuple vs = views_of off (firstn k ps) /\ Forall (fun p => usr p = 0) (skipn k ps).
Proof.
  induction ps as [|p tl IH]; intros off H.
  - exists 0%nat, []. cbn [iter_walk sum_usr]. rewrite Z.add_0_r, Z.eqb_refl. repeat split; constructor.
  - inversion H as [|x l Hp Htl]; subst x l.
    assert (Hs : 0 <= sum_usr tl).
    { clear -Htl. induction Htl as [|q l [Hq _] _ IH]; cbn [sum_usr]; lia. }
    cbn [iter_walk sum_usr].
    destruct (Z.eqb_spec off (off + (usr p + sum_usr tl))) as [E|E].
    + (* nothing left to draw: every remaining part is invisible *)
      exists 0%nat, []. split; [reflexivity|]. split; [reflexivity|]. cbn [skipn].
      destruct Hp as [Hu _].
      assert (Hu0 : usr p = 0) by lia. assert (Hs0 : sum_usr tl = 0) by lia.
      constructor; [exact Hu0|].
      clear -Htl Hs0. induction Htl as [|q l [Hq _] Hl IH]; [constructor|]. cbn [sum_usr] in Hs0.
      assert (0 <= sum_usr l).
      { clear -Hl. induction Hl as [|q' l' [Hq' _] _ IH']; cbn [sum_usr]; lia. }
      constructor; [lia|apply IH; lia].
    + destruct (IH (off + usr p) Htl) as [k [vs [Hw [Hv Hz]]]].
      replace (off + (usr p + sum_usr tl)) with (off + usr p + sum_usr tl) by lia. rewrite Hw.
      exists (S k), (part_view off p :: vs). split; [reflexivity|]. split; [|exact Hz].
      cbn [map firstn views_of]. rewrite (part_view_tuple off p Hp), Hv. reflexivity.
Qed.

Lemma segs_plain r data : forall ps pos, segs_ok r data pos ps -> Forall plain ps.
Proof.
  induction ps as [|p tl IH]; intros pos H; constructor.
  - unfold segs_ok in H. cbn [placed] in H. inversion H as [|x l Hp _]; subst. cbn [fst snd] in Hp.
    destruct Hp as [_ _ _ Hp3 Hp4 Hp5 _ _]. unfold plain. repeat split; auto; lia.
  - unfold segs_ok in H. cbn [placed] in H. inversion H as [|x l _ Htl]; subst. apply (IH _ Htl).
Qed.

Lemma polyline_walk_one r data ps pl :
  run_merged r data = Done ps -> Z.of_nat (length pl) = sum_usr ps ->
  exists k vs, polyline_walk (mkps ps pl) = WDone vs /\
    map view_tuple vs = views_of 0 (firstn k ps) /\ Forall (fun p => usr p = 0) (skipn k ps).
Proof.
  intros Hd Hl. destruct (run_merged_segs r data ps Hd) as [Hseg _].
  unfold polyline_walk. cbn [vis pts]. unfold zlen. rewrite Hl.
  replace (sum_usr ps) with (0 + sum_usr ps) at 1 by lia.
  apply iter_walk_ok. apply (segs_plain r data ps 0 Hseg).
Qed.

(* ---- a clipped end point lies on the boundary, to the precision of the fraction ---- *)
Lemma clip_precision rg o v c : edge_ok rg o v c ->
  (Qabs (o + real_spec c * (v - o) - bound_of rg o) <= Qabs (v - o) * (1 # 65536))%Q.
Proof.
  intros [_ [_ [Heq [_ Hp]]]].
  assert (E : (o + real_spec c * (v - o) - bound_of rg o == (real_spec c - cross rg o v) * (v - o))%Q).
  { rewrite <- Heq. ring. }
  rewrite E, Qabs_Qmult, (Qmult_comm (Qabs (v - o)) (1 # 65536)).
  apply Qmult_le_compat_r; [exact Hp|apply Qabs_nonneg].
Qed.

Lemma head_clipped rg data pos p : seg_ok (Some rg) data pos p -> cut p <> 0 ->
  edge_ok rg (zn data pos) (zn data (pos + 1)) (cut p) /\
  (Qabs (drawn_value data pos p 0 - bound_of rg (zn data pos))
   <= Qabs (zn data (pos + 1) - zn data pos) * (1 # 65536))%Q.
Proof.
  intros H Hc. pose proof (sg_head _ _ _ _ H) as Hh. unfold head_ok in Hh.
  destruct ((0 <? usr p) && negb (inb (Some rg) (zn data pos))); [|contradiction].
  split; [exact Hh|].
  unfold drawn_value. rewrite Z.eqb_refl. destruct (Z.eqb_spec (cut p) 0); [contradiction|]. cbn [negb andb].
  apply clip_precision. exact Hh.
Qed.

Lemma tail_clipped rg data pos p : seg_ok (Some rg) data pos p -> trim p <> 0 ->
  edge_ok rg (zn data (pos + usr p - 1)) (zn data (pos + usr p - 2)) (trim p) /\
  (Qabs (drawn_value data pos p (usr p - 1) - bound_of rg (zn data (pos + usr p - 1)))
   <= Qabs (zn data (pos + usr p - 2) - zn data (pos + usr p - 1)) * (1 # 65536))%Q.
Proof.
  intros H Ht. pose proof (sg_tail _ _ _ _ H) as Hh. unfold tail_ok in Hh.
  pose proof (sg_trim2 _ _ _ _ H Ht) as H2.
  destruct ((0 <? usr p) && negb (inb (Some rg) (zn data (pos + usr p - 1)))); [|contradiction].
  split; [exact Hh|].
  unfold drawn_value. destruct (Z.eqb_spec (usr p - 1) 0); [lia|]. cbn [andb].
  rewrite Z.eqb_refl. destruct (Z.eqb_spec (trim p) 0); [contradiction|]. cbn [negb andb].
  replace (pos + (usr p - 1)) with (pos + usr p - 1) by lia.
  replace (pos + usr p - 1 - 1) with (pos + usr p - 2) by lia.
  apply clip_precision. exact Hh.
Qed.

(* the statement for the whole list of set(n)+apply() *)
Lemma merged_clip rg data ps : run_merged (Some rg) data = Done ps ->
  forall pos p, In (pos, p) (placed 0 ps) ->
    seg_ok (Some rg) data pos p /\
    (cut p <> 0 ->
       edge_ok rg (zn data pos) (zn data (pos + 1)) (cut p) /\
       (Qabs (drawn_value data pos p 0 - bound_of rg (zn data pos))
        <= Qabs (zn data (pos + 1) - zn data pos) * (1 # 65536))%Q) /\
    (trim p <> 0 ->
       edge_ok rg (zn data (pos + usr p - 1)) (zn data (pos + usr p - 2)) (trim p) /\
       (Qabs (drawn_value data pos p (usr p - 1) - bound_of rg (zn data (pos + usr p - 1)))
        <= Qabs (zn data (pos + usr p - 2) - zn data (pos + usr p - 1)) * (1 # 65536))%Q).
Proof.
  intros H pos p Hin. destruct (run_merged_segs _ _ _ H) as [Hs _].
  unfold segs_ok in Hs. rewrite Forall_forall in Hs. specialize (Hs _ Hin). cbn [fst snd] in Hs.
  split; [exact Hs|]. split; [apply head_clipped|apply tail_clipped]; exact Hs.
Qed.

Lemma merged_parts r data ps : run_merged r data = Done ps ->
  sum_raw ps = zlen data /\ forall pos p, In (pos, p) (placed 0 ps) -> seg_ok r data pos p.
Proof.
  intro H. destruct (run_merged_segs _ _ _ H) as [Hs Hn]. split; [exact Hn|].
  intros pos p Hin. unfold segs_ok in Hs. rewrite Forall_forall in Hs. apply (Hs _ Hin).
Qed.
