(* Extraction of the executable model and specification of C18 (ExtrOcamlBasic only;
   Q, Z, positive, nat stay the extracted inductives). *)
From Coq Require Import ZArith QArith.
From MptV Require Import C18.LinepartModel C18.LinepartSpec C18.PolylineModel.
Require Import ExtrOcamlBasic.
Extraction "c18_model.ml" run run_merged apply set_parts linepart_linear linepart_code linepart_real linepart_join
  spec_classes spec_cross code_spec code_total zlen
  polyline_set polyline_walk end_view apply_data_plain apply_data_parts maxsize set_code array_set.
