(* C18 — linepart::array::apply for a FURTHER dimension (any existing part list, any amount of data):
   the merge loop ends with the fuel the model gives it, never reads outside the data of the
   dimension, and the new list covers exactly the points the old one covered. *)
From Coq Require Import ZArith QArith List Bool Lia.
From MptV Require Import C18.LinepartModel C18.LinepartSpec C18.LinepartCode C18.LinepartLocal C18.LinepartGlobal
  C18.LinepartMerge.
Import ListNotations.
Local Open Scope Z_scope.

(* a part record as it sits in the array: two uint16 counters *)
Definition wfp (p : part) : Prop := 0 <= raw p <= 65535 /\ 0 <= usr p <= 65535.

Lemma wfp_nn p : wfp p -> nn p.
Proof. unfold wfp, nn. lia. Qed.

Lemma sum_raw_nonneg ps : Forall wfp ps -> 0 <= sum_raw ps.
Proof. induction 1 as [|p l Hp _ IH]; cbn [sum_raw]; [lia|]. destruct Hp. lia. Qed.

Lemma merge_total r : forall fuel old olds val len acc,
  wfp old -> Forall wfp olds -> 0 <= len <= zlen val -> Forall nn acc ->
  (Z.to_nat len + length olds < fuel)%nat ->
  exists ps, merge fuel r old olds val len acc = Done ps /\
             sum_raw ps = sum_raw acc + raw old + sum_raw olds.
Proof.
  induction fuel as [|f IH]; intros old olds val len acc Hold Holds Hlen Hacc Hfuel; [lia|].
  destruct Hold as [Hr Hu].
  cbn [merge].
  (* the clamp *)
  set (old0 := if len <? usr old
               then mkpart (raw old)
                           (if negb (cut old =? 0) && (len <? 2) then 0 else wrap16 len)
                           (if (if negb (cut old =? 0) && (len <? 2) then 0 else wrap16 len) =? 0 then 0 else cut old) 0
               else old).
  assert (H0 : raw old0 = raw old /\ 0 <= usr old0 <= 65535 /\ usr old0 <= len).
  { subst old0. destruct (Z.ltb_spec len (usr old)) as [Hlt|Hge]; cbn [raw usr]; [|lia].
    destruct (negb (cut old =? 0) && (len <? 2)); [lia|]. rewrite wrap16_small by lia. lia. }
  destruct H0 as [Hr0 [Hu0 Hul]].
  destruct (Z.eqb_spec (usr old0) 0) as [E0|E0].
  - (* nothing visible: the record is passed on *)
    assert (Hnn : nn old0) by (unfold nn; lia).
    destruct (emit_sum acc old0 Hacc Hnn) as [Hes Hen].
    destruct olds as [|o os].
    + eexists. split; [reflexivity|]. rewrite sum_raw_rev. cbn [sum_raw]. lia.
    + inversion Holds as [|x l Ho Hos]; subst x l.
      destruct (Z.ltb_spec (raw old0) len) as [Hlt|Hge].
      * destruct (IH o os (zskip (raw old0) val) (len - raw old0) (emit acc old0)) as [ps [Hd Hs]]; auto.
        -- rewrite zlen_zskip by lia. lia.
        -- cbn [length] in Hfuel. lia.
        -- exists ps. split; [exact Hd|]. cbn [sum_raw]. lia.
      * destruct (IH o os val 0 (emit acc old0)) as [ps [Hd Hs]]; auto.
        -- pose proof (zlen_nonneg val). lia.
        -- cbn [length] in Hfuel. lia.
        -- exists ps. split; [exact Hd|]. cbn [sum_raw]. lia.
  - destruct (linear_ok r val (usr old0)) as [pt [Hpt Hok]]; [lia|]. rewrite Hpt.
    pose proof (ok_progress _ _ _ _ Hok) as Hp1. pose proof (ok_usr _ _ _ _ Hok) as Hp2.
    pose proof (ok_limit _ _ _ _ Hok) as Hp3.
    set (pt1 := if negb (usr pt =? 0) && (cut pt <? cut old0) then mkpart (raw pt) (usr pt) (cut old0) (trim pt) else pt).
    set (pt2 := if (usr pt1 =? usr old0) && (trim pt1 <? trim old0) then mkpart (raw pt1) (usr pt1) (cut pt1) (trim old0) else pt1).
    assert (H2 : raw pt2 = raw pt /\ usr pt2 = usr pt).
    { subst pt2 pt1. destruct (negb (usr pt =? 0) && (cut pt <? cut old0)); cbn [raw usr];
        match goal with |- context [if ?c then _ else _] => destruct c end; cbn [raw usr]; auto. }
    destruct H2 as [Hr2 Hu2].
    assert (Hnn2 : nn pt2) by (unfold nn; lia).
    destruct (emit_sum acc pt2 Hacc Hnn2) as [Hes Hen].
    destruct (Z.ltb_spec (raw pt2) (raw old0)) as [Hlt|Hge].
    + rewrite !wrap16_small by lia.
      destruct (IH (mkpart (raw old0 - raw pt2) (usr old0 - raw pt2) 0
                          (if usr old0 - raw pt2 =? 0 then 0 else trim old0)) olds
                   (zskip (raw pt2) val) (len - raw pt2) (emit acc pt2)) as [ps [Hd Hs]]; auto.
      * unfold wfp. cbn [raw usr]. lia.
      * rewrite zlen_zskip by lia. lia.
      * lia.
      * exists ps. split; [exact Hd|]. cbn [raw] in Hs. lia.
    + set (pt3 := if raw old0 <? raw pt2 then mkpart (raw old0) (usr pt2) (cut pt2) (trim pt2) else pt2).
      assert (H3 : raw pt3 = raw old0 /\ usr pt3 = usr pt2).
      { subst pt3. destruct (Z.ltb_spec (raw old0) (raw pt2)); cbn [raw usr]; lia. }
      destruct H3 as [Hr3 Hu3].
      assert (Hnn3 : nn pt3) by (unfold nn; lia).
      destruct (emit_sum acc pt3 Hacc Hnn3) as [Hes3 Hen3].
      destruct olds as [|o os].
      * eexists. split; [reflexivity|]. rewrite sum_raw_rev. cbn [sum_raw]. lia.
      * inversion Holds as [|x l Ho Hos]; subst x l.
        destruct (IH o os (zskip (raw pt3) val) (len - raw pt3) (emit acc pt3)) as [ps [Hd Hs]]; auto.
        -- rewrite zlen_zskip by lia. lia.
        -- cbn [length] in Hfuel. lia.
        -- exists ps. split; [exact Hd|]. cbn [sum_raw]. lia.
Qed.

(* the statement used by Properties.v *)
Lemma apply_total r olds data : Forall wfp olds ->
  exists ps, apply olds r data = Done ps /\
             (olds <> [] -> sum_raw ps = sum_raw olds) /\ (olds = [] -> sum_raw ps = zlen data).
Proof.
  intro Hw. unfold apply.
  destruct (Z.eqb_spec (zlen data) 0) as [E|E].
  - exists olds. split; [reflexivity|]. split; [reflexivity|]. intros ->. cbn. lia.
  - destruct olds as [|o os].
    + destruct (consumes_lemma r data) as [ps [Hd [Hs _]]]. exists ps. split; [exact Hd|]. split; [congruence|auto].
    + inversion Hw as [|x l Ho Hos]; subst x l.
      destruct (merge_total r (length data + length (o :: os)) o os data (zlen data) []) as [ps [Hd Hs]]; auto.
      * pose proof (zlen_nonneg data). lia.
      * unfold zlen. cbn [length]. lia.
      * exists ps. split; [exact Hd|]. split; [|discriminate]. intros _. cbn [sum_raw] in *. lia.
Qed.
