(* C18 — one call of mpt_linepart_linear: never faults on len <= length, and its record
   meets [part_ok] (progress, drawn points, cut/trim codes). *)
From Coq Require Import ZArith QArith Qround List Bool Lia.
From MptV Require Import C18.LinepartModel C18.LinepartSpec C18.LinepartCode.
Import ListNotations.
Local Open Scope Z_scope.

Definition q0 : Q := (0 # 1)%Q.

Lemma skipn_cons_nth {A} (d : A) : forall c (l : list A) v tl,
  skipn c l = v :: tl -> nth c l d = v /\ skipn (S c) l = tl.
Proof.
  induction c; intros l v tl H.
  - destruct l; cbn in H; inversion H; subst. auto.
  - destruct l; cbn in H; [discriminate|]. apply IHc in H. exact H.
Qed.

Lemma skipn_nil_len {A} : forall c (l : list A), skipn c l = [] -> (length l <= c)%nat.
Proof.
  intros c l H. pose proof (skipn_length c l) as L. rewrite H in L. cbn in L. lia.
Qed.

Lemma part_eta p : mkpart (raw p) (usr p) (cut p) (trim p) = p.
Proof. destruct p; reflexivity. Qed.
Lemma part_eq p c : usr p = c -> raw p = usr p -> mkpart c c (cut p) (trim p) = p.
Proof. destruct p; cbn; intros; subst; reflexivity. Qed.

Lemma within_of_out r v : below r v = false -> above r v = false -> within r v = true.
Proof. intros A B. rewrite within_out, A, B. reflexivity. Qed.
Lemma out_of_below r v : below r v = true -> within r v = false.
Proof. intros A. rewrite within_out, A. reflexivity. Qed.
Lemma out_of_above r v : above r v = true -> within r v = false.
Proof. intros A. rewrite within_out, A, orb_true_r. reflexivity. Qed.
Lemma within_false_or r v : within r v = false -> below r v || above r v = true.
Proof. intro H. rewrite within_out in H. apply negb_false_iff in H. exact H. Qed.

(* ---- the visible-run loop, indices absolute in [from0] ---- *)
Lemma vis_loop_spec r from0 : forall from c prev len p,
  from = skipn c from0 -> usr p = Z.of_nat c -> raw p = usr p ->
  0 <= len -> Z.of_nat c + len <= zlen from0 -> Z.of_nat c + len <= 65535 ->
  ((0 < c)%nat -> prev = Some (nth (c - 1) from0 q0)) ->
  exists m : nat, (c <= m)%nat /\ Z.of_nat m <= Z.of_nat c + len /\
    (forall j, (c <= j < m)%nat -> within r (nth j from0 q0) = true) /\
    ( (Z.of_nat m = Z.of_nat c + len /\
       vis_loop r prev from len p = Ok (mkpart (Z.of_nat m) (Z.of_nat m) (cut p) (trim p), skipn m from0, 0))
    \/ (Z.of_nat m < Z.of_nat c + len /\ within r (nth m from0 q0) = false /\
       vis_loop r prev from len p =
         Ok ((if (m =? 0)%nat then p else
              mkpart (Z.of_nat m) (Z.of_nat m + 1) (cut p) (edge_code r (nth m from0 q0) (nth (m - 1) from0 q0))),
             skipn m from0, Z.of_nat c + len - Z.of_nat m)) ).
Proof.
  induction from as [|v tl IH]; intros c prev len p Hfrom Hu Hr Hl0 Hlen Hmax Hprev.
  - (* no data left: len = 0 *)
    symmetry in Hfrom. pose proof (skipn_nil_len _ _ Hfrom) as Hn. unfold zlen in Hlen.
    assert (len = 0) by lia. subst len.
    exists c. split; [lia|]. split; [lia|]. split; [intros; lia|]. left. split; [lia|].
    cbn. rewrite Hfrom. rewrite (part_eq p _ Hu Hr). reflexivity.
  - symmetry in Hfrom. destruct (skipn_cons_nth q0 _ _ _ _ Hfrom) as [Hv Htl].
    destruct (Z.eq_dec len 0) as [->|Hne].
    + exists c. split; [lia|]. split; [lia|]. split; [intros; lia|]. left. split; [lia|].
      cbn. rewrite Hfrom. rewrite (part_eq p _ Hu Hr). reflexivity.
    + assert (El : (len =? 0) = false) by (apply Z.eqb_neq; auto).
      assert (Hw : wrap16 (usr p + 1) = Z.of_nat (S c)) by (rewrite wrap16_small; lia).
      destruct (below r v) eqn:Eb; [|destruct (above r v) eqn:Ea].
      * (* below: break *)
        exists c. split; [lia|]. split; [lia|]. split; [intros; lia|]. right.
        split; [lia|]. split; [rewrite Hv; apply out_of_below; auto|].
        cbn [vis_loop]. rewrite El, Eb.
        destruct c as [|c'].
        -- cbn in Hu. rewrite Hu. cbn. cbn in Hfrom. rewrite Hfrom. do 2 f_equal. lia.
        -- assert (Eu : (usr p =? 0) = false) by (apply Z.eqb_neq; lia).
           rewrite Eu, (Hprev ltac:(lia)). cbn [Nat.eqb].
           rewrite Hfrom, Hv, Hr, Hu, <- Hu, Hw, Hu.
           unfold edge_code. rewrite Eb.
           do 3 f_equal; try lia. f_equal; lia.
      * (* above: break *)
        exists c. split; [lia|]. split; [lia|]. split; [intros; lia|]. right.
        split; [lia|]. split; [rewrite Hv; apply out_of_above; auto|].
        cbn [vis_loop]. rewrite El, Eb, Ea.
        destruct c as [|c'].
        -- cbn in Hu. rewrite Hu. cbn. cbn in Hfrom. rewrite Hfrom. do 2 f_equal. lia.
        -- assert (Eu : (usr p =? 0) = false) by (apply Z.eqb_neq; lia).
           rewrite Eu, (Hprev ltac:(lia)). cbn [Nat.eqb].
           rewrite Hfrom, Hv, Hr, Hu, <- Hu, Hw, Hu.
           unfold edge_code. rewrite Eb.
           do 3 f_equal; try lia. f_equal; lia.
      * (* visible: go on *)
        specialize (IH (S c) (Some v) (len - 1) (mkpart (Z.of_nat (S c)) (Z.of_nat (S c)) (cut p) (trim p))).
        destruct IH as [m [Hcm [Hml [Hall Hres]]]]; auto; try (cbn [usr raw]; lia).
        { intros _. replace (S c - 1)%nat with c by lia. rewrite Hv. reflexivity. }
        exists m. split; [lia|]. split; [lia|]. split.
        { intros j Hj. destruct (Nat.eq_dec j c) as [->|Hjc].
          - rewrite Hv. apply within_of_out; auto.
          - apply Hall. lia. }
        cbn [vis_loop]. rewrite El, Eb, Ea, Hw. cbn [cut trim] in Hres.
        destruct Hres as [[Hm Hres]|[Hm [Hout Hres]]].
        -- left. split; [lia|]. exact Hres.
        -- right. split; [lia|]. split; [exact Hout|]. rewrite Hres.
           destruct m as [|m']; [lia|]. cbn [Nat.eqb]. do 2 f_equal. lia.
Qed.

(* ---- the trailing invisible run ---- *)
Lemma trail_loop_spec r from0 : forall from c len p,
  from = skipn c from0 -> 0 <= len -> Z.of_nat c + len <= zlen from0 ->
  0 <= raw p -> raw p + len <= 65535 ->
  exists m : nat, (c <= m)%nat /\ Z.of_nat m <= Z.of_nat c + len /\
    (forall j, (c <= j < m)%nat -> within r (nth j from0 q0) = false) /\
    (Z.of_nat m < Z.of_nat c + len -> within r (nth m from0 q0) = true) /\
    trail_loop r from len p =
      Ok (mkpart (raw p + (Z.of_nat m - Z.of_nat c)) (usr p) (cut p) (trim p), Z.of_nat c + len - Z.of_nat m).
Proof.
  induction from as [|v tl IH]; intros c len p Hfrom Hl0 Hlen Hr0 Hmax.
  - symmetry in Hfrom. pose proof (skipn_nil_len _ _ Hfrom) as Hn. unfold zlen in Hlen.
    assert (len = 0) by lia. subst len.
    exists c. split; [lia|]. split; [lia|]. split; [intros; lia|]. split; [lia|].
    cbn. replace (raw p + (Z.of_nat c - Z.of_nat c)) with (raw p) by lia. rewrite part_eta. do 2 f_equal. lia.
  - symmetry in Hfrom. destruct (skipn_cons_nth q0 _ _ _ _ Hfrom) as [Hv Htl].
    destruct (Z.eq_dec len 0) as [->|Hne].
    + exists c. split; [lia|]. split; [lia|]. split; [intros; lia|]. split; [lia|].
      cbn. replace (raw p + (Z.of_nat c - Z.of_nat c)) with (raw p) by lia. rewrite part_eta. do 2 f_equal. lia.
    + assert (El : (len =? 0) = false) by (apply Z.eqb_neq; auto).
      cbn [trail_loop]. rewrite El.
      destruct (below r v || above r v) eqn:Eo.
      * specialize (IH (S c) (len - 1) (mkpart (wrap16 (raw p + 1)) (usr p) (cut p) (trim p))).
        rewrite wrap16_small in IH by lia.
        destruct IH as [m [Hcm [Hml [Hall [Hnext Hres]]]]]; auto; try (cbn [usr raw]; lia).
        exists m. split; [lia|]. split; [lia|]. split.
        { intros j Hj. destruct (Nat.eq_dec j c) as [->|Hjc].
          - rewrite Hv. rewrite within_out, Eo. reflexivity.
          - apply Hall. lia. }
        split; [intro; apply Hnext; lia|].
        rewrite wrap16_small by lia. rewrite Hres. cbn [raw usr cut trim]. do 2 f_equal; [f_equal|]; lia.
      * exists c. split; [lia|]. split; [lia|]. split; [intros; lia|]. split.
        { intros _. rewrite Hv, within_out, Eo. reflexivity. }
        replace (raw p + (Z.of_nat c - Z.of_nat c)) with (raw p) by lia. rewrite part_eta. do 2 f_equal. lia.
Qed.

(* ---- "partial first" ---- *)
Lemma first_step_spec r from0 len : 1 <= len <= zlen from0 ->
  (exists f0 f1 tl, from0 = f0 :: f1 :: tl /\ 2 <= len /\ within r f0 = false /\ within r f1 = true /\
     first_step r from0 len = Ok (mkpart 2 2 (edge_code r f0 f1) 0, Some f1, tl, len - 2))
  \/ (first_step r from0 len = Ok (mkpart 0 0 0 0, None, from0, len) /\
      ~ (2 <= len /\ within r (nth 0%nat from0 q0) = false /\ within r (nth 1%nat from0 q0) = true)).
Proof.
  intros [Hl1 Hl2]. destruct from0 as [|f0 tl0]; [cbn in Hl2; lia|].
  cbn [first_step nth].
  destruct (Z.leb_spec 2 len) as [H2|H2].
  - destruct tl0 as [|f1 tl1]; [unfold zlen in Hl2; cbn in Hl2; lia|]. cbn [nth].
    destruct (within r f1) eqn:Ew.
    + destruct (below r f0) eqn:Eb; [|destruct (above r f0) eqn:Ea].
      * left. exists f0, f1, tl1. repeat split; auto. { apply out_of_below; auto. }
        unfold edge_code. rewrite Eb. reflexivity.
      * left. exists f0, f1, tl1. repeat split; auto. { apply out_of_above; auto. }
        unfold edge_code. rewrite Eb. reflexivity.
      * right. split; [reflexivity|]. intros [_ [Ho _]]. rewrite within_of_out in Ho; auto. discriminate.
    + right. split.
      * destruct (below r f0); [reflexivity|]. destruct (above r f0); reflexivity.
      * intros [_ [_ Hw]]. discriminate.
  - right. split.
    + destruct (below r f0); [reflexivity|]. destruct (above r f0); reflexivity.
    + intros [H _]. lia.
Qed.

(* ---- the shape of the result, indices as nat ---- *)
Definition shape (r : range) (from0 : list Q) (len : Z) (p : part) : Prop :=
  exists c m : nat,
    (c = 0%nat \/ c = 2%nat) /\
    (c = 2%nat -> within r (nth 0%nat from0 q0) = false /\ within r (nth 1%nat from0 q0) = true /\ 2 <= len /\
                  cut p = edge_code r (nth 0%nat from0 q0) (nth 1%nat from0 q0)) /\
    (c = 0%nat -> cut p = 0 /\
                  ~ (2 <= len /\ within r (nth 0%nat from0 q0) = false /\ within r (nth 1%nat from0 q0) = true)) /\
    (c <= m)%nat /\ Z.of_nat m <= len /\
    (forall j, (c <= j < m)%nat -> within r (nth j from0 q0) = true) /\
    ( (Z.of_nat m = len /\ raw p = len /\ usr p = len /\ trim p = 0)
    \/ (Z.of_nat m < len /\ within r (nth m from0 q0) = false /\
        exists m2 : nat, (m < m2)%nat /\ Z.of_nat m2 <= len /\
          (forall j, (m < j < m2)%nat -> within r (nth j from0 q0) = false) /\
          (Z.of_nat m2 < len -> within r (nth m2 from0 q0) = true) /\
          raw p = (if Z.of_nat m2 =? len then len else Z.of_nat m2 - 1) /\
          (m = 0%nat -> usr p = 0 /\ trim p = 0) /\
          ((0 < m)%nat -> usr p = Z.of_nat m + 1 /\
                          trim p = edge_code r (nth m from0 q0) (nth (m - 1) from0 q0))) ).

Lemma linear_shape r from0 len0 : 1 <= len0 <= zlen from0 ->
  let len := if U16MAX <? len0 then U16MAX else len0 in
  exists p, linepart_linear (Some r) from0 len0 = Ok p /\ shape r from0 len p.
Proof.
  intros Hlen0 len.
  assert (Hlen : 1 <= len <= zlen from0 /\ len <= 65535).
  { subst len. unfold U16MAX. destruct (Z.ltb_spec 65535 len0); lia. }
  destruct Hlen as [[Hl1 Hl2] Hl3].
  unfold linepart_linear. fold len.
  assert (El : (len =? 0) = false) by (apply Z.eqb_neq; lia). rewrite El.
  destruct (first_step_spec r from0 len (conj Hl1 Hl2)) as
    [[f0 [f1 [tl [Hf [H2 [Ho0 [Hi1 Hfs]]]]]]]|[Hfs Hno]]; rewrite Hfs.
  - (* a cut first segment: c = 2 *)
    destruct (vis_loop_spec r from0 tl 2%nat (Some f1) (len - 2) (mkpart 2 2 (edge_code r f0 f1) 0))
      as [m [Hcm [Hml [Hall Hres]]]]; try (cbn [usr raw]; lia).
    { rewrite Hf. reflexivity. }
    { intros _. rewrite Hf. reflexivity. }
    cbn [cut trim] in Hres.
    assert (Hn0 : nth 0%nat from0 q0 = f0) by (rewrite Hf; reflexivity).
    assert (Hn1 : nth 1%nat from0 q0 = f1) by (rewrite Hf; reflexivity).
    destruct Hres as [[Hm Hres]|[Hm [Hout Hres]]]; rewrite Hres.
    + cbn. eexists. split; [reflexivity|].
      exists 2%nat, m. rewrite Hn0, Hn1. cbn [raw usr cut trim].
      split; [auto|]. split; [intros _; repeat split; auto|]. split; [intros; discriminate|].
      split; [lia|]. split; [lia|]. split; [exact Hall|]. left. repeat split; lia.
    + assert (Em : (Z.of_nat 2 + (len - 2) - Z.of_nat m =? 0) = false) by (apply Z.eqb_neq; lia).
      rewrite Em.
      destruct m as [|m']; [lia|]. cbn [Nat.eqb].
      remember (S m') as m eqn:Heqm.
      pose proof (skipn_length m from0) as Hsl.
      destruct (skipn m from0) as [|vm tlm] eqn:Esk.
      { cbn in Hsl. unfold zlen in Hl2. lia. }
      destruct (skipn_cons_nth q0 _ _ _ _ Esk) as [_ Htl].
      destruct (trail_loop_spec r from0 tlm (S m) (Z.of_nat 2 + (len - 2) - Z.of_nat m - 1)
                  (mkpart (Z.of_nat m) (Z.of_nat m + 1) (edge_code r f0 f1) (edge_code r (nth m from0 q0) (nth (m - 1) from0 q0))))
        as [m2 [Hm2a [Hm2b [Hall2 [Hnext Hres2]]]]]; auto; try (cbn [usr raw]; lia).
      rewrite Hres2. cbn [raw usr cut trim].
      destruct (Z.eqb_spec (Z.of_nat (S m) + (Z.of_nat 2 + (len - 2) - Z.of_nat m - 1) - Z.of_nat m2) 0) as [Ez|Ez].
      * eexists. split; [reflexivity|].
        exists 2%nat, m. rewrite Hn0, Hn1. cbn [raw usr cut trim].
        split; [auto|]. split; [intros _; repeat split; auto|]. split; [intros; discriminate|].
        split; [lia|]. split; [lia|]. split; [exact Hall|]. right.
        split; [lia|]. split; [exact Hout|].
        exists m2. split; [lia|]. split; [lia|]. split; [intros; apply Hall2; lia|].
        split; [intro; apply Hnext; lia|].
        assert (E : Z.of_nat m2 = len) by lia. rewrite E, Z.eqb_refl.
        split; [rewrite wrap16_small; lia|]. split; [intro; lia|]. intros _. split; reflexivity.
      * eexists. split; [reflexivity|].
        exists 2%nat, m. rewrite Hn0, Hn1. cbn [raw usr cut trim].
        split; [auto|]. split; [intros _; repeat split; auto|]. split; [intros; discriminate|].
        split; [lia|]. split; [lia|]. split; [exact Hall|]. right.
        split; [lia|]. split; [exact Hout|].
        exists m2. split; [lia|]. split; [lia|]. split; [intros; apply Hall2; lia|].
        split; [intro; apply Hnext; lia|].
        assert (E : (Z.of_nat m2 =? len) = false) by (apply Z.eqb_neq; lia). rewrite E.
        split; [lia|]. split; [intro; lia|]. intros _. split; reflexivity.
  - (* no cut: c = 0 *)
    destruct (vis_loop_spec r from0 from0 0%nat None len (mkpart 0 0 0 0))
      as [m [Hcm [Hml [Hall Hres]]]]; try (cbn [usr raw]; lia); try reflexivity.
    cbn [cut trim] in Hres.
    destruct Hres as [[Hm Hres]|[Hm [Hout Hres]]]; rewrite Hres.
    + cbn. eexists. split; [reflexivity|].
      exists 0%nat, m. cbn [raw usr cut trim].
      split; [auto|]. split; [intros; discriminate|]. split; [intros _; split; [reflexivity|exact Hno]|].
      split; [lia|]. split; [lia|]. split; [exact Hall|]. left. repeat split; lia.
    + assert (Em : (Z.of_nat 0 + len - Z.of_nat m =? 0) = false) by (apply Z.eqb_neq; lia).
      rewrite Em.
      pose proof (skipn_length m from0) as Hsl.
      destruct (skipn m from0) as [|vm tlm] eqn:Esk.
      { cbn in Hsl. unfold zlen in Hl2. lia. }
      destruct (skipn_cons_nth q0 _ _ _ _ Esk) as [_ Htl].
      set (pm := if (m =? 0)%nat then mkpart 0 0 0 0
                 else mkpart (Z.of_nat m) (Z.of_nat m + 1) 0 (edge_code r (nth m from0 q0) (nth (m - 1) from0 q0))).
      assert (Hpm : raw pm = Z.of_nat m /\ cut pm = 0 /\
                    (m = 0%nat -> usr pm = 0 /\ trim pm = 0) /\
                    ((0 < m)%nat -> usr pm = Z.of_nat m + 1 /\ trim pm = edge_code r (nth m from0 q0) (nth (m - 1) from0 q0))).
      { subst pm. destruct m; cbn [Nat.eqb raw usr cut trim]; repeat split; try lia; try reflexivity. }
      destruct Hpm as [Hpr [Hpc [Hp0 Hp1]]].
      destruct (trail_loop_spec r from0 tlm (S m) (Z.of_nat 0 + len - Z.of_nat m - 1) pm)
        as [m2 [Hm2a [Hm2b [Hall2 [Hnext Hres2]]]]]; auto; try lia.
      rewrite Hres2. cbn [raw usr cut trim].
      destruct (Z.eqb_spec (Z.of_nat (S m) + (Z.of_nat 0 + len - Z.of_nat m - 1) - Z.of_nat m2) 0) as [Ez|Ez].
      * eexists. split; [reflexivity|].
        exists 0%nat, m. cbn [raw usr cut trim].
        split; [auto|]. split; [intros; discriminate|]. split; [intros _; split; [exact Hpc|exact Hno]|].
        split; [lia|]. split; [lia|]. split; [exact Hall|]. right.
        split; [lia|]. split; [exact Hout|].
        exists m2. split; [lia|]. split; [lia|]. split; [intros; apply Hall2; lia|].
        split; [intro; apply Hnext; lia|].
        assert (E : Z.of_nat m2 = len) by lia. rewrite E, Z.eqb_refl.
        split; [rewrite wrap16_small; lia|]. split; assumption.
      * eexists. split; [reflexivity|].
        exists 0%nat, m. cbn [raw usr cut trim].
        split; [auto|]. split; [intros; discriminate|]. split; [intros _; split; [exact Hpc|exact Hno]|].
        split; [lia|]. split; [lia|]. split; [exact Hall|]. right.
        split; [lia|]. split; [exact Hout|].
        exists m2. split; [lia|]. split; [lia|]. split; [intros; apply Hall2; lia|].
        split; [intro; apply Hnext; lia|].
        assert (E : (Z.of_nat m2 =? len) = false) by (apply Z.eqb_neq; lia). rewrite E.
        split; [lia|]. split; assumption.
Qed.

(* ---- from the shape to the specification of one part ---- *)
Lemma zn_nat l (n : nat) : zn l (Z.of_nat n) = nth n l q0.
Proof. unfold zn. rewrite Nat2Z.id. reflexivity. Qed.

Lemma inr_some r v : inr (Some r) v <-> within r v = true.
Proof. unfold inr. rewrite inb_some. tauto. Qed.

Lemma cross_unit r o v : within r v = true -> within r o = false -> (0 < cross r o v <= 1)%Q.
Proof.
  intros Hv Ho. apply within_false_or in Ho.
  destruct (below r o) eqn:Eb.
  - apply (cross_below r _ _ Hv Eb).
  - cbn in Ho. apply (cross_above r _ _ Hv Eb Ho).
Qed.
Lemma cross_nonneg r o v : within r v = true -> within r o = false -> (0 <= cross r o v)%Q.
Proof. intros Hv Ho. apply Qlt_le_weak, (cross_unit r o v Hv Ho). Qed.

Ltac znat e n := replace e with (Z.of_nat n) by lia; rewrite zn_nat.

Lemma shape_part_ok r from0 len0 p : 1 <= len0 <= zlen from0 ->
  shape r from0 (if U16MAX <? len0 then U16MAX else len0) p -> part_ok (Some r) from0 len0 p.
Proof.
  intros Hlen0 Hs.
  set (len := if U16MAX <? len0 then U16MAX else len0) in *.
  assert (Hlen : 1 <= len <= len0 /\ len <= 65535).
  { subst len. unfold U16MAX. destruct (Z.ltb_spec 65535 len0); lia. }
  destruct Hs as [c [m [Hc [Hc2 [Hc0 [Hcm [Hml [Hall Hcase]]]]]]]].
  (* every index below m is drawn: inside, or the clipped first point *)
  assert (Hlow : forall j, (j < m)%nat -> within r (nth j from0 q0) = true \/ (j = 0%nat /\ c = 2%nat)).
  { intros j Hj. destruct Hc as [->| ->].
    - left. apply Hall. lia.
    - destruct j as [|[|j]]; [right; auto|left; apply Hc2; auto|left; apply Hall; lia]. }
  assert (Hm1 : (0 < m)%nat -> within r (nth (m - 1) from0 q0) = true).
  { intro Hm. destruct (Hlow (m - 1)%nat ltac:(lia)) as [H|[H1 H2]]; auto. lia. }
  assert (Hcutr : 0 <= cut p <= 65535).
  { destruct Hc as [->| ->].
    - destruct (Hc0 eq_refl) as [-> _]. lia.
    - destruct (Hc2 eq_refl) as [Ha [Hb [_ ->]]]. rewrite edge_code_spec by auto.
      apply code_spec_range. apply cross_nonneg; auto. }
  assert (Hcut : if (0 <? usr p) && negb (inb (Some r) (zn from0 0))
                 then cut p = code_spec (cross r (zn from0 0) (zn from0 1)) else cut p = 0).
  { change (zn from0 0) with (nth 0%nat from0 q0). change (zn from0 1) with (nth 1%nat from0 q0).
    rewrite inb_some. destruct Hc as [->| ->].
    - destruct (Hc0 eq_refl) as [Hz Hno].
      destruct (0 <? usr p) eqn:Eu; [|exact Hz]. cbn [andb].
      destruct (within r (nth 0%nat from0 q0)) eqn:Ew; [exact Hz|]. exfalso.
      apply Z.ltb_lt in Eu.
      destruct Hcase as [[Hm _]|[Hm [Hout [m2 [_ [_ [_ [_ [_ [Hu0 _]]]]]]]]]].
      + rewrite (Hall 0%nat) in Ew by lia. discriminate.
      + destruct m; [destruct (Hu0 eq_refl); lia|]. rewrite (Hall 0%nat) in Ew by lia. discriminate.
    - destruct (Hc2 eq_refl) as [Ha [Hb [H2 Hcc]]]. rewrite Ha. cbn [negb].
      assert (Eu : (0 <? usr p) = true).
      { apply Z.ltb_lt. destruct Hcase as [[_ [_ [-> _]]]|[_ [_ [m2 [_ [_ [_ [_ [_ [_ Hu1]]]]]]]]]]; [lia|].
        destruct (Hu1 ltac:(lia)) as [-> _]. lia. }
      rewrite Eu. cbn [andb]. rewrite Hcc. apply edge_code_spec; auto. }
  destruct Hcase as [[Hm [Hr [Hu Ht]]]|[Hm [Hout [m2 [Hmm2 [Hm2l [Hall2 [Hnext [Hr [Hu0 Hu1]]]]]]]]]].
  - (* the whole window is drawn *)
    assert (Hlast : within r (zn from0 (usr p - 1)) = true).
    { znat (usr p - 1) (m - 1)%nat. apply Hm1. lia. }
    constructor; try lia.
    + intros j Hj. znat j (Z.to_nat j). rewrite inr_some.
      destruct (Hlow (Z.to_nat j) ltac:(lia)) as [H|[H1 H2]]; [left; exact H|].
      right. left. split; [lia|]. destruct (Hc2 H2) as [_ [Hb [H2l _]]].
      split; [lia|]. rewrite inr_some. exact Hb.
    + exact Hcut.
    + rewrite inb_some, Hlast. rewrite andb_false_r. exact Ht.
  - (* a break at the outside point m *)
    assert (Hrm2 : raw p <= Z.of_nat m2 /\ Z.of_nat m <= raw p /\ raw p <= len).
    { rewrite Hr. destruct (Z.eqb_spec (Z.of_nat m2) len); lia. }
    assert (Hprog : 1 <= raw p).
    { destruct m as [|m']; [|lia].
      rewrite Hr. destruct (Z.eqb_spec (Z.of_nat m2) len) as [E|E]; [lia|].
      destruct m2 as [|[|m2']]; [lia| |lia]. exfalso.
      destruct Hc as [->|Hc]; [|lia]. destruct (Hc0 eq_refl) as [_ Hno]. apply Hno.
      split; [lia|]. split; [exact Hout|]. apply Hnext. lia. }
    assert (Hoo : forall j, (m <= j < m2)%nat -> within r (nth j from0 q0) = false).
    { intros j Hj. destruct (Nat.eq_dec j m) as [->|]; auto. apply Hall2. lia. }
    destruct m as [|m'].
    + (* nothing visible *)
      destruct (Hu0 eq_refl) as [Hu Ht].
      assert (Hcz : cut p = 0) by (destruct Hc as [->|]; [apply Hc0; auto|lia]).
      constructor; try lia.
      * intros j Hj Hin. exfalso. rewrite inr_some in Hin. revert Hin. znat j (Z.to_nat j).
        rewrite Hoo by lia. discriminate.
      * rewrite Hu. cbn. exact Hcz.
      * rewrite Hu. cbn. exact Ht.
    + destruct (Hu1 ltac:(lia)) as [Hu Ht].
      assert (Hin1 : within r (nth m' from0 q0) = true).
      { replace m' with (S m' - 1)%nat by lia. apply Hm1. lia. }
      assert (Htr : 0 <= trim p <= 65535).
      { rewrite Ht, edge_code_spec; auto.
        - apply code_spec_range. apply cross_nonneg; auto. apply Hm1. lia.
        - apply Hm1. lia. }
      constructor; try lia.
      * intros j Hj Hin. rewrite inr_some in Hin. revert Hin. znat j (Z.to_nat j). intro Hin.
        destruct (Z_lt_le_dec j (usr p)); [lia|]. exfalso.
        rewrite Hoo in Hin by lia. discriminate.
      * intros Ho. rewrite inr_some. znat (raw p) (S m'). rewrite Hout. discriminate.
      * intros j Hj. rewrite !inr_some.
        destruct (Z.eq_dec j (usr p - 1)) as [->|Hne].
        -- right. right. split; [reflexivity|]. split; [lia|]. znat (usr p - 2) m'. exact Hin1.
        -- znat j (Z.to_nat j).
           destruct (Hlow (Z.to_nat j) ltac:(lia)) as [H|[H1 H2]]; [left; exact H|].
           right. left. split; [lia|]. destruct (Hc2 H2) as [_ [Hb _]]. split; [lia|].
           change (zn from0 1) with (nth 1%nat from0 q0). exact Hb.
      * exact Hcut.
      * assert (Eu : (0 <? usr p) = true) by (apply Z.ltb_lt; lia). rewrite Eu. cbn [andb].
        rewrite inb_some. znat (usr p - 1) (S m'). rewrite Hout. cbn [negb].
        znat (usr p - 2) m'. rewrite Ht. replace (S m' - 1)%nat with m' by lia.
        apply edge_code_spec; auto.
Qed.

Lemma linear_some_ok r from0 len0 : 1 <= len0 <= zlen from0 ->
  exists p, linepart_linear (Some r) from0 len0 = Ok p /\ part_ok (Some r) from0 len0 p.
Proof.
  intro H. destruct (linear_shape r from0 len0 H) as [p [Hp Hs]].
  exists p. split; auto. apply shape_part_ok; auto.
Qed.

Lemma linear_none_ok from0 len0 : 1 <= len0 <= zlen from0 ->
  exists p, linepart_linear None from0 len0 = Ok p /\ part_ok None from0 len0 p.
Proof.
  intro H. unfold linepart_linear.
  set (len := if U16MAX <? len0 then U16MAX else len0).
  assert (Hlen : 1 <= len <= len0 /\ len <= 65535).
  { subst len. unfold U16MAX. destruct (Z.ltb_spec 65535 len0); lia. }
  eexists. split; [reflexivity|].
  rewrite wrap16_small by lia.
  constructor; cbn [raw usr cut trim]; try lia; try reflexivity.
  intros j Hj. left. reflexivity.
Qed.

(* one call: no fault, and the record is as specified *)
Lemma linear_ok r from0 len0 : 1 <= len0 <= zlen from0 ->
  exists p, linepart_linear r from0 len0 = Ok p /\ part_ok r from0 len0 p.
Proof.
  destruct r; [apply linear_some_ok|apply linear_none_ok].
Qed.
