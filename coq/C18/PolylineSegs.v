(* C18 — the part list of set(n)+apply() (one dimension, joins included), part by part:
   every part draws only points that exist, a part with a cut / trim fraction draws at least two
   points, and the fractions are the coded crossings of its first / last segment. *)
From Coq Require Import ZArith QArith Qabs List Bool Lia.
From MptV Require Import C18.LinepartModel C18.LinepartSpec C18.LinepartCode C18.LinepartLocal C18.LinepartGlobal
  C18.LinepartMerge.
Import ListNotations.
Local Open Scope Z_scope.

Definition head_ok (r : option range) (data : list Q) (pos : Z) (p : part) : Prop :=
  match r with
  | None => cut p = 0
  | Some rg =>
    if (0 <? usr p) && negb (inb r (zn data pos))
    then edge_ok rg (zn data pos) (zn data (pos + 1)) (cut p) else cut p = 0
  end.

Definition tail_ok (r : option range) (data : list Q) (pos : Z) (p : part) : Prop :=
  match r with
  | None => trim p = 0
  | Some rg =>
    if (0 <? usr p) && negb (inb r (zn data (pos + usr p - 1)))
    then edge_ok rg (zn data (pos + usr p - 1)) (zn data (pos + usr p - 2)) (trim p) else trim p = 0
  end.

Record seg_ok (r : option range) (data : list Q) (pos : Z) (p : part) : Prop := {
  sg_pos : 0 <= pos;
  sg_raw : 1 <= raw p <= 65535;
  sg_over : usr p <= raw p + 1;
  sg_usr : 0 <= usr p <= 65535 /\ pos + usr p <= zlen data;
  sg_cut2 : cut p <> 0 -> 2 <= usr p;
  sg_trim2 : trim p <> 0 -> 2 <= usr p;
  sg_head : head_ok r data pos p;
  sg_tail : tail_ok r data pos p
}.

Definition segs_ok (r : option range) (data : list Q) (b : Z) (ps : list part) : Prop :=
  Forall (fun pp => seg_ok r data (fst pp) (snd pp)) (placed b ps).

(* one call of mpt_linepart_linear at position [pos] *)
Lemma part_seg r data pos len p : 0 <= pos -> len <= zlen data - pos ->
  part_ok r (zskip pos data) len p -> seg_ok r data pos p.
Proof.
  intros Hpos Hlen Hok.
  pose proof (ok_progress _ _ _ _ Hok) as Hpr. pose proof (ok_usr _ _ _ _ Hok) as Hu.
  pose proof (ok_limit _ _ _ _ Hok) as Hlim.
  pose proof (ok_cut _ _ _ _ Hok) as Hc. pose proof (ok_trim _ _ _ _ Hok) as Ht.
  pose proof (ok_drawn _ _ _ _ Hok) as Hd.
  assert (Hzn : forall j, 0 <= j -> zn (zskip pos data) j = zn data (pos + j)) by (intros; apply zn_zskip; lia).
  assert (Hfirst : 0 < usr p -> ~ inr r (zn data pos) -> 2 <= usr p /\ inr r (zn data (pos + 1))).
  { intros H0 Hn. destruct (Hd 0 ltac:(lia)) as [Hx|[[_ [H2 Hx]]|[Hj [H2 _]]]].
    - rewrite Hzn in Hx by lia. replace (pos + 0) with pos in Hx by lia. contradiction.
    - rewrite Hzn in Hx by lia. auto.
    - lia. }
  assert (Hlast : 0 < usr p -> ~ inr r (zn data (pos + usr p - 1)) -> 2 <= usr p /\ inr r (zn data (pos + usr p - 2))).
  { intros H0 Hn. destruct (Hd (usr p - 1) ltac:(lia)) as [Hx|[[Hj [H2 _]]|[_ [H2 Hx]]]].
    - rewrite Hzn in Hx by lia. replace (pos + (usr p - 1)) with (pos + usr p - 1) in Hx by lia. contradiction.
    - lia.
    - rewrite Hzn in Hx by lia. replace (pos + (usr p - 2)) with (pos + usr p - 2) in Hx by lia. auto. }
  assert (Hc' : match r with
                | Some rg => if (0 <? usr p) && negb (inb r (zn data pos))
                             then cut p = code_spec (cross rg (zn data pos) (zn data (pos + 1))) else cut p = 0
                | None => cut p = 0 end).
  { destruct r as [rg|]; [|exact Hc]. rewrite !Hzn in Hc by lia. replace (pos + 0) with pos in Hc by lia. exact Hc. }
  assert (Ht' : match r with
                | Some rg => if (0 <? usr p) && negb (inb r (zn data (pos + usr p - 1)))
                             then trim p = code_spec (cross rg (zn data (pos + usr p - 1)) (zn data (pos + usr p - 2)))
                             else trim p = 0
                | None => trim p = 0 end).
  { destruct r as [rg|]; [|exact Ht]. destruct (Z.ltb_spec 0 (usr p)) as [Eu|Eu]; [|exact Ht].
    rewrite (Hzn (usr p - 1)) in Ht by lia.
    replace (pos + (usr p - 1)) with (pos + usr p - 1) in Ht by lia.
    destruct (inb (Some rg) (zn data (pos + usr p - 1))) eqn:Ei; [exact Ht|]. cbn [andb negb] in *.
    assert (H2 : 2 <= usr p) by (apply Hlast; [lia|unfold inr; congruence]).
    rewrite (Hzn (usr p - 2)) in Ht by lia.
    replace (pos + (usr p - 2)) with (pos + usr p - 2) in Ht by lia. exact Ht. }
  clear Hc Ht. rename Hc' into Hc. rename Ht' into Ht.
  constructor; try lia.
  - (* cut <> 0 -> two points *)
    intro Hne. destruct r as [rg|]; [|contradiction].
    destruct (0 <? usr p) eqn:Eu; [|cbn [andb] in Hc; contradiction]. apply Z.ltb_lt in Eu.
    destruct (inb (Some rg) (zn data pos)) eqn:Ei; [cbn [andb negb] in Hc; contradiction|].
    apply Hfirst; [lia|]. unfold inr. congruence.
  - intro Hne. destruct r as [rg|]; [|contradiction].
    destruct (0 <? usr p) eqn:Eu; [|cbn [andb] in Ht; contradiction]. apply Z.ltb_lt in Eu.
    destruct (inb (Some rg) (zn data (pos + usr p - 1))) eqn:Ei; [cbn [andb negb] in Ht; contradiction|].
    apply Hlast; [lia|]. unfold inr. congruence.
  - unfold head_ok. destruct r as [rg|]; [|exact Hc].
    destruct (0 <? usr p) eqn:Eu; [|exact Hc]. apply Z.ltb_lt in Eu.
    destruct (inb (Some rg) (zn data pos)) eqn:Ei; [exact Hc|]. cbn [andb negb] in *.
    assert (Hnin : ~ inr (Some rg) (zn data pos)) by (unfold inr; congruence).
    apply edge_ok_intro; auto.
    apply inr_some. apply Hfirst; [lia|exact Hnin].
  - unfold tail_ok. destruct r as [rg|]; [|exact Ht].
    destruct (0 <? usr p) eqn:Eu; [|exact Ht]. apply Z.ltb_lt in Eu.
    destruct (inb (Some rg) (zn data (pos + usr p - 1))) eqn:Ei; [exact Ht|]. cbn [andb negb] in *.
    assert (Hnin : ~ inr (Some rg) (zn data (pos + usr p - 1))) by (unfold inr; congruence).
    apply edge_ok_intro; auto.
    apply inr_some. apply Hlast; [lia|exact Hnin].
Qed.

(* joining keeps the statement: the joined part starts like the first and ends like the second *)
Lemma join_seg r data pos a b c :
  seg_ok r data pos a -> seg_ok r data (pos + raw a) b -> linepart_join a b = Some c ->
  seg_ok r data pos c.
Proof.
  intros Ha Hb Hj.
  destruct Ha as [Ha1 Ha2 Ha2' Ha3 Ha4 Ha5 Ha6 Ha7]. destruct Hb as [Hb1 Hb2 Hb2' Hb3 Hb4 Hb5 Hb6 Hb7].
  destruct (join_spec a b c ltac:(lia) ltac:(lia) ltac:(lia) ltac:(lia) Hj)
    as [Hr [Hu [Hc [Ht [Hrl [Hul [Hta [Hcb Hur]]]]]]]].
  constructor; try lia.
  - unfold head_ok in *. destruct r as [rg|]; [|congruence]. rewrite Hc.
    replace (0 <? usr c) with (0 <? usr a); [exact Ha6|].
    destruct (Z.ltb_spec 0 (usr a)), (Z.ltb_spec 0 (usr c)); try reflexivity; lia.
  - unfold tail_ok in *. destruct r as [rg|]; [|congruence]. rewrite Ht.
    destruct (Z.eq_dec (usr b) 0) as [E|E].
    + (* the second part draws nothing: the line still ends where the first one ended, with code 0 *)
      rewrite E in Hb7. cbn [Z.ltb andb] in Hb7. change (0 <? 0) with false in Hb7. cbn [andb] in Hb7.
      rewrite Hb7. rewrite Hta in Ha7.
      replace (usr c) with (usr a) by lia. exact Ha7.
    + replace (0 <? usr c) with (0 <? usr b).
      * replace (pos + usr c - 1) with (pos + raw a + usr b - 1) by lia.
        replace (pos + usr c - 2) with (pos + raw a + usr b - 2) by lia. exact Hb7.
      * destruct (Z.ltb_spec 0 (usr b)), (Z.ltb_spec 0 (usr c)); try reflexivity; lia.
Qed.

Lemma segs_app r data : forall a b pos,
  segs_ok r data pos (a ++ b) <-> segs_ok r data pos a /\ segs_ok r data (pos + sum_raw a) b.
Proof.
  intros a b pos. unfold segs_ok. rewrite placed_app, Forall_app. reflexivity.
Qed.

Lemma emit_segs r data acc pt :
  segs_ok r data 0 (rev acc) -> seg_ok r data (sum_raw acc) pt -> segs_ok r data 0 (rev (emit acc pt)).
Proof.
  intros Ha Hp. destruct acc as [|last rest]; cbn [emit].
  - cbn [rev app]. constructor; [exact Hp|constructor].
  - cbn [rev] in Ha. apply segs_app in Ha. destruct Ha as [Hrest Hlast].
    rewrite Z.add_0_l, sum_raw_rev in Hlast. inversion Hlast as [|x l Hl _]; subst. cbn [fst snd] in Hl.
    cbn [sum_raw] in Hp.
    destruct (linepart_join last pt) as [j|] eqn:Ej.
    + cbn [rev]. apply segs_app. split; [exact Hrest|]. rewrite Z.add_0_l, sum_raw_rev.
      constructor; [|constructor]. cbn [fst snd].
      apply (join_seg r data (sum_raw rest) last pt j); auto.
      replace (sum_raw rest + raw last) with (raw last + sum_raw rest) by lia. exact Hp.
    + cbn [rev]. rewrite <- app_assoc. apply segs_app. split; [exact Hrest|].
      rewrite Z.add_0_l, sum_raw_rev. cbn [app].
      constructor; [exact Hl|]. constructor; [|constructor]. cbn [fst snd placed].
      replace (sum_raw rest + raw last) with (raw last + sum_raw rest) by lia. exact Hp.
Qed.

(* the merge loop over the preset chunks *)
Lemma merge_segs r data : forall fuel old olds val len acc,
  chunk old -> Forall chunk olds -> len = zlen val -> len = raw old + sum_raw olds ->
  Forall nn acc -> (Z.to_nat len + length olds < fuel)%nat ->
  segs_ok r data 0 (rev acc) ->
  val = zskip (sum_raw acc) data -> sum_raw acc + len = zlen data -> 0 <= sum_raw acc ->
  exists ps, merge fuel r old olds val len acc = Done ps /\ segs_ok r data 0 ps.
Proof.
  induction fuel as [|f IH]; intros old olds val len acc Hold Holds Hlen Hsum Hacc Hfuel Hs Hval Hn Hg0; [lia|].
  destruct Hold as [Hr [Hu [Hc Ht]]].
  assert (Hsn : 0 <= sum_raw olds).
  { clear -Holds. induction Holds as [|x l Hx]; cbn [sum_raw]; [lia|]. destruct Hx. lia. }
  cbn [merge].
  assert (E1 : (usr old =? 0) = false) by (apply Z.eqb_neq; lia).
  assert (E3 : (len <? usr old) = false) by (apply Z.ltb_ge; lia). rewrite E3, E1.
  destruct (linear_ok r val (usr old)) as [pt [Hpt Hok]]; [lia|]. rewrite Hpt.
  pose proof (ok_progress _ _ _ _ Hok) as Hp1. pose proof (ok_usr _ _ _ _ Hok) as Hp2.
  pose proof (ok_fields _ _ _ _ Hok) as Hp3.
  assert (E4 : (cut pt <? cut old) = false) by (apply Z.ltb_ge; lia). rewrite E4, andb_false_r.
  assert (E6 : (trim pt <? trim old) = false) by (apply Z.ltb_ge; lia). rewrite E6, andb_false_r.
  assert (Hnn : nn pt) by (split; lia).
  destruct (emit_sum acc pt Hacc Hnn) as [Hes Hen].
  assert (Hseg : seg_ok r data (sum_raw acc) pt).
  { apply (part_seg r data (sum_raw acc) (usr old)); [lia|lia|]. rewrite <- Hval. exact Hok. }
  pose proof (emit_segs r data acc pt Hs Hseg) as Hs'.
  assert (Hl' : zlen (zskip (raw pt) val) = len - raw pt) by (rewrite zlen_zskip; lia).
  assert (Hval' : zskip (raw pt) val = zskip (sum_raw (emit acc pt)) data).
  { rewrite Hes, Hval. apply zskip_zskip; lia. }
  destruct (Z.ltb_spec (raw pt) (raw old)) as [Hlt|Hge].
  - rewrite !wrap16_small by lia.
    rewrite Ht. replace (if usr old - raw pt =? 0 then 0 else 0) with 0 by (destruct (usr old - raw pt =? 0); reflexivity).
    apply (IH (mkpart (raw old - raw pt) (usr old - raw pt) 0 0) olds
              (zskip (raw pt) val) (len - raw pt) (emit acc pt)); auto; try lia.
    + unfold chunk. cbn [raw usr cut trim]. lia.
    + cbn [raw]. lia.
  - assert (E5 : (raw old <? raw pt) = false) by (apply Z.ltb_ge; lia). rewrite E5.
    destruct olds as [|o os].
    + exists (rev (emit acc pt)). split; [reflexivity|exact Hs'].
    + inversion Holds as [|x l Ho Hos]; subst x l.
      apply (IH o os (zskip (raw pt) val) (len - raw pt) (emit acc pt)); auto; try lia.
      * cbn [sum_raw] in Hsum. lia.
      * cbn [length] in Hfuel. lia.
Qed.

Lemma run_merged_segs r data ps : run_merged r data = Done ps ->
  segs_ok r data 0 ps /\ sum_raw ps = zlen data.
Proof.
  intro H. destruct (run_merged_ok r data) as [ps' [Hd Hsum]]. rewrite H in Hd. inversion Hd; subst ps'.
  split; [|exact Hsum]. revert H. unfold run_merged, apply.
  destruct (Z.eqb_spec (zlen data) 0) as [E|E].
  - rewrite E. intro H. inversion H; subst. constructor.
  - pose proof (zlen_nonneg data) as Hn.
    destruct (set_parts_ok (zlen data) ltac:(lia)) as [Hc [Hs Hne]].
    destruct (set_parts (zlen data)) as [|o os]; [congruence|].
    inversion Hc as [|x l Ho Hos]; subst x l.
    destruct (merge_segs r data (length data + length (o :: os)) o os data (zlen data) [])
      as [ps' [Hd' Hg]]; auto.
    + unfold zlen. cbn [length]. lia.
    + constructor.
    + cbn [sum_raw]. lia.
    + intro H. rewrite Hd' in H. inversion H; subst ps'. exact Hg.
Qed.
