(* C18 — the second driver: linepart::array::set(n) followed by linepart::array::apply() for one
   dimension (what polyline::set does).  The merge loop over the preset chunks ends (fuel suffices),
   never reads outside the data, and the joined result still covers n points. *)
From Coq Require Import ZArith QArith List Bool Lia.
From MptV Require Import C18.LinepartModel C18.LinepartSpec C18.LinepartCode C18.LinepartLocal C18.LinepartGlobal.
Import ListNotations.
Local Open Scope Z_scope.

Definition nn (p : part) : Prop := 0 <= raw p /\ 0 <= usr p.
Definition chunk (p : part) : Prop := 1 <= raw p <= 65533 /\ usr p = raw p /\ cut p = 0 /\ trim p = 0.

Lemma sum_raw_app a b : sum_raw (a ++ b) = sum_raw a + sum_raw b.
Proof. induction a; cbn [app sum_raw]; lia. Qed.
Lemma sum_raw_rev a : sum_raw (rev a) = sum_raw a.
Proof. induction a; cbn [rev sum_raw]; [reflexivity|]. rewrite sum_raw_app. cbn [sum_raw]. lia. Qed.

Lemma emit_sum acc pt : Forall nn acc -> nn pt ->
  sum_raw (emit acc pt) = sum_raw acc + raw pt /\ Forall nn (emit acc pt).
Proof.
  intros Ha Hp. destruct acc as [|last rest]; cbn [emit].
  - split; [cbn; lia|]. constructor; auto.
  - inversion Ha as [|x l Hl Hr]; subst. destruct Hl as [Hl1 Hl2]. destruct Hp as [Hp1 Hp2].
    destruct (linepart_join last pt) as [j|] eqn:Ej.
    + destruct (join_spec last pt j Hl1 Hl2 Hp1 Hp2 Ej) as [Hjr [Hju _]].
      split; [cbn [sum_raw]; lia|]. constructor; auto. split; lia.
    + split; [cbn [sum_raw]; lia|]. constructor; [split; auto|]. constructor; [split; auto|]. exact Hr.
Qed.

(* ---- set ---- *)
Lemma set_loop_ok : forall k len,
  (k = 0%nat -> len = 0) -> ((0 < k)%nat -> (Z.of_nat k - 1) * 65533 < len <= Z.of_nat k * 65533) ->
  Forall chunk (set_loop k len) /\ sum_raw (set_loop k len) = len.
Proof.
  induction k as [|k IH]; intros len H0 H1.
  - cbn. split; [constructor|]. rewrite H0; reflexivity.
  - specialize (H1 ltac:(lia)). cbn [set_loop]. unfold chunk_max, U16MAX. change (65535 - 2) with 65533.
    destruct (Z.ltb_spec len 65533) as [Hlt|Hge].
    + assert (k = 0%nat) by lia. subst k. cbn [set_loop sum_raw raw].
      rewrite wrap16_small by lia. split; [|lia].
      constructor; [|constructor]. unfold chunk. cbn. lia.
    + destruct (IH (len - 65533)) as [Ha Hb]; [intro; subst; lia|intro; lia|].
      cbn [sum_raw raw]. rewrite wrap16_small by lia. split; [|lia].
      constructor; auto. unfold chunk. cbn. lia.
Qed.

Lemma set_parts_ok n : 0 < n ->
  Forall chunk (set_parts n) /\ sum_raw (set_parts n) = n /\ set_parts n <> [].
Proof.
  intro Hn. unfold set_parts. destruct (Z.leb_spec n 0); [lia|].
  unfold chunk_max, U16MAX. change (65535 - 2) with 65533.
  pose proof (Z.div_mod n 65533 ltac:(lia)) as Hdm. pose proof (Z.mod_pos_bound n 65533 ltac:(lia)) as Hmb.
  set (q := n / 65533) in *.
  assert (Hq : 0 <= q) by (apply Z.div_pos; lia).
  set (num := if q * 65533 <? n then q + 1 else q).
  assert (Hnum : 0 < num /\ (num - 1) * 65533 < n <= num * 65533).
  { subst num. destruct (Z.ltb_spec (q * 65533) n); lia. }
  destruct (set_loop_ok (Z.to_nat num) n) as [Ha Hb]; [lia|lia|].
  split; [auto|]. split; [auto|]. intro E. rewrite E in Hb. cbn in Hb. lia.
Qed.

(* ---- merge ---- *)
Lemma merge_sum r : forall fuel old olds val len acc,
  chunk old -> Forall chunk olds -> len = zlen val -> len = raw old + sum_raw olds ->
  Forall nn acc -> (Z.to_nat len + length olds < fuel)%nat ->
  exists ps, merge fuel r old olds val len acc = Done ps /\ sum_raw ps = sum_raw acc + len.
Proof.
  induction fuel as [|f IH]; intros old olds val len acc Hold Holds Hlen Hsum Hacc Hfuel; [lia|].
  destruct Hold as [Hr [Hu [Hc Ht]]].
  assert (Hsn : 0 <= sum_raw olds).
  { clear -Holds. induction Holds as [|x l Hx]; cbn [sum_raw]; [lia|]. destruct Hx. lia. }
  cbn [merge].
  assert (E1 : (usr old =? 0) = false) by (apply Z.eqb_neq; lia).
  assert (E3 : (len <? usr old) = false) by (apply Z.ltb_ge; lia). rewrite E3, E1.
  destruct (linear_ok r val (usr old)) as [pt [Hpt Hok]]; [lia|]. rewrite Hpt.
  pose proof (ok_progress _ _ _ _ Hok) as Hp1. pose proof (ok_usr _ _ _ _ Hok) as Hp2.
  pose proof (ok_fields _ _ _ _ Hok) as Hp3.
  assert (E4 : (cut pt <? cut old) = false) by (apply Z.ltb_ge; lia). rewrite E4, andb_false_r.
  assert (E6 : (trim pt <? trim old) = false) by (apply Z.ltb_ge; lia). rewrite E6, andb_false_r.
  assert (Hnn : nn pt) by (split; lia).
  destruct (emit_sum acc pt Hacc Hnn) as [Hes Hen].
  assert (Hl' : zlen (zskip (raw pt) val) = len - raw pt) by (rewrite zlen_zskip; lia).
  destruct (Z.ltb_spec (raw pt) (raw old)) as [Hlt|Hge].
  - (* the old part is only partly used up *)
    rewrite !wrap16_small by lia.
    rewrite Ht. replace (if usr old - raw pt =? 0 then 0 else 0) with 0 by (destruct (usr old - raw pt =? 0); reflexivity).
    destruct (IH (mkpart (raw old - raw pt) (usr old - raw pt) 0 0) olds
                 (zskip (raw pt) val) (len - raw pt) (emit acc pt)) as [ps [Hd Hs]]; auto.
    + unfold chunk. cbn [raw usr cut trim]. lia.
    + cbn [raw]. lia.
    + lia.
    + exists ps. split; [exact Hd|]. lia.
  - assert (E5 : (raw old <? raw pt) = false) by (apply Z.ltb_ge; lia). rewrite E5.
    destruct olds as [|o os].
    + eexists. split; [reflexivity|]. rewrite sum_raw_rev. cbn [sum_raw] in Hsum. lia.
    + inversion Holds as [|x l Ho Hos]; subst x l.
      destruct (IH o os (zskip (raw pt) val) (len - raw pt) (emit acc pt)) as [ps [Hd Hs]]; auto.
      * cbn [sum_raw] in Hsum. lia.
      * cbn [length] in Hfuel. lia.
      * exists ps. split; [exact Hd|]. lia.
Qed.

Lemma run_merged_ok r data :
  exists ps, run_merged r data = Done ps /\ sum_raw ps = zlen data.
Proof.
  unfold run_merged, apply.
  destruct (Z.eqb_spec (zlen data) 0) as [E|E].
  - rewrite E. exists []. split; reflexivity.
  - pose proof (zlen_nonneg data) as Hn.
    destruct (set_parts_ok (zlen data) ltac:(lia)) as [Hc [Hs Hne]].
    destruct (set_parts (zlen data)) as [|o os]; [congruence|].
    inversion Hc as [|x l Ho Hos]; subst x l.
    destruct (merge_sum r (length data + length (o :: os)) o os data (zlen data) []) as [ps [Hd Hsum]]; auto.
    + unfold zlen. cbn [length]. lia.
    + exists ps. split; [exact Hd|]. cbn [sum_raw] in Hsum. lia.
Qed.

(* ---- per-point statements for the merged result: joins do not change what is drawn ---- *)
Lemma draw_count_app : forall a b pos i,
  draw_count pos (a ++ b) i = draw_count pos a i + draw_count (pos + sum_raw a) b i.
Proof.
  induction a as [|p a IH]; intros b pos i; cbn [app draw_count sum_raw].
  - rewrite Z.add_0_r. reflexivity.
  - rewrite IH. replace (pos + raw p + sum_raw a) with (pos + (raw p + sum_raw a)) by lia. lia.
Qed.

Lemma placed_app : forall a b pos, placed pos (a ++ b) = placed pos a ++ placed (pos + sum_raw a) b.
Proof.
  induction a as [|p a IH]; intros b pos; cbn [app placed sum_raw].
  - rewrite Z.add_0_r. reflexivity.
  - rewrite IH. replace (pos + raw p + sum_raw a) with (pos + (raw p + sum_raw a)) by lia. reflexivity.
Qed.

(* [l] (joined) and [g] (the same parts before joining) cover and draw the same points *)
Definition eqv (l g : list part) : Prop :=
  sum_raw l = sum_raw g /\ forall pos i, draw_count pos l i = draw_count pos g i.

Lemma eqv_snoc l g pt : eqv l g -> eqv (l ++ [pt]) (g ++ [pt]).
Proof.
  intros [Hs Hd]. split.
  - rewrite !sum_raw_app. lia.
  - intros pos i. rewrite !draw_count_app, Hs, Hd. reflexivity.
Qed.

Lemma emit_eqv acc pt g : Forall nn acc -> nn pt -> eqv (rev acc) g -> eqv (rev (emit acc pt)) (g ++ [pt]).
Proof.
  intros Ha Hp He. destruct acc as [|last rest]; cbn [emit].
  - apply (eqv_snoc [] g pt He).
  - inversion Ha as [|x l Hl Hr]; subst. destruct Hl as [Hl1 Hl2]. destruct Hp as [Hp1 Hp2].
    destruct (linepart_join last pt) as [j|] eqn:Ej.
    + destruct (join_spec last pt j Hl1 Hl2 Hp1 Hp2 Ej) as [Hjr [Hju [_ [_ [_ [_ [_ [_ Hur]]]]]]]].
      destruct He as [Hs Hd]. cbn [rev] in *. rewrite sum_raw_app in Hs. cbn [sum_raw] in Hs.
      split.
      * rewrite !sum_raw_app. cbn [sum_raw]. lia.
      * intros pos i. rewrite !draw_count_app. rewrite <- Hd, draw_count_app. cbn [draw_count sum_raw].
        rewrite (join_drawn last pt j _ i Hl1 Hl2 Hp1 Hp2 Ej).
        replace (pos + sum_raw g) with (pos + sum_raw (rev rest) + raw last) by lia.
        set (P := pos + sum_raw (rev rest)).
        destruct (drawn_in P last i) eqn:E1; destruct (drawn_in (P + raw last) pt i) eqn:E2; cbn [orb]; try lia.
        exfalso. unfold drawn_in in E1, E2. apply andb_true_iff in E1, E2.
        destruct E1 as [_ E1]. destruct E2 as [E2 _]. apply Z.ltb_lt in E1. apply Z.leb_le in E2. lia.
    + cbn [rev]. apply eqv_snoc. exact He.
Qed.

Lemma part_ok_mono r from len len' p : len <= len' -> part_ok r from len p -> part_ok r from len' p.
Proof.
  intros Hl H. destruct H. constructor; auto; lia.
Qed.

Lemma merge_points r data : forall fuel old olds val len acc g,
  chunk old -> Forall chunk olds -> len = zlen val -> len = raw old + sum_raw olds ->
  Forall nn acc -> (Z.to_nat len + length olds < fuel)%nat ->
  eqv (rev acc) g -> Forall (placed_ok r data) (placed 0 g) ->
  val = zskip (sum_raw g) data -> sum_raw g + len = zlen data ->
  exists ps g', merge fuel r old olds val len acc = Done ps /\ eqv ps g' /\
    Forall (placed_ok r data) (placed 0 g') /\ sum_raw g' = zlen data.
Proof.
  induction fuel as [|f IH]; intros old olds val len acc g Hold Holds Hlen Hsum Hacc Hfuel He Hg Hval Hn; [lia|].
  destruct Hold as [Hr [Hu [Hc Ht]]].
  assert (Hsn : 0 <= sum_raw olds).
  { clear -Holds. induction Holds as [|x l Hx]; cbn [sum_raw]; [lia|]. destruct Hx. lia. }
  assert (Hg0 : 0 <= sum_raw g).
  { pose proof (zlen_nonneg val). pose proof (zlen_nonneg data). destruct (Z_lt_le_dec (sum_raw g) 0); [|lia].
    exfalso. subst val. unfold zskip in Hlen. replace (Z.to_nat (sum_raw g)) with 0%nat in Hlen by lia. cbn [skipn] in Hlen. lia. }
  cbn [merge].
  assert (E1 : (usr old =? 0) = false) by (apply Z.eqb_neq; lia).
  assert (E3 : (len <? usr old) = false) by (apply Z.ltb_ge; lia). rewrite E3, E1.
  destruct (linear_ok r val (usr old)) as [pt [Hpt Hok]]; [lia|]. rewrite Hpt.
  pose proof (ok_progress _ _ _ _ Hok) as Hp1. pose proof (ok_usr _ _ _ _ Hok) as Hp2.
  pose proof (ok_fields _ _ _ _ Hok) as Hp3.
  assert (E4 : (cut pt <? cut old) = false) by (apply Z.ltb_ge; lia). rewrite E4, andb_false_r.
  assert (E6 : (trim pt <? trim old) = false) by (apply Z.ltb_ge; lia). rewrite E6, andb_false_r.
  assert (Hnn : nn pt) by (split; lia).
  destruct (emit_sum acc pt Hacc Hnn) as [Hes Hen].
  pose proof (emit_eqv acc pt g Hacc Hnn He) as He'.
  assert (Hl' : zlen (zskip (raw pt) val) = len - raw pt) by (rewrite zlen_zskip; lia).
  assert (Hg' : Forall (placed_ok r data) (placed 0 (g ++ [pt]))).
  { rewrite placed_app. apply Forall_app. split; [exact Hg|]. cbn [placed]. constructor; [|constructor].
    split; [cbn [fst]; lia|]. cbn [fst snd]. rewrite Z.add_0_l, <- Hval.
    apply (part_ok_mono r val (usr old)); [lia|exact Hok]. }
  assert (Hval' : zskip (raw pt) val = zskip (sum_raw (g ++ [pt])) data).
  { rewrite sum_raw_app. cbn [sum_raw]. rewrite Z.add_0_r, Hval. apply zskip_zskip; lia. }
  assert (Hn' : sum_raw (g ++ [pt]) + (len - raw pt) = zlen data).
  { rewrite sum_raw_app. cbn [sum_raw]. lia. }
  destruct (Z.ltb_spec (raw pt) (raw old)) as [Hlt|Hge].
  - rewrite !wrap16_small by lia.
    rewrite Ht. replace (if usr old - raw pt =? 0 then 0 else 0) with 0 by (destruct (usr old - raw pt =? 0); reflexivity).
    apply (IH (mkpart (raw old - raw pt) (usr old - raw pt) 0 0) olds
              (zskip (raw pt) val) (len - raw pt) (emit acc pt) (g ++ [pt])); auto.
    + unfold chunk. cbn [raw usr cut trim]. lia.
    + cbn [raw]. lia.
    + lia.
  - assert (E5 : (raw old <? raw pt) = false) by (apply Z.ltb_ge; lia). rewrite E5.
    destruct olds as [|o os].
    + exists (rev (emit acc pt)), (g ++ [pt]). split; [reflexivity|]. split; [exact He'|]. split; [exact Hg'|].
      cbn [sum_raw] in Hsum. rewrite sum_raw_app. cbn [sum_raw]. lia.
    + inversion Holds as [|x l Ho Hos]; subst x l.
      apply (IH o os (zskip (raw pt) val) (len - raw pt) (emit acc pt) (g ++ [pt])); auto.
      * cbn [sum_raw] in Hsum. lia.
      * cbn [length] in Hfuel. lia.
Qed.

Lemma run_merged_points r data ps : run_merged r data = Done ps ->
  sum_raw ps = zlen data /\
  forall i, 0 <= i < zlen data ->
    (inr r (zn data i) -> draw_count 0 ps i = 1) /\ (interior_out r data i -> draw_count 0 ps i = 0).
Proof.
  unfold run_merged, apply.
  destruct (Z.eqb_spec (zlen data) 0) as [E|E].
  - rewrite E. intro H. inversion H; subst. split; [reflexivity|]. intros; lia.
  - pose proof (zlen_nonneg data) as Hn.
    destruct (set_parts_ok (zlen data) ltac:(lia)) as [Hc [Hs Hne]].
    destruct (set_parts (zlen data)) as [|o os]; [congruence|].
    inversion Hc as [|x l Ho Hos]; subst x l.
    destruct (merge_points r data (length data + length (o :: os)) o os data (zlen data) [] [])
      as [ps' [g' [Hd [[He1 He2] [Hg Hsg]]]]]; auto.
    + unfold zlen. cbn [length]. lia.
    + split; [reflexivity|]. intros; reflexivity.
    + constructor.
    + intro H. rewrite Hd in H. inversion H; subst ps'. split; [lia|].
      intros i Hi. rewrite He2. apply (points_ok r data g' 0); auto; lia.
Qed.
