(* C18 — polyline::set and apply_data for ANY list of value stores (any number, any lengths, usable or not) and
   apply_data for ANY list of part records: the calls end, never read outside a store, and the part list covers
   exactly as many points as the LONGEST store of doubles has values (maxsize as patched).  Nothing here needs the
   stores to have equal lengths or the records to come from the same data. *)
From Coq Require Import ZArith QArith List Bool Lia.
From MptV Require Import C18.LinepartModel C18.LinepartSpec C18.LinepartCode C18.LinepartLocal C18.LinepartGlobal
  C18.LinepartMerge C18.LinepartDims C18.PolylineModel C18.PolylineProofs.
Import ListNotations.
Local Open Scope Z_scope.

(* ---- maxsize: the longest store of doubles, -1 without one ---- *)
Lemma maxsize_from_ge : forall sts len, len <= maxsize_from len sts.
Proof.
  induction sts as [|s tl IH]; intro len; cbn [maxsize_from]; [lia|].
  destruct s as [|r d]; [apply IH|].
  destruct (Z.ltb_spec len (zlen d)) as [H|H]; [pose proof (IH (zlen d)); lia|apply IH].
Qed.

Lemma maxsize_from_upper : forall sts len r d, In (SData r d) sts -> zlen d <= maxsize_from len sts.
Proof.
  induction sts as [|s tl IH]; intros len r d Hin; [destruct Hin|].
  cbn [maxsize_from]. destruct Hin as [E|Hin].
  - subst s. destruct (Z.ltb_spec len (zlen d)) as [H|H].
    + apply maxsize_from_ge.
    + pose proof (maxsize_from_ge tl len). lia.
  - destruct s as [|r' d']; [eapply IH; eauto|]. eapply IH; eauto.
Qed.

Lemma maxsize_from_attained : forall sts len,
  maxsize_from len sts = len \/ exists r d, In (SData r d) sts /\ maxsize_from len sts = zlen d.
Proof.
  induction sts as [|s tl IH]; intro len; cbn [maxsize_from]; [left; reflexivity|].
  destruct s as [|r d].
  - destruct (IH len) as [E|[r' [d' [Hin E]]]]; [left; exact E|right; exists r', d'; split; [right; exact Hin|exact E]].
  - destruct (Z.ltb_spec len (zlen d)) as [H|H].
    + destruct (IH (zlen d)) as [E|[r' [d' [Hin E]]]].
      * right. exists r, d. split; [left; reflexivity|exact E].
      * right. exists r', d'. split; [right; exact Hin|exact E].
    + destruct (IH len) as [E|[r' [d' [Hin E]]]]; [left; exact E|right; exists r', d'; split; [right; exact Hin|exact E]].
Qed.

Lemma maxsize_spec sts :
  (forall r d, In (SData r d) sts -> zlen d <= maxsize sts) /\
  (maxsize sts = -1 \/ exists r d, In (SData r d) sts /\ maxsize sts = zlen d).
Proof.
  split; [intros r d H; apply (maxsize_from_upper sts (-1) r d H)|apply maxsize_from_attained].
Qed.

(* ---- one part: the window src[0 .. usr) is all that is read ---- *)
Lemma sum_usr_nonneg ps : Forall wfp ps -> 0 <= sum_usr ps.
Proof. induction 1 as [|p l Hp _ IH]; cbn [sum_usr]; [lia|]. destruct Hp. lia. Qed.

Lemma part_contrib_safe p src : 0 <= usr p -> usr p <= zlen src ->
  exists l, part_contrib p src = Ok l /\ zlen l = usr p.
Proof.
  intros H0 H1. unfold part_contrib.
  destruct (Z.eqb_spec (usr p) 0) as [E|E].
  - exists []. split; [reflexivity|]. unfold zlen. cbn [length]. lia.
  - destruct ((negb (cut p =? 0) || negb (trim p =? 0)) && (usr p <? 2)).
    + eexists. split; [reflexivity|]. unfold zeros, zlen. rewrite repeat_length. lia.
    + unfold zlen in H1. rewrite take_ok by lia. eexists. split; [reflexivity|].
      unfold zlen. rewrite clip_from_length, firstn_length. lia.
Qed.

(* ---- apply_data over ANY part records: every read is inside the store ---- *)
Lemma data_parts_safe : forall ps src max, Forall wfp ps -> 0 <= max <= zlen src ->
  exists sh, data_parts ps src max = Ok sh /\ zlen sh <= sum_usr ps.
Proof.
  induction ps as [|p tl IH]; intros src max Hw Hm.
  - exists []. split; [reflexivity|]. unfold zlen. cbn [length sum_usr]. lia.
  - inversion Hw as [|x l [Hr Hu] Htl]; subst x l. cbn [data_parts sum_usr].
    pose proof (sum_usr_nonneg tl Htl) as Hsn.
    destruct (Z.ltb_spec max (usr p)) as [Hlt|Hge].
    + destruct (part_contrib_safe (mkpart (raw p) (wrap16 max) (cut p) 0) src) as [l [Hl Hll]];
        try (cbn [usr]; rewrite wrap16_small by lia; lia).
      exists l. split; [exact Hl|]. cbn [usr] in Hll. rewrite wrap16_small in Hll by lia. lia.
    + destruct (part_contrib_safe p src) as [a [Ha Hal]]; try lia. rewrite Ha.
      destruct (Z.leb_spec (max - raw p) 0) as [Hend|Hmore].
      * exists a. split; [reflexivity|lia].
      * destruct (IH (zskip (raw p) src) (max - raw p) Htl) as [b [Hb Hbl]].
        { rewrite zlen_zskip by lia. lia. }
        rewrite Hb. exists (a ++ b). split; [reflexivity|]. unfold zlen in *. rewrite app_length. lia.
Qed.

Lemma add_share_length : forall dim pts sh, length (add_share dim pts sh) = length pts.
Proof.
  induction pts as [|[x y] tl IH]; intro sh; [reflexivity|].
  destruct sh as [|v stl]; cbn [add_share length]; [reflexivity|]. rewrite IH. reflexivity.
Qed.

Lemma apply_data_loop_safe ps : Forall wfp ps -> forall sts n dim acc proc,
  exists pts proc', apply_data_loop (data_parts ps) n dim sts acc proc = Ok (pts, proc') /\ length pts = length acc.
Proof.
  intro Hw. induction sts as [|s tl IH]; intros n dim acc proc; cbn [apply_data_loop].
  - eauto.
  - destruct (3 <=? dim); [eauto|].
    destruct s as [|r d]; [apply IH|].
    destruct (Z.eqb_spec (zlen d) 0) as [E|E]; [apply IH|].
    destruct (data_parts_safe ps d (zlen d) Hw) as [sh [Hsh _]]; [pose proof (zlen_nonneg d); lia|].
    rewrite Hsh.
    destruct (IH n (dim + 1) (add_share dim acc (fit n sh)) (proc + 1)) as [pts [pr [H1 H2]]].
    exists pts, pr. split; [exact H1|]. rewrite H2. apply add_share_length.
Qed.

Lemma apply_data_parts_safe ps n sts : Forall wfp ps ->
  exists pts proc, apply_data_parts ps n sts = Ok (pts, proc) /\ length pts = Z.to_nat n.
Proof.
  intro Hw. unfold apply_data_parts.
  destruct (apply_data_loop_safe ps Hw sts (Z.to_nat n) 0 (origin n) 0) as [pts [pr [H1 H2]]].
  exists pts, pr. split; [exact H1|]. rewrite H2. unfold origin. apply repeat_length.
Qed.

(* ---- linepart::array::apply hands on records of the same kind (two uint16 counters) ---- *)
Lemma emit_wfp acc pt : Forall wfp acc -> wfp pt -> Forall wfp (emit acc pt).
Proof.
  intros Ha Hp. destruct acc as [|last rest]; cbn [emit]; [constructor; auto|].
  inversion Ha as [|x l Hl Hrest]; subst x l.
  destruct (linepart_join last pt) as [j|] eqn:Ej.
  - destruct Hl as [[Hl1 Hl2] [Hl3 Hl4]]. destruct Hp as [[Hp1 Hp2] [Hp3 Hp4]].
    destruct (join_spec last pt j Hl1 Hl3 Hp1 Hp3 Ej) as [Hjr [Hju [_ [_ [Hjr2 [Hju2 _]]]]]].
    constructor; [|exact Hrest]. unfold wfp. lia.
  - constructor; [exact Hp|]. constructor; [exact Hl|exact Hrest].
Qed.

Lemma Forall_rev' {A} (P : A -> Prop) l : Forall P l -> Forall P (rev l).
Proof.
  induction 1 as [|a l Ha _ IH]; cbn [rev]; [constructor|]. apply Forall_app. split; [exact IH|constructor; auto].
Qed.

Lemma merge_wfp r : forall fuel old olds val len acc ps,
  wfp old -> Forall wfp olds -> 0 <= len <= zlen val -> Forall wfp acc ->
  merge fuel r old olds val len acc = Done ps -> Forall wfp ps.
Proof.
  induction fuel as [|f IH]; intros old olds val len acc ps Hold Holds Hlen Hacc; [discriminate|].
  destruct Hold as [Hr Hu].
  cbn [merge].
  set (old0 := if len <? usr old
               then mkpart (raw old)
                           (if negb (cut old =? 0) && (len <? 2) then 0 else wrap16 len)
                           (if (if negb (cut old =? 0) && (len <? 2) then 0 else wrap16 len) =? 0 then 0 else cut old) 0
               else old).
  assert (H0 : raw old0 = raw old /\ 0 <= usr old0 <= 65535 /\ usr old0 <= len).
  { subst old0. destruct (Z.ltb_spec len (usr old)) as [Hlt|Hge]; cbn [raw usr]; [|lia].
    destruct (negb (cut old =? 0) && (len <? 2)); [lia|]. rewrite wrap16_small by lia. lia. }
  destruct H0 as [Hr0 [Hu0 Hul]].
  destruct (Z.eqb_spec (usr old0) 0) as [E0|E0].
  - assert (Hw0 : wfp old0) by (unfold wfp; lia).
    pose proof (emit_wfp acc old0 Hacc Hw0) as Hacc'.
    destruct olds as [|o os].
    + intro Hm. inversion Hm; subst ps. apply Forall_rev'. exact Hacc'.
    + inversion Holds as [|x l Ho Hos]; subst x l.
      destruct (Z.ltb_spec (raw old0) len) as [Hlt|Hge].
      * apply IH; auto. rewrite zlen_zskip by lia. lia.
      * apply IH; auto. pose proof (zlen_nonneg val). lia.
  - destruct (linear_ok r val (usr old0)) as [pt [Hpt Hok]]; [lia|]. rewrite Hpt.
    pose proof (ok_progress _ _ _ _ Hok) as Hp1. pose proof (ok_usr _ _ _ _ Hok) as Hp2.
    pose proof (ok_limit _ _ _ _ Hok) as Hp3.
    set (pt1 := if negb (usr pt =? 0) && (cut pt <? cut old0) then mkpart (raw pt) (usr pt) (cut old0) (trim pt) else pt).
    set (pt2 := if (usr pt1 =? usr old0) && (trim pt1 <? trim old0) then mkpart (raw pt1) (usr pt1) (cut pt1) (trim old0) else pt1).
    assert (H2 : raw pt2 = raw pt /\ usr pt2 = usr pt).
    { subst pt2 pt1. destruct (negb (usr pt =? 0) && (cut pt <? cut old0)); cbn [raw usr];
        match goal with |- context [if ?c then _ else _] => destruct c end; cbn [raw usr]; auto. }
    destruct H2 as [Hr2 Hu2].
    assert (Hw2 : wfp pt2) by (unfold wfp; lia).
    destruct (Z.ltb_spec (raw pt2) (raw old0)) as [Hlt|Hge].
    + rewrite !wrap16_small by lia.
      apply IH; auto.
      * unfold wfp. cbn [raw usr]. lia.
      * rewrite zlen_zskip by lia. lia.
      * apply emit_wfp; auto.
    + set (pt3 := if raw old0 <? raw pt2 then mkpart (raw old0) (usr pt2) (cut pt2) (trim pt2) else pt2).
      assert (H3 : raw pt3 = raw old0 /\ usr pt3 = usr pt2).
      { subst pt3. destruct (Z.ltb_spec (raw old0) (raw pt2)); cbn [raw usr]; lia. }
      destruct H3 as [Hr3 Hu3].
      assert (Hw3 : wfp pt3) by (unfold wfp; lia).
      pose proof (emit_wfp acc pt3 Hacc Hw3) as Hacc'.
      destruct olds as [|o os].
      * intro Hm. inversion Hm; subst ps. apply Forall_rev'. exact Hacc'.
      * inversion Holds as [|x l Ho Hos]; subst x l.
        apply IH; auto. rewrite zlen_zskip by lia. lia.
Qed.

Lemma apply_wfp r olds data ps : Forall wfp olds -> olds <> [] -> apply olds r data = Done ps -> Forall wfp ps.
Proof.
  intros Hw Hne. unfold apply.
  destruct (Z.eqb_spec (zlen data) 0) as [E|E]; [intro H; inversion H; subst; exact Hw|].
  destruct olds as [|o os]; [congruence|].
  inversion Hw as [|x l Ho Hos]; subst x l.
  apply merge_wfp; auto. pose proof (zlen_nonneg data). lia.
Qed.

(* ---- the loop of polyline::set over the stores ---- *)
Lemma vis_loop_total : forall sts dim v, Forall wfp v -> 0 < sum_raw v ->
  exists ps, vis_loop_stores dim v sts = Done ps /\ Forall wfp ps /\ sum_raw ps = sum_raw v.
Proof.
  induction sts as [|s tl IH]; intros dim v Hw Hs; cbn [vis_loop_stores].
  - exists v. auto.
  - destruct s as [|r d]; [apply IH; auto|].
    unfold vis_apply. destruct (3 <=? dim).
    + apply IH; auto.
    + assert (Hne : v <> []) by (intro E; rewrite E in Hs; cbn in Hs; lia).
      destruct (apply_total r v d Hw) as [ps1 [Hd [Hsum _]]]. rewrite Hd.
      specialize (Hsum Hne).
      destruct (IH (dim + 1) ps1) as [ps [Hd2 [Hw2 Hs2]]].
      * eapply apply_wfp; eauto.
      * lia.
      * exists ps. split; [exact Hd2|]. split; [exact Hw2|lia].
Qed.

Lemma chunk_wfp p : chunk p -> wfp p.
Proof. unfold chunk, wfp. lia. Qed.

(* ---- polyline::set, any stores ---- *)
Lemma polyline_set_total st sts :
  (maxsize sts <= 0 /\ polyline_set st sts = SetOk false st) \/
  (0 < maxsize sts /\
   exists ps, vis_loop_stores 0 (set_parts (maxsize sts)) sts = Done ps /\ Forall wfp ps /\ sum_raw ps = maxsize sts /\
     ((sum_usr ps = 0 /\ polyline_set st sts = SetOk false (mkps ps [])) \/
      (0 < sum_usr ps /\ exists pts, polyline_set st sts = SetOk true (mkps ps pts) /\ zlen pts = sum_usr ps))).
Proof.
  unfold polyline_set.
  destruct (Z.leb_spec (maxsize sts) 0) as [Hle|Hgt]; [left; split; [exact Hle|reflexivity]|].
  right. split; [exact Hgt|].
  unfold array_set.
  destruct (Z.eqb_spec (maxsize sts) 0) as [E|_]; [lia|].
  destruct (Z.ltb_spec (maxsize sts) 0) as [E|_]; [lia|].
  destruct (set_parts_ok (maxsize sts) Hgt) as [Hch [Hsum _]].
  destruct (vis_loop_total sts 0 (set_parts (maxsize sts))) as [ps [Hd [Hw Hs]]].
  { eapply Forall_impl; [|exact Hch]. exact chunk_wfp. }
  { lia. }
  exists ps. split; [exact Hd|]. split; [exact Hw|]. split; [lia|].
  rewrite Hd. cbv zeta. replace (sum_usr_m ps) with (sum_usr ps) by (symmetry; apply sum_usr_m_eq).
  pose proof (sum_usr_nonneg ps Hw) as Hnn.
  destruct (Z.eqb_spec (sum_usr ps) 0) as [E|E].
  - left. split; [exact E|reflexivity].
  - right. split; [lia|].
    destruct (apply_data_parts_safe ps (sum_usr ps) sts Hw) as [pts [pr [H1 H2]]].
    rewrite H1. exists pts. split; [reflexivity|]. unfold zlen. lia.
Qed.

(* ---- a dimension with fewer values: nothing is drawn behind its end ----
   [limited n b ps]: every record that draws something draws only points below [n].  linepart::array::apply
   (a) establishes it for n = the number of values of the dimension it applies, whatever the records were, and
   (b) keeps it for every n it held for before, whatever the data is (a further dimension never moves a drawn
   point behind a limit). *)
Definition lim1 (n : Z) (pp : Z * part) : Prop := 0 < usr (snd pp) -> fst pp + usr (snd pp) <= n.
Definition limited (n b : Z) (ps : list part) : Prop := Forall (lim1 n) (placed b ps).

Lemma within_app n : forall a b pos,
  limited n pos (a ++ b) <-> limited n pos a /\ limited n (pos + sum_raw a) b.
Proof. intros a b pos. unfold limited. rewrite placed_app, Forall_app. reflexivity. Qed.

Lemma wfp_nn' p : wfp p -> nn p.
Proof. unfold wfp, nn. lia. Qed.

Lemma emit_within n acc pt : Forall nn acc -> nn pt ->
  limited n 0 (rev acc) -> lim1 n (sum_raw acc, pt) -> limited n 0 (rev (emit acc pt)).
Proof.
  intros Hnn Hnp Ha Hp. destruct acc as [|last rest]; cbn [emit].
  - cbn [rev app]. constructor; [exact Hp|constructor].
  - cbn [rev] in Ha. apply within_app in Ha. destruct Ha as [Hrest Hlast].
    rewrite Z.add_0_l, sum_raw_rev in Hlast. inversion Hlast as [|x l Hl _]; subst.
    inversion Hnn as [|x l [Hl1 Hl2] _]; subst. destruct Hnp as [Hp1 Hp2].
    cbn [sum_raw] in Hp. unfold lim1 in Hl, Hp. cbn [fst snd] in Hl, Hp.
    destruct (linepart_join last pt) as [j|] eqn:Ej.
    + cbn [rev]. apply within_app. split; [exact Hrest|]. rewrite Z.add_0_l, sum_raw_rev.
      constructor; [|constructor].
      destruct (join_spec last pt j Hl1 Hl2 Hp1 Hp2 Ej) as [Hr [Hu [_ [_ [_ [_ [_ [_ Hur]]]]]]]].
      unfold lim1. cbn [fst snd]. lia.
    + cbn [rev]. rewrite <- app_assoc. apply within_app. split; [exact Hrest|].
      rewrite Z.add_0_l, sum_raw_rev. cbn [app].
      constructor; [exact Hl|]. constructor; [|constructor]. unfold lim1. cbn [fst snd placed]. lia.
Qed.

Lemma merge_within r n : forall fuel old olds val len acc ps q,
  wfp old -> Forall wfp olds -> 0 <= len <= zlen val -> Forall nn acc -> q = sum_raw acc ->
  limited n 0 (rev acc) ->
  ((lim1 n (q, old) /\ limited n (q + raw old) olds) \/ (len = 0 \/ q + len <= n)) ->
  merge fuel r old olds val len acc = Done ps -> limited n 0 ps.
Proof.
  induction fuel as [|f IH]; intros old olds val len acc ps q Hold Holds Hlen Hacc Hq Hk Hinv; [discriminate|].
  destruct Hold as [Hr Hu].
  cbn [merge].
  set (old0 := if len <? usr old
               then mkpart (raw old)
                           (if negb (cut old =? 0) && (len <? 2) then 0 else wrap16 len)
                           (if (if negb (cut old =? 0) && (len <? 2) then 0 else wrap16 len) =? 0 then 0 else cut old) 0
               else old).
  assert (H0 : raw old0 = raw old /\ 0 <= usr old0 <= 65535 /\ usr old0 <= len /\ usr old0 <= usr old).
  { subst old0. destruct (Z.ltb_spec len (usr old)) as [Hlt|Hge]; cbn [raw usr]; [|lia].
    destruct (negb (cut old =? 0) && (len <? 2)); [lia|]. rewrite wrap16_small by lia. lia. }
  destruct H0 as [Hr0 [Hu0 [Hul Huo]]].
  assert (Hwin : forall pt, 0 <= usr pt <= usr old0 -> lim1 n (q, pt)).
  { intros pt Hpt. unfold lim1. cbn [fst snd]. destruct Hinv as [[Hwo _]|Hb]; [unfold lim1 in Hwo; cbn [fst snd] in Hwo; lia|lia]. }
  destruct (Z.eqb_spec (usr old0) 0) as [E0|E0].
  - assert (Hnn0 : nn old0) by (unfold nn; lia).
    destruct (emit_sum acc old0 Hacc Hnn0) as [Hes Hen].
    assert (Hk' : limited n 0 (rev (emit acc old0))).
    { apply emit_within; auto. rewrite <- Hq. apply Hwin. lia. }
    destruct olds as [|o os].
    + intro Hm. inversion Hm; subst ps. exact Hk'.
    + inversion Holds as [|x l Ho Hos]; subst x l.
      destruct (Z.ltb_spec (raw old0) len) as [Hlt|Hge].
      * apply (IH o os (zskip (raw old0) val) (len - raw old0) (emit acc old0) ps (q + raw old)); auto; try lia.
        -- rewrite zlen_zskip by lia. lia.
        -- destruct Hinv as [[_ Hwos]|Hb]; [left|right; lia].
           unfold limited in Hwos. cbn [placed] in Hwos. inversion Hwos as [|x l Hx Hl]; subst x l. split; [exact Hx|exact Hl].
      * apply (IH o os val 0 (emit acc old0) ps (q + raw old)); auto; try lia.
  - destruct (linear_ok r val (usr old0)) as [pt [Hpt Hok]]; [lia|]. rewrite Hpt.
    pose proof (ok_progress _ _ _ _ Hok) as Hp1. pose proof (ok_usr _ _ _ _ Hok) as Hp2.
    pose proof (ok_limit _ _ _ _ Hok) as Hp3.
    set (pt1 := if negb (usr pt =? 0) && (cut pt <? cut old0) then mkpart (raw pt) (usr pt) (cut old0) (trim pt) else pt).
    set (pt2 := if (usr pt1 =? usr old0) && (trim pt1 <? trim old0) then mkpart (raw pt1) (usr pt1) (cut pt1) (trim old0) else pt1).
    assert (H2 : raw pt2 = raw pt /\ usr pt2 = usr pt).
    { subst pt2 pt1. destruct (negb (usr pt =? 0) && (cut pt <? cut old0)); cbn [raw usr];
        match goal with |- context [if ?c then _ else _] => destruct c end; cbn [raw usr]; auto. }
    destruct H2 as [Hr2 Hu2].
    assert (Hnn2 : nn pt2) by (unfold nn; lia).
    destruct (Z.ltb_spec (raw pt2) (raw old0)) as [Hlt|Hge].
    + destruct (emit_sum acc pt2 Hacc Hnn2) as [Hes Hen].
      assert (Hk' : limited n 0 (rev (emit acc pt2))).
      { apply emit_within; auto. rewrite <- Hq. apply Hwin. lia. }
      rewrite !wrap16_small by lia.
      apply (IH (mkpart (raw old0 - raw pt2) (usr old0 - raw pt2) 0 (if usr old0 - raw pt2 =? 0 then 0 else trim old0)) olds
                (zskip (raw pt2) val) (len - raw pt2) (emit acc pt2) ps (q + raw pt2)); auto; try lia.
      * unfold wfp. cbn [raw usr]. lia.
      * rewrite zlen_zskip by lia. lia.
      * destruct Hinv as [[Hwo Hwos]|Hb]; [left|right; lia].
        split.
        -- unfold lim1 in *. cbn [fst snd usr] in *. lia.
        -- cbn [raw]. replace (q + raw pt2 + (raw old0 - raw pt2)) with (q + raw old) by lia. exact Hwos.
    + set (pt3 := if raw old0 <? raw pt2 then mkpart (raw old0) (usr pt2) (cut pt2) (trim pt2) else pt2).
      assert (H3 : raw pt3 = raw old0 /\ usr pt3 = usr pt2).
      { subst pt3. destruct (Z.ltb_spec (raw old0) (raw pt2)); cbn [raw usr]; lia. }
      destruct H3 as [Hr3 Hu3].
      assert (Hnn3 : nn pt3) by (unfold nn; lia).
      destruct (emit_sum acc pt3 Hacc Hnn3) as [Hes Hen].
      assert (Hk' : limited n 0 (rev (emit acc pt3))).
      { apply emit_within; auto. rewrite <- Hq. apply Hwin. lia. }
      destruct olds as [|o os].
      * intro Hm. inversion Hm; subst ps. exact Hk'.
      * inversion Holds as [|x l Ho Hos]; subst x l.
        apply (IH o os (zskip (raw pt3) val) (len - raw pt3) (emit acc pt3) ps (q + raw old)); auto; try lia.
        -- rewrite zlen_zskip by lia. lia.
        -- destruct Hinv as [[_ Hwos]|Hb]; [left|right; lia].
           unfold limited in Hwos. cbn [placed] in Hwos. inversion Hwos as [|x l Hx Hl]; subst x l. split; [exact Hx|exact Hl].
Qed.

(* (b) a limit that held before still holds *)
Lemma apply_within_keeps r n olds data ps : Forall wfp olds -> olds <> [] -> limited n 0 olds ->
  apply olds r data = Done ps -> limited n 0 ps.
Proof.
  intros Hw Hne Hin. unfold apply.
  destruct (Z.eqb_spec (zlen data) 0) as [E|E]; [intro H; inversion H; subst; exact Hin|].
  destruct olds as [|o os]; [congruence|].
  inversion Hw as [|x l Ho Hos]; subst x l.
  apply (merge_within r n _ o os data (zlen data) [] ps 0); auto.
  - pose proof (zlen_nonneg data). lia.
  - constructor.
  - left. unfold limited in Hin. cbn [placed] in Hin. inversion Hin as [|x l Hx Hl]; subst x l. split; [exact Hx|exact Hl].
Qed.

(* (a) the dimension that is applied limits the drawn points to its own values *)
Lemma apply_within_data r olds data ps : Forall wfp olds -> olds <> [] -> data <> [] ->
  apply olds r data = Done ps -> limited (zlen data) 0 ps.
Proof.
  intros Hw Hne Hd. unfold apply.
  assert (Hn : 0 < zlen data) by (destruct data; [congruence|unfold zlen; cbn [length]; lia]).
  destruct (Z.eqb_spec (zlen data) 0) as [E|E]; [lia|].
  destruct olds as [|o os]; [congruence|].
  inversion Hw as [|x l Ho Hos]; subst x l.
  apply (merge_within r (zlen data) _ o os data (zlen data) [] ps 0); auto.
  - lia.
  - constructor.
  - right. right. lia.
Qed.

Lemma vis_loop_within n : forall sts dim v ps, Forall wfp v -> 0 < sum_raw v -> limited n 0 v ->
  vis_loop_stores dim v sts = Done ps -> limited n 0 ps.
Proof.
  induction sts as [|s tl IH]; intros dim v ps Hw Hs Hin; cbn [vis_loop_stores].
  - intro H. inversion H; subst. exact Hin.
  - destruct s as [|r d]; [apply IH; auto|].
    unfold vis_apply. destruct (3 <=? dim); [apply IH; auto|].
    assert (Hne : v <> []) by (intro E; rewrite E in Hs; cbn in Hs; lia).
    destruct (apply_total r v d Hw) as [ps1 [Hd [Hsum _]]]. rewrite Hd. specialize (Hsum Hne).
    apply IH; [eapply apply_wfp; eauto|lia|]. eapply apply_within_keeps; eauto.
Qed.

Lemma vis_loop_short : forall sts dim v ps, Forall wfp v -> 0 < sum_raw v ->
  vis_loop_stores dim v sts = Done ps ->
  forall k r d, nth_error sts k = Some (SData r d) -> dim + Z.of_nat k < 3 -> d <> [] -> limited (zlen d) 0 ps.
Proof.
  induction sts as [|s tl IH]; intros dim v ps Hw Hs Hrun k r d Hk Hdim Hd; [destruct k; discriminate|].
  assert (Hne : v <> []) by (intro E; rewrite E in Hs; cbn in Hs; lia).
  destruct k as [|k].
  - cbn [nth_error] in Hk. inversion Hk; subst s. cbn [vis_loop_stores] in Hrun. unfold vis_apply in Hrun.
    destruct (Z.leb_spec 3 dim) as [H3|_]; [lia|].
    destruct (apply_total r v d Hw) as [ps1 [Ha [Hsum _]]]. rewrite Ha in Hrun. specialize (Hsum Hne).
    apply (vis_loop_within (zlen d) tl (dim + 1) ps1 ps); auto; [eapply apply_wfp; eauto|lia|].
    eapply apply_within_data; eauto.
  - cbn [nth_error] in Hk. cbn [vis_loop_stores] in Hrun.
    destruct s as [|r' d'].
    + apply (IH (dim + 1) v ps Hw Hs Hrun k r d Hk); [lia|exact Hd].
    + unfold vis_apply in Hrun. destruct (Z.leb_spec 3 dim) as [H3|_]; [lia|].
      destruct (apply_total r' v d' Hw) as [ps1 [Ha [Hsum _]]]. rewrite Ha in Hrun. specialize (Hsum Hne).
      assert (Hw1 : Forall wfp ps1) by (eapply apply_wfp; eauto).
      apply (IH (dim + 1) ps1 ps Hw1 ltac:(lia) Hrun k r d Hk); [lia|exact Hd].
Qed.

Lemma within_not_drawn n : forall ps b i, Forall wfp ps -> limited n b ps -> n <= i -> draw_count b ps i = 0.
Proof.
  induction ps as [|p tl IH]; intros b i Hw Hin Hi; [reflexivity|].
  inversion Hw as [|x l [_ Hu] Htl]; subst x l.
  unfold limited in Hin. cbn [placed] in Hin. inversion Hin as [|x l Hp Hrest]; subst x l.
  unfold lim1 in Hp. cbn [fst snd] in Hp.
  cbn [draw_count]. rewrite (IH (b + raw p) i Htl Hrest Hi).
  assert (E : drawn_in b p i = false).
  { unfold drawn_in. destruct (Z.leb_spec b i); destruct (Z.ltb_spec i (b + usr p)); cbn [andb]; auto. lia. }
  rewrite E. reflexivity.
Qed.

(* polyline::set: no point behind the end of a usable store among the dimensions of the transformation is drawn *)
Lemma polyline_short_dimension sts ps : 0 < maxsize sts ->
  vis_loop_stores 0 (set_parts (maxsize sts)) sts = Done ps ->
  forall k r d, nth_error sts k = Some (SData r d) -> (k < 3)%nat -> d <> [] ->
    forall i, zlen d <= i -> draw_count 0 ps i = 0.
Proof.
  intros Hgt Hrun k r d Hk Hk3 Hd i Hi.
  destruct (set_parts_ok (maxsize sts) Hgt) as [Hch [Hsum _]].
  assert (Hw0 : Forall wfp (set_parts (maxsize sts))) by (eapply Forall_impl; [|exact Hch]; exact chunk_wfp).
  destruct (vis_loop_total sts 0 (set_parts (maxsize sts)) Hw0 ltac:(lia)) as [ps' [Hd' [Hw _]]].
  rewrite Hrun in Hd'. inversion Hd'; subst ps'.
  apply (within_not_drawn (zlen d)); auto.
  apply (vis_loop_short sts 0 (set_parts (maxsize sts)) ps Hw0 ltac:(lia) Hrun k r d Hk); [lia|exact Hd].
Qed.

(* the statement used by Properties.v: what maxsize is, and what polyline::set does with it *)
Lemma polyline_set_any st sts :
  ((forall r d, In (SData r d) sts -> zlen d <= maxsize sts) /\
   (maxsize sts = -1 \/ exists r d, In (SData r d) sts /\ maxsize sts = zlen d)) /\
  ((maxsize sts <= 0 /\ polyline_set st sts = SetOk false st) \/
   (0 < maxsize sts /\
    exists ps, vis_loop_stores 0 (set_parts (maxsize sts)) sts = Done ps /\ Forall wfp ps /\ sum_raw ps = maxsize sts /\
      ((sum_usr ps = 0 /\ polyline_set st sts = SetOk false (mkps ps [])) \/
       (0 < sum_usr ps /\ exists pts, polyline_set st sts = SetOk true (mkps ps pts) /\ zlen pts = sum_usr ps)))).
Proof. split; [apply maxsize_spec|apply polyline_set_total]. Qed.
