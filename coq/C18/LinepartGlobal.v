(* C18 — the driver loop: fuel suffices, every point is consumed once, per-point drawing. *)
From Coq Require Import ZArith QArith Qround Qabs List Bool Lia Lqa.
From MptV Require Import C18.LinepartModel C18.LinepartSpec C18.LinepartCode C18.LinepartLocal.
Import ListNotations.
Local Open Scope Z_scope.

(* ---- list plumbing ---- *)
Lemma nth_skipn' {A} (d : A) : forall b j (l : list A), nth j (skipn b l) d = nth (b + j) l d.
Proof.
  induction b; intros j l; [reflexivity|].
  destruct l; cbn [skipn]; [destruct j; reflexivity|]. apply IHb.
Qed.

Lemma skipn_skipn' {A} : forall a b (l : list A), skipn a (skipn b l) = skipn (b + a) l.
Proof.
  intros a b. revert a. induction b; intros a l; [reflexivity|].
  destruct l; cbn [skipn Nat.add]; [destruct a; reflexivity|]. apply IHb.
Qed.

Lemma zn_zskip l b j : 0 <= b -> 0 <= j -> zn (zskip b l) j = zn l (b + j).
Proof.
  intros Hb Hj. unfold zn, zskip. rewrite nth_skipn'. f_equal. lia.
Qed.

Lemma zskip_zskip {A} (l : list A) a b : 0 <= a -> 0 <= b -> zskip a (zskip b l) = zskip (b + a) l.
Proof.
  intros Ha Hb. unfold zskip. rewrite skipn_skipn'. f_equal. lia.
Qed.

Lemma zlen_zskip {A} (l : list A) b : 0 <= b <= zlen l -> zlen (zskip b l) = zlen l - b.
Proof.
  intros Hb. unfold zlen, zskip in *. rewrite skipn_length. lia.
Qed.

Lemma zlen_nonneg {A} (l : list A) : 0 <= zlen l.
Proof. unfold zlen. lia. Qed.

(* ---- the loop ---- *)
Definition placed_ok (r : option range) (data : list Q) (pp : Z * part) : Prop :=
  0 <= fst pp /\ part_ok r (zskip (fst pp) data) (zlen data - fst pp) (snd pp).

Lemma Forall_placed_shift (P : Z -> part -> Prop) : forall ps a b,
  Forall (fun pp => P (fst pp + a) (snd pp)) (placed b ps) ->
  Forall (fun pp => P (fst pp) (snd pp)) (placed (b + a) ps).
Proof.
  induction ps as [|p tl IH]; intros a b H; cbn [placed] in *; constructor.
  - inversion H; subst. exact H2.
  - inversion H; subst. replace (b + a + raw p) with (b + raw p + a) by lia. apply IH. exact H3.
Qed.

Lemma drive_ok r : forall fuel from, (length from <= length fuel)%nat ->
  exists ps, drive fuel r from (zlen from) = Done ps /\
    sum_raw ps = zlen from /\ Forall (placed_ok r from) (placed 0 ps).
Proof.
  induction fuel as [|f fuel IH]; intros from Hf.
  - destruct from; [|cbn in Hf; lia]. exists []. cbn. repeat split; constructor.
  - destruct from as [|v tl] eqn:Efrom.
    { exists []. cbn. repeat split; constructor. }
    rewrite <- Efrom in *.
    assert (Hz : 1 <= zlen from <= zlen from) by (rewrite Efrom; unfold zlen; cbn [length]; lia).
    cbn [drive].
    assert (El : (zlen from <=? 0) = false) by (apply Z.leb_gt; lia). rewrite El.
    destruct (linear_ok r from (zlen from) Hz) as [p [Hp Hok]]. rewrite Hp.
    pose proof (ok_progress _ _ _ _ Hok) as Hpr.
    assert (Hl : zlen (zskip (raw p) from) = zlen from - raw p) by (apply zlen_zskip; lia).
    destruct (IH (zskip (raw p) from)) as [ps [Hd [Hs Hall]]].
    { unfold zlen in Hl. rewrite Efrom in *. cbn [length] in *. lia. }
    rewrite Hl in Hd. rewrite Hd.
    exists (p :: ps). split; [reflexivity|]. split; [cbn [sum_raw]; lia|].
    cbn [placed]. constructor.
    + split; [cbn; lia|]. cbn [fst snd]. unfold zskip at 1. cbn [Z.to_nat skipn]. rewrite Z.sub_0_r. exact Hok.
    + apply (Forall_placed_shift (fun pos q => placed_ok r from (pos, q))).
      eapply Forall_impl; [|exact Hall]. intros [pos q] [H0 H1]. cbn [fst snd] in *.
      split; [cbn; lia|]. cbn [fst snd].
      replace (pos + raw p) with (raw p + pos) by lia. rewrite <- zskip_zskip by lia. rewrite Hl in H1.
      replace (zlen from - (raw p + pos)) with (zlen from - raw p - pos) by lia. exact H1.
Qed.

Lemma run_ok r data :
  exists ps, run r data = Done ps /\ sum_raw ps = zlen data /\ Forall (placed_ok r data) (placed 0 ps).
Proof. apply drive_ok. lia. Qed.

(* ---- per point ---- *)
Lemma draw_count_before : forall ps b i, i < b -> Forall (fun pp => 1 <= raw (snd pp)) (placed b ps) ->
  draw_count b ps i = 0.
Proof.
  induction ps as [|p tl IH]; intros b i Hi H; [reflexivity|].
  cbn [draw_count placed] in *. inversion H; subst. cbn [snd] in *.
  rewrite IH by (auto; lia). unfold drawn_in.
  destruct (Z.leb_spec b i); [lia|]. reflexivity.
Qed.

Lemma placed_ok_progress r data ps b :
  Forall (placed_ok r data) (placed b ps) -> Forall (fun pp => 1 <= raw (snd pp)) (placed b ps).
Proof.
  intro H. eapply Forall_impl; [|exact H]. intros pp [_ Hok]. apply (ok_progress _ _ _ _ Hok).
Qed.

Lemma points_ok r data : forall ps b, 0 <= b ->
  Forall (placed_ok r data) (placed b ps) -> b + sum_raw ps = zlen data ->
  forall i, b <= i < zlen data ->
    (inr r (zn data i) -> draw_count b ps i = 1) /\
    (interior_out r data i -> draw_count b ps i = 0).
Proof.
  induction ps as [|p tl IH]; intros b Hb Hall Hsum i Hi.
  - cbn in Hsum. lia.
  - cbn [placed sum_raw draw_count] in *. inversion Hall as [|x l [_ Hok] Htl]; subst. cbn [fst snd] in Hok.
    pose proof (ok_progress _ _ _ _ Hok) as Hpr.
    pose proof (ok_usr _ _ _ _ Hok) as Husr.
    assert (Hzn : forall j, 0 <= j -> zn (zskip b data) j = zn data (b + j)) by (intros; apply zn_zskip; lia).
    destruct (Z_lt_le_dec i (b + raw p)) as [Hlt|Hge].
    + (* i is consumed by this part *)
      rewrite (draw_count_before tl (b + raw p) i Hlt) by (eapply placed_ok_progress; eauto).
      split.
      * intro Hin. pose proof (ok_inside_drawn _ _ _ _ Hok (i - b) ltac:(lia)) as Hd.
        rewrite Hzn in Hd by lia. replace (b + (i - b)) with i in Hd by lia. specialize (Hd Hin).
        unfold drawn_in. destruct (Z.leb_spec b i); [|lia]. destruct (Z.ltb_spec i (b + usr p)); [reflexivity|lia].
      * intros [Hout [Hprev Hnext]]. unfold drawn_in.
        destruct (Z.leb_spec b i); [|lia]. destruct (Z.ltb_spec i (b + usr p)) as [Hdr|]; [|reflexivity].
        exfalso. destruct (ok_drawn _ _ _ _ Hok (i - b) ltac:(lia)) as [Hx|[[Hj [H2 Hx]]|[Hj [H2 Hx]]]].
        -- rewrite Hzn in Hx by lia. replace (b + (i - b)) with i in Hx by lia. contradiction.
        -- rewrite Hzn in Hx by lia. replace (b + 1) with (i + 1) in Hx by lia. apply Hnext; [lia|exact Hx].
        -- rewrite Hzn in Hx by lia. replace (b + (usr p - 2)) with (i - 1) in Hx by lia. apply Hprev; [lia|exact Hx].
    + (* i belongs to a later part; this part can reach it only by its overhanging trim point *)
      destruct (IH (b + raw p) ltac:(lia) Htl ltac:(lia) i ltac:(lia)) as [IH1 IH2].
      assert (Hover : drawn_in b p i = true -> i = b + raw p /\ usr p = raw p + 1).
      { unfold drawn_in. intro H. apply andb_true_iff in H. destruct H as [_ H]. apply Z.ltb_lt in H. lia. }
      split.
      * intro Hin. rewrite (IH1 Hin). destruct (drawn_in b p i) eqn:Ed; [|reflexivity].
        exfalso. destruct (Hover eq_refl) as [-> Hu].
        apply (ok_overhang _ _ _ _ Hok Hu). rewrite Hzn by lia. exact Hin.
      * intros Hio. rewrite (IH2 Hio). destruct (drawn_in b p i) eqn:Ed; [|reflexivity].
        exfalso. destruct (Hover eq_refl) as [-> Hu]. destruct Hio as [Hout [Hprev Hnext]].
        destruct (ok_drawn _ _ _ _ Hok (raw p) ltac:(lia)) as [Hx|[[Hj [H2 Hx]]|[Hj [H2 Hx]]]].
        -- rewrite Hzn in Hx by lia. contradiction.
        -- lia.
        -- rewrite Hzn in Hx by lia. replace (b + (usr p - 2)) with (b + raw p - 1) in Hx by lia.
           apply Hprev; [lia|exact Hx].
Qed.

(* ---- crossing equation ---- *)
Lemma cross_eq r o v : within r v = true -> within r o = false ->
  (o + cross r o v * (v - o) == bound_of r o)%Q.
Proof.
  intros Hv Ho. apply within_false_or in Ho.
  destruct (below r o) eqn:Eb.
  - destruct (cross_below r o v Hv Eb) as [_ [He _]]. rewrite He.
    unfold bound_of. apply below_iff in Eb.
    destruct (Qle_bool (rmin r) o) eqn:E; [|reflexivity]. apply Qle_bool_iff in E. lra.
  - cbn in Ho. destruct (cross_above r o v Hv Eb Ho) as [_ [He _]]. rewrite He.
    unfold bound_of. apply Qltb_false in Eb.
    destruct (Qle_bool (rmin r) o) eqn:E; [reflexivity|].
    assert (Qle_bool (rmin r) o = true) by (apply Qle_bool_iff; auto). congruence.
Qed.

(* ---- join ---- *)
Lemma join_spec a b c :
  0 <= raw a -> 0 <= usr a -> 0 <= raw b -> 0 <= usr b ->
  linepart_join a b = Some c ->
  raw c = raw a + raw b /\ usr c = usr a + usr b /\ cut c = cut a /\ trim c = trim b /\
  raw c <= 65535 /\ usr c <= 65535 /\
  trim a = 0 /\ cut b = 0 /\ usr a = raw a.
Proof.
  intros Ha Hb Hc Hd. unfold linepart_join, U16MAX.
  destruct (Z.ltb_spec (65535 - raw a) (raw b)); [discriminate|].
  destruct (Z.ltb_spec (65535 - usr a) (usr b)); [discriminate|].
  destruct (Z.eqb_spec (trim a) 0); [|discriminate].
  destruct (Z.eqb_spec (cut b) 0); [|discriminate].
  destruct (Z.eqb_spec (usr a) (raw a)); [|discriminate].
  cbn. intro Hjn. inversion Hjn; subst; clear Hjn. cbn [raw usr cut trim].
  rewrite !wrap16_small by lia. repeat split; lia.
Qed.

Lemma join_refused_or_total a b :
  linepart_join a b = None \/ exists c, linepart_join a b = Some c.
Proof. destruct (linepart_join a b); eauto. Qed.

Lemma join_drawn a b c pos i :
  0 <= raw a -> 0 <= usr a -> 0 <= raw b -> 0 <= usr b ->
  linepart_join a b = Some c ->
  drawn_in pos c i = drawn_in pos a i || drawn_in (pos + raw a) b i.
Proof.
  intros Ha Hb Hc Hd Hj. destruct (join_spec a b c Ha Hb Hc Hd Hj) as [Hr [Hu [_ [_ [_ [_ [_ [_ He]]]]]]]].
  unfold drawn_in. rewrite Hu, He.
  destruct (Z.leb_spec pos i), (Z.ltb_spec i (pos + (raw a + usr b))), (Z.ltb_spec i (pos + raw a)),
    (Z.leb_spec (pos + raw a) i), (Z.ltb_spec i (pos + raw a + usr b)); cbn; try reflexivity; lia.
Qed.

(* ---- statements in the form used by Properties.v ---- *)
Lemma Forall_placed_snd (P : part -> Prop) : forall ps b,
  Forall (fun pp => P (snd pp)) (placed b ps) -> Forall P ps.
Proof.
  induction ps as [|p tl IH]; intros b H; constructor; cbn [placed] in H; inversion H; subst; eauto.
Qed.

Lemma progress_lemma r from len : 1 <= len <= zlen from ->
  exists p, linepart_linear r from len = Ok p /\ 1 <= raw p <= len /\ raw p <= 65535.
Proof.
  intro H. destruct (linear_ok r from len H) as [p [Hp Hok]]. exists p. split; auto.
  split; [apply (ok_progress _ _ _ _ Hok)|apply (ok_limit _ _ _ _ Hok)].
Qed.

Lemma consumes_lemma r data :
  exists ps, run r data = Done ps /\ sum_raw ps = zlen data /\ Forall (fun p => 1 <= raw p <= 65535) ps.
Proof.
  destruct (run_ok r data) as [ps [Hr [Hs Hall]]]. exists ps. split; auto. split; auto.
  apply (Forall_placed_snd _ ps 0). eapply Forall_impl; [|exact Hall].
  intros pp [_ Hok]. split; [apply (ok_progress _ _ _ _ Hok)|apply (ok_limit _ _ _ _ Hok)].
Qed.

Lemma run_parts_ok r data ps : run r data = Done ps -> parts_ok r data ps /\ sum_raw ps = zlen data.
Proof.
  intro H. destruct (run_ok r data) as [ps' [Hr [Hs Hall]]]. rewrite H in Hr. inversion Hr; subst ps'.
  split; auto. unfold parts_ok. eapply Forall_impl; [|exact Hall]. intros pp [_ Hok]. exact Hok.
Qed.

Lemma run_points r data ps : run r data = Done ps ->
  forall i, 0 <= i < zlen data ->
    (inr r (zn data i) -> draw_count 0 ps i = 1) /\ (interior_out r data i -> draw_count 0 ps i = 0).
Proof.
  intro H. destruct (run_ok r data) as [ps' [Hr [Hs Hall]]]. rewrite H in Hr. inversion Hr; subst ps'.
  apply (points_ok r data ps 0); auto; lia.
Qed.

Definition edge_ok (r : range) (o v : Q) (c : Z) : Prop :=
  let x := cross r o v in
  inr (Some r) v /\ (0 < x <= 1)%Q /\ (o + x * (v - o) == bound_of r o)%Q /\
  c = code_spec x /\ (Qabs (real_spec c - x) <= 1 # 65536)%Q.

Lemma edge_ok_intro r o v c : within r v = true -> within r o = false -> c = code_spec (cross r o v) ->
  edge_ok r o v c.
Proof.
  intros Hv Ho Hc. unfold edge_ok. split; [apply inr_some; auto|].
  pose proof (cross_unit r o v Hv Ho) as Hu.
  split; [exact Hu|]. split; [apply cross_eq; auto|]. split; [exact Hc|].
  rewrite Hc. apply code_precision. split; [apply Qlt_le_weak|]; tauto.
Qed.

Lemma cut_trim_lemma r data ps : run (Some r) data = Done ps ->
  forall pos p, In (pos, p) (placed 0 ps) ->
    let from := zskip pos data in
    (if (0 <? usr p) && negb (inb (Some r) (zn from 0))
     then edge_ok r (zn from 0) (zn from 1) (cut p) else cut p = 0) /\
    (if (0 <? usr p) && negb (inb (Some r) (zn from (usr p - 1)))
     then edge_ok r (zn from (usr p - 1)) (zn from (usr p - 2)) (trim p) else trim p = 0).
Proof.
  intros H pos p Hin from.
  destruct (run_parts_ok _ _ _ H) as [Hall _]. unfold parts_ok in Hall.
  rewrite Forall_forall in Hall. specialize (Hall _ Hin). cbn [fst snd] in Hall. fold from in Hall.
  pose proof (ok_cut _ _ _ _ Hall) as Hc. pose proof (ok_trim _ _ _ _ Hall) as Ht. cbv beta iota in Hc, Ht.
  pose proof (ok_drawn _ _ _ _ Hall) as Hd.
  split.
  - destruct (0 <? usr p) eqn:Eu; [|exact Hc]. apply Z.ltb_lt in Eu.
    destruct (inb (Some r) (zn from 0)) eqn:Ei; [exact Hc|]. cbn [andb negb] in *.
    apply edge_ok_intro; auto.
    destruct (Hd 0 ltac:(lia)) as [Hx|[[_ [_ Hx]]|[Hj [H2 _]]]].
    + unfold inr in Hx. congruence.
    + apply inr_some. exact Hx.
    + lia.
  - destruct (0 <? usr p) eqn:Eu; [|exact Ht]. apply Z.ltb_lt in Eu.
    destruct (inb (Some r) (zn from (usr p - 1))) eqn:Ei; [exact Ht|]. cbn [andb negb] in *.
    apply edge_ok_intro; auto.
    destruct (Hd (usr p - 1) ltac:(lia)) as [Hx|[[Hj [H2 _]]|[_ [_ Hx]]]].
    + unfold inr in Hx. congruence.
    + lia.
    + apply inr_some. exact Hx.
Qed.

Lemma code_lemma x :
  ((0 <= x <= 1)%Q -> linepart_code x = code_spec x /\ 0 <= code_spec x <= 65535 /\
                      (Qabs (linepart_real (code_spec x) - x) <= 1 # 65536)%Q) /\
  (~ (0 <= x <= 1)%Q -> linepart_code x = -2).
Proof.
  split.
  - intro H. split; [apply code_unit; auto|]. split; [apply code_spec_range; tauto|].
    rewrite real_model_spec. apply code_precision; auto.
  - apply code_outside.
Qed.
