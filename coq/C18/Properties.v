(* C18 — Visible line parts partition the data exactly.
   Only the property theorems (each closed by [exact] of a lemma proved in
   LinepartCode/Local/Global/Round.v), non-vacuity examples and Print Assumptions.

   Reading guide.  Values are exact rationals [Q] (every double is one).  [linepart_linear r from len]
   transcribes mpt_linepart_linear on the [len] values at the head of [from] ([r = None]: no range);
   [run r data] is the loop "pos += part.raw while pos < n" of linepart::array::apply
   (mpt++/linepart.cpp) and yields [Done parts], [OutOfFuel] or [RFault] (a read outside the data).
   Part k starts at pos_k = raw_0 + .. + raw_(k-1); it consumes [pos_k, pos_k + raw_k) and draws
   [pos_k, pos_k + usr_k); [draw_count 0 parts i] = number of parts that draw point i;
   [zn data i] = point i; [inr r v] = v lies in the range (always, if there is none);
   [interior_out r data i] = point i is outside and so are its neighbours (as far as they exist).
   All statements hold for EVERY value sequence, of any length, and every range
   (also min > max, min = max); the 65535-per-part clamp and the mod 2^16 stores are in the model. *)
From Coq Require Import ZArith QArith Qround Qabs List Lia.
From MptV Require Import C18.LinepartModel C18.LinepartSpec C18.LinepartCode C18.LinepartLocal
  C18.LinepartGlobal C18.LinepartRound C18.LinepartMerge C18.LinepartDims C18.LinepartPoints2 C18.LinepartKeeps
  C18.PolylineModel C18.PolylineSpec C18.PolylineSegs C18.PolylineProofs C18.PolylineDims C18.PolylineTotal.
Import ListNotations.
Local Open Scope Z_scope.

(* progress: with at least one value available a call consumes at least one and at most
   min(len, 65535) values, and never reads outside the data *)
Theorem C18_progress :
  forall r from len, 1 <= len <= zlen from ->
    exists p, linepart_linear r from len = Ok p /\ 1 <= raw p <= len /\ raw p <= 65535.
Proof. exact progress_lemma. Qed.

(* the driver loop ends (the fuel |data| suffices), never faults, and the raw counts sum to n:
   every input point is consumed exactly once (parts cover consecutive, disjoint stretches) *)
Theorem C18_consumes_each_point_once :
  forall r data,
    exists ps, run r data = Done ps /\ sum_raw ps = zlen data /\ Forall (fun p => 1 <= raw p <= 65535) ps.
Proof. exact consumes_lemma. Qed.

(* every in-range point lies in the drawn portion of exactly one part *)
Theorem C18_in_range_drawn_once :
  forall r data ps, run r data = Done ps ->
    forall i, 0 <= i < zlen data -> inr r (zn data i) -> draw_count 0 ps i = 1.
Proof. intros r data ps H i Hi. exact (proj1 (run_points r data ps H i Hi)). Qed.

(* no out-of-range interior point is reported as drawn *)
Theorem C18_out_of_range_interior_not_drawn :
  forall r data ps, run r data = Done ps ->
    forall i, 0 <= i < zlen data -> interior_out r data i -> draw_count 0 ps i = 0.
Proof. intros r data ps H i Hi. exact (proj2 (run_points r data ps H i Hi)). Qed.

(* every part is as specified at its position ([part_ok], LinepartSpec.v): in particular a drawn
   point is in range, or it is the first drawn point and the second is in range, or it is the
   last drawn point and the one before is in range *)
Theorem C18_parts_as_specified :
  forall r data ps, run r data = Done ps -> parts_ok r data ps /\ sum_raw ps = zlen data.
Proof. exact run_parts_ok. Qed.

(* cut/trim: for a part whose first (last) drawn point o is out of range, the neighbour v is in range,
   x = cross r o v is the exact fraction of the segment, measured from o, where the line meets the
   boundary (o + x (v - o) = min or max, 0 < x <= 1), the stored code is floor(65536 x) clipped to
   65535, and it decodes to within 2^-16 of x; otherwise the code is 0 ([edge_ok], LinepartGlobal.v) *)
Theorem C18_cut_trim_precision :
  forall r data ps, run (Some r) data = Done ps ->
    forall pos p, In (pos, p) (placed 0 ps) ->
      let from := zskip pos data in
      (if (0 <? usr p) && negb (inb (Some r) (zn from 0))
       then edge_ok r (zn from 0) (zn from 1) (cut p) else cut p = 0) /\
      (if (0 <? usr p) && negb (inb (Some r) (zn from (usr p - 1)))
       then edge_ok r (zn from (usr p - 1)) (zn from (usr p - 2)) (trim p) else trim p = 0).
Proof. exact cut_trim_lemma. Qed.

(* the encoder/decoder pair on its own *)
Theorem C18_code_is_clipped_floor :
  forall x,
    ((0 <= x <= 1)%Q -> linepart_code x = Z.min 65535 (Qfloor (x * (65536 # 1))) /\
                        0 <= code_spec x <= 65535 /\
                        (Qabs (linepart_real (code_spec x) - x) <= 1 # 65536)%Q) /\
    (~ (0 <= x <= 1)%Q -> linepart_code x = -2).
Proof. exact code_lemma. Qed.

(* joining: an accepted join adds up both counts without wrapping, keeps the cut of the first and
   the trim of the second part, and draws exactly the points the two parts drew *)
Theorem C18_join_preserves_totals :
  forall a b c, 0 <= raw a -> 0 <= usr a -> 0 <= raw b -> 0 <= usr b ->
    linepart_join a b = Some c ->
    raw c = raw a + raw b /\ usr c = usr a + usr b /\ cut c = cut a /\ trim c = trim b /\
    raw c <= 65535 /\ usr c <= 65535 /\ trim a = 0 /\ cut b = 0 /\ usr a = raw a.
Proof. exact join_spec. Qed.

Theorem C18_join_draws_union :
  forall a b c pos i, 0 <= raw a -> 0 <= usr a -> 0 <= raw b -> 0 <= usr b ->
    linepart_join a b = Some c ->
    drawn_in pos c i = (drawn_in pos a i || drawn_in (pos + raw a) b i)%bool.
Proof. exact join_drawn. Qed.

(* the second driver (polyline::set): linepart::array::set(n) presets chunks of 65533 points,
   linepart::array::apply() re-splits each chunk and joins neighbours where mpt_linepart_join accepts.
   It ends (fuel |data| + number of chunks suffices), never reads outside the data, and the result
   still covers exactly n points; joining does not change which points are drawn, so the per-point
   statements hold for the joined list as well. *)
Theorem C18_set_apply_covers_all :
  forall r data, exists ps, run_merged r data = Done ps /\ sum_raw ps = zlen data.
Proof. exact run_merged_ok. Qed.

Theorem C18_set_apply_points :
  forall r data ps, run_merged r data = Done ps ->
    sum_raw ps = zlen data /\
    forall i, 0 <= i < zlen data ->
      (inr r (zn data i) -> draw_count 0 ps i = 1) /\ (interior_out r data i -> draw_count 0 ps i = 0).
Proof. exact run_merged_points. Qed.

(* exact arithmetic vs binary64 (the comparison rule of the correspondence check): for range bounds
   and points with <= 16 fractional bits and magnitude < 2^16, ANY y within relative error 2^-53 of
   the exact crossing fraction x that equals x whenever x is a multiple of 2^-16 — the two stated
   properties of a correctly rounded binary64 division, hypotheses here — gets the same code *)
Theorem C18_code_agrees_small_dyadic :
  forall r o v y,
    small_dyadic (rmin r) -> small_dyadic (rmax r) -> small_dyadic o -> small_dyadic v ->
    within r v = true -> within r o = false ->
    let x := cross r o v in
    (Qabs (y - x) <= x * (1 # two53))%Q ->
    (forall k, 0 <= k <= 65536 -> (x == k # 65536)%Q -> (y == x)%Q) ->
    wrap16 (linepart_code y) = code_spec x /\ wrap16 (linepart_code y) = edge_code r o v.
Proof. exact code_agrees_small_dyadic. Qed.

(* ---- mpt++/polyline.cpp and the rest of mpt++/linepart.cpp ---- *)

(* a FURTHER dimension (linepart::array::apply on an existing part list, as patched, see LinepartModel.v): for any
   list of records (two uint16 counters each) and any amount of data - more or less than the parts cover - the loop
   ends with the fuel |data| + |parts|, never reads outside the data, and the new list covers exactly the points
   the old one covered ("joining parts never changes the total number of points covered") *)
Theorem C18_further_dimension_covers :
  forall r olds data, Forall wfp olds ->
    exists ps, apply olds r data = Done ps /\
      (olds <> [] -> sum_raw ps = sum_raw olds) /\ (olds = [] -> sum_raw ps = zlen data).
Proof. exact apply_total. Qed.

(* the same loop, point by point, for a dimension that has a value for every point the records cover ([fits]:
   no record draws behind the data; [wfo]: 1 <= raw, usr <= raw + 1): it never makes a point visible that was not,
   a point that was drawn by exactly one record and is in range in the new dimension is again drawn exactly once,
   and a point that is interior out of range in the new dimension is drawn by no record *)
Theorem C18_further_dimension_points :
  forall r olds data ps,
    Forall wfo olds -> olds <> [] -> sum_raw olds <= zlen data -> fits data 0 olds ->
    apply olds r data = Done ps ->
    sum_raw ps = sum_raw olds /\
    forall i, 0 <= i ->
      (draw_count 0 olds i = 0 -> draw_count 0 ps i = 0) /\
      (draw_count 0 olds i = 1 -> inr r (zn data i) -> draw_count 0 ps i = 1) /\
      (interior_out r data i -> draw_count 0 ps i = 0).
Proof. exact apply_points2. Qed.

(* the part list polyline::set computes from TWO stores of doubles (set(n), apply(dimension 0), apply(dimension 1);
   the second store has at least as many values as the first): it ends without reading outside either array, covers
   the n points of the first store, a point in range in BOTH dimensions is drawn exactly once, a point interior out
   of range in ONE of them is not drawn *)
Theorem C18_polyline_two_dimensions :
  forall r0 d0 r1 d1, d0 <> [] -> zlen d0 <= zlen d1 ->
    exists ps, vis_loop_stores 0 (set_parts (zlen d0)) [SData r0 d0; SData r1 d1] = Done ps /\
      sum_raw ps = zlen d0 /\
      forall i, 0 <= i < zlen d0 ->
        (inr r0 (zn d0 i) -> inr r1 (zn d1 i) -> draw_count 0 ps i = 1) /\
        (interior_out r0 d0 i \/ interior_out r1 d1 i -> draw_count 0 ps i = 0).
Proof. exact two_dimensions. Qed.

(* ... and from THREE stores (all the transformation has dimensions for): the records the second dimension hands on are
   again well formed and stay within the n points (LinepartKeeps.v), so the same step applies once more *)
Theorem C18_polyline_three_dimensions :
  forall r0 d0 r1 d1 r2 d2, d0 <> [] -> zlen d0 <= zlen d1 -> zlen d0 <= zlen d2 ->
    exists ps, vis_loop_stores 0 (set_parts (zlen d0)) [SData r0 d0; SData r1 d1; SData r2 d2] = Done ps /\
      sum_raw ps = zlen d0 /\
      forall i, 0 <= i < zlen d0 ->
        (inr r0 (zn d0 i) -> inr r1 (zn d1 i) -> inr r2 (zn d2 i) -> draw_count 0 ps i = 1) /\
        (interior_out r0 d0 i \/ interior_out r1 d1 i \/ interior_out r2 d2 i -> draw_count 0 ps i = 0).
Proof. exact three_dimensions. Qed.

(* every part of set(n)+apply() (joins included), at its position: it consumes at least one point, draws only
   points that exist (pos + usr <= n, usr <= 65535), a part with a cut or trim fraction draws at least two points,
   and the fractions are those of the first / last segment ([head_ok], [tail_ok] = the statement of
   C18_cut_trim_precision for this path) *)
Theorem C18_set_apply_parts :
  forall r data ps, run_merged r data = Done ps ->
    sum_raw ps = zlen data /\ forall pos p, In (pos, p) (placed 0 ps) -> seg_ok r data pos p.
Proof. exact merged_parts. Qed.

(* polyline::set(transform, {one store of doubles}) on ANY polyline (used or not): it never reads outside the
   data (no SetFault) and ends (no SetStall); the parts are those of set(n)+apply(); it fails exactly when nothing is
   drawn; otherwise the point array is, point for point, what PolylineSpec.v asks for ([drawn_values]: the data
   value itself, or the point at the decoded fraction on the first / last segment), x from the data, y = 0 *)
Theorem C18_polyline_one_dimension :
  forall st r data, data <> [] ->
    exists ps, run_merged r data = Done ps /\ segs_ok r data 0 ps /\ sum_raw ps = zlen data /\
      ((sum_usr ps = 0 /\ polyline_set st [SData r data] = SetOk false (mkps ps [])) \/
       (0 < sum_usr ps /\ exists pts, polyline_set st [SData r data] = SetOk true (mkps ps pts) /\
          Forall2 point_is pts (drawn_values data 0 ps))).
Proof. exact polyline_set_one. Qed.

(* "the stored cut/trim fractions reproduce, to the precision of their 16-bit encoding, where the line crosses the
   range boundary", at the level of the points: the first point of a part with a cut fraction (the last point of a
   part with a trim fraction) lies within 2^-16 of the segment length of the boundary the segment crosses *)
Theorem C18_polyline_clip_on_boundary :
  forall rg data ps, run_merged (Some rg) data = Done ps ->
    forall pos p, In (pos, p) (placed 0 ps) ->
      seg_ok (Some rg) data pos p /\
      (cut p <> 0 ->
         edge_ok rg (zn data pos) (zn data (pos + 1)) (cut p) /\
         (Qabs (drawn_value data pos p 0 - bound_of rg (zn data pos))
          <= Qabs (zn data (pos + 1) - zn data pos) * (1 # 65536))%Q) /\
      (trim p <> 0 ->
         edge_ok rg (zn data (pos + usr p - 1)) (zn data (pos + usr p - 2)) (trim p) /\
         (Qabs (drawn_value data pos p (usr p - 1) - bound_of rg (zn data (pos + usr p - 1)))
          <= Qabs (zn data (pos + usr p - 2) - zn data (pos + usr p - 1)) * (1 # 65536))%Q).
Proof. exact merged_clip. Qed.

(* the part iterator (begin / end / ++ / * / line() / points()): it ends, the lines tile the point array in the order
   of the parts (offset = sum of usr before, length = usr), points() is the line without clipped ends and never
   underflows; parts it does not reach draw nothing *)
Theorem C18_polyline_iterator :
  forall r data ps pl, run_merged r data = Done ps -> Z.of_nat (length pl) = sum_usr ps ->
    exists k vs, polyline_walk (mkps ps pl) = WDone vs /\
      map view_tuple vs = views_of 0 (firstn k ps) /\ Forall (fun p => usr p = 0) (skipn k ps).
Proof. exact polyline_walk_one. Qed.

(* polyline::set(transform, stores) for ANY list of value stores - any number, with or without doubles, of any (unequal)
   lengths - on any polyline: [maxsize] (as patched: docs/C18_maxsize_all_stores.diff) is the number of values of the
   LONGEST store of doubles (-1 without one); without values the call fails and leaves the polyline as it is; otherwise
   it ends (no SetStall), never reads outside a store (no SetFault - neither in the merge loops nor in apply_data), the part
   list covers exactly maxsize points (every value of every store is consumed exactly once, also those of a store that
   is longer than the first), it fails exactly when nothing is drawn and else holds one point per drawn point *)
Theorem C18_polyline_set_any_stores :
  forall st sts,
    ((forall r d, In (SData r d) sts -> zlen d <= maxsize sts) /\
     (maxsize sts = -1 \/ exists r d, In (SData r d) sts /\ maxsize sts = zlen d)) /\
    ((maxsize sts <= 0 /\ polyline_set st sts = SetOk false st) \/
     (0 < maxsize sts /\
      exists ps, vis_loop_stores 0 (set_parts (maxsize sts)) sts = Done ps /\ Forall wfp ps /\ sum_raw ps = maxsize sts /\
        ((sum_usr ps = 0 /\ polyline_set st sts = SetOk false (mkps ps [])) \/
         (0 < sum_usr ps /\ exists pts, polyline_set st sts = SetOk true (mkps ps pts) /\ zlen pts = sum_usr ps)))).
Proof. exact polyline_set_any. Qed.

(* a store with FEWER values than the longest (at any of the three positions the transformation has dimensions for):
   no point behind its last value is drawn by any part - the points the dimension has no value for are consumed but not
   reported as drawn *)
Theorem C18_polyline_short_dimension :
  forall sts ps, 0 < maxsize sts ->
    vis_loop_stores 0 (set_parts (maxsize sts)) sts = Done ps ->
    forall k r d, nth_error sts k = Some (SData r d) -> (k < 3)%nat -> d <> [] ->
      forall i, zlen d <= i -> draw_count 0 ps i = 0.
Proof. exact polyline_short_dimension. Qed.

(* apply_data(points, part records, transform, stores) for ANY part records (two uint16 counters each; they need not come
   from polyline::set on these stores) and any stores: as patched (docs/C18_apply_data_remaining.diff) it never reads
   behind a store and keeps the number of points *)
Theorem C18_apply_data_any_parts :
  forall ps n sts, Forall wfp ps ->
    exists pts proc, apply_data_parts ps n sts = Ok (pts, proc) /\ length pts = Z.to_nat n.
Proof. exact apply_data_parts_safe. Qed.

(* ---- non-vacuity ---- *)
Definition r13 : range := mkrange (1 # 1) (3 # 1).
Definition d7 : list Q := [0 # 1; 2 # 1; 5 # 1; 6 # 1; 5 # 2; 3 # 1; 4 # 1]%Q.

(* below, inside, above, above, inside, at-max, above *)
Example C18_run_example :
  run (Some r13) d7 = Done [mkpart 3 3 32768 43690; mkpart 4 4 56173 65535].
Proof. vm_compute. reflexivity. Qed.

Example C18_classes_example :
  spec_classes (Some r13) d7 = [Edge; Once; Edge; Edge; Once; Once; Edge].
Proof. vm_compute. reflexivity. Qed.

Example C18_counts_example :
  map (draw_count 0 [mkpart 3 3 32768 43690; mkpart 4 4 56173 65535]) [0; 1; 2; 3; 4; 5; 6]
  = [1; 1; 1; 1; 1; 1; 1].
Proof. vm_compute. reflexivity. Qed.

Example C18_interior_example :
  interior_out (Some r13) [5 # 1; 6 # 1; 7 # 1; 2 # 1]%Q 0 /\
  run (Some r13) [5 # 1; 6 # 1; 7 # 1; 2 # 1]%Q = Done [mkpart 2 0 0 0; mkpart 2 2 52428 0].
Proof.
  split; [|vm_compute; reflexivity].
  unfold interior_out, inr. vm_compute. repeat split; intros; discriminate.
Qed.

(* crossing of the segment 0 -> 2 with min = 1 at one half; 6 -> 5/2 meets max = 3 at 6/7 *)
Example C18_cross_example :
  (cross r13 (0 # 1) (2 # 1) == 1 # 2)%Q /\ code_spec (1 # 2) = 32768 /\
  (cross r13 (6 # 1) (5 # 2) == 6 # 7)%Q /\ code_spec (6 # 7) = 56173.
Proof. vm_compute. repeat split; reflexivity. Qed.

Example C18_join_example :
  linepart_join (mkpart 3 3 7 0) (mkpart 4 2 0 9) = Some (mkpart 7 5 7 9) /\
  linepart_join (mkpart 65533 65533 0 0) (mkpart 3 3 0 0) = None /\
  linepart_join (mkpart 3 4 0 5) (mkpart 4 2 0 9) = None.
Proof. vm_compute. repeat split; reflexivity. Qed.

Example C18_merged_example :
  run_merged (Some r13) d7 = Done [mkpart 3 3 32768 43690; mkpart 4 4 56173 65535] /\
  run_merged None d7 = Done [mkpart 7 7 0 0].
Proof. vm_compute. split; reflexivity. Qed.

Example C18_small_dyadic_example : small_dyadic (5 # 2) /\ small_dyadic (rmax r13).
Proof. split; [exists 163840|exists 196608]; split; try reflexivity; lia. Qed.

(* a representable quotient and a non-representable one meet the rounding hypotheses *)
Example C18_rounding_hypotheses_example :
  let x := cross r13 (0 # 1) (2 # 1) in
  (Qabs (x - x) <= x * (1 # two53))%Q /\ (forall k, 0 <= k <= 65536 -> (x == k # 65536)%Q -> (x == x)%Q).
Proof. split; [vm_compute; discriminate|reflexivity]. Qed.

(* polyline::set on the example: two parts, seven points; the clipped points 1, 98305/32768 (max = 3 + 2^-15
   outside), 393221/131072, 196609/65536 lie within 2^-16 * segment length of the boundary *)
Example C18_polyline_example :
  exists st, polyline_set (mkps [] []) [SData (Some r13) d7] = SetOk true st /\
    vis st = [mkpart 3 3 32768 43690; mkpart 4 4 56173 65535] /\
    map (fun p => (Qred (fst p), Qred (snd p))) (pts st) =
      [(1 # 1, 0 # 1); (2 # 1, 0 # 1); (98305 # 32768, 0 # 1); (393221 # 131072, 0 # 1); (5 # 2, 0 # 1);
       (3 # 1, 0 # 1); (196609 # 65536, 0 # 1)]%Q /\
    map Qred (drawn_values d7 0 (vis st)) =
      [1 # 1; 2 # 1; 98305 # 32768; 393221 # 131072; 5 # 2; 3 # 1; 196609 # 65536]%Q.
Proof. eexists. split; [vm_compute; reflexivity|]. vm_compute. repeat split; reflexivity. Qed.

Example C18_polyline_walk_example :
  polyline_walk (mkps [mkpart 3 3 32768 43690; mkpart 4 4 56173 65535] (repeat (0 # 1, 0 # 1)%Q 7))
  = WDone [mkview 0 3 1 1; mkview 3 4 4 2] /\
  views_of 0 [mkpart 3 3 32768 43690; mkpart 4 4 56173 65535] = [(0, 3, 1, 1); (3, 4, 4, 2)].
Proof. vm_compute. split; reflexivity. Qed.

(* a second dimension: the trim of the old part (49152, its 5th point) is NOT taken over by a new part that ends
   earlier (on the 3rd point); less data than the parts cover: the rest is kept as covered, nothing drawn;
   a store without doubles between two usable ones is skipped and the third dimension still limits the line *)
Example C18_further_dimension_example :
  apply [mkpart 5 5 0 49152] (Some r13) [2 # 1; 2 # 1; 0 # 1; 0 # 1; 0 # 1]%Q = Done [mkpart 5 3 0 32768] /\
  apply [mkpart 3 3 0 0; mkpart 5 5 0 0] None [2 # 1; 2 # 1; 0 # 1]%Q = Done [mkpart 8 3 0 0] /\
  wfp (mkpart 5 5 0 49152) /\
  exists st, polyline_set (mkps [] []) [SData None [1 # 1; 2 # 1]%Q; SNone; SData (Some r13) [0 # 1; 2 # 1]%Q] = SetOk true st /\
    vis st = [mkpart 2 2 32768 0] /\
    map (fun p => (Qred (fst p), Qred (snd p))) (pts st) = [(5 # 2, 1 # 1); (4 # 1, 2 # 1)]%Q.
Proof.
  split; [vm_compute; reflexivity|]. split; [vm_compute; reflexivity|]. split; [unfold wfp; cbn; lia|].
  eexists. split; [vm_compute; reflexivity|]. vm_compute. split; reflexivity.
Qed.

(* two ranged dimensions: x leaves its range at the 5th point, y at the 3rd: one part of 3 drawn points whose trim is
   that of y's crossing; points 0 and 1 are in range in both, point 3 is interior out of range in y *)
Example C18_two_dimensions_example :
  let x := [2 # 1; 2 # 1; 2 # 1; 2 # 1; -2 # 1]%Q in
  let y := [2 # 1; 2 # 1; 0 # 1; 0 # 1; 0 # 1]%Q in
  vis_loop_stores 0 (set_parts 5) [SData (Some r13) x; SData (Some r13) y] = Done [mkpart 5 3 0 32768] /\
  map (draw_count 0 [mkpart 5 3 0 32768]) [0; 1; 2; 3; 4] = [1; 1; 1; 0; 0] /\
  interior_out (Some r13) y 3 /\ wfo (mkpart 5 5 0 49152) /\ fits y 0 [mkpart 5 5 0 49152].
Proof.
  cbv zeta. split; [vm_compute; reflexivity|]. split; [vm_compute; reflexivity|].
  split; [unfold interior_out, inr; vm_compute; repeat split; intros; discriminate|].
  split; [unfold wfo; cbn; lia|]. constructor; [cbn; lia|constructor].
Qed.

Example C18_three_dimensions_example :
  let x := [0 # 1; 2 # 1; 2 # 1; 2 # 1; 2 # 1]%Q in
  let y := [2 # 1; 2 # 1; 2 # 1; 4 # 1; 4 # 1]%Q in
  let z := [2 # 1; 2 # 1; 2 # 1; 2 # 1; 2 # 1; 9 # 1]%Q in
  vis_loop_stores 0 (set_parts 5) [SData (Some r13) x; SData (Some r13) y; SData None z]
    = Done [mkpart 4 4 32768 32768; mkpart 1 0 0 0] /\
  map (draw_count 0 [mkpart 4 4 32768 32768; mkpart 1 0 0 0]) [0; 1; 2; 3; 4] = [1; 1; 1; 1; 0] /\ interior_out (Some r13) y 4.
Proof.
  cbv zeta. split; [vm_compute; reflexivity|]. split; [vm_compute; reflexivity|].
  unfold interior_out, inr. vm_compute. repeat split; intros; discriminate.
Qed.

(* unequal lengths: the FIRST store has 2 values, the second 4: four points are covered, two are drawn (as when the
   stores come in the other order); records that reach behind the data of a dimension: the second part gets the one
   value that is left, nothing behind the store is read *)
Example C18_unequal_lengths_example :
  let x := [1 # 1; 2 # 1]%Q in
  let y := [1 # 1; 2 # 1; 3 # 1; 4 # 1]%Q in
  maxsize [SData None x; SData None y] = 4 /\ maxsize [SNone; SData None x] = 2 /\ maxsize [SNone; SData None []] = 0 /\
  (exists st, polyline_set (mkps [] []) [SData None x; SData None y] = SetOk true st /\
     vis st = [mkpart 4 2 0 0] /\ map (fun p => (Qred (fst p), Qred (snd p))) (pts st) = [(1 # 1, 1 # 1); (2 # 1, 2 # 1)]%Q) /\
  (exists st, polyline_set (mkps [] []) [SData None y; SData None x] = SetOk true st /\ vis st = [mkpart 4 2 0 0]) /\
  (exists p, apply_data_parts [mkpart 3 3 0 0; mkpart 3 3 0 0] 6 [SData None y] = Ok (p, 1) /\
     map (fun q => Qred (fst q)) p = [1 # 1; 2 # 1; 3 # 1; 4 # 1; 0 # 1; 0 # 1]%Q) /\
  (exists p, apply_data_parts [mkpart 3 3 0 32768] 3 [SData None x] = Ok (p, 1) /\
     map (fun q => Qred (fst q)) p = [1 # 1; 2 # 1; 0 # 1]%Q).
Proof.
  cbv zeta. split; [vm_compute; reflexivity|]. split; [vm_compute; reflexivity|]. split; [vm_compute; reflexivity|].
  split; [eexists; split; [vm_compute; reflexivity|vm_compute; split; reflexivity]|].
  split; [eexists; split; [vm_compute; reflexivity|vm_compute; reflexivity]|].
  split; eexists; (split; [vm_compute; reflexivity|vm_compute; reflexivity]).
Qed.

Print Assumptions C18_progress.
Print Assumptions C18_consumes_each_point_once.
Print Assumptions C18_in_range_drawn_once.
Print Assumptions C18_out_of_range_interior_not_drawn.
Print Assumptions C18_parts_as_specified.
Print Assumptions C18_cut_trim_precision.
Print Assumptions C18_code_is_clipped_floor.
Print Assumptions C18_join_preserves_totals.
Print Assumptions C18_join_draws_union.
Print Assumptions C18_set_apply_covers_all.
Print Assumptions C18_set_apply_points.
Print Assumptions C18_code_agrees_small_dyadic.
Print Assumptions C18_further_dimension_covers.
Print Assumptions C18_set_apply_parts.
Print Assumptions C18_polyline_one_dimension.
Print Assumptions C18_polyline_clip_on_boundary.
Print Assumptions C18_polyline_iterator.
Print Assumptions C18_further_dimension_points.
Print Assumptions C18_polyline_two_dimensions.
Print Assumptions C18_polyline_three_dimensions.
Print Assumptions C18_polyline_set_any_stores.
Print Assumptions C18_polyline_short_dimension.
Print Assumptions C18_apply_data_any_parts.
