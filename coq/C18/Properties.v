(* C18 — Visible line parts partition the data exactly.
   Only the property theorems (each closed by [exact] of a lemma proved in
   LinepartCode/Local/Global/Round.v), non-vacuity examples and Print Assumptions.

   Reading guide.  Values are exact rationals [Q] (every double is one).  [linepart_linear r from len]
   transcribes mpt_linepart_linear on the [len] values at the head of [from] ([r = None]: no range);
   [run r data] is the loop "pos += part.raw while pos < n" of linepart::array::apply
   (mpt++/linepart.cpp) and yields [Done parts], [OutOfFuel] or [RFault] (a read outside the data).
   Part k starts at pos_k = raw_0 + .. + raw_(k-1); it consumes [pos_k, pos_k + raw_k) and draws
   [pos_k, pos_k + usr_k); [draw_count 0 parts i] = number of parts that draw point i;
   [zn data i] = point i; [inr r v] = v lies in the range (always, if there is none);
   [interior_out r data i] = point i is outside and so are its neighbours (as far as they exist).
   All statements hold for EVERY value sequence, of any length, and every range
   (also min > max, min = max); the 65535-per-part clamp and the mod 2^16 stores are in the model. *)
From Coq Require Import ZArith QArith Qround Qabs List Lia.
From MptV Require Import C18.LinepartModel C18.LinepartSpec C18.LinepartCode C18.LinepartLocal
  C18.LinepartGlobal C18.LinepartRound C18.LinepartMerge.
Import ListNotations.
Local Open Scope Z_scope.

(* progress: with at least one value available a call consumes at least one and at most
   min(len, 65535) values, and never reads outside the data *)
Theorem C18_progress :
  forall r from len, 1 <= len <= zlen from ->
    exists p, linepart_linear r from len = Ok p /\ 1 <= raw p <= len /\ raw p <= 65535.
Proof. exact progress_lemma. Qed.

(* the driver loop ends (the fuel |data| suffices), never faults, and the raw counts sum to n:
   every input point is consumed exactly once (parts cover consecutive, disjoint stretches) *)
Theorem C18_consumes_each_point_once :
  forall r data,
    exists ps, run r data = Done ps /\ sum_raw ps = zlen data /\ Forall (fun p => 1 <= raw p <= 65535) ps.
Proof. exact consumes_lemma. Qed.

(* every in-range point lies in the drawn portion of exactly one part *)
Theorem C18_in_range_drawn_once :
  forall r data ps, run r data = Done ps ->
    forall i, 0 <= i < zlen data -> inr r (zn data i) -> draw_count 0 ps i = 1.
Proof. intros r data ps H i Hi. exact (proj1 (run_points r data ps H i Hi)). Qed.

(* no out-of-range interior point is reported as drawn *)
Theorem C18_out_of_range_interior_not_drawn :
  forall r data ps, run r data = Done ps ->
    forall i, 0 <= i < zlen data -> interior_out r data i -> draw_count 0 ps i = 0.
Proof. intros r data ps H i Hi. exact (proj2 (run_points r data ps H i Hi)). Qed.

(* every part is as specified at its position ([part_ok], LinepartSpec.v): in particular a drawn
   point is in range, or it is the first drawn point and the second is in range, or it is the
   last drawn point and the one before is in range *)
Theorem C18_parts_as_specified :
  forall r data ps, run r data = Done ps -> parts_ok r data ps /\ sum_raw ps = zlen data.
Proof. exact run_parts_ok. Qed.

(* cut/trim: for a part whose first (last) drawn point o is out of range, the neighbour v is in range,
   x = cross r o v is the exact fraction of the segment, measured from o, where the line meets the
   boundary (o + x (v - o) = min or max, 0 < x <= 1), the stored code is floor(65536 x) clipped to
   65535, and it decodes to within 2^-16 of x; otherwise the code is 0 ([edge_ok], LinepartGlobal.v) *)
Theorem C18_cut_trim_precision :
  forall r data ps, run (Some r) data = Done ps ->
    forall pos p, In (pos, p) (placed 0 ps) ->
      let from := zskip pos data in
      (if (0 <? usr p) && negb (inb (Some r) (zn from 0))
       then edge_ok r (zn from 0) (zn from 1) (cut p) else cut p = 0) /\
      (if (0 <? usr p) && negb (inb (Some r) (zn from (usr p - 1)))
       then edge_ok r (zn from (usr p - 1)) (zn from (usr p - 2)) (trim p) else trim p = 0).
Proof. exact cut_trim_lemma. Qed.

(* the encoder/decoder pair on its own *)
Theorem C18_code_is_clipped_floor :
  forall x,
    ((0 <= x <= 1)%Q -> linepart_code x = Z.min 65535 (Qfloor (x * (65536 # 1))) /\
                        0 <= code_spec x <= 65535 /\
                        (Qabs (linepart_real (code_spec x) - x) <= 1 # 65536)%Q) /\
    (~ (0 <= x <= 1)%Q -> linepart_code x = -2).
Proof. exact code_lemma. Qed.

(* joining: an accepted join adds up both counts without wrapping, keeps the cut of the first and
   the trim of the second part, and draws exactly the points the two parts drew *)
Theorem C18_join_preserves_totals :
  forall a b c, 0 <= raw a -> 0 <= usr a -> 0 <= raw b -> 0 <= usr b ->
    linepart_join a b = Some c ->
    raw c = raw a + raw b /\ usr c = usr a + usr b /\ cut c = cut a /\ trim c = trim b /\
    raw c <= 65535 /\ usr c <= 65535 /\ trim a = 0 /\ cut b = 0 /\ usr a = raw a.
Proof. exact join_spec. Qed.

Theorem C18_join_draws_union :
  forall a b c pos i, 0 <= raw a -> 0 <= usr a -> 0 <= raw b -> 0 <= usr b ->
    linepart_join a b = Some c ->
    drawn_in pos c i = (drawn_in pos a i || drawn_in (pos + raw a) b i)%bool.
Proof. exact join_drawn. Qed.

(* the second driver (polyline::set): linepart::array::set(n) presets chunks of 65533 points,
   linepart::array::apply() re-splits each chunk and joins neighbours where mpt_linepart_join accepts.
   It ends (fuel |data| + number of chunks suffices), never reads outside the data, and the result
   still covers exactly n points; joining does not change which points are drawn, so the per-point
   statements hold for the joined list as well. *)
Theorem C18_set_apply_covers_all :
  forall r data, exists ps, run_merged r data = Done ps /\ sum_raw ps = zlen data.
Proof. exact run_merged_ok. Qed.

Theorem C18_set_apply_points :
  forall r data ps, run_merged r data = Done ps ->
    sum_raw ps = zlen data /\
    forall i, 0 <= i < zlen data ->
      (inr r (zn data i) -> draw_count 0 ps i = 1) /\ (interior_out r data i -> draw_count 0 ps i = 0).
Proof. exact run_merged_points. Qed.

(* exact arithmetic vs binary64 (the comparison rule of the correspondence check): for range bounds
   and points with <= 16 fractional bits and magnitude < 2^16, ANY y within relative error 2^-53 of
   the exact crossing fraction x that equals x whenever x is a multiple of 2^-16 — the two stated
   properties of a correctly rounded binary64 division, hypotheses here — gets the same code *)
Theorem C18_code_agrees_small_dyadic :
  forall r o v y,
    small_dyadic (rmin r) -> small_dyadic (rmax r) -> small_dyadic o -> small_dyadic v ->
    within r v = true -> within r o = false ->
    let x := cross r o v in
    (Qabs (y - x) <= x * (1 # two53))%Q ->
    (forall k, 0 <= k <= 65536 -> (x == k # 65536)%Q -> (y == x)%Q) ->
    wrap16 (linepart_code y) = code_spec x /\ wrap16 (linepart_code y) = edge_code r o v.
Proof. exact code_agrees_small_dyadic. Qed.

(* ---- non-vacuity ---- *)
Definition r13 : range := mkrange (1 # 1) (3 # 1).
Definition d7 : list Q := [0 # 1; 2 # 1; 5 # 1; 6 # 1; 5 # 2; 3 # 1; 4 # 1]%Q.

(* below, inside, above, above, inside, at-max, above *)
Example C18_run_example :
  run (Some r13) d7 = Done [mkpart 3 3 32768 43690; mkpart 4 4 56173 65535].
Proof. vm_compute. reflexivity. Qed.

Example C18_classes_example :
  spec_classes (Some r13) d7 = [Edge; Once; Edge; Edge; Once; Once; Edge].
Proof. vm_compute. reflexivity. Qed.

Example C18_counts_example :
  map (draw_count 0 [mkpart 3 3 32768 43690; mkpart 4 4 56173 65535]) [0; 1; 2; 3; 4; 5; 6]
  = [1; 1; 1; 1; 1; 1; 1].
Proof. vm_compute. reflexivity. Qed.

Example C18_interior_example :
  interior_out (Some r13) [5 # 1; 6 # 1; 7 # 1; 2 # 1]%Q 0 /\
  run (Some r13) [5 # 1; 6 # 1; 7 # 1; 2 # 1]%Q = Done [mkpart 2 0 0 0; mkpart 2 2 52428 0].
Proof.
  split; [|vm_compute; reflexivity].
  unfold interior_out, inr. vm_compute. repeat split; intros; discriminate.
Qed.

(* crossing of the segment 0 -> 2 with min = 1 at one half; 6 -> 5/2 meets max = 3 at 6/7 *)
Example C18_cross_example :
  (cross r13 (0 # 1) (2 # 1) == 1 # 2)%Q /\ code_spec (1 # 2) = 32768 /\
  (cross r13 (6 # 1) (5 # 2) == 6 # 7)%Q /\ code_spec (6 # 7) = 56173.
Proof. vm_compute. repeat split; reflexivity. Qed.

Example C18_join_example :
  linepart_join (mkpart 3 3 7 0) (mkpart 4 2 0 9) = Some (mkpart 7 5 7 9) /\
  linepart_join (mkpart 65533 65533 0 0) (mkpart 3 3 0 0) = None /\
  linepart_join (mkpart 3 4 0 5) (mkpart 4 2 0 9) = None.
Proof. vm_compute. repeat split; reflexivity. Qed.

Example C18_merged_example :
  run_merged (Some r13) d7 = Done [mkpart 3 3 32768 43690; mkpart 4 4 56173 65535] /\
  run_merged None d7 = Done [mkpart 7 7 0 0].
Proof. vm_compute. split; reflexivity. Qed.

Example C18_small_dyadic_example : small_dyadic (5 # 2) /\ small_dyadic (rmax r13).
Proof. split; [exists 163840|exists 196608]; split; try reflexivity; lia. Qed.

(* a representable quotient and a non-representable one meet the rounding hypotheses *)
Example C18_rounding_hypotheses_example :
  let x := cross r13 (0 # 1) (2 # 1) in
  (Qabs (x - x) <= x * (1 # two53))%Q /\ (forall k, 0 <= k <= 65536 -> (x == k # 65536)%Q -> (x == x)%Q).
Proof. split; [vm_compute; discriminate|reflexivity]. Qed.

Print Assumptions C18_progress.
Print Assumptions C18_consumes_each_point_once.
Print Assumptions C18_in_range_drawn_once.
Print Assumptions C18_out_of_range_interior_not_drawn.
Print Assumptions C18_parts_as_specified.
Print Assumptions C18_cut_trim_precision.
Print Assumptions C18_code_is_clipped_floor.
Print Assumptions C18_join_preserves_totals.
Print Assumptions C18_join_draws_union.
Print Assumptions C18_set_apply_covers_all.
Print Assumptions C18_set_apply_points.
Print Assumptions C18_code_agrees_small_dyadic.
