(* placeholder while the pipeline is brought up *)
From MptV Require Import C18.LinepartModel C18.LinepartSpec.
