(* C18 — a further dimension hands on a list of the same kind: the records of the result are again well
   formed and draw only points the data covers, so a third dimension can be applied to it. *)
From Coq Require Import ZArith QArith List Bool Lia.
From MptV Require Import C18.LinepartModel C18.LinepartSpec C18.LinepartCode C18.LinepartLocal C18.LinepartGlobal
  C18.LinepartMerge C18.LinepartDims C18.LinepartPoints2.
Import ListNotations.
Local Open Scope Z_scope.

(* [n]: the number of points every record has to stay within (at most the values of the dimension) *)
Definition keep (n : Z) (pp : Z * part) : Prop := wfo (snd pp) /\ 0 <= fst pp /\ fst pp + usr (snd pp) <= n.
Definition keeps (n : Z) (b : Z) (ps : list part) : Prop := Forall (keep n) (placed b ps).
Definition fitsn (n : Z) (b : Z) (ps : list part) : Prop := Forall (fun pp => fst pp + usr (snd pp) <= n) (placed b ps).

Lemma fitsn_fits data n b ps : n <= zlen data -> fitsn n b ps -> fits data b ps.
Proof. intros Hn H. unfold fits, fitsn in *. eapply Forall_impl; [|exact H]. intros pp Hp. cbn beta in *. lia. Qed.

Lemma keeps_app data : forall a b pos,
  keeps data pos (a ++ b) <-> keeps data pos a /\ keeps data (pos + sum_raw a) b.
Proof. intros a b pos. unfold keeps. rewrite placed_app, Forall_app. reflexivity. Qed.

Lemma emit_keeps data acc pt :
  keeps data 0 (rev acc) -> keep data (sum_raw acc, pt) -> keeps data 0 (rev (emit acc pt)).
Proof.
  intros Ha Hp. destruct acc as [|last rest]; cbn [emit].
  - cbn [rev app]. constructor; [exact Hp|constructor].
  - cbn [rev] in Ha. apply keeps_app in Ha. destruct Ha as [Hrest Hlast].
    rewrite Z.add_0_l, sum_raw_rev in Hlast. inversion Hlast as [|x l Hl _]; subst.
    cbn [sum_raw] in Hp.
    destruct (linepart_join last pt) as [j|] eqn:Ej.
    + cbn [rev]. apply keeps_app. split; [exact Hrest|]. rewrite Z.add_0_l, sum_raw_rev.
      constructor; [|constructor].
      destruct Hl as [[Hl1 [Hl2 Hl3]] [Hl4 Hl5]]. destruct Hp as [[Hp1 [Hp2 Hp3]] [Hp4 Hp5]]. cbn [fst snd] in *.
      destruct (join_spec last pt j ltac:(lia) ltac:(lia) ltac:(lia) ltac:(lia) Ej)
        as [Hr [Hu [_ [_ [Hrl [Hul [_ [_ Hur]]]]]]]].
      unfold keep, wfo. cbn [fst snd]. lia.
    + cbn [rev]. rewrite <- app_assoc. apply keeps_app. split; [exact Hrest|].
      rewrite Z.add_0_l, sum_raw_rev. cbn [app].
      constructor; [exact Hl|]. constructor; [|constructor]. cbn [fst snd placed].
      replace (sum_raw rest + raw last) with (raw last + sum_raw rest) by lia. exact Hp.
Qed.

Lemma merge_keeps r data n : n <= zlen data -> forall fuel old olds val len acc q,
  wfo old -> Forall wfo olds ->
  q = sum_raw acc -> 0 <= q -> val = zskip q data -> len = zlen data - q ->
  q + usr old <= n -> q + raw old + sum_raw olds <= zlen data -> fitsn n (q + raw old) olds ->
  Forall nn acc -> keeps n 0 (rev acc) ->
  (Z.to_nat len + length olds < fuel)%nat ->
  exists ps, merge fuel r old olds val len acc = Done ps /\ keeps n 0 ps.
Proof.
  intro Hnd.
  induction fuel as [|f IH]; intros old olds val len acc q Hold Holds Hq Hq0 Hval Hlen Hfo Hcov Hfits Hacc Hk Hfuel; [lia|].
  pose proof Hold as Hold'. destruct Hold as [Hr [Hu Hu16]].
  pose proof (sum_raw_nonneg olds (Forall_impl _ wfo_wfp Holds)) as Hsn.
  assert (Hzv : zlen val = len) by (rewrite Hval, zlen_zskip; lia).
  cbn [merge].
  assert (E3 : (len <? usr old) = false) by (apply Z.ltb_ge; lia). rewrite E3.
  destruct (Z.eqb_spec (usr old) 0) as [E0|E0].
  - assert (Hnn : nn old) by (unfold nn; lia).
    destruct (emit_sum acc old Hacc Hnn) as [Hes Hen].
    assert (Hk' : keeps n 0 (rev (emit acc old))).
    { apply emit_keeps; [exact Hk|]. unfold keep. cbn [fst snd]. rewrite <- Hq. auto. }
    destruct olds as [|o os].
    + eexists. split; [reflexivity|exact Hk'].
    + inversion Holds as [|x l Ho Hos]; subst x l. inversion Hfits as [|x l Hfo' Hfos]; subst x l. cbn [fst snd] in Hfo'.
      pose proof (sum_raw_nonneg os (Forall_impl _ wfo_wfp Hos)) as Hsn'.
      assert (Elt : (raw old <? len) = true) by (apply Z.ltb_lt; cbn [sum_raw] in Hcov; destruct Ho; lia). rewrite Elt.
      apply (IH o os (zskip (raw old) val) (len - raw old) (emit acc old) (q + raw old)); auto; try lia.
      * rewrite Hval. apply zskip_zskip; lia.
      * cbn [sum_raw] in Hcov. lia.
      * cbn [length] in Hfuel. lia.
  - destruct (linear_ok r val (usr old)) as [pt [Hpt Hok]]; [lia|]. rewrite Hpt.
    pose proof (linear_stop r val (usr old) pt ltac:(lia) Hu16 Hpt) as Hstop.
    pose proof (ok_progress _ _ _ _ Hok) as Hp1. pose proof (ok_usr _ _ _ _ Hok) as Hp2.
    set (pt1 := if negb (usr pt =? 0) && (cut pt <? cut old) then mkpart (raw pt) (usr pt) (cut old) (trim pt) else pt).
    set (pt2 := if (usr pt1 =? usr old) && (trim pt1 <? trim old) then mkpart (raw pt1) (usr pt1) (cut pt1) (trim old) else pt1).
    assert (H2 : raw pt2 = raw pt /\ usr pt2 = usr pt).
    { subst pt2 pt1. destruct (negb (usr pt =? 0) && (cut pt <? cut old)); cbn [raw usr];
        match goal with |- context [if ?c then _ else _] => destruct c end; cbn [raw usr]; auto. }
    destruct H2 as [Hr2 Hu2].
    destruct (Z.ltb_spec (raw pt2) (raw old)) as [Hlt|Hge].
    + assert (Hnn2 : nn pt2) by (unfold nn; lia).
      destruct (emit_sum acc pt2 Hacc Hnn2) as [Hes Hen].
      assert (Hk' : keeps n 0 (rev (emit acc pt2))).
      { apply emit_keeps; [exact Hk|]. unfold keep, wfo. cbn [fst snd]. lia. }
      rewrite !wrap16_small by lia.
      apply (IH (mkpart (raw old - raw pt2) (usr old - raw pt2) 0 (if usr old - raw pt2 =? 0 then 0 else trim old)) olds
                (zskip (raw pt2) val) (len - raw pt2) (emit acc pt2) (q + raw pt2)); auto; try (cbn [raw usr]; lia).
      * unfold wfo. cbn [raw usr]. lia.
      * rewrite Hval. apply zskip_zskip; lia.
      * cbn [raw]. replace (q + raw pt2 + (raw old - raw pt2)) with (q + raw old) by lia. exact Hfits.
    + set (pt3 := if raw old <? raw pt2 then mkpart (raw old) (usr pt2) (cut pt2) (trim pt2) else pt2).
      assert (H3 : raw pt3 = raw old /\ usr pt3 = usr pt).
      { subst pt3. destruct (Z.ltb_spec (raw old) (raw pt2)); cbn [raw usr]; lia. }
      destruct H3 as [Hr3 Hu3].
      assert (Hnn3 : nn pt3) by (unfold nn; lia).
      destruct (emit_sum acc pt3 Hacc Hnn3) as [Hes Hen].
      assert (Hk' : keeps n 0 (rev (emit acc pt3))).
      { apply emit_keeps; [exact Hk|]. unfold keep, wfo. cbn [fst snd]. lia. }
      destruct olds as [|o os].
      * eexists. split; [reflexivity|exact Hk'].
      * inversion Holds as [|x l Ho Hos]; subst x l. inversion Hfits as [|x l Hfo' Hfos]; subst x l. cbn [fst snd] in Hfo'.
        apply (IH o os (zskip (raw pt3) val) (len - raw pt3) (emit acc pt3) (q + raw old)); auto; try lia.
        -- rewrite Hval, Hr3. apply zskip_zskip; lia.
        -- cbn [sum_raw] in Hcov. lia.
        -- cbn [length] in Hfuel. lia.
Qed.

Lemma keeps_wfo_fits n : forall ps b, keeps n b ps -> Forall wfo ps /\ fitsn n b ps.
Proof.
  induction ps as [|p tl IH]; intros b H; [split; constructor|].
  unfold keeps in H. cbn [placed] in H. inversion H as [|x l Hp Htl]; subst x l.
  destruct (IH _ Htl) as [Hw Hf]. destruct Hp as [Hp1 [Hp2 Hp3]]. cbn [fst snd] in *.
  split; constructor; auto.
Qed.

Lemma apply_keeps r olds data n ps :
  n <= zlen data -> Forall wfo olds -> olds <> [] -> sum_raw olds <= zlen data -> fitsn n 0 olds ->
  apply olds r data = Done ps -> Forall wfo ps /\ fitsn n 0 ps.
Proof.
  intros Hnd Hw Hne Hcov Hfits. unfold apply.
  destruct olds as [|o os]; [congruence|].
  inversion Hw as [|x l Ho Hos]; subst x l.
  pose proof (sum_raw_nonneg os (Forall_impl _ wfo_wfp Hos)) as Hsn.
  assert (Hn : 0 < zlen data) by (cbn [sum_raw] in Hcov; destruct Ho; lia).
  destruct (Z.eqb_spec (zlen data) 0) as [E|_]; [lia|].
  unfold fitsn in Hfits. cbn [placed] in Hfits. inversion Hfits as [|x l Hfo Hfos]; subst x l. cbn [fst snd] in Hfo.
  destruct (merge_keeps r data n Hnd (length data + length (o :: os)) o os data (zlen data) [] 0)
    as [ps' [Hd Hk]]; auto; try (cbn [sum_raw] in Hcov; lia).
  - constructor.
  - unfold zlen. cbn [length]. lia.
  - intro H. rewrite Hd in H. inversion H; subst ps'. apply (keeps_wfo_fits n ps 0 Hk).
Qed.
