(* C18 — polyline::set with TWO stores of doubles (the second with at least as many values as the first):
   the part list it computes draws a point that is in range in both dimensions exactly once and no point
   that is interior out of range in one of them. *)
From Coq Require Import ZArith QArith List Bool Lia.
From MptV Require Import C18.LinepartModel C18.LinepartSpec C18.LinepartCode C18.LinepartLocal C18.LinepartGlobal
  C18.LinepartMerge C18.LinepartDims C18.LinepartPoints2 C18.LinepartKeeps C18.PolylineModel C18.PolylineSegs.
Import ListNotations.
Local Open Scope Z_scope.

Lemma segs_wfo r data : forall ps b, segs_ok r data b ps -> Forall wfo ps /\ fits data b ps.
Proof.
  induction ps as [|p tl IH]; intros b H; [split; constructor|].
  unfold segs_ok in H. cbn [placed] in H. inversion H as [|x l Hp Htl]; subst x l. cbn [fst snd] in Hp.
  destruct (IH _ Htl) as [Hw Hf]. destruct Hp as [Hp1 Hp2 Hp2' Hp3 _ _ _ _].
  split; constructor; auto.
  - unfold wfo. lia.
  - cbn [fst snd]. lia.
Qed.

Lemma fits_longer data data' b ps : zlen data <= zlen data' -> fits data b ps -> fits data' b ps.
Proof. intros Hl H. unfold fits in *. eapply Forall_impl; [|exact H]. intros pp Hp. cbn beta in *. lia. Qed.

Lemma two_dimensions r0 d0 r1 d1 : d0 <> [] -> zlen d0 <= zlen d1 ->
  exists ps, vis_loop_stores 0 (set_parts (zlen d0)) [SData r0 d0; SData r1 d1] = Done ps /\
    sum_raw ps = zlen d0 /\
    forall i, 0 <= i < zlen d0 ->
      (inr r0 (zn d0 i) -> inr r1 (zn d1 i) -> draw_count 0 ps i = 1) /\
      (interior_out r0 d0 i \/ interior_out r1 d1 i -> draw_count 0 ps i = 0).
Proof.
  intros Hne Hlen.
  assert (Hn : 0 < zlen d0) by (destruct d0; [congruence|unfold zlen; cbn [length]; lia]).
  destruct (run_merged_ok r0 d0) as [ps0 [Hd0 Hs0]].
  destruct (run_merged_segs r0 d0 ps0 Hd0) as [Hseg _].
  destruct (run_merged_points r0 d0 ps0 Hd0) as [_ Hp0].
  destruct (segs_wfo r0 d0 ps0 0 Hseg) as [Hw Hf].
  assert (Hne0 : ps0 <> []) by (intro E; rewrite E in Hs0; cbn in Hs0; lia).
  destruct (apply_total r1 ps0 d1 (Forall_impl _ wfo_wfp Hw)) as [ps [Hd1 _]].
  exists ps.
  cbn [vis_loop_stores]. unfold vis_apply. change (3 <=? 0) with false. cbv iota.
  change (apply (set_parts (zlen d0)) r0 d0) with (run_merged r0 d0). rewrite Hd0.
  change (3 <=? 0 + 1) with false. cbv iota. rewrite Hd1.
  split; [reflexivity|].
  destruct (apply_points2 r1 ps0 d1 ps Hw Hne0 ltac:(lia) (fits_longer d0 d1 0 ps0 Hlen Hf) Hd1) as [Hsum Hpts].
  split; [lia|].
  intros i Hi. destruct (Hp0 i Hi) as [Hin0 Hout0]. destruct (Hpts i ltac:(lia)) as [Ha [Hc Hd]].
  split.
  - intros H0 H1. apply Hc; [apply Hin0; exact H0|exact H1].
  - intros [H|H]; [apply Ha, Hout0, H|apply Hd, H].
Qed.

Lemma segs_fitsn r data : forall ps b, segs_ok r data b ps -> fitsn (zlen data) b ps.
Proof.
  intros ps b H. destruct (segs_wfo r data ps b H) as [_ Hf]. exact Hf.
Qed.

(* three stores (the transformation has three dimensions; a fourth store is refused by apply()) *)
Lemma three_dimensions r0 d0 r1 d1 r2 d2 : d0 <> [] -> zlen d0 <= zlen d1 -> zlen d0 <= zlen d2 ->
  exists ps, vis_loop_stores 0 (set_parts (zlen d0)) [SData r0 d0; SData r1 d1; SData r2 d2] = Done ps /\
    sum_raw ps = zlen d0 /\
    forall i, 0 <= i < zlen d0 ->
      (inr r0 (zn d0 i) -> inr r1 (zn d1 i) -> inr r2 (zn d2 i) -> draw_count 0 ps i = 1) /\
      (interior_out r0 d0 i \/ interior_out r1 d1 i \/ interior_out r2 d2 i -> draw_count 0 ps i = 0).
Proof.
  intros Hne Hl1 Hl2.
  assert (Hn : 0 < zlen d0) by (destruct d0; [congruence|unfold zlen; cbn [length]; lia]).
  destruct (run_merged_ok r0 d0) as [ps0 [Hd0 Hs0]].
  destruct (run_merged_segs r0 d0 ps0 Hd0) as [Hseg _].
  destruct (run_merged_points r0 d0 ps0 Hd0) as [_ Hp0].
  destruct (segs_wfo r0 d0 ps0 0 Hseg) as [Hw0 _].
  pose proof (segs_fitsn r0 d0 ps0 0 Hseg) as Hf0.
  assert (Hne0 : ps0 <> []) by (intro E; rewrite E in Hs0; cbn in Hs0; lia).
  destruct (apply_total r1 ps0 d1 (Forall_impl _ wfo_wfp Hw0)) as [ps1 [Hd1 _]].
  destruct (apply_points2 r1 ps0 d1 ps1 Hw0 Hne0 ltac:(lia) (fitsn_fits d1 (zlen d0) 0 ps0 Hl1 Hf0) Hd1) as [Hsum1 Hpts1].
  destruct (apply_keeps r1 ps0 d1 (zlen d0) ps1 Hl1 Hw0 Hne0 ltac:(lia) Hf0 Hd1) as [Hw1 Hf1].
  assert (Hne1 : ps1 <> []) by (intro E; rewrite E in Hsum1; cbn in Hsum1; lia).
  destruct (apply_total r2 ps1 d2 (Forall_impl _ wfo_wfp Hw1)) as [ps2 [Hd2 _]].
  destruct (apply_points2 r2 ps1 d2 ps2 Hw1 Hne1 ltac:(lia) (fitsn_fits d2 (zlen d0) 0 ps1 Hl2 Hf1) Hd2) as [Hsum2 Hpts2].
  exists ps2.
  cbn [vis_loop_stores]. unfold vis_apply. change (3 <=? 0) with false. cbv iota.
  change (apply (set_parts (zlen d0)) r0 d0) with (run_merged r0 d0). rewrite Hd0.
  change (3 <=? 0 + 1) with false. cbv iota. rewrite Hd1.
  change (3 <=? 0 + 1 + 1) with false. cbv iota. rewrite Hd2.
  split; [reflexivity|]. split; [lia|].
  intros i Hi. destruct (Hp0 i Hi) as [Hin0 Hout0].
  destruct (Hpts1 i ltac:(lia)) as [Ha1 [Hc1 Hdd1]]. destruct (Hpts2 i ltac:(lia)) as [Ha2 [Hc2 Hdd2]].
  split.
  - intros H0 H1 H2. apply Hc2; [apply Hc1; [apply Hin0; exact H0|exact H1]|exact H2].
  - intros [H|[H|H]].
    + apply Ha2, Ha1, Hout0, H.
    + apply Ha2, Hdd1, H.
    + apply Hdd2, H.
Qed.
