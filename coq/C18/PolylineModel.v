(* C18 — mechanism model of mpt++/polyline.cpp (NO proofs in this file).

   Transcribes, over exact rationals, on top of LinepartModel.v:

     mpt++/value_store.cpp  maxsize                       (AS PATCHED: the longest store of doubles)
     mpt++/linepart.cpp     linepart::array::set(len)     (all three cases: 0, < 0 "keep the total", > 0)
     mpt++/polyline.cpp     polyline::set, apply_data (with part records and without),
                            polyline::begin/end, iterator::operator++ / operator*, part::line / part::points
     mptplot/values.h       template apply<point<double>,double>   (what a part contributes to the points)
     mpt++/transform.cpp    layout::graph::transform3::apply, non-logarithmic axes with scale 1 and offset 0:
                            dimension 0 adds to x, 1 to y, 2 to both (the set-up of the harness)

   AS PATCHED (see docs/notes_C18.md; the unpatched behaviour is kept out of the generated cases by the
   constant switches of props/c18.py):
     docs/C18_set_stale_cut_trim.diff   set() clears _cut/_trim of the records it re-uses -> [set_parts]
     docs/C18_polyline_skip_store.diff  polyline::set walks the stores also behind one without usable data
     docs/C18_polyline_no_first_store.diff  polyline::set fails (polyline unchanged) when maxsize() finds no values (-1)
     docs/C18_apply_data_noparts.diff   apply_data without parts keeps its point count per dimension
     docs/C18_apply_short_part.diff     apply<> tests usr (not raw) before it reads a second point
     docs/C18_maxsize_all_stores.diff   maxsize() advances through the stores (the code looks at the first store only)
     docs/C18_apply_data_remaining.diff apply_data compares a part with the REMAINING values of the dimension (the code:
                                        with all of them), a part cut short that way loses its trim

   A value store is [SNone] (no data, or data of another type: skipped everywhere) or [SData r data]
   (doubles; [r] is the visible range the transformation has for this dimension).  Points are pairs of
   exact rationals; the point array starts as [zero() = (0,0)] and every dimension adds its share. *)
From Coq Require Import ZArith QArith List Bool.
From MptV Require Import C18.LinepartModel.
Import ListNotations.
Local Open Scope Z_scope.
Local Open Scope bool_scope.

Inductive store : Type := SNone | SData (r : option range) (data : list Q).

Record pstate := mkps { vis : list part; pts : list (Q * Q) }.

Definition sum_raw_m (ps : list part) : Z := fold_right (fun p a => raw p + a) 0 ps.
Definition sum_usr_m (ps : list part) : Z := fold_right (fun p a => usr p + a) 0 ps.

(* ---- value_store.cpp: maxsize(sl, traits), as patched by docs/C18_maxsize_all_stores.diff ("++val" in the loop
   header; the unpatched loop tests the FIRST store sl.size() times):
     len = -1; for every store: no data / other content type -> continue; curr = element_count(); if (curr > len) len = curr ---- *)
Fixpoint maxsize_from (len : Z) (sts : list store) : Z :=
  match sts with
  | [] => len
  | SNone :: tl => maxsize_from len tl
  | SData _ d :: tl => maxsize_from (if len <? zlen d then zlen d else len) tl
  end.
Definition maxsize (sts : list store) : Z := maxsize_from (-1) sts.

(* ---- linepart::array::set(len) ---- *)
Definition array_set (olds : list part) (len : Z) : list part :=
  if len =? 0 then [] else
  let len := if len <? 0 then sum_raw_m olds else len in
  set_parts len.

(* ---- linepart::array::apply(tr, dim, src): refused for dim >= tr.dimensions() = 3 ---- *)
Definition vis_apply (dim : Z) (olds : list part) (r : option range) (data : list Q) : run_res :=
  if 3 <=? dim then Done olds else apply olds r data.

Fixpoint vis_loop_stores (dim : Z) (v : list part) (sts : list store) : run_res :=
  match sts with
  | [] => Done v
  | SNone :: tl => vis_loop_stores (dim + 1) v tl
  | SData r d :: tl =>
    match vis_apply dim v r d with
    | Done v' => vis_loop_stores (dim + 1) v' tl
    | e => e
    end
  end.

(* ---- values.h apply<point<double>,double>: the [usr] values one part adds along one axis ----
   The template reads src[0], src[1] for the cut, src[usr-2], src[usr-1] for the trim and every value in
   between: exactly the window src[0 .. usr).  [take] is that checked read (Fault when the data ends before). *)
Fixpoint take (n : nat) (l : list Q) : res (list Q) :=
  match n with
  | O => Ok []
  | S n' =>
    match l with
    | [] => Fault
    | v :: tl => match take n' tl with Fault => Fault | Ok w => Ok (v :: w) end
    end
  end.

Definition zeros (n : Z) : list Q := repeat (0 # 1)%Q (Z.to_nat n).

(* point j of the window: the clipped first point, the clipped last point, or the value itself *)
Fixpoint clip_from (j u : Z) (f l : option Q) (w : list Q) : list Q :=
  match w with
  | [] => []
  | v :: tl =>
    (match (if j =? 0 then f else None) with
     | Some x => x
     | None => match (if j =? u - 1 then l else None) with Some x => x | None => v end
     end) :: clip_from (j + 1) u f l tl
  end.

Definition wn (w : list Q) (i : Z) : Q := nth (Z.to_nat i) w (0 # 1)%Q.

Definition part_contrib (p : part) (src : list Q) : res (list Q) :=
  let u := usr p in
  if u =? 0 then Ok [] else                              (* transform3::apply: nothing to do *)
  let c := linepart_real (cut p) in
  let t := linepart_real (trim p) in
  let hascut := negb (cut p =? 0) in
  let hastrim := negb (trim p =? 0) in
  if (hascut || hastrim) && (u <? 2) then Ok (zeros u) else   (* return before anything is read or added *)
  match take (Z.to_nat u) src with
  | Fault => Fault
  | Ok w =>
    (* d[0] += src[0] + cut * (src[1] - src[0]);  d[usr-1] += src[usr-1] + trim * (src[usr-2] - src[usr-1]) *)
    let f := if hascut then Some (wn w 0 + c * (wn w 1 - wn w 0))%Q else None in
    let l := if hastrim then Some (wn w (u - 1) + t * (wn w (u - 2) - wn w (u - 1)))%Q else None in
    Ok (clip_from 0 u f l w)
  end.

(* ---- apply_data, loop over the part records, one dimension: the share of every point ----
   As patched by docs/C18_apply_data_remaining.diff: [max] is what is LEFT of the dimension at this part
   ("if ((max -= lp[j].raw) <= 0) break;" - the unpatched loop keeps the whole length and reads behind the store
   for a part near its end) and the copy that is cut short loses its trim ("tmp._trim = 0"). *)
Fixpoint data_parts (ps : list part) (src : list Q) (max : Z) : res (list Q) :=
  match ps with
  | [] => Ok []
  | p :: tl =>
    if max <? usr p then
      (* tmp = lp[j]; tmp.usr = max; tmp._trim = 0; apply; break *)
      part_contrib (mkpart (raw p) (wrap16 max) (cut p) 0) src
    else
      match part_contrib p src with
      | Fault => Fault
      | Ok a =>
        if max - raw p <=? 0 then Ok a else
        match data_parts tl (zskip (raw p) src) (max - raw p) with
        | Fault => Fault
        | Ok b => Ok (a ++ b)
        end
      end
  end.

(* without part records: [plen] points, all visible, in pieces of 65535 *)
Fixpoint data_plain (fuel : nat) (src : list Q) (left : Z) : res (list Q) :=
  match fuel with
  | O => Fault
  | S f =>
    if U16MAX <? left then
      match part_contrib (mkpart U16MAX U16MAX 0 0) src with
      | Fault => Fault
      | Ok a =>
        match data_plain f (zskip U16MAX src) (left - U16MAX) with
        | Fault => Fault
        | Ok b => Ok (a ++ b)
        end
      end
    else part_contrib (mkpart (wrap16 left) (wrap16 left) 0 0) src
  end.

(* pad / cut a share to [n] points (the points a dimension does not reach keep their value) *)
Fixpoint fit (n : nat) (l : list Q) : list Q :=
  match n with
  | O => []
  | S n' => match l with [] => (0 # 1)%Q :: fit n' [] | v :: tl => v :: fit n' tl end
  end.

(* transform3 as set up by the harness: dimension 0 -> x, 1 -> y, 2 -> x and y *)
Definition axis_x (dim : Z) : bool := (dim =? 0) || (dim =? 2).
Definition axis_y (dim : Z) : bool := (dim =? 1) || (dim =? 2).

Fixpoint add_share (dim : Z) (pts : list (Q * Q)) (sh : list Q) : list (Q * Q) :=
  match pts, sh with
  | (x, y) :: ptl, v :: stl =>
    ((if axis_x dim then x + v else x)%Q, (if axis_y dim then y + v else y)%Q) :: add_share dim ptl stl
  | _, _ => pts
  end.

(* apply_data: [share] is [data_parts vis] or [data_plain]; stores behind dimension 2 are not looked at *)
Fixpoint apply_data_loop (share : list Q -> Z -> res (list Q)) (n : nat) (dim : Z) (sts : list store)
         (acc : list (Q * Q)) (proc : Z) : res (list (Q * Q) * Z) :=
  match sts with
  | [] => Ok (acc, proc)
  | s :: tl =>
    if 3 <=? dim then Ok (acc, proc) else
    match s with
    | SNone => apply_data_loop share n (dim + 1) tl acc proc
    | SData _ d =>
      if zlen d =? 0 then apply_data_loop share n (dim + 1) tl acc proc else
      match share d (zlen d) with
      | Fault => Fault
      | Ok sh => apply_data_loop share n (dim + 1) tl (add_share dim acc (fit n sh)) (proc + 1)
      end
    end
  end.

Definition origin (n : Z) : list (Q * Q) := repeat ((0 # 1)%Q, (0 # 1)%Q) (Z.to_nat n).

Definition apply_data_parts (ps : list part) (n : Z) (sts : list store) : res (list (Q * Q) * Z) :=
  apply_data_loop (data_parts ps) (Z.to_nat n) 0 sts (origin n) 0.

Definition apply_data_plain (n : Z) (sts : list store) : res (list (Q * Q) * Z) :=
  apply_data_loop (fun d max => data_plain (S (Z.to_nat n)) d (if max <? n then max else n))
                  (Z.to_nat n) 0 sts (origin n) 0.

(* ---- polyline::set ---- *)
Inductive set_res : Type := SetOk (ok : bool) (st : pstate) | SetStall | SetFault.

Definition polyline_set (st : pstate) (sts : list store) : set_res :=
  let max := maxsize sts in
  if max <=? 0 then SetOk false st else                  (* as patched: "max <= 0"; the code has "!max" *)
  match vis_loop_stores 0 (array_set (vis st) max) sts with
  | OutOfFuel => SetStall
  | RFault => SetFault
  | Done v =>
    let n := sum_usr_m v in
    if n =? 0 then SetOk false (mkps v []) else
    match apply_data_parts v n sts with
    | Fault => SetFault
    | Ok (p, _) => SetOk true (mkps v p)
    end
  end.

(* ---- the part iterator: for every part it yields, offset and length of line() and of points() ---- *)
Definition two64 : Z := 18446744073709551616.
Record view := mkview { line_off : Z; line_len : Z; pts_off : Z; pts_len : Z }.

Definition part_view (off : Z) (p : part) : view :=
  let c := if cut p =? 0 then 0 else 1 in
  let t := if trim p =? 0 then 0 else 1 in
  mkview off (usr p) (off + c) ((usr p - c - t) mod two64).       (* size_t len = usr; --len; --len *)

Inductive walk_res : Type := WDone (vs : list view) | WEndless (vs : list view).

Fixpoint iter_walk (ps : list part) (off n : Z) : walk_res :=
  if off =? n then WDone [] else                                   (* it != end() compares the point pointer *)
  match ps with
  | [] => WEndless []                                              (* operator++ without parts does nothing *)
  | p :: tl =>
    match iter_walk tl (off + usr p) n with
    | WDone vs => WDone (part_view off p :: vs)
    | WEndless vs => WEndless (part_view off p :: vs)
    end
  end.

Definition polyline_walk (st : pstate) : walk_res := iter_walk (vis st) 0 (zlen (pts st)).

(* operator* of an iterator without parts (end()): part(linepart(0), 0) *)
Definition end_view : view := part_view 0 (mkpart 0 0 0 0).

(* ---- linepart::set_cut / set_trim ---- *)
Definition set_code (old : Z) (v : Q) : bool * Z :=
  let c := linepart_code v in
  if c <? 0 then (false, old) else (true, wrap16 c).
